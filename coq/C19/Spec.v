(* C19 — the property.  Part 1: cpuset codec round trip.  Part 2: restart of the
   nodenumaresource ledger: what a fresh scheduler rebuilds from the persisted objects is the
   from-scratch ledger of exactly the allocations that were bound, with the values that were
   written.  Each part comes as Props plus a decision procedure (0 = holds, else clause id). *)
From Coq Require Import List ZArith Bool.
From Verif Require Import C19.Model.
Import ListNotations.
Open Scope Z_scope.

(* ------------------------------------------------------------------------------------ *)
(* Part 1: cpuset                                                                          *)
(* ------------------------------------------------------------------------------------ *)
Fixpoint strict_sorted (l : list Z) : bool :=
  match l with
  | [] => true
  | x :: t => match t with [] => true | y :: _ => (x <? y) && strict_sorted t end
  end.
(* ids Parse accepts back inside a range *)
Definition cpu_ok (x : Z) : bool := (0 <=? x) && (x <=? maxAvailableCPUCount).

(* canonical linux cpu-list: ascending, non-adjacent, non-empty ranges *)
Fixpoint ranges_canonical (rs : list (Z * Z)) : bool :=
  match rs with
  | [] => true
  | r :: t => (fst r <=? snd r)
              && match t with [] => true | r' :: _ => (snd r + 1 <? fst r') end
              && ranges_canonical t
  end.

Fixpoint eq_listZ (a b : list Z) : bool :=
  match a, b with
  | [], [] => true
  | x :: a', y :: b' => (x =? y) && eq_listZ a' b'
  | _, _ => false
  end.

(* reading a printed string as a list of ranges: "a" or "a-b" with a < b *)
Definition item_range (it : list Z) : option (Z * Z) :=
  match it with
  | [a] => Some (a, a)
  | [a; b] => if a <? b then Some (a, b) else None
  | _ => None
  end.
Fixpoint items_ranges (s : cstr) : option (list (Z * Z)) :=
  match s with
  | [] => Some []
  | it :: t => match item_range it, items_ranges t with
               | Some r, Some rs => Some (r :: rs)
               | _, _ => None
               end
  end.
Definition expand (rs : list (Z * Z)) : list Z :=
  flat_map (fun r => range_list (fst r) (Z.to_nat (snd r - fst r + 1))) rs.

(* The codec property for a set built from [raw], decided on the printed string [str] and on
   what reading it back gave ([None] = Parse returned an error):
   1 the string is not the canonical cpu list, 2 it does not denote the set,
   3 it cannot be read back although every id is a legal cpu id, 4 it reads back to another set *)
Definition cpuset_code (raw : list Z) (str : cstr) (res : option (list Z)) : Z :=
  let s := mkset raw in
  if is_nil s then
    (if is_empty_string str
     then match res with Some [] => 0 | Some _ => 4 | None => 3 end
     else 1)
  else match items_ranges str with
       | None => 1
       | Some rs =>
         if negb (ranges_canonical rs && (0 <=? fst (hd (0, 0) rs))) then 1
         else if negb (eq_listZ (expand rs) s) then 2
         else match res with
              | None => if forallb cpu_ok raw then 3 else 0
              | Some l => if eq_listZ l s then 0 else 4
              end
       end.

(* the same as Props *)
Definition Canonical (s : list Z) (str : cstr) : Prop :=
  match s with
  | [] => str = [[-1]]
  | _ => exists rs, str = map fmt_range rs /\ ranges_canonical rs = true /\ expand rs = s
  end.
Definition Roundtrip (s : list Z) : Prop := parse (format s) = Some s.

(* ------------------------------------------------------------------------------------ *)
(* Part 2: from-scratch ledger of the allocations of one node                               *)
(* ------------------------------------------------------------------------------------ *)
Definition ref_spec (ps : list palloc) (c : Z) : Z :=
  Z.of_nat (length (filter (fun p => memZ c (pa_cpus p)) ps)).
Definition numa_amt (n : Z) (l : list (Z * (Z * Z))) : Z * Z :=
  fold_right (fun e acc => if fst e =? n then pair_add (snd e) acc else acc) (0, 0) l.
Definition res_spec (ps : list palloc) (n : Z) : Z * Z :=
  fold_right (fun p acc => pair_add (numa_amt n (pa_numa p)) acc) (0, 0) ps.
Definition is_single (tp : topo) (n : Z) (p : palloc) : bool :=
  match used_numa tp (pa_cpus p) with [m] => m =? n | _ => false end.
Definition is_shared (tp : topo) (n : Z) (p : palloc) : bool :=
  let us := used_numa tp (pa_cpus p) in (1 <? Z.of_nat (length us)) && memZ n us.
Definition single_uids (tp : topo) (ps : list palloc) (n : Z) : list Z :=
  map pa_uid (filter (is_single tp n) ps).
Definition shared_uids (tp : topo) (ps : list palloc) (n : Z) : list Z :=
  map pa_uid (filter (is_shared tp n) ps).

(* allocations listed in a snapshot of one node (uid = position) *)
Fixpoint snap_pods_from (uid : Z) (l : list (option (list Z * list (Z * (Z * Z))))) : list palloc :=
  match l with
  | [] => []
  | None :: t => snap_pods_from (uid + 1) t
  | Some p :: t => mkPA uid 0 (fst p) (snd p) :: snap_pods_from (uid + 1) t
  end.
Definition snap_pods (s : nsnap) : list palloc := snap_pods_from 1 (sn_pods s).

Definition eq_pair (a b : Z * Z) : bool := (fst a =? fst b) && (snd a =? snd b).

(* the aggregates of a snapshot are the from-scratch ledger of the allocations it lists *)
Definition cpus_agree (ps : list palloc) (cpus : list (Z * Z)) : bool :=
  forallb (fun ce => fst (snd ce) =? ref_spec ps (fst ce))
          (combine (zrange 0 (length cpus)) cpus).
Definition numa_agree (tp : topo) (np : Z) (ps : list palloc) (numa : list ((Z * Z) * (Z * Z))) : bool :=
  forallb (fun ne => let n := fst ne in let e := snd ne in
             eq_pair (fst e) (res_spec ps n)
             && (fst (snd e) =? mask_of (single_uids tp ps n) np)
             && (snd (snd e) =? mask_of (shared_uids tp ps n) np))
          (combine (zrange 0 (length numa)) numa).
Definition ledger_ok (tp : topo) (np : Z) (s : nsnap) : bool :=
  cpus_agree (snap_pods s) (sn_cpus s) && numa_agree tp np (snap_pods s) (sn_numa s).

(* the ExclusivePolicy mark of a cpu: none when unreferenced, else the policy some holder asked for.
   [pol uid] is the policy the object of that uid carries. *)
Definition excl_agree (pol : Z -> Z) (ps : list palloc) (cpus : list (Z * Z)) : bool :=
  forallb (fun ce => let c := fst ce in let r := fst (snd ce) in let m := snd (snd ce) in
             if r =? 0 then m =? 0
             else existsb (fun p => memZ c (pa_cpus p) && (pol (pa_uid p) =? m)) ps)
          (combine (zrange 0 (length cpus)) cpus).

(* what the two caches must list for object uid on node [node], from the case alone *)
Definition written (ds : list pdesc) (uid : Z) : list Z * list (Z * (Z * Z)) :=
  (mkset (d_cpus (desc_of ds uid)), d_numa (desc_of ds uid)).
Definition empty_alloc (a : list Z * list (Z * (Z * Z))) : bool := is_nil (fst a) && is_nil (snd a).
Definition expect_live (ds : list pdesc) (life : Z -> Z) (node uid : Z) : option (list Z * list (Z * (Z * Z))) :=
  if ((life uid =? 1) || (life uid =? 2)) && (d_node (desc_of ds uid) =? node)
  then Some (written ds uid) else None.
(* an allocation of nothing is not restored (the handler returns early); nothing is lost by that *)
Definition expect_replay (ds : list pdesc) (life : Z -> Z) (node uid : Z) : option (list Z * list (Z * (Z * Z))) :=
  if (life uid =? 2) && (d_node (desc_of ds uid) =? node) && negb (empty_alloc (written ds uid))
  then Some (written ds uid) else None.

Fixpoint eq_numa (a b : list (Z * (Z * Z))) : bool :=
  match a, b with
  | [], [] => true
  | x :: a', y :: b' => (fst x =? fst y) && eq_pair (snd x) (snd y) && eq_numa a' b'
  | _, _ => false
  end.
Definition eq_alloc (a b : list Z * list (Z * (Z * Z))) : bool :=
  eq_listZ (fst a) (fst b) && eq_numa (snd a) (snd b).
Definition eq_opt_alloc (a b : option (list Z * list (Z * (Z * Z)))) : bool :=
  match a, b with
  | None, None => true
  | Some x, Some y => eq_alloc x y
  | _, _ => false
  end.
Fixpoint all2 {A} (f : A -> A -> bool) (a b : list A) : bool :=
  match a, b with
  | [], [] => true
  | x :: a', y :: b' => f x y && all2 f a' b'
  | _, _ => false
  end.

(* clause of one listed pod against its expectation: 0 ok, 1 lost, 2 phantom, 3 different value *)
Definition pod_clause (exp got : option (list Z * list (Z * (Z * Z)))) : Z :=
  match exp, got with
  | None, None => 0
  | Some _, None => 1
  | None, Some _ => 2
  | Some a, Some b => if eq_alloc a b then 0 else 3
  end.
Fixpoint first_nz (l : list Z) : Z :=
  match l with [] => 0 | x :: t => if x =? 0 then first_nz t else x end.
Definition pods_clause (exp : Z -> Z -> option (list Z * list (Z * (Z * Z)))) (node : Z) (s : nsnap) : Z :=
  first_nz (map (fun ue => pod_clause (exp node (fst ue)) (snd ue))
                (combine (zrange 1 (length (sn_pods s))) (sn_pods s))).

Definition same_pods (a b : nsnap) : bool := all2 eq_opt_alloc (sn_pods a) (sn_pods b).
Definition same_excl (a b : nsnap) : bool :=
  eq_listZ (map snd (sn_cpus a)) (map snd (sn_cpus b)).

(* the policy the persisted object carries *)
Definition pol_of (ds : list pdesc) (uid : Z) : Z := d_excl (desc_of ds uid).

Definition shape_ok (u : universe) (s : list nsnap) : bool :=
  (Z.of_nat (length s) =? u_nodes u)
  && forallb (fun n => (Z.of_nat (length (sn_pods n)) =? u_npods u)
                       && (Z.of_nat (length (sn_cpus n)) =? u_ncpu u)
                       && (Z.of_nat (length (sn_numa n)) =? u_nnuma u)) s.

(* one cut: live snapshot L, rebuilt snapshot R, life cycle at the cut.
   core clauses: 9 malformed, 6 the live cache does not list exactly the assumed and bound objects
   with the values chosen, 1 a bound allocation is missing after the restart, 2 the rebuilt cache
   lists something that is not bound, 3 it lists a different value than was written, 4 / 5 the
   rebuilt / live aggregates (cpu reference counts, per-NUMA amounts, NUMA marks) are not the
   from-scratch ledger of the listed allocations *)
Definition step_core (c : ncase) (life : Z -> Z) (LR : list nsnap * list nsnap) : Z :=
  let u := universe_of c in
  let ds := c_descs c in
  let '(L, R) := LR in
  if negb (shape_ok u L && shape_ok u R) then 9 else
  let nodes := zrange 1 (length L) in
  let cl_live := first_nz (map (fun ns => pods_clause (expect_live ds life) (fst ns) (snd ns)) (combine nodes L)) in
  if negb (cl_live =? 0) then 6 else
  let cl_rep := first_nz (map (fun ns => pods_clause (expect_replay ds life) (fst ns) (snd ns)) (combine nodes R)) in
  if negb (cl_rep =? 0) then cl_rep else
  if negb (forallb (ledger_ok (c_topo c) (u_npods u)) R) then 4 else
  if negb (forallb (ledger_ok (c_topo c) (u_npods u)) L) then 5 else 0.
(* exclusive-policy clauses: 7 a cpu's mark is not the policy of one of its holders (or not
   cleared), 8 both caches list the same allocations but mark a cpu differently *)
Definition step_excl (c : ncase) (LR : list nsnap * list nsnap) : Z :=
  let ds := c_descs c in
  let '(L, R) := LR in
  if negb (forallb (fun s => excl_agree (pol_of ds) (snap_pods s) (sn_cpus s)) (L ++ R)) then 7 else
  if negb (forallb (fun lr => negb (same_pods (fst lr) (snd lr)) || same_excl (fst lr) (snd lr)) (combine L R)) then 8
  else 0.
Definition step_code (c : ncase) (life : Z -> Z) (LR : list nsnap * list nsnap) : Z :=
  let k := step_core c life LR in if k =? 0 then step_excl c LR else k.

Definition prop_numa_core (c : ncase) (obs : list (list nsnap * list nsnap)) : Z :=
  if negb (Nat.eqb (length obs) (length (c_ops c))) then 9
  else first_nz (map (fun lo => step_core c (fst lo) (snd lo))
                     (combine (lives c live_init (c_ops c)) obs)).
Definition prop_numa (c : ncase) (obs : list (list nsnap * list nsnap)) : Z :=
  if negb (Nat.eqb (length obs) (length (c_ops c))) then 9
  else first_nz (map (fun lo => step_code c (fst lo) (snd lo))
                     (combine (lives c live_init (c_ops c)) obs)).

(* The property as a Prop, clause by clause, over the caches themselves *)
Definition node_pods (st : nstate) (node : Z) : list palloc :=
  map snd (filter (fun e => fst e =? node) (ns_pods st)).

(* the cache is the from-scratch ledger of the allocations it lists *)
Definition Ledger (tp : topo) (st : nstate) : Prop :=
  forall node,
    (forall c, ns_ref st node c = ref_spec (node_pods st node) c)
    /\ (forall n, ns_res st node n = res_spec (node_pods st node) n)
    /\ (forall n u, memZ u (ns_single st node n) = memZ u (single_uids tp (node_pods st node) n))
    /\ (forall n u, memZ u (ns_shared st node n) = memZ u (shared_uids tp (node_pods st node) n)).

(* it lists exactly [exp] *)
Definition Lists (st : nstate) (exp : Z -> Z -> option (list Z * list (Z * (Z * Z)))) : Prop :=
  forall node uid, option_map (fun p => (pa_cpus p, pa_numa p)) (find_pod (ns_pods st) node uid) = exp node uid.

(* well-formed case: the hypothesis of the restart theorems *)
Definition desc_ok (d : pdesc) : bool :=
  forallb cpu_ok (d_cpus d)
  && forallb (fun e => (0 <=? fst (snd e)) && (0 <=? snd (snd e))) (d_numa d)
  && (1 <=? d_node d).
Definition case_ok (c : ncase) : bool :=
  forallb desc_ok (c_descs c) && c_topo_first c && (0 <=? c_nodes c) && (0 <=? t_ncpu (c_topo c)).

(* objects that ever share a cpu on a node ask for the same exclusive policy *)
Definition share_cpu (a b : pdesc) : bool :=
  (d_node a =? d_node b) && existsb (fun x => memZ x (d_cpus b)) (d_cpus a).
Definition policies_agree (ds : list pdesc) : bool :=
  forallb (fun a => forallb (fun b => negb (share_cpu a b) || (d_excl a =? d_excl b)) ds) ds.

(* no Reservation that gets a cpuset asks for an exclusive policy (see Model.persisted_excl) *)
Definition rsv_no_excl (ds : list pdesc) : bool :=
  forallb (fun d => negb (d_kind d =? 1) || is_nil (d_cpus d) || (d_excl d =? 0)) ds.

Definition nontrivial_numa (c : ncase) : bool :=
  (* at least one cut at which a bound, non-empty allocation has to be restored *)
  existsb (fun life => existsb (fun u => (life u =? 2) && negb (empty_alloc (written (c_descs c) u)))
                               (zrange 1 (length (c_descs c))))
          (lives c live_init (c_ops c)).
