(* C19 — the restart theorems for the nodenumaresource ledger: for every history of the live
   scheduler and every cut, (1) the live cache lists exactly the assumed and bound objects with
   the values the scheduling cycle chose and is their from-scratch ledger; (2) whatever the
   order, duplication and update events of the informer replay, the cache a fresh scheduler
   builds from the stored objects lists exactly the bound objects, with exactly the values
   written (cpuset round trip included), and is their from-scratch ledger. *)
From Coq Require Import List ZArith Bool Lia.
From Verif Require Import Lib.ListX C19.Model C19.Spec C19.Proofs_Codec C19.Proofs_Ledger.
Import ListNotations.
Open Scope Z_scope.

Lemma Asc_NoDup l : Asc l -> NoDup l.
Proof.
  induction 1 as [|x t Hx HA IH]; constructor; [|exact IH].
  intros Hin. specialize (Hx x Hin). lia.
Qed.

Lemma rm_update_Inv tp ok st node p : Inv tp st -> palloc_ok p -> Inv tp (rm_update tp ok st node p).
Proof.
  intros HI Hp. unfold rm_update. destruct (ok node); [|exact HI].
  apply add_pod_Inv; [apply release_Inv, HI|exact Hp].
Qed.

Lemma rm_update_find tp ok st node p n u :
  ok node = true ->
  find_pod (ns_pods (rm_update tp ok st node p)) n u =
  if (n =? node) && (u =? pa_uid p) then Some p else find_pod (ns_pods st) n u.
Proof.
  intros Hok. unfold rm_update. rewrite Hok. rewrite add_pod_find.
  - rewrite release_find. destruct ((n =? node) && (u =? pa_uid p)); reflexivity.
  - rewrite release_find, !Z.eqb_refl. reflexivity.
Qed.

Definition proj (p : palloc) : list Z * list (Z * (Z * Z)) := (pa_cpus p, pa_numa p).
Definition listing (st : nstate) (node uid : Z) := option_map proj (find_pod (ns_pods st) node uid).

Section Restart.
  Variables (tp : topo) (ds : list pdesc).
  Hypothesis Hds : forallb desc_ok ds = true.

  Lemma desc_valid u : valid_uid ds u = true -> desc_ok (desc_of ds u) = true.
  Proof.
    unfold valid_uid, desc_of. rewrite andb_true_iff, Z.leb_le, Z.leb_le. intros [H1 H2].
    rewrite forallb_forall in Hds. apply Hds, nth_In. lia.
  Qed.

  Lemma desc_node_pos u : valid_uid ds u = true -> (d_node (desc_of ds u) =? 0) = false.
  Proof.
    intros Hv. pose proof (desc_valid u Hv) as H. unfold desc_ok in H.
    rewrite !andb_true_iff in H. destruct H as [_ H]. apply Z.leb_le in H. apply Z.eqb_neq. lia.
  Qed.

  Lemma written_ok u e : valid_uid ds u = true ->
    palloc_ok (mkPA u e (fst (written ds u)) (snd (written ds u))).
  Proof.
    intros Hv. pose proof (desc_valid u Hv) as H. unfold desc_ok in H.
    rewrite !andb_true_iff in H. destruct H as [[_ Hn] _].
    split; cbn [pa_cpus pa_numa written fst snd].
    - apply Asc_NoDup, mkset_Asc.
    - intros x Hx. rewrite forallb_forall in Hn. specialize (Hn x Hx).
      apply andb_true_iff in Hn. unfold pair_nonneg. rewrite !Z.leb_le in Hn. exact Hn.
  Qed.

  Lemma parse_written u : valid_uid ds u = true ->
    parse (format (fst (written ds u))) = Some (fst (written ds u)).
  Proof.
    intros Hv. pose proof (desc_valid u Hv) as H. unfold desc_ok in H.
    rewrite !andb_true_iff in H. destruct H as [[Hc _] _].
    apply cpuset_roundtrip; [apply mkset_Asc|].
    intros x Hx. cbn [written fst] in Hx. apply (proj1 (mkset_In _ _)) in Hx. rewrite forallb_forall in Hc. apply Hc, Hx.
  Qed.

  (* the informer handler on a bound object *)
  Lemma ev_update_bound ok st old u :
    valid_uid ds u = true ->
    ev_update tp ok st old (bound_obj ds u false) =
    if empty_alloc (written ds u) then st
    else rm_update tp ok st (d_node (desc_of ds u))
           (mkPA u (persisted_excl (desc_of ds u)) (fst (written ds u)) (snd (written ds u))).
  Proof.
    intros Hv. unfold ev_update, bound_obj. cbn [o_node o_term o_status o_uid o_excl].
    rewrite (desc_node_pos u Hv). unfold persist_status, alloc_of. cbn [pa_cpus pa_numa].
    change (mkset (d_cpus (desc_of ds u))) with (fst (written ds u)).
    rewrite (parse_written u Hv). unfold empty_alloc. cbn [written fst snd]. rewrite andb_comm. reflexivity.
  Qed.
  Lemma ev_update_term ok st old u :
    valid_uid ds u = true ->
    ev_update tp ok st old (bound_obj ds u true) = release tp st (d_node (desc_of ds u)) u.
  Proof.
    intros Hv. unfold ev_update, bound_obj. cbn [o_node o_term o_status o_uid o_excl].
    rewrite (desc_node_pos u Hv). reflexivity.
  Qed.
  Lemma ev_delete_bound st u b :
    valid_uid ds u = true ->
    ev_delete tp st (bound_obj ds u b) = release tp st (d_node (desc_of ds u)) u.
  Proof.
    intros Hv. unfold ev_delete, bound_obj. cbn [o_node o_uid]. rewrite (desc_node_pos u Hv). reflexivity.
  Qed.

  (* ---------------- the live scheduler ---------------- *)
  Record LiveInv (l : live) : Prop := mkLI {
    li_inv : Inv tp (l_st l);
    li_lists : forall n u, listing (l_st l) n u = expect_live ds (l_life l) n u;
    li_life : forall u, valid_uid ds u = false -> l_life l u = 0 }.

  Lemma LiveInv_init : LiveInv live_init.
  Proof. constructor; [apply Inv_init|reflexivity|reflexivity]. Qed.

  Lemma listing_rm_update ok st node p n u :
    ok node = true ->
    listing (rm_update tp ok st node p) n u =
    if (n =? node) && (u =? pa_uid p) then Some (proj p) else listing st n u.
  Proof.
    intros Hok. unfold listing. rewrite rm_update_find by exact Hok.
    destruct ((n =? node) && (u =? pa_uid p)); reflexivity.
  Qed.
  Lemma listing_release st node uid n u :
    listing (release tp st node uid) n u = if (n =? node) && (u =? uid) then None else listing st n u.
  Proof. unfold listing. rewrite release_find. destruct ((n =? node) && (u =? uid)); reflexivity. Qed.

  Lemma expect_live_upd life uid v n u :
    expect_live ds (upd1 life uid v) n u =
    if u =? uid then (if ((v =? 1) || (v =? 2)) && (d_node (desc_of ds u) =? n) then Some (written ds u) else None)
    else expect_live ds life n u.
  Proof. unfold expect_live, upd1. destruct (u =? uid); reflexivity. Qed.

  Lemma live_step_LiveInv l op : LiveInv l -> LiveInv (live_step tp ds l op).
  Proof.
    intros [HI HL Hlife]. destruct op as [k uid]. unfold live_step.
    destruct (valid_uid ds uid) eqn:Hv; cbn [negb]; [|constructor; assumption].
    set (d := desc_of ds uid). set (s := l_life l uid).
    assert (Hlife' : forall v u, valid_uid ds u = false -> upd1 (l_life l) uid v u = 0).
    { intros v u Hu. unfold upd1. destruct (u =? uid) eqn:E; [|apply Hlife, Hu].
      apply Z.eqb_eq in E. subst u. congruence. }
    (* the listing of [uid] on a node it is not assigned to is empty *)
    assert (Hoff : forall n, (d_node d =? n) = false -> listing (l_st l) n uid = None).
    { intros n En. rewrite HL. unfold expect_live. fold d. rewrite En, andb_false_r. reflexivity. }
    (* generic closing tactic for the listing goals *)
    assert (Hrel : forall v, ((v =? 1) || (v =? 2)) = false -> forall n u,
              (if (n =? d_node d) && (u =? uid) then None else listing (l_st l) n u) =
              expect_live ds (upd1 (l_life l) uid v) n u).
    { intros v Hvv n u. rewrite expect_live_upd, Hvv. cbn [andb].
      destruct (u =? uid) eqn:E; [|rewrite andb_false_r; apply HL].
      apply Z.eqb_eq in E. subst u. rewrite andb_true_r, Z.eqb_sym. fold d.
      destruct (d_node d =? n) eqn:En; [reflexivity|apply Hoff, En]. }
    assert (Hadd : forall v e, ((v =? 1) || (v =? 2)) = true -> forall n u,
              (if (n =? d_node d) && (u =? uid) then Some (proj (mkPA uid e (fst (written ds uid)) (snd (written ds uid))))
               else listing (l_st l) n u) =
              expect_live ds (upd1 (l_life l) uid v) n u).
    { intros v e Hvv n u. rewrite expect_live_upd, Hvv. cbn [andb].
      destruct (u =? uid) eqn:E; [|rewrite andb_false_r; apply HL].
      apply Z.eqb_eq in E. subst u. rewrite andb_true_r, Z.eqb_sym. fold d.
      destruct (d_node d =? n) eqn:En; [destruct (written ds uid); reflexivity|apply Hoff, En]. }
    destruct ((k =? 1) && (s =? 0)) eqn:C1.
    { constructor; cbn [l_st l_life]; [| |apply Hlife'].
      - apply rm_update_Inv; [exact HI|]. unfold alloc_of. apply (written_ok uid _ Hv).
      - intros n u. rewrite listing_rm_update by reflexivity. apply (Hadd 1 _ eq_refl). }
    destruct ((k =? 2) && (s =? 1)) eqn:C2.
    { constructor; cbn [l_st l_life]; [apply release_Inv, HI| |apply Hlife'].
      intros n u. rewrite listing_release. apply (Hrel 0 eq_refl). }
    destruct ((k =? 3) && (s =? 1)) eqn:C3.
    { apply andb_true_iff in C3. destruct C3 as [_ Hs]. apply Z.eqb_eq in Hs.
      rewrite (ev_update_bound _ _ _ _ Hv).
      constructor; cbn [l_st l_life]; [| |apply Hlife'].
      - destruct (empty_alloc (written ds uid)); [exact HI|]. apply rm_update_Inv; [exact HI|apply (written_ok uid _ Hv)].
      - intros n u. destruct (empty_alloc (written ds uid)).
        + rewrite expect_live_upd. destruct (u =? uid) eqn:E; [|apply HL].
          apply Z.eqb_eq in E. subst u. rewrite HL. unfold expect_live. fold s. rewrite Hs. reflexivity.
        + rewrite listing_rm_update by reflexivity. apply (Hadd 2 _ eq_refl). }
    destruct ((k =? 4) && ((s =? 2) || (s =? 4))) eqn:C4.
    { rewrite (ev_delete_bound _ _ _ Hv).
      constructor; cbn [l_st l_life]; [apply release_Inv, HI| |apply Hlife'].
      intros n u. rewrite listing_release. apply (Hrel 3 eq_refl). }
    destruct ((k =? 5) && (s =? 2)) eqn:C5.
    { apply andb_true_iff in C5. destruct C5 as [_ Hs]. apply Z.eqb_eq in Hs.
      rewrite (ev_update_bound _ _ _ _ Hv).
      assert (Hsame : forall n u, expect_live ds (upd1 (l_life l) uid 2) n u = expect_live ds (l_life l) n u).
      { intros n u. rewrite expect_live_upd. destruct (u =? uid) eqn:E; [|reflexivity].
        apply Z.eqb_eq in E. subst u. unfold expect_live. fold s. rewrite Hs. reflexivity. }
      constructor; cbn [l_st l_life]; [| |exact Hlife].
      - destruct (empty_alloc (written ds uid)); [exact HI|]. apply rm_update_Inv; [exact HI|apply (written_ok uid _ Hv)].
      - intros n u. destruct (empty_alloc (written ds uid)); [apply HL|].
        rewrite listing_rm_update by reflexivity. rewrite <- Hsame. apply (Hadd 2 _ eq_refl). }
    destruct ((k =? 7) && (s =? 2)) eqn:C7.
    { rewrite (ev_update_term _ _ _ _ Hv).
      constructor; cbn [l_st l_life]; [apply release_Inv, HI| |apply Hlife'].
      intros n u. rewrite listing_release. apply (Hrel 4 eq_refl). }
    constructor; assumption.
  Qed.

  (* ---------------- the fresh scheduler ---------------- *)
  Variable life : Z -> Z.
  Hypothesis Hlife : forall u, valid_uid ds u = false -> life u = 0.

  (* what the fresh cache lists once the objects in [dl] have been delivered *)
  Definition expect_partial (dl : Z -> bool) (n u : Z) :=
    if dl u then expect_replay ds life n u else None.

  Record FreshInv (f : fresh) : Prop := mkFI {
    fi_inv : Inv tp (f_st f);
    fi_topo : forall n, f_topo f n = true;
    fi_lists : exists dl, (forall n u, listing (f_st f) n u = expect_partial dl n u)
                          /\ (forall u, f_seen f u = true -> dl u = true) }.

  Lemma expect_replay_invalid n u : valid_uid ds u = false -> expect_replay ds life n u = None.
  Proof. intros Hv. unfold expect_replay. rewrite (Hlife u Hv). reflexivity. Qed.

  (* any of the three object events, for a valid uid whose object exists, leaves the cache
     listing that object as expected *)
  Lemma deliver_listing st old u o dl :
    valid_uid ds u = true -> obj_of ds life u = Some o -> (old = 0 \/ old = o_node o) ->
    Inv tp st -> (forall n v, listing st n v = expect_partial dl n v) ->
    Inv tp (ev_update tp all_ok st old o)
    /\ forall n v, listing (ev_update tp all_ok st old o) n v = expect_partial (upd1 dl u true) n v.
  Proof.
    intros Hv Ho Hold HI HL. unfold obj_of in Ho.
    assert (Hexp : forall n v, (v =? u) = false -> expect_partial (upd1 dl u true) n v = expect_partial dl n v).
    { intros n v E. unfold expect_partial, upd1. rewrite E. reflexivity. }
    assert (Hexp' : forall n, expect_partial (upd1 dl u true) n u = expect_replay ds life n u).
    { intros n. unfold expect_partial, upd1. rewrite Z.eqb_refl. reflexivity. }
    destruct (life u =? 3) eqn:E3; [discriminate|].
    destruct ((life u =? 2) || (life u =? 4)) eqn:E24.
    - injection Ho as <-. destruct (life u =? 4) eqn:E4.
      + (* terminated: released / ignored *)
        rewrite (ev_update_term _ _ _ _ Hv). split; [apply release_Inv, HI|].
        intros n v. rewrite listing_release. destruct (v =? u) eqn:E.
        * apply Z.eqb_eq in E. subst v. rewrite Hexp'. unfold expect_replay.
          apply Z.eqb_eq in E4. rewrite E4. cbn [Z.eqb andb].
          destruct (n =? d_node (desc_of ds u)); cbn [andb]; [reflexivity|].
          rewrite HL. unfold expect_partial, expect_replay. rewrite E4. cbn [Z.eqb andb]. destruct (dl u); reflexivity.
        * rewrite andb_false_r, Hexp by exact E. apply HL.
      + assert (E2 : (life u =? 2) = true) by (rewrite orb_false_r in E24; exact E24).
        rewrite (ev_update_bound _ _ _ _ Hv).
        destruct (empty_alloc (written ds u)) eqn:Ee.
        * split; [exact HI|]. intros n v. destruct (v =? u) eqn:E; [|rewrite Hexp by exact E; apply HL].
          apply Z.eqb_eq in E. subst v. rewrite Hexp', HL. unfold expect_partial, expect_replay.
          rewrite Ee, andb_false_r. destruct (dl u); reflexivity.
        * split; [apply rm_update_Inv; [exact HI|apply (written_ok u _ Hv)]|].
          intros n v. rewrite listing_rm_update by reflexivity. cbn [pa_uid].
          destruct (v =? u) eqn:E; [|rewrite andb_false_r, Hexp by exact E; apply HL].
          apply Z.eqb_eq in E. subst v. rewrite Hexp', andb_true_r. unfold expect_replay. rewrite E2, Ee. cbn [negb andb].
          rewrite (Z.eqb_sym n). destruct (d_node (desc_of ds u) =? n) eqn:En; [destruct (written ds u); reflexivity|].
          rewrite HL. unfold expect_partial, expect_replay. rewrite En, andb_false_r. destruct (dl u); reflexivity.
    - (* still pending: the handler ignores it *)
      injection Ho as <-. cbn [o_node] in Hold.
      assert (Hst : ev_update tp all_ok st old (mkObj u 0 false (d_excl (desc_of ds u)) None) = st).
      { unfold ev_update. cbn [o_node]. destruct Hold as [->| ->]; reflexivity. }
      rewrite Hst. split; [exact HI|]. intros n v.
      destruct (v =? u) eqn:E; [|rewrite Hexp by exact E; apply HL].
      apply Z.eqb_eq in E. subst v. rewrite Hexp', HL. unfold expect_partial, expect_replay.
      apply orb_false_iff in E24. destruct E24 as [E2 _]. rewrite E2. destruct (dl u); reflexivity.
  Qed.

  Lemma all_ok_ext (ok : Z -> bool) st old o :
    (forall n, ok n = true) -> ev_update tp ok st old o = ev_update tp all_ok st old o.
  Proof.
    intros H. unfold ev_update, rm_update. rewrite H. reflexivity.
  Qed.

  Lemma replay_step_FreshInv f ev : FreshInv f -> FreshInv (replay_step tp ds life f ev).
  Proof.
    intros [HI Ht (dl & HL & Hs)]. destruct ev as [k id]. unfold replay_step.
    destruct (k =? 4) eqn:K4.
    { constructor; cbn [f_st f_topo f_seen]; [exact HI| |exists dl; auto].
      intros n. unfold upd1. destruct (n =? id); [reflexivity|apply Ht]. }
    destruct (valid_uid ds id) eqn:Hv; cbn [negb]; [|constructor; [assumption|assumption|exists dl; auto]].
    destruct (obj_of ds life id) as [o|] eqn:Ho; [|constructor; [assumption|assumption|exists dl; auto]].
    destruct (k =? 1) eqn:K1.
    { rewrite (all_ok_ext _ _ _ _ Ht).
      destruct (deliver_listing (f_st f) 0 id o dl Hv Ho (or_introl eq_refl) HI HL) as [HI' HL'].
      constructor; cbn [f_st f_topo f_seen]; [exact HI'|exact Ht|].
      exists (upd1 dl id true). split; [exact HL'|].
      intros u. unfold upd1. destruct (u =? id); [reflexivity|apply Hs]. }
    destruct (k =? 2) eqn:K2.
    { rewrite (all_ok_ext _ _ _ _ Ht).
      destruct (deliver_listing (f_st f) (o_node o) id o dl Hv Ho (or_intror eq_refl) HI HL) as [HI' HL'].
      constructor; cbn [f_st f_topo f_seen]; [exact HI'|exact Ht|].
      exists (upd1 dl id true). split; [exact HL'|].
      intros u Hu. unfold upd1. destruct (u =? id); [reflexivity|apply Hs, Hu]. }
    destruct (k =? 3) eqn:K3.
    { rewrite (all_ok_ext _ _ _ _ Ht).
      destruct (deliver_listing (f_st f) 0 id o dl Hv Ho (or_introl eq_refl) HI HL) as [HI' HL'].
      constructor; cbn [f_st f_topo f_seen]; [exact HI'|exact Ht|].
      exists (upd1 dl id true). split; [exact HL'|].
      intros u Hu. unfold upd1. destruct (u =? id); [reflexivity|apply Hs, Hu]. }
    constructor; [assumption|assumption|exists dl; auto].
  Qed.

  Lemma fold_replay_FreshInv evs f : FreshInv f -> FreshInv (fold_left (replay_step tp ds life) evs f).
  Proof. revert f. induction evs as [|e t IH]; intros f H; [exact H|]. cbn [fold_left]. apply IH, replay_step_FreshInv, H. Qed.

  (* f_seen only grows, and an Add event of an existing object sets it *)
  Lemma replay_step_seen f ev u : f_seen f u = true -> f_seen (replay_step tp ds life f ev) u = true.
  Proof.
    intros H. destruct ev as [k id]. unfold replay_step.
    destruct (k =? 4); [exact H|]. destruct (negb (valid_uid ds id)); [exact H|].
    destruct (obj_of ds life id); [|exact H].
    destruct (k =? 1); [cbn [f_seen]; unfold upd1; destruct (u =? id); [reflexivity|exact H]|].
    destruct (k =? 2); [exact H|]. destruct (k =? 3); exact H.
  Qed.
  Lemma fold_replay_seen evs f u : f_seen f u = true -> f_seen (fold_left (replay_step tp ds life) evs f) u = true.
  Proof. revert f. induction evs as [|e t IH]; intros f H; [exact H|]. cbn [fold_left]. apply IH, replay_step_seen, H. Qed.

  Lemma range_list_In' a n y : In y (range_list a n) <-> a <= y < a + Z.of_nat n.
  Proof. apply range_list_In. Qed.

  (* after the completion every existing object has had its Add *)
  Lemma completion_seen nn f u :
    valid_uid ds u = true -> obj_of ds life u <> None ->
    f_seen (fold_left (replay_step tp ds life) (completion nn ds f) f) u = true.
  Proof.
    intros Hv Ho. destruct (f_seen f u) eqn:Es; [apply fold_replay_seen, Es|].
    unfold completion. rewrite fold_left_app.
    set (f1 := fold_left (replay_step tp ds life) (map (fun n => (4, n)) (zrange 1 (Z.to_nat nn))) f).
    assert (Hin : In u (filter (fun u0 => negb (f_seen f u0)) (zrange 1 (length ds)))).
    { apply filter_In. split; [|rewrite Es; reflexivity]. apply range_list_In.
      unfold valid_uid in Hv. apply andb_true_iff in Hv. rewrite !Z.leb_le in Hv. lia. }
    apply in_split in Hin. destruct Hin as (l1 & l2 & ->).
    rewrite map_app, fold_left_app. cbn [map fold_left]. apply fold_replay_seen.
    generalize (fold_left (replay_step tp ds life) (map (fun u0 : Z => (1, u0)) l1) f1). intros g.
    unfold replay_step. replace (1 =? 4) with false by reflexivity. replace (1 =? 1) with true by reflexivity.
    rewrite Hv. cbn [negb].
    destruct (obj_of ds life u); [|congruence]. cbn [f_seen]. unfold upd1. rewrite Z.eqb_refl. reflexivity.
  Qed.

  Theorem replay_lists nn script :
    let r := replay tp nn ds life true script in
    Inv tp r /\ forall n u, listing r n u = expect_replay ds life n u.
  Proof.
    intros r. unfold r, replay.
    set (f0 := mkFresh ns_init (fun _ => true) (fun _ => false)).
    set (f1 := fold_left (replay_step tp ds life) script f0).
    set (f2 := fold_left (replay_step tp ds life) (completion nn ds f1) f1).
    assert (H0 : FreshInv f0).
    { constructor; [apply Inv_init|reflexivity|]. exists (fun _ => false). split; [reflexivity|discriminate]. }
    pose proof (fold_replay_FreshInv script f0 H0) as H1. fold f1 in H1.
    pose proof (fold_replay_FreshInv (completion nn ds f1) f1 H1) as H2. fold f2 in H2.
    destruct H2 as [HI _ (dl & HL & Hs)]. split; [exact HI|].
    intros n u. rewrite HL. unfold expect_partial.
    destruct (dl u) eqn:Ed; [reflexivity|].
    destruct (valid_uid ds u) eqn:Hv; [|symmetry; apply expect_replay_invalid, Hv].
    unfold expect_replay. destruct (life u =? 2) eqn:E2; [|reflexivity].
    exfalso. assert (f_seen f2 u = true).
    { apply completion_seen; [exact Hv|]. unfold obj_of. apply Z.eqb_eq in E2. rewrite E2. discriminate. }
    rewrite (Hs u H) in Ed. discriminate.
  Qed.
End Restart.
