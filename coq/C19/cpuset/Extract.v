(* C19 / stream "cpuset" — flat-integer interface for the generic OCaml driver. *)
From Coq Require Import List ZArith Bool.
From Verif Require Import Lib.Wire C19.Model C19.Spec C19.Decode.
Import ListNotations.
Open Scope Z_scope.

Definition enc_cstr (s : cstr) : list Z :=
  Z.of_nat (length s) :: flat_map (fun it => Z.of_nat (length it) :: it) s.
Definition enc_res (r : option (list Z)) : list Z :=
  match r with None => [0; 0] | Some l => 1 :: Z.of_nat (length l) :: l end.
Definition dec_cstr (l : list Z) : cstr * list Z := decode_seq take_list l.

Definition run_case (inp : list Z) : list Z :=
  match inp with
  | 1 :: t => let s := mkset (fst (take_list t)) in
              enc_cstr (format s) ++ enc_res (parse (format s))
  | _ :: t => enc_res (parse (fst (dec_cstr t)))
  | [] => [-1]
  end.

(* mode 1: the property of the codec, decided on what the implementation printed and read back *)
Definition prop_case (inp obs : list Z) : Z :=
  match inp with
  | 1 :: t =>
      let raw := fst (take_list t) in
      let '(str, rest) := dec_cstr obs in
      cpuset_code raw str (match rest with
                           | ok :: r => if ok =? 0 then None else Some (fst (take_list r))
                           | [] => None end)
  | _ :: t =>
      match obs with
      | ok :: r => if ok =? 0 then 0 else if strict_sorted (fst (take_list r)) then 0 else 5
      | [] => 9
      end
  | [] => 0
  end.

Definition nontrivial_case (inp : list Z) : bool :=
  match inp with
  | 1 :: t => 1 <? Z.of_nat (length (ranges (mkset (fst (take_list t)))))
  | _ :: t => match parse (fst (dec_cstr t)) with Some l => 1 <? Z.of_nat (length l) | None => false end
  | [] => false
  end.

Definition finding_sig (inp obs : list Z) : Z := 0.

Require Extraction.
Require Import ExtrOcamlBasic.
Extraction "model.ml" run_case prop_case nontrivial_case finding_sig.
