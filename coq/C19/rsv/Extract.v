(* C19 / stream "rsv" — flat-integer interface for the generic OCaml driver. *)
From Coq Require Import List ZArith Bool.
From Verif Require Import Lib.Wire C19.Model C19.ModelRsv C19.Spec C19.SpecRsv C19.Decode.
Import ListNotations.
Open Scope Z_scope.

Definition dec_rdesc (l : list Z) : rdesc * list Z :=
  match l with a :: b :: c :: t => (mkRD a b c, t) | _ => (rd_default, []) end.
Definition decode_rcase (inp : list Z) : rcase :=
  match inp with
  | first :: nr :: t =>
      let '(ds, r1) := decode_seq dec_rdesc t in
      let '(ops, r2) := decode_seq dec_pair r1 in
      let '(sc, _) := decode_seq dec_pair r2 in
      mkRCase nr (zb first) ds ops sc
  | _ => mkRCase 0 true [] [] []
  end.
Definition dec_rentry (np : nat) (l : list Z) : rentry * list Z :=
  match l with
  | a :: b :: c :: t => let '(bits, r) := take_n np t in ((a, ((b, c), bits)), r)
  | _ => ((0, ((0, 0), [])), [])
  end.
Definition dec_rstep (nr np : nat) (l : list Z) :=
  let '(a, r) := decode_many (dec_rentry np) nr l in
  let '(b, r') := decode_many (dec_rentry np) nr r in ((a, b), r').

Definition run_case (inp : list Z) : list Z := enc_rrun (rrun (decode_rcase inp)).
Definition prop_case (inp obs : list Z) : Z :=
  let c := decode_rcase inp in
  let r := fst (decode_many (dec_rstep (Z.to_nat (r_nr c)) (length (r_descs c))) (length (r_ops c)) obs) in
  if negb (Spec.eq_listZ (enc_rrun r) obs) then 9 else prop_rsv c r.
Definition nontrivial_case (inp : list Z) : bool := nontrivial_rsv (decode_rcase inp).
(* known-finding shape 1: an assigned pod is missing (clause 1) in a case whose replay may deliver pods
   before their reservation *)
Definition finding_sig (inp obs : list Z) : Z :=
  let c := decode_rcase inp in
  if (prop_case inp obs =? 1) && negb (r_first c) && Spec.eq_listZ (run_case inp) obs then 1 else 0.

Require Extraction.
Require Import ExtrOcamlBasic.
Extraction "model.ml" run_case prop_case nontrivial_case finding_sig.
