(* C19 — proofs about the cpuset codec model: String() prints the canonical cpu list of the
   set, and Parse reads it back to exactly the same set. *)
From Coq Require Import List ZArith Bool Lia.
From Verif Require Import C19.Model C19.Spec.
Import ListNotations.
Open Scope Z_scope.

(* ---------- strictly ascending lists ---------- *)
Inductive Asc : list Z -> Prop :=
| Asc_nil : Asc []
| Asc_cons x l : (forall y, In y l -> x < y) -> Asc l -> Asc (x :: l).

Lemma strict_sorted_Asc l : strict_sorted l = true <-> Asc l.
Proof.
  induction l as [|x t IH]; cbn [strict_sorted].
  - split; intros; [constructor | reflexivity].
  - destruct t as [|y t'].
    + split; intros; [constructor; [intros ? []|constructor] | reflexivity].
    + rewrite andb_true_iff, Z.ltb_lt, IH. split.
      * intros [Hxy HA]. constructor; [|exact HA].
        inversion HA as [|? ? Hy HA']; subst.
        intros z [<-|Hz]; [exact Hxy|]. specialize (Hy z Hz). lia.
      * intros HA. inversion HA as [|? ? Hx HA']; subst. split; [apply Hx; left; reflexivity|exact HA'].
Qed.

Lemma ins_In x l y : In y (ins x l) <-> y = x \/ In y l.
Proof.
  induction l as [|z t IH]; cbn [ins].
  - cbn. intuition.
  - destruct (x <? z) eqn:E1; [cbn; intuition|].
    destruct (x =? z) eqn:E2.
    + apply Z.eqb_eq in E2. subst. cbn. intuition.
    + cbn. rewrite IH. intuition.
Qed.

Lemma ins_Asc x l : Asc l -> Asc (ins x l).
Proof.
  induction 1 as [|z t Hz HA IH]; cbn [ins].
  - constructor; [intros ? []|constructor].
  - destruct (x <? z) eqn:E1.
    + apply Z.ltb_lt in E1. constructor.
      * intros y [<-|Hy]; [exact E1|]. specialize (Hz y Hy). lia.
      * constructor; assumption.
    + destruct (x =? z) eqn:E2; [constructor; assumption|].
      apply Z.ltb_ge in E1. apply Z.eqb_neq in E2.
      constructor; [|exact IH].
      intros y Hy. apply ins_In in Hy. destruct Hy as [->|Hy]; [lia|auto].
Qed.

Lemma fold_ins_Asc xs acc : Asc acc -> Asc (fold_left (fun a x => ins x a) xs acc).
Proof. revert acc. induction xs as [|x t IH]; intros acc HA; cbn; [exact HA|]. apply IH, ins_Asc, HA. Qed.

Lemma fold_ins_In xs acc y :
  In y (fold_left (fun a x => ins x a) xs acc) <-> In y xs \/ In y acc.
Proof.
  revert acc. induction xs as [|x t IH]; intros acc; cbn [fold_left].
  - cbn. intuition.
  - rewrite IH, ins_In. cbn. intuition.
Qed.

Lemma mkset_Asc l : Asc (mkset l).
Proof. apply fold_ins_Asc. constructor. Qed.
Lemma mkset_In l y : In y (mkset l) <-> In y l.
Proof. unfold mkset. rewrite fold_ins_In. cbn. intuition. Qed.

(* two ascending lists with the same elements are equal *)
Lemma Asc_ext a b : Asc a -> Asc b -> (forall y, In y a <-> In y b) -> a = b.
Proof.
  intros HA. revert b. induction HA as [|x t Hx HA IH]; intros b HB Hab.
  - destruct b as [|y b']; [reflexivity|]. exfalso. apply (Hab y). left. reflexivity.
  - destruct HB as [|y b' Hy HB].
    + exfalso. apply (Hab x). left. reflexivity.
    + assert (x = y).
      { destruct (proj1 (Hab x) (or_introl eq_refl)) as [->|Hxb]; [reflexivity|].
        destruct (proj2 (Hab y) (or_introl eq_refl)) as [->|Hyt]; [reflexivity|].
        specialize (Hx y Hyt). specialize (Hy x Hxb). lia. }
      subst y. f_equal. apply IH; [exact HB|].
      intros z. split; intros Hz.
      * destruct (proj1 (Hab z) (or_intror Hz)) as [->|]; [|assumption].
        specialize (Hx _ Hz). lia.
      * destruct (proj2 (Hab z) (or_intror Hz)) as [->|]; [|assumption].
        specialize (Hy _ Hz). lia.
Qed.

Lemma mkset_id s : Asc s -> mkset s = s.
Proof. intros HA. apply Asc_ext; [apply mkset_Asc|exact HA|apply mkset_In]. Qed.
Lemma mkset_perm a b : (forall y, In y a <-> In y b) -> mkset a = mkset b.
Proof.
  intros H. apply Asc_ext; try apply mkset_Asc.
  intros y. rewrite !mkset_In. apply H.
Qed.
Lemma mkset_idem l : mkset (mkset l) = mkset l.
Proof. apply mkset_id, mkset_Asc. Qed.

(* appending something larger at the end *)
Lemma ins_snoc x acc : (forall y, In y acc -> y < x) -> ins x acc = acc ++ [x].
Proof.
  induction acc as [|z t IH]; intros H; cbn [ins app]; [reflexivity|].
  assert (z < x) by (apply H; left; reflexivity).
  destruct (x <? z) eqn:E1; [apply Z.ltb_lt in E1; lia|].
  destruct (x =? z) eqn:E2; [apply Z.eqb_eq in E2; lia|].
  f_equal. apply IH. intros y Hy. apply H. right. exact Hy.
Qed.

Lemma fold_ins_app xs acc : Asc (acc ++ xs) -> fold_left (fun a x => ins x a) xs acc = acc ++ xs.
Proof.
  revert acc. induction xs as [|x t IH]; intros acc HA; cbn [fold_left].
  - rewrite app_nil_r. reflexivity.
  - rewrite ins_snoc.
    + rewrite IH; rewrite <- app_assoc; cbn; [reflexivity|exact HA].
    + clear IH. induction acc as [|z acc' IHa]; [intros ? []|].
      cbn in HA. inversion HA as [|? ? Hz HA']; subst.
      intros y [<-|Hy]; [apply Hz, in_or_app; right; left; reflexivity|apply IHa; assumption].
Qed.

(* ---------- range_list ---------- *)
Lemma range_list_snoc a n : range_list a (S n) = range_list a n ++ [a + Z.of_nat n].
Proof.
  revert a. induction n as [|n IH]; intros a.
  - cbn. f_equal. lia.
  - change (range_list a (S (S n))) with (a :: range_list (a + 1) (S n)).
    rewrite IH. cbn [range_list app]. f_equal. f_equal. f_equal. lia.
Qed.
Lemma range_list_In a n y : In y (range_list a n) <-> a <= y < a + Z.of_nat n.
Proof.
  revert a. induction n as [|n IH]; intros a; cbn [range_list In].
  - lia.
  - rewrite IH. lia.
Qed.
Lemma range_list_Asc a n : Asc (range_list a n).
Proof.
  revert a. induction n as [|n IH]; intros a; cbn [range_list]; constructor; [|apply IH].
  intros y Hy. apply range_list_In in Hy. lia.
Qed.

(* ---------- String(): ranges ---------- *)
Lemma rc_cons r0 rs :
  ranges_canonical (r0 :: rs) = true <->
  fst r0 <= snd r0 /\ match rs with [] => True | r' :: _ => snd r0 + 1 < fst r' end
  /\ ranges_canonical rs = true.
Proof.
  change (ranges_canonical (r0 :: rs)) with
    ((fst r0 <=? snd r0) && match rs with [] => true | r' :: _ => (snd r0 + 1 <? fst r') end
     && ranges_canonical rs).
  rewrite !andb_true_iff, Z.leb_le. destruct rs as [|r' t]; [intuition|]. rewrite Z.ltb_lt. intuition.
Qed.
Definition rng_len (lo hi : Z) : nat := Z.to_nat (hi - lo + 1).

Lemma ranges_aux_hd lo hi l : exists h r, ranges_aux lo hi l = (lo, h) :: r /\ hi <= h.
Proof.
  revert lo hi. induction l as [|x t IH]; intros lo hi; cbn [ranges_aux].
  - exists hi, []. split; [reflexivity|lia].
  - destruct (x =? hi + 1) eqn:E.
    + apply Z.eqb_eq in E. destruct (IH lo x) as (h & r & -> & Hh). exists h, r. split; [reflexivity|lia].
    + exists hi, (ranges_aux x x t). split; [reflexivity|lia].
Qed.

Lemma ranges_aux_expand lo hi l :
  lo <= hi -> Asc (hi :: l) -> expand (ranges_aux lo hi l) = range_list lo (rng_len lo hi) ++ l.
Proof.
  revert lo hi. induction l as [|x t IH]; intros lo hi Hle HA; cbn [ranges_aux].
  - cbn. rewrite !app_nil_r. reflexivity.
  - inversion HA as [|? ? Hhi HA']; subst.
    assert (hi < x) by (apply Hhi; left; reflexivity).
    destruct (x =? hi + 1) eqn:E.
    + apply Z.eqb_eq in E. rewrite IH; [|lia|exact HA'].
      unfold rng_len. replace (Z.to_nat (x - lo + 1)) with (S (Z.to_nat (hi - lo + 1))) by lia.
      rewrite range_list_snoc, <- app_assoc. cbn [app]. do 2 f_equal. lia.
    + unfold expand. cbn [flat_map fst snd]. fold (expand (ranges_aux x x t)).
      rewrite IH; [|lia|exact HA'].
      unfold rng_len. replace (x - x + 1) with 1 by lia. cbn. reflexivity.
Qed.

Lemma ranges_aux_canonical lo hi l :
  lo <= hi -> Asc (hi :: l) -> ranges_canonical (ranges_aux lo hi l) = true.
Proof.
  revert lo hi. induction l as [|x t IH]; intros lo hi Hle HA; cbn [ranges_aux].
  - apply rc_cons. cbn [fst snd]. auto.
  - inversion HA as [|? ? Hhi HA']; subst.
    assert (hi < x) by (apply Hhi; left; reflexivity).
    destruct (x =? hi + 1) eqn:E.
    + apply Z.eqb_eq in E. apply IH; [lia|exact HA'].
    + apply Z.eqb_neq in E. apply rc_cons. cbn [fst snd].
      split; [exact Hle|]. split; [|apply IH; [lia|exact HA']].
      destruct (ranges_aux_hd x x t) as (h & r & -> & _). cbn [fst]. lia.
Qed.

Lemma ranges_expand s : Asc s -> expand (ranges s) = s.
Proof.
  destruct s as [|x t]; intros HA; [reflexivity|]. unfold ranges.
  rewrite ranges_aux_expand; [|lia|exact HA]. unfold rng_len. replace (x - x + 1) with 1 by lia. reflexivity.
Qed.
Lemma ranges_canonical_ok s : Asc s -> ranges_canonical (ranges s) = true.
Proof.
  destruct s as [|x t]; intros HA; [reflexivity|]. apply ranges_aux_canonical; [lia|exact HA].
Qed.
Lemma ranges_hd x t : fst (hd (0, 0) (ranges (x :: t))) = x.
Proof. unfold ranges. destruct (ranges_aux_hd x x t) as (h & r & -> & _). reflexivity. Qed.

(* ---------- Parse of a printed string ---------- *)
Definition range_ok (r : Z * Z) : bool :=
  int32_ok (fst r) && int32_ok (snd r) && ((fst r =? snd r) || (snd r <=? maxAvailableCPUCount)).

Lemma parse_item_fmt r :
  fst r <= snd r ->
  parse_item (fmt_range r) = if range_ok r then Some (range_list (fst r) (rng_len (fst r) (snd r))) else None.
Proof.
  destruct r as [a b]. cbn [fst snd]. intros Hle. unfold fmt_range, range_ok, rng_len. cbn [fst snd].
  destruct (a =? b) eqn:E.
  - apply Z.eqb_eq in E. subst b. cbn [parse_item]. rewrite andb_diag, orb_true_l, andb_true_r.
    destruct (int32_ok a); [|reflexivity]. replace (a - a + 1) with 1 by lia. reflexivity.
  - cbn [parse_item orb]. destruct (int32_ok a && int32_ok b); [|reflexivity]. cbn [andb].
    rewrite Z.leb_antisym. destruct (maxAvailableCPUCount <? b); reflexivity.
Qed.

(* all elements of the expansion lie at or above the first range start and ranges ascend *)
Lemma expand_In rs y : In y (expand rs) -> exists r, In r rs /\ fst r <= y <= snd r.
Proof.
  unfold expand. rewrite in_flat_map. intros (r & Hr & Hy). exists r. split; [exact Hr|].
  apply range_list_In in Hy. lia.
Qed.

Lemma canonical_lower rs r0 :
  ranges_canonical (r0 :: rs) = true -> forall r, In r rs -> snd r0 + 1 < fst r /\ fst r <= snd r.
Proof.
  revert r0. induction rs as [|r1 t IH]; intros r0 H r Hr; [destruct Hr|].
  apply rc_cons in H. destruct H as (H0 & H1 & H2).
  pose proof (proj1 (rc_cons r1 t) H2) as (H3 & _ & _).
  destruct Hr as [<-|Hr]; [split; assumption|].
  destruct (IH r1 H2 r Hr) as [Ha Hb]. lia.
Qed.

Lemma expand_Asc rs : ranges_canonical rs = true -> Asc (expand rs).
Proof.
  induction rs as [|r0 t IH]; intros H; [constructor|].
  unfold expand. cbn [flat_map]. fold (expand t).
  pose proof (canonical_lower t r0 H) as Hlow.
  apply rc_cons in H. destruct H as (H0 & _ & H2).
  specialize (IH H2).
  assert (Hall : forall y, In y (expand t) -> snd r0 < y).
  { intros y Hy. destruct (expand_In _ _ Hy) as (r & Hr & Hb). destruct (Hlow r Hr). lia. }
  generalize (range_list_Asc (fst r0) (Z.to_nat (snd r0 - fst r0 + 1))).
  assert (Hin : forall y, In y (range_list (fst r0) (Z.to_nat (snd r0 - fst r0 + 1))) -> y <= snd r0).
  { intros y Hy. apply range_list_In in Hy. lia. }
  revert Hin. generalize (range_list (fst r0) (Z.to_nat (snd r0 - fst r0 + 1))) as l.
  induction l as [|z l' IHl]; intros Hin HAl; cbn [app]; [exact IH|].
  inversion HAl as [|? ? Hz HAl']; subst. constructor.
  - intros y Hy. apply in_app_or in Hy. destruct Hy as [Hy|Hy]; [apply Hz, Hy|].
    specialize (Hall y Hy). specialize (Hin z (or_introl eq_refl)). lia.
  - apply IHl; [intros y Hy; apply Hin; right; exact Hy|exact HAl'].
Qed.

Lemma parse_items_fmt rs acc :
  ranges_canonical rs = true -> Asc (acc ++ expand rs) ->
  parse_items (map fmt_range rs) acc = if forallb range_ok rs then Some (acc ++ expand rs) else None.
Proof.
  revert acc. induction rs as [|r0 t IH]; intros acc Hc HA; cbn [map parse_items forallb].
  - cbn. rewrite app_nil_r. reflexivity.
  - pose proof (proj1 (rc_cons _ _) Hc) as (H0 & _ & H2).
    rewrite parse_item_fmt by exact H0.
    destruct (range_ok r0); cbn [andb]; [|reflexivity].
    unfold expand in HA |- *. cbn [flat_map] in HA |- *. fold (expand t) in HA |- *.
    unfold rng_len. rewrite app_assoc in HA.
    rewrite fold_ins_app.
    + rewrite IH; [rewrite <- app_assoc; reflexivity|exact H2|exact HA].
    + (* prefix of an ascending list *)
      clear -HA. revert HA.
      generalize (acc ++ range_list (fst r0) (Z.to_nat (snd r0 - fst r0 + 1))) as l.
      generalize (expand t) as e. intros e l. induction l as [|z l' IHl]; intros HA; [constructor|].
      cbn [app] in HA. inversion HA as [|? ? Hz HA']; subst. constructor.
      * intros y Hy. apply Hz, in_or_app. left. exact Hy.
      * apply IHl, HA'.
Qed.

Lemma format_not_empty_string x t : 0 <= x -> is_empty_string (format (x :: t)) = false.
Proof.
  intros Hx. unfold format, ranges. destruct (ranges_aux_hd x x t) as (h & r & -> & Hh).
  cbn [map]. unfold fmt_range. cbn [fst snd].
  destruct r as [|r1 r']; cbn [map is_empty_string]; [|destruct (x =? h); reflexivity].
  destruct (x =? h); [|reflexivity]. apply Z.eqb_neq. lia.
Qed.

(* what Parse returns on a printed set, in general *)
Lemma parse_format s :
  Asc s -> (forall x, In x s -> 0 <= x) ->
  parse (format s) = if forallb range_ok (ranges s) then Some s else None.
Proof.
  intros HA Hpos. destruct s as [|x t]; [reflexivity|].
  unfold parse. rewrite format_not_empty_string by (apply Hpos; left; reflexivity).
  unfold format. rewrite parse_items_fmt.
  - cbn [app]. rewrite ranges_expand by exact HA. reflexivity.
  - apply ranges_canonical_ok, HA.
  - cbn [app]. rewrite ranges_expand by exact HA. exact HA.
Qed.

Lemma ranges_In_bounds s r :
  Asc s -> In r (ranges s) -> In (fst r) s /\ In (snd r) s.
Proof.
  intros HA Hr. pose proof (ranges_expand s HA) as He. pose proof (ranges_canonical_ok s HA) as Hc.
  assert (Hle : fst r <= snd r).
  { clear He. revert Hc Hr. generalize (ranges s) as rs. induction rs as [|r0 t IH]; intros Hc Hr; [destruct Hr|]. destruct Hr as [<-|Hr].
    - apply rc_cons in Hc. tauto.
    - apply rc_cons in Hc. apply IH; tauto. }
  rewrite <- He. unfold expand. split; apply in_flat_map; exists r; (split; [exact Hr|]); apply range_list_In; lia.
Qed.

Theorem cpuset_roundtrip s :
  Asc s -> (forall x, In x s -> cpu_ok x = true) -> parse (format s) = Some s.
Proof.
  intros HA Hok.
  assert (Hb : forall x, In x s -> 0 <= x <= maxAvailableCPUCount).
  { intros x Hx. specialize (Hok x Hx). unfold cpu_ok in Hok. apply andb_true_iff in Hok. lia. }
  rewrite parse_format; [|exact HA|intros x Hx; apply Hb in Hx; lia].
  replace (forallb range_ok (ranges s)) with true; [reflexivity|].
  symmetry. apply forallb_forall. intros r Hr.
  destruct (ranges_In_bounds s r HA Hr) as [H1 H2]. apply Hb in H1. apply Hb in H2.
  unfold range_ok, int32_ok, maxAvailableCPUCount in *. lia.
Qed.

Theorem format_canonical s : Asc s -> (forall x, In x s -> 0 <= x) -> Canonical s (format s).
Proof.
  intros HA Hpos. destruct s as [|x t]; [reflexivity|].
  cbn [Canonical]. exists (ranges (x :: t)). split; [reflexivity|].
  split; [apply ranges_canonical_ok, HA|apply ranges_expand, HA].
Qed.

(* ---------- the decision procedure holds of the model, for every raw cpu list ---------- *)
Lemma eq_listZ_refl l : eq_listZ l l = true.
Proof. induction l as [|x t IH]; [reflexivity|]. cbn. rewrite Z.eqb_refl. exact IH. Qed.
Lemma eq_listZ_eq a b : eq_listZ a b = true -> a = b.
Proof.
  revert b. induction a as [|x t IH]; intros [|y b']; cbn; try discriminate; [reflexivity|].
  rewrite andb_true_iff, Z.eqb_eq. intros [-> H]. f_equal. apply IH, H.
Qed.

Lemma items_ranges_fmt rs :
  ranges_canonical rs = true -> items_ranges (map fmt_range rs) = Some rs.
Proof.
  induction rs as [|r0 t IH]; intros Hc; [reflexivity|].
  apply rc_cons in Hc. destruct Hc as (H0 & _ & H2).
  cbn [map items_ranges]. rewrite IH by exact H2.
  destruct r0 as [a b]. cbn [fst snd] in *. unfold fmt_range. cbn [fst snd].
  destruct (a =? b) eqn:E.
  - apply Z.eqb_eq in E. subst. reflexivity.
  - apply Z.eqb_neq in E. cbn [item_range]. replace (a <? b) with true by (symmetry; apply Z.ltb_lt; lia). reflexivity.
Qed.

Lemma cpuset_code_set raw s :
  Asc s -> (forall x, In x s -> 0 <= x) -> (forall x, In x s <-> In x raw) -> mkset raw = s ->
  cpuset_code raw (format s) (parse (format s)) = 0.
Proof.
  intros HA Hpos Hin Es. unfold cpuset_code. rewrite Es.
  destruct s as [|x t]; [reflexivity|].
  cbn [is_nil]. unfold format at 1. rewrite items_ranges_fmt by (apply ranges_canonical_ok, HA).
  rewrite ranges_canonical_ok by exact HA. rewrite ranges_hd. cbn [andb].
  replace (0 <=? x) with true by (symmetry; apply Z.leb_le, Hpos; left; reflexivity). cbn [negb].
  rewrite ranges_expand by exact HA. rewrite eq_listZ_refl. cbn [negb].
  rewrite parse_format by assumption.
  destruct (forallb range_ok (ranges (x :: t))) eqn:Er; [rewrite eq_listZ_refl; reflexivity|].
  destruct (forallb cpu_ok raw) eqn:Eok; [|reflexivity].
  exfalso.
  assert (H : parse (format (x :: t)) = Some (x :: t)).
  { apply cpuset_roundtrip; [exact HA|]. intros y Hy. apply Hin in Hy.
    rewrite forallb_forall in Eok. apply Eok, Hy. }
  rewrite parse_format in H by assumption. rewrite Er in H. discriminate.
Qed.

Theorem cpuset_code_model raw :
  (forall x, In x raw -> 0 <= x) ->
  cpuset_code raw (format (mkset raw)) (parse (format (mkset raw))) = 0.
Proof.
  intros Hpos. apply cpuset_code_set.
  - apply mkset_Asc.
  - intros x Hx. apply Hpos, mkset_In, Hx.
  - intros x. apply mkset_In.
  - reflexivity.
Qed.
