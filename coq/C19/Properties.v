(* C19 — exported theorems only. *)
From Coq Require Import List ZArith Bool.
From Verif Require Import C19.Model C19.Spec.
Open Scope Z_scope.
