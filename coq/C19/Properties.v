(* C19 — exported theorems only: each is closed by [exact] and followed by Print Assumptions. *)
From Coq Require Import List ZArith Bool.
From Verif Require Import C19.Model C19.ModelRsv C19.ModelDev C19.ModelQuota C19.Spec C19.SpecRsv C19.SpecDev
  C19.SpecQuota C19.Decode C19.ModelSched C19.SpecSched
  C19.Proofs_Codec C19.Proofs_Ledger C19.Proofs_Restart C19.Proofs_Snapshot C19.Proofs_Main
  C19.Proofs_Excl C19.Proofs_Rsv C19.Proofs_Dev C19.Proofs_DevSnap C19.Proofs_Quota C19.Proofs_QuotaSnap
  C19.Proofs_Sched.
Import ListNotations.
Open Scope Z_scope.

(* ---- cpuset codec (pkg/util/cpuset String / Parse) ---- *)

(* Parse (String s) = s for every set of legal cpu ids (0..4096) *)
Theorem c19_cpuset_roundtrip : forall s,
  Asc s -> (forall x, In x s -> cpu_ok x = true) -> parse (format s) = Some s.
Proof. exact cpuset_roundtrip. Qed.
Print Assumptions c19_cpuset_roundtrip.

(* String prints the canonical cpu list: ascending maximal ranges that denote exactly the set *)
Theorem c19_cpuset_format_canonical : forall s,
  Asc s -> (forall x, In x s -> 0 <= x) -> Canonical s (format s).
Proof. exact format_canonical. Qed.
Print Assumptions c19_cpuset_format_canonical.

(* NewCPUSet of any list (unsorted, duplicates) is the ascending duplicate-free list of its elements *)
Theorem c19_cpuset_mkset : forall l, Asc (mkset l) /\ forall y, In y (mkset l) <-> In y l.
Proof. exact (fun l => conj (mkset_Asc l) (mkset_In l)). Qed.
Print Assumptions c19_cpuset_mkset.

(* the decision procedure the checker runs on the implementation's strings holds of the model for
   every raw cpu list (in particular: whenever Parse accepts the printed string it returns the set) *)
Theorem c19_cpuset_code_model : forall raw,
  (forall x, In x raw -> 0 <= x) ->
  cpuset_code raw (format (mkset raw)) (parse (format (mkset raw))) = 0.
Proof. exact cpuset_code_model. Qed.
Print Assumptions c19_cpuset_code_model.

(* ---- nodenumaresource ledger ---- *)

(* Update (release + addPodAllocation) and Release keep the cache equal to the from-scratch ledger
   of the allocations it lists (cpu reference counts, per-NUMA amounts, single/shared NUMA marks) *)
Theorem c19_ledger_update : forall tp ok st node p,
  Inv tp st -> palloc_ok p -> Inv tp (rm_update tp ok st node p).
Proof. exact rm_update_Inv. Qed.
Print Assumptions c19_ledger_update.
Theorem c19_ledger_release : forall tp st node uid, Inv tp st -> Inv tp (release tp st node uid).
Proof. exact release_Inv. Qed.
Print Assumptions c19_ledger_release.

(* for every history of the live scheduler, every cut and every replay script (any order,
   duplicate adds, update events): the live cache lists exactly the assumed and bound objects, the
   rebuilt cache lists exactly the bound objects with exactly the values written, and both are the
   from-scratch ledgers of what they list *)
Theorem c19_restart : forall c, case_ok c = true -> forall ops script,
  let l := live_after c ops in
  let r := replay (c_topo c) (c_nodes c) (c_descs c) (l_life l) true script in
  Lists (l_st l) (expect_live (c_descs c) (l_life l)) /\ Ledger (c_topo c) (l_st l)
  /\ Lists r (expect_replay (c_descs c) (l_life l)) /\ Ledger (c_topo c) r.
Proof. exact restart_caches. Qed.
Print Assumptions c19_restart.

(* nothing taken by a bound object is free after the restart *)
Theorem c19_nothing_freed : forall c, case_ok c = true -> forall ops script node cpu,
  let l := live_after c ops in
  let r := replay (c_topo c) (c_nodes c) (c_descs c) (l_life l) true script in
  ns_ref r node cpu = ref_spec (node_pods r node) cpu
  /\ forall uid, expect_replay (c_descs c) (l_life l) node uid <> None ->
       exists p, In p (node_pods r node) /\ pa_uid p = uid
                 /\ (pa_cpus p, pa_numa p) = written (c_descs c) uid.
Proof. exact nothing_freed. Qed.
Print Assumptions c19_nothing_freed.

(* the rebuilt ledger is a function of the set of stored objects, not of the delivery order *)
Theorem c19_replay_order_irrelevant : forall c, case_ok c = true -> forall ops s1 s2 node,
  let l := live_after c ops in
  let r1 := replay (c_topo c) (c_nodes c) (c_descs c) (l_life l) true s1 in
  let r2 := replay (c_topo c) (c_nodes c) (c_descs c) (l_life l) true s2 in
  (forall uid, listing r1 node uid = listing r2 node uid)
  /\ (forall cpu, ns_ref r1 node cpu = ns_ref r2 node cpu)
  /\ (forall n, ns_res r1 node n = ns_res r2 node n)
  /\ (forall n x, memZ x (ns_single r1 node n) = memZ x (ns_single r2 node n))
  /\ (forall n x, memZ x (ns_shared r1 node n) = memZ x (ns_shared r2 node n)).
Proof. exact replay_order_irrelevant. Qed.
Print Assumptions c19_replay_order_irrelevant.

(* the same, as the decision procedure the checker runs on the implementation's observables:
   on the model's own run it answers 0 on every case (every history, cut and script) *)
Theorem c19_numa_restart_core : forall c, case_ok c = true -> prop_numa_core c (run_ncase c) = 0.
Proof. exact numa_restart_core. Qed.
Print Assumptions c19_numa_restart_core.

(* with the two hypotheses whose failure are findings 2 and 3 (objects sharing a cpu ask for the same
   exclusive policy; no Reservation with a cpuset asks for one) the ExclusivePolicy marks survive as
   well: the complete decision procedure answers 0 on every case *)
Theorem c19_numa_restart_full : forall c,
  case_ok c = true -> policies_agree (c_descs c) = true -> rsv_no_excl (c_descs c) = true ->
  prop_numa c (run_ncase c) = 0.
Proof. exact numa_restart_full. Qed.
Print Assumptions c19_numa_restart_full.

(* ---- reservation plugin: ReservationInfo.AssignedPods / Allocated ---- *)

(* with the reservations delivered before the pods: for every history, cut and replay script every
   reservation's assigned pods are exactly the bound pods annotated with it and Allocated is the sum
   of their requests, in the live and in the rebuilt cache *)
Theorem c19_rsv_restart : forall c, rcase_ok c = true -> prop_rsv c (rrun c) = 0.
Proof. exact rsv_restart. Qed.
Print Assumptions c19_rsv_restart.

(* ---- deviceshare: allocateSet / deviceUsed (cache level) ---- *)

(* for every history, cut and replay script (wherever the Device objects arrive): the live
   allocateSet lists the assumed and bound objects' allocations, the rebuilt one exactly the bound
   objects', and both caches' used amounts and virtual-function reference counts are the
   from-scratch sums / counts of what they list *)
Theorem c19_dev_restart : forall c, dcase_ok c = true -> forall ops script,
  let l := dlive_after c ops in
  let r := dreplay (d_descs c) (dl_life l) script in
  dlisted (d_descs c) (dl_st l) (dsel (d_descs c) (dl_life l) true) /\ Ledger no_topo (dl_st l)
  /\ dlisted (d_descs c) r (dsel (d_descs c) (dl_life l) false) /\ Ledger no_topo r.
Proof. exact dev_restart_caches. Qed.
Print Assumptions c19_dev_restart.

(* the same as the decision procedure the checker runs on the implementation's observables,
   including clause 7: a virtual function is taken exactly when a listed allocation carries it *)
Theorem c19_dev_restart_checked : forall c, dcase_ok c = true -> d_minors c <= 1000 -> prop_dev c (drun c) = 0.
Proof. exact dev_restart. Qed.
Print Assumptions c19_dev_restart_checked.

(* ---- elastic-quota manager: PodCache / isAssigned / Used (cache level) ---- *)

(* for every history, cut and replay script: the live manager lists every existing pod and marks
   the assumed, bound and terminated-but-not-deleted ones; the rebuilt manager lists every stored
   pod and marks exactly the bound non-terminated ones; Used of both is the from-scratch sum of the
   marked pods' requests *)
Theorem c19_quota_restart : forall c, qcase_ok c = true -> forall ops script,
  let l := qlive_after c ops in
  let r := qreplay (q_descs c) (ql_life l) script in
  qlisted (q_descs c) (ql_st l) (lex (ql_life l)) (lasg (ql_life l) true) /\ Ledger no_topo (ql_st l)
  /\ qlisted (q_descs c) r (fun u => qvalid (q_descs c) u && lex (ql_life l) u)
                           (fun u => qvalid (q_descs c) u && lasg (ql_life l) false u)
  /\ Ledger no_topo r.
Proof. exact quota_restart_caches. Qed.
Print Assumptions c19_quota_restart.

(* the same as the decision procedure the checker runs, which also demands that Used is identical
   in the live and the rebuilt manager whenever nothing is in flight: holds when no pod is left
   terminated-but-not-deleted (finding 4 otherwise) *)
Theorem c19_quota_restart_checked : forall c,
  qcase_ok c = true -> no_terminated c = true -> prop_quota c (qrun c) = 0.
Proof. exact quota_restart. Qed.
Print Assumptions c19_quota_restart_checked.

(* ---- the Reservation object's own path into the scheduler: eventhandlers.addReservation /
        updateReservation / deleteReservation, the reserve pod in the kube-scheduler cache
        (NodeInfo.Requested), the plugin's ReservationInfo ---- *)

(* one step of the running scheduler on one reservation (create, create-bound, assume, forget, bind,
   resync, terminate, delete, scheduler-name change, resize, rollback): the entry stays the one the
   stored object and the in-flight assumption dictate *)
Theorem c19_sched_step : forall nn d w op w' e,
  WInv w -> LInv true w e -> wstep nn d w op = Some w' -> (op_k op =? 10) = false ->
  WInv w' /\ LInv true w' (lstep w w' op e).
Proof. exact lstep_inv. Qed.
Print Assumptions c19_sched_step.

(* for every history without a node migration, every cut and every replay script (any order,
   duplicate Add, Update carrying the same object): the running scheduler holds exactly the Available
   reservations (on status.nodeName, with status.allocatable) and the in-flight assumptions, the
   rebuilt one exactly the Available reservations with exactly those values, whatever scheduler name
   they carry; ReservationInfo exists for exactly those *)
Theorem c19_sched_restart : forall c ops script, no_migration ops = true ->
  let l := slive_after c ops in
  Holds true (sl_w l) (sl_s l) /\ Holds false (sl_w l) (sreplay (s_descs c) (sl_w l) script).
Proof. exact sched_restart_caches. Qed.
Print Assumptions c19_sched_restart.

(* no reserved amount is considered free after the restart *)
Theorem c19_sched_nothing_freed : forall c ops script r, no_migration ops = true ->
  let l := slive_after c ops in
  let f := sreplay (s_descs c) (sl_w l) script in
  w_avail (sl_w l r) = true ->
  se_st (f r) = 1 /\ se_node (f r) = so_node (we_obj (sl_w l r)) /\ se_amt (f r) = so_alloc (we_obj (sl_w l r))
  /\ se_known (f r) = true
  /\ (r_valid (s_descs c) r = true -> held_on f (so_node (we_obj (sl_w l r))) r = true).
Proof. exact sched_nothing_freed. Qed.
Print Assumptions c19_sched_nothing_freed.

Theorem c19_sched_replay_order_irrelevant : forall c ops s1 s2 r, no_migration ops = true ->
  let l := slive_after c ops in
  got_cache (sreplay (s_descs c) (sl_w l) s1 r) = got_cache (sreplay (s_descs c) (sl_w l) s2 r)
  /\ se_known (sreplay (s_descs c) (sl_w l) s1 r) = se_known (sreplay (s_descs c) (sl_w l) s2 r).
Proof. exact sched_replay_order_irrelevant. Qed.
Print Assumptions c19_sched_replay_order_irrelevant.

(* the same as the decision procedure the checker runs on the implementation's observables (listing,
   per-node requested totals recomputed from the history, ReservationInfo), on every case *)
Theorem c19_sched_restart_checked : forall c, no_migration (s_ops c) = true -> prop_sched c (srun c) = 0.
Proof. exact sched_restart. Qed.
Print Assumptions c19_sched_restart_checked.

(* ---- where the faithful model violates the property (findings, replayed on the real code:
        corpus/C19/numa/finding*.case) ---- *)

(* finding 1: without the hypothesis "topology first" an allocation is lost: the pod's Add event
   precedes the NodeResourceTopology of its node, Update drops it, nothing re-delivers it *)
Definition c19_witness_late_topology : ncase :=
  decode_ncase [1; 4; 4; 0; 1; 0; 1; 0; 2; 0; 1; 0; 2; 1; 1; 3; 1; 2; 1; 1; 4; 1].
Theorem c19_any_order_with_late_topology_refuted :
  exists c, forallb desc_ok (c_descs c) = true /\ c_topo_first c = false
            /\ prop_numa_core c (run_ncase c) = 1.
Proof. exists c19_witness_late_topology. vm_compute. auto. Qed.
Print Assumptions c19_any_order_with_late_topology_refuted.

(* finding 2: the ExclusivePolicy mark of a cpu held by objects with different policies is the one
   of the last writer: same allocations listed, different marks (clause 8) *)
Definition c19_witness_mixed_policy : ncase :=
  decode_ncase [1; 4; 4; 1; 2; 0; 1; 2; 1; 0; 0; 0; 1; 1; 1; 0; 0; 4; 1; 1; 3; 1; 1; 2; 3; 2; 2; 1; 2; 1; 1].
Theorem c19_exclusive_mark_order_refuted :
  exists c, case_ok c = true /\ prop_numa_core c (run_ncase c) = 0 /\ prop_numa c (run_ncase c) = 8.
Proof. exists c19_witness_mixed_policy. vm_compute. auto. Qed.
Print Assumptions c19_exclusive_mark_order_refuted.

(* finding 3: the exclusive policy a Reservation's template asks for is not what the stored
   Reservation carries: the mark written at Reserve is not read back (clause 7) *)
Definition c19_witness_reservation_policy : ncase :=
  decode_ncase [1; 4; 4; 1; 1; 1; 1; 2; 2; 0; 1; 0; 2; 1; 1; 3; 1; 0].
Theorem c19_reservation_exclusive_policy_refuted :
  exists c, case_ok c = true /\ policies_agree (c_descs c) = true /\ prop_numa c (run_ncase c) = 7.
Proof. exists c19_witness_reservation_policy. vm_compute. auto. Qed.
Print Assumptions c19_reservation_exclusive_policy_refuted.

(* finding 5: a pod delivered before the Reservation it is allocated from is dropped *)
Definition c19_witness_pod_before_reservation : rcase :=
  mkRCase 1 false [mkRD 1 1000 1048576] [(1, 1); (3, 1)] [(1, 1); (6, 1)].
Theorem c19_rsv_any_order_refuted :
  exists c, forallb (rdesc_ok (r_nr c)) (r_descs c) = true /\ r_first c = false /\ prop_rsv c (rrun c) = 1.
Proof. exists c19_witness_pod_before_reservation. vm_compute. auto. Qed.
Print Assumptions c19_rsv_any_order_refuted.

(* finding 4: a terminated pod is charged by the live manager but not by the rebuilt one *)
Definition c19_witness_terminated_pod : qcase :=
  mkQCase 1 true [mkQD 1 1000 0] [(6, 1); (1, 1); (3, 1); (7, 1)] [].
Theorem c19_quota_used_identical_refuted :
  exists c, qcase_ok c = true /\ prop_quota c (qrun c) = 8.
Proof. exists c19_witness_terminated_pod. vm_compute. auto. Qed.
Print Assumptions c19_quota_used_identical_refuted.

(* ---- non-vacuity ---- *)
Example c19_cpuset_example : format [0; 1; 2; 5; 7; 8] = [[0; 2]; [5]; [7; 8]]
  /\ parse [[0; 2]; [5]; [7; 8]] = Some [0; 1; 2; 5; 7; 8].
Proof. split; reflexivity. Qed.
(* the bound 4096 of the round trip is tight: Parse rejects a range ending above it *)
Example c19_cpuset_limit : parse (format [4096; 4097]) = None.
Proof. reflexivity. Qed.
Example c19_case_ok_example :
  case_ok (mkCase 1 (mkTopo 4 2) [mkPD 0 1 2 [1; 0] [(0, (2000, 1024))]; mkPD 1 1 0 [2] []]
                  [(1, 1); (3, 1); (1, 2); (3, 2); (7, 1)] true [(1, 2); (2, 1); (1, 2)]) = true.
Proof. reflexivity. Qed.
Example c19_rcase_ok_example :
  rcase_ok (mkRCase 2 true [mkRD 1 1000 1048576; mkRD 2 500 0] [(1, 1); (3, 1); (1, 2)] [(1, 2); (1, 1)]) = true.
Proof. reflexivity. Qed.
Example c19_dcase_ok_example :
  dcase_ok (mkDCase 1 2 (100, 100) (100, 0) true 3 [mkDD 0 1 [(1, [(0, (50, 50))]); (2, [(1, (1, 0))])] [(2, [101; 102])]]
                    [(1, 1); (3, 1)] [(4, 1); (1, 1)]) = true.
Proof. reflexivity. Qed.
Example c19_scase_example :
  let c := mkSCase 2 [mkSD (1000, 1024) 3 0; mkSD (500, 0) 0 1]
                   [mkOp 1 1 0 0 0; mkOp 4 1 2 1000 1024; mkOp 1 2 0 0 0; mkOp 2 2 1 0 0; mkOp 8 1 0 0 0]
                   [(2, 1); (1, 2); (1, 1); (1, 1)] in
  no_migration (s_ops c) = true /\ nontrivial_sched c = true.
Proof. split; reflexivity. Qed.
