(* C19 — from caches to their snapshots: a cache that satisfies the ledger invariant and lists
   [exp] yields a snapshot on which the decision procedure of Spec.v answers 0. *)
From Coq Require Import List ZArith Bool Lia Permutation.
From Verif Require Import Lib.ListX C19.Model C19.Spec C19.Proofs_Codec C19.Proofs_Ledger C19.Proofs_Restart.
Import ListNotations.
Open Scope Z_scope.

(* ---------- generic list facts ---------- *)
Lemma first_nz_zero l : (forall x, In x l -> x = 0) -> first_nz l = 0.
Proof.
  induction l as [|x t IH]; intros H; [reflexivity|]. cbn [first_nz].
  rewrite (H x (or_introl eq_refl)). cbn. apply IH. intros y Hy. apply H. right. exact Hy.
Qed.
Lemma combine_map_r {A B} (f : A -> B) l : combine l (map f l) = map (fun x => (x, f x)) l.
Proof. induction l as [|x t IH]; [reflexivity|]. cbn. f_equal. exact IH. Qed.
Lemma zrange_length lo n : length (zrange lo n) = n.
Proof. unfold zrange. revert lo. induction n as [|n IH]; intros lo; [reflexivity|]. cbn. f_equal. apply IH. Qed.

Lemma flat_map_ext_in' {A B} (f g : A -> list B) l :
  (forall x, In x l -> f x = g x) -> flat_map f l = flat_map g l.
Proof.
  induction l as [|x t IH]; intros H; [reflexivity|]. cbn [flat_map].
  rewrite (H x (or_introl eq_refl)), IH; [reflexivity|]. intros y Hy. apply H. right. exact Hy.
Qed.

(* ---------- permutation by uid ---------- *)
Definition pick (ps : list palloc) (uid : Z) : list palloc :=
  match find (uid_is uid) ps with Some p => [p] | None => [] end.

Lemma perm_find_rm uid ps p :
  NoDup (map pa_uid ps) -> find (uid_is uid) ps = Some p -> Permutation ps (p :: rm uid ps).
Proof.
  induction ps as [|q t IH]; intros Hnd Hf; [discriminate|].
  inversion Hnd as [|? ? Hq Ht]; subst. cbn [find] in Hf.
  change (rm uid (q :: t)) with (if negb (uid_is uid q) then q :: rm uid t else rm uid t).
  destruct (uid_is uid q) eqn:E; cbn [negb].
  - injection Hf as ->. rewrite rm_notin; [reflexivity|].
    unfold uid_is in E. apply Z.eqb_eq in E. rewrite <- E. exact Hq.
  - rewrite perm_swap. constructor. apply IH; assumption.
Qed.

Lemma perm_by_uid n : forall lo ps,
  NoDup (map pa_uid ps) -> (forall p, In p ps -> lo <= pa_uid p < lo + Z.of_nat n) ->
  Permutation ps (flat_map (pick ps) (range_list lo n)).
Proof.
  induction n as [|n IH]; intros lo ps Hnd Hb.
  - destruct ps as [|p t]; [constructor|]. specialize (Hb p (or_introl eq_refl)). lia.
  - cbn [range_list flat_map].
    assert (Hext : forall ps', (forall u, u <> lo -> find (uid_is u) ps' = find (uid_is u) ps) ->
               flat_map (pick ps) (range_list (lo + 1) n) = flat_map (pick ps') (range_list (lo + 1) n)).
    { intros ps' H. apply flat_map_ext_in'. intros u Hu. apply range_list_In in Hu. unfold pick. rewrite H by lia. reflexivity. }
    unfold pick at 1. destruct (find (uid_is lo) ps) as [p|] eqn:Ef.
    + cbn [app]. rewrite (perm_find_rm lo ps p Hnd Ef) at 1. constructor.
      rewrite (Hext (rm lo ps)).
      * apply IH; [apply rm_NoDup, Hnd|].
        intros q Hq. assert (Hq' : In (pa_uid q) (map pa_uid (rm lo ps))) by (apply in_map, Hq).
        apply rm_uids in Hq'. destruct Hq' as [Hq1 Hq2].
        apply filter_In in Hq. destruct Hq as [Hq _]. specialize (Hb q Hq). lia.
      * intros u Hu. rewrite find_rm. replace (u =? lo) with false by (symmetry; apply Z.eqb_neq, Hu). reflexivity.
    + cbn [app]. apply IH; [exact Hnd|].
      intros q Hq. specialize (Hb q Hq). pose proof (find_uid_None _ _ Ef) as Hn.
      assert (pa_uid q <> lo) by (intros E; apply Hn; rewrite <- E; apply in_map, Hq). lia.
Qed.

(* ---------- the spec functions do not depend on order or on pa_excl ---------- *)
Definition erase (p : palloc) : palloc := mkPA (pa_uid p) 0 (pa_cpus p) (pa_numa p).

Lemma res_spec_perm a b n : Permutation a b -> res_spec a n = res_spec b n.
Proof.
  induction 1 as [|x a b H IH|x y a|a b c H1 IH1 H2 IH2]; [reflexivity| | |congruence].
  - rewrite !res_spec_cons, IH. reflexivity.
  - rewrite !res_spec_cons, <- !pair_add_assoc, (pair_add_comm (numa_amt n (pa_numa y))). reflexivity.
Qed.
Lemma ref_spec_perm a b c : Permutation a b -> ref_spec a c = ref_spec b c.
Proof. intros H. unfold ref_spec. f_equal. apply Permutation_length, filter_perm, H. Qed.
Lemma uids_perm (g : palloc -> bool) a b u :
  Permutation a b -> memZ u (map pa_uid (filter g a)) = memZ u (map pa_uid (filter g b)).
Proof.
  intros H. apply eq_true_iff_eq. rewrite !memZ_In.
  split; apply Permutation_in, Permutation_map, filter_perm; [exact H|symmetry; exact H].
Qed.

Lemma filter_map_erase (g : palloc -> bool) ps :
  (forall p, g (erase p) = g p) -> filter g (map erase ps) = map erase (filter g ps).
Proof.
  intros Hg. induction ps as [|p t IH]; [reflexivity|]. cbn [map filter]. rewrite Hg.
  destruct (g p); cbn [map]; [f_equal|]; exact IH.
Qed.
Lemma ref_spec_erase ps c : ref_spec (map erase ps) c = ref_spec ps c.
Proof. unfold ref_spec. rewrite filter_map_erase by reflexivity. rewrite map_length. reflexivity. Qed.
Lemma res_spec_erase ps n : res_spec (map erase ps) n = res_spec ps n.
Proof. induction ps as [|p t IH]; [reflexivity|]. cbn [map]. rewrite !res_spec_cons, IH. reflexivity. Qed.
Lemma uids_erase (g : palloc -> bool) ps :
  (forall p, g (erase p) = g p) -> map pa_uid (filter g (map erase ps)) = map pa_uid (filter g ps).
Proof. intros Hg. rewrite filter_map_erase by exact Hg. rewrite map_map. reflexivity. Qed.

(* ---------- the pods a snapshot lists ---------- *)
Lemma snap_pods_from_map (f : Z -> option palloc) lo n :
  snap_pods_from lo (map (fun uid => option_map proj (f uid)) (range_list lo n)) =
  flat_map (fun uid => match f uid with Some p => [mkPA uid 0 (pa_cpus p) (pa_numa p)] | None => [] end)
           (range_list lo n).
Proof.
  revert lo. induction n as [|n IH]; intros lo; [reflexivity|].
  cbn [range_list map flat_map snap_pods_from]. destruct (f lo) as [p|]; cbn [option_map snap_pods_from app];
    rewrite IH; reflexivity.
Qed.

Section Snap.
  Variables (tp : topo) (u : universe) (st : nstate) (node : Z).
  Hypothesis HI : Inv tp st.
  Hypothesis Hnp : 0 <= u_npods u.
  (* every pod listed on the node has its uid inside the observed range *)
  Hypothesis Hrange : forall uid, find_pod (ns_pods st) node uid <> None -> 1 <= uid <= u_npods u.

  Let ps := node_pods st node.

  Lemma snap_pods_perm : Permutation (map erase ps) (snap_pods (snap_node u st node)).
  Proof.
    unfold snap_pods, snap_node. cbn [sn_pods]. unfold zrange.
    rewrite (snap_pods_from_map (fun uid => find_pod (ns_pods st) node uid)).
    assert (Hnd : NoDup (map pa_uid ps)) by apply (inv_keys _ _ HI).
    assert (Hb : forall p, In p ps -> 1 <= pa_uid p < 1 + Z.of_nat (Z.to_nat (u_npods u))).
    { intros p Hp. assert (Hf : find (uid_is (pa_uid p)) ps <> None).
      { intros Hn. apply find_uid_None in Hn. apply Hn, in_map, Hp. }
      unfold ps in Hf. unfold node_pods in Hf. rewrite <- find_pod_node_pods in Hf. apply Hrange in Hf. lia. }
    rewrite (perm_by_uid _ 1 ps Hnd Hb) at 1.
    clear Hb.
    generalize (range_list 1 (Z.to_nat (u_npods u))). intros l.
    induction l as [|x t IH]; [constructor|]. cbn [flat_map map]. rewrite map_app.
    apply Permutation_app; [|exact IH].
    unfold pick. rewrite find_pod_node_pods. fold (node_pods st node). fold ps.
    destruct (find (uid_is x) ps) as [p|] eqn:Ef; [|constructor].
    destruct (find_uid_In _ _ _ Ef) as [_ Hu]. cbn [map]. unfold erase. rewrite Hu. reflexivity.
  Qed.

  Lemma snap_ref c : ref_spec (snap_pods (snap_node u st node)) c = ns_ref st node c.
  Proof.
    rewrite <- (ref_spec_perm _ _ c snap_pods_perm), ref_spec_erase.
    symmetry. apply (inv_ledger _ _ HI node).
  Qed.
  Lemma snap_res n : res_spec (snap_pods (snap_node u st node)) n = ns_res st node n.
  Proof.
    rewrite <- (res_spec_perm _ _ n snap_pods_perm), res_spec_erase.
    symmetry. apply (inv_ledger _ _ HI node).
  Qed.
  Lemma is_single_erase n p : is_single tp n (erase p) = is_single tp n p.
  Proof. reflexivity. Qed.
  Lemma is_shared_erase n p : is_shared tp n (erase p) = is_shared tp n p.
  Proof. reflexivity. Qed.
  Lemma snap_single n x : memZ x (single_uids tp (snap_pods (snap_node u st node)) n) = memZ x (ns_single st node n).
  Proof.
    unfold single_uids. rewrite <- (uids_perm _ _ _ x snap_pods_perm), uids_erase by (apply is_single_erase).
    symmetry. apply (inv_ledger _ _ HI node).
  Qed.
  Lemma snap_shared n x : memZ x (shared_uids tp (snap_pods (snap_node u st node)) n) = memZ x (ns_shared st node n).
  Proof.
    unfold shared_uids. rewrite <- (uids_perm _ _ _ x snap_pods_perm), uids_erase by (apply is_shared_erase).
    symmetry. apply (inv_ledger _ _ HI node).
  Qed.

  Lemma mask_of_ext a b np : (forall x, memZ x a = memZ x b) -> mask_of a np = mask_of b np.
  Proof.
    intros H. unfold mask_of. f_equal. apply map_ext. intros x. rewrite H. reflexivity.
  Qed.

  Lemma snap_ledger_ok : ledger_ok tp (u_npods u) (snap_node u st node) = true.
  Proof.
    unfold ledger_ok. apply andb_true_iff. split.
    - unfold cpus_agree. apply forallb_forall. intros [c e] Hin.
      cbn [snap_node sn_cpus] in Hin. rewrite map_length, zrange_length in Hin.
      change (range_list 0 (Z.to_nat (u_ncpu u))) with (zrange 0 (Z.to_nat (u_ncpu u))) in Hin.
      rewrite combine_map_r in Hin. apply in_map_iff in Hin. destruct Hin as (c' & Hc & _).
      injection Hc as <- <-. cbn [fst snd]. rewrite snap_ref. apply Z.eqb_refl.
    - unfold numa_agree. apply forallb_forall. intros [n e] Hin.
      cbn [snap_node sn_numa] in Hin. rewrite map_length, zrange_length in Hin.
      rewrite combine_map_r in Hin. apply in_map_iff in Hin. destruct Hin as (n' & Hn & _).
      injection Hn as <- <-. cbn [fst snd]. rewrite snap_res.
      rewrite (mask_of_ext _ _ _ (snap_single n')), (mask_of_ext _ _ _ (snap_shared n')).
      unfold eq_pair. rewrite !Z.eqb_refl. reflexivity.
  Qed.
End Snap.

(* ---------- equality deciders ---------- *)
Lemma eq_numa_refl l : eq_numa l l = true.
Proof. induction l as [|x t IH]; [reflexivity|]. cbn. unfold eq_pair. rewrite !Z.eqb_refl. exact IH. Qed.
Lemma eq_alloc_refl a : eq_alloc a a = true.
Proof. unfold eq_alloc. rewrite eq_listZ_refl, eq_numa_refl. reflexivity. Qed.
Lemma pod_clause_refl x : pod_clause x x = 0.
Proof. destruct x as [a|]; [cbn; rewrite eq_alloc_refl|]; reflexivity. Qed.

Lemma snap_pods_clause u st node exp :
  (forall uid, listing st node uid = exp node uid) ->
  pods_clause exp node (snap_node u st node) = 0.
Proof.
  intros H. unfold pods_clause. apply first_nz_zero. intros x Hx.
  apply in_map_iff in Hx. destruct Hx as ([uid e] & <- & Hin). cbn [fst snd].
  cbn [snap_node sn_pods] in Hin. rewrite map_length, zrange_length in Hin.
  rewrite combine_map_r in Hin. apply in_map_iff in Hin. destruct Hin as (uid' & He & _).
  injection He as <- <-. change (option_map _ (find_pod (ns_pods st) node uid')) with (listing st node uid').
  rewrite H. apply pod_clause_refl.
Qed.

Lemma snapshot_shape u st :
  0 <= u_nodes u -> 0 <= u_npods u -> 0 <= u_ncpu u -> 0 <= u_nnuma u -> shape_ok u (snapshot u st) = true.
Proof.
  intros H1 H2 H3 H4. unfold shape_ok, snapshot. rewrite map_length, zrange_length.
  apply andb_true_iff. split; [apply Z.eqb_eq; lia|].
  apply forallb_forall. intros s Hs. apply in_map_iff in Hs. destruct Hs as (n & <- & _).
  cbn [snap_node sn_pods sn_cpus sn_numa]. rewrite !map_length, !zrange_length.
  rewrite !andb_true_iff, !Z.eqb_eq. lia.
Qed.
