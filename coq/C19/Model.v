(* C19 — executable model, part 1: the cpuset codec (pkg/util/cpuset String / Parse) at token
   level and the NUMA/CPU ledger of the nodenumaresource plugin (NodeAllocation.update /
   release / addPodAllocation, podEventHandler.updatePod / deletePod, Plugin.Reserve /
   Unreserve / preBindObject).  Total, no proofs in this file. *)
From Coq Require Import List ZArith Bool.
Import ListNotations.
Open Scope Z_scope.

(* ------------------------------------------------------------------------------------ *)
(* cpuset codec                                                                            *)
(* ------------------------------------------------------------------------------------ *)

(* A CPUSet is a Go map used as a set; its canonical model value is the strictly ascending
   list of its elements. [ins]/[mkset] model CPUSetBuilder.Add / NewCPUSet. *)
Fixpoint ins (x : Z) (l : list Z) : list Z :=
  match l with
  | [] => [x]
  | y :: t => if x <? y then x :: l else if x =? y then l else y :: ins x t
  end.
Definition mkset (l : list Z) : list Z := fold_left (fun acc x => ins x acc) l [].

(* The string form at token level: a comma separated list of items, each item a dash
   separated list of fields; a field is a decimal number (>= 0), the empty text (-1) or some
   other text that is not a number (-2).  "" is [[-1]] (strings.Split never returns an empty
   slice). *)
Notation cstr := (list (list Z)).

(* String(): maximal ranges of consecutive elements of the sorted slice *)
Fixpoint ranges_aux (lo hi : Z) (l : list Z) : list (Z * Z) :=
  match l with
  | [] => [(lo, hi)]
  | x :: t => if x =? hi + 1 then ranges_aux lo x t else (lo, hi) :: ranges_aux x x t
  end.
Definition ranges (s : list Z) : list (Z * Z) :=
  match s with [] => [] | x :: t => ranges_aux x x t end.
Definition fmt_range (r : Z * Z) : list Z :=
  if fst r =? snd r then [fst r] else [fst r; snd r].
Definition format (s : list Z) : cstr :=
  match s with [] => [[-1]] | _ => map fmt_range (ranges s) end.

(* Parse(): strconv.ParseInt(_, 10, 32) on every field; "a-b" with b > 4096 is rejected *)
Definition maxAvailableCPUCount : Z := 4096.
Definition int32_ok (z : Z) : bool := (0 <=? z) && (z <? 2147483648).
Fixpoint range_list (start : Z) (n : nat) : list Z :=
  match n with O => [] | S k => start :: range_list (start + 1) k end.
Definition parse_item (it : list Z) : option (list Z) :=
  match it with
  | [a] => if int32_ok a then Some [a] else None
  | [a; b] =>
      if int32_ok a && int32_ok b then
        if maxAvailableCPUCount <? b then None
        else Some (range_list a (Z.to_nat (b - a + 1)))
      else None
  | _ => None
  end.
Fixpoint parse_items (its : cstr) (acc : list Z) : option (list Z) :=
  match its with
  | [] => Some acc
  | it :: t => match parse_item it with
               | None => None
               | Some xs => parse_items t (fold_left (fun a x => ins x a) xs acc)
               end
  end.
Definition is_empty_string (s : cstr) : bool :=
  match s with [[f]] => f =? -1 | _ => false end.
Definition parse (s : cstr) : option (list Z) :=
  if is_empty_string s then Some [] else parse_items s [].

(* ------------------------------------------------------------------------------------ *)
(* NUMA / CPU ledger                                                                       *)
(* ------------------------------------------------------------------------------------ *)

(* a PodAllocation: uid, CPUExclusivePolicy (0 "", 1 None, 2 PCPULevel, 3 NUMANodeLevel), the
   CPUSet and the per-NUMA amounts (node, (milli-cpu, memory bytes)) *)
Record palloc := mkPA { pa_uid : Z; pa_excl : Z; pa_cpus : list Z; pa_numa : list (Z * (Z * Z)) }.

(* CPU topology of the (identical) nodes: cpu c of 0..ncpu-1 lies on NUMA node c / cpn;
   CPUDetails[c] of an unknown cpu is the zero CPUInfo (NodeID 0) *)
Record topo := mkTopo { t_ncpu : Z; t_cpn : Z }.
Definition numa_of (tp : topo) (c : Z) : Z :=
  if (0 <=? c) && (c <? t_ncpu tp) && (0 <? t_cpn tp) then c / t_cpn tp else 0.

(* maps are total functions with a default (absent key = default): node -> key -> value *)
Definition upd2 {A} (m : Z -> Z -> A) (n k : Z) (v : A) : Z -> Z -> A :=
  fun n' k' => if (n' =? n) && (k' =? k) then v else m n' k'.

Record nstate := mkNS {
  ns_pods : list (Z * palloc);          (* allocatedPods of every node: (node, allocation) *)
  ns_cpu : Z -> Z -> Z * Z;             (* allocatedCPUs[cpu]: (RefCount, ExclusivePolicy); (0,0) = absent *)
  ns_res : Z -> Z -> Z * Z;             (* allocatedResources[numa] (cpu, memory) *)
  ns_single : Z -> Z -> list Z;         (* singleNUMANode[numa]: set of uids *)
  ns_shared : Z -> Z -> list Z }.       (* sharedNode[numa] *)

Definition ns_init : nstate :=
  mkNS [] (fun _ _ => (0, 0)) (fun _ _ => (0, 0)) (fun _ _ => []) (fun _ _ => []).
Definition ns_ref (st : nstate) (node c : Z) : Z := fst (ns_cpu st node c).
Definition ns_excl (st : nstate) (node c : Z) : Z := snd (ns_cpu st node c).

Definition is_pod (node uid : Z) (e : Z * palloc) : bool :=
  (fst e =? node) && (pa_uid (snd e) =? uid).
Definition find_pod (pods : list (Z * palloc)) (node uid : Z) : option palloc :=
  match find (is_pod node uid) pods with Some e => Some (snd e) | None => None end.

Definition memZ (x : Z) (l : list Z) : bool := existsb (Z.eqb x) l.
Definition set_add (x : Z) (l : list Z) : list Z := if memZ x l then l else x :: l.
Definition set_del (x : Z) (l : list Z) : list Z := filter (fun y => negb (y =? x)) l.
Fixpoint dedup (l : list Z) : list Z :=
  match l with [] => [] | x :: t => set_add x (dedup t) end.

Definition pair_add (a b : Z * Z) : Z * Z := (fst a + fst b, snd a + snd b).
(* quotav1.SubtractWithNonNegativeResult *)
Definition pair_sub0 (a b : Z * Z) : Z * Z := (Z.max 0 (fst a - fst b), Z.max 0 (snd a - snd b)).

(* addPodAllocation, one map at a time *)
Definition cpu_add (node excl : Z) (m : Z -> Z -> Z * Z) (c : Z) : Z -> Z -> Z * Z :=
  upd2 m node c (fst (m node c) + 1, excl).
Definition res_add (node : Z) (m : Z -> Z -> Z * Z) (e : Z * (Z * Z)) : Z -> Z -> Z * Z :=
  upd2 m node (fst e) (pair_add (m node (fst e)) (snd e)).
Definition set_ins (node uid : Z) (m : Z -> Z -> list Z) (ni : Z) : Z -> Z -> list Z :=
  upd2 m node ni (set_add uid (m node ni)).

Definition used_numa (tp : topo) (cpus : list Z) : list Z := dedup (map (numa_of tp) cpus).

Definition add_pod (tp : topo) (st : nstate) (node : Z) (p : palloc) : nstate :=
  match find_pod (ns_pods st) node (pa_uid p) with
  | Some _ => st
  | None =>
    let used := used_numa tp (pa_cpus p) in
    mkNS ((node, p) :: ns_pods st)
         (fold_left (cpu_add node (pa_excl p)) (pa_cpus p) (ns_cpu st))
         (fold_left (res_add node) (pa_numa p) (ns_res st))
         (match used with [ni] => set_ins node (pa_uid p) (ns_single st) ni | _ => ns_single st end)
         (match used with
          | [] => ns_shared st
          | [_] => ns_shared st
          | _ => fold_left (set_ins node (pa_uid p)) used (ns_shared st)
          end)
  end.

(* release *)
Definition cpu_rel (node : Z) (m : Z -> Z -> Z * Z) (c : Z) : Z -> Z -> Z * Z :=
  let r := fst (m node c) in
  if 0 <? r then
    (if r - 1 =? 0 then upd2 m node c (0, 0) else upd2 m node c (r - 1, snd (m node c)))
  else m.
Definition res_rel (node : Z) (m : Z -> Z -> Z * Z) (e : Z * (Z * Z)) : Z -> Z -> Z * Z :=
  upd2 m node (fst e) (pair_sub0 (m node (fst e)) (snd e)).
Definition set_rem (node uid : Z) (m : Z -> Z -> list Z) (ni : Z) : Z -> Z -> list Z :=
  upd2 m node ni (set_del uid (m node ni)).

(* the NUMA ids release() collects: those of the pod's cpus that are still in allocatedCPUs *)
Definition rel_used (tp : topo) (st : nstate) (node : Z) (cpus : list Z) : list Z :=
  dedup (map (numa_of tp) (filter (fun c => 0 <? ns_ref st node c) cpus)).

Definition release (tp : topo) (st : nstate) (node uid : Z) : nstate :=
  match find_pod (ns_pods st) node uid with
  | None => st
  | Some p =>
    let used := rel_used tp st node (pa_cpus p) in
    mkNS (filter (fun e => negb (is_pod node uid e)) (ns_pods st))
         (fold_left (cpu_rel node) (pa_cpus p) (ns_cpu st))
         (fold_left (res_rel node) (pa_numa p) (ns_res st))
         (fold_left (set_rem node uid) used (ns_single st))
         (fold_left (set_rem node uid) used (ns_shared st))
  end.

(* resourceManager.Update: dropped when the node has no valid CPU topology (yet) *)
Definition rm_update (tp : topo) (topo_ok : Z -> bool) (st : nstate) (node : Z) (p : palloc) : nstate :=
  if topo_ok node then add_pod tp (release tp st node (pa_uid p)) node p else st.

(* ------------------------------------------------------------------------------------ *)
(* persisted objects and the informer handler                                              *)
(* ------------------------------------------------------------------------------------ *)

(* What a pod / reservation object carries as far as this plugin reads it: spec.nodeName
   (0 = unassigned), terminated (pod phase Succeeded/Failed; reservation no longer active),
   and the two annotations: resource-status (cpuset string, numaNodeResources) and the
   preferredCPUExclusivePolicy of resource-spec. [None] = no resource-status annotation. *)
Record pobj := mkObj {
  o_uid : Z; o_node : Z; o_term : bool; o_excl : Z;
  o_status : option (cstr * list (Z * (Z * Z))) }.

Definition is_nil {A} (l : list A) : bool := match l with [] => true | _ => false end.

(* podEventHandler.updatePod(old, new) — [old_node] is oldPod.Spec.NodeName (0 if no old pod) *)
Definition ev_update (tp : topo) (topo_ok : Z -> bool) (st : nstate) (old_node : Z) (o : pobj) : nstate :=
  if o_node o =? 0 then
    (if negb (old_node =? 0) then release tp st old_node (o_uid o) else st)
  else if o_term o then release tp st (o_node o) (o_uid o)
  else match o_status o with
       | None => st      (* GetResourceStatus gives the zero value: empty cpuset, no numa *)
       | Some (cs, numa) =>
         match parse cs with
         | None => st
         | Some cpus =>
           if is_nil numa && is_nil cpus then st
           else rm_update tp topo_ok st (o_node o) (mkPA (o_uid o) (o_excl o) cpus numa)
         end
       end.
Definition ev_delete (tp : topo) (st : nstate) (o : pobj) : nstate :=
  if o_node o =? 0 then st else release tp st (o_node o) (o_uid o).

(* preBindObject: what is written on the object for an allocation *)
Definition persist_status (p : palloc) : cstr * list (Z * (Z * Z)) := (format (pa_cpus p), pa_numa p).

(* ------------------------------------------------------------------------------------ *)
(* histories: the live scheduler, the cut, the replay into a fresh cache                   *)
(* ------------------------------------------------------------------------------------ *)

(* static description of pod / reservation number uid (1-based position in the case) *)
Record pdesc := mkPD { d_kind : Z; d_node : Z; d_excl : Z; d_cpus : list Z; d_numa : list (Z * (Z * Z)) }.
Definition pd_default : pdesc := mkPD 0 0 0 [] [].
Definition desc_of (ds : list pdesc) (uid : Z) : pdesc := nth (Z.to_nat (uid - 1)) ds pd_default.
Definition valid_uid (ds : list pdesc) (uid : Z) : bool := (1 <=? uid) && (uid <=? Z.of_nat (length ds)).
(* the allocation the scheduling cycle decided for the pod (NewCPUSet of the chosen cpus) *)
Definition alloc_of (ds : list pdesc) (uid : Z) : palloc :=
  let d := desc_of ds uid in mkPA uid (d_excl d) (mkset (d_cpus d)) (d_numa d).

(* life cycle of an object: 0 pending, 1 assumed (Reserve done, not bound), 2 bound,
   3 deleted, 4 terminated (still stored, phase Succeeded / reservation not active) *)
Definition upd1 {A} (m : Z -> A) (k : Z) (v : A) : Z -> A := fun k' => if k' =? k then v else m k'.

(* The preferredCPUExclusivePolicy a bound object carries.  For a Pod it is the one of its own
   resource-spec annotation.  For a Reservation (kind 1) the policy sits in the pod template;
   PreBindReservation (appendResourceSpecIfMissed) writes a resource-spec annotation WITHOUT it
   on the Reservation itself, and NewReservePod lets the Reservation's annotations shadow the
   template's: the reserve pod rebuilt from the stored Reservation has no exclusive policy. *)
Definition persisted_excl (d : pdesc) : Z := if d_kind d =? 1 then 0 else d_excl d.

(* the object as stored in the API server for a life-cycle status *)
Definition bound_obj (ds : list pdesc) (uid : Z) (term : bool) : pobj :=
  let d := desc_of ds uid in
  mkObj uid (d_node d) term (persisted_excl d) (Some (persist_status (alloc_of ds uid))).
Definition obj_of (ds : list pdesc) (life : Z -> Z) (uid : Z) : option pobj :=
  let d := desc_of ds uid in
  let s := life uid in
  if s =? 3 then None
  else if (s =? 2) || (s =? 4) then Some (bound_obj ds uid (s =? 4))
  else Some (mkObj uid 0 false (d_excl d) None).

Definition all_ok : Z -> bool := fun _ => true.

Record live := mkLive { l_st : nstate; l_life : Z -> Z }.
Definition live_init : live := mkLive ns_init (fun _ => 0).

(* one step of the running scheduler: (kind, uid)
   1 Reserve   2 Unreserve   3 PreBind+bind+informer update   4 informer delete
   5 informer update carrying the same object   7 informer update: object terminated *)
Definition live_step (tp : topo) (ds : list pdesc) (l : live) (op : Z * Z) : live :=
  let '(k, uid) := op in
  if negb (valid_uid ds uid) then l else
  let d := desc_of ds uid in
  let s := l_life l uid in
  let st := l_st l in
  if (k =? 1) && (s =? 0) then
    mkLive (rm_update tp all_ok st (d_node d) (alloc_of ds uid)) (upd1 (l_life l) uid 1)
  else if (k =? 2) && (s =? 1) then
    mkLive (release tp st (d_node d) uid) (upd1 (l_life l) uid 0)
  else if (k =? 3) && (s =? 1) then
    mkLive (ev_update tp all_ok st 0 (bound_obj ds uid false)) (upd1 (l_life l) uid 2)
  else if (k =? 4) && ((s =? 2) || (s =? 4)) then
    mkLive (ev_delete tp st (bound_obj ds uid (s =? 4))) (upd1 (l_life l) uid 3)
  else if (k =? 5) && (s =? 2) then
    mkLive (ev_update tp all_ok st (d_node d) (bound_obj ds uid false)) (l_life l)
  else if (k =? 7) && (s =? 2) then
    mkLive (ev_update tp all_ok st (d_node d) (bound_obj ds uid true)) (upd1 (l_life l) uid 4)
  else l.

(* the fresh scheduler: its cache, which nodes have a CPU topology, which objects have had
   their initial Add *)
Record fresh := mkFresh { f_st : nstate; f_topo : Z -> bool; f_seen : Z -> bool }.

(* one informer event of the restart: (kind, id)
   1 Add(obj)   2 Update(obj, obj)   3 Update(pending version, obj)   4 topology of node id arrives *)
Definition replay_step (tp : topo) (ds : list pdesc) (life : Z -> Z) (f : fresh) (ev : Z * Z) : fresh :=
  let '(k, id) := ev in
  if k =? 4 then mkFresh (f_st f) (upd1 (f_topo f) id true) (f_seen f)
  else if negb (valid_uid ds id) then f
  else match obj_of ds life id with
       | None => f
       | Some o =>
         if k =? 1 then mkFresh (ev_update tp (f_topo f) (f_st f) 0 o) (f_topo f) (upd1 (f_seen f) id true)
         else if k =? 2 then mkFresh (ev_update tp (f_topo f) (f_st f) (o_node o) o) (f_topo f) (f_seen f)
         else if k =? 3 then mkFresh (ev_update tp (f_topo f) (f_st f) 0 o) (f_topo f) (f_seen f)
         else f
       end.

Definition zrange (lo : Z) (n : nat) : list Z := range_list lo n.

(* completion of the initial list: every topology, then an Add for every object not yet added *)
Definition completion (nnodes : Z) (ds : list pdesc) (f : fresh) : list (Z * Z) :=
  map (fun n => (4, n)) (zrange 1 (Z.to_nat nnodes))
  ++ map (fun u => (1, u)) (filter (fun u => negb (f_seen f u)) (zrange 1 (length ds))).

Definition replay (tp : topo) (nnodes : Z) (ds : list pdesc) (life : Z -> Z)
                  (topo_first : bool) (script : list (Z * Z)) : nstate :=
  let f0 := mkFresh ns_init (fun _ => topo_first) (fun _ => false) in
  let f1 := fold_left (replay_step tp ds life) script f0 in
  f_st (fold_left (replay_step tp ds life) (completion nnodes ds f1) f1).

(* ------------------------------------------------------------------------------------ *)
(* projection of a cache to the observable                                                 *)
(* ------------------------------------------------------------------------------------ *)
Record universe := mkU { u_nodes : Z; u_ncpu : Z; u_nnuma : Z; u_npods : Z }.

(* the part of one node's NodeAllocation the property talks about: allocatedPods (by uid
   1..P), allocatedCPUs (RefCount, ExclusivePolicy by cpu id), allocatedResources and the
   single / shared NUMA marks (as bit masks over uids) by NUMA id *)
Record nsnap := mkSnap {
  sn_pods : list (option (list Z * list (Z * (Z * Z))));
  sn_cpus : list (Z * Z);
  sn_numa : list ((Z * Z) * (Z * Z)) }.

Definition mask_of (l : list Z) (np : Z) : Z :=
  fold_right Z.add 0 (map (fun u => if memZ u l then 2 ^ u else 0) (zrange 1 (Z.to_nat np))).

Definition snap_node (u : universe) (st : nstate) (node : Z) : nsnap :=
  mkSnap
    (map (fun uid => option_map (fun p => (pa_cpus p, pa_numa p)) (find_pod (ns_pods st) node uid))
         (zrange 1 (Z.to_nat (u_npods u))))
    (map (fun c => ns_cpu st node c) (zrange 0 (Z.to_nat (u_ncpu u))))
    (map (fun n => (ns_res st node n,
                    (mask_of (ns_single st node n) (u_npods u),
                     mask_of (ns_shared st node n) (u_npods u))))
         (zrange 0 (Z.to_nat (u_nnuma u)))).
Definition snapshot (u : universe) (st : nstate) : list nsnap :=
  map (snap_node u st) (zrange 1 (Z.to_nat (u_nodes u))).

(* a whole case: after every live step, the live cache and the cache a fresh scheduler rebuilds *)
Record ncase := mkCase {
  c_nodes : Z; c_topo : topo; c_descs : list pdesc; c_ops : list (Z * Z);
  c_topo_first : bool; c_script : list (Z * Z) }.

Definition nnuma_of (tp : topo) : Z :=
  if 0 <? t_cpn tp then (t_ncpu tp + t_cpn tp - 1) / t_cpn tp else 1.
(* two cpu ids beyond the topology are observed as well *)
Definition universe_of (c : ncase) : universe :=
  mkU (c_nodes c) (t_ncpu (c_topo c) + 2) (nnuma_of (c_topo c)) (Z.of_nat (length (c_descs c))).

Definition replay_of (c : ncase) (life : Z -> Z) : nstate :=
  replay (c_topo c) (c_nodes c) (c_descs c) life (c_topo_first c) (c_script c).

(* per step: (life-cycle after the step, live snapshot, snapshot of the rebuilt cache) *)
Fixpoint run_ops (c : ncase) (l : live) (ops : list (Z * Z)) : list (list nsnap * list nsnap) :=
  match ops with
  | [] => []
  | op :: t =>
    let l' := live_step (c_topo c) (c_descs c) l op in
    (snapshot (universe_of c) (l_st l'), snapshot (universe_of c) (replay_of c (l_life l')))
    :: run_ops c l' t
  end.
Definition run_ncase (c : ncase) : list (list nsnap * list nsnap) := run_ops c live_init (c_ops c).

(* life-cycle function after each step (what the harness knows from the input alone) *)
Fixpoint lives (c : ncase) (l : live) (ops : list (Z * Z)) : list (Z -> Z) :=
  match ops with
  | [] => []
  | op :: t => let l' := live_step (c_topo c) (c_descs c) l op in l_life l' :: lives c l' t
  end.

(* flat encoding *)
Definition enc_numa (l : list (Z * (Z * Z))) : list Z :=
  Z.of_nat (length l) :: flat_map (fun e => [fst e; fst (snd e); snd (snd e)]) l.
Definition enc_pod (o : option (list Z * list (Z * (Z * Z)))) : list Z :=
  match o with
  | None => [0]
  | Some p => 1 :: Z.of_nat (length (fst p)) :: fst p ++ enc_numa (snd p)
  end.
Definition enc_nsnap (s : nsnap) : list Z :=
  flat_map enc_pod (sn_pods s)
  ++ flat_map (fun e => [fst e; snd e]) (sn_cpus s)
  ++ flat_map (fun e => [fst (fst e); snd (fst e); fst (snd e); snd (snd e)]) (sn_numa s).
Definition enc_snapshot (s : list nsnap) : list Z := flat_map enc_nsnap s.
Definition enc_run (r : list (list nsnap * list nsnap)) : list Z :=
  flat_map (fun p => enc_snapshot (fst p) ++ enc_snapshot (snd p)) r.
