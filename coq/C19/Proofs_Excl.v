(* C19 — the ExclusivePolicy marks: when objects that share a cpu ask for the same policy and no
   Reservation with a cpuset asks for one (the two hypotheses whose failure are findings 2 and 3),
   every referenced cpu is marked with the policy of its holders, in the live cache and in every
   rebuilt cache; so the marks too survive the restart and the full decision procedure answers 0. *)
From Coq Require Import List ZArith Bool Lia Permutation.
From Verif Require Import Lib.ListX C19.Model C19.Spec C19.Proofs_Codec C19.Proofs_Ledger
  C19.Proofs_Restart C19.Proofs_Snapshot C19.Proofs_Main.
Import ListNotations.
Open Scope Z_scope.

Definition MarkInv (pol : Z -> Z) (st : nstate) : Prop :=
  forall node p c, In p (node_pods st node) -> memZ c (pa_cpus p) = true -> ns_excl st node c = pol (pa_uid p).

Lemma MarkInv_init pol : MarkInv pol ns_init.
Proof. intros node p c []. Qed.

Lemma node_pods_release tp st node uid node' :
  node_pods (release tp st node uid) node' =
  if node' =? node then rm uid (node_pods st node') else node_pods st node'.
Proof.
  unfold release. destruct (find_pod (ns_pods st) node uid) eqn:Ef.
  - unfold node_pods at 1. cbn [ns_pods]. apply node_pods_filter.
  - destruct (node' =? node) eqn:E; [|reflexivity]. apply Z.eqb_eq in E. subst node'.
    symmetry. apply rm_notin. rewrite find_pod_node_pods in Ef. apply find_uid_None, Ef.
Qed.

Lemma ns_cpu_release tp st node uid p node' c :
  Inv tp st -> find (uid_is uid) (node_pods st node) = Some p ->
  ns_cpu (release tp st node uid) node' c =
  if (node' =? node) && memZ c (pa_cpus p)
  then (if fst (ns_cpu st node c) - 1 =? 0 then (0, 0) else (fst (ns_cpu st node c) - 1, snd (ns_cpu st node c)))
  else ns_cpu st node' c.
Proof.
  intros HI Ef. unfold release. rewrite find_pod_node_pods. fold (node_pods st node). rewrite Ef. cbn [ns_cpu].
  pose proof (inv_keys _ _ HI node) as Hk.
  destruct (find_uid_In _ _ _ Ef) as [Hpin Hpu].
  destruct (node_pods_ok _ _ _ _ HI Hpin) as [Hnd _].
  apply fold_cpu_rel; [exact Hnd|].
  intros x Hx. destruct (inv_ledger _ _ HI node) as (L1 & _). specialize (L1 x). unfold ns_ref in L1. rewrite L1.
  unfold ref_spec. rewrite (count_decomp uid p _ _ Hk Ef).
  replace (memZ x (pa_cpus p)) with true by (symmetry; apply memZ_In, Hx). lia.
Qed.

Lemma MarkInv_release tp pol st node uid :
  Inv tp st -> MarkInv pol st -> MarkInv pol (release tp st node uid).
Proof.
  intros HI HM. destruct (find (uid_is uid) (node_pods st node)) as [p|] eqn:Ef.
  - intros node' q c Hq Hc. rewrite node_pods_release in Hq. unfold ns_excl.
    rewrite (ns_cpu_release tp st node uid p node' c HI Ef).
    destruct (node' =? node) eqn:En; cbn [andb].
    + apply Z.eqb_eq in En. subst node'.
      apply filter_In in Hq. destruct Hq as [Hq Hne].
      destruct (memZ c (pa_cpus p)) eqn:Ecp; [|apply (HM node q c Hq Hc)].
      (* both p and q hold c: the reference count stays positive *)
      pose proof (inv_keys _ _ HI node) as Hk.
      destruct (inv_ledger _ _ HI node) as (L1 & _). specialize (L1 c). unfold ns_ref in L1.
      unfold ref_spec in L1. rewrite (count_decomp uid p _ _ Hk Ef), Ecp in L1.
      assert (1 <= Z.of_nat (length (filter (fun p0 => memZ c (pa_cpus p0)) (rm uid (node_pods st node))))).
      { assert (Hin : In q (filter (fun p0 => memZ c (pa_cpus p0)) (rm uid (node_pods st node)))).
        { apply filter_In. split; [|exact Hc]. apply filter_In. split; assumption. }
        destruct (filter _ (rm uid (node_pods st node))); [destruct Hin|]. cbn [length]. lia. }
      replace (fst (ns_cpu st node c) - 1 =? 0) with false by (symmetry; apply Z.eqb_neq; lia).
      cbn [snd]. apply (HM node q c Hq Hc).
    + apply (HM node' q c Hq Hc).
  - assert (release tp st node uid = st).
    { unfold release. rewrite find_pod_node_pods. fold (node_pods st node). rewrite Ef. reflexivity. }
    rewrite H. exact HM.
Qed.

Lemma MarkInv_add tp pol st node p :
  Inv tp st -> MarkInv pol st -> NoDup (pa_cpus p) ->
  find_pod (ns_pods st) node (pa_uid p) = None ->
  (pa_cpus p <> [] -> pa_excl p = pol (pa_uid p)) ->
  (forall q c, In q (node_pods st node) -> memZ c (pa_cpus q) = true -> memZ c (pa_cpus p) = true ->
               pol (pa_uid q) = pol (pa_uid p)) ->
  MarkInv pol (add_pod tp st node p).
Proof.
  intros HI HM Hnd Hf Hpol Hcompat node' q c Hq Hc.
  unfold add_pod in *. rewrite Hf in *. unfold node_pods in Hq. cbn [ns_pods] in Hq.
  rewrite node_pods_cons in Hq. unfold ns_excl. cbn [ns_cpu]. rewrite fold_cpu_add by exact Hnd.
  destruct (node =? node') eqn:En.
  - apply Z.eqb_eq in En. subst node'. rewrite Z.eqb_refl. cbn [andb].
    destruct Hq as [<-|Hq].
    + rewrite Hc. cbn [snd]. apply Hpol. intros E. rewrite E in Hc. discriminate.
    + destruct (memZ c (pa_cpus p)) eqn:Ecp.
      * cbn [snd]. rewrite Hpol; [|intros E; rewrite E in Ecp; discriminate].
        symmetry. apply (Hcompat q c Hq Hc Ecp).
      * apply (HM node q c Hq Hc).
  - rewrite (Z.eqb_sym node' node), En. cbn [andb]. apply (HM node' q c Hq Hc).
Qed.

Section Excl.
  Variables (tp : topo) (ds : list pdesc).
  Hypothesis Hds : forallb desc_ok ds = true.
  Hypothesis Hagree : policies_agree ds = true.
  Hypothesis Hrsv : rsv_no_excl ds = true.

  Let pol := pol_of ds.

  Lemma desc_in u : valid_uid ds u = true -> In (desc_of ds u) ds.
  Proof.
    unfold valid_uid, desc_of. rewrite andb_true_iff, !Z.leb_le. intros [H1 H2]. apply nth_In. lia.
  Qed.

  (* the policy a bound object carries is the one it asked for, whenever it has cpus *)
  Lemma persisted_pol u : valid_uid ds u = true ->
    fst (written ds u) <> [] -> persisted_excl (desc_of ds u) = pol u.
  Proof.
    intros Hv Hne. unfold persisted_excl, pol, pol_of. destruct (d_kind (desc_of ds u) =? 1) eqn:Ek; [|reflexivity].
    unfold rsv_no_excl in Hrsv. rewrite forallb_forall in Hrsv. specialize (Hrsv _ (desc_in u Hv)).
    rewrite Ek in Hrsv. cbn [negb orb] in Hrsv. apply orb_true_iff in Hrsv. destruct Hrsv as [H|H].
    - exfalso. apply Hne. cbn [written fst]. destruct (d_cpus (desc_of ds u)); [reflexivity|discriminate].
    - apply Z.eqb_eq in H. symmetry. exact H.
  Qed.

  (* two valid objects of one node holding a common cpu ask for the same policy *)
  Lemma share_pol u v c :
    valid_uid ds u = true -> valid_uid ds v = true ->
    d_node (desc_of ds u) = d_node (desc_of ds v) ->
    memZ c (fst (written ds u)) = true -> memZ c (fst (written ds v)) = true -> pol u = pol v.
  Proof.
    intros Hu Hv Hn Hcu Hcv. unfold pol, pol_of.
    unfold policies_agree in Hagree. rewrite forallb_forall in Hagree.
    specialize (Hagree _ (desc_in u Hu)). rewrite forallb_forall in Hagree. specialize (Hagree _ (desc_in v Hv)).
    apply orb_true_iff in Hagree. destruct Hagree as [H|H]; [|apply Z.eqb_eq, H].
    exfalso. apply negb_true_iff in H. unfold share_cpu in H. rewrite Hn, Z.eqb_refl in H. cbn [andb] in H.
    assert (existsb (fun x => memZ x (d_cpus (desc_of ds v))) (d_cpus (desc_of ds u)) = true); [|congruence].
    apply existsb_exists. exists c. cbn [written fst] in Hcu, Hcv.
    apply (proj1 (memZ_In _ _)) in Hcu. apply (proj1 (mkset_In _ _)) in Hcu.
    apply (proj1 (memZ_In _ _)) in Hcv. apply (proj1 (mkset_In _ _)) in Hcv. split; [exact Hcu|apply memZ_In, Hcv].
  Qed.

  (* a cache that lists only valid objects with the written values on their own node *)
  Definition WellListed (st : nstate) : Prop :=
    forall n p, In p (node_pods st n) ->
      valid_uid ds (pa_uid p) = true /\ d_node (desc_of ds (pa_uid p)) = n /\ pa_cpus p = fst (written ds (pa_uid p)).

  Lemma well_listed_of st exp :
    Inv tp st -> (forall n u, listing st n u = exp n u) ->
    (forall n u a, exp n u = Some a -> valid_uid ds u = true /\ d_node (desc_of ds u) = n /\ a = written ds u) ->
    WellListed st.
  Proof.
    intros HI HL Hexp n p Hp.
    assert (Hf : find_pod (ns_pods st) n (pa_uid p) = Some p).
    { rewrite find_pod_node_pods. fold (node_pods st n).
      destruct (find (uid_is (pa_uid p)) (node_pods st n)) as [q|] eqn:Ef.
      - destruct (find_uid_In _ _ _ Ef) as [Hq Hu]. f_equal.
        apply (NoDup_map_inj_in pa_uid (node_pods st n)); [apply (inv_keys _ _ HI)|exact Hq|exact Hp|exact Hu].
      - exfalso. apply find_uid_None in Ef. apply Ef, in_map, Hp. }
    specialize (HL n (pa_uid p)). unfold listing in HL. rewrite Hf in HL. cbn [option_map] in HL.
    symmetry in HL. destruct (Hexp _ _ _ HL) as (H1 & H2 & H3). split; [exact H1|]. split; [exact H2|].
    unfold proj in H3. rewrite <- H3. reflexivity.
  Qed.

  Lemma expect_live_sound life n u a :
    (forall x, valid_uid ds x = false -> life x = 0) ->
    expect_live ds life n u = Some a -> valid_uid ds u = true /\ d_node (desc_of ds u) = n /\ a = written ds u.
  Proof.
    intros Hlife H. unfold expect_live in H.
    destruct (((life u =? 1) || (life u =? 2)) && (d_node (desc_of ds u) =? n)) eqn:E; [|discriminate].
    injection H as <-. apply andb_true_iff in E. destruct E as [E1 E2]. apply Z.eqb_eq in E2.
    split; [|split; [exact E2|reflexivity]].
    destruct (valid_uid ds u) eqn:Hv; [reflexivity|]. rewrite (Hlife u Hv) in E1. discriminate.
  Qed.
  Lemma expect_partial_sound life dl n u a :
    (forall x, valid_uid ds x = false -> life x = 0) ->
    expect_partial ds life dl n u = Some a -> valid_uid ds u = true /\ d_node (desc_of ds u) = n /\ a = written ds u.
  Proof.
    intros Hlife H. unfold expect_partial in H. destruct (dl u); [|discriminate]. unfold expect_replay in H.
    destruct ((life u =? 2) && (d_node (desc_of ds u) =? n) && negb (empty_alloc (written ds u))) eqn:E; [|discriminate].
    injection H as <-. rewrite !andb_true_iff in E. destruct E as [[E1 E2] _]. apply Z.eqb_eq in E2.
    split; [|split; [exact E2|reflexivity]].
    destruct (valid_uid ds u) eqn:Hv; [reflexivity|]. rewrite (Hlife u Hv) in E1. discriminate.
  Qed.

  (* rm_update of an object's own allocation keeps the marks *)
  Lemma MarkInv_rm_update st uid e :
    Inv tp st -> WellListed st -> MarkInv pol st -> valid_uid ds uid = true ->
    (fst (written ds uid) <> [] -> e = pol uid) ->
    MarkInv pol (rm_update tp all_ok st (d_node (desc_of ds uid))
                   (mkPA uid e (fst (written ds uid)) (snd (written ds uid)))).
  Proof.
    intros HI HW HM Hv He. unfold rm_update, all_ok.
    set (node := d_node (desc_of ds uid)).
    apply MarkInv_add.
    - apply release_Inv, HI.
    - apply MarkInv_release; assumption.
    - cbn [pa_cpus]. apply Asc_NoDup, mkset_Asc.
    - cbn [pa_uid]. rewrite release_find, !Z.eqb_refl. reflexivity.
    - cbn [pa_cpus pa_excl pa_uid]. exact He.
    - cbn [pa_cpus pa_uid]. intros q c Hq Hcq Hcp. rewrite node_pods_release, Z.eqb_refl in Hq.
      apply filter_In in Hq. destruct Hq as [Hq _]. destruct (HW node q Hq) as (Hvq & Hnq & Hcpus).
      rewrite Hcpus in Hcq. apply (share_pol (pa_uid q) uid c Hvq Hv); [exact Hnq|exact Hcq|exact Hcp].
  Qed.

  (* ---------- live ---------- *)
  Lemma live_step_marks l op :
    LiveInv tp ds l -> MarkInv pol (l_st l) -> MarkInv pol (l_st (live_step tp ds l op)).
  Proof.
    intros HLI HM. destruct HLI as [HI HL Hlife].
    assert (HW : WellListed (l_st l)).
    { apply (well_listed_of _ _ HI HL). intros n u a. apply expect_live_sound, Hlife. }
    destruct op as [k uid]. unfold live_step.
    destruct (valid_uid ds uid) eqn:Hv; cbn [negb]; [|exact HM].
    set (s := l_life l uid).
    destruct ((k =? 1) && (s =? 0)); cbn [l_st].
    { unfold alloc_of. apply (MarkInv_rm_update (l_st l) uid _ HI HW HM Hv). reflexivity. }
    destruct ((k =? 2) && (s =? 1)); cbn [l_st]; [apply MarkInv_release; assumption|].
    destruct ((k =? 3) && (s =? 1)); cbn [l_st].
    { rewrite (ev_update_bound tp ds Hds _ _ _ _ Hv). destruct (empty_alloc (written ds uid)); [exact HM|].
      apply (MarkInv_rm_update (l_st l) uid _ HI HW HM Hv). apply persisted_pol, Hv. }
    destruct ((k =? 4) && ((s =? 2) || (s =? 4))); cbn [l_st].
    { rewrite (ev_delete_bound tp ds Hds _ _ _ Hv). apply MarkInv_release; assumption. }
    destruct ((k =? 5) && (s =? 2)); cbn [l_st].
    { rewrite (ev_update_bound tp ds Hds _ _ _ _ Hv). destruct (empty_alloc (written ds uid)); [exact HM|].
      apply (MarkInv_rm_update (l_st l) uid _ HI HW HM Hv). apply persisted_pol, Hv. }
    destruct ((k =? 7) && (s =? 2)); cbn [l_st]; [|exact HM].
    rewrite (ev_update_term tp ds Hds _ _ _ _ Hv). apply MarkInv_release; assumption.
  Qed.

  (* ---------- fresh ---------- *)
  Variable life : Z -> Z.
  Hypothesis Hlife : forall u, valid_uid ds u = false -> life u = 0.

  Lemma replay_step_marks f ev :
    FreshInv tp ds life f -> MarkInv pol (f_st f) -> MarkInv pol (f_st (replay_step tp ds life f ev)).
  Proof.
    intros [HI Ht (dl & HL & Hs)] HM.
    assert (HW : WellListed (f_st f)).
    { apply (well_listed_of _ _ HI HL). intros n u a. apply expect_partial_sound, Hlife. }
    destruct ev as [k id]. unfold replay_step.
    destruct (k =? 4); [exact HM|].
    destruct (valid_uid ds id) eqn:Hv; cbn [negb]; [|exact HM].
    destruct (obj_of ds life id) as [o|] eqn:Ho; [|exact HM].
    assert (Hany : forall old, MarkInv pol (ev_update tp (f_topo f) (f_st f) old o)).
    { intros old. rewrite (all_ok_ext tp _ _ _ _ Ht). unfold obj_of in Ho.
      destruct (life id =? 3); [discriminate|].
      destruct ((life id =? 2) || (life id =? 4)).
      - injection Ho as <-. destruct (life id =? 4).
        + rewrite (ev_update_term tp ds Hds _ _ _ _ Hv). apply MarkInv_release; assumption.
        + rewrite (ev_update_bound tp ds Hds _ _ _ _ Hv). destruct (empty_alloc (written ds id)); [exact HM|].
          apply (MarkInv_rm_update (f_st f) id _ HI HW HM Hv). apply persisted_pol, Hv.
      - injection Ho as <-. unfold ev_update. cbn [o_node Z.eqb].
        destruct (negb (old =? 0)); [apply MarkInv_release; assumption|exact HM]. }
    destruct (k =? 1); [apply Hany|]. destruct (k =? 2); [apply Hany|]. destruct (k =? 3); [apply Hany|exact HM].
  Qed.

  Lemma fold_replay_marks evs f :
    FreshInv tp ds life f -> MarkInv pol (f_st f) ->
    MarkInv pol (f_st (fold_left (replay_step tp ds life) evs f)).
  Proof.
    revert f. induction evs as [|e t IH]; intros f HF HM; [exact HM|]. cbn [fold_left].
    apply IH; [apply replay_step_FreshInv; assumption|apply replay_step_marks; assumption].
  Qed.

  Lemma replay_marks nn script : MarkInv pol (replay tp nn ds life true script).
  Proof.
    unfold replay.
    set (f0 := mkFresh ns_init (fun _ => true) (fun _ => false)).
    assert (H0 : FreshInv tp ds life f0).
    { constructor; [apply Inv_init|reflexivity|]. exists (fun _ => false). split; [reflexivity|discriminate]. }
    set (f1 := fold_left (replay_step tp ds life) script f0).
    pose proof (fold_replay_FreshInv tp ds Hds life script f0 H0) as H1. fold f1 in H1.
    apply fold_replay_marks; [exact H1|]. apply fold_replay_marks; [exact H0|apply MarkInv_init].
  Qed.
End Excl.

(* ---------- from caches to the exclusive-policy clauses of the decision procedure ---------- *)
Lemma eq_numa_eq a b : eq_numa a b = true -> a = b.
Proof.
  revert b. induction a as [|x t IH]; intros [|y b']; cbn; try discriminate; [reflexivity|].
  unfold eq_pair. rewrite !andb_true_iff, !Z.eqb_eq. intros [[H1 [H2 H3]] H4].
  destruct x as [x1 [x2 x3]], y as [y1 [y2 y3]]. cbn in *. subst. f_equal. apply IH, H4.
Qed.
Lemma all2_eq_opt_alloc a b : all2 eq_opt_alloc a b = true -> a = b.
Proof.
  revert b. induction a as [|x t IH]; intros [|y b']; cbn; try discriminate; [reflexivity|].
  rewrite andb_true_iff. intros [H1 H2]. f_equal; [|apply IH, H2].
  destruct x as [[x1 x2]|], y as [[y1 y2]|]; cbn in H1; try discriminate; [|reflexivity].
  unfold eq_alloc in H1. cbn in H1. apply andb_true_iff in H1. destruct H1 as [H1 H3].
  apply eq_listZ_eq in H1. apply eq_numa_eq in H3. subst. reflexivity.
Qed.
Lemma combine_map_map {A B C} (f : A -> B) (g : A -> C) l :
  combine (map f l) (map g l) = map (fun x => (f x, g x)) l.
Proof. induction l as [|x t IH]; [reflexivity|]. cbn. f_equal. exact IH. Qed.

Section ExclSnap.
  Variables (tp : topo) (u : universe) (pol : Z -> Z).

  Lemma holder_of st node c :
    Inv tp st -> ns_ref st node c <> 0 -> exists q, In q (node_pods st node) /\ memZ c (pa_cpus q) = true.
  Proof.
    intros HI Hr. destruct (inv_ledger _ _ HI node) as (L1 & _). rewrite L1 in Hr. unfold ref_spec in Hr.
    destruct (filter (fun p => memZ c (pa_cpus p)) (node_pods st node)) as [|q t] eqn:Ef; [cbn in Hr; lia|].
    assert (Hin : In q (filter (fun p => memZ c (pa_cpus p)) (node_pods st node))) by (rewrite Ef; left; reflexivity).
    apply filter_In in Hin. exists q. exact Hin.
  Qed.

  Lemma excl_agree_snap st node :
    Inv tp st -> MarkInv pol st ->
    (forall uid, find_pod (ns_pods st) node uid <> None -> 1 <= uid <= u_npods u) ->
    excl_agree pol (snap_pods (snap_node u st node)) (sn_cpus (snap_node u st node)) = true.
  Proof.
    intros HI HM Hr. unfold excl_agree. apply forallb_forall. intros [c [r m]] Hin.
    cbn [snap_node sn_cpus] in Hin. rewrite map_length, zrange_length in Hin.
    rewrite combine_map_r in Hin. apply in_map_iff in Hin. destruct Hin as (c' & He & _).
    injection He as <- Hrm. cbn [fst snd].
    assert (Hrr : r = ns_ref st node c') by (unfold ns_ref; rewrite Hrm; reflexivity).
    assert (Hmm : m = ns_excl st node c') by (unfold ns_excl; rewrite Hrm; reflexivity).
    destruct (r =? 0) eqn:E0.
    - apply Z.eqb_eq in E0. apply Z.eqb_eq. rewrite Hmm. apply (inv_excl0 _ _ HI). congruence.
    - apply Z.eqb_neq in E0. destruct (holder_of st node c' HI ltac:(congruence)) as (q & Hq & Hc).
      apply existsb_exists. exists (erase q). split.
      + apply (Permutation_in _ (snap_pods_perm tp u st node HI Hr)). apply in_map, Hq.
      + cbn [erase pa_cpus pa_uid]. rewrite Hc, Hmm, (HM node q c' Hq Hc). cbn. apply Z.eqb_refl.
  Qed.

  Lemma same_excl_snap sl sr node :
    Inv tp sl -> MarkInv pol sl -> Inv tp sr -> MarkInv pol sr ->
    (forall uid, find_pod (ns_pods sl) node uid <> None -> 1 <= uid <= u_npods u) ->
    (forall uid, find_pod (ns_pods sr) node uid <> None -> 1 <= uid <= u_npods u) ->
    same_pods (snap_node u sl node) (snap_node u sr node) = true ->
    same_excl (snap_node u sl node) (snap_node u sr node) = true.
  Proof.
    intros HIl HMl HIr HMr Hrl Hrr Hsame. unfold same_pods in Hsame. apply all2_eq_opt_alloc in Hsame.
    assert (Hsp : snap_pods (snap_node u sl node) = snap_pods (snap_node u sr node)) by (unfold snap_pods; rewrite Hsame; reflexivity).
    unfold same_excl. replace (map snd (sn_cpus (snap_node u sr node))) with (map snd (sn_cpus (snap_node u sl node)));
      [apply eq_listZ_refl|].
    cbn [snap_node sn_cpus]. rewrite !map_map. apply map_ext. intros c. cbn [snd].
    fold (ns_excl sl node c) (ns_excl sr node c).
    assert (Href : ns_ref sl node c = ns_ref sr node c).
    { rewrite <- (snap_ref tp u sl node HIl Hrl), <- (snap_ref tp u sr node HIr Hrr), Hsp. reflexivity. }
    destruct (Z.eq_dec (ns_ref sl node c) 0) as [E0|E0].
    - rewrite (inv_excl0 _ _ HIl node c E0), (inv_excl0 _ _ HIr node c); [reflexivity|congruence].
    - destruct (holder_of sl node c HIl E0) as (q & Hq & Hc).
      rewrite (HMl node q c Hq Hc).
      assert (Hin : In (erase q) (snap_pods (snap_node u sr node))).
      { rewrite <- Hsp. apply (Permutation_in _ (snap_pods_perm tp u sl node HIl Hrl)). apply in_map, Hq. }
      apply (Permutation_in _ (Permutation_sym (snap_pods_perm tp u sr node HIr Hrr))) in Hin.
      apply in_map_iff in Hin. destruct Hin as (q' & Eq & Hq').
      assert (Hc' : memZ c (pa_cpus q') = true).
      { replace (pa_cpus q') with (pa_cpus (erase q')) by reflexivity. rewrite Eq. exact Hc. }
      rewrite (HMr node q' c Hq' Hc'). replace (pa_uid q') with (pa_uid (erase q')) by reflexivity. rewrite Eq. reflexivity.
  Qed.
End ExclSnap.

Section ExclMain.
  Variable c : ncase.
  Hypothesis Hok : case_ok c = true.
  Hypothesis Hagree : policies_agree (c_descs c) = true.
  Hypothesis Hrsv : rsv_no_excl (c_descs c) = true.
  Let tp := c_topo c.
  Let ds := c_descs c.
  Let u := universe_of c.
  Let pol := pol_of ds.

  Lemma range_of_listing st exp node :
    (forall n uid, listing st n uid = exp n uid) ->
    (forall n uid, valid_uid ds uid = false -> exp n uid = None) ->
    forall uid, find_pod (ns_pods st) node uid <> None -> 1 <= uid <= u_npods u.
  Proof.
    intros HL Hinv uid Hf. apply (valid_range c). fold ds. destruct (valid_uid ds uid) eqn:Hv; [reflexivity|].
    exfalso. apply Hf. specialize (HL node uid). rewrite (Hinv node uid Hv) in HL.
    unfold listing in HL. destruct (find_pod (ns_pods st) node uid); [discriminate|reflexivity].
  Qed.

  Lemma step_excl_ok l :
    LiveInv tp ds l -> MarkInv pol (l_st l) ->
    step_excl c (snapshot u (l_st l), snapshot u (replay_of c (l_life l))) = 0.
  Proof.
    intros [HI HL Hlife] HM. unfold step_excl. fold ds pol.
    unfold replay_of. rewrite (case_topo_first c Hok). fold tp ds.
    set (r := replay tp (c_nodes c) ds (l_life l) true (c_script c)).
    destruct (replay_lists tp ds (case_descs c Hok) (l_life l) Hlife (c_nodes c) (c_script c)) as [HIr HLr]. fold r in HIr, HLr.
    pose proof (replay_marks tp ds (case_descs c Hok) Hagree Hrsv (l_life l) Hlife (c_nodes c) (c_script c)) as HMr.
    fold pol r in HMr.
    assert (Hrl : forall node uid, find_pod (ns_pods (l_st l)) node uid <> None -> 1 <= uid <= u_npods u).
    { intros node. apply (range_of_listing _ (expect_live ds (l_life l))); [exact HL|].
      intros n uid. apply (expect_live_invalid c). exact Hlife. }
    assert (Hrr : forall node uid, find_pod (ns_pods r) node uid <> None -> 1 <= uid <= u_npods u).
    { intros node. apply (range_of_listing _ (expect_replay ds (l_life l))); [exact HLr|].
      intros n uid. apply expect_replay_invalid. exact Hlife. }
    replace (forallb (fun s => excl_agree pol (snap_pods s) (sn_cpus s)) (snapshot u (l_st l) ++ snapshot u r)) with true.
    2:{ symmetry. apply forallb_forall. intros s Hs. apply in_app_or in Hs. unfold snapshot in Hs.
        destruct Hs as [Hs|Hs]; apply in_map_iff in Hs; destruct Hs as (n & <- & _).
        - apply (excl_agree_snap tp u pol); [exact HI|exact HM|apply Hrl].
        - apply (excl_agree_snap tp u pol); [exact HIr|exact HMr|apply Hrr]. }
    cbn [negb]. unfold snapshot. rewrite combine_map_map.
    replace (forallb _ (map _ (zrange 1 (Z.to_nat (u_nodes u))))) with true; [reflexivity|].
    symmetry. apply forallb_forall. intros lr Hlr. apply in_map_iff in Hlr. destruct Hlr as (n & <- & _). cbn [fst snd].
    destruct (same_pods (snap_node u (l_st l) n) (snap_node u r n)) eqn:Es; [|reflexivity]. cbn [negb orb].
    apply (same_excl_snap tp u pol); try assumption; [apply Hrl|apply Hrr].
  Qed.

  Lemma run_ops_full l ops :
    LiveInv tp ds l -> MarkInv pol (l_st l) ->
    first_nz (map (fun lo => step_code c (fst lo) (snd lo)) (combine (lives c l ops) (run_ops c l ops))) = 0.
  Proof.
    revert l. induction ops as [|op t IH]; intros l HL HM; [reflexivity|].
    cbn [lives run_ops combine map first_nz fst snd].
    pose proof (live_step_LiveInv tp ds (case_descs c Hok) l op HL) as HL'.
    pose proof (live_step_marks tp ds (case_descs c Hok) Hagree Hrsv l op HL HM) as HM'. fold pol in HM'.
    unfold step_code. pose proof (step_core_ok c Hok _ HL') as Hcore. pose proof (step_excl_ok _ HL' HM') as Hex.
    unfold tp, ds, u in *. rewrite Hcore. cbn [Z.eqb]. rewrite Hex. cbn [Z.eqb]. apply IH; assumption.
  Qed.

  Theorem numa_restart_full : prop_numa c (run_ncase c) = 0.
  Proof.
    unfold prop_numa, run_ncase. rewrite (run_ops_length c), Nat.eqb_refl. cbn [negb].
    apply run_ops_full; [apply LiveInv_init|apply MarkInv_init].
  Qed.
End ExclMain.
