(* C19 — the property for the deviceshare ledger: after a restart the allocateSet lists exactly
   the bound objects' device allocations as written, every device's used amount is the sum of the
   listed allocations and its free amount is total - used, and a virtual function is taken exactly
   when a listed allocation carries it (so no device share that was taken is free). *)
From Coq Require Import List ZArith Bool.
From Verif Require Import C19.Model C19.ModelRsv C19.ModelDev C19.Spec.
Import ListNotations.
Open Scope Z_scope.

Definition group_of (d : ddesc) (t : Z) : option (list (Z * (Z * Z))) :=
  match find (fun g => fst g =? t) (dd_groups d) with Some g => Some (snd g) | None => None end.
(* what the allocateSet must list for (uid, type) on [node] *)
Definition dexpect (ds : list ddesc) (life : Z -> Z) (live : bool) (node uid t : Z) : option (list (Z * (Z * Z))) :=
  let d := ddesc_of ds uid in
  if (is_bound (life uid) || (live && (life uid =? 1))) && (dd_node d =? node) then group_of d t else None.

Definition eq_opt_numa (a b : option (list (Z * (Z * Z)))) : bool :=
  match a, b with
  | None, None => true
  | Some x, Some y => eq_numa x y
  | _, _ => false
  end.
Definition aset_clause (exp got : option (list (Z * (Z * Z)))) : Z :=
  match exp, got with
  | None, None => 0
  | Some _, None => 1
  | None, Some _ => 2
  | Some a, Some b => if eq_numa a b then 0 else 3
  end.

(* used amount of device (t, m) recomputed from the listed allocations *)
Definition used_from (aset : list (option (list (Z * (Z * Z))))) (np : nat) (t m : Z) : Z * Z :=
  fold_right (fun ut acc =>
                match snd ut with
                | Some l => if snd (fst ut) =? t then pair_add (numa_amt m l) acc else acc
                | None => acc
                end) (0, 0)
             (combine (flat_map (fun u => map (fun t' => (u, t')) types12) (zrange 1 np)) aset).

(* is the virtual function (t, code) carried by one of the listed allocations? *)
Definition vf_from (ds : list ddesc) (aset : list (option (list (Z * (Z * Z))))) (np : nat) (t code : Z) : bool :=
  existsb (fun ka => match snd ka with
                     | Some _ => (snd (fst ka) =? t) && memZ code (vfs_of (ddesc_of ds (fst (fst ka))) t)
                     | None => false
                     end)
          (combine (flat_map (fun u => map (fun t' => (u, t')) types12) (zrange 1 np)) aset).

Definition dsnap_code (c : dcase) (life : Z -> Z) (live : bool) (node : Z) (s : dsnap) : Z :=
  let ds := d_descs c in
  let np := length ds in
  let keys := flat_map (fun u => map (fun t => (u, t)) types12) (zrange 1 np) in
  let devs := flat_map (fun t => map (fun m => (t, m)) (zrange 0 (Z.to_nat (d_minors c)))) types12 in
  let vfk := flat_map (fun t => flat_map (fun m => map (fun i => (t, m * 100 + i)) (zrange 0 (Z.to_nat (d_nvf c))))
                                         (zrange 0 (Z.to_nat (d_minors c)))) types12 in
  if negb (Nat.eqb (length (ds_aset s)) (length keys) && Nat.eqb (length (ds_devs s)) (length devs)
           && Nat.eqb (length (ds_vfs s)) (length vfk)) then 9 else
  let cl := first_nz (map (fun ka => aset_clause (dexpect ds life live node (fst (fst ka)) (snd (fst ka))) (snd ka))
                          (combine keys (ds_aset s))) in
  if negb (cl =? 0) then cl else
  if negb (forallb (fun de => eq_pair (fst (snd de)) (used_from (ds_aset s) np (fst (fst de)) (snd (fst de))))
                   (combine devs (ds_devs s))) then 4 else
  if negb (forallb (fun de => eq_pair (snd (snd de)) (pair_sub0 (dtotal c (fst (fst de))) (fst (snd de))))
                   (combine devs (ds_devs s))) then 5 else
  (* 7: a virtual function's taken bit is not what the listed allocations say *)
  if negb (forallb (fun kb => snd kb =? (if vf_from ds (ds_aset s) np (fst (fst kb)) (snd (fst kb)) then 1 else 0))
                   (combine vfk (ds_vfs s))) then 7
  else 0.
Definition dsnapshot_code (c : dcase) (life : Z -> Z) (live : bool) (s : list dsnap) : Z :=
  if negb (Z.of_nat (length s) =? d_nodes c) then 9
  else first_nz (map (fun ns => dsnap_code c life live (fst ns) (snd ns)) (combine (zrange 1 (length s)) s)).
Definition dstep_code (c : dcase) (life : Z -> Z) (LR : list dsnap * list dsnap) : Z :=
  let kl := dsnapshot_code c life true (fst LR) in
  if negb (kl =? 0) then (if kl =? 9 then 9 else 6) else dsnapshot_code c life false (snd LR).
(* 10: the reserved amount a Reservation's reserve pod holds (ResizePod) / the one persisted at
   PreBindReservation is not the sum of the allocated per-minor resources (recomputed from the case) *)
Definition dobs_code (c : dcase) (life : Z -> Z) (o : (list dsnap * list dsnap) * list Z) : Z :=
  let k := dstep_code c life (fst o) in
  if negb (k =? 0) then k else if eq_listZ (snd o) (dpersist (d_descs c) life) then 0 else 10.
Definition prop_dev (c : dcase) (obs : list ((list dsnap * list dsnap) * list Z)) : Z :=
  if negb (Nat.eqb (length obs) (length (d_ops c))) then 9
  else first_nz (map (fun lo => dobs_code c (fst lo) (snd lo)) (combine (dlives c dlive_init (d_ops c)) obs)).

Definition group_ok (g : Z * list (Z * (Z * Z))) : bool :=
  ((fst g =? 1) || (fst g =? 2))
  && forallb (fun e => (0 <=? fst e) && (fst e <? 1000) && (0 <=? fst (snd e)) && (0 <=? snd (snd e))) (snd g).
Fixpoint nodup_types (gs : list (Z * list (Z * (Z * Z)))) : bool :=
  match gs with [] => true | g :: t => negb (existsb (fun g' => fst g' =? fst g) t) && nodup_types t end.
Fixpoint nodupZ (l : list Z) : bool :=
  match l with [] => true | x :: t => negb (memZ x t) && nodupZ t end.
Definition vfgroup_ok (x : Z * list Z) : bool :=
  ((fst x =? 1) || (fst x =? 2)) && nodupZ (snd x) && forallb (fun c => (0 <=? c) && (c <? 100000)) (snd x).
Definition ddesc_ok (d : ddesc) : bool :=
  (1 <=? dd_node d) && forallb group_ok (dd_groups d) && nodup_types (dd_groups d) && forallb vfgroup_ok (dd_vfs d).
Definition dcase_ok (c : dcase) : bool :=
  forallb ddesc_ok (d_descs c) && (0 <=? d_nodes c) && (0 <=? d_minors c) && (0 <=? d_nvf c) && (d_nvf c <=? 100).

Definition nontrivial_dev (c : dcase) : bool :=
  existsb (fun life => existsb (fun u => is_bound (life u) && negb (is_nil (dd_groups (ddesc_of (d_descs c) u))))
                               (zrange 1 (length (d_descs c))))
          (dlives c dlive_init (d_ops c)).
