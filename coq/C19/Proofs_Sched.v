(* C19 — proofs for the Reservation object's path into the scheduler (ModelSched / SpecSched). *)
From Coq Require Import List ZArith Bool Lia ZifyBool.
From Verif Require Import C19.Model C19.ModelSched C19.Spec C19.SpecSched
  C19.Proofs_Codec C19.Proofs_Snapshot.
Import ListNotations.
Open Scope Z_scope.

(* ------------------------------------------------------------------------------------ *)
(* one reservation                                                                         *)
(* ------------------------------------------------------------------------------------ *)
(* reachable worlds: an assumption is only in flight for an unassigned reservation *)
Definition WInv (w : wentry) : Prop :=
  (we_asm w <> 0 -> so_node (we_obj w) = 0) /\ (we_life w = 0 -> we_asm w = 0).
Definition LInv (live : bool) (w : wentry) (e : sentry) : Prop :=
  got_cache e = exp_cache live w /\ se_known e = exp_known live w.

Ltac unf :=
  unfold WInv, LInv, got_cache, exp_cache, exp_known, w_avail, wstep, lstep,
    ev_add, ev_update, ev_delete, g_add, g_update, g_delete, p_add, p_update, p_delete,
    to_cache, del_cache, upd_cache, upd_queue, c_add, c_update, c_remove, c_assume, c_forget,
    c_set, c_clear, q_set, k_set, so_amount, so_avail, so_gactive, so_term, so_resp, node_ok,
    set_phase, set_sname, set_alloc, set_node in *;
  cbn [we_life we_obj we_asm so_phase so_node so_sname so_req so_alloc
       se_st se_node se_amt se_q se_known op_k op_r op_x op_y op_z fst snd] in *.
Ltac red1 :=
  cbn [we_life we_obj we_asm so_phase so_node so_sname so_req so_alloc
       se_st se_node se_amt se_q se_known fst snd negb andb orb Z.eqb Pos.eqb] in *.
Ltac brk1 :=
  match goal with
  | H : context [if ?b then _ else _] |- _ => destruct b eqn:?
  | |- context [if ?b then _ else _] => destruct b eqn:?
  end.
Ltac fin :=
  red1; try discriminate;
  repeat match goal with
         | H : Some _ = Some _ |- _ => injection H as H; subst
         | H : (_, _) = (_, _) |- _ => injection H as ? ?; subst
         end;
  rewrite ?Z.eqb_refl in *; red1; try discriminate.
Ltac leaf :=
  first [ exfalso; lia
        | repeat split; first [ reflexivity | lia | congruence | (repeat f_equal; lia) ] ].
Ltac go := repeat (fin; brk1); fin; leaf.
(* split on v = c, rewriting the boolean test away *)
Ltac zsplit v c :=
  destruct (Z.eq_dec v c) as [->|?];
  [ | match goal with Hne : v <> c |- _ => rewrite ?(proj2 (Z.eqb_neq v c) Hne) in * end ].
Ltac presplit life ph nd asm :=
  zsplit life 1; [| zsplit life 0];
  (zsplit ph 0; [| zsplit ph 1; [| zsplit ph 2; [| zsplit ph 3]]]);
  zsplit nd 0; zsplit asm 0; fin.

Lemma lstep_inv nn d w op w' e :
  WInv w -> LInv true w e -> wstep nn d w op = Some w' -> (op_k op =? 10) = false ->
  WInv w' /\ LInv true w' (lstep w w' op e).
Proof.
  destruct w as [life [ph nd sn rq al] asm], e as [st en am q kn], op as [k r x y z], d as [dr dsn dsh].
  intros [W1 W2] [L1 L2] Hs K10. unf.
  destruct (k =? 1) eqn:K1. { time (presplit life ph nd asm; go). }
  destruct (k =? 2) eqn:K2. { time (presplit life ph nd asm; go). }
  destruct (k =? 3) eqn:K3. { time (presplit life ph nd asm; go). }
  destruct (k =? 4) eqn:K4. { time (presplit life ph nd asm; go). }
  destruct (k =? 5) eqn:K5. { time (presplit life ph nd asm; go). }
  destruct (k =? 6) eqn:K6. { time (presplit life ph nd asm; go). }
  destruct (k =? 7) eqn:K7. { time (presplit life ph nd asm; go). }
  destruct (k =? 8) eqn:K8. { time (presplit life ph nd asm; go). }
  destruct (k =? 9) eqn:K9. { time (presplit life ph nd asm; go). }
  rewrite K10 in Hs.
  destruct (k =? 11) eqn:K11. { time (presplit life ph nd asm; go). }
  discriminate.
Qed.
