(* C19 — proofs for the Reservation object's path into the scheduler (ModelSched / SpecSched). *)
From Coq Require Import List ZArith Bool Lia ZifyBool.
From Verif Require Import C19.Model C19.ModelSched C19.Spec C19.SpecSched
  C19.Proofs_Codec C19.Proofs_Snapshot.
Import ListNotations.
Open Scope Z_scope.

(* ------------------------------------------------------------------------------------ *)
(* classes of a stored Reservation                                                         *)
(* ------------------------------------------------------------------------------------ *)
Lemma cls_gactive o : so_gactive o = true -> so_avail o = false /\ so_term o = false /\ so_node o = 0.
Proof. unfold so_gactive, so_avail, so_term. lia. Qed.
Lemma cls_avail o : so_avail o = true -> so_gactive o = false /\ so_term o = false /\ so_node o <> 0.
Proof. unfold so_gactive, so_avail, so_term. lia. Qed.
Lemma cls_term o : so_term o = true -> so_avail o = false /\ so_gactive o = false.
Proof. unfold so_gactive, so_avail, so_term. lia. Qed.

(* the seven cases of updateReservation, by class of the old and the new object *)
Lemma gu_bind e old new s : so_gactive old = true -> so_avail new = true ->
  g_update e old new s = (let e1 := to_cache e new in if so_resp old then q_set e1 false else e1).
Proof.
  intros Ho Hn. destruct (cls_gactive _ Ho) as (A & T & _). destruct (cls_avail _ Hn) as (_ & T' & _).
  unfold g_update. rewrite A, T, Ho, Hn. reflexivity.
Qed.
Lemma gu_aa e old new s : so_avail old = true -> so_avail new = true -> g_update e old new s = upd_cache e old new.
Proof.
  intros Ho Hn. destruct (cls_avail _ Ho) as (_ & T & _). unfold g_update. rewrite T, Ho, Hn. reflexivity.
Qed.
Lemma gu_at e old new s : so_avail old = true -> so_term new = true ->
  g_update e old new s = (let e1 := del_cache e old in if so_resp old then q_set e1 false else e1).
Proof.
  intros Ho Hn. destruct (cls_avail _ Ho) as (G & T & _). destruct (cls_term _ Hn) as (A' & _).
  unfold g_update. rewrite T, Ho, A', G, Hn. reflexivity.
Qed.
Lemma gu_ag e old new s : so_avail old = true -> so_gactive new = true ->
  g_update e old new s = (let e1 := del_cache e old in if so_resp new then q_set e1 true else e1).
Proof.
  intros Ho Hn. destruct (cls_avail _ Ho) as (G & T & _). destruct (cls_gactive _ Hn) as (A' & T' & _).
  unfold g_update. rewrite T, Ho, A', G, T', Hn. reflexivity.
Qed.
Lemma gu_nn e old new s : so_avail old = false -> so_avail new = false ->
  got_cache (g_update e old new s) = got_cache e /\ se_known (g_update e old new s) = se_known e.
Proof.
  intros Ho Hn. unfold g_update, upd_queue. rewrite Ho, Hn. cbn [andb].
  destruct (so_term old), (so_term new), (so_gactive old), (so_gactive new), (so_resp old), (so_resp new), s,
    (se_st e =? 2); cbn; split; reflexivity.
Qed.

(* the cache helpers on an entry *)
Lemma to_cache_spec e o : se_st e <> 1 ->
  got_cache (to_cache e o) = (1, (so_node o, so_amount o)) /\ se_known (to_cache e o) = se_known e.
Proof.
  intros H. unfold to_cache, c_add. replace (se_st e =? 1) with false by lia. split; reflexivity.
Qed.
Lemma del_cache_hit e o : so_node o <> 0 -> se_known e = true -> se_st e <> 0 -> se_node e = so_node o ->
  got_cache (del_cache e o) = (0, (0, (0, 0))) /\ se_known (del_cache e o) = false.
Proof.
  intros Hn Hk Hs He. unfold del_cache, c_remove, k_set. rewrite Hk. cbn [negb se_st se_node].
  replace (so_node o =? 0) with false by lia. replace (se_st e =? 0) with false by lia.
  rewrite He, Z.eqb_refl. cbn [orb]. split; reflexivity.
Qed.
Lemma del_cache_miss e o : se_known e = false ->
  got_cache (del_cache e o) = got_cache e /\ se_known (del_cache e o) = false.
Proof.
  intros Hk. unfold del_cache. destruct (so_node o =? 0); [split; [reflexivity|exact Hk]|].
  rewrite Hk. cbn [negb]. split; reflexivity.
Qed.
Lemma del_cache_unassigned e o : so_node o = 0 -> del_cache e o = e.
Proof. intros H. unfold del_cache. rewrite H. reflexivity. Qed.
Lemma q_set_cache e b : got_cache (q_set e b) = got_cache e /\ se_known (q_set e b) = se_known e.
Proof. split; reflexivity. Qed.
Lemma if_q_cache (c : bool) e b :
  got_cache (if c then q_set e b else e) = got_cache e /\ se_known (if c then q_set e b else e) = se_known e.
Proof. destruct c; split; reflexivity. Qed.

(* ------------------------------------------------------------------------------------ *)
(* one reservation: the running scheduler                                                  *)
(* ------------------------------------------------------------------------------------ *)
(* reachable worlds: an assumption is only in flight for an unassigned reservation *)
Definition WInv (w : wentry) : Prop :=
  (we_asm w <> 0 -> so_node (we_obj w) = 0) /\ (we_life w = 0 -> we_asm w = 0).
Definition LInv (live : bool) (w : wentry) (e : sentry) : Prop :=
  got_cache e = exp_cache live w /\ se_known e = exp_known live w.

(* the three shapes of an entry that meets the invariant *)
Inductive view (w : wentry) (e : sentry) : Prop :=
| v_avail : w_avail w = true -> we_asm w = 0 -> got_cache e = (1, (so_node (we_obj w), so_alloc (we_obj w))) ->
            se_known e = true -> view w e
| v_assumed : w_avail w = false -> we_asm w <> 0 -> so_node (we_obj w) = 0 ->
              got_cache e = (2, (we_asm w, so_req (we_obj w))) -> se_known e = true -> view w e
| v_none : w_avail w = false -> we_asm w = 0 -> got_cache e = (0, (0, (0, 0))) -> se_known e = false -> view w e.

Lemma linv_view w e : WInv w -> LInv true w e -> view w e.
Proof.
  intros [W1 W2] [L1 L2]. unfold exp_cache, exp_known in *. cbn [andb] in *.
  destruct (w_avail w) eqn:A.
  - apply v_avail; auto. destruct (Z.eq_dec (we_asm w) 0) as [|N]; [assumption|].
    unfold w_avail in A. apply andb_true_iff in A. destruct A as [_ A]. apply cls_avail in A. specialize (W1 N). tauto.
  - destruct (we_asm w =? 0) eqn:S; cbn [negb orb] in *.
    + apply v_none; auto. lia.
    + apply v_assumed; auto; try lia; try (apply W1; lia).
Qed.
Lemma view_linv w e : view w e -> LInv true w e.
Proof.
  intros [A S C K | A S N C K | A S C K]; unfold LInv, exp_cache, exp_known; rewrite A; cbn [andb orb].
  - split; assumption.
  - replace (we_asm w =? 0) with false by lia. split; assumption.
  - rewrite S. split; assumption.
Qed.
Lemma st_of e a b : got_cache e = (a, b) -> se_st e = a /\ se_node e = fst b.
Proof. unfold got_cache. intros H. injection H as <- <-. split; reflexivity. Qed.

(* update events: [o] the stored object before, [o'] after, same in-flight assumption unless the
   reservation gets bound (which confirms the assumed pod) *)
Lemma upd_keep w e o' s :
  we_life w = 1 -> view w e -> so_avail (we_obj w) = false -> so_avail o' = false -> so_node o' = so_node (we_obj w) ->
  so_req o' = so_req (we_obj w) ->
  view (mkWE 1 o' (we_asm w)) (ev_update (we_obj w) o' s e).
Proof.
  intros Hl V Ho Hn Hnode Hreq. unfold ev_update, p_update. rewrite Hn.
  destruct (gu_nn e (we_obj w) o' s Ho Hn) as (C & K).
  assert (A' : w_avail (mkWE 1 o' (we_asm w)) = false) by (unfold w_avail; cbn; exact Hn).
  destruct V as [A S Ce Ke | A S N Ce Ke | A S Ce Ke].
  - unfold w_avail in A. rewrite Hl, Ho in A. discriminate.
  - apply v_assumed; cbn [we_obj we_asm]; [exact A'|exact S|congruence|congruence|congruence].
  - apply v_none; cbn [we_obj we_asm]; [exact A'|exact S|congruence|congruence].
Qed.
Lemma upd_bind w e o' s :
  we_life w = 1 -> view w e -> so_gactive (we_obj w) = true -> so_avail o' = true ->
  view (mkWE 1 o' 0) (ev_update (we_obj w) o' s e).
Proof.
  intros Hl V Ho Hn. unfold ev_update, p_update. rewrite Hn, (gu_bind _ _ _ s Ho Hn). cbv zeta.
  destruct (cls_gactive _ Ho) as (Ao & _).
  assert (St : se_st (k_set e true) <> 1).
  { destruct V as [A S Ce Ke | A S N Ce Ke | A S Ce Ke].
    - unfold w_avail in A. rewrite Hl, Ao in A. discriminate.
    - apply st_of in Ce. cbn. lia.
    - apply st_of in Ce. cbn. lia. }
  destruct (to_cache_spec (k_set e true) o' St) as (C & K).
  destruct (if_q_cache (so_resp (we_obj w)) (to_cache (k_set e true) o') false) as (C' & K').
  apply v_avail; cbn [we_obj we_asm];
    [ unfold w_avail; cbn; exact Hn | reflexivity
    | rewrite C', C; unfold so_amount; rewrite Hn; reflexivity | rewrite K', K; reflexivity ].
Qed.
Lemma upd_same_node w e o' s :
  we_life w = 1 -> view w e -> so_avail (we_obj w) = true -> so_avail o' = true -> so_node o' = so_node (we_obj w) ->
  view (mkWE 1 o' (we_asm w)) (ev_update (we_obj w) o' s e).
Proof.
  intros Hl V Ho Hn Hnode. unfold ev_update, p_update. rewrite Hn, (gu_aa _ _ _ s Ho Hn).
  destruct (cls_avail _ Ho) as (_ & _ & Nz).
  destruct V as [A S Ce Ke | A S N Ce Ke | A S Ce Ke].
  2,3: unfold w_avail in A; rewrite Hl, Ho in A; discriminate.
  destruct (st_of _ _ _ Ce) as (St & Nd). cbn [fst] in Nd.
  unfold upd_cache, c_update, k_set. cbn [se_st se_node se_amt se_q se_known]. rewrite Hnode, St, Nd, !Z.eqb_refl.
  replace (so_node (we_obj w) =? 0) with false by lia. cbn [andb negb].
  apply v_avail; cbn [we_obj we_asm];
    [ unfold w_avail; cbn; exact Hn | exact S
    | unfold got_cache, c_set, so_amount; cbn; rewrite Hn, Hnode; reflexivity | reflexivity ].
Qed.
Lemma upd_unbind w e o' s :
  we_life w = 1 -> view w e -> so_avail (we_obj w) = true -> (so_term o' = true \/ so_gactive o' = true) ->
  view (mkWE 1 o' (we_asm w)) (ev_update (we_obj w) o' s e).
Proof.
  intros Hl V Ho Hn. unfold ev_update, p_update.
  assert (An : so_avail o' = false).
  { destruct Hn as [T|G]; [apply (cls_term _ T)|apply (cls_gactive _ G)]. }
  rewrite An. destruct (cls_avail _ Ho) as (_ & _ & Nz).
  destruct V as [A S Ce Ke | A S N Ce Ke | A S Ce Ke].
  2,3: unfold w_avail in A; rewrite Hl, Ho in A; discriminate.
  destruct (st_of _ _ _ Ce) as (St & Nd). cbn [fst] in Nd.
  assert (Hd : got_cache (del_cache e (we_obj w)) = (0, (0, (0, 0))) /\ se_known (del_cache e (we_obj w)) = false)
    by (apply del_cache_hit; auto; lia).
  destruct Hd as (C & K).
  assert (R : got_cache (g_update e (we_obj w) o' s) = (0, (0, (0, 0))) /\ se_known (g_update e (we_obj w) o' s) = false).
  { destruct Hn as [T|G].
    - rewrite (gu_at _ _ _ s Ho T). cbv zeta.
      destruct (if_q_cache (so_resp (we_obj w)) (del_cache e (we_obj w)) false) as (C' & K'). rewrite C', K'. auto.
    - rewrite (gu_ag _ _ _ s Ho G). cbv zeta.
      destruct (if_q_cache (so_resp o') (del_cache e (we_obj w)) true) as (C' & K'). rewrite C', K'. auto. }
  destruct R as (RC & RK).
  apply v_none; cbn [we_obj we_asm]; [unfold w_avail; cbn; exact An|exact S|exact RC|exact RK].
Qed.

(* changing the scheduler name / the allocatable / the phase keeps the other fields *)
Lemma avail_set_sname o x : so_avail (set_sname o x) = so_avail o. Proof. reflexivity. Qed.
Lemma avail_set_alloc o a : so_avail (set_alloc o a) = so_avail o. Proof. reflexivity. Qed.

Lemma lstep_inv nn d w op w' e :
  WInv w -> LInv true w e -> wstep nn d w op = Some w' -> (op_k op =? 10) = false ->
  WInv w' /\ LInv true w' (lstep w w' op e).
Proof.
  intros HW HL Hs K10. pose proof (linv_view _ _ HW HL) as V. destruct HW as [W1 W2].
  unfold wstep in Hs. unfold lstep.
  destruct (op_k op =? 1) eqn:K1.
  { (* create *)
    destruct (we_life w =? 0) eqn:L0; [|discriminate]. assert (Hasm : we_asm w = 0) by (apply W2; lia).
    assert (Hno : w_avail w = false) by (unfold w_avail; replace (we_life w =? 1) with false by lia; reflexivity).
    assert (Vn : got_cache e = (0, (0, (0, 0))) /\ se_known e = false).
    { destruct V as [A S Ce Ke | A S N Ce Ke | A S Ce Ke]; [congruence|contradiction|auto]. }
    destruct Vn as (Ce & Ke).
    destruct (op_x op =? 0) eqn:X0.
    - injection Hs as <-. cbn [we_obj]. split; [split; cbn; [congruence|lia]|]. apply view_linv.
      set (o := mkSO 0 0 (sd_sname d) (sd_req d) (sd_req d)).
      assert (Ao : so_avail o = false) by reflexivity.
      unfold ev_add, p_add, g_add. rewrite Ao.
      apply v_none; cbn [we_obj we_asm];
        [ reflexivity | reflexivity
        | destruct (so_gactive o && so_resp o); [rewrite (proj1 (q_set_cache _ _))|]; assumption
        | destruct (so_gactive o && so_resp o); [rewrite (proj2 (q_set_cache _ _))|]; assumption ].
    - destruct (node_ok nn (op_x op) && ((0 <=? op_y op) && (0 <=? op_z op))) eqn:E; [|discriminate].
      injection Hs as <-. cbn [we_obj]. split; [split; cbn; [congruence|lia]|]. apply view_linv.
      set (o := mkSO 1 (op_x op) (sd_sname d) (sd_req d) (op_y op, op_z op)).
      assert (Ao : so_avail o = true) by (unfold so_avail, o; cbn; lia).
      destruct (cls_avail _ Ao) as (G & _).
      unfold ev_add, p_add, g_add. rewrite Ao, G. cbn [andb].
      assert (St : se_st (k_set e true) <> 1) by (apply st_of in Ce; cbn; lia).
      destruct (to_cache_spec (k_set e true) o St) as (C & K).
      apply v_avail; cbn [we_obj we_asm];
        [ unfold w_avail; cbn; exact Ao | reflexivity
        | rewrite C; unfold so_amount; rewrite Ao; reflexivity | rewrite K; reflexivity ]. }
  destruct (op_k op =? 2) eqn:K2.
  { (* assume *)
    destruct (_ && _) eqn:E in Hs; [|discriminate]. injection Hs as <-. cbn [we_obj].
    rewrite !andb_true_iff in E. destruct E as ((((Hl & G) & R) & S) & N).
    destruct (cls_gactive _ G) as (Ao & _ & Nd).
    split; [split; cbn; [auto|lia]|]. apply view_linv.
    assert (Hno : w_avail w = false) by (unfold w_avail; rewrite Ao; apply andb_false_r).
    destruct V as [A S' Ce Ke | A S' N' Ce Ke | A S' Ce Ke]; [congruence|lia|].
    apply st_of in Ce. destruct Ce as (St & _).
    apply v_assumed; cbn [we_obj we_asm];
      [ unfold w_avail; cbn; exact Ao | unfold node_ok in N; lia | exact Nd
      | unfold c_assume, k_set, q_set, c_set, got_cache; cbn; rewrite St; cbn; unfold so_amount; rewrite Ao; reflexivity
      | unfold c_assume, k_set, q_set, c_set; cbn; rewrite St; reflexivity ]. }
  destruct (op_k op =? 3) eqn:K3.
  { (* forget *)
    destruct (negb (we_asm w =? 0)) eqn:S; [|discriminate]. injection Hs as <-. cbn [we_obj].
    split; [split; cbn; [congruence|reflexivity]|]. apply view_linv.
    destruct V as [A S' Ce Ke | A S' N' Ce Ke | A S' Ce Ke]; [lia| |lia].
    apply st_of in Ce. destruct Ce as (St & Nd). cbn [fst] in Nd.
    set (e1 := c_forget (k_set e false) (we_asm w)).
    assert (H1 : got_cache e1 = (0, (0, (0, 0))) /\ se_known e1 = false).
    { unfold e1, c_forget, k_set. cbn [se_st se_node se_amt se_q se_known]. rewrite St, Nd, !Z.eqb_refl. cbn. split; reflexivity. }
    destruct H1 as (C1 & K1').
    assert (Hno : w_avail (mkWE (we_life w) (we_obj w) 0) = false) by exact A.
    apply v_none;
      [ exact Hno | reflexivity
      | destruct ((we_life w =? 1) && so_gactive (we_obj w) && so_resp (we_obj w)); [rewrite (proj1 (q_set_cache _ _))|]; assumption
      | destruct ((we_life w =? 1) && so_gactive (we_obj w) && so_resp (we_obj w)); [rewrite (proj2 (q_set_cache _ _))|]; assumption ]. }
  destruct (op_k op =? 4) eqn:K4.
  { (* bind *)
    replace (op_k op =? 5) with false by lia. replace (op_k op =? 7) with false by lia.
    destruct (_ && _) eqn:E in Hs; [|discriminate]. injection Hs as <-. cbn [we_obj].
    rewrite !andb_true_iff in E. destruct E as ((((Hl & P) & Nd) & YZ) & N).
    set (o' := mkSO 1 _ _ _ _).
    assert (G : so_gactive (we_obj w) = true) by (unfold so_gactive, so_term; lia).
    assert (Ao' : so_avail o' = true).
    { unfold so_avail, o'. cbn. destruct (we_asm w =? 0) eqn:S; unfold node_ok in N; lia. }
    split; [split; cbn; [congruence|lia]|]. apply view_linv. apply upd_bind; auto. lia. }
  destruct (op_k op =? 5) eqn:K5.
  { (* resync *)
    destruct (we_life w =? 1) eqn:Hl; [|discriminate]. injection Hs as <-.
    split; [split; assumption|]. apply view_linv.
    replace w with (mkWE 1 (we_obj w) (we_asm w)) at 1 by (destruct w; cbn in *; f_equal; lia).
    destruct (so_avail (we_obj w)) eqn:Ao.
    - apply upd_same_node; auto. lia.
    - apply upd_keep; auto. lia. }
  destruct (op_k op =? 6) eqn:K6.
  { (* terminate *)
    replace (op_k op =? 7) with false by lia.
    destruct (_ && _) eqn:E in Hs; [|discriminate]. injection Hs as <-. cbn [we_obj we_asm].
    rewrite !andb_true_iff in E. destruct E as ((Hl & T) & X).
    assert (T' : so_term (set_phase (we_obj w) (op_x op)) = true) by (unfold so_term, set_phase; cbn; lia).
    split; [split; cbn; [exact W1|lia]|]. apply view_linv.
    destruct (so_avail (we_obj w)) eqn:Ao.
    - apply upd_unbind; auto. lia.
    - apply upd_keep; auto; [lia|apply (cls_term _ T')]. }
  destruct (op_k op =? 7) eqn:K7.
  { (* delete *)
    destruct (we_life w =? 1) eqn:Hl; [|discriminate]. injection Hs as <-. cbn [we_obj we_asm].
    split; [split; cbn; [exact W1|lia]|]. apply view_linv.
    unfold ev_delete, p_delete, g_delete.
    destruct (if_q_cache (so_resp (we_obj w)) (del_cache e (we_obj w)) false) as (C' & K').
    assert (Hno : w_avail (mkWE 2 (we_obj w) (we_asm w)) = false) by reflexivity.
    destruct V as [A S Ce Ke | A S N Ce Ke | A S Ce Ke].
    - unfold w_avail in A. apply andb_true_iff in A. destruct A as (_ & A).
      destruct (cls_avail _ A) as (_ & _ & Nz). destruct (st_of _ _ _ Ce) as (St & Nd). cbn [fst] in Nd.
      destruct (del_cache_hit e (we_obj w) Nz Ke) as (C & K); [lia|exact Nd|].
      apply v_none; cbn [we_obj we_asm]; [exact Hno|exact S|congruence|congruence].
    - rewrite (del_cache_unassigned _ _ N) in *.
      apply v_assumed; cbn [we_obj we_asm]; [exact Hno|exact S|exact N|congruence|congruence].
    - destruct (del_cache_miss e (we_obj w) Ke) as (C & K).
      apply v_none; cbn [we_obj we_asm]; [exact Hno|exact S|congruence|congruence]. }
  destruct (op_k op =? 8) eqn:K8.
  { (* scheduler name *)
    destruct (_ && _) eqn:E in Hs; [|discriminate]. injection Hs as <-. cbn [we_obj we_asm].
    rewrite !andb_true_iff in E. destruct E as ((Hl & X0) & X3).
    split; [split; cbn; [exact W1|lia]|]. apply view_linv.
    destruct (so_avail (we_obj w)) eqn:Ao.
    - apply upd_same_node; auto. lia.
    - apply upd_keep; auto. lia. }
  destruct (op_k op =? 9) eqn:K9.
  { (* resize *)
    destruct (_ && _) eqn:E in Hs; [|discriminate]. injection Hs as <-. cbn [we_obj we_asm].
    rewrite !andb_true_iff in E. destruct E as ((Hl & Ao) & YZ).
    split; [split; cbn; [exact W1|lia]|]. apply view_linv. apply upd_same_node; auto. lia. }
  rewrite K10 in Hs.
  destruct (op_k op =? 11) eqn:K11; [|discriminate].
  { (* rollback *)
    destruct (_ && _) eqn:E in Hs; [|discriminate]. injection Hs as <-. cbn [we_obj we_asm].
    rewrite !andb_true_iff in E. destruct E as (Hl & Ao).
    split; [split; cbn; [reflexivity|lia]|]. apply view_linv. apply upd_unbind; [lia|exact V|exact Ao|right; reflexivity]. }
Qed.

(* ------------------------------------------------------------------------------------ *)
(* one reservation: the freshly started scheduler                                          *)
(* ------------------------------------------------------------------------------------ *)
(* before its Add has been handled nothing is held (an Update may already have created the
   ReservationInfo); after it the entry is the expected one and stays so *)
Definition FPre (w : wentry) (e : sentry) : Prop :=
  got_cache e = (0, (0, (0, 0))) /\ (se_known e = false \/ se_known e = exp_known false w).
Definition FFin (w : wentry) (e : sentry) : Prop := LInv false w e.

Lemma exp_false_avail w : w_avail w = true ->
  exp_cache false w = (1, (so_node (we_obj w), so_alloc (we_obj w))) /\ exp_known false w = true.
Proof. intros A. unfold exp_cache, exp_known. rewrite A. split; reflexivity. Qed.
Lemma exp_false_none w : w_avail w = false ->
  exp_cache false w = (0, (0, (0, 0))) /\ exp_known false w = false.
Proof. intros A. unfold exp_cache, exp_known. rewrite A. split; reflexivity. Qed.
Lemma w_avail_stored w : we_life w = 1 -> w_avail w = so_avail (we_obj w).
Proof. intros H. unfold w_avail. rewrite H. reflexivity. Qed.

Lemma ffin_add w e : we_life w = 1 -> FPre w e \/ FFin w e -> FFin w (ev_add (we_obj w) e).
Proof.
  intros Hl H. pose proof (w_avail_stored _ Hl) as HA. unfold FFin, LInv, ev_add, p_add, g_add.
  destruct (so_avail (we_obj w)) eqn:Ao.
  - destruct (exp_false_avail _ HA) as (EC & EK). rewrite EC, EK.
    destruct (cls_avail _ Ao) as (G & _). rewrite G. cbn [andb].
    destruct H as [[C K] | [C K]].
    + assert (St : se_st (k_set e true) <> 1) by (apply st_of in C; cbn; lia).
      destruct (to_cache_spec (k_set e true) (we_obj w) St) as (C' & K').
      rewrite C', K'. unfold so_amount. rewrite Ao. split; reflexivity.
    + rewrite EC in C. destruct (st_of _ _ _ C) as (St & _).
      unfold to_cache, c_add, k_set. cbn [se_st]. rewrite St. cbn [Z.eqb Pos.eqb].
      split; [|reflexivity]. unfold got_cache in *. cbn. injection C as C1 C2 C3. rewrite C2, C3. reflexivity.
  - destruct (exp_false_none _ HA) as (EC & EK). rewrite EC, EK.
    assert (He : got_cache e = (0, (0, (0, 0))) /\ se_known e = false).
    { destruct H as [[C [K|K]] | [C K]]; [auto|rewrite EK in K; auto|rewrite EC in C; rewrite EK in K; auto]. }
    destruct (so_gactive (we_obj w) && so_resp (we_obj w)); [|exact He].
    destruct (q_set_cache e true) as (C' & K'). rewrite C', K'. exact He.
Qed.
Lemma ffin_upd w e : we_life w = 1 -> FFin w e -> FFin w (ev_update (we_obj w) (we_obj w) true e).
Proof.
  intros Hl [C K]. pose proof (w_avail_stored _ Hl) as HA. unfold FFin, LInv, ev_update, p_update.
  destruct (so_avail (we_obj w)) eqn:Ao.
  - destruct (exp_false_avail _ HA) as (EC & EK). rewrite EC, EK in *.
    rewrite (gu_aa _ _ _ true Ao Ao). destruct (cls_avail _ Ao) as (_ & _ & Nz).
    destruct (st_of _ _ _ C) as (St & Nd). cbn [fst] in Nd.
    unfold upd_cache, c_update, k_set. cbn [se_st se_node se_amt se_q se_known]. rewrite St, Nd, !Z.eqb_refl.
    replace (so_node (we_obj w) =? 0) with false by lia. cbn [andb negb].
    unfold got_cache, c_set, so_amount. cbn. rewrite Ao. split; reflexivity.
  - destruct (gu_nn e (we_obj w) (we_obj w) true Ao Ao) as (C' & K'). rewrite C', K'. split; assumption.
Qed.
Lemma fpre_upd w e : we_life w = 1 -> FPre w e -> FPre w (ev_update (we_obj w) (we_obj w) true e).
Proof.
  intros Hl [C K]. pose proof (w_avail_stored _ Hl) as HA. unfold FPre, ev_update, p_update.
  destruct (so_avail (we_obj w)) eqn:Ao.
  - destruct (exp_false_avail _ HA) as (EC & EK). rewrite EK in *.
    rewrite (gu_aa _ _ _ true Ao Ao). destruct (cls_avail _ Ao) as (_ & _ & Nz).
    destruct (st_of _ _ _ C) as (St & Nd).
    unfold upd_cache, c_update, k_set. cbn [se_st se_node se_amt se_q se_known]. rewrite St.
    replace (so_node (we_obj w) =? 0) with false by lia. rewrite Z.eqb_refl. cbn [andb negb Z.eqb].
    split; [unfold got_cache in *; cbn; injection C as C1 C2 C3; rewrite C2, C3; reflexivity|right; reflexivity].
  - destruct (gu_nn e (we_obj w) (we_obj w) true Ao Ao) as (C' & K'). rewrite C', K'. split; assumption.
Qed.
Lemma init_FPre w : FPre w se_init.
Proof. split; [reflexivity|left; reflexivity]. Qed.
Lemma init_FFin w : w_avail w = false -> FFin w se_init.
Proof. intros A. destruct (exp_false_none _ A) as (EC & EK). unfold FFin, LInv. rewrite EC, EK. split; reflexivity. Qed.

(* ------------------------------------------------------------------------------------ *)
(* all reservations                                                                        *)
(* ------------------------------------------------------------------------------------ *)
Lemma upd1_same {A} (m : Z -> A) k v : upd1 m k v k = v.
Proof. unfold upd1. rewrite Z.eqb_refl. reflexivity. Qed.
Lemma upd1_other {A} (m : Z -> A) k v k' : k' <> k -> upd1 m k v k' = m k'.
Proof. intros H. unfold upd1. replace (k' =? k) with false by lia. reflexivity. Qed.

Section Sched.
  Variable nn : Z.
  Variable ds : list sdesc.

  (* the running scheduler, over every history without a node migration *)
  Record SInv (l : slive) : Prop := {
    si_w : forall r, WInv (sl_w l r);
    si_l : forall r, LInv true (sl_w l r) (sl_s l r);
    si_out : forall r, r_valid ds r = false -> sl_w l r = we_init }.

  Lemma SInv_init : SInv slive_init.
  Proof.
    split; intros; cbn.
    - split; cbn; [congruence|reflexivity].
    - split; reflexivity.
    - reflexivity.
  Qed.
  Lemma slive_step_SInv l op : (op_k op =? 10) = false -> SInv l -> SInv (slive_step nn ds l op).
  Proof.
    intros K [HW HL HO]. unfold slive_step.
    destruct (r_valid ds (op_r op)) eqn:V; cbn [negb]; [|split; assumption].
    destruct (wstep nn (desc_at ds (op_r op)) (sl_w l (op_r op)) op) as [w'|] eqn:Hs; [|split; assumption].
    destruct (lstep_inv _ _ _ _ _ _ (HW (op_r op)) (HL (op_r op)) Hs K) as (W' & L').
    split; cbn [sl_w sl_s]; intros r.
    - destruct (Z.eq_dec r (op_r op)) as [->|N]; [rewrite upd1_same; exact W'|rewrite upd1_other by exact N; apply HW].
    - destruct (Z.eq_dec r (op_r op)) as [->|N]; [rewrite !upd1_same; exact L'|rewrite !upd1_other by exact N; apply HL].
    - intros Hr. assert (N : r <> op_r op) by congruence. rewrite upd1_other by exact N. apply HO, Hr.
  Qed.
  Lemma slive_step_world_out l op r : r_valid ds r = false -> sl_w (slive_step nn ds l op) r = sl_w l r.
  Proof.
    intros Hr. unfold slive_step. destruct (r_valid ds (op_r op)) eqn:V; cbn [negb]; [|reflexivity].
    destruct (wstep _ _ _ _); [|reflexivity]. cbn. apply upd1_other. congruence.
  Qed.

  (* the fresh scheduler, for any world *)
  Variable w : wstate.
  Definition deliverable (r : Z) : bool := r_valid ds r && (we_life (w r) =? 1).
  Record FS (f : sfresh) : Prop := {
    fs_good : forall r, FPre (w r) (sf_s f r) \/ FFin (w r) (sf_s f r);
    fs_seen : forall r, sf_seen f r = true -> FFin (w r) (sf_s f r);
    fs_out : forall r, deliverable r = false -> sf_s f r = se_init }.

  Lemma FS_init : FS sfresh_init.
  Proof. split; intros; cbn; [left; apply init_FPre|discriminate|reflexivity]. Qed.

  Lemma sreplay_step_FS f ev : FS f -> FS (sreplay_step ds w f ev).
  Proof.
    intros [HG HS HO]. destruct ev as [k r]. unfold sreplay_step.
    destruct (r_valid ds r) eqn:V; cbn [negb]; [|split; assumption].
    destruct (we_life (w r) =? 1) eqn:Hl; cbn [negb]; [|split; assumption].
    assert (Hl' : we_life (w r) = 1) by lia.
    assert (Hd : deliverable r = true) by (unfold deliverable; rewrite V, Hl; reflexivity).
    destruct (k =? 1) eqn:K1.
    { pose proof (ffin_add _ _ Hl' (HG r)) as F.
      split; cbn [sf_s sf_seen]; intros r'.
      - destruct (Z.eq_dec r' r) as [->|N]; [rewrite upd1_same; right; exact F|rewrite upd1_other by exact N; apply HG].
      - destruct (Z.eq_dec r' r) as [->|N]; [rewrite !upd1_same; intros _; exact F|rewrite !upd1_other by exact N; apply HS].
      - intros Hr. assert (N : r' <> r) by congruence. rewrite upd1_other by exact N. apply HO, Hr. }
    destruct (k =? 2) eqn:K2; [|split; assumption].
    split; cbn [sf_s sf_seen]; intros r'.
    - destruct (Z.eq_dec r' r) as [->|N]; [rewrite upd1_same|rewrite upd1_other by exact N; apply HG].
      destruct (HG r) as [P|F]; [left; apply fpre_upd|right; apply ffin_upd]; assumption.
    - destruct (Z.eq_dec r' r) as [->|N]; [rewrite upd1_same|rewrite upd1_other by exact N; apply HS].
      intros Hs. apply ffin_upd; [exact Hl'|apply HS, Hs].
    - intros Hr. assert (N : r' <> r) by congruence. rewrite upd1_other by exact N. apply HO, Hr.
  Qed.
  Lemma sfold_FS evs f : FS f -> FS (fold_left (sreplay_step ds w) evs f).
  Proof. revert f. induction evs as [|ev t IH]; intros f H; [exact H|]. cbn. apply IH, sreplay_step_FS, H. Qed.

  Lemma sreplay_step_seen f ev r : sf_seen f r = true -> sf_seen (sreplay_step ds w f ev) r = true.
  Proof.
    intros H. destruct ev as [k r']. unfold sreplay_step.
    destruct (r_valid ds r'); cbn [negb]; [|exact H].
    destruct (we_life (w r') =? 1); cbn [negb]; [|exact H].
    destruct (k =? 1); [|destruct (k =? 2); exact H].
    cbn [sf_seen]. unfold upd1. destruct (r =? r'); [reflexivity|exact H].
  Qed.
  Lemma sfold_seen evs f r : sf_seen f r = true -> sf_seen (fold_left (sreplay_step ds w) evs f) r = true.
  Proof. revert f. induction evs as [|ev t IH]; intros f H; [exact H|]. cbn. apply IH, sreplay_step_seen, H. Qed.
  Lemma sadds_seen l f r : In r l -> deliverable r = true ->
    sf_seen (fold_left (sreplay_step ds w) (map (fun u => (1, u)) l) f) r = true.
  Proof.
    revert f. induction l as [|u t IH]; intros f Hin Hd; [destruct Hin|]. cbn [map fold_left].
    destruct Hin as [->|Hin]; [|apply IH; assumption].
    apply sfold_seen. unfold sreplay_step, deliverable in *. apply andb_true_iff in Hd. destruct Hd as (V & Hl).
    rewrite V, Hl. cbn [negb Z.eqb Pos.eqb sf_seen]. apply upd1_same.
  Qed.

  Theorem sreplay_holds script : (forall r, r_valid ds r = false -> w r = we_init) ->
    Holds false w (sreplay ds w script).
  Proof.
    intros Hout r. unfold sreplay.
    set (f1 := fold_left (sreplay_step ds w) script sfresh_init).
    assert (F1 : FS f1) by (apply sfold_FS, FS_init).
    pose proof (sfold_FS (scompletion ds f1) f1 F1) as F2.
    set (f2 := fold_left (sreplay_step ds w) (scompletion ds f1) f1) in *.
    assert (FF : FFin (w r) (sf_s f2 r)).
    { destruct (deliverable r) eqn:Hd.
      - apply (fs_seen _ F2). destruct (sf_seen f1 r) eqn:S1.
        + apply sfold_seen, S1.
        + unfold f2, scompletion. apply sadds_seen; [|exact Hd].
          apply filter_In. split; [|rewrite S1; reflexivity].
          unfold deliverable, r_valid in Hd. apply range_list_In. lia.
      - rewrite (fs_out _ F2 r Hd). apply init_FFin. unfold w_avail.
        unfold deliverable in Hd. destruct (r_valid ds r) eqn:V.
        + cbn [andb] in Hd. rewrite Hd. reflexivity.
        + rewrite (Hout r V). reflexivity. }
    exact FF.
  Qed.
End Sched.

(* ------------------------------------------------------------------------------------ *)
(* the decision procedure on the model's own snapshots                                     *)
(* ------------------------------------------------------------------------------------ *)
Lemma eq_cache_refl x : eq_cache x x = true.
Proof. unfold eq_cache, eq_pair. rewrite !Z.eqb_refl. reflexivity. Qed.

Lemma node_sum_exp live w s nr n : Holds live w s -> node_sum s nr n = exp_node_sum live w nr n.
Proof.
  intros H. unfold node_sum, exp_node_sum. induction (zrange 1 nr) as [|r t IH]; [reflexivity|].
  cbn [fold_right]. rewrite IH. destruct (H r) as (C & _).
  unfold held_on, exp_on. unfold got_cache in C. rewrite <- C. cbn [fst snd]. reflexivity.
Qed.

Lemma ssnap_good nn nr live w s : Holds live w s -> ssnap_code nn nr live w (ssnapshot nn nr s) = 0.
Proof.
  intros H. unfold ssnap_code, ssnapshot. cbn [ss_rsv ss_node]. rewrite !map_length, !zrange_length, Nat.eqb_refl.
  replace (Z.of_nat (Z.to_nat nn) =? Z.max 0 nn) with true by lia. cbn [andb negb].
  rewrite !combine_map_r.
  assert (E1 : first_nz (map (fun re => entry_clause live (w (fst re)) (snd re)) (map (fun x => (x, s x)) (zrange 1 nr))) = 0).
  { apply first_nz_zero. intros x Hx. apply in_map_iff in Hx. destruct Hx as ([r e] & <- & Hin).
    apply in_map_iff in Hin. destruct Hin as (r' & He & _). injection He as <- <-. cbn [fst snd].
    unfold entry_clause. destruct (H r') as (C & _). rewrite C, eq_cache_refl. reflexivity. }
  rewrite E1. cbn [Z.eqb negb].
  assert (E2 : forallb (fun ne => eq_nsum (exp_node_sum live w nr (fst ne)) (snd ne))
                 (map (fun x => (x, node_sum s nr x)) (zrange 1 (Z.to_nat nn))) = true).
  { apply forallb_forall. intros [n v] Hin. apply in_map_iff in Hin. destruct Hin as (n' & He & _). injection He as <- <-.
    cbn [fst snd]. rewrite (node_sum_exp live w s nr n' H). unfold eq_nsum, eq_pair. rewrite !Z.eqb_refl. reflexivity. }
  rewrite E2. cbn [negb].
  assert (E3 : forallb (fun re => Bool.eqb (exp_known live (w (fst re))) (se_known (snd re)))
                 (map (fun x => (x, s x)) (zrange 1 nr)) = true).
  { apply forallb_forall. intros [r e] Hin. apply in_map_iff in Hin. destruct Hin as (r' & He & _). injection He as <- <-.
    cbn [fst snd]. destruct (H r') as (_ & K). rewrite K. apply eqb_reflx. }
  rewrite E3. reflexivity.
Qed.

Section SchedMain.
  Variable c : scase.
  Let nn := s_nn c.
  Let ds := s_descs c.

  Lemma SInv_holds l : SInv ds l -> Holds true (sl_w l) (sl_s l).
  Proof. intros [_ HL _] r. apply HL. Qed.

  Lemma sstep_ok l : SInv ds l ->
    sstep_code c (sl_w l)
      (ssnapshot nn (length ds) (sl_s l), ssnapshot nn (length ds) (sreplay ds (sl_w l) (s_script c))) = 0.
  Proof.
    intros HI. unfold sstep_code. cbn [fst snd]. fold nn ds.
    rewrite (ssnap_good nn (length ds) true _ _ (SInv_holds l HI)). cbn [Z.eqb orb].
    apply ssnap_good, sreplay_holds, (si_out _ _ HI).
  Qed.

  Lemma srun_ops_ok l ops : no_migration ops = true -> SInv ds l ->
    first_nz (map (fun wo => sstep_code c (fst wo) (snd wo)) (combine (sworlds c l ops) (srun_ops c l ops))) = 0.
  Proof.
    revert l. induction ops as [|op t IH]; intros l HM HI; [reflexivity|].
    cbn [no_migration forallb] in HM. apply andb_true_iff in HM. destruct HM as (K & HM).
    cbn [sworlds srun_ops combine map first_nz fst snd]. fold nn ds.
    assert (HI' : SInv ds (slive_step nn ds l op)) by (apply slive_step_SInv; [destruct (op_k op =? 10); [discriminate|reflexivity]|exact HI]).
    rewrite (sstep_ok _ HI'). cbn [Z.eqb]. apply IH; assumption.
  Qed.
  Lemma srun_ops_length l ops : length (srun_ops c l ops) = length ops.
  Proof. revert l. induction ops as [|op t IH]; intros l; [reflexivity|]. cbn [srun_ops length]. f_equal. apply IH. Qed.

  Theorem sched_restart : no_migration (s_ops c) = true -> prop_sched c (srun c) = 0.
  Proof.
    intros HM. unfold prop_sched, srun. rewrite srun_ops_length, Nat.eqb_refl. cbn [negb].
    apply srun_ops_ok; [exact HM|apply SInv_init].
  Qed.
End SchedMain.

(* the caches themselves, over all histories, cuts and scripts *)
Definition slive_after (c : scase) (ops : list sop) : slive := fold_left (slive_step (s_nn c) (s_descs c)) ops slive_init.

Lemma sfold_SInv nn ds ops l : no_migration ops = true -> SInv ds l -> SInv ds (fold_left (slive_step nn ds) ops l).
Proof.
  revert l. induction ops as [|op t IH]; intros l HM H0; [exact H0|].
  cbn [no_migration forallb] in HM. apply andb_true_iff in HM. destruct HM as (K & HM).
  cbn [fold_left]. apply IH; [exact HM|].
  apply slive_step_SInv; [destruct (op_k op =? 10); [discriminate|reflexivity]|exact H0].
Qed.
Lemma slive_after_SInv c ops : no_migration ops = true -> SInv (s_descs c) (slive_after c ops).
Proof. intros HM. unfold slive_after. apply sfold_SInv; [exact HM|apply SInv_init]. Qed.

Theorem sched_restart_caches c ops script : no_migration ops = true ->
  let l := slive_after c ops in
  Holds true (sl_w l) (sl_s l) /\ Holds false (sl_w l) (sreplay (s_descs c) (sl_w l) script).
Proof.
  intros HM l. pose proof (slive_after_SInv c ops HM) as HI. split.
  - intros r. apply (si_l _ _ HI).
  - apply sreplay_holds, (si_out _ _ HI).
Qed.

(* nothing reserved is free after the restart: every bound reservation is held on its node with the
   persisted amount, and the node's requested total counts it *)
Theorem sched_nothing_freed c ops script r : no_migration ops = true ->
  let l := slive_after c ops in
  let f := sreplay (s_descs c) (sl_w l) script in
  w_avail (sl_w l r) = true ->
  se_st (f r) = 1 /\ se_node (f r) = so_node (we_obj (sl_w l r)) /\ se_amt (f r) = so_alloc (we_obj (sl_w l r))
  /\ se_known (f r) = true
  /\ (r_valid (s_descs c) r = true ->
      held_on f (so_node (we_obj (sl_w l r))) r = true).
Proof.
  intros HM l f A. destruct (sched_restart_caches c ops script HM) as (_ & HF).
  destruct (HF r) as (C & K). fold l in C, K. fold f in C, K.
  destruct (exp_false_avail _ A) as (EC & EK). rewrite EC in C. rewrite EK in K.
  unfold got_cache in C. injection C as C1 C2 C3.
  repeat split; try assumption.
  intros _. unfold held_on. rewrite C1, C2, Z.eqb_refl. reflexivity.
Qed.

(* the rebuilt state does not depend on the delivery order *)
Theorem sched_replay_order_irrelevant c ops s1 s2 r : no_migration ops = true ->
  let l := slive_after c ops in
  got_cache (sreplay (s_descs c) (sl_w l) s1 r) = got_cache (sreplay (s_descs c) (sl_w l) s2 r)
  /\ se_known (sreplay (s_descs c) (sl_w l) s1 r) = se_known (sreplay (s_descs c) (sl_w l) s2 r).
Proof.
  intros HM l.
  destruct (sched_restart_caches c ops s1 HM) as (_ & H1). destruct (sched_restart_caches c ops s2 HM) as (_ & H2).
  destruct (H1 r) as (C1 & K1). destruct (H2 r) as (C2 & K2). fold l in C1, K1, C2, K2. split; congruence.
Qed.
