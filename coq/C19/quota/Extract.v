(* C19 / stream "quota" — flat-integer interface for the generic OCaml driver. *)
From Coq Require Import List ZArith Bool.
From Verif Require Import Lib.Wire C19.Model C19.ModelRsv C19.ModelQuota C19.Spec C19.SpecQuota C19.Decode.
Import ListNotations.
Open Scope Z_scope.

Definition dec_qdesc (l : list Z) : qdesc * list Z :=
  match l with a :: b :: c :: t => (mkQD a b c, t) | _ => (qd_default, []) end.
Definition decode_qcase (inp : list Z) : qcase :=
  match inp with
  | nq :: first :: t =>
      let '(ds, r1) := decode_seq dec_qdesc t in
      let '(ops, r2) := decode_seq dec_pair r1 in
      let '(sc, _) := decode_seq dec_pair r2 in
      mkQCase nq (zb first) ds ops sc
  | _ => mkQCase 0 true [] [] []
  end.
Definition dec_qsnap (nq np : nat) (l : list Z) : qsnap * list Z :=
  let '(used, r1) := decode_many dec_pair nq l in
  let '(pods, r2) := decode_many dec_pair np r1 in (mkQSnap used pods, r2).
Definition dec_qstep (nq np : nat) (l : list Z) :=
  let '(a, r) := dec_qsnap nq np l in
  let '(b, r') := dec_qsnap nq np r in ((a, b), r').

Definition run_case (inp : list Z) : list Z := enc_qrun (qrun (decode_qcase inp)).
Definition prop_case (inp obs : list Z) : Z :=
  let c := decode_qcase inp in
  let r := fst (decode_many (dec_qstep (Z.to_nat (q_nq c)) (length (q_descs c))) (length (q_ops c)) obs) in
  if negb (Spec.eq_listZ (enc_qrun r) obs) then 9 else prop_quota c r.
Definition nontrivial_case (inp : list Z) : bool := nontrivial_quota (decode_qcase inp).
(* known-finding shape 1: Used differs between the live and the rebuilt manager (clause 8) and some
   pod terminated without being deleted (the live manager keeps charging it) *)
Definition finding_sig (inp obs : list Z) : Z :=
  let c := decode_qcase inp in
  if (prop_case inp obs =? 8) && negb (no_terminated c) && Spec.eq_listZ (run_case inp) obs then 1 else 0.

Require Extraction.
Require Import ExtrOcamlBasic.
Extraction "model.ml" run_case prop_case nontrivial_case finding_sig.
