(* C19 — the property for the reservation plugin's ledger: after a restart every reservation's
   assigned pods are exactly the bound pods that carry its reservation-allocated annotation, and
   its Allocated amount is the sum of their requests (so nothing that was taken is free). *)
From Coq Require Import List ZArith Bool.
From Verif Require Import C19.Model C19.ModelRsv C19.Spec.
Import ListNotations.
Open Scope Z_scope.

Notation rsnap_t := (list rentry).

Definition uids (ds : list rdesc) : list Z := zrange 1 (length ds).
(* pods the cache of reservation r must list, by life-cycle status *)
Definition rexp_uids (ds : list rdesc) (life : Z -> Z) (live : bool) (r : Z) : list Z :=
  filter (fun u => (rd_rsv (rdesc_of ds u) =? r) && ((life u =? 2) || (live && (life u =? 1)))) (uids ds).
Definition rsum (ds : list rdesc) (us : list Z) : Z * Z :=
  fold_right (fun u acc => pair_add (rd_cpu (rdesc_of ds u), rd_mem (rdesc_of ds u)) acc) (0, 0) us.
(* clause for reservation r:
   9 no ReservationInfo / malformed, 1 an expected pod is missing, 2 a pod is listed that should
   not be, 4 Allocated is not the sum of the requests of the listed pods *)
Definition bit_clause (exp : list Z) (ub : Z * Z) : Z :=
  let want := memZ (fst ub) exp in
  if want && (snd ub =? 0) then 1 else if negb want && negb (snd ub =? 0) then 2 else 0.
Definition rsv_clause (ds : list rdesc) (life : Z -> Z) (live : bool) (r : Z) (e : rentry) : Z :=
  let exp := rexp_uids ds life live r in
  let bits := snd (snd e) in
  if negb ((fst e =? 1) && Nat.eqb (length bits) (length ds)) then 9
  else let cl := first_nz (map (bit_clause exp) (combine (uids ds) bits)) in
  if negb (cl =? 0) then cl
  else if negb (eq_pair (fst (snd e)) (rsum ds exp)) then 4
  else 0.
Definition rsnap_code (nr : Z) (ds : list rdesc) (life : Z -> Z) (live : bool) (s : rsnap_t) : Z :=
  if negb (Z.of_nat (length s) =? nr) then 9
  else first_nz (map (fun re => rsv_clause ds life live (fst re) (snd re)) (combine (zrange 1 (length s)) s)).
Definition rstep_code (c : rcase) (life : Z -> Z) (LR : rsnap_t * rsnap_t) : Z :=
  let kl := rsnap_code (r_nr c) (r_descs c) life true (fst LR) in
  if negb (kl =? 0) then (if kl =? 9 then 9 else 6)
  else rsnap_code (r_nr c) (r_descs c) life false (snd LR).
Definition prop_rsv (c : rcase) (obs : list (rsnap_t * rsnap_t)) : Z :=
  if negb (Nat.eqb (length obs) (length (r_ops c))) then 9
  else first_nz (map (fun lo => rstep_code c (fst lo) (snd lo))
                     (combine (rlives c (rlive_init (r_nr c)) (r_ops c)) obs)).

Definition rdesc_ok (nr : Z) (d : rdesc) : bool :=
  (1 <=? rd_rsv d) && (rd_rsv d <=? nr) && (0 <=? rd_cpu d) && (0 <=? rd_mem d).
Definition rcase_ok (c : rcase) : bool :=
  forallb (rdesc_ok (r_nr c)) (r_descs c) && r_first c && (0 <=? r_nr c).

Definition nontrivial_rsv (c : rcase) : bool :=
  existsb (fun life => existsb (fun u => life u =? 2) (uids (r_descs c)))
          (rlives c (rlive_init (r_nr c)) (r_ops c)).
