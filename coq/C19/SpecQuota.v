(* C19 — the property for the elastic-quota manager: after a restart every stored pod is in its
   quota's PodCache, exactly the bound (non-terminated) ones are marked assigned, and Used is the sum
   of the assigned pods' requests. *)
From Coq Require Import List ZArith Bool.
From Verif Require Import C19.Model C19.ModelRsv C19.ModelQuota C19.Spec.
Import ListNotations.
Open Scope Z_scope.

Definition quids (ds : list qdesc) : list Z := zrange 1 (length ds).
Definition q_exists_exp (life : Z -> Z) (u : Z) : bool := negb ((life u =? 3) || (life u =? 9)).
(* live: ReservePod marks the pod, and a pod that terminates keeps its mark until it is deleted;
   rebuilt: only bound, non-terminated pods are marked *)
Definition q_assigned_exp (life : Z -> Z) (live : bool) (u : Z) : bool :=
  (life u =? 2) || (live && ((life u =? 1) || (life u =? 4))).
Definition qsum (ds : list qdesc) (us : list Z) : Z * Z :=
  fold_right (fun u acc => pair_add (qd_cpu (qdesc_of ds u), qd_mem (qdesc_of ds u)) acc) (0, 0) us.

(* 9 malformed, 1 an assigned mark is missing, 2 a mark that should not be there, 3 PodCache
   membership wrong, 4 Used is not the sum of the requests of the pods marked assigned *)
Definition pod_bits_clause (life : Z -> Z) (live : bool) (ub : Z * (Z * Z)) : Z :=
  let u := fst ub in let ex := fst (snd ub) in let asg := snd (snd ub) in
  if negb (Z.eqb ex (if q_exists_exp life u then 1 else 0)) then 3
  else if q_assigned_exp life live u && (asg =? 0) then 1
  else if negb (q_assigned_exp life live u) && negb (asg =? 0) then 2
  else 0.
Definition qsnap_code (nq : Z) (ds : list qdesc) (life : Z -> Z) (live : bool) (s : qsnap) : Z :=
  if negb ((Z.of_nat (length (qs_used s)) =? nq) && Nat.eqb (length (qs_pods s)) (length ds)) then 9 else
  let cl := first_nz (map (pod_bits_clause life live) (combine (quids ds) (qs_pods s))) in
  if negb (cl =? 0) then cl else
  if negb (forallb (fun qe => eq_pair (snd qe)
             (qsum ds (filter (fun u => (qd_quota (qdesc_of ds u) =? fst qe) && q_assigned_exp life live u) (quids ds))))
           (combine (zrange 1 (length (qs_used s))) (qs_used s))) then 4
  else 0.
(* 6: the live manager is not as specified; 8: nothing is in flight, yet Used differs between the
   live and the rebuilt manager *)
Definition qstep_code (c : qcase) (life : Z -> Z) (LR : qsnap * qsnap) : Z :=
  let kl := qsnap_code (q_nq c) (q_descs c) life true (fst LR) in
  if negb (kl =? 0) then (if kl =? 9 then 9 else 6) else
  let kr := qsnap_code (q_nq c) (q_descs c) life false (snd LR) in
  if negb (kr =? 0) then kr else
  if forallb (fun u => negb (life u =? 1)) (quids (q_descs c))
     && negb (Spec.eq_listZ (flat_map (fun e => [fst e; snd e]) (qs_used (fst LR)))
                            (flat_map (fun e => [fst e; snd e]) (qs_used (snd LR)))) then 8
  else 0.
Definition prop_quota (c : qcase) (obs : list (qsnap * qsnap)) : Z :=
  if negb (Nat.eqb (length obs) (length (q_ops c))) then 9
  else first_nz (map (fun lo => qstep_code c (fst lo) (snd lo)) (combine (qlives c qlive_init (q_ops c)) obs)).

Definition qdesc_ok (nq : Z) (d : qdesc) : bool :=
  (1 <=? qd_quota d) && (qd_quota d <=? nq) && (0 <=? qd_cpu d) && (0 <=? qd_mem d).
Definition qcase_ok (c : qcase) : bool := forallb (qdesc_ok (q_nq c)) (q_descs c) && (0 <=? q_nq c) && q_first c.
(* no pod is terminated-but-not-deleted at any cut *)
Definition no_terminated (c : qcase) : bool := forallb (fun op => negb (fst op =? 7)) (q_ops c).

Definition nontrivial_quota (c : qcase) : bool :=
  existsb (fun life => existsb (fun u => life u =? 2) (quids (q_descs c))) (qlives c qlive_init (q_ops c)).
