(* C19 — restart theorem for the elastic-quota manager's pod cache / Used accounting (instance of
   the keyed ledger of Proofs_Ledger.v), at the level of the caches. *)
From Coq Require Import List ZArith Bool Lia.
From Verif Require Import Lib.ListX C19.Model C19.ModelRsv C19.ModelQuota C19.Spec C19.SpecQuota
  C19.Proofs_Codec C19.Proofs_Ledger C19.Proofs_Restart C19.Proofs_Rsv.
Import ListNotations.
Open Scope Z_scope.

Lemma qkey_decode uid t k : 0 <= t < 10 -> (uid * 10 + t =? k) = (uid =? k / 10) && (t =? k mod 10).
Proof.
  intros Ht. pose proof (Z.div_mod k 10 ltac:(lia)) as Hk. pose proof (Z.mod_pos_bound k 10 ltac:(lia)) as Hm.
  apply eq_true_iff_eq. rewrite andb_true_iff, !Z.eqb_eq. split; [intros <-|intros [-> ->]].
  - split; [apply Z.div_unique with t; lia | apply Z.mod_unique with uid; lia].
  - lia.
Qed.
Lemma qk_pod_decode uid k : (k =? qk_pod uid) = (k / 10 =? uid) && (k mod 10 =? 0).
Proof.
  unfold qk_pod. replace (uid * 10) with (uid * 10 + 0) by lia. rewrite (Z.eqb_sym k), qkey_decode by lia.
  rewrite (Z.eqb_sym uid), (Z.eqb_sym 0). reflexivity.
Qed.
Lemma qk_used_decode uid k : (k =? qk_used uid) = (k / 10 =? uid) && (k mod 10 =? 1).
Proof.
  unfold qk_used. rewrite (Z.eqb_sym k), qkey_decode by lia. rewrite (Z.eqb_sym uid), (Z.eqb_sym 1). reflexivity.
Qed.

Section Quota.
  Variables (nq : Z) (ds : list qdesc).
  Hypothesis Hds : forallb (qdesc_ok nq) ds = true.

  Lemma qdesc_valid u : qvalid ds u = true -> qdesc_ok nq (qdesc_of ds u) = true.
  Proof.
    unfold qvalid, qdesc_of. rewrite andb_true_iff, !Z.leb_le. intros [H1 H2].
    rewrite forallb_forall in Hds. apply Hds, nth_In. lia.
  Qed.
  Lemma q_used_ok u : qvalid ds u = true -> palloc_ok (q_used ds u).
  Proof.
    intros Hv. pose proof (qdesc_valid u Hv) as H. unfold qdesc_ok in H. rewrite !andb_true_iff, !Z.leb_le in H.
    split; cbn [q_used pa_cpus pa_numa]; [constructor|]. intros e [<-|[]]. unfold pair_nonneg. cbn. lia.
  Qed.
  Lemma q_entry_ok u : palloc_ok (q_entry u).
  Proof. split; cbn; [constructor|intros e []]. Qed.

  (* what the cache lists under key k of quota q: [ex] = in PodCache, [asg] = marked assigned *)
  Definition qexp (ex asg : Z -> bool) (q k : Z) : option palloc :=
    let u := k / 10 in
    if qvalid ds u && (qd_quota (qdesc_of ds u) =? q)
    then (if k mod 10 =? 0 then (if ex u then Some (q_entry u) else None)
          else if k mod 10 =? 1 then (if asg u then Some (q_used ds u) else None) else None)
    else None.
  Definition qlisted (st : nstate) (ex asg : Z -> bool) : Prop :=
    forall q k, find_pod (ns_pods st) q k = qexp ex asg q k.
  Lemma qlisted_ext st e1 a1 e2 a2 :
    (forall u, e1 u = e2 u) -> (forall u, a1 u = a2 u) -> qlisted st e1 a1 -> qlisted st e2 a2.
  Proof. intros H1 H2 HL q k. rewrite HL. unfold qexp. rewrite H1, H2. reflexivity. Qed.

  Lemma qexp_pod ex asg u : qvalid ds u = true ->
    qexp ex asg (qd_quota (qdesc_of ds u)) (qk_pod u) = if ex u then Some (q_entry u) else None.
  Proof.
    intros Hv. unfold qexp, qk_pod. replace (u * 10 / 10) with u by (apply Z.div_unique with 0; lia).
    replace ((u * 10) mod 10) with 0 by (apply Z.mod_unique with u; lia).
    rewrite Hv, Z.eqb_refl. reflexivity.
  Qed.
  Lemma qexp_used ex asg u : qvalid ds u = true ->
    qexp ex asg (qd_quota (qdesc_of ds u)) (qk_used u) = if asg u then Some (q_used ds u) else None.
  Proof.
    intros Hv. unfold qexp, qk_used. replace ((u * 10 + 1) / 10) with u by (apply Z.div_unique with 1; lia).
    replace ((u * 10 + 1) mod 10) with 1 by (apply Z.mod_unique with u; lia).
    rewrite Hv, Z.eqb_refl. reflexivity.
  Qed.

  Lemma q_exists_listed st ex asg u : qlisted st ex asg -> qvalid ds u = true ->
    q_exists st (qd_quota (qdesc_of ds u)) u = ex u.
  Proof. intros HL Hv. unfold q_exists. rewrite HL, (qexp_pod _ _ _ Hv). destruct (ex u); reflexivity. Qed.
  Lemma q_assigned_listed st ex asg u : qlisted st ex asg -> qvalid ds u = true ->
    q_assigned st (qd_quota (qdesc_of ds u)) u = asg u.
  Proof. intros HL Hv. unfold q_assigned. rewrite HL, (qexp_used _ _ _ Hv). destruct (asg u); reflexivity. Qed.

  (* the four elementary changes *)
  Ltac qcase_key E :=
    match goal with |- context [?k / 10 =? ?u] => destruct (k / 10 =? u) eqn:E end.

  Lemma listed_entry_add st ex asg u : qvalid ds u = true -> qlisted st ex asg ->
    qlisted (add_pod no_topo st (qd_quota (qdesc_of ds u)) (q_entry u)) (fun v => if v =? u then true else ex v) asg.
  Proof.
    intros Hv HL q k. rewrite add_pod_find_gen. cbn [q_entry pa_uid]. fold (q_entry u).
    rewrite (HL (qd_quota (qdesc_of ds u)) (qk_pod u)), (HL q k), (qexp_pod _ _ _ Hv), qk_pod_decode.
    unfold qexp. destruct (k / 10 =? u) eqn:E.
    - apply Z.eqb_eq in E. rewrite E, Hv, ?Z.eqb_refl. cbn [andb]. rewrite (Z.eqb_sym q).
      destruct (qd_quota (qdesc_of ds u) =? q); cbn [andb]; [|reflexivity].
      destruct (k mod 10 =? 0); cbn [andb]; [destruct (ex u); reflexivity|reflexivity].
    - rewrite andb_false_r. reflexivity.
  Qed.
  Lemma listed_entry_del st ex asg u : qvalid ds u = true -> qlisted st ex asg ->
    qlisted (release no_topo st (qd_quota (qdesc_of ds u)) (qk_pod u)) (fun v => if v =? u then false else ex v) asg.
  Proof.
    intros Hv HL q k. rewrite release_find, (HL q k), qk_pod_decode.
    unfold qexp. destruct (k / 10 =? u) eqn:E.
    - apply Z.eqb_eq in E. rewrite E, Hv, ?Z.eqb_refl. cbn [andb]. rewrite (Z.eqb_sym q).
      destruct (qd_quota (qdesc_of ds u) =? q); cbn [andb]; [|reflexivity].
      destruct (k mod 10 =? 0); reflexivity.
    - rewrite andb_false_r. reflexivity.
  Qed.
  Lemma listed_mark_add st ex asg u : qvalid ds u = true -> qlisted st ex asg ->
    qlisted (q_mark ds st (qd_quota (qdesc_of ds u)) u) ex (fun v => if v =? u then true else asg v).
  Proof.
    intros Hv HL q k. unfold q_mark. rewrite add_pod_find_gen. cbn [q_used pa_uid]. fold (q_used ds u).
    rewrite (HL (qd_quota (qdesc_of ds u)) (qk_used u)), (HL q k), (qexp_used _ _ _ Hv), qk_used_decode.
    unfold qexp. destruct (k / 10 =? u) eqn:E.
    - apply Z.eqb_eq in E. rewrite E, Hv, ?Z.eqb_refl. cbn [andb]. rewrite (Z.eqb_sym q).
      destruct (qd_quota (qdesc_of ds u) =? q); cbn [andb]; [|reflexivity].
      destruct (k mod 10 =? 1) eqn:E1; cbn [andb]; [|reflexivity].
      apply Z.eqb_eq in E1. rewrite E1. cbn [Z.eqb]. destruct (asg u); reflexivity.
    - rewrite andb_false_r. reflexivity.
  Qed.
  Lemma listed_mark_del st ex asg u : qvalid ds u = true -> qlisted st ex asg ->
    qlisted (release no_topo st (qd_quota (qdesc_of ds u)) (qk_used u)) ex (fun v => if v =? u then false else asg v).
  Proof.
    intros Hv HL q k. rewrite release_find, (HL q k), qk_used_decode.
    unfold qexp. destruct (k / 10 =? u) eqn:E.
    - apply Z.eqb_eq in E. rewrite E, Hv, ?Z.eqb_refl. cbn [andb]. rewrite (Z.eqb_sym q).
      destruct (qd_quota (qdesc_of ds u) =? q); cbn [andb]; [|reflexivity].
      destruct (k mod 10 =? 1) eqn:E1; cbn [andb]; [|reflexivity].
      apply Z.eqb_eq in E1. rewrite E1. reflexivity.
    - rewrite andb_false_r. reflexivity.
  Qed.

  (* a cache with the ledger invariant that lists (ex, asg) *)
  Definition QGood (st : nstate) (ex asg : Z -> bool) : Prop := Inv no_topo st /\ qlisted st ex asg.
  Definition setb (f : Z -> bool) (u : Z) (b : bool) : Z -> bool := fun v => if v =? u then b else f v.

  Lemma QGood_ext st e1 a1 e2 a2 :
    (forall u, e1 u = e2 u) -> (forall u, a1 u = a2 u) -> QGood st e1 a1 -> QGood st e2 a2.
  Proof. intros H1 H2 [HI HL]. split; [exact HI|eapply qlisted_ext; eassumption]. Qed.

  (* the manager's entry points, on a pod of its own quota *)
  Lemma good_on_add st ex asg u o :
    qvalid ds u = true -> qo_uid o = u -> QGood st ex asg -> (ex u = false -> asg u = false) ->
    QGood (q_on_add ds st (qd_quota (qdesc_of ds u)) o)
          (setb ex u true) (if ex u then asg else setb asg u (qo_counts o)).
  Proof.
    intros Hv Hu [HI HL] Hea. unfold q_on_add. rewrite Hu, (q_exists_listed _ _ _ _ HL Hv).
    destruct (ex u) eqn:Ex.
    - split; [exact HI|]. eapply qlisted_ext; [| |exact HL]; [|reflexivity].
      intros v. unfold setb. destruct (v =? u) eqn:E; [apply Z.eqb_eq in E; subst; congruence|reflexivity].
    - pose proof (listed_entry_add _ _ _ _ Hv HL) as HL1.
      assert (HI1 : Inv no_topo (add_pod no_topo st (qd_quota (qdesc_of ds u)) (q_entry u)))
        by (apply add_pod_Inv; [exact HI|apply q_entry_ok]).
      rewrite (q_assigned_listed _ _ _ _ HL1 Hv), (Hea eq_refl). cbn [negb]. rewrite andb_true_r.
      destruct (qo_counts o).
      + split; [apply add_pod_Inv; [exact HI1|apply q_used_ok, Hv]|]. apply listed_mark_add; assumption.
      + split; [exact HI1|]. eapply qlisted_ext; [| |exact HL1]; [reflexivity|].
        intros v. unfold setb. destruct (v =? u) eqn:E; [apply Z.eqb_eq in E; subst; apply Hea; reflexivity|reflexivity].
  Qed.
  Lemma good_on_update st ex asg u o :
    qvalid ds u = true -> qo_uid o = u -> QGood st ex asg ->
    QGood (q_on_update ds st (qd_quota (qdesc_of ds u)) o)
          (setb ex u true) (if asg u then asg else setb asg u (qo_counts o)).
  Proof.
    intros Hv Hu [HI HL]. unfold q_on_update. rewrite Hu, (q_exists_listed _ _ _ _ HL Hv).
    set (st1 := if ex u then st else add_pod no_topo st (qd_quota (qdesc_of ds u)) (q_entry u)).
    assert (H1 : QGood st1 (setb ex u true) asg).
    { unfold st1. destruct (ex u) eqn:Ex.
      - split; [exact HI|]. eapply qlisted_ext; [| |exact HL]; [|reflexivity].
        intros v. unfold setb. destruct (v =? u) eqn:E; [apply Z.eqb_eq in E; subst; congruence|reflexivity].
      - split; [apply add_pod_Inv; [exact HI|apply q_entry_ok]|apply listed_entry_add; assumption]. }
    destruct H1 as [HI1 HL1]. rewrite (q_assigned_listed _ _ _ _ HL1 Hv).
    destruct (asg u) eqn:Ea; [split; assumption|].
    destruct (qo_counts o).
    - split; [apply add_pod_Inv; [exact HI1|apply q_used_ok, Hv]|]. apply listed_mark_add; assumption.
    - split; [exact HI1|]. eapply qlisted_ext; [| |exact HL1]; [reflexivity|].
      intros v. unfold setb. destruct (v =? u) eqn:E; [apply Z.eqb_eq in E; subst; congruence|reflexivity].
  Qed.
  Lemma good_on_delete st ex asg u :
    qvalid ds u = true -> QGood st ex asg -> (ex u = false -> asg u = false) ->
    QGood (q_on_delete st (qd_quota (qdesc_of ds u)) u) (setb ex u false) (setb asg u false).
  Proof.
    intros Hv [HI HL] Hea. unfold q_on_delete. rewrite (q_exists_listed _ _ _ _ HL Hv).
    destruct (ex u) eqn:Ex.
    - split; [apply release_Inv, release_Inv, HI|]. apply listed_entry_del; [exact Hv|]. apply listed_mark_del; assumption.
    - split; [exact HI|]. eapply qlisted_ext; [| |exact HL]; intros v; unfold setb;
        (destruct (v =? u) eqn:E; [apply Z.eqb_eq in E; subst; auto|reflexivity]).
  Qed.
  Lemma good_reserve st ex asg u :
    qvalid ds u = true -> QGood st ex asg ->
    QGood (q_reserve ds st (qd_quota (qdesc_of ds u)) u) ex (if ex u then setb asg u true else asg).
  Proof.
    intros Hv [HI HL]. unfold q_reserve. rewrite (q_exists_listed _ _ _ _ HL Hv), (q_assigned_listed _ _ _ _ HL Hv).
    destruct (ex u); cbn [andb]; [|split; assumption].
    destruct (asg u) eqn:Ea; cbn [negb].
    - split; [exact HI|]. eapply qlisted_ext; [| |exact HL]; [reflexivity|].
      intros v. unfold setb. destruct (v =? u) eqn:E; [apply Z.eqb_eq in E; subst; congruence|reflexivity].
    - split; [apply add_pod_Inv; [exact HI|apply q_used_ok, Hv]|apply listed_mark_add; assumption].
  Qed.
  Lemma good_unreserve st ex asg u :
    qvalid ds u = true -> QGood st ex asg ->
    QGood (q_unreserve st (qd_quota (qdesc_of ds u)) u) ex (if ex u then setb asg u false else asg).
  Proof.
    intros Hv [HI HL]. unfold q_unreserve. rewrite (q_exists_listed _ _ _ _ HL Hv), (q_assigned_listed _ _ _ _ HL Hv).
    destruct (ex u); cbn [andb]; [|split; assumption].
    destruct (asg u) eqn:Ea.
    - split; [apply release_Inv, HI|apply listed_mark_del; assumption].
    - split; [exact HI|]. eapply qlisted_ext; [| |exact HL]; [reflexivity|].
      intros v. unfold setb. destruct (v =? u) eqn:E; [apply Z.eqb_eq in E; subst; congruence|reflexivity].
  Qed.

  (* ---------- live ---------- *)
  Definition lex (life : Z -> Z) (u : Z) : bool := negb ((life u =? 3) || (life u =? 9)).
  Definition lasg (life : Z -> Z) (live : bool) (u : Z) : bool :=
    (life u =? 2) || (live && ((life u =? 1) || (life u =? 4))).

  Definition QLive (l : qlive) : Prop := QGood (ql_st l) (lex (ql_life l)) (lasg (ql_life l) true).

  Lemma QLive_init : QLive qlive_init.
  Proof.
    split; [apply Inv_init|]. intros q k. unfold qexp, lex, lasg. cbn.
    destruct (qvalid ds (k / 10) && _); [|reflexivity]. destruct (k mod 10 =? 0); [reflexivity|].
    destruct (k mod 10 =? 1); reflexivity.
  Qed.

  Lemma qlive_step_QLive l op : QLive l -> QLive (qlive_step ds l op).
  Proof.
    intros HG. destruct op as [k uid]. unfold qlive_step.
    destruct (qvalid ds uid) eqn:Hv; cbn [negb]; [|exact HG].
    set (q := qd_quota (qdesc_of ds uid)). set (s := ql_life l uid). unfold QLive in *.
    assert (Hea : lex (ql_life l) uid = false -> lasg (ql_life l) true uid = false).
    { unfold lex, lasg. fold s. intros H. apply negb_false_iff, orb_true_iff in H.
      destruct H as [H|H]; apply Z.eqb_eq in H; rewrite H; reflexivity. }
    assert (Hupd : forall v w, lex (upd1 (ql_life l) uid v) w = if w =? uid then negb ((v =? 3) || (v =? 9)) else lex (ql_life l) w).
    { intros v w. unfold lex, upd1. destruct (w =? uid); reflexivity. }
    assert (Hupa : forall v w, lasg (upd1 (ql_life l) uid v) true w = if w =? uid then (v =? 2) || ((v =? 1) || (v =? 4)) else lasg (ql_life l) true w).
    { intros v w. unfold lasg, upd1. destruct (w =? uid); reflexivity. }
    destruct ((k =? 6) && (s =? 9)) eqn:C6.
    { apply andb_true_iff in C6. destruct C6 as [_ Hs]. apply Z.eqb_eq in Hs. cbn [ql_st ql_life].
      eapply QGood_ext; [| |apply (good_on_add _ _ _ uid (mkQO uid false false) Hv eq_refl HG Hea)].
      - intros w. rewrite Hupd. unfold setb. destruct (w =? uid); reflexivity.
      - intros w. rewrite Hupa. assert (Hex : lex (ql_life l) uid = false) by (unfold lex; fold s; rewrite Hs; reflexivity).
        rewrite Hex. unfold setb, qo_counts. cbn. destruct (w =? uid); reflexivity. }
    destruct ((k =? 1) && (s =? 0)) eqn:C1.
    { apply andb_true_iff in C1. destruct C1 as [_ Hs]. apply Z.eqb_eq in Hs. cbn [ql_st ql_life].
      eapply QGood_ext; [| |apply (good_reserve _ _ _ uid Hv HG)].
      - intros w. rewrite Hupd. destruct (w =? uid) eqn:E; [|reflexivity]. apply Z.eqb_eq in E. subst w.
        unfold lex. fold s. rewrite Hs. reflexivity.
      - intros w. rewrite Hupa. assert (Hex : lex (ql_life l) uid = true) by (unfold lex; fold s; rewrite Hs; reflexivity).
        rewrite Hex. unfold setb. destruct (w =? uid); reflexivity. }
    destruct ((k =? 2) && (s =? 1)) eqn:C2.
    { apply andb_true_iff in C2. destruct C2 as [_ Hs]. apply Z.eqb_eq in Hs. cbn [ql_st ql_life].
      eapply QGood_ext; [| |apply (good_unreserve _ _ _ uid Hv HG)].
      - intros w. rewrite Hupd. destruct (w =? uid) eqn:E; [|reflexivity]. apply Z.eqb_eq in E. subst w.
        unfold lex. fold s. rewrite Hs. reflexivity.
      - intros w. rewrite Hupa. assert (Hex : lex (ql_life l) uid = true) by (unfold lex; fold s; rewrite Hs; reflexivity).
        rewrite Hex. unfold setb. destruct (w =? uid); reflexivity. }
    assert (Hupdate : forall v o, qo_uid o = uid -> lex (ql_life l) uid = true -> lasg (ql_life l) true uid = true ->
              negb ((v =? 3) || (v =? 9)) = true -> ((v =? 2) || ((v =? 1) || (v =? 4))) = true ->
              QGood (q_on_update ds (ql_st l) q o) (lex (upd1 (ql_life l) uid v)) (lasg (upd1 (ql_life l) uid v) true)).
    { intros v o Ho Hex Has Hv1 Hv2. eapply QGood_ext; [| |apply (good_on_update _ _ _ uid o Hv Ho HG)].
      - intros w. rewrite Hupd, Hv1. unfold setb. destruct (w =? uid); reflexivity.
      - intros w. rewrite Hupa, Hv2, Has. destruct (w =? uid) eqn:E; [|reflexivity]. apply Z.eqb_eq in E. subst w. exact Has. }
    destruct ((k =? 3) && (s =? 1)) eqn:C3.
    { apply andb_true_iff in C3. destruct C3 as [_ Hs]. apply Z.eqb_eq in Hs. cbn [ql_st ql_life].
      apply Hupdate; try reflexivity; [unfold lex|unfold lasg]; fold s; rewrite Hs; reflexivity. }
    destruct ((k =? 4) && ((s =? 0) || (s =? 2) || (s =? 4))) eqn:C4.
    { cbn [ql_st ql_life]. eapply QGood_ext; [| |apply (good_on_delete _ _ _ uid Hv HG Hea)].
      - intros w. rewrite Hupd. unfold setb. destruct (w =? uid); reflexivity.
      - intros w. rewrite Hupa. unfold setb. destruct (w =? uid); reflexivity. }
    destruct ((k =? 5) && (s =? 2)) eqn:C5.
    { apply andb_true_iff in C5. destruct C5 as [_ Hs]. apply Z.eqb_eq in Hs. cbn [ql_st ql_life].
      eapply QGood_ext; [| |apply (Hupdate 2 (mkQO uid true false) eq_refl)]; try reflexivity.
      - intros w. unfold lex, upd1. destruct (w =? uid) eqn:E; [|reflexivity]. apply Z.eqb_eq in E. subst w. fold s. rewrite Hs. reflexivity.
      - intros w. unfold lasg, upd1. destruct (w =? uid) eqn:E; [|reflexivity]. apply Z.eqb_eq in E. subst w. fold s. rewrite Hs. reflexivity.
      - unfold lex. fold s. rewrite Hs. reflexivity.
      - unfold lasg. fold s. rewrite Hs. reflexivity. }
    destruct ((k =? 7) && (s =? 2)) eqn:C7; [|exact HG].
    apply andb_true_iff in C7. destruct C7 as [_ Hs]. apply Z.eqb_eq in Hs. cbn [ql_st ql_life].
    apply Hupdate; try reflexivity; [unfold lex|unfold lasg]; fold s; rewrite Hs; reflexivity.
  Qed.

  (* ---------- fresh ---------- *)
  Variable life : Z -> Z.

  Definition QFresh (f : qfresh) : Prop :=
    exists dl, QGood (qf_st f) (fun u => dl u && lex life u) (fun u => dl u && lasg life false u)
               /\ (forall u, qf_seen f u = true -> dl u = true).

  Lemma qobj_counts u o : qobj_of life u = Some o -> qo_uid o = u /\ qo_counts o = lasg life false u /\ lex life u = true.
  Proof.
    unfold qobj_of, lex, lasg. destruct ((life u =? 3) || (life u =? 9)); [discriminate|]. intros H. injection H as <-.
    cbn [qo_uid qo_counts qo_bound qo_term]. split; [reflexivity|]. split; [|reflexivity].
    destruct (life u =? 2) eqn:E2; destruct (life u =? 4) eqn:E4; cbn; try reflexivity.
    apply Z.eqb_eq in E2, E4. lia.
  Qed.

  Lemma qreplay_step_QFresh f ev : QFresh f -> QFresh (qreplay_step ds life f ev).
  Proof.
    intros (dl & HG & Hs). destruct ev as [k id]. unfold qreplay_step.
    destruct (qvalid ds id) eqn:Hv; cbn [negb]; [|exists dl; auto].
    destruct (qobj_of life id) as [o|] eqn:Ho; [|exists dl; auto].
    destruct (qobj_counts id o Ho) as (Hu & Hc & Hex).
    assert (Hea : (fun u => dl u && lex life u) id = false -> (fun u => dl u && lasg life false u) id = false).
    { cbn beta. rewrite Hex, andb_true_r. intros ->. reflexivity. }
    destruct (k =? 1).
    { exists (upd1 dl id true). split.
      - cbn [qf_st]. eapply QGood_ext; [| |apply (good_on_add _ _ _ id o Hv Hu HG Hea)].
        + intros w. unfold setb, upd1. destruct (w =? id) eqn:E; [|reflexivity]. apply Z.eqb_eq in E. subst w. rewrite Hex. reflexivity.
        + intros w. cbn beta. rewrite Hex, andb_true_r. unfold setb, upd1.
          destruct (dl id) eqn:Ed; destruct (w =? id) eqn:E; try reflexivity.
          * apply Z.eqb_eq in E. subst w. rewrite Ed. reflexivity.
          * apply Z.eqb_eq in E. subst w. rewrite Hc. reflexivity.
      - intros u. cbn [qf_seen]. unfold upd1. destruct (u =? id); [reflexivity|apply Hs]. }
    destruct ((k =? 2) || (k =? 3)); [|exists dl; auto].
    exists (upd1 dl id true). split.
    - cbn [qf_st]. eapply QGood_ext; [| |apply (good_on_update _ _ _ id o Hv Hu HG)].
      + intros w. unfold setb, upd1. destruct (w =? id) eqn:E; [|reflexivity]. apply Z.eqb_eq in E. subst w. rewrite Hex. reflexivity.
      + intros w. cbn beta. unfold setb, upd1.
        destruct (dl id && lasg life false id) eqn:Ed; destruct (w =? id) eqn:E; try reflexivity.
        * apply Z.eqb_eq in E. subst w. apply andb_true_iff in Ed. destruct Ed as [Ed1 Ed2]. rewrite Ed1, Ed2. reflexivity.
        * apply Z.eqb_eq in E. subst w. rewrite Hc. reflexivity.
    - intros u Hu'. cbn [qf_seen] in Hu'. unfold upd1. destruct (u =? id); [reflexivity|apply Hs, Hu'].
  Qed.
  Lemma qfold_QFresh evs f : QFresh f -> QFresh (fold_left (qreplay_step ds life) evs f).
  Proof. revert f. induction evs as [|e t IH]; intros f H; [exact H|]. cbn [fold_left]. apply IH, qreplay_step_QFresh, H. Qed.

  Lemma qreplay_step_seen f ev u : qf_seen f u = true -> qf_seen (qreplay_step ds life f ev) u = true.
  Proof.
    intros H. destruct ev as [k id]. unfold qreplay_step. destruct (negb (qvalid ds id)); [exact H|].
    destruct (qobj_of life id); [|exact H].
    destruct (k =? 1); [cbn [qf_seen]; unfold upd1; destruct (u =? id); [reflexivity|exact H]|].
    destruct ((k =? 2) || (k =? 3)); exact H.
  Qed.
  Lemma qfold_seen evs f u : qf_seen f u = true -> qf_seen (fold_left (qreplay_step ds life) evs f) u = true.
  Proof. revert f. induction evs as [|e t IH]; intros f H; [exact H|]. cbn [fold_left]. apply IH, qreplay_step_seen, H. Qed.
  Lemma qcompletion_seen f u :
    qvalid ds u = true -> qobj_of life u <> None ->
    qf_seen (fold_left (qreplay_step ds life) (qcompletion ds f) f) u = true.
  Proof.
    intros Hv Ho. destruct (qf_seen f u) eqn:Es; [apply qfold_seen, Es|]. unfold qcompletion.
    assert (Hin : In u (filter (fun u0 => negb (qf_seen f u0)) (zrange 1 (length ds)))).
    { apply filter_In. split; [|rewrite Es; reflexivity]. apply range_list_In.
      unfold qvalid in Hv. apply andb_true_iff in Hv. rewrite !Z.leb_le in Hv. lia. }
    apply in_split in Hin. destruct Hin as (l1 & l2 & ->).
    rewrite map_app, fold_left_app. cbn [map fold_left]. apply qfold_seen.
    generalize (fold_left (qreplay_step ds life) (map (fun u0 : Z => (1, u0)) l1) f). intros g.
    unfold qreplay_step. rewrite Hv. cbn [negb]. destruct (qobj_of life u); [|congruence].
    replace (1 =? 1) with true by reflexivity. cbn [qf_seen]. unfold upd1. rewrite Z.eqb_refl. reflexivity.
  Qed.

  (* the rebuilt manager: every stored pod of a valid uid is in its quota's PodCache, exactly the
     bound non-terminated ones are marked assigned *)
  Theorem qreplay_good script :
    QGood (qreplay ds life script) (fun u => qvalid ds u && lex life u) (fun u => qvalid ds u && lasg life false u).
  Proof.
    unfold qreplay. set (f0 := mkQF ns_init (fun _ => false)).
    set (f1 := fold_left (qreplay_step ds life) script f0).
    set (f2 := fold_left (qreplay_step ds life) (qcompletion ds f1) f1).
    assert (H0 : QFresh f0).
    { exists (fun _ => false). split; [|discriminate]. split; [apply Inv_init|].
      intros q k. unfold qexp. cbn. destruct (qvalid ds (k / 10) && _); [|reflexivity].
      destruct (k mod 10 =? 0); [reflexivity|]. destruct (k mod 10 =? 1); reflexivity. }
    pose proof (qfold_QFresh script f0 H0) as H1. fold f1 in H1.
    pose proof (qfold_QFresh (qcompletion ds f1) f1 H1) as H2. fold f2 in H2.
    destruct H2 as (dl & [HI HL] & Hs). split; [exact HI|].
    intros q k. rewrite HL. unfold qexp. destruct (qvalid ds (k / 10)) eqn:Hv; [|reflexivity]. cbn [andb].
    assert (Hdl : lex life (k / 10) = true -> dl (k / 10) = true).
    { intros Hex. apply Hs, qcompletion_seen; [exact Hv|]. unfold qobj_of, lex in *.
      apply negb_true_iff in Hex. rewrite Hex. discriminate. }
    assert (Hal : lasg life false (k / 10) = true -> lex life (k / 10) = true).
    { unfold lasg, lex. cbn [andb]. rewrite orb_false_r. intros H. apply Z.eqb_eq in H. rewrite H. reflexivity. }
    destruct (qd_quota (qdesc_of ds (k / 10)) =? q); [|reflexivity].
    destruct (k mod 10 =? 0).
    - destruct (lex life (k / 10)) eqn:Ex; [rewrite (Hdl eq_refl); reflexivity|rewrite andb_false_r; reflexivity].
    - destruct (k mod 10 =? 1); [|reflexivity].
      destruct (lasg life false (k / 10)) eqn:Ea; [rewrite (Hdl (Hal eq_refl)); reflexivity|rewrite andb_false_r; reflexivity].
  Qed.
End Quota.

Section QuotaMain.
  Variable c : qcase.
  Hypothesis Hok : qcase_ok c = true.
  Let ds := q_descs c.
  Lemma qcase_descs : forallb (qdesc_ok (q_nq c)) ds = true.
  Proof. unfold qcase_ok in Hok. rewrite !andb_true_iff in Hok. apply Hok. Qed.

  Definition qlive_after (ops : list (Z * Z)) : qlive := fold_left (qlive_step ds) ops qlive_init.
  Lemma qlive_after_good ops : QLive ds (qlive_after ops).
  Proof.
    unfold qlive_after. generalize (QLive_init ds). generalize qlive_init.
    induction ops as [|op t IH]; intros l HL; [exact HL|]. cbn [fold_left].
    apply IH. apply (qlive_step_QLive (q_nq c) ds qcase_descs), HL.
  Qed.

  (* for every history, cut and replay script: the live manager lists every existing pod and marks
     the assumed, bound and terminated-but-not-deleted ones; the rebuilt manager lists every stored
     pod and marks exactly the bound, non-terminated ones; Used of both is the from-scratch sum of
     the marked pods' requests (Ledger) *)
  Theorem quota_restart_caches ops script :
    let l := qlive_after ops in
    let r := qreplay ds (ql_life l) script in
    qlisted ds (ql_st l) (lex (ql_life l)) (lasg (ql_life l) true) /\ Ledger no_topo (ql_st l)
    /\ qlisted ds r (fun u => qvalid ds u && lex (ql_life l) u) (fun u => qvalid ds u && lasg (ql_life l) false u)
    /\ Ledger no_topo r.
  Proof.
    intros l r. destruct (qlive_after_good ops) as [HI HL]. fold l in HI, HL.
    destruct (qreplay_good (q_nq c) ds qcase_descs (ql_life l) script) as [HIr HLr].
    split; [exact HL|]. split; [apply (inv_ledger _ _ HI)|]. split; [exact HLr|apply (inv_ledger _ _ HIr)].
  Qed.
End QuotaMain.
