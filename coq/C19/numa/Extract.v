(* C19 / stream "numa" — flat-integer interface for the generic OCaml driver. *)
From Coq Require Import List ZArith Bool.
From Verif Require Import Lib.Wire C19.Model C19.Spec C19.Decode.
Import ListNotations.
Open Scope Z_scope.

Definition run_case (inp : list Z) : list Z := enc_run (run_ncase (decode_ncase inp)).

(* decode the implementation's observable; anything that does not re-encode to itself is malformed *)
Definition prop_case (inp obs : list Z) : Z :=
  let c := decode_ncase inp in
  let r := dec_run (universe_of c) (length (c_ops c)) obs in
  if negb (Spec.eq_listZ (enc_run r) obs) then 9 else prop_numa c r.

Definition nontrivial_case (inp : list Z) : bool := nontrivial_numa (decode_ncase inp).

(* known-finding shapes:
   1  an allocation is lost (clause 1) in a case whose replay delivers objects before the CPU topology
   2  only the ExclusivePolicy marks differ (clauses 7/8) and objects sharing a cpu ask for different policies
   3  only the ExclusivePolicy marks differ (clause 7) and a Reservation asks for an exclusive policy *)
Definition finding_sig (inp obs : list Z) : Z :=
  let c := decode_ncase inp in
  let code := prop_case inp obs in
  (* a known shape only counts when the implementation does exactly what the faithful model does *)
  if negb (Spec.eq_listZ (run_case inp) obs) then 0
  else if (code =? 1) && negb (c_topo_first c) then 1
  else if (code =? 7) && negb (rsv_no_excl (c_descs c)) then 3
  else if ((code =? 7) || (code =? 8)) && negb (policies_agree (c_descs c)) then 2
  else 0.

Require Extraction.
Require Import ExtrOcamlBasic.
Extraction "model.ml" run_case prop_case nontrivial_case finding_sig.
