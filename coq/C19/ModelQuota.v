(* C19 — executable model, part 4: the elastic-quota manager's pod cache / used accounting as far
   as a restart is concerned (GroupQuotaManager.OnPodAdd incl. the fail-over branch, OnPodUpdate,
   OnPodDelete, ReservePod, UnreservePod) for leaf quotas directly under the root whose max is
   never the limit.

   Instance of the keyed ledger of Model.v: the "node" is the quota; key uid*10 is the pod's entry in
   the quota's PodCache (no amount), key uid*10+1 its "isAssigned" mark carrying the pod's request in
   slot 0 (= CalculateInfo.Used). *)
From Coq Require Import List ZArith Bool.
From Verif Require Import C19.Model C19.ModelRsv.
Import ListNotations.
Open Scope Z_scope.

Record qdesc := mkQD { qd_quota : Z; qd_cpu : Z; qd_mem : Z }.
Definition qd_default : qdesc := mkQD 0 0 0.
Definition qdesc_of (ds : list qdesc) (uid : Z) : qdesc := nth (Z.to_nat (uid - 1)) ds qd_default.
Definition qvalid (ds : list qdesc) (uid : Z) : bool := (1 <=? uid) && (uid <=? Z.of_nat (length ds)).

Definition qk_pod (uid : Z) : Z := uid * 10.
Definition qk_used (uid : Z) : Z := uid * 10 + 1.
Definition q_entry (uid : Z) : palloc := mkPA (qk_pod uid) 0 [] [].
Definition q_used (ds : list qdesc) (uid : Z) : palloc :=
  let d := qdesc_of ds uid in mkPA (qk_used uid) 0 [] [(0, (qd_cpu d, qd_mem d))].

Definition q_exists (st : nstate) (q uid : Z) : bool :=
  match find_pod (ns_pods st) q (qk_pod uid) with Some _ => true | None => false end.
Definition q_assigned (st : nstate) (q uid : Z) : bool :=
  match find_pod (ns_pods st) q (qk_used uid) with Some _ => true | None => false end.

(* the stored pod: bound to a node?, terminated? *)
Record qobj := mkQO { qo_uid : Z; qo_bound : bool; qo_term : bool }.
Definition qo_counts (o : qobj) : bool := qo_bound o && negb (qo_term o).

Definition q_mark (ds : list qdesc) (st : nstate) (q uid : Z) : nstate := add_pod no_topo st q (q_used ds uid).

(* OnPodAdd *)
Definition q_on_add (ds : list qdesc) (st : nstate) (q : Z) (o : qobj) : nstate :=
  if q_exists st q (qo_uid o) then st
  else let st1 := add_pod no_topo st q (q_entry (qo_uid o)) in
       if qo_counts o && negb (q_assigned st1 q (qo_uid o)) then q_mark ds st1 q (qo_uid o) else st1.
(* OnPodUpdate within one quota (the pod's requests do not change) *)
Definition q_on_update (ds : list qdesc) (st : nstate) (q : Z) (o : qobj) : nstate :=
  let st1 := if q_exists st q (qo_uid o) then st else add_pod no_topo st q (q_entry (qo_uid o)) in
  if q_assigned st1 q (qo_uid o) then st1
  else if qo_counts o then q_mark ds st1 q (qo_uid o) else st1.
(* OnPodDelete *)
Definition q_on_delete (st : nstate) (q uid : Z) : nstate :=
  if q_exists st q uid then release no_topo (release no_topo st q (qk_used uid)) q (qk_pod uid) else st.
(* ReservePod / UnreservePod *)
Definition q_reserve (ds : list qdesc) (st : nstate) (q uid : Z) : nstate :=
  if q_exists st q uid && negb (q_assigned st q uid) then q_mark ds st q uid else st.
Definition q_unreserve (st : nstate) (q uid : Z) : nstate :=
  if q_exists st q uid && q_assigned st q uid then release no_topo st q (qk_used uid) else st.

(* life cycle: 9 not created yet, 0 pending, 1 assumed, 2 bound, 3 deleted, 4 terminated *)
Definition qobj_of (life : Z -> Z) (uid : Z) : option qobj :=
  let s := life uid in
  if (s =? 3) || (s =? 9) then None
  else Some (mkQO uid ((s =? 2) || (s =? 4)) (s =? 4)).

Record qlive := mkQL { ql_st : nstate; ql_life : Z -> Z }.
Definition qlive_init : qlive := mkQL ns_init (fun _ => 9).

(* 6 pod created (informer Add)  1 ReservePod  2 UnreservePod  3 bind (informer Update)
   4 informer Delete  5 informer Update (no change)  7 informer Update: terminated *)
Definition qlive_step (ds : list qdesc) (l : qlive) (op : Z * Z) : qlive :=
  let '(k, uid) := op in
  if negb (qvalid ds uid) then l else
  let q := qd_quota (qdesc_of ds uid) in
  let s := ql_life l uid in
  let st := ql_st l in
  if (k =? 6) && (s =? 9) then mkQL (q_on_add ds st q (mkQO uid false false)) (upd1 (ql_life l) uid 0)
  else if (k =? 1) && (s =? 0) then mkQL (q_reserve ds st q uid) (upd1 (ql_life l) uid 1)
  else if (k =? 2) && (s =? 1) then mkQL (q_unreserve st q uid) (upd1 (ql_life l) uid 0)
  else if (k =? 3) && (s =? 1) then mkQL (q_on_update ds st q (mkQO uid true false)) (upd1 (ql_life l) uid 2)
  else if (k =? 4) && ((s =? 0) || (s =? 2) || (s =? 4)) then mkQL (q_on_delete st q uid) (upd1 (ql_life l) uid 3)
  else if (k =? 5) && (s =? 2) then mkQL (q_on_update ds st q (mkQO uid true false)) (ql_life l)
  else if (k =? 7) && (s =? 2) then mkQL (q_on_update ds st q (mkQO uid true true)) (upd1 (ql_life l) uid 4)
  else l.

(* fresh scheduler (the quotas are known before pods are handled): 1 Add 2 Update(obj,obj) 3 Update(pending,obj) *)
Record qfresh := mkQF { qf_st : nstate; qf_seen : Z -> bool }.
Definition qreplay_step (ds : list qdesc) (life : Z -> Z) (f : qfresh) (ev : Z * Z) : qfresh :=
  let '(k, id) := ev in
  if negb (qvalid ds id) then f
  else match qobj_of life id with
       | None => f
       | Some o =>
         let q := qd_quota (qdesc_of ds id) in
         if k =? 1 then mkQF (q_on_add ds (qf_st f) q o) (upd1 (qf_seen f) id true)
         else if (k =? 2) || (k =? 3) then mkQF (q_on_update ds (qf_st f) q o) (qf_seen f)
         else f
       end.
Definition qcompletion (ds : list qdesc) (f : qfresh) : list (Z * Z) :=
  map (fun u => (1, u)) (filter (fun u => negb (qf_seen f u)) (zrange 1 (length ds))).
Definition qreplay (ds : list qdesc) (life : Z -> Z) (script : list (Z * Z)) : nstate :=
  let f1 := fold_left (qreplay_step ds life) script (mkQF ns_init (fun _ => false)) in
  qf_st (fold_left (qreplay_step ds life) (qcompletion ds f1) f1).

(* ---- quotas delivered late ----
   When a bound pod is handled before its ElasticQuota is known, the plugin parks it in the default
   quota (quota 0 here) and, once the quota is known, migrateDefaultQuotaGroupsPod moves it with
   GroupQuotaManager.MigratePod.  Event 6 q = the ElasticQuota q arrives and every pod parked for it
   is migrated (in uid order). *)
Definition q_migrate (ds : list qdesc) (st : nstate) (uid out_ in_ : Z) : nstate :=
  if q_exists st out_ uid then
    let asg := q_assigned st out_ uid in
    let st1 := release no_topo (release no_topo st out_ (qk_used uid)) out_ (qk_pod uid) in
    let st2 := add_pod no_topo st1 in_ (q_entry uid) in
    if asg then q_mark ds st2 in_ uid else st2
  else st.

Record qlate := mkQLt { qt_st : nstate; qt_known : Z -> bool; qt_seen : Z -> bool }.
Definition qloc (ds : list qdesc) (known : Z -> bool) (uid : Z) : Z :=
  let q := qd_quota (qdesc_of ds uid) in if known q then q else 0.
Definition qlate_step (nq : Z) (ds : list qdesc) (life : Z -> Z) (f : qlate) (ev : Z * Z) : qlate :=
  let '(k, id) := ev in
  if k =? 6 then
    (if (1 <=? id) && (id <=? nq) && negb (qt_known f id)
     then mkQLt (fold_left (fun st u => if qd_quota (qdesc_of ds u) =? id then q_migrate ds st u 0 id else st)
                           (zrange 1 (length ds)) (qt_st f))
                (upd1 (qt_known f) id true) (qt_seen f)
     else f)
  else if negb (qvalid ds id) then f
  else match qobj_of life id with
       | None => f
       | Some o =>
         let q := qloc ds (qt_known f) id in
         if k =? 1 then mkQLt (q_on_add ds (qt_st f) q o) (qt_known f) (upd1 (qt_seen f) id true)
         else if (k =? 2) || (k =? 3) then mkQLt (q_on_update ds (qt_st f) q o) (qt_known f) (qt_seen f)
         else f
       end.
Definition qlate_completion (nq : Z) (ds : list qdesc) (f : qlate) : list (Z * Z) :=
  map (fun q => (6, q)) (zrange 1 (Z.to_nat nq))
  ++ map (fun u => (1, u)) (filter (fun u => negb (qt_seen f u)) (zrange 1 (length ds))).
Definition qreplay_late (nq : Z) (ds : list qdesc) (life : Z -> Z) (script : list (Z * Z)) : nstate :=
  let f1 := fold_left (qlate_step nq ds life) script (mkQLt ns_init (fun _ => false) (fun _ => false)) in
  qt_st (fold_left (qlate_step nq ds life) (qlate_completion nq ds f1) f1).

(* observable: per quota 1..nq: Used (cpu, memory); then per pod: in PodCache?, isAssigned? *)
Record qsnap := mkQSnap { qs_used : list (Z * Z); qs_pods : list (Z * Z) }.
Definition qsnapshot (nq : Z) (ds : list qdesc) (st : nstate) : qsnap :=
  mkQSnap (map (fun q => ns_res st q 0) (zrange 1 (Z.to_nat nq)))
          (map (fun u => let q := qd_quota (qdesc_of ds u) in
                         ((if q_exists st q u then 1 else 0), (if q_assigned st q u then 1 else 0)))
               (zrange 1 (length ds))).

Record qcase := mkQCase { q_nq : Z; q_first : bool; q_descs : list qdesc; q_ops : list (Z * Z); q_script : list (Z * Z) }.
(* the rebuilt manager: quotas known before the pods (the order the start-up pipeline establishes),
   or delivered by the script *)
Definition qreplay_of (c : qcase) (life : Z -> Z) : nstate :=
  if q_first c then qreplay (q_descs c) life (q_script c) else qreplay_late (q_nq c) (q_descs c) life (q_script c).
Fixpoint qrun_ops (c : qcase) (l : qlive) (ops : list (Z * Z)) : list (qsnap * qsnap) :=
  match ops with
  | [] => []
  | op :: t =>
    let l' := qlive_step (q_descs c) l op in
    (qsnapshot (q_nq c) (q_descs c) (ql_st l'),
     qsnapshot (q_nq c) (q_descs c) (qreplay_of c (ql_life l'))) :: qrun_ops c l' t
  end.
Definition qrun (c : qcase) := qrun_ops c qlive_init (q_ops c).
Fixpoint qlives (c : qcase) (l : qlive) (ops : list (Z * Z)) : list (Z -> Z) :=
  match ops with
  | [] => []
  | op :: t => let l' := qlive_step (q_descs c) l op in ql_life l' :: qlives c l' t
  end.
Definition enc_qsnap (s : qsnap) : list Z :=
  flat_map (fun e => [fst e; snd e]) (qs_used s) ++ flat_map (fun e => [fst e; snd e]) (qs_pods s).
Definition enc_qrun (r : list (qsnap * qsnap)) : list Z :=
  flat_map (fun p => enc_qsnap (fst p) ++ enc_qsnap (snd p)) r.
