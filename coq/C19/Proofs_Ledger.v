(* C19 — the nodenumaresource ledger is, after any sequence of Update / Release calls, the
   from-scratch ledger of the allocations it lists (refinement), and it lists what the calls
   say (frame lemmas).  These are the single-step facts the restart theorems fold over. *)
From Coq Require Import List ZArith Bool Lia.
From Verif Require Import Lib.ListX C19.Model C19.Spec.
Import ListNotations.
Open Scope Z_scope.

(* ---------- small facts ---------- *)
Lemma upd2_eq {A} (m : Z -> Z -> A) n k v n' k' :
  upd2 m n k v n' k' = if (n' =? n) && (k' =? k) then v else m n' k'.
Proof. reflexivity. Qed.

Lemma memZ_In x l : memZ x l = true <-> In x l.
Proof.
  unfold memZ. rewrite existsb_exists. split.
  - intros (y & Hy & E). apply Z.eqb_eq in E. subst. exact Hy.
  - intros H. exists x. split; [exact H|apply Z.eqb_refl].
Qed.
Lemma memZ_false x l : memZ x l = false <-> ~ In x l.
Proof. rewrite <- memZ_In. destruct (memZ x l); intuition congruence. Qed.
Lemma memZ_cons x y l : memZ x (y :: l) = (x =? y) || memZ x l.
Proof. reflexivity. Qed.
Lemma memZ_set_add u x l : memZ u (set_add x l) = (u =? x) || memZ u l.
Proof.
  unfold set_add. destruct (memZ x l) eqn:E; [|reflexivity].
  destruct (u =? x) eqn:E2; [|reflexivity]. apply Z.eqb_eq in E2. subst. rewrite E. reflexivity.
Qed.
Lemma memZ_set_del u x l : memZ u (set_del x l) = memZ u l && negb (u =? x).
Proof.
  unfold set_del. induction l as [|y t IH]; [reflexivity|]. cbn [filter].
  destruct (y =? x) eqn:E; cbn [negb].
  - rewrite IH, memZ_cons. apply Z.eqb_eq in E. subst y.
    destruct (u =? x); cbn; [rewrite andb_false_r; reflexivity|reflexivity].
  - rewrite !memZ_cons, IH. destruct (u =? y) eqn:E2; [|reflexivity].
    apply Z.eqb_eq in E2. subst y. rewrite E. reflexivity.
Qed.
Lemma memZ_dedup u l : memZ u (dedup l) = memZ u l.
Proof. induction l as [|x t IH]; [reflexivity|]. cbn [dedup]. rewrite memZ_set_add, memZ_cons, IH. reflexivity. Qed.

Lemma pair_add_comm a b : pair_add a b = pair_add b a.
Proof. unfold pair_add. f_equal; lia. Qed.
Lemma pair_add_assoc a b c : pair_add (pair_add a b) c = pair_add a (pair_add b c).
Proof. unfold pair_add. cbn. f_equal; lia. Qed.
Lemma pair_add_0_r a : pair_add a (0, 0) = a.
Proof. destruct a. unfold pair_add. cbn. f_equal; lia. Qed.
Lemma pair_add_0_l a : pair_add (0, 0) a = a.
Proof. destruct a. unfold pair_add. cbn. f_equal; lia. Qed.
Definition pair_nonneg (a : Z * Z) : Prop := 0 <= fst a /\ 0 <= snd a.
Lemma pair_sub0_add a b : pair_nonneg a -> pair_sub0 (pair_add a b) b = a.
Proof. destruct a, b. unfold pair_nonneg, pair_sub0, pair_add. cbn. intros [? ?]. f_equal; lia. Qed.
Lemma pair_nonneg_add a b : pair_nonneg a -> pair_nonneg b -> pair_nonneg (pair_add a b).
Proof. unfold pair_nonneg, pair_add. cbn. lia. Qed.

(* ---------- the folds of addPodAllocation / release, map by map ---------- *)
Lemma fold_cpu_add node excl cpus m node' c :
  NoDup cpus ->
  fold_left (cpu_add node excl) cpus m node' c =
  if (node' =? node) && memZ c cpus then (fst (m node c) + 1, excl) else m node' c.
Proof.
  revert m. induction cpus as [|x t IH]; intros m Hnd; cbn [fold_left].
  - rewrite andb_false_r. reflexivity.
  - inversion Hnd as [|? ? Hx Hnd']; subst. rewrite IH by exact Hnd'.
    unfold cpu_add. rewrite !upd2_eq, Z.eqb_refl, memZ_cons. cbn [andb].
    destruct (node' =? node) eqn:En; cbn [andb]; [|reflexivity].
    apply Z.eqb_eq in En. subst node'.
    destruct (memZ c t) eqn:Et.
    + assert (c <> x) by (intros ->; apply Hx, memZ_In, Et).
      replace (c =? x) with false by (symmetry; apply Z.eqb_neq; assumption). cbn [orb].
      reflexivity.
    + rewrite orb_false_r. destruct (c =? x) eqn:Ec; [|reflexivity].
      apply Z.eqb_eq in Ec. subst. reflexivity.
Qed.

Lemma fold_res_add node l m node' n :
  fold_left (res_add node) l m node' n =
  if node' =? node then pair_add (m node n) (numa_amt n l) else m node' n.
Proof.
  revert m. induction l as [|e t IH]; intros m; cbn [fold_left].
  - cbn. rewrite pair_add_0_r. destruct (node' =? node) eqn:E; [apply Z.eqb_eq in E; subst|]; reflexivity.
  - rewrite IH. unfold res_add. rewrite !upd2_eq, Z.eqb_refl. cbn [andb].
    destruct (node' =? node) eqn:En; cbn [andb].
    + cbn [numa_amt fold_right]. fold (numa_amt n t). rewrite (Z.eqb_sym n (fst e)).
      destruct (fst e =? n) eqn:E.
      * apply Z.eqb_eq in E. subst n. rewrite pair_add_assoc. reflexivity.
      * reflexivity.
    + reflexivity.
Qed.

Lemma fold_set_ins node uid l m node' n u :
  memZ u (fold_left (set_ins node uid) l m node' n) =
  memZ u (m node' n) || ((node' =? node) && memZ n l && (u =? uid)).
Proof.
  revert m. induction l as [|x t IH]; intros m; cbn [fold_left].
  - cbn. rewrite andb_false_r, orb_false_r. reflexivity.
  - rewrite IH. unfold set_ins. rewrite upd2_eq, memZ_cons.
    destruct (node' =? node) eqn:En; cbn [andb]; [|reflexivity].
    apply Z.eqb_eq in En. subst node'.
    destruct (n =? x) eqn:Ex; cbn [andb orb].
    + apply Z.eqb_eq in Ex. subst x. rewrite memZ_set_add.
      destruct (u =? uid); destruct (memZ u (m node n)); destruct (memZ n t); reflexivity.
    + reflexivity.
Qed.

Lemma fold_set_rem node uid l m node' n u :
  memZ u (fold_left (set_rem node uid) l m node' n) =
  memZ u (m node' n) && negb ((node' =? node) && memZ n l && (u =? uid)).
Proof.
  revert m. induction l as [|x t IH]; intros m; cbn [fold_left].
  - cbn. rewrite andb_false_r, andb_true_r. reflexivity.
  - rewrite IH. unfold set_rem. rewrite upd2_eq, memZ_cons.
    destruct (node' =? node) eqn:En; cbn [andb]; [|reflexivity].
    apply Z.eqb_eq in En. subst node'.
    destruct (n =? x) eqn:Ex; cbn [andb orb].
    + apply Z.eqb_eq in Ex. subst x. rewrite memZ_set_del.
      destruct (u =? uid); destruct (memZ u (m node n)); destruct (memZ n t); reflexivity.
    + reflexivity.
Qed.

Lemma fold_cpu_rel node cpus m node' c :
  NoDup cpus -> (forall x, In x cpus -> 0 < fst (m node x)) ->
  fold_left (cpu_rel node) cpus m node' c =
  if (node' =? node) && memZ c cpus
  then (if fst (m node c) - 1 =? 0 then (0, 0) else (fst (m node c) - 1, snd (m node c)))
  else m node' c.
Proof.
  revert m. induction cpus as [|x t IH]; intros m Hnd Hpos; cbn [fold_left].
  - rewrite andb_false_r. reflexivity.
  - inversion Hnd as [|? ? Hx Hnd']; subst.
    assert (Hposx : 0 < fst (m node x)) by (apply Hpos; left; reflexivity).
    assert (Hm' : forall n' k, k <> x -> cpu_rel node m x n' k = m n' k).
    { intros n' k Hk. unfold cpu_rel. replace (0 <? fst (m node x)) with true by (symmetry; apply Z.ltb_lt; exact Hposx).
      destruct (fst (m node x) - 1 =? 0); rewrite upd2_eq;
        replace (k =? x) with false by (symmetry; apply Z.eqb_neq; exact Hk); rewrite andb_false_r; reflexivity. }
    rewrite IH; [|exact Hnd'|].
    2:{ intros y Hy. rewrite Hm'; [apply Hpos; right; exact Hy|]. intros ->. apply Hx, Hy. }
    rewrite memZ_cons.
    destruct (node' =? node) eqn:En; cbn [andb].
    + apply Z.eqb_eq in En. subst node'.
      destruct (memZ c t) eqn:Et.
      * assert (c <> x) by (intros ->; apply Hx, memZ_In, Et).
        replace (c =? x) with false by (symmetry; apply Z.eqb_neq; assumption). cbn [orb].
        rewrite !Hm' by assumption. reflexivity.
      * rewrite orb_false_r. destruct (c =? x) eqn:Ec.
        -- apply Z.eqb_eq in Ec. subst c. unfold cpu_rel.
           replace (0 <? fst (m node x)) with true by (symmetry; apply Z.ltb_lt; exact Hposx).
           destruct (fst (m node x) - 1 =? 0); rewrite upd2_eq, !Z.eqb_refl; reflexivity.
        -- apply Z.eqb_neq in Ec. apply Hm'. exact Ec.
    + unfold cpu_rel. destruct (0 <? fst (m node x)); [|reflexivity].
      destruct (fst (m node x) - 1 =? 0); rewrite upd2_eq, En; reflexivity.
Qed.

Definition numa_nonneg (l : list (Z * (Z * Z))) : Prop := forall e, In e l -> pair_nonneg (snd e).

Lemma numa_amt_nonneg n l : numa_nonneg l -> pair_nonneg (numa_amt n l).
Proof.
  induction l as [|e t IH]; intros H; [cbn; unfold pair_nonneg; cbn; lia|].
  cbn [numa_amt fold_right]. fold (numa_amt n t).
  assert (pair_nonneg (numa_amt n t)) by (apply IH; intros x Hx; apply H; right; exact Hx).
  destruct (fst e =? n); [|assumption]. apply pair_nonneg_add; [apply H; left; reflexivity|assumption].
Qed.

Lemma fold_res_rel node l m node' n base :
  numa_nonneg l -> pair_nonneg base ->
  m node n = pair_add base (numa_amt n l) ->
  fold_left (res_rel node) l m node' n = if node' =? node then base else m node' n.
Proof.
  revert m. induction l as [|e t IH]; intros m Hnn Hb Hm; cbn [fold_left].
  - cbn [numa_amt fold_right] in Hm. rewrite pair_add_0_r in Hm. destruct (node' =? node) eqn:E; [apply Z.eqb_eq in E; subst node'; exact Hm|reflexivity].
  - assert (Hnt : numa_nonneg t) by (intros x Hx; apply Hnn; right; exact Hx).
    cbn [numa_amt fold_right] in Hm. fold (numa_amt n t) in Hm.
    rewrite IH; [| exact Hnt | exact Hb |].
    + destruct (node' =? node) eqn:En; [reflexivity|]. unfold res_rel. rewrite upd2_eq, En. reflexivity.
    + unfold res_rel. rewrite upd2_eq, Z.eqb_refl. cbn [andb]. rewrite (Z.eqb_sym n (fst e)).
      destruct (fst e =? n) eqn:E; [|exact Hm].
      apply Z.eqb_eq in E. subst n. rewrite Hm.
      rewrite (pair_add_comm (snd e)), <- pair_add_assoc. apply pair_sub0_add.
      apply pair_nonneg_add; [exact Hb|apply numa_amt_nonneg, Hnt].
Qed.

(* ---------- listings ---------- *)
Definition uid_is (uid : Z) (p : palloc) : bool := pa_uid p =? uid.
Definition rm (uid : Z) (ps : list palloc) : list palloc := filter (fun q => negb (uid_is uid q)) ps.

Lemma find_pod_node_pods pods node uid :
  find_pod pods node uid = find (uid_is uid) (map snd (filter (fun e => fst e =? node) pods)).
Proof.
  unfold find_pod. induction pods as [|e t IH]; [reflexivity|].
  cbn [find filter]. unfold is_pod at 1. destruct (fst e =? node) eqn:En; cbn [andb map find].
  - unfold uid_is at 1. destruct (pa_uid (snd e) =? uid); [reflexivity|exact IH].
  - exact IH.
Qed.

Lemma node_pods_cons st node p node' :
  map snd (filter (fun e => fst e =? node') ((node, p) :: ns_pods st)) =
  if node =? node' then p :: node_pods st node' else node_pods st node'.
Proof. cbn [filter fst]. destruct (node =? node'); reflexivity. Qed.

Lemma node_pods_filter st node uid node' :
  map snd (filter (fun e => fst e =? node') (filter (fun e => negb (is_pod node uid e)) (ns_pods st))) =
  if node' =? node then rm uid (node_pods st node') else node_pods st node'.
Proof.
  unfold node_pods, rm, uid_is. destruct (node' =? node) eqn:E2.
  - apply Z.eqb_eq in E2. subst node'.
    induction (ns_pods st) as [|e t IH]; [reflexivity|].
    cbn [filter]. unfold is_pod at 1. destruct (fst e =? node) eqn:E1; cbn [andb].
    + cbn [map filter]. destruct (pa_uid (snd e) =? uid); cbn [negb filter].
      * exact IH.
      * rewrite E1. cbn [map]. f_equal. exact IH.
    + cbn [negb filter]. rewrite E1. exact IH.
  - induction (ns_pods st) as [|e t IH]; [reflexivity|].
    cbn [filter]. unfold is_pod at 1. destruct (fst e =? node') eqn:E1.
    + apply Z.eqb_eq in E1. rewrite E1, E2. cbn [andb negb filter]. rewrite E1, Z.eqb_refl. cbn [map]. f_equal. exact IH.
    + destruct ((fst e =? node) && (pa_uid (snd e) =? uid)); cbn [negb filter]; [exact IH|]. rewrite E1. exact IH.
Qed.

Lemma rm_notin uid ps : ~ In uid (map pa_uid ps) -> rm uid ps = ps.
Proof.
  induction ps as [|q t IH]; intros H; [reflexivity|]. unfold rm. cbn [filter]. unfold uid_is at 1.
  destruct (pa_uid q =? uid) eqn:E.
  - exfalso. apply H. left. apply Z.eqb_eq, E.
  - cbn [negb]. f_equal. apply IH. intros Hin. apply H. right. exact Hin.
Qed.
Lemma rm_uids uid ps x : In x (map pa_uid (rm uid ps)) <-> In x (map pa_uid ps) /\ x <> uid.
Proof.
  unfold rm. rewrite !in_map_iff. split.
  - intros (q & <- & Hq). apply filter_In in Hq. destruct Hq as [Hq Hn]. split; [exists q; auto|].
    unfold uid_is in Hn. apply negb_true_iff, Z.eqb_neq in Hn. exact Hn.
  - intros [(q & <- & Hq) Hn]. exists q. split; [reflexivity|]. apply filter_In. split; [exact Hq|].
    unfold uid_is. apply negb_true_iff, Z.eqb_neq. exact Hn.
Qed.
Lemma rm_NoDup uid ps : NoDup (map pa_uid ps) -> NoDup (map pa_uid (rm uid ps)).
Proof.
  induction ps as [|q t IH]; intros H; [constructor|]. inversion H as [|? ? Hq Ht]; subst.
  unfold rm. cbn [filter]. destruct (negb (uid_is uid q)); [|apply IH, Ht].
  cbn [map]. constructor; [|apply IH, Ht]. intros Hin. apply rm_uids in Hin. apply Hq, Hin.
Qed.
Lemma find_rm uid ps u : find (uid_is u) (rm uid ps) = if u =? uid then None else find (uid_is u) ps.
Proof.
  induction ps as [|q t IH]; [destruct (u =? uid); reflexivity|].
  change (rm uid (q :: t)) with (if negb (uid_is uid q) then q :: rm uid t else rm uid t).
  destruct (uid_is uid q) eqn:E; cbn [negb find]; rewrite IH.
  - destruct (u =? uid) eqn:E2; [reflexivity|].
    replace (uid_is u q) with false; [reflexivity|]. unfold uid_is in *. apply Z.eqb_eq in E. rewrite E.
    symmetry. rewrite Z.eqb_sym. exact E2.
  - destruct (uid_is u q) eqn:E3; [|reflexivity].
    replace (u =? uid) with false; [reflexivity|]. unfold uid_is in *. apply Z.eqb_eq in E3. subst u. symmetry. exact E.
Qed.
Lemma find_uid_In u ps p : find (uid_is u) ps = Some p -> In p ps /\ pa_uid p = u.
Proof. intros H. apply find_some in H. destruct H as [H1 H2]. split; [exact H1|apply Z.eqb_eq, H2]. Qed.
Lemma find_uid_None u ps : find (uid_is u) ps = None -> ~ In u (map pa_uid ps).
Proof.
  intros H Hin. apply in_map_iff in Hin. destruct Hin as (q & <- & Hq).
  pose proof (find_none _ _ H q Hq) as Hn. unfold uid_is in Hn. rewrite Z.eqb_refl in Hn. discriminate.
Qed.

(* additive decomposition of the from-scratch ledger at a listed pod *)
Section Decompose.
  Variables (uid : Z) (p : palloc).

  Lemma count_decomp (g : palloc -> bool) ps :
    NoDup (map pa_uid ps) -> find (uid_is uid) ps = Some p ->
    Z.of_nat (length (filter g ps)) = (if g p then 1 else 0) + Z.of_nat (length (filter g (rm uid ps))).
  Proof.
    induction ps as [|q t IH]; intros Hnd Hf; [discriminate|].
    inversion Hnd as [|? ? Hq Ht]; subst. cbn [find] in Hf. unfold rm. cbn [filter]. unfold uid_is at 1 in Hf. unfold uid_is at 1.
    destruct (pa_uid q =? uid) eqn:E; cbn [negb].
    - injection Hf as ->. fold (rm uid t). rewrite rm_notin.
      + destruct (g p); cbn [length]; lia.
      + apply Z.eqb_eq in E. rewrite <- E. exact Hq.
    - fold (rm uid t). cbn [filter]. specialize (IH Ht Hf).
      destruct (g q); cbn [length]; lia.
  Qed.

  Lemma res_decomp ps n :
    NoDup (map pa_uid ps) -> find (uid_is uid) ps = Some p ->
    res_spec ps n = pair_add (res_spec (rm uid ps) n) (numa_amt n (pa_numa p)).
  Proof.
    induction ps as [|q t IH]; intros Hnd Hf; [discriminate|].
    inversion Hnd as [|? ? Hq Ht]; subst. cbn [find] in Hf. unfold rm. cbn [filter]. unfold uid_is at 1 in Hf. unfold uid_is at 1.
    destruct (pa_uid q =? uid) eqn:E; cbn [negb].
    - injection Hf as ->. fold (rm uid t). rewrite rm_notin.
      + cbn [res_spec fold_right]. fold (res_spec t n). apply pair_add_comm.
      + apply Z.eqb_eq in E. rewrite <- E. exact Hq.
    - fold (rm uid t). cbn [res_spec fold_right]. fold (res_spec t n) (res_spec (rm uid t) n).
      rewrite (IH Ht Hf), pair_add_assoc. reflexivity.
  Qed.

  Lemma uids_decomp (g : palloc -> bool) ps u :
    NoDup (map pa_uid ps) -> find (uid_is uid) ps = Some p ->
    memZ u (map pa_uid (filter g ps)) =
    ((u =? uid) && g p) || (memZ u (map pa_uid (filter g (rm uid ps))) && negb (u =? uid)).
  Proof.
    intros Hnd Hf. destruct (find_uid_In _ _ _ Hf) as [Hin Hu].
    apply eq_true_iff_eq. rewrite orb_true_iff, !andb_true_iff, !memZ_In, negb_true_iff, Z.eqb_eq, Z.eqb_neq.
    rewrite !in_map_iff. split.
    - intros (q & <- & Hq). apply filter_In in Hq. destruct Hq as [Hq Hg].
      destruct (Z.eq_dec (pa_uid q) uid) as [E|E].
      + left. split; [exact E|].
        assert (q = p); [|subst; exact Hg].
        apply (NoDup_map_inj_in pa_uid ps); [exact Hnd|exact Hq|exact Hin|congruence].
      + right. split; [|exact E]. exists q. split; [reflexivity|]. apply filter_In. split; [|exact Hg].
        apply filter_In. split; [exact Hq|]. unfold uid_is. apply negb_true_iff, Z.eqb_neq, E.
    - intros [[-> Hg]|[(q & <- & Hq) E]].
      + exists p. split; [exact Hu|]. apply filter_In. split; assumption.
      + exists q. split; [reflexivity|]. apply filter_In in Hq. destruct Hq as [Hq Hg].
        apply filter_In in Hq. destruct Hq as [Hq _]. apply filter_In. split; assumption.
  Qed.
End Decompose.

Lemma forallb_filter_id {A} (f : A -> bool) l : forallb f l = true -> filter f l = l.
Proof.
  induction l as [|x t IH]; [reflexivity|]. cbn. destruct (f x); [|discriminate]. intros H. f_equal. apply IH, H.
Qed.

(* ---------- the invariant ---------- *)
Definition palloc_ok (p : palloc) : Prop := NoDup (pa_cpus p) /\ numa_nonneg (pa_numa p).

Record Inv (tp : topo) (st : nstate) : Prop := mkInv {
  inv_keys : forall node, NoDup (map pa_uid (node_pods st node));
  inv_ok : forall e, In e (ns_pods st) -> palloc_ok (snd e);
  inv_ledger : Ledger tp st;
  inv_excl0 : forall node c, ns_ref st node c = 0 -> ns_excl st node c = 0 }.

Lemma Inv_init tp : Inv tp ns_init.
Proof.
  constructor.
  - intros node. constructor.
  - intros e [].
  - intros node. repeat split; reflexivity.
  - reflexivity.
Qed.

Lemma ref_spec_cons p ps c : ref_spec (p :: ps) c = (if memZ c (pa_cpus p) then 1 else 0) + ref_spec ps c.
Proof. unfold ref_spec. cbn [filter]. destruct (memZ c (pa_cpus p)); cbn [length]; lia. Qed.
Lemma res_spec_cons p ps n : res_spec (p :: ps) n = pair_add (numa_amt n (pa_numa p)) (res_spec ps n).
Proof. reflexivity. Qed.

Lemma node_pods_ok tp st node p : Inv tp st -> In p (node_pods st node) -> palloc_ok p.
Proof.
  intros HI Hp. unfold node_pods in Hp. apply in_map_iff in Hp. destruct Hp as (e & <- & He).
  apply filter_In in He. apply (inv_ok _ _ HI), He.
Qed.

Lemma used_numa_mem tp cpus n : memZ n (used_numa tp cpus) = memZ n (map (numa_of tp) cpus).
Proof. apply memZ_dedup. Qed.

(* addPodAllocation of an allocation whose uid is not listed on the node *)
Lemma add_pod_Inv tp st node p :
  Inv tp st -> palloc_ok p -> Inv tp (add_pod tp st node p).
Proof.
  intros HI [Hnd Hnn]. unfold add_pod. destruct (find_pod (ns_pods st) node (pa_uid p)) eqn:Ef; [exact HI|].
  rewrite find_pod_node_pods in Ef. fold (node_pods st node) in Ef. apply find_uid_None in Ef.
  constructor.
  - intros node'. unfold node_pods at 1. cbn [ns_pods]. rewrite node_pods_cons.
    destruct (node =? node') eqn:E; [|apply (inv_keys _ _ HI)].
    apply Z.eqb_eq in E. subst node'. cbn [map]. constructor; [exact Ef|apply (inv_keys _ _ HI)].
  - cbn [ns_pods]. intros e [<-|He]; [split; assumption|apply (inv_ok _ _ HI), He].
  - intros node'. destruct (inv_ledger _ _ HI node') as (L1 & L2 & L3 & L4).
    unfold node_pods at 1 2 3 4. cbn [ns_pods]. rewrite node_pods_cons.
    unfold ns_ref. cbn [ns_cpu ns_res ns_single ns_shared].
    repeat split.
    + intros c. rewrite fold_cpu_add by exact Hnd. rewrite (Z.eqb_sym node' node).
      destruct (node =? node') eqn:E; cbn [andb].
      * apply Z.eqb_eq in E. subst node'. rewrite ref_spec_cons. unfold ns_ref in L1.
        destruct (memZ c (pa_cpus p)); cbn [fst]; rewrite <- L1; lia.
      * apply L1.
    + intros n. rewrite fold_res_add. rewrite (Z.eqb_sym node' node).
      destruct (node =? node') eqn:E.
      * apply Z.eqb_eq in E. subst node'. rewrite res_spec_cons, L2. apply pair_add_comm.
      * apply L2.
    + intros n u. destruct (node =? node') eqn:E.
      * apply Z.eqb_eq in E. subst node'. unfold single_uids. cbn [filter]. unfold is_single at 1.
        destruct (used_numa tp (pa_cpus p)) as [|m [|m' r]] eqn:Eu.
        -- apply L3.
        -- unfold set_ins. rewrite upd2_eq, Z.eqb_refl. cbn [andb].
           destruct (n =? m) eqn:Em.
           ++ apply Z.eqb_eq in Em. subst m. rewrite Z.eqb_refl. cbn [map]. rewrite memZ_set_add, memZ_cons, L3. reflexivity.
           ++ rewrite (Z.eqb_sym m n), Em. apply L3.
        -- apply L3.
      * destruct (used_numa tp (pa_cpus p)) as [|m [|m' r]]; try apply L3.
        unfold set_ins. rewrite upd2_eq, (Z.eqb_sym node' node), E. apply L3.
    + intros n u. destruct (node =? node') eqn:E.
      * apply Z.eqb_eq in E. subst node'. unfold shared_uids. cbn [filter]. unfold is_shared at 1.
        destruct (used_numa tp (pa_cpus p)) as [|m [|m' r]] eqn:Eu.
        -- cbn [length Z.of_nat Z.ltb andb]. apply L4.
        -- cbn [length andb]. replace (1 <? Z.of_nat 1) with false by reflexivity. cbn [andb]. apply L4.
        -- rewrite fold_set_ins, Z.eqb_refl. cbn [andb].
           replace (1 <? Z.of_nat (length (m :: m' :: r))) with true
             by (symmetry; apply Z.ltb_lt; cbn [length]; lia).
           cbn [andb]. destruct (memZ n (m :: m' :: r)); cbn [andb map].
           ++ rewrite memZ_cons, L4. apply orb_comm.
           ++ rewrite orb_false_r. apply L4.
      * destruct (used_numa tp (pa_cpus p)) as [|m [|m' r]]; try apply L4.
        rewrite fold_set_ins, (Z.eqb_sym node' node), E. cbn [andb]. rewrite orb_false_r. apply L4.
  - intros node' c. unfold ns_ref, ns_excl. cbn [ns_cpu]. rewrite fold_cpu_add by exact Hnd.
    destruct ((node' =? node) && memZ c (pa_cpus p)) eqn:E.
    + cbn [fst]. intros H0. exfalso.
      apply andb_true_iff in E. destruct E as [E _]. apply Z.eqb_eq in E. subst node'.
      destruct (inv_ledger _ _ HI node) as (L1 & _). specialize (L1 c). unfold ns_ref in L1.
      unfold ref_spec in L1. lia.
    + apply (inv_excl0 _ _ HI).
Qed.

Lemma add_pod_find tp st node p n u :
  find_pod (ns_pods st) node (pa_uid p) = None ->
  find_pod (ns_pods (add_pod tp st node p)) n u =
  if (n =? node) && (u =? pa_uid p) then Some p else find_pod (ns_pods st) n u.
Proof.
  intros Ef. unfold add_pod. rewrite Ef. cbn [ns_pods]. unfold find_pod at 1. cbn [find].
  unfold is_pod at 1. cbn [fst snd]. rewrite (Z.eqb_sym node n), (Z.eqb_sym (pa_uid p) u).
  destruct ((n =? node) && (u =? pa_uid p)); reflexivity.
Qed.

Lemma release_find tp st node uid n u :
  find_pod (ns_pods (release tp st node uid)) n u =
  if (n =? node) && (u =? uid) then None else find_pod (ns_pods st) n u.
Proof.
  unfold release. destruct (find_pod (ns_pods st) node uid) eqn:Ef.
  - cbn [ns_pods]. rewrite !find_pod_node_pods, node_pods_filter. fold (node_pods st n).
    destruct (n =? node) eqn:En; cbn [andb]; [|reflexivity]. apply find_rm.
  - destruct ((n =? node) && (u =? uid)) eqn:E; [|reflexivity].
    apply andb_true_iff in E. destruct E as [E1 E2]. apply Z.eqb_eq in E1, E2. subst. exact Ef.
Qed.

(* release keeps the invariant *)
Lemma release_Inv tp st node uid : Inv tp st -> Inv tp (release tp st node uid).
Proof.
  intros HI. unfold release. destruct (find_pod (ns_pods st) node uid) as [p|] eqn:Ef; [|exact HI].
  rewrite find_pod_node_pods in Ef. fold (node_pods st node) in Ef.
  pose proof (inv_keys _ _ HI node) as Hk.
  destruct (find_uid_In _ _ _ Ef) as [Hpin Hpu].
  destruct (node_pods_ok _ _ _ _ HI Hpin) as [Hnd Hnn].
  destruct (inv_ledger _ _ HI node) as (L1 & L2 & L3 & L4).
  assert (Hpos : forall x, In x (pa_cpus p) -> 0 < fst (ns_cpu st node x)).
  { intros x Hx. specialize (L1 x). unfold ns_ref in L1. rewrite L1.
    unfold ref_spec. rewrite (count_decomp uid p _ _ Hk Ef).
    replace (memZ x (pa_cpus p)) with true by (symmetry; apply memZ_In, Hx). lia. }
  assert (Hused : rel_used tp st node (pa_cpus p) = used_numa tp (pa_cpus p)).
  { unfold rel_used, used_numa. f_equal. f_equal. apply forallb_filter_id. apply forallb_forall.
    intros x Hx. apply Z.ltb_lt. unfold ns_ref. apply Hpos, Hx. }
  rewrite Hused.
  constructor.
  - intros node'. unfold node_pods at 1. cbn [ns_pods]. rewrite node_pods_filter.
    destruct (node' =? node); [apply rm_NoDup|]; apply (inv_keys _ _ HI).
  - cbn [ns_pods]. intros e He. apply filter_In in He. apply (inv_ok _ _ HI), He.
  - intros node'. unfold node_pods at 1 2 3 4. cbn [ns_pods]. rewrite node_pods_filter.
    unfold ns_ref. cbn [ns_cpu ns_res ns_single ns_shared].
    destruct (inv_ledger _ _ HI node') as (M1 & M2 & M3 & M4).
    repeat split.
    + intros c. rewrite fold_cpu_rel by assumption.
      destruct (node' =? node) eqn:En; cbn [andb]; [|apply M1].
      apply Z.eqb_eq in En. subst node'. specialize (L1 c). unfold ns_ref in L1.
      unfold ref_spec in *. rewrite (count_decomp uid p _ _ Hk Ef) in L1.
      destruct (memZ c (pa_cpus p)) eqn:Ec.
      * destruct (fst (ns_cpu st node c) - 1 =? 0) eqn:Ez; cbn [fst]; [apply Z.eqb_eq in Ez|]; lia.
      * lia.
    + intros n. rewrite fold_res_rel with (base := res_spec (rm uid (node_pods st node)) n).
      * destruct (node' =? node) eqn:En; [apply Z.eqb_eq in En; subst; reflexivity|apply M2].
      * exact Hnn.
      * clear -HI. assert (H : forall q, In q (rm uid (node_pods st node)) -> palloc_ok q).
        { intros q Hq. apply filter_In in Hq. eapply node_pods_ok; [exact HI|apply Hq]. }
        induction (rm uid (node_pods st node)) as [|q t IH]; [unfold pair_nonneg; cbn; lia|].
        rewrite res_spec_cons. apply pair_nonneg_add.
        -- apply numa_amt_nonneg, (H q). left. reflexivity.
        -- apply IH. intros z Hz. apply H. right. exact Hz.
      * rewrite L2. apply res_decomp; assumption.
    + intros n u. rewrite fold_set_rem.
      destruct (node' =? node) eqn:En; cbn [andb]; [|rewrite andb_true_r; apply M3].
      apply Z.eqb_eq in En. subst node'. rewrite L3. unfold single_uids.
      rewrite (uids_decomp uid p _ _ u Hk Ef).
      rewrite used_numa_mem.
      assert (Hrm : memZ u (map pa_uid (filter (is_single tp n) (rm uid (node_pods st node)))) && (u =? uid) = false).
      { destruct (u =? uid) eqn:E; [|apply andb_false_r]. apply Z.eqb_eq in E. subst u. rewrite andb_true_r.
        apply memZ_false. intros Hin. apply in_map_iff in Hin. destruct Hin as (q & Hq1 & Hq2).
        apply filter_In in Hq2. destruct Hq2 as [Hq2 _].
        assert (In uid (map pa_uid (rm uid (node_pods st node)))) by (apply in_map_iff; exists q; split; [exact Hq1|exact Hq2]).
        apply rm_uids in H. tauto. }
      assert (Hs : is_single tp n p = true -> memZ n (map (numa_of tp) (pa_cpus p)) = true).
      { unfold is_single. rewrite <- used_numa_mem. destruct (used_numa tp (pa_cpus p)) as [|m [|? ?]]; try discriminate.
        intros E. apply Z.eqb_eq in E. subst. cbn. rewrite Z.eqb_refl. reflexivity. }
      destruct (u =? uid) eqn:E; cbn [andb negb orb] in *.
      * rewrite andb_true_r in *. rewrite Hrm, orb_false_r.
        destruct (is_single tp n p) eqn:Es; [rewrite (Hs eq_refl); reflexivity|reflexivity].
      * rewrite !andb_false_r, !andb_true_r. reflexivity.
    + intros n u. rewrite fold_set_rem.
      destruct (node' =? node) eqn:En; cbn [andb]; [|rewrite andb_true_r; apply M4].
      apply Z.eqb_eq in En. subst node'. rewrite L4. unfold shared_uids.
      rewrite (uids_decomp uid p _ _ u Hk Ef).
      rewrite used_numa_mem.
      assert (Hrm : memZ u (map pa_uid (filter (is_shared tp n) (rm uid (node_pods st node)))) && (u =? uid) = false).
      { destruct (u =? uid) eqn:E; [|apply andb_false_r]. apply Z.eqb_eq in E. subst u. rewrite andb_true_r.
        apply memZ_false. intros Hin. apply in_map_iff in Hin. destruct Hin as (q & Hq1 & Hq2).
        apply filter_In in Hq2. destruct Hq2 as [Hq2 _].
        assert (In uid (map pa_uid (rm uid (node_pods st node)))) by (apply in_map_iff; exists q; split; [exact Hq1|exact Hq2]).
        apply rm_uids in H. tauto. }
      assert (Hs : is_shared tp n p = true -> memZ n (map (numa_of tp) (pa_cpus p)) = true).
      { unfold is_shared. rewrite <- used_numa_mem. intros E. apply andb_true_iff in E. apply E. }
      destruct (u =? uid) eqn:E; cbn [andb negb orb] in *.
      * rewrite andb_true_r in *. rewrite Hrm, orb_false_r.
        destruct (is_shared tp n p) eqn:Es; [rewrite (Hs eq_refl); reflexivity|reflexivity].
      * rewrite !andb_false_r, !andb_true_r. reflexivity.
  - intros node' c. unfold ns_ref, ns_excl. cbn [ns_cpu]. rewrite fold_cpu_rel by assumption.
    destruct ((node' =? node) && memZ c (pa_cpus p)) eqn:E.
    + destruct (fst (ns_cpu st node c) - 1 =? 0) eqn:Ez; cbn [fst snd]; [reflexivity|].
      apply Z.eqb_neq in Ez. intros H0. lia.
    + apply (inv_excl0 _ _ HI).
Qed.
