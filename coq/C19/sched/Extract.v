(* C19 / stream "sched" — flat-integer interface for the generic OCaml driver. *)
From Coq Require Import List ZArith Bool.
From Verif Require Import Lib.Wire C19.Model C19.ModelSched C19.Spec C19.SpecSched C19.Decode.
Import ListNotations.
Open Scope Z_scope.

Definition dec_sdesc (l : list Z) : sdesc * list Z :=
  match l with a :: b :: c :: d :: t => (mkSD (a, b) c d, t) | _ => (sd_default, []) end.
Definition dec_sop (l : list Z) : sop * list Z :=
  match l with k :: r :: x :: y :: z :: t => (mkOp k r x y z, t) | _ => (mkOp 0 0 0 0 0, []) end.
Definition decode_scase (inp : list Z) : scase :=
  match inp with
  | nn :: t =>
      let '(ds, r1) := decode_seq dec_sdesc t in
      let '(ops, r2) := decode_seq dec_sop r1 in
      let '(sc, _) := decode_seq dec_pair r2 in
      mkSCase nn ds ops sc
  | _ => mkSCase 0 [] [] []
  end.
Definition dec_sentry (l : list Z) : sentry * list Z :=
  match l with
  | a :: b :: c :: d :: q :: k :: t => (mkSE a b (c, d) (zb q) (zb k), t)
  | _ => (se_init, [])
  end.
Definition dec_nsum (l : list Z) : ((Z * Z) * Z) * list Z :=
  match l with a :: b :: c :: t => (((a, b), c), t) | _ => (((0, 0), 0), []) end.
Definition dec_ssnap (nr nn : nat) (l : list Z) : ssnap * list Z :=
  let '(es, r) := decode_many dec_sentry nr l in
  let '(ns, r') := decode_many dec_nsum nn r in (mkSS es ns, r').
Definition dec_sstep (nr nn : nat) (l : list Z) :=
  let '(a, r) := dec_ssnap nr nn l in
  let '(b, r') := dec_ssnap nr nn r in ((a, b), r').

Definition run_case (inp : list Z) : list Z := enc_srun (srun (decode_scase inp)).
Definition prop_case (inp obs : list Z) : Z :=
  let c := decode_scase inp in
  let r := fst (decode_many (dec_sstep (length (s_descs c)) (Z.to_nat (s_nn c))) (length (s_ops c)) obs) in
  if negb (Spec.eq_listZ (enc_srun r) obs) then 9 else prop_sched c r.
Definition nontrivial_case (inp : list Z) : bool := nontrivial_sched (decode_scase inp).
Definition finding_sig (inp obs : list Z) : Z := 0.

Require Extraction.
Require Import ExtrOcamlBasic.
Extraction "model.ml" run_case prop_case nontrivial_case finding_sig.
