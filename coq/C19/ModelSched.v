(* C19 — executable model, part 5: the Reservation object's own path into the scheduler
   (pkg/scheduler/frameworkext/eventhandlers/reservation_handler.go: addReservation /
   updateReservation / deleteReservation and their helpers), together with the two caches it
   writes: the kube-scheduler cache (AssumePod / AddPod / UpdatePod / RemovePod / ForgetPod; the
   reserve pod of an Available reservation holds its status.allocatable on the node, i.e. in
   NodeInfo.Requested), the scheduling queue, and the reservation plugin's ReservationInfo table
   (reservationEventHandler.OnAdd / OnUpdate / OnDelete, Reserve / Unreserve of a reserve pod,
   reservationCache.DeleteReservation).

   Everything is keyed by the reservation and every handler touches the entry of its own
   reservation only: handlers are functions on one entry, lifted pointwise.  No proofs here. *)
From Coq Require Import List ZArith Bool.
From Verif Require Import C19.Model.
Import ListNotations.
Open Scope Z_scope.

(* ------------------------------------------------------------------------------------ *)
(* the stored Reservation, as far as the handlers read it                                  *)
(* ------------------------------------------------------------------------------------ *)
(* phase: 0 Pending (or ""), 1 Available, 2 Failed, 3 Succeeded.  node: status.nodeName (0 = "").
   sname: spec.template.spec.schedulerName (0 "koord-scheduler", 1 "default-scheduler", 2 "" which
   reads as the default scheduler, 3 a name no profile of this process serves).
   req: the template's requests (cpu milli, memory).  alloc: status.allocatable. *)
Record sobj := mkSO { so_phase : Z; so_node : Z; so_sname : Z; so_req : Z * Z; so_alloc : Z * Z }.
Definition so_default : sobj := mkSO 0 0 0 (0, 0) (0, 0).

Definition so_term (o : sobj) : bool := (so_phase o =? 2) || (so_phase o =? 3).
(* isReservationActive of the handler file: unassigned and not terminated *)
Definition so_gactive (o : sobj) : bool := (so_node o =? 0) && negb (so_term o).
(* reservationutil.IsReservationAvailable (= IsReservationActive of the util package; phase Waiting is never written) *)
Definition so_avail (o : sobj) : bool := negb (so_node o =? 0) && (so_phase o =? 1).
(* isResponsibleForReservation: profiles.HandlesSchedulerName *)
Definition so_resp (o : sobj) : bool := (0 <=? so_sname o) && (so_sname o <=? 2).
(* the requests of NewReservePod(r): the template's, overridden by status.allocatable once Available *)
Definition so_amount (o : sobj) : Z * Z := if so_avail o then so_alloc o else so_req o.

(* ------------------------------------------------------------------------------------ *)
(* one reservation's entry in the scheduler process                                        *)
(* ------------------------------------------------------------------------------------ *)
(* st: 0 not in the scheduler cache, 1 added, 2 assumed; node / amt: where and how much the reserve
   pod holds (0 / (0,0) when absent); q: in the scheduling queue; known: the plugin has a ReservationInfo *)
Record sentry := mkSE { se_st : Z; se_node : Z; se_amt : Z * Z; se_q : bool; se_known : bool }.
Definition se_init : sentry := mkSE 0 0 (0, 0) false false.

Definition c_set (e : sentry) (st node : Z) (amt : Z * Z) : sentry := mkSE st node amt (se_q e) (se_known e).
Definition c_clear (e : sentry) : sentry := mkSE 0 0 (0, 0) (se_q e) (se_known e).
Definition q_set (e : sentry) (b : bool) : sentry := mkSE (se_st e) (se_node e) (se_amt e) b (se_known e).
Definition k_set (e : sentry) (b : bool) : sentry := mkSE (se_st e) (se_node e) (se_amt e) (se_q e) b.

(* kube-scheduler cacheImpl.  AddPod: an assumed pod is confirmed (replaced by the added one, on
   whatever node it now names), an expired / unknown one is added, one already added is an error. *)
Definition c_add (e : sentry) (node : Z) (amt : Z * Z) : sentry :=
  if se_st e =? 1 then e else c_set e 1 node amt.
(* UpdatePod(old, new): unknown or assumed pods are errors; removePod(old) fails when old names
   another node than the cached pod (a different new node would be fatal; never reached) *)
Definition c_update (e : sentry) (oldn newn : Z) (amt : Z * Z) : sentry :=
  if (se_st e =? 1) && (se_node e =? newn) && (se_node e =? oldn) then c_set e 1 newn amt else e.
(* RemovePod: unknown is an error; removes the cached pod (assumed or added) *)
Definition c_remove (e : sentry) (node : Z) : sentry :=
  if se_st e =? 0 then e else if (se_node e =? node) || (node =? 0) then c_clear e else e.
Definition c_assume (e : sentry) (node : Z) (amt : Z * Z) : sentry :=
  if se_st e =? 0 then c_set e 2 node amt else e.
Definition c_forget (e : sentry) (node : Z) : sentry :=
  if (se_st e =? 2) && (se_node e =? node) then c_clear e else e.

(* --- the plugin's reservationEventHandler: OnAdd / OnUpdate keep a ReservationInfo for an active
       (scheduled, Available) reservation; terminated ones are only refreshed if present; OnDelete
       marks, the real deletion is left to the global handler *)
Definition p_add (e : sentry) (o : sobj) : sentry := if so_avail o then k_set e true else e.
Definition p_update (e : sentry) (old new : sobj) : sentry := if so_avail new then k_set e true else e.
Definition p_delete (e : sentry) (o : sobj) : sentry := e.

(* --- reservation_handler.go helpers *)
(* addReservationToSchedulerCache *)
Definition to_cache (e : sentry) (o : sobj) : sentry := c_add e (so_node o) (so_amount o).
(* deleteReservationFromSchedulerCache: DeleteReservation in every registered plugin cache comes first;
   without a ReservationInfo ("the impossible happened") or without the pod in the cache it stops *)
Definition del_cache (e : sentry) (o : sobj) : sentry :=
  if so_node o =? 0 then e
  else let e1 := k_set e false in
       if negb (se_known e) then e1
       else if se_st e1 =? 0 then e1
       else c_remove e1 (so_node o).
(* updateReservationInSchedulerCache *)
Definition upd_cache (e : sentry) (old new : sobj) : sentry :=
  if (so_node old =? 0) && (so_node new =? 0) then e
  else if negb (so_node old =? so_node new) then to_cache (del_cache e old) new
  else c_update e (so_node old) (so_node new) (so_amount new).
(* updateReservationInSchedulingQueue: identical resourceVersion is skipped, an assumed reserve pod is left alone *)
Definition upd_queue (e : sentry) (same_rv : bool) : sentry :=
  if same_rv then e else if se_st e =? 2 then e else q_set e true.

(* addReservation *)
Definition g_add (e : sentry) (o : sobj) : sentry :=
  if so_gactive o && so_resp o then q_set e true
  else if so_avail o then to_cache e o
  else e.
(* updateReservation: the seven cases in the order of the code *)
Definition g_update (e : sentry) (old new : sobj) (same_rv : bool) : sentry :=
  if so_term old && so_term new then e
  else if so_avail old && so_avail new then upd_cache e old new
  else if so_gactive old && so_avail new then
    (let e1 := to_cache e new in if so_resp old then q_set e1 false else e1)
  else if so_avail old && so_term new then
    (let e1 := del_cache e old in if so_resp old then q_set e1 false else e1)
  else if so_avail old && so_gactive new then
    (let e1 := del_cache e old in if so_resp new then q_set e1 true else e1)
  else if so_gactive old && so_gactive new then
    (if so_resp old && so_resp new then upd_queue e same_rv
     else if negb (so_resp old) && so_resp new then q_set e true
     else if so_resp old && negb (so_resp new) then q_set e false
     else e)
  else if so_gactive old && so_term new then (if so_resp old then q_set e false else e)
  else e.
(* deleteReservation *)
Definition g_delete (e : sentry) (o : sobj) : sentry :=
  let e1 := del_cache e o in if so_resp o then q_set e1 false else e1.

(* an informer event reaches the plugin's handler first (registered when the plugin is built),
   then the global one (AddScheduleEventHandler) *)
Definition ev_add (o : sobj) (e : sentry) : sentry := g_add (p_add e o) o.
Definition ev_update (old new : sobj) (same_rv : bool) (e : sentry) : sentry :=
  g_update (p_update e old new) old new same_rv.
Definition ev_delete (o : sobj) (e : sentry) : sentry := g_delete (p_delete e o) o.

(* ------------------------------------------------------------------------------------ *)
(* the world: what the API server stores, and which reservations this process has assumed  *)
(* ------------------------------------------------------------------------------------ *)
(* life: 0 not created yet, 1 stored, 2 deleted.  obj: the stored (or last stored) version.
   asm: node on which this process's scheduling cycle has assumed the reserve pod (0 = none) *)
Record wentry := mkWE { we_life : Z; we_obj : sobj; we_asm : Z }.
Definition we_init : wentry := mkWE 0 so_default 0.

Record sdesc := mkSD { sd_req : Z * Z; sd_sname : Z; sd_shape : Z }.
Definition sd_default : sdesc := mkSD (0, 0) 0 0.
Record sop := mkOp { op_k : Z; op_r : Z; op_x : Z; op_y : Z; op_z : Z }.

Definition node_ok (nn x : Z) : bool := (1 <=? x) && (x <=? nn).
Definition set_phase (o : sobj) (p : Z) : sobj := mkSO p (so_node o) (so_sname o) (so_req o) (so_alloc o).
Definition set_sname (o : sobj) (s : Z) : sobj := mkSO (so_phase o) (so_node o) s (so_req o) (so_alloc o).
Definition set_alloc (o : sobj) (a : Z * Z) : sobj := mkSO (so_phase o) (so_node o) (so_sname o) (so_req o) a.
Definition set_node (o : sobj) (n : Z) : sobj := mkSO (so_phase o) n (so_sname o) (so_req o) (so_alloc o).

(* the world after a step; None = the step is not enabled (ignored).  kinds:
   1 create (x = 0: Pending; x = node: created and bound elsewhere before this process sees it, allocatable (y, z))
   2 this process's scheduling cycle assumes r on node x      3 ... and gives it up (Unreserve + ForgetPod)
   4 bind: the stored object becomes Available with allocatable (y, z), on the assumed node or (bound by
     another scheduler) on node x                              5 resync (update event, same object)
   6 terminate: phase x (2 Failed, 3 Succeeded)                7 delete   8 scheduler name changes to x
   9 allocatable changes to (y, z) (resize)                    10 the Available reservation moves to node x
   11 rollback: Available -> unassigned *)
Definition wstep (nn : Z) (d : sdesc) (w : wentry) (op : sop) : option wentry :=
  let o := we_obj w in
  let k := op_k op in
  let x := op_x op in
  let yz_ok := (0 <=? op_y op) && (0 <=? op_z op) in
  let stored := we_life w =? 1 in
  if k =? 1 then
    (if we_life w =? 0 then
       (if x =? 0 then Some (mkWE 1 (mkSO 0 0 (sd_sname d) (sd_req d) (sd_req d)) 0)
        else if node_ok nn x && yz_ok then Some (mkWE 1 (mkSO 1 x (sd_sname d) (sd_req d) (op_y op, op_z op)) 0)
        else None)
     else None)
  else if k =? 2 then
    (if stored && so_gactive o && so_resp o && (we_asm w =? 0) && node_ok nn x then Some (mkWE 1 o x) else None)
  else if k =? 3 then
    (if negb (we_asm w =? 0) then Some (mkWE (we_life w) o 0) else None)
  else if k =? 4 then
    (if stored && (so_phase o =? 0) && (so_node o =? 0) && yz_ok && (negb (we_asm w =? 0) || node_ok nn x)
     then Some (mkWE 1 (mkSO 1 (if we_asm w =? 0 then x else we_asm w) (so_sname o) (so_req o) (op_y op, op_z op)) 0)
     else None)
  else if k =? 5 then (if stored then Some w else None)
  else if k =? 6 then
    (if stored && negb (so_term o) && ((x =? 2) || (x =? 3)) then Some (mkWE 1 (set_phase o x) (we_asm w)) else None)
  else if k =? 7 then (if stored then Some (mkWE 2 o (we_asm w)) else None)
  else if k =? 8 then
    (if stored && (0 <=? x) && (x <=? 3) then Some (mkWE 1 (set_sname o x) (we_asm w)) else None)
  else if k =? 9 then
    (if stored && so_avail o && yz_ok then Some (mkWE 1 (set_alloc o (op_y op, op_z op)) (we_asm w)) else None)
  else if k =? 10 then
    (if stored && so_avail o && node_ok nn x && negb (x =? so_node o) then Some (mkWE 1 (set_node o x) (we_asm w)) else None)
  else if k =? 11 then
    (if stored && so_avail o then Some (mkWE 1 (mkSO 0 0 (so_sname o) (so_req o) (so_alloc o)) (we_asm w)) else None)
  else None.

(* what the running scheduler does at that step: [w] before, [w'] after *)
Definition lstep (w w' : wentry) (op : sop) (e : sentry) : sentry :=
  let o := we_obj w in
  let o' := we_obj w' in
  let k := op_k op in
  if k =? 1 then ev_add o' e
  else if k =? 2 then q_set (c_assume (k_set e true) (op_x op) (so_amount o)) false
  else if k =? 3 then
    (let e1 := c_forget (k_set e false) (we_asm w) in
     if (we_life w =? 1) && so_gactive o && so_resp o then q_set e1 true else e1)
  else if k =? 5 then ev_update o o true e
  else if k =? 7 then ev_delete o e
  else ev_update o o' false e.

Notation wstate := (Z -> wentry).
Notation sstate := (Z -> sentry).
Record slive := mkSL { sl_w : wstate; sl_s : sstate }.
Definition slive_init : slive := mkSL (fun _ => we_init) (fun _ => se_init).

Definition desc_at (ds : list sdesc) (r : Z) : sdesc := nth (Z.to_nat (r - 1)) ds sd_default.
Definition r_valid (ds : list sdesc) (r : Z) : bool := (1 <=? r) && (r <=? Z.of_nat (length ds)).

Definition slive_step (nn : Z) (ds : list sdesc) (l : slive) (op : sop) : slive :=
  let r := op_r op in
  if negb (r_valid ds r) then l
  else match wstep nn (desc_at ds r) (sl_w l r) op with
       | None => l
       | Some w' => mkSL (upd1 (sl_w l) r w') (upd1 (sl_s l) r (lstep (sl_w l r) w' op (sl_s l r)))
       end.

(* ------------------------------------------------------------------------------------ *)
(* the freshly started scheduler: events 1 Add(stored object) 2 Update(object, same object)  *)
(* ------------------------------------------------------------------------------------ *)
Record sfresh := mkSF { sf_s : sstate; sf_seen : Z -> bool }.
Definition sfresh_init : sfresh := mkSF (fun _ => se_init) (fun _ => false).
Definition sreplay_step (ds : list sdesc) (w : wstate) (f : sfresh) (ev : Z * Z) : sfresh :=
  let '(k, r) := ev in
  if negb (r_valid ds r) then f
  else if negb (we_life (w r) =? 1) then f
  else let o := we_obj (w r) in
       if k =? 1 then mkSF (upd1 (sf_s f) r (ev_add o (sf_s f r))) (upd1 (sf_seen f) r true)
       else if k =? 2 then mkSF (upd1 (sf_s f) r (ev_update o o true (sf_s f r))) (sf_seen f)
       else f.
Definition scompletion (ds : list sdesc) (f : sfresh) : list (Z * Z) :=
  map (fun r => (1, r)) (filter (fun r => negb (sf_seen f r)) (zrange 1 (length ds))).
Definition sreplay (ds : list sdesc) (w : wstate) (script : list (Z * Z)) : sstate :=
  let f1 := fold_left (sreplay_step ds w) script sfresh_init in
  sf_s (fold_left (sreplay_step ds w) (scompletion ds f1) f1).

(* ------------------------------------------------------------------------------------ *)
(* observable                                                                              *)
(* ------------------------------------------------------------------------------------ *)
(* per reservation 1..NR: st node cpu mem inQueue known; per node 1..NN: NodeInfo.Requested (cpu, memory)
   and the number of pods, i.e. the sums over the reserve pods held there *)
Record ssnap := mkSS { ss_rsv : list sentry; ss_node : list ((Z * Z) * Z) }.

Definition held_on (s : sstate) (n r : Z) : bool := negb (se_st (s r) =? 0) && (se_node (s r) =? n).
Definition node_sum (s : sstate) (nr : nat) (n : Z) : (Z * Z) * Z :=
  fold_right (fun r acc => if held_on s n r then (pair_add (se_amt (s r)) (fst acc), snd acc + 1) else acc)
             ((0, 0), 0) (zrange 1 nr).
Definition ssnapshot (nn : Z) (nr : nat) (s : sstate) : ssnap :=
  mkSS (map s (zrange 1 nr)) (map (node_sum s nr) (zrange 1 (Z.to_nat nn))).

Record scase := mkSCase { s_nn : Z; s_descs : list sdesc; s_ops : list sop; s_script : list (Z * Z) }.

Fixpoint srun_ops (c : scase) (l : slive) (ops : list sop) : list (ssnap * ssnap) :=
  match ops with
  | [] => []
  | op :: t =>
    let l' := slive_step (s_nn c) (s_descs c) l op in
    let nr := length (s_descs c) in
    (ssnapshot (s_nn c) nr (sl_s l'), ssnapshot (s_nn c) nr (sreplay (s_descs c) (sl_w l') (s_script c)))
    :: srun_ops c l' t
  end.
Definition srun (c : scase) := srun_ops c slive_init (s_ops c).
(* the worlds after each step (a function of the input alone) *)
Fixpoint sworlds (c : scase) (l : slive) (ops : list sop) : list wstate :=
  match ops with
  | [] => []
  | op :: t => let l' := slive_step (s_nn c) (s_descs c) l op in sl_w l' :: sworlds c l' t
  end.

Definition enc_sentry (e : sentry) : list Z :=
  [se_st e; se_node e; fst (se_amt e); snd (se_amt e); (if se_q e then 1 else 0); (if se_known e then 1 else 0)].
Definition enc_ssnap (s : ssnap) : list Z :=
  flat_map enc_sentry (ss_rsv s) ++ flat_map (fun e => [fst (fst e); snd (fst e); snd e]) (ss_node s).
Definition enc_srun (r : list (ssnap * ssnap)) : list Z :=
  flat_map (fun p => enc_ssnap (fst p) ++ enc_ssnap (snd p)) r.
