(* C11 — model of the evict strategies that feed the shared loop: victim eligibility and
   ordering (list builders) and release-target computation of
     pkg/koordlet/qosmanager/plugins/memoryevict/memory_evict.go   (memoryEvict, :84-470)
     pkg/koordlet/qosmanager/plugins/cpuevict/cpu_evict.go         (cpuEvict,   :100-623)
   composed with Model.kill_and_evict.  Executable, total, no proofs in this file.

   A pod is described by what the strategies read from it.  Glue that stays on the
   implementation side of the comparison: label/annotation parsing (QoS label, eviction-enabled
   label, eviction-policy JSON, eviction-priority and priority labels), metric-cache queries.
   Container request summation IS modelled ([ctr], [with_ctrs]): three code sites sum the
   batch-cpu of a pod on their own (list builder, release closure of BECPUEvict, request
   accounting of CPUAllocatableEvict) and must agree with the one definition here.  Priority-class derivation uses the GENERATED
   [getPriorityClassByPriority] (apis/extension/priority.go).

   Resource ids: 0 = plain (memory | cpu), 1 = batch-*, 2 = mid-*.
   Release targets: 0 = podUsed, 1 = podResourceRequest.
   Features: 0 = BE*Evict, 1 = *AllocatableEvict, 2 = *Evict (the order the strategies use).  *)
From Coq Require Import List ZArith Bool String.
From Verif Require Import Lib.SortX Lib.SoftF64 Gen.Gen_consts Gen.Gen_funcs C11.Model.
From Verif Require Gen.Gen_scores.
Import ListNotations.
Open Scope Z_scope.

Record epod := mkEpod {
  p_id : Z;              (* rank of the pod name, also of namespace/name and of the UID *)
  p_be : bool;           (* koordinator.sh/qosClass = BE (otherwise LS) *)
  p_active : bool;       (* phase Pending or Running *)
  p_pol : Z;             (* eviction-policy annotation: -1 absent, -2 unparsable, else bit f set
                            iff the list names feature f *)
  p_prionil : bool;      (* spec.priority == nil *)
  p_prio : Z;            (* *spec.priority *)
  p_enabled : bool;      (* label koordinator.sh/eviction-enabled == "true" *)
  p_evprio : Z;          (* parsed koordinator.sh/eviction-priority, 0 when absent/invalid *)
  p_haslab : bool;       (* label koordinator.sh/priority present and an integer *)
  p_lab : Z;
  p_hasmetric : bool;    (* the metric cache has a usage sample for the pod *)
  p_used : Z;            (* memory: bytes; cpu: milli-cores *)
  p_req0 : Z;            (* pod request of the plain resource (cpu in milli) *)
  p_req1 : Z;            (* sum of positive container requests of batch-* *)
  p_req2 : Z }.          (* ... of mid-* *)

(* ---------- containers (pod.Spec.Containers / pod.Spec.InitContainers) ---------- *)
(* kind: 0 = regular container, 1 = init container, 2 = sidecar (KEP-753: init container with
   restartPolicy Always, runs for the whole life of the pod); other kinds do not exist.
   Requests per resource id as in [epod]; 0 = the container does not name the resource. *)
Record ctr := mkCtr { k_pod : Z; k_kind : Z; k_req0 : Z; k_req1 : Z; k_req2 : Z }.

Definition runs_along (k : ctr) : bool := (k_kind k =? 0) || (k_kind k =? 2).

(* what a pod holds of an extended resource while it runs (util.GetPodBEMilliCPURequest and its
   copies in evict.go:247, cpu_evict.go:174, cpu_evict.go:583): the positive requests of the
   regular containers and of the sidecars *)
Definition ext_req (sel : ctr -> Z) (cs : list ctr) : Z :=
  fold_right (fun k acc => (if runs_along k then Z.max 0 (sel k) else 0) + acc) 0 cs.

(* resourcehelper.PodRequests for the plain resource (no pod-level resources, no overhead):
   max (regular + sidecars, max_i InitContainerUse(i)),
   InitContainerUse(i) = sidecars declared before i + container i *)
Fixpoint init_use (cs : list ctr) (restartable : Z) : Z :=
  match cs with
  | [] => 0
  | k :: t =>
    if k_kind k =? 2 then Z.max (restartable + k_req0 k) (init_use t (restartable + k_req0 k))
    else if k_kind k =? 1 then Z.max (restartable + k_req0 k) (init_use t restartable)
    else init_use t restartable
  end.
Definition plain_req (cs : list ctr) : Z :=
  Z.max (fold_right (fun k acc => (if runs_along k then k_req0 k else 0) + acc) 0 cs)
        (init_use cs 0).

(* the pod [p] (its p_req* fields describing the first regular container) with the further
   containers [extra] (those naming the pod, in declaration order) *)
Definition ctrs_of (p : epod) (extra : list ctr) : list ctr :=
  mkCtr (p_id p) 0 (p_req0 p) (p_req1 p) (p_req2 p)
  :: filter (fun k => k_pod k =? p_id p) extra.
Definition with_ctrs (extra : list ctr) (p : epod) : epod :=
  let cs := ctrs_of p extra in
  mkEpod (p_id p) (p_be p) (p_active p) (p_pol p) (p_prionil p) (p_prio p) (p_enabled p)
         (p_evprio p) (p_haslab p) (p_lab p) (p_hasmetric p) (p_used p)
         (plain_req cs) (ext_req k_req1 cs) (ext_req k_req2 cs).

Record ecfg := mkEcfg {
  c_enable : bool;                 (* ResourceUsedThresholdWithBE.Enable *)
  c_cap : Z;                       (* node capacity of the plain resource (cpu in milli) *)
  c_usedok : bool; c_nodeused : Z; (* node usage metric (cpu in milli) *)
  c_thrF : bool; c_thr : Z;        (* {Memory,CPU}EvictThresholdPercent *)
  c_lowerF : bool; c_lower : Z;    (* {Memory,CPU}EvictLowerPercent *)
  c_evthrF : bool; c_evthr : Z;    (* EvictEnabledPriorityThreshold *)
  c_athrF : bool; c_athr : Z;      (* {Memory,CPU}AllocatableEvictThresholdPercent *)
  c_alowerF : bool; c_alower : Z;  (* {Memory,CPU}AllocatableEvictLowerPercent *)
  c_aprioF : bool; c_aprio : Z;    (* AllocatableEvictPriorityThreshold *)
  c_alloc : list Z;                (* node allocatable per resource id, -1 = absent (cpu: milli for
                                      id 0, plain units for batch-cpu / mid-cpu) *)
  c_feat : list bool }.            (* feature gate per feature id *)

(* ---------- priority glue (apis/extension/priority_utils.go) ---------- *)
(* PriorityBatchValueDefault / PriorityProdValueDefault (priority_utils.go:27-31) *)
Definition prio_batch_default : Z := 5500.
Definition prio_prod_default : Z := 9500.

(* GetPodPriorityClassWithDefault: the band of spec.priority if it has one, else by QoS *)
Definition pclass (p : epod) : string :=
  let byqos := if p_be p then PriorityBatch else PriorityProd in
  if p_prionil p then byqos
  else let c := getPriorityClassByPriority (p_prio p) in
       if String.eqb c PriorityNone then byqos else c.

(* GetPodPriorityValueWithDefault *)
Definition eff_prio (p : epod) : Z :=
  if p_prionil p || (p_prio p =? 0) then
    (let c := pclass p in
     if String.eqb c PriorityProd then prio_prod_default
     else if String.eqb c PriorityBatch then prio_batch_default
     else 0)
  else p_prio p.

(* GetRequestTypeAndValueFromPod: resource id and amount the pod's class is accounted in *)
Definition rsrc (p : epod) : Z :=
  let c := pclass p in
  if String.eqb c PriorityMid then 2 else if String.eqb c PriorityBatch then 1 else 0.
Definition req (p : epod) : Z :=
  let r := rsrc p in if r =? 2 then p_req2 p else if r =? 1 then p_req1 p else p_req0 p.

Definition lab_prio (p : epod) : Z := if p_haslab p then p_lab p else eff_prio p.

(* IsEvictionPolicyAllowed(feature, pod) *)
Definition allow (f : Z) (p : epod) : bool :=
  (p_pol p =? -1) || ((0 <=? p_pol p) && Z.testbit (p_pol p) f).

(* ---------- eligibility (the filters of the list builders) ---------- *)
Definition eligible_be (f : Z) (p : epod) : bool := p_be p && allow f p.
Definition eligible_prio (f : Z) (thr : Z) (p : epod) : bool :=
  p_active p && allow f p && (eff_prio p <=? thr) && p_enabled p && p_hasmetric p.

(* ---------- orders ---------- *)
(* common prefix of the published order: eviction priority, priority, label priority *)
Definition key3_cmp (a b : epod) : comparison :=
  match p_evprio a ?= p_evprio b with
  | Eq => match eff_prio a ?= eff_prio b with
          | Eq => lab_prio a ?= lab_prio b
          | c => c
          end
  | c => c
  end.

(* "a may come before b": ascending key3, then descending [sub]; full ties by pod name *)
Definition prio_leb (sub : epod -> Z) (a b : epod) : bool :=
  match key3_cmp a b with
  | Lt => true
  | Gt => false
  | Eq => if sub a =? sub b then p_id a <=? p_id b else sub b <? sub a
  end.

(* memory_evict.go:379-393 getSortedBEPodInfos: the less function *)
Definition used_be (p : epod) : Z := if p_hasmetric p then p_used p else 0.
Definition be_mem_less (a b : epod) : bool :=
  if negb (p_prionil a) && negb (p_prionil b) && negb (p_prio a =? p_prio b)
  then p_prio a <? p_prio b
  else if negb (used_be a =? 0) && negb (used_be b =? 0) then used_be b <? used_be a
  else if (used_be a =? 0) && (used_be b =? 0) then p_id b <? p_id a
  else used_be b =? 0.
Definition be_mem_leb (a b : epod) : bool :=
  be_mem_less a b || (negb (be_mem_less b a) && (p_id a <=? p_id b)).

(* cpu_evict.go:597-621 getBEPodEvictInfoAndSort: CpuUsage = float64(used)/float64(request)
   (0 without a request), compared as float64 *)
Definition becpu_used (p : epod) : Z := if p_hasmetric p then p_used p else 0.
Definition becpu_ratio (p : epod) : fl :=
  if 0 <? p_req1 p then fdiv (f_of_int (becpu_used p)) (f_of_int (p_req1 p)) else f0.
Definition usage_gt (a b : epod) : bool := fltb (becpu_ratio b) (becpu_ratio a).
Definition be_cpu_less (a b : epod) : bool :=
  if p_prionil a || p_prionil b || (p_prio a =? p_prio b) then usage_gt a b
  else p_prio a <? p_prio b.
Definition be_cpu_leb (a b : epod) : bool :=
  be_cpu_less a b || (negb (be_cpu_less b a) && (p_id a <=? p_id b)).

(* ---------- metric samples (cpu) ---------- *)
(* the cpu usage series are float64 CORES; the strategies convert with int64(x*1000).  A sample of
   u/1000 cores (u an integer, as the harness stores it) reads back as: *)
Definition milli_of_sample (u : Z) : Z := ftrunc (fmul (fdiv (f_of_int u) f1000) f1000).
Definition cpu_sample (p : epod) : epod :=
  mkEpod (p_id p) (p_be p) (p_active p) (p_pol p) (p_prionil p) (p_prio p) (p_enabled p)
         (p_evprio p) (p_haslab p) (p_lab p) (p_hasmetric p) (milli_of_sample (p_used p))
         (p_req0 p) (p_req1 p) (p_req2 p).
Definition cpu_cfg_sample (c : ecfg) : ecfg :=
  mkEcfg (c_enable c) (c_cap c) (c_usedok c) (milli_of_sample (c_nodeused c)) (c_thrF c) (c_thr c)
         (c_lowerF c) (c_lower c) (c_evthrF c) (c_evthr c) (c_athrF c) (c_athr c) (c_alowerF c)
         (c_alower c) (c_aprioF c) (c_aprio c) (c_alloc c) (c_feat c).

(* ---------- list builders ---------- *)
Definition build_be_mem (f : Z) (pods : list epod) : list epod :=
  sort_by be_mem_leb (filter (eligible_be f) pods).
Definition build_be_cpu (f : Z) (pods : list epod) : list epod :=
  sort_by be_cpu_leb (filter (eligible_be f) pods).
Definition build_prio (f : Z) (thr : Z) (sub : epod -> Z) (pods : list epod) : list epod :=
  sort_by (prio_leb sub) (filter (eligible_prio f thr) pods).

(* ---------- release targets ---------- *)
Definition buffer_percent : Z := 2.   (* memoryReleaseBufferPercent = cpuReleaseBufferPercent = 2 *)
Definition lower_eff (c : ecfg) : Z := if c_lowerF c then c_lower c else c_thr c - buffer_percent.

Definition used_cfg_ok (c : ecfg) : bool :=
  c_thrF c && (0 <=? c_thr c) && (lower_eff c <? c_thr c).
Definition alloc_cfg_ok (c : ecfg) : bool :=
  c_athrF c && (0 <=? c_athr c) && c_alowerF c && (c_alower c <? c_athr c)
  && c_aprioF c && (c_aprio c <=? PriorityMidValueMax).

(* calculateReleaseByUsedThresholdPercent / calculateMilliReleaseByUsedThresholdPercent *)
Definition used_need (c : ecfg) : rvec :=
  if negb (c_usedok c) then []
  else let usage := Z.quot (c_nodeused c * 100) (c_cap c) in
       if usage <? c_thr c then []
       else [(0, Z.quot (c_cap c * (usage - lower_eff c)) 100)].

(* calculate(Milli)ReleaseByAllocatableThresholdPercent.  [cpu]: which of the two copies.
   For resource 0 the cpu copy writes a milli amount with NewQuantity, which the loop reads back
   as cores (factor 1000).  The float64 expressions are the rounded operations of Lib.SoftF64:
     if rq/sum > float64(thr)/100:
       cpu     int64(rq - float64(lower)/100*sum)
       memory  int64((rq/sum - float64(lower)/100)*sum)                                     *)
Definition requested (c : ecfg) (pods : list epod) (r : Z) : option Z :=
  let ps := filter (fun p => (eff_prio p <=? c_aprio c) && (rsrc p =? r)) pods in
  match ps with
  | [] => None
  | _ => Some (fold_right (fun p acc => req p + acc) 0 ps)
  end.
Definition alloc_amount (cpu : bool) (c : ecfg) (rq a : Z) : Z :=
  let rqv := f_of_int rq in
  let sumv := f_of_int a in
  let low := fdiv (f_of_int (c_alower c)) f100 in
  if cpu then ftrunc (fsub rqv (fmul low sumv))
  else ftrunc (fmul (fsub (fdiv rqv sumv) low) sumv).
Definition alloc_need_r (cpu : bool) (c : ecfg) (pods : list epod) (r : Z) : rvec :=
  match requested c pods r with
  | None => []
  | Some rq =>
    let a := nth (Z.to_nat r) (c_alloc c) (-1) in
    let scale := if (r =? 0) && cpu then 1000 else 1 in
    if a <=? 0 then [(r, rq)]
    else if fltb (fdiv (f_of_int (c_athr c)) f100) (fdiv (f_of_int rq) (f_of_int a))
         then [(r, scale * alloc_amount cpu c rq a)]
         else []
  end.
Definition alloc_need (cpu : bool) (c : ecfg) (pods : list epod) : rvec :=
  alloc_need_r cpu c pods 0 ++ alloc_need_r cpu c pods 1 ++ alloc_need_r cpu c pods 2.

Definition has_key (r : Z) (l : rvec) : bool := existsb (fun kv => fst kv =? r) l.

(* the allocatable tasks' GetPodResourceFunc: only pods of a class that is short report *)
Definition alloc_rel (need : rvec) (p : epod) : rvec :=
  let r := rsrc p in
  if negb (r =? 0) && has_key r need then [(r, req p)] else [].

(* ---------- BECPUEvict: release target by BE CPU satisfaction ---------- *)
(* cpu_evict.go:169-300 calculateMilliReleaseByBESatisfaction.  The node-level BE metrics
   (usage, request, real limit; milli-cpu as float64) are inputs: a window average with its sample
   count and the last sample.  Metric values are dyadic rationals v / 2^b_shift; every float64
   operation of the code is the correspondingly rounded operation of Lib.SoftF64. *)
Record bmetric := mkBm { m_ok : bool; m_val : Z; m_cnt : Z }.
Record becfg := mkBecfg {
  b_policy : bool;               (* CPUEvictPolicy == evictByAllocatable *)
  b_lowF : bool; b_low : Z;      (* CPUEvictBESatisfactionLowerPercent *)
  b_upF : bool; b_up : Z;        (* CPUEvictBESatisfactionUpperPercent *)
  b_uthrF : bool; b_uthr : Z;    (* CPUEvictBEUsageThresholdPercent *)
  b_winF : bool; b_win : Z;      (* CPUEvictTimeWindowSeconds *)
  b_interval : Z;                (* metricCollectInterval, seconds *)
  b_shift : Z;
  b_avg_usage : bmetric; b_avg_req : bmetric; b_avg_limit : bmetric;
  b_cur_usage : bmetric; b_cur_req : bmetric; b_cur_limit : bmetric }.

(* constants of cpu_evict.go:44-52 *)
Definition be_sat_low_max : Z := 60.
Definition be_sat_up_max : Z := 100.
Definition be_usage_thr_default : Z := 90.
Definition be_min_allocatable : Z := 1.

(* isSatisfactionConfigValid *)
Definition be_cfg_ok (b : becfg) : bool :=
  b_lowF b && b_upF b && (0 <? b_low b) && (b_low b <=? be_sat_low_max)
  && (0 <? b_up b) && (b_up b <? be_sat_up_max) && (b_low b <=? b_up b).

(* getBECPUMetric: (value, count), (0.0, 0) when the series has no sample *)
Definition mvalue (b : becfg) (m : bmetric) : fl :=
  if m_ok m then f_dyadic (m_val m) (b_shift b) else f0.
Definition mcount (m : bmetric) : Z := if m_ok m then m_cnt m else 0.

(* getBEMilliAllocatable *)
Definition be_allocatable (c : ecfg) : fl :=
  let a := nth 1 (c_alloc c) (-1) in
  if a <? 0 then f_of_int (-1) else if a =? 0 then f_of_int be_min_allocatable else f_of_int a.
Definition be_limit (c : ecfg) (b : becfg) (real : fl) : fl :=
  if b_policy b then be_allocatable c else real.

(* isBECPUUsageHighEnough *)
Definition be_usage_high (b : becfg) (usage limit : fl) : bool :=
  if fleb limit f0 then false
  else if fltb limit f1000 then true
  else
    let thr := if b_uthrF b then b_uthr b else be_usage_thr_default in
    negb (fltb (fdiv usage limit) (fdiv (f_of_int thr) f100)).

(* calculateResourceMilliToReleaseBySatisfaction *)
Definition be_sat_release (b : becfg) (request limit : fl) : Z :=
  if fleb request f0 then 0
  else
    let rate := fdiv limit request in
    if fltb (fdiv (f_of_int (b_low b)) f100) rate then 0
    else
      let gap := fsub (fdiv (f_of_int (b_up b)) f100) rate in
      if fleb gap f0 then 0 else ftrunc (fmul request gap).

Definition be_window (b : becfg) : Z :=
  if b_winF b && (b_interval b <? b_win b) then b_win b else b_interval b.

(* the "enough metric data to act" gate: the GENERATED isAvgQueryResultValid on the minimum of the
   three sample counts *)
Definition be_data_ok (b : becfg) : bool :=
  Gen_scores.cpuevict_isAvgQueryResultValid (be_window b) (b_interval b)
    (Z.min (mcount (b_avg_usage b)) (Z.min (mcount (b_avg_req b)) (mcount (b_avg_limit b)))).

Definition be_need (c : ecfg) (b : becfg) : rvec :=
  let avg_req := mvalue b (b_avg_req b) in
  let avg_lim := be_limit c b (mvalue b (b_avg_limit b)) in
  if negb (be_data_ok b) then []
  else if negb (be_usage_high b (mvalue b (b_avg_usage b)) avg_lim) then []
  else
    let rel := be_sat_release b avg_req avg_lim in
    if rel <=? 0 then []
    else
      let cur_req := mvalue b (b_cur_req b) in
      let cur_lim := be_limit c b (mvalue b (b_cur_limit b)) in
      if negb (be_usage_high b (mvalue b (b_cur_usage b)) cur_lim) then []
      else if feqb cur_req avg_req && feqb cur_lim avg_lim then [(1, rel)]
      else
        let rel' := be_sat_release b cur_req cur_lim in
        if rel' <=? 0 then [] else [(1, Z.min rel rel')].

(* ---------- task assembly ---------- *)
(* what a PodEvictInfo remembers of the pod: the pod and the usage figure its builder stored *)
Record info := mkInfo { i_pod : epod; i_used : Z }.

Inductive relfn := RelUsed | RelAlloc (need : rvec) | RelBatchReq.
Record ptask := mkPtask {
  pt_feature : Z; pt_target : target; pt_need : rvec; pt_rel : relfn; pt_infos : list info }.

Definition apply_rel (f : relfn) (i : info) : rvec :=
  match f with
  | RelUsed => [(0, i_used i)]
  | RelAlloc need => alloc_rel need (i_pod i)
  | RelBatchReq => [(1, p_req1 (i_pod i))]
  end.

Definition feat (c : ecfg) (f : nat) : bool := c_enable c && nth f (c_feat c) false.

(* memoryEvict: BEMemoryEvict, MemoryAllocatableEvict, MemoryEvict *)
Definition mem_ptasks (c : ecfg) (pods : list epod) : list ptask :=
  if c_cap c <=? 0 then [] else
  (if feat c 0 && used_cfg_ok c && negb (is_nil (used_need c))
   then [mkPtask 0 0 (used_need c) RelUsed
           (map (fun p => mkInfo p (used_be p)) (build_be_mem 0 pods))] else [])
  ++
  (if feat c 1 && alloc_cfg_ok c && negb (is_nil (alloc_need false c pods))
   then [mkPtask 1 1 (alloc_need false c pods) (RelAlloc (alloc_need false c pods))
           (map (fun p => mkInfo p (p_used p * 1000))
                (build_prio 1 (c_aprio c) req pods))] else [])
  ++
  (if feat c 2 && used_cfg_ok c && c_evthrF c && negb (is_nil (used_need c))
   then [mkPtask 2 0 (used_need c) RelUsed
           (map (fun p => mkInfo p (p_used p * 1000))
                (build_prio 2 (c_evthr c) (fun p => p_used p * 1000) pods))] else []).

(* cpuEvict: BECPUEvict, CPUAllocatableEvict, CPUEvict.  BECPUEvict reports under the release
   target "request" like CPUAllocatableEvict; its GetPodResourceFunc credits ANY pod it is asked
   about with the batch-cpu of its regular + sidecar containers *)
Definition cpu_ptasks (c : ecfg) (b : becfg) (pods : list epod) : list ptask :=
  if c_cap c <=? 0 then [] else
  (if feat c 0 && be_cfg_ok b && negb (is_nil (be_need c b))
   then [mkPtask 0 1 (be_need c b) RelBatchReq
           (map (fun p => mkInfo p (becpu_used p)) (build_be_cpu 0 pods))] else [])
  ++
  (if feat c 1 && alloc_cfg_ok c && negb (is_nil (alloc_need true c pods))
   then [mkPtask 1 1 (alloc_need true c pods) (RelAlloc (alloc_need true c pods))
           (map (fun p => mkInfo p (p_used p)) (build_prio 1 (c_aprio c) req pods))] else [])
  ++
  (if feat c 2 && used_cfg_ok c && c_evthrF c && negb (is_nil (used_need c))
   then [mkPtask 2 0 (used_need c) RelUsed
           (map (fun p => mkInfo p (p_used p)) (build_prio 2 (c_evthr c) p_used pods))] else []).

(* to the task tables of Model.v: every task's function tabulated on every info *)
Definition to_tasks (pts : list ptask) : list task :=
  map (fun pt =>
         mkTask (pt_target pt) (pt_need pt)
                (map (fun i => mkEntry (p_id (i_pod i))
                                       (map (fun pt' => apply_rel (pt_rel pt') i) pts))
                     (pt_infos pt))) pts.
