(* C11 — wire encoding of task tables and of the loop observable, shared by the streams "kill"
   and "hist" (format described in Extract.v / Extract_hist.v). *)
From Coq Require Import List ZArith Bool.
From Verif Require Import Lib.Wire C11.Model C11.Spec.
Import ListNotations.
Open Scope Z_scope.

Fixpoint chunk_rvecs (nr : nat) (n : nat) (l : list Z) : list rvec :=
  match n with
  | O => []
  | S n' => combine (map Z.of_nat (seq 0 nr)) (firstn nr l) :: chunk_rvecs nr n' (skipn nr l)
  end.

Definition dec_pair (l : list Z) : (rname * Z) * list Z :=
  match l with
  | r :: v :: t => ((r, v), t)
  | _ => ((0, 0), [])
  end.

Definition dec_entry (nt_tasks nr : nat) (l : list Z) : entry * list Z :=
  match l with
  | p :: t => let '(vs, rest) := take_n (nt_tasks * nr) t in
              (mkEntry p (chunk_rvecs nr nt_tasks vs), rest)
  | [] => (mkEntry 0 [], [])
  end.

Definition dec_task (T nr : nat) (l : list Z) : task * list Z :=
  match l with
  | tg :: t =>
      let '(need, r1) := decode_seq dec_pair t in
      let '(es, r2) := decode_seq (dec_entry T nr) r1 in
      (mkTask tg need es, r2)
  | [] => (mkTask 0 [] [], [])
  end.

Definition zn (n : nat) : Z := Z.of_nat n.

Definition enc_event (ev : event) : list Z :=
  match ev with
  | EPending j k => [1; zn j; zn j; zn k; 1]
  | EEvict rt j k ok => [2; zn rt; zn j; zn k; bz ok]
  end.

Definition enc_obs (o : obs) : list Z :=
  zn (length (o_events o)) :: flat_map enc_event (o_events o)
  ++ bz (o_newly o) :: map bz (o_keys o) ++ o_table o.

Fixpoint dec_events (n : nat) (l : list Z) : list event * list Z :=
  match n, l with
  | S n', kind :: rt :: j :: k :: ok :: t =>
      let ev := if kind =? 1 then EPending (Z.to_nat j) (Z.to_nat k)
                else EEvict (Z.to_nat rt) (Z.to_nat j) (Z.to_nat k) (zb ok) in
      let '(evs, r) := dec_events n' t in (ev :: evs, r)
  | _, _ => ([], l)
  end.

Definition dec_obs (nt : nat) (l : list Z) : obs :=
  match l with
  | n :: t =>
      let '(evs, r1) := dec_events (Z.to_nat n) t in
      match r1 with
      | nw :: r2 => mkObs evs (zb nw) (map zb (firstn nt r2)) (skipn nt r2)
      | [] => mkObs evs false [] []
      end
  | [] => mkObs [] false [] []
  end.

