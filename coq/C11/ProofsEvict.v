(* C11 — proofs about the strategy-level model: the victim lists contain only eligible pods, are
   permutations of the eligible pods, and are sorted by the published order. *)
From Coq Require Import List ZArith Bool Lia Permutation Sorted.
From Verif Require Import Lib.ListX Lib.SortX Lib.SortOn C11.Model C11.Spec C11.Proofs C11.ModelEvict C11.SpecEvict.
Import ListNotations.
Open Scope Z_scope.

Ltac cmp_cases :=
  repeat match goal with
         | |- context [?x ?= ?y] => destruct (Z.compare_spec x y)
         | H : context [?x ?= ?y] |- _ => destruct (Z.compare_spec x y)
         end.
Ltac bool_cases :=
  repeat match goal with
         | |- context [?x =? ?y] => destruct (Z.eqb_spec x y)
         | H : context [?x =? ?y] |- _ => destruct (Z.eqb_spec x y)
         | |- context [?x <? ?y] => destruct (Z.ltb_spec x y)
         | H : context [?x <? ?y] |- _ => destruct (Z.ltb_spec x y)
         | |- context [?x <=? ?y] => destruct (Z.leb_spec x y)
         | H : context [?x <=? ?y] |- _ => destruct (Z.leb_spec x y)
         end.

Lemma prio_leb_total sub : leb_total (prio_leb sub).
Proof.
  intros a b. unfold prio_leb, key3_cmp. cmp_cases; bool_cases; auto; try lia.
Qed.

Lemma prio_leb_trans sub : leb_trans (prio_leb sub).
Proof.
  intros a b c. unfold prio_leb, key3_cmp. cmp_cases; bool_cases; intros; try reflexivity; try discriminate; try lia.
Qed.

Lemma prio_leb_not_less sub a b : prio_leb sub a b = true -> prio_less sub b a = false.
Proof.
  unfold prio_leb, prio_less, key3_cmp. cmp_cases; bool_cases; intros; try reflexivity; try discriminate; try lia.
Qed.

(* ---------- the by-priority victim lists ---------- *)
Lemma build_prio_perm f thr sub pods :
  Permutation (build_prio f thr sub pods) (filter (eligible_prio f thr) pods).
Proof. apply sort_by_perm. Qed.

Lemma build_prio_in f thr sub pods p :
  In p (build_prio f thr sub pods) <-> In p pods /\ eligible_prio f thr p = true.
Proof. unfold build_prio. rewrite sort_by_In, filter_In. tauto. Qed.

Lemma build_prio_sorted f thr sub pods :
  StronglySorted (fun a b => prio_leb sub a b = true) (build_prio f thr sub pods).
Proof. apply sort_by_sorted; [apply prio_leb_total|apply prio_leb_trans]. Qed.

Lemma build_prio_list_ok f thr sub pods :
  NoDup (map p_id pods) ->
  list_ok (eligible_prio f thr) (prio_less sub) (build_prio f thr sub pods).
Proof.
  intros Hnd. unfold list_ok. split; [|split].
  - intros p Hp. apply build_prio_in in Hp. tauto.
  - intros pre a mid b suf Heq. apply prio_leb_not_less.
    exact (sorted_split_lt _ _ _ _ _ _ _ (build_prio_sorted f thr sub pods) Heq).
  - eapply NoDup_map_perm; [apply Permutation_sym, build_prio_perm|].
    apply NoDup_map_filter. exact Hnd.
Qed.

(* ---------- the best-effort victim lists ---------- *)
Lemma build_be_mem_in f pods p :
  In p (build_be_mem f pods) <-> In p pods /\ eligible_be f p = true.
Proof. unfold build_be_mem. rewrite sort_by_In, filter_In. tauto. Qed.

Lemma build_be_cpu_in f pods p :
  In p (build_be_cpu f pods) <-> In p pods /\ eligible_be f p = true.
Proof. unfold build_be_cpu. rewrite sort_by_In, filter_In. tauto. Qed.

Lemma build_be_mem_perm f pods :
  Permutation (build_be_mem f pods) (filter (eligible_be f) pods).
Proof. apply sort_by_perm. Qed.

Lemma build_be_cpu_perm f pods :
  Permutation (build_be_cpu f pods) (filter (eligible_be f) pods).
Proof. apply sort_by_perm. Qed.

(* getSortedBEPodInfos's less function is a strict weak order only when every pod carries a
   spec.priority (the priority admission plugin sets it); under that hypothesis the list is
   sorted by (priority, usage with metric-less pods last, name) *)
Definition has_prio (p : epod) : Prop := p_prionil p = false.

(* lexicographic <= on equal-length integer keys *)
Fixpoint lexle (k1 k2 : list Z) : bool :=
  match k1, k2 with
  | x :: t1, y :: t2 => if x <? y then true else if y <? x then false else lexle t1 t2
  | _, _ => true
  end.

Lemma lexle_total k1 : forall k2, lexle k1 k2 = true \/ lexle k2 k1 = true.
Proof.
  induction k1 as [|x t1 IH]; intros [|y t2]; cbn [lexle]; auto.
  destruct (Z.ltb_spec x y); destruct (Z.ltb_spec y x); auto; try lia.
Qed.

Lemma lexle_trans k1 : forall k2 k3, length k1 = length k2 -> length k2 = length k3 ->
  lexle k1 k2 = true -> lexle k2 k3 = true -> lexle k1 k3 = true.
Proof.
  induction k1 as [|x t1 IH]; intros [|y t2] [|z t3] L1 L2; cbn [lexle length] in *;
    try discriminate; auto.
  injection L1 as L1. injection L2 as L2.
  destruct (Z.ltb_spec x y); destruct (Z.ltb_spec y x); destruct (Z.ltb_spec y z);
    destruct (Z.ltb_spec z y); destruct (Z.ltb_spec x z); destruct (Z.ltb_spec z x);
    intros; try reflexivity; try discriminate; try lia.
  all: eapply (IH t2 t3); eauto.
Qed.

Definition be_mem_key (p : epod) : list Z :=
  [p_prio p; if used_be p =? 0 then 1 else 0;
   if used_be p =? 0 then - p_id p else - used_be p; p_id p].

Lemma be_mem_leb_key a b :
  has_prio a -> has_prio b -> be_mem_leb a b = lexle (be_mem_key a) (be_mem_key b).
Proof.
  unfold has_prio. intros Ha Hb. unfold be_mem_leb, be_mem_less, be_mem_key. rewrite Ha, Hb.
  cbn [negb andb lexle]. generalize (used_be a) (used_be b). intros ua ub.
  bool_cases; cbn; try reflexivity; try lia.
Qed.

Lemma be_mem_leb_total_on : total_on be_mem_leb has_prio.
Proof.
  intros a b Ha Hb. rewrite !be_mem_leb_key by assumption. apply lexle_total.
Qed.

Lemma be_mem_leb_trans_on : trans_on be_mem_leb has_prio.
Proof.
  intros a b c Ha Hb Hc. rewrite !be_mem_leb_key by assumption.
  apply lexle_trans; reflexivity.
Qed.

Lemma be_mem_leb_not_less a b :
  has_prio a -> has_prio b -> be_mem_leb a b = true -> be_mem_less b a = false.
Proof.
  unfold has_prio. intros Ha Hb. unfold be_mem_leb, be_mem_less. rewrite Ha, Hb.
  cbn [negb andb]. generalize (used_be a) (used_be b). intros ua ub.
  bool_cases; cbn; intros; try reflexivity; try discriminate; try lia.
Qed.

Lemma build_be_mem_list_ok f pods :
  NoDup (map p_id pods) -> (forall p, In p pods -> has_prio p) ->
  list_ok (eligible_be f) be_mem_less (build_be_mem f pods).
Proof.
  intros Hnd Hp. unfold list_ok. split; [|split].
  - intros p Hin. apply build_be_mem_in in Hin. tauto.
  - intros pre a mid b suf Heq.
    assert (Hall : forall p, In p (build_be_mem f pods) -> has_prio p).
    { intros p Hin. apply build_be_mem_in in Hin. apply Hp. tauto. }
    assert (Hs : StronglySorted (fun a b => be_mem_leb a b = true) (build_be_mem f pods)).
    { apply (sort_by_sorted_on be_mem_leb has_prio);
        [apply be_mem_leb_total_on|apply be_mem_leb_trans_on|].
      apply Forall_forall. intros p Hin. apply filter_In in Hin. apply Hp. tauto. }
    apply be_mem_leb_not_less.
    + apply Hall. rewrite Heq. apply in_or_app. right. left. reflexivity.
    + apply Hall. rewrite Heq. apply in_or_app. right. right. apply in_or_app. right. left.
      reflexivity.
    + exact (sorted_split_lt _ _ _ _ _ _ _ Hs Heq).
  - eapply NoDup_map_perm; [apply Permutation_sym, build_be_mem_perm|].
    apply NoDup_map_filter. exact Hnd.
Qed.

(* ---------- strategy level: every victim of an end-to-end run is eligible ---------- *)
(* the policy under which feature f may take pod p (memoryEvict / cpuEvict):
   f = 0: best-effort QoS; f = 1, 2: active, priority not above the configured threshold,
   eviction enabled, usage known; always: not opted out of feature f by its policy annotation *)
Definition elig_for (c : ecfg) (f : Z) (p : epod) : bool :=
  if f =? 0 then eligible_be 0 p
  else if f =? 1 then eligible_prio 1 (c_aprio c) p
  else if f =? 2 then eligible_prio 2 (c_evthr c) p
  else false.

Lemma elig_for_allowed c f p : elig_for c f p = true -> allow f p = true.
Proof.
  unfold elig_for, eligible_be, eligible_prio.
  destruct (Z.eqb_spec f 0); [subst; intros H; apply andb_true_iff in H; tauto|].
  destruct (Z.eqb_spec f 1);
    [subst; intros H; repeat (apply andb_true_iff in H; destruct H as [H ?]); assumption|].
  destruct (Z.eqb_spec f 2);
    [subst; intros H; repeat (apply andb_true_iff in H; destruct H as [H ?]); assumption|].
  discriminate.
Qed.

Definition ptasks_eligible (c : ecfg) (pods : list epod) (pts : list ptask) : Prop :=
  forall pt i, In pt pts -> In i (pt_infos pt) ->
    In (i_pod i) pods /\ elig_for c (pt_feature pt) (i_pod i) = true.

Lemma mem_ptasks_eligible c pods : ptasks_eligible c pods (mem_ptasks c pods).
Proof.
  unfold ptasks_eligible, mem_ptasks. intros pt i Hpt Hi.
  destruct (c_cap c <=? 0); [destruct Hpt|].
  apply in_app_or in Hpt. destruct Hpt as [Hpt|Hpt].
  { destruct (feat c 0 && used_cfg_ok c && negb (is_nil (used_need c))); [|destruct Hpt].
    destruct Hpt as [<-|[]]. cbn [pt_infos pt_feature] in *.
    apply in_map_iff in Hi. destruct Hi as [p [<- Hp]]. cbn [i_pod].
    apply build_be_mem_in in Hp. unfold elig_for. cbn. tauto. }
  apply in_app_or in Hpt. destruct Hpt as [Hpt|Hpt].
  { destruct (feat c 1 && alloc_cfg_ok c && negb (is_nil (alloc_need false c pods))); [|destruct Hpt].
    destruct Hpt as [<-|[]]. cbn [pt_infos pt_feature] in *.
    apply in_map_iff in Hi. destruct Hi as [p [<- Hp]]. cbn [i_pod].
    apply build_prio_in in Hp. unfold elig_for. cbn. tauto. }
  { destruct (feat c 2 && used_cfg_ok c && c_evthrF c && negb (is_nil (used_need c))); [|destruct Hpt].
    destruct Hpt as [<-|[]]. cbn [pt_infos pt_feature] in *.
    apply in_map_iff in Hi. destruct Hi as [p [<- Hp]]. cbn [i_pod].
    apply build_prio_in in Hp. unfold elig_for. cbn. tauto. }
Qed.

Lemma cpu_ptasks_eligible c b pods : ptasks_eligible c pods (cpu_ptasks c b pods).
Proof.
  unfold ptasks_eligible, cpu_ptasks. intros pt i Hpt Hi.
  destruct (c_cap c <=? 0); [destruct Hpt|].
  apply in_app_or in Hpt. destruct Hpt as [Hpt|Hpt].
  { destruct (feat c 0 && be_cfg_ok b && negb (is_nil (be_need c b))); [|destruct Hpt].
    destruct Hpt as [<-|[]]. cbn [pt_infos pt_feature] in *.
    apply in_map_iff in Hi. destruct Hi as [p [<- Hp]]. cbn [i_pod].
    apply build_be_cpu_in in Hp. unfold elig_for. cbn. tauto. }
  apply in_app_or in Hpt. destruct Hpt as [Hpt|Hpt].
  { destruct (feat c 1 && alloc_cfg_ok c && negb (is_nil (alloc_need true c pods))); [|destruct Hpt].
    destruct Hpt as [<-|[]]. cbn [pt_infos pt_feature] in *.
    apply in_map_iff in Hi. destruct Hi as [p [<- Hp]]. cbn [i_pod].
    apply build_prio_in in Hp. unfold elig_for. cbn. tauto. }
  { destruct (feat c 2 && used_cfg_ok c && c_evthrF c && negb (is_nil (used_need c))); [|destruct Hpt].
    destruct Hpt as [<-|[]]. cbn [pt_infos pt_feature] in *.
    apply in_map_iff in Hi. destruct Hi as [p [<- Hp]]. cbn [i_pod].
    apply build_prio_in in Hp. unfold elig_for. cbn. tauto. }
Qed.

Lemma entry_at_to_tasks pts j k e :
  entry_at (to_tasks pts) j k = Some e ->
  exists pt i, nth_error pts j = Some pt /\ nth_error (pt_infos pt) k = Some i
               /\ e_pod e = p_id (i_pod i).
Proof.
  unfold entry_at, to_tasks. rewrite nth_error_map.
  destruct (nth_error pts j) as [pt|] eqn:Hj; cbn [option_map]; [|discriminate].
  cbn [t_pods]. rewrite nth_error_map.
  destruct (nth_error (pt_infos pt) k) as [i|] eqn:Hk; cbn [option_map]; [|discriminate].
  intros H. inversion H; subst. exists pt, i. cbn [e_pod]. repeat split. exact Hk.
Qed.

(* every Evict call and every already-evicted hit of an end-to-end run concerns a pod of the
   node's pod set that the policy of the calling feature allows, whatever the executor does *)
Lemma strategy_victims_eligible c pods pts pend okf :
  ptasks_eligible c pods pts ->
  forall pre ev suf,
    fst (kill_and_evict pend okf (to_tasks pts)) = pre ++ ev :: suf ->
    exists pt i, nth_error pts (ev_rt ev) = Some pt /\ nth_error (pt_infos pt) (ev_k ev) = Some i
                 /\ In (i_pod i) pods /\ elig_for c (pt_feature pt) (i_pod i) = true.
Proof.
  intros He pre ev suf Heq.
  destruct (model_every_split pend okf (to_tasks pts) pre ev suf Heq) as [[Hrt [e Hent]] _].
  unfold ev_entry in Hent. destruct (entry_at_to_tasks _ _ _ _ Hent) as [pt [i [Hpt [Hi _]]]].
  exists pt, i. rewrite Hrt. split; [exact Hpt|]. split; [exact Hi|].
  apply He; [eapply nth_error_In; exact Hpt|eapply nth_error_In; exact Hi].
Qed.

Lemma build_prio_in_spec f thr sub pods p :
  In p (build_prio f thr sub pods) <->
  In p pods /\ p_active p = true /\ allow f p = true /\ eff_prio p <= thr
  /\ p_enabled p = true /\ p_hasmetric p = true.
Proof.
  rewrite build_prio_in. unfold eligible_prio. rewrite !andb_true_iff, Z.leb_le. tauto.
Qed.

Lemma build_be_in_spec f pods p :
  (In p (build_be_mem f pods) <-> In p pods /\ p_be p = true /\ allow f p = true)
  /\ (In p (build_be_cpu f pods) <-> In p pods /\ p_be p = true /\ allow f p = true).
Proof.
  rewrite build_be_mem_in, build_be_cpu_in. unfold eligible_be. rewrite !andb_true_iff. tauto.
Qed.
