(* C11 — proofs about the strategy-level model: the victim lists contain only eligible pods, are
   permutations of the eligible pods, and are sorted by the published order. *)
From Coq Require Import List ZArith Bool Lia Permutation Sorted.
From Verif Require Import Lib.ListX Lib.SortX Lib.SortOn C11.Model C11.Spec C11.ModelEvict C11.SpecEvict.
Import ListNotations.
Open Scope Z_scope.

Ltac cmp_cases :=
  repeat match goal with
         | |- context [?x ?= ?y] => destruct (Z.compare_spec x y)
         | H : context [?x ?= ?y] |- _ => destruct (Z.compare_spec x y)
         end.
Ltac bool_cases :=
  repeat match goal with
         | |- context [?x =? ?y] => destruct (Z.eqb_spec x y)
         | H : context [?x =? ?y] |- _ => destruct (Z.eqb_spec x y)
         | |- context [?x <? ?y] => destruct (Z.ltb_spec x y)
         | H : context [?x <? ?y] |- _ => destruct (Z.ltb_spec x y)
         | |- context [?x <=? ?y] => destruct (Z.leb_spec x y)
         | H : context [?x <=? ?y] |- _ => destruct (Z.leb_spec x y)
         end.

Lemma prio_leb_total sub : leb_total (prio_leb sub).
Proof.
  intros a b. unfold prio_leb, key3_cmp. cmp_cases; bool_cases; auto; try lia.
Qed.

Lemma prio_leb_trans sub : leb_trans (prio_leb sub).
Proof.
  intros a b c. unfold prio_leb, key3_cmp. cmp_cases; bool_cases; intros; try reflexivity; try discriminate; try lia.
Qed.

Lemma prio_leb_not_less sub a b : prio_leb sub a b = true -> prio_less sub b a = false.
Proof.
  unfold prio_leb, prio_less, key3_cmp. cmp_cases; bool_cases; intros; try reflexivity; try discriminate; try lia.
Qed.

(* ---------- the by-priority victim lists ---------- *)
Lemma build_prio_perm f thr sub pods :
  Permutation (build_prio f thr sub pods) (filter (eligible_prio f thr) pods).
Proof. apply sort_by_perm. Qed.

Lemma build_prio_in f thr sub pods p :
  In p (build_prio f thr sub pods) <-> In p pods /\ eligible_prio f thr p = true.
Proof. unfold build_prio. rewrite sort_by_In, filter_In. tauto. Qed.

Lemma build_prio_sorted f thr sub pods :
  StronglySorted (fun a b => prio_leb sub a b = true) (build_prio f thr sub pods).
Proof. apply sort_by_sorted; [apply prio_leb_total|apply prio_leb_trans]. Qed.

Lemma build_prio_list_ok f thr sub pods :
  NoDup (map p_id pods) ->
  list_ok (eligible_prio f thr) (prio_less sub) (build_prio f thr sub pods).
Proof.
  intros Hnd. unfold list_ok. split; [|split].
  - intros p Hp. apply build_prio_in in Hp. tauto.
  - intros pre a mid b suf Heq. apply prio_leb_not_less.
    exact (sorted_split_lt _ _ _ _ _ _ _ (build_prio_sorted f thr sub pods) Heq).
  - eapply NoDup_map_perm; [apply Permutation_sym, build_prio_perm|].
    apply NoDup_map_filter. exact Hnd.
Qed.

(* ---------- the best-effort victim lists ---------- *)
Lemma build_be_mem_in f pods p :
  In p (build_be_mem f pods) <-> In p pods /\ eligible_be f p = true.
Proof. unfold build_be_mem. rewrite sort_by_In, filter_In. tauto. Qed.

Lemma build_be_cpu_in f pods p :
  In p (build_be_cpu f pods) <-> In p pods /\ eligible_be f p = true.
Proof. unfold build_be_cpu. rewrite sort_by_In, filter_In. tauto. Qed.

Lemma build_be_mem_perm f pods :
  Permutation (build_be_mem f pods) (filter (eligible_be f) pods).
Proof. apply sort_by_perm. Qed.

Lemma build_be_cpu_perm f pods :
  Permutation (build_be_cpu f pods) (filter (eligible_be f) pods).
Proof. apply sort_by_perm. Qed.

(* getSortedBEPodInfos's less function is a strict weak order only when every pod carries a
   spec.priority (the priority admission plugin sets it); under that hypothesis the list is
   sorted by (priority, usage with metric-less pods last, name) *)
Definition has_prio (p : epod) : Prop := p_prionil p = false.

Lemma be_mem_leb_total_on : total_on be_mem_leb has_prio.
Proof.
  intros a b Ha Hb. unfold has_prio in *. unfold be_mem_leb, be_mem_less. rewrite Ha, Hb.
  cbn [negb andb]. generalize (used_be a) (used_be b). intros ua ub.
  bool_cases; cbn; auto; try lia.
Qed.

Lemma be_mem_leb_trans_on : trans_on be_mem_leb has_prio.
Proof.
  intros a b c Ha Hb Hc. unfold has_prio in *. unfold be_mem_leb, be_mem_less.
  rewrite Ha, Hb, Hc. cbn [negb andb]. generalize (used_be a) (used_be b) (used_be c).
  intros ua ub uc. bool_cases; cbn; intros; try reflexivity; try discriminate; try lia.
Qed.

Lemma be_mem_leb_not_less a b :
  has_prio a -> has_prio b -> be_mem_leb a b = true -> be_mem_less b a = false.
Proof.
  unfold has_prio. intros Ha Hb. unfold be_mem_leb, be_mem_less. rewrite Ha, Hb.
  cbn [negb andb]. generalize (used_be a) (used_be b). intros ua ub.
  bool_cases; cbn; intros; try reflexivity; try discriminate; try lia.
Qed.

Lemma build_be_mem_list_ok f pods :
  NoDup (map p_id pods) -> (forall p, In p pods -> has_prio p) ->
  list_ok (eligible_be f) be_mem_less (build_be_mem f pods).
Proof.
  intros Hnd Hp. unfold list_ok. split; [|split].
  - intros p Hin. apply build_be_mem_in in Hin. tauto.
  - intros pre a mid b suf Heq.
    assert (Hall : forall p, In p (build_be_mem f pods) -> has_prio p).
    { intros p Hin. apply build_be_mem_in in Hin. apply Hp. tauto. }
    assert (Hs : StronglySorted (fun a b => be_mem_leb a b = true) (build_be_mem f pods)).
    { apply (sort_by_sorted_on be_mem_leb has_prio);
        [apply be_mem_leb_total_on|apply be_mem_leb_trans_on|].
      apply Forall_forall. intros p Hin. apply filter_In in Hin. apply Hp. tauto. }
    apply be_mem_leb_not_less.
    + apply Hall. rewrite Heq. apply in_or_app. right. left. reflexivity.
    + apply Hall. rewrite Heq. apply in_or_app. right. right. apply in_or_app. right. left.
      reflexivity.
    + exact (sorted_split_lt _ _ _ _ _ _ _ Hs Heq).
  - eapply NoDup_map_perm; [apply Permutation_sym, build_be_mem_perm|].
    apply NoDup_map_filter. exact Hnd.
Qed.
