(* C11 — proofs about histories of rounds against the stateful executor. *)
From Coq Require Import List ZArith Bool Lia.
From Verif Require Import Lib.ListX C11.Model C11.Spec C11.Proofs C11.ModelHist.
Import ListNotations.
Open Scope Z_scope.

Lemma eq_listZ_refl l : eq_listZ l l = true.
Proof. apply eq_listZ_spec. reflexivity. Qed.

Lemma round_pending_backed fails E off ts :
  pending_backed ts E (fst (round_run fails E off ts)) = true.
Proof.
  unfold pending_backed. apply forallb_forall. intros ev Hin. destruct ev as [j k|]; [|reflexivity].
  unfold round_run in Hin. apply model_pending_answer in Hin.
  destruct Hin as [e [n [He Hp]]]. unfold ev_pod, ev_entry. cbn [ev_j ev_k]. rewrite He. exact Hp.
Qed.

Lemma hist_code_model_gen nt nr fails : forall rounds E off,
  hist_code nt nr E
    (map (fun p => model_round nt nr (fst p) (snd p))
         (combine rounds (run_hist fails E off rounds))) = 0.
Proof.
  induction rounds as [|ts rest IH]; intros E off; [reflexivity|].
  cbn [run_hist combine map hist_code model_round r_tasks r_obs r_api fst snd].
  unfold round_run at 1 2. rewrite model_safe_code. cbn [Z.eqb negb].
  change (o_events (obs_of nt nr ts (round_run fails E off ts))) with (fst (round_run fails E off ts)).
  rewrite round_pending_backed. cbn [negb]. rewrite eq_listZ_refl. cbn [negb]. apply IH.
Qed.

Lemma hist_code_model nt nr fails rounds :
  hist_code nt nr [] (model_hist nt nr fails rounds) = 0.
Proof. apply hist_code_model_gen. Qed.

Lemma hist_prop_code_model nt nr fails rounds :
  hist_prop_code nt nr (model_hist nt nr fails rounds) = 0
  \/ hist_prop_code nt nr (model_hist nt nr fails rounds) = 6.
Proof.
  unfold hist_prop_code. rewrite hist_code_model. cbn [Z.eqb]. unfold hist_useful_code.
  destruct (forallb _ _); auto.
Qed.

(* ---------- what hist_code = 0 means ---------- *)
(* E grows exactly by the accepted evictions *)
Fixpoint accepted_before (h : list round_obs) : list pod :=
  match h with
  | [] => []
  | r :: rest => accepted (r_tasks r) (o_events (r_obs r)) ++ accepted_before rest
  end.

Lemma hist_code_sound nt nr : forall h E,
  hist_code nt nr E h = 0 ->
  forall pre r suf, h = pre ++ r :: suf ->
    C11_safe (r_tasks r) nt nr (r_obs r)
    /\ (forall j k, In (EPending j k) (o_events (r_obs r)) ->
          In (ev_pod (r_tasks r) (EPending j k)) (E ++ accepted_before pre))
    /\ r_api r = accepted (r_tasks r) (o_events (r_obs r)).
Proof.
  induction h as [|r0 rest IH]; intros E Hc pre r suf Heq.
  - destruct pre; discriminate.
  - cbn [hist_code] in Hc.
    destruct (safe_code (r_tasks r0) nt nr (r_obs r0) =? 0) eqn:E1; cbn [negb] in Hc;
      [|apply Z.eqb_neq in E1; congruence].
    destruct (pending_backed (r_tasks r0) E (o_events (r_obs r0))) eqn:E2; cbn [negb] in Hc;
      [|discriminate].
    destruct (eq_listZ (r_api r0) (accepted (r_tasks r0) (o_events (r_obs r0)))) eqn:E3;
      cbn [negb] in Hc; [|discriminate].
    destruct pre as [|p0 pre]; cbn [app] in Heq; inversion Heq; subst.
    + split; [apply safe_code_spec, Z.eqb_eq, E1|]. split; [|apply eq_listZ_spec, E3].
      intros j k Hin. cbn [accepted_before]. rewrite app_nil_r.
      unfold pending_backed in E2. rewrite forallb_forall in E2.
      specialize (E2 _ Hin). cbn in E2. apply memZ_In. exact E2.
    + destruct (IH _ Hc pre r suf eq_refl) as [A [B C]]. split; [exact A|]. split; [|exact C].
      intros j k Hin. specialize (B j k Hin). cbn [accepted_before].
      rewrite <- app_assoc in B. exact B.
Qed.

(* every counted event of a round (successful eviction or pending hit) concerns a pod whose
   eviction the API accepted in this round or an earlier one *)
Lemma counted_accepted nt nr h :
  hist_code nt nr [] h = 0 ->
  forall pre r suf ev, h = pre ++ r :: suf -> In ev (o_events (r_obs r)) -> counted ev = true ->
    In (ev_pod (r_tasks r) ev) (accepted_before (pre ++ [r])).
Proof.
  intros Hc pre r suf ev Heq Hin Hcnt.
  destruct (hist_code_sound nt nr h [] Hc pre r suf Heq) as [_ [B _]].
  assert (Hsplit : accepted_before (pre ++ [r])
                   = accepted_before pre ++ accepted (r_tasks r) (o_events (r_obs r))).
  { clear. induction pre as [|p pre IH]; cbn [app accepted_before]; [rewrite app_nil_r; reflexivity|].
    rewrite IH, app_assoc. reflexivity. }
  rewrite Hsplit. apply in_or_app. destruct ev as [j k|rt j k ok].
  - left. exact (B j k Hin).
  - right. cbn in Hcnt. subst ok. unfold accepted. apply in_map. apply filter_In. auto.
Qed.
