(* C11 — exported theorems only: each is closed by [exact] and followed by Print Assumptions.
   [tr_of pend okf ts] is the event trace of the model of KillAndEvictPods for an arbitrary
   executor oracle (pend = IsPodEvicted answers, okf = Evict results); nothing is assumed about
   the task tables, the lists or the oracle. *)
From Coq Require Import List ZArith Bool.
From Verif Require Import Lib.ListX Lib.SortX Lib.SoftF64 C11.Model C11.Spec C11.Proofs C11.ModelEvict C11.SpecEvict C11.ProofsEvict C11.ProofsBE C11.ModelHist C11.ProofsHist.
From Verif Require Gen.Gen_scores.
From Coq Require Import Permutation Sorted.
Import ListNotations.
Open Scope Z_scope.

Notation tr_of pend okf ts := (fst (kill_and_evict pend okf ts)).
Notation st_of pend okf ts := (snd (kill_and_evict pend okf ts)).

(* the decision procedure executed on the implementation's observables IS the property *)
Theorem c11_safe_code_iff : forall ts nt nr o, safe_code ts nt nr o = 0 <-> C11_safe ts nt nr o.
Proof. exact safe_code_spec. Qed.
Print Assumptions c11_safe_code_iff.

Theorem c11_prop_code_iff : forall ts nt nr o, prop_code ts nt nr o = 0 <-> C11_holds ts nt nr o.
Proof. exact prop_code_spec. Qed.
Print Assumptions c11_prop_code_iff.

(* main theorem: for all task tables and all executor behaviours the model's observable
   satisfies every clause but "useful" *)
Theorem c11_model_safe : forall pend okf ts nt nr,
  C11_safe ts nt nr (obs_of nt nr ts (kill_and_evict pend okf ts)).
Proof. exact model_safe. Qed.
Print Assumptions c11_model_safe.

Theorem c11_model_prop_code : forall pend okf ts nt nr,
  let o := obs_of nt nr ts (kill_and_evict pend okf ts) in
  prop_code ts nt nr o = 0 \/ prop_code ts nt nr o = 6.
Proof. exact model_prop_code. Qed.
Print Assumptions c11_model_prop_code.

(* every call is made for an element of the list of the task it is made for *)
Theorem c11_only_listed : forall pend okf ts pre ev suf,
  tr_of pend okf ts = pre ++ ev :: suf ->
  ev_rt ev = ev_j ev /\ exists e, entry_at ts (ev_j ev) (ev_k ev) = Some e.
Proof. exact (fun pend okf ts pre ev suf H => proj1 (model_every_split pend okf ts pre ev suf H)). Qed.
Print Assumptions c11_only_listed.

(* tasks are served in order and the victims of a task in the order of its sorted list *)
Theorem c11_order : forall pend okf ts pre ev mid ev' suf,
  tr_of pend okf ts = pre ++ ev :: mid ++ ev' :: suf ->
  (ev_j ev < ev_j ev')%nat \/ (ev_j ev = ev_j ev' /\ (ev_k ev < ev_k ev')%nat).
Proof. exact model_order. Qed.
Print Assumptions c11_order.

(* no pod is evicted (or counted) twice *)
Theorem c11_no_double : forall pend okf ts,
  NoDup (taken_of ts (tr_of pend okf ts))
  /\ forall pre rt j k suf e, tr_of pend okf ts = pre ++ EEvict rt j k true :: suf ->
       entry_at ts j k = Some e ->
       forall ev e', In ev suf -> ev_entry ts ev = Some e' -> e_pod e' <> e_pod e.
Proof. exact model_no_double. Qed.
Print Assumptions c11_no_double.

(* every call (and every already-evicted hit) happens while its task is still short of
   something w.r.t. ALL releases so far; hence nothing happens for a task after it is met *)
Theorem c11_needed : forall pend okf ts pre ev suf tk,
  tr_of pend okf ts = pre ++ ev :: suf -> nth_error ts (ev_rt ev) = Some tk ->
  short tk (released_of ts pre) = true.
Proof. exact model_needed. Qed.
Print Assumptions c11_needed.

Theorem c11_stop_when_met : forall pend okf ts pre suf j tk,
  tr_of pend okf ts = pre ++ suf -> nth_error ts j = Some tk ->
  short tk (released_of ts pre) = false ->
  forall ev, In ev suf -> ev_rt ev <> j.
Proof. exact model_stop_when_met. Qed.
Print Assumptions c11_stop_when_met.

(* a pod found already evicted counts in full and is never handed to Evict afterwards *)
Theorem c11_pending_counted : forall pend okf ts pre j k suf e,
  tr_of pend okf ts = pre ++ EPending j k :: suf -> entry_at ts j k = Some e ->
  (forall t r, released_of ts (pre ++ [EPending j k]) t r
               = released_of ts pre t r + agg (funcs_of ts) e t r)
  /\ (forall ev e', In ev suf -> ev_entry ts ev = Some e' -> e_pod e' <> e_pod e).
Proof. exact model_pending_counted. Qed.
Print Assumptions c11_pending_counted.

(* a task already covered by what earlier tasks released makes no call at all *)
Theorem c11_cross_task : forall pend okf ts j tk,
  nth_error ts j = Some tk ->
  short tk (released_of ts (filter (before_task j) (tr_of pend okf ts))) = false ->
  forall ev, In ev (tr_of pend okf ts) -> ev_j ev <> j.
Proof. exact model_cross_task. Qed.
Print Assumptions c11_cross_task.

(* the returned ReleaseList / flag are exactly the recomputation from the trace *)
Theorem c11_account : forall pend okf ts,
  (forall t r, s_rel (st_of pend okf ts) t r = released_of ts (tr_of pend okf ts) t r)
  /\ s_newly (st_of pend okf ts) = existsb is_success (tr_of pend okf ts).
Proof. exact model_account_full. Qed.
Print Assumptions c11_account.

(* eviction does not stop early either: a task still short at the end has had every element of
   its list evicted, found already evicted, skipped as taken, or refused by the executor *)
Theorem c11_exhaustive : forall pend okf ts j tk k e,
  nth_error ts j = Some tk -> nth_error (t_pods tk) k = Some e ->
  short tk (s_rel (st_of pend okf ts)) = true ->
  In (e_pod e) (s_done (st_of pend okf ts))
  \/ In (EEvict j j k false) (tr_of pend okf ts).
Proof. exact model_exhaustive. Qed.
Print Assumptions c11_exhaustive.

(* ---------- strategy level (memoryEvict / cpuEvict): eligibility and published order ---------- *)
(* the by-priority victim lists (MemoryEvict, MemoryAllocatableEvict, CPUEvict,
   CPUAllocatableEvict) contain exactly the eligible pods ... *)
Theorem c11_eligible : forall f thr sub pods p,
  In p (build_prio f thr sub pods) <->
  In p pods /\ p_active p = true /\ allow f p = true /\ eff_prio p <= thr
  /\ p_enabled p = true /\ p_hasmetric p = true.
Proof. exact build_prio_in_spec. Qed.
Print Assumptions c11_eligible.

(* ... and are sorted by eviction priority, priority, label priority, then usage/request
   (descending); no pod twice *)
Theorem c11_published_order : forall f thr sub pods,
  NoDup (map p_id pods) ->
  StronglySorted (fun a b => prio_leb sub a b = true) (build_prio f thr sub pods)
  /\ list_ok (eligible_prio f thr) (prio_less sub) (build_prio f thr sub pods).
Proof. exact (fun f thr sub pods H => conj (build_prio_sorted f thr sub pods) (build_prio_list_ok f thr sub pods H)). Qed.
Print Assumptions c11_published_order.

(* the best-effort lists (BEMemoryEvict, BECPUEvict) contain exactly the BE pods that did not
   opt out *)
Theorem c11_eligible_be : forall f pods p,
  (In p (build_be_mem f pods) <-> In p pods /\ p_be p = true /\ allow f p = true)
  /\ (In p (build_be_cpu f pods) <-> In p pods /\ p_be p = true /\ allow f p = true).
Proof. exact build_be_in_spec. Qed.
Print Assumptions c11_eligible_be.

(* BEMemoryEvict's list is sorted by (priority, usage desc with metric-less pods last, name)
   when every pod carries a spec.priority; partial: the BECPUEvict comparator (float64
   usage/request ratio) is only checked on the implementation's lists, not proved transitive *)
Theorem c11_be_order_partial : forall f pods,
  NoDup (map p_id pods) -> (forall p, In p pods -> p_prionil p = false) ->
  list_ok (eligible_be f) be_mem_less (build_be_mem f pods).
Proof. exact build_be_mem_list_ok. Qed.
Print Assumptions c11_be_order_partial.

(* end to end: whatever the executor does, every Evict call / already-evicted hit of
   memoryEvict and cpuEvict concerns a pod of the node that the calling feature may take *)
Theorem c11_victims_eligible_mem : forall c pods pend okf pre ev suf,
  fst (kill_and_evict pend okf (to_tasks (mem_ptasks c pods))) = pre ++ ev :: suf ->
  exists pt i, nth_error (mem_ptasks c pods) (ev_rt ev) = Some pt
               /\ nth_error (pt_infos pt) (ev_k ev) = Some i
               /\ In (i_pod i) pods /\ elig_for c (pt_feature pt) (i_pod i) = true.
Proof. exact (fun c pods pend okf => strategy_victims_eligible c pods _ pend okf (mem_ptasks_eligible c pods)). Qed.
Print Assumptions c11_victims_eligible_mem.

Theorem c11_victims_eligible_cpu : forall c b pods pend okf pre ev suf,
  fst (kill_and_evict pend okf (to_tasks (cpu_ptasks c b pods))) = pre ++ ev :: suf ->
  exists pt i, nth_error (cpu_ptasks c b pods) (ev_rt ev) = Some pt
               /\ nth_error (pt_infos pt) (ev_k ev) = Some i
               /\ In (i_pod i) pods /\ elig_for c (pt_feature pt) (i_pod i) = true.
Proof. exact (fun c b pods pend okf => strategy_victims_eligible c pods _ pend okf (cpu_ptasks_eligible c b pods)). Qed.
Print Assumptions c11_victims_eligible_cpu.

(* ---------- BECPUEvict: target by BE CPU satisfaction, credit by containers + sidecars ---------- *)
(* the batch-cpu / mid-cpu a pod holds: the positive requests of its regular containers and of its
   sidecars (init containers with restartPolicy Always); ordinary init containers do not count *)
Theorem c11_held_by_containers : forall ex p sel cs k,
  p_req1 (with_ctrs ex p) = ext_req k_req1 (ctrs_of p ex)
  /\ 0 <= ext_req sel cs
  /\ (k_kind k = 2 -> ext_req sel (cs ++ [k]) = ext_req sel cs + Z.max 0 (sel k))
  /\ (k_kind k = 0 -> ext_req sel (cs ++ [k]) = ext_req sel cs + Z.max 0 (sel k))
  /\ (k_kind k = 1 -> ext_req sel (cs ++ [k]) = ext_req sel cs).
Proof.
  exact (fun ex p sel cs k =>
    conj (with_ctrs_req1 ex p) (conj (ext_req_nonneg sel cs) (conj (ext_req_sidecar sel cs k)
      (conj (ext_req_regular sel cs k) (ext_req_init sel cs k))))).
Qed.
Print Assumptions c11_held_by_containers.

(* the computed target is nothing or one positive amount of batch-cpu *)
Theorem c11_becpu_target_shape : forall c b,
  be_need c b = [] \/ exists v, be_need c b = [(1, v)] /\ 0 < v.
Proof. exact be_need_shape. Qed.
Print Assumptions c11_becpu_target_shape.

(* a target exists only behind every gate: enough samples in the window (the GENERATED
   isAvgQueryResultValid), BE usage high enough against a positive limit on average and now, a
   positive BE request; and it never exceeds what the window average alone asks for *)
Theorem c11_becpu_target_gated : forall c b v,
  be_need c b = [(1, v)] ->
  let avg_req := mvalue b (b_avg_req b) in
  let avg_lim := be_limit c b (mvalue b (b_avg_limit b)) in
  let cur_lim := be_limit c b (mvalue b (b_cur_limit b)) in
  be_data_ok b = true
  /\ be_usage_high b (mvalue b (b_avg_usage b)) avg_lim = true
  /\ be_usage_high b (mvalue b (b_cur_usage b)) cur_lim = true
  /\ 0 < fst avg_lim /\ 0 < fst cur_lim /\ 0 < fst avg_req
  /\ 0 < v <= be_sat_release b avg_req avg_lim.
Proof. exact be_need_gated. Qed.
Print Assumptions c11_becpu_target_gated.

Theorem c11_becpu_data_gate : forall b,
  be_data_ok b = true <->
  Z.quot (be_window b) 3
  <= Z.min (mcount (b_avg_usage b)) (Z.min (mcount (b_avg_req b)) (mcount (b_avg_limit b)))
     * b_interval b.
Proof. exact be_data_ok_iff. Qed.
Print Assumptions c11_becpu_data_gate.

(* end to end through cpuEvict with BECPUEvict's task present (target v), for every executor:
   what the loop has released under (request, batch-cpu) is exactly the batch-cpu held by the
   counted pods (evicted or found terminating, of ANY task), read from the pod descriptions ... *)
Theorem c11_becpu_credit : forall c b pods v,
  c_cap c <=? 0 = false -> feat c 0 && be_cfg_ok b = true -> be_need c b = [(1, v)] ->
  forall tr, released_of (to_tasks (cpu_ptasks c b pods)) tr 1 1
             = sumZ (map (fun ev => if counted ev then held_batch (cpu_ptasks c b pods) ev else 0) tr).
Proof. exact be_released. Qed.
Print Assumptions c11_becpu_credit.

(* ... every BECPUEvict call / hit happens while that is below the target ... *)
Theorem c11_becpu_needed : forall c b pods v,
  c_cap c <=? 0 = false -> feat c 0 && be_cfg_ok b = true -> be_need c b = [(1, v)] ->
  forall pend okf pre ev suf,
  fst (kill_and_evict pend okf (to_tasks (cpu_ptasks c b pods))) = pre ++ ev :: suf ->
  ev_rt ev = 0%nat ->
  sumZ (map (fun ev => if counted ev then held_batch (cpu_ptasks c b pods) ev else 0) pre) < v.
Proof. exact be_needed. Qed.
Print Assumptions c11_becpu_needed.

(* ... and none after it is covered *)
Theorem c11_becpu_stops : forall c b pods v,
  c_cap c <=? 0 = false -> feat c 0 && be_cfg_ok b = true -> be_need c b = [(1, v)] ->
  forall pend okf pre suf,
  fst (kill_and_evict pend okf (to_tasks (cpu_ptasks c b pods))) = pre ++ suf ->
  v <= sumZ (map (fun ev => if counted ev then held_batch (cpu_ptasks c b pods) ev else 0) pre) ->
  forall ev, In ev suf -> ev_rt ev <> 0%nat.
Proof. exact be_stops. Qed.
Print Assumptions c11_becpu_stops.

(* ---------- histories of rounds against the stateful executor (Evictor cache) ---------- *)
(* for every sequence of task tables and every pattern of rejected eviction calls the model's
   history passes clauses 1-5, 7 (pending only if accepted earlier), 8 (results truthful) *)
Theorem c11_hist_model : forall nt nr fails rounds,
  hist_code nt nr [] (model_hist nt nr fails rounds) = 0
  /\ (hist_prop_code nt nr (model_hist nt nr fails rounds) = 0
      \/ hist_prop_code nt nr (model_hist nt nr fails rounds) = 6).
Proof. exact (fun nt nr fails rounds => conj (hist_code_model nt nr fails rounds) (hist_prop_code_model nt nr fails rounds)). Qed.
Print Assumptions c11_hist_model.

(* what the decision procedure establishes on ANY observed history: every round is safe, a pod
   is counted as pending release only if an eviction call for it was accepted in an earlier
   round, and the accepted API calls are exactly the successful Evict events *)
Theorem c11_pending_only_after_accept : forall nt nr h,
  hist_code nt nr [] h = 0 ->
  forall pre r suf, h = pre ++ r :: suf ->
    C11_safe (r_tasks r) nt nr (r_obs r)
    /\ (forall j k, In (EPending j k) (o_events (r_obs r)) ->
          In (ev_pod (r_tasks r) (EPending j k)) (accepted_before pre))
    /\ r_api r = accepted (r_tasks r) (o_events (r_obs r)).
Proof. exact (fun nt nr h H => hist_code_sound nt nr h [] H). Qed.
Print Assumptions c11_pending_only_after_accept.

(* hence (with clause 5, returned ReleaseList = release of the counted events) a target reported
   covered is covered by pods whose eviction the API accepted, in this round or an earlier one *)
Theorem c11_covered_by_accepted : forall nt nr h,
  hist_code nt nr [] h = 0 ->
  forall pre r suf ev, h = pre ++ r :: suf -> In ev (o_events (r_obs r)) -> counted ev = true ->
    In (ev_pod (r_tasks r) ev) (accepted_before (pre ++ [r])).
Proof. exact counted_accepted. Qed.
Print Assumptions c11_covered_by_accepted.

(* D6 (known finding): the full-strength clause "every victim releases something its task is
   still short of" is FALSE of the faithful model *)
Theorem c11_useful_victims_refuted :
  exists ts pend okf,
    let o := obs_of 2 4 ts (kill_and_evict pend okf ts) in
    o_events o = [EEvict 0 0 0 true; EEvict 0 0 1 true]
    /\ safe_code ts 2 4 o = 0 /\ useful_code ts o = 6.
Proof. exact useful_refuted. Qed.
Print Assumptions c11_useful_victims_refuted.

(* non-vacuity: a run with two tasks sharing a target, a pending pod, a failing call *)
Example c11_nonvacuous :
  let ts := [mkTask 0 [(0, 5)] [mkEntry 1 [[(0, 2)]; [(0, 3)]]; mkEntry 2 [[(0, 2)]; [(0, 1)]];
                                mkEntry 3 [[(0, 9)]; [(0, 9)]]];
             mkTask 0 [(0, 6)] [mkEntry 3 [[(0, 9)]; [(0, 9)]]; mkEntry 4 [[(0, 1)]; [(0, 1)]]]] in
  tr_of (fun _ p => p =? 2) (fun n _ => negb (Nat.eqb n 0)) ts
  = [EEvict 0 0 0 false; EPending 0 1; EEvict 0 0 2 true].
Proof. vm_compute. reflexivity. Qed.

(* non-vacuity of the BECPUEvict theorems: request 8000, real limit 2800 (satisfaction 35 % <= 40 %),
   upper bound 80 % -> target 3600; the first BE pod holds 1000 + 3000 (sidecar) *)
Example c11_becpu_nonvacuous :
  let m v := mkBm true v 4 in
  let b := mkBecfg false true 40 true 80 false 0 false 0 1 0
                   (m 2700) (m 8000) (m 2800) (m 2700) (m 8000) (m 2800) in
  let c := mkEcfg true 16000 false 0 false 0 false 0 false 0 false 0 false 0 false 0
                  [16000; 8000; -1] [true; false; false] in
  let pod id prio used r1 := mkEpod id true true (-1) false prio false 0 false 0 true used 0 r1 0 in
  let pods := map (with_ctrs [mkCtr 2 2 0 3000 0])
                  [pod 1 5002 600 2000; pod 2 5000 1500 1000; pod 3 5001 600 2000] in
  be_need c b = [(1, 3600)]
  /\ map (fun pt => map (fun i => p_id (i_pod i)) (pt_infos pt)) (cpu_ptasks c b pods) = [[2; 3; 1]]
  /\ fst (kill_and_evict (fun _ _ => false) (fun _ _ => true) (to_tasks (cpu_ptasks c b pods)))
     = [EEvict 0 0 0 true].
Proof. vm_compute. repeat split. Qed.

