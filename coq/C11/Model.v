(* C11 — model of the ordered, target-bounded eviction loop shared by all evict strategies:
   KillAndEvictPods / subReleaseListNoNegative / mergeResourceListByMax / addResource
   (pkg/koordlet/qosmanager/plugins/util/evict.go:119-379).
   Executable, total, no proofs in this file.

   Quantities are unbounded Z (resource.Quantity arithmetic is exact).  A ResourceList is an
   association list (first binding wins); an absent key reads as 0, which is what every use in
   the loop does (Cmp against MustParse("0")), except len(ToReleaseResource)==0, kept as [is_nil].

   The executor is an ORACLE, universally quantified in the theorems:
     pend n p : answer of the n-th IsPodEvicted query of this call, asked about pod p
     okf  n p : result of the n-th Evict call of this call, issued for pod p                 *)
From Coq Require Import List ZArith Bool.
Import ListNotations.
Open Scope Z_scope.

Notation pod := Z.      (* rank of the pod key namespace/name *)
Notation rname := Z.    (* resource name id *)
Notation target := Z.   (* ReleaseTargetType id *)
Notation rvec := (list (rname * Z)).

Fixpoint rget (r : rname) (l : rvec) : Z :=
  match l with
  | [] => 0
  | kv :: t => if fst kv =? r then snd kv else rget r t
  end.

(* one element of SortedEvictPods.  [e_rel] tabulates, for every task index i of the call, what
   task i's GetPodResourceFunc returns on THIS PodEvictInfo (the loop applies every registered
   task's function to every info it processes, whoever built the info). *)
Record entry := mkEntry { e_pod : pod; e_rel : list rvec }.

Record task := mkTask { t_target : target; t_need : rvec; t_pods : list entry }.

Definition is_nil {A} (l : list A) : bool := match l with [] => true | _ => false end.
Definition memZ (x : Z) (l : list Z) : bool := existsb (Z.eqb x) l.

(* some resource of the map has a positive amount (rq.Cmp(0) > 0) *)
Definition has_pos (need : rvec) : bool :=
  existsb (fun kv => 0 <? rget (fst kv) need) need.

(* first loop of KillAndEvictPods: which tasks' GetPodResourceFunc get registered, with the
   release target they report under.  [regd] = keys of releaseTypes so far. *)
Fixpoint reg_funcs (i : nat) (regd : list target) (ts : list task) : list (nat * target) :=
  match ts with
  | [] => []
  | t :: ts' =>
    if is_nil (t_need t) then reg_funcs (S i) regd ts'
    else
      let regd' := if has_pos (t_need t) then t_target t :: regd else regd in
      if memZ (t_target t) regd'
      then (i, t_target t) :: reg_funcs (S i) regd' ts'
      else reg_funcs (S i) regd' ts'
  end.

(* keys of the returned ReleaseList *)
Definition registered (ts : list task) (t : target) : bool :=
  existsb (fun tk => negb (is_nil (t_need tk)) && has_pos (t_need tk) && (t_target tk =? t)) ts.

(* aggregateReleaseFunc: per release target the per-resource MAX over the registered functions
   (mergeResourceListByMax starts from an empty list, so non-positive amounts never enter) *)
Definition agg (fs : list (nat * target)) (e : entry) (t : target) (r : rname) : Z :=
  fold_right (fun f acc => if snd f =? t
                           then Z.max acc (rget r (nth (fst f) (e_rel e) []))
                           else acc) 0 fs.

Notation rel_t := (target -> rname -> Z).
Definition rel0 : rel_t := fun _ _ => 0.
Definition radd (a b : rel_t) : rel_t := fun t r => a t r + b t r.

(* len(subReleaseListNoNegative(task.ToReleaseResource, releasedAll[target])) != 0 *)
Definition short (tk : task) (rel : rel_t) : bool :=
  existsb (fun kv => rel (t_target tk) (fst kv) <? rget (fst kv) (t_need tk)) (t_need tk).

(* what the recording executor sees.  [EEvict rt j k ok]: an Evict call whose reason names task
   rt, for the pod object that is element k of task j's list; the model always has rt = j.
   [EPending j k]: an IsPodEvicted query answered true. *)
Inductive event :=
| EPending (j k : nat)
| EEvict (rt j k : nat) (ok : bool).

Record st := mkSt {
  s_rel : rel_t;          (* releasedAll *)
  s_done : list pod;      (* evictedPodsMp *)
  s_nq : nat;             (* IsPodEvicted queries so far *)
  s_ne : nat;             (* Evict calls so far *)
  s_newly : bool }.       (* newlyEvicted *)

Definition st0 : st := mkSt rel0 [] O O false.

Section Run.
  Variable pend : nat -> pod -> bool.
  Variable okf : nat -> pod -> bool.
  Variable fs : list (nat * target).

  (* inner loop over task j's SortedEvictPods, from element k on *)
  Fixpoint run_pods (j : nat) (tk : task) (k : nat) (es : list entry) (s : st)
    : list event * st :=
    match es with
    | [] => ([], s)
    | e :: es' =>
      if memZ (e_pod e) (s_done s) then run_pods j tk (S k) es' s
      else if pend (s_nq s) (e_pod e) then
        let s' := mkSt (radd (s_rel s) (agg fs e)) (e_pod e :: s_done s)
                       (S (s_nq s)) (s_ne s) (s_newly s) in
        if short tk (s_rel s')
        then let '(evs, s'') := run_pods j tk (S k) es' s' in (EPending j k :: evs, s'')
        else ([EPending j k], s')
      else if okf (s_ne s) (e_pod e) then
        let s' := mkSt (radd (s_rel s) (agg fs e)) (e_pod e :: s_done s)
                       (S (s_nq s)) (S (s_ne s)) true in
        if short tk (s_rel s')
        then let '(evs, s'') := run_pods j tk (S k) es' s' in (EEvict j j k true :: evs, s'')
        else ([EEvict j j k true], s')
      else
        let s' := mkSt (s_rel s) (s_done s) (S (s_nq s)) (S (s_ne s)) (s_newly s) in
        let '(evs, s'') := run_pods j tk (S k) es' s' in (EEvict j j k false :: evs, s'')
    end.

  (* outer loop over the tasks *)
  Fixpoint run_tasks (j : nat) (ts : list task) (s : st) : list event * st :=
    match ts with
    | [] => ([], s)
    | tk :: ts' =>
      if short tk (s_rel s) then
        let '(ev1, s1) := run_pods j tk O (t_pods tk) s in
        let '(ev2, s2) := run_tasks (S j) ts' s1 in (ev1 ++ ev2, s2)
      else run_tasks (S j) ts' s
    end.
End Run.

Definition funcs_of (ts : list task) : list (nat * target) := reg_funcs O [] ts.

Definition kill_and_evict (pend okf : nat -> pod -> bool) (ts : list task) : list event * st :=
  run_tasks pend okf (funcs_of ts) O ts st0.
