(* C11, stream "cpu" — cpuEvict end to end (BECPUEvict, CPUAllocatableEvict, CPUEvict) and its
   three victim-list builders. *)
From Coq Require Import List ZArith Bool.
From Verif Require Import Lib.Wire C11.Model C11.Spec C11.ModelEvict C11.SpecEvict C11.WireEvict.
Import ListNotations.
Open Scope Z_scope.

(* the wire carries the cpu usage samples in milli-cores; the code sees them as float64 cores *)
Definition cfg_of (i : einput) : ecfg := cpu_cfg_sample (ei_cfg i).
Definition pods_of (i : einput) : list epod := map cpu_sample (ei_pods i).

Definition model_eobs (i : einput) : eobs :=
  let c := cfg_of i in let pods := pods_of i in
  mkEobs (map p_id (build_be_cpu 0 pods))
         (if c_aprioF c then map p_id (build_prio 1 (c_aprio c) req pods) else [])
         (if c_evthrF c then map p_id (build_prio 2 (c_evthr c) p_used pods) else [])
         (model_wevs i (cpu_ptasks c (ei_be i) pods)).

Definition run_case (inp : list Z) : list Z := enc_eobs (model_eobs (dec_einput inp)).

Definition lists_code (i : einput) (o : eobs) : Z :=
  let c := cfg_of i in let pods := pods_of i in
  let c0 := list_code (eligible_be 0) be_cpu_less pods (eo_l0 o) in
  let c1 := list_code (eligible_prio 1 (c_aprio c)) (prio_less req) pods (eo_l1 o) in
  let c2 := list_code (eligible_prio 2 (c_evthr c)) (prio_less p_used) pods (eo_l2 o) in
  if negb (c0 =? 0) then c0 else if negb (c1 =? 0) then c1 else c2.

Definition prop_case (inp obs : list Z) : Z :=
  let i := dec_einput inp in
  let o := dec_eobs obs in
  if negb (eq_listZ (enc_eobs o) obs) then 9
  else if negb (lists_code i o =? 0) then lists_code i o
  else strategy_code (cpu_ptasks (cfg_of i) (ei_be i) (pods_of i)) (eo_wevs o).

Definition nontrivial_case (inp : list Z) : bool :=
  (0 <? Z.of_nat (length (eo_wevs (model_eobs (dec_einput inp))))).

(* known finding D6 only when the implementation's WHOLE observable equals the faithful model's *)
Definition finding_sig (inp obs : list Z) : Z :=
  if eq_listZ (run_case inp) obs && (prop_case inp obs =? 6) then 1 else 0.

Require Extraction.
Require Import ExtrOcamlBasic.
Extraction "model.ml" run_case prop_case nontrivial_case finding_sig.
