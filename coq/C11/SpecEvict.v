(* C11 — property clauses for the strategy level (memoryEvict / cpuEvict): what the victim lists
   must satisfy, and how the executor's view of an end-to-end run (Evict calls naming a feature
   and a pod) is read back as events of the loop specification of Spec.v.

   clauses on a victim list (ids as returned by a list builder), relative to the pod set:
     11 eligible   every element is a known pod that the policy allows
     12 ordered    no element is strictly before an earlier one in the published order
     13 distinct   no pod is listed twice                                                  *)
From Coq Require Import List ZArith Bool.
From Verif Require Import Lib.ListX C11.Model C11.Spec C11.ModelEvict.
Import ListNotations.
Open Scope Z_scope.

Definition find_pod (pods : list epod) (id : Z) : option epod :=
  find (fun p => p_id p =? id) pods.

Fixpoint resolve (pods : list epod) (ids : list Z) : option (list epod) :=
  match ids with
  | [] => Some []
  | id :: t => match find_pod pods id, resolve pods t with
               | Some p, Some l => Some (p :: l)
               | _, _ => None
               end
  end.

(* strict "a before b" of the published order for the by-priority lists *)
Definition prio_less (sub : epod -> Z) (a b : epod) : bool :=
  match key3_cmp a b with
  | Lt => true
  | Gt => false
  | Eq => sub b <? sub a
  end.

Fixpoint ordered_by (less : epod -> epod -> bool) (l : list epod) : bool :=
  match l with
  | [] => true
  | a :: t => forallb (fun b => negb (less b a)) t && ordered_by less t
  end.

Fixpoint nodupZ (l : list Z) : bool :=
  match l with
  | [] => true
  | x :: t => negb (memZ x t) && nodupZ t
  end.

Definition list_code (elig : epod -> bool) (less : epod -> epod -> bool)
           (pods : list epod) (ids : list Z) : Z :=
  match resolve pods ids with
  | None => 11
  | Some l => if negb (forallb elig l) then 11
              else if negb (ordered_by less l) then 12
              else if negb (nodupZ ids) then 13
              else 0
  end.

(* Prop form of the list clauses *)
Definition list_ok (elig : epod -> bool) (less : epod -> epod -> bool) (l : list epod) : Prop :=
  (forall p, In p l -> elig p = true)
  /\ (forall pre a mid b suf, l = pre ++ a :: mid ++ b :: suf -> less b a = false)
  /\ NoDup (map p_id l).

(* ---------- reading an end-to-end run back as loop events ---------- *)
(* what the recording executor reports: kind 1 = IsPodEvicted answered true for [pod] (the
   feature is not known to the executor), kind 2 = Evict(pod) with the feature named in the
   reason and the result *)
Record wevent := mkWev { w_kind : Z; w_feat : Z; w_pod : Z; w_ok : bool }.

Definition unknown_idx : nat := 9999.

Fixpoint index_of_pod (id : Z) (es : list entry) : nat :=
  match es with
  | [] => unknown_idx
  | e :: t => if e_pod e =? id then O else S (index_of_pod id t)
  end.

Fixpoint index_of_feat (f : Z) (fs : list Z) : nat :=
  match fs with
  | [] => unknown_idx
  | x :: t => if x =? f then O else S (index_of_feat f t)
  end.

(* the position of an already-evicted hit: the loop is at (lj, lk) or later; it is the first
   position from there on, in a task still short of something, that holds this pod *)
Fixpoint locate_pending (ts : list task) (rel : rel_t) (id : Z) (lj lk : nat)
         (j : nat) (rest : list task) : nat * nat :=
  match rest with
  | [] => (unknown_idx, unknown_idx)
  | tk :: rest' =>
    let k := index_of_pod id (t_pods tk) in
    if (lj <=? j)%nat && short tk rel && (k <? length (t_pods tk))%nat
       && ((lj <? j)%nat || (lk <=? k)%nat)
    then (j, k)
    else locate_pending ts rel id lj lk (S j) rest'
  end.

Fixpoint locate (ts : list task) (feats : list Z) (lj lk : nat) (acc : list event)
         (ws : list wevent) : list event :=
  match ws with
  | [] => acc
  | w :: ws' =>
    if w_kind w =? 1 then
      let '(j, k) := locate_pending ts (released_of ts acc) (w_pod w) lj lk O ts in
      locate ts feats j (S k) (acc ++ [EPending j k]) ws'
    else
      let j := index_of_feat (w_feat w) feats in
      let k := match nth_error ts j with
               | Some tk => index_of_pod (w_pod w) (t_pods tk)
               | None => unknown_idx
               end in
      locate ts feats j (S k) (acc ++ [EEvict j j k (w_ok w)]) ws'
  end.

(* the executor's view of a model run *)
Definition pod_at (ts : list task) (j k : nat) : Z :=
  match entry_at ts j k with Some e => e_pod e | None => -1 end.
Definition wev_of (ts : list task) (feats : list Z) (ev : event) : wevent :=
  match ev with
  | EPending j k => mkWev 1 0 (pod_at ts j k) true
  | EEvict rt j k ok => mkWev 2 (nth rt feats (-1)) (pod_at ts j k) ok
  end.

Definition strategy_code (pts : list ptask) (ws : list wevent) : Z :=
  let ts := to_tasks pts in
  let evs := locate ts (map pt_feature pts) O O [] ws in
  if negb (events_code ts evs =? 0) then events_code ts evs
  else useful_events_code ts evs.
