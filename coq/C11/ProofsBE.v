(* C11 — proofs about BECPUEvict (eviction of best-effort pods by BE CPU satisfaction):
   the computed target is positive and gated, every pod the loop counts is credited with the
   batch-cpu of its regular + sidecar containers, and the end-to-end run stops as soon as the
   credits cover the target. *)
From Coq Require Import List ZArith Bool Lia.
From Verif Require Import Lib.ListX Lib.SortX Lib.SoftF64 Gen.Gen_scores Lib.GenScores
     C11.Model C11.Spec C11.Proofs C11.ModelEvict C11.SpecEvict C11.ProofsEvict.
Import ListNotations.
Open Scope Z_scope.

(* ---------- container summation ---------- *)
Lemma ext_req_nonneg sel cs : 0 <= ext_req sel cs.
Proof.
  induction cs as [|k t IH]; cbn [ext_req fold_right]; [lia|].
  fold (ext_req sel t). destruct (runs_along k); lia.
Qed.

Lemma ext_req_app sel a b : ext_req sel (a ++ b) = ext_req sel a + ext_req sel b.
Proof.
  induction a as [|k t IH]; cbn [ext_req fold_right app]; [reflexivity|].
  fold (ext_req sel (t ++ b)) (ext_req sel t). rewrite IH. lia.
Qed.

(* a sidecar counts in full, an ordinary init container not at all *)
Lemma ext_req_sidecar sel cs k :
  k_kind k = 2 -> ext_req sel (cs ++ [k]) = ext_req sel cs + Z.max 0 (sel k).
Proof.
  intros Hk. rewrite ext_req_app. cbn [ext_req fold_right]. unfold runs_along. rewrite Hk.
  cbn. lia.
Qed.
Lemma ext_req_regular sel cs k :
  k_kind k = 0 -> ext_req sel (cs ++ [k]) = ext_req sel cs + Z.max 0 (sel k).
Proof.
  intros Hk. rewrite ext_req_app. cbn [ext_req fold_right]. unfold runs_along. rewrite Hk.
  cbn. lia.
Qed.
Lemma ext_req_init sel cs k :
  k_kind k = 1 -> ext_req sel (cs ++ [k]) = ext_req sel cs.
Proof.
  intros Hk. rewrite ext_req_app. cbn [ext_req fold_right]. unfold runs_along. rewrite Hk.
  cbn. lia.
Qed.

Lemma with_ctrs_req1 ex p : p_req1 (with_ctrs ex p) = ext_req k_req1 (ctrs_of p ex).
Proof. reflexivity. Qed.
Lemma with_ctrs_req1_nonneg ex p : 0 <= p_req1 (with_ctrs ex p).
Proof. rewrite with_ctrs_req1. apply ext_req_nonneg. Qed.

(* ---------- the satisfaction target ---------- *)
Lemma be_data_ok_iff b :
  be_data_ok b = true <->
  Z.quot (be_window b) 3
  <= Z.min (mcount (b_avg_usage b)) (Z.min (mcount (b_avg_req b)) (mcount (b_avg_limit b)))
     * b_interval b.
Proof. unfold be_data_ok. apply avg_valid_iff. Qed.

(* more samples never invalidate a window *)
Lemma be_data_ok_monotone w i n n' :
  0 <= i -> n <= n' ->
  cpuevict_isAvgQueryResultValid w i n = true -> cpuevict_isAvgQueryResultValid w i n' = true.
Proof. apply avg_valid_monotone. Qed.

Lemma be_usage_high_limit_pos b u l : be_usage_high b u l = true -> 0 < fst l.
Proof.
  unfold be_usage_high. rewrite fleb_f0. destruct (Z.leb_spec (fst l) 0); [discriminate|lia].
Qed.

Lemma be_sat_release_pos b rq l :
  0 < be_sat_release b rq l ->
  0 < fst rq
  /\ fltb (fdiv (f_of_int (b_low b)) f100) (fdiv l rq) = false
  /\ 0 < fst (fsub (fdiv (f_of_int (b_up b)) f100) (fdiv l rq)).
Proof.
  unfold be_sat_release. rewrite !fleb_f0.
  destruct (Z.leb_spec (fst rq) 0); [lia|].
  destruct (fltb (fdiv (f_of_int (b_low b)) f100) (fdiv l rq)); [lia|].
  destruct (Z.leb_spec (fst (fsub (fdiv (f_of_int (b_up b)) f100) (fdiv l rq))) 0); [lia|].
  intros _. repeat split; lia.
Qed.

(* the target is a single positive amount of batch-cpu ... *)
Lemma be_need_shape c b : be_need c b = [] \/ exists v, be_need c b = [(1, v)] /\ 0 < v.
Proof.
  unfold be_need.
  destruct (negb (be_data_ok b)); [left; reflexivity|].
  destruct (negb (be_usage_high b _ _)); [left; reflexivity|].
  match goal with |- context [?x <=? 0] => destruct (Z.leb_spec x 0) as [Hr|Hr] end;
    [left; reflexivity|].
  destruct (negb (be_usage_high b _ _)); [left; reflexivity|].
  destruct (feqb _ _ && feqb _ _); [right; eexists; split; [reflexivity|lia]|].
  match goal with |- context [?x <=? 0] => destruct (Z.leb_spec x 0) as [Hr'|Hr'] end;
    [left; reflexivity|].
  right. eexists. split; [reflexivity|lia].
Qed.

(* ... that exists only behind every gate of the code: enough samples in the window, BE usage
   high enough against a positive limit on average and now, a positive BE request, and it is
   never more than what the window average alone asks for *)
Lemma be_need_gated c b v :
  be_need c b = [(1, v)] ->
  let avg_req := mvalue b (b_avg_req b) in
  let avg_lim := be_limit c b (mvalue b (b_avg_limit b)) in
  let cur_lim := be_limit c b (mvalue b (b_cur_limit b)) in
  be_data_ok b = true
  /\ be_usage_high b (mvalue b (b_avg_usage b)) avg_lim = true
  /\ be_usage_high b (mvalue b (b_cur_usage b)) cur_lim = true
  /\ 0 < fst avg_lim /\ 0 < fst cur_lim /\ 0 < fst avg_req
  /\ 0 < v <= be_sat_release b avg_req avg_lim.
Proof.
  unfold be_need. cbv zeta.
  destruct (be_data_ok b); cbn [negb]; [|discriminate].
  destruct (be_usage_high b (mvalue b (b_avg_usage b)) _) eqn:Hu; cbn [negb]; [|discriminate].
  match goal with |- context [?x <=? 0] => destruct (Z.leb_spec x 0) as [Hr|Hr] end;
    [discriminate|].
  destruct (be_usage_high b (mvalue b (b_cur_usage b)) _) eqn:Hu'; cbn [negb]; [|discriminate].
  pose proof (be_usage_high_limit_pos _ _ _ Hu) as Hl.
  pose proof (be_usage_high_limit_pos _ _ _ Hu') as Hl'.
  destruct (be_sat_release_pos _ _ _ Hr) as [Hq _].
  destruct (feqb _ _ && feqb _ _).
  - intros H. inversion H; subst. repeat split; try assumption; lia.
  - match goal with |- context [?x <=? 0] => destruct (Z.leb_spec x 0) as [Hr'|Hr'] end;
      [discriminate|].
    intros H. inversion H; subst. repeat split; try assumption; lia.
Qed.

(* ---------- what a counted pod is credited with ---------- *)
Lemma has_pos_single r v : has_pos [(r, v)] = (0 <? v).
Proof. unfold has_pos. cbn. rewrite Z.eqb_refl. apply orb_false_r. Qed.

Lemma alloc_rel_1 need p : rget 1 (alloc_rel need p) = 0 \/ rget 1 (alloc_rel need p) = p_req1 p.
Proof.
  unfold alloc_rel, req.
  destruct (negb (rsrc p =? 0) && has_key (rsrc p) need); [|left; reflexivity].
  cbn [rget fst snd].
  destruct (Z.eqb_spec (rsrc p) 1) as [E|E]; [|left; reflexivity].
  right. rewrite E. reflexivity.
Qed.

Definition be_ptask (c : ecfg) (b : becfg) (pods : list epod) : ptask :=
  mkPtask 0 1 (be_need c b) RelBatchReq
          (map (fun p => mkInfo p (becpu_used p)) (build_be_cpu 0 pods)).

(* when BECPUEvict contributes a task it is the first one *)
Lemma cpu_ptasks_be c b pods :
  c_cap c <=? 0 = false -> feat c 0 && be_cfg_ok b && negb (is_nil (be_need c b)) = true ->
  exists rest, cpu_ptasks c b pods = be_ptask c b pods :: rest
               /\ forall pt, In pt rest -> pt_feature pt <> 0
                  /\ (pt_target pt = 1 -> exists need, pt_rel pt = RelAlloc need)
                  /\ pt_need pt <> [].
Proof.
  intros Hcap Hbe. unfold cpu_ptasks. rewrite Hcap, Hbe. cbn [app].
  eexists. split; [reflexivity|].
  intros pt Hin. apply in_app_or in Hin. destruct Hin as [Hin|Hin].
  - destruct (feat c 1 && alloc_cfg_ok c && negb (is_nil (alloc_need true c pods))) eqn:Hg;
      [|destruct Hin].
    destruct Hin as [<-|[]]. cbn. split; [lia|]. split; [eauto|].
    apply andb_true_iff in Hg. destruct Hg as [_ Hn].
    destruct (alloc_need true c pods); [discriminate|discriminate].
  - destruct (feat c 2 && used_cfg_ok c && c_evthrF c && negb (is_nil (used_need c))) eqn:Hg;
      [|destruct Hin].
    destruct Hin as [<-|[]]. cbn. split; [lia|]. split; [discriminate|].
    apply andb_true_iff in Hg. destruct Hg as [_ Hn].
    destruct (used_need c); [discriminate|discriminate].
Qed.

(* folding the functions registered for target 1 that belong to allocatable tasks *)
Lemma fold_alloc_credit (pts : list ptask) (i : info) (fs : list (nat * target)) :
  (forall f, In f fs -> snd f = 1 ->
     exists pt need, nth_error pts (fst f) = Some pt /\ pt_rel pt = RelAlloc need) ->
  let rels := map (fun pt' => apply_rel (pt_rel pt') i) pts in
  let x := fold_right (fun f acc0 => if snd f =? 1
                                     then Z.max acc0 (rget 1 (nth (fst f) rels []))
                                     else acc0) 0 fs in
  x = 0 \/ x = Z.max 0 (p_req1 (i_pod i)).
Proof.
  intros Hfs rels. cbv zeta.
  induction fs as [|f fs' IH]; cbn [fold_right]; [left; reflexivity|].
  assert (IH' : forall f0, In f0 fs' -> snd f0 = 1 ->
            exists pt need, nth_error pts (fst f0) = Some pt /\ pt_rel pt = RelAlloc need)
    by (intros f0 Hf0; apply Hfs; right; exact Hf0).
  specialize (IH IH').
  destruct (Z.eqb_spec (snd f) 1) as [Ef|Ef]; [|exact IH].
  destruct (Hfs f (or_introl eq_refl) Ef) as [pt [need [Hnth Hrel]]].
  subst rels.
  rewrite (nth_indep _ [] (apply_rel (pt_rel pt) i)).
  2:{ rewrite map_length. apply nth_error_Some. rewrite Hnth. discriminate. }
  rewrite (map_nth (fun pt' => apply_rel (pt_rel pt') i)).
  erewrite nth_error_nth by exact Hnth. rewrite Hrel. cbn [apply_rel].
  destruct (alloc_rel_1 need (i_pod i)) as [-> | ->]; destruct IH as [-> | ->]; lia.
Qed.

(* functions registered for target 1 by tasks that, when they report under target 1, are
   allocatable tasks *)
Lemma reg_alloc_only (mk : ptask -> task) :
  (forall pt, t_target (mk pt) = pt_target pt /\ t_need (mk pt) = pt_need pt) ->
  forall (l : list ptask) k regd,
  (forall pt, In pt l -> (pt_target pt = 1 -> exists need, pt_rel pt = RelAlloc need)
                         /\ pt_need pt <> []) ->
  forall f, In f (reg_funcs k regd (map mk l)) -> snd f = 1 ->
  exists pt need, nth_error l (fst f - k) = Some pt /\ (k <= fst f)%nat
                  /\ pt_rel pt = RelAlloc need.
Proof.
  intros Hmk. induction l as [|pt l IHl]; intros k regd Hl f0 Hf0 Hs0; [destruct Hf0|].
  cbn [map reg_funcs] in Hf0. destruct (Hmk pt) as [Ht Hn]. rewrite Ht, Hn in Hf0.
  destruct (Hl pt (or_introl eq_refl)) as [Hrel Hne].
  destruct (pt_need pt) as [|kv need'] eqn:Hneed; [congruence|]. cbn [is_nil] in Hf0.
  assert (Hl' : forall pt0, In pt0 l ->
            (pt_target pt0 = 1 -> exists need, pt_rel pt0 = RelAlloc need) /\ pt_need pt0 <> [])
    by (intros pt0 H0; apply Hl; right; exact H0).
  match type of Hf0 with In _ (if ?g then _ else _) => destruct g end.
  - destruct Hf0 as [<-|Hf0].
    + cbn [fst snd] in *. destruct (Hrel Hs0) as [need Hr]. exists pt, need.
      rewrite Nat.sub_diag. split; [reflexivity|]. split; [lia|exact Hr].
    + destruct (IHl (S k) _ Hl' f0 Hf0 Hs0) as [pt0 [need [Hn0 [Hk Hr]]]].
      exists pt0, need. replace (fst f0 - k)%nat with (S (fst f0 - S k))%nat by lia.
      split; [exact Hn0|]. split; [lia|exact Hr].
  - destruct (IHl (S k) _ Hl' f0 Hf0 Hs0) as [pt0 [need [Hn0 [Hk Hr]]]].
    exists pt0, need. replace (fst f0 - k)%nat with (S (fst f0 - S k))%nat by lia.
    split; [exact Hn0|]. split; [lia|exact Hr].
Qed.

(* the registered functions of a task list whose first task is the BE task: under the release
   target "request" (1) they are BECPUEvict's closure and possibly CPUAllocatableEvict's, and
   every pod the loop asks about is credited, in batch-cpu, with exactly the positive requests of
   its regular and sidecar containers *)
Lemma agg_be_credit c b pods rest i :
  (exists v, be_need c b = [(1, v)] /\ 0 < v) ->
  (forall pt, In pt rest -> (pt_target pt = 1 -> exists need, pt_rel pt = RelAlloc need)
                            /\ pt_need pt <> []) ->
  let pts := be_ptask c b pods :: rest in
  let e := mkEntry (p_id (i_pod i)) (map (fun pt' => apply_rel (pt_rel pt') i) pts) in
  agg (funcs_of (to_tasks pts)) e 1 1 = Z.max 0 (p_req1 (i_pod i)).
Proof.
  intros [v [Hn Hv]] Hrest pts e.
  unfold funcs_of, to_tasks. subst pts.
  cbn [map reg_funcs be_ptask pt_need pt_target t_need t_target].
  rewrite Hn. cbn [is_nil]. rewrite has_pos_single.
  destruct (Z.ltb_spec 0 v); [|lia]. cbn [memZ existsb]. rewrite Z.eqb_refl. cbn [orb].
  unfold agg. cbn [fold_right fst snd]. rewrite Z.eqb_refl.
  subst e. cbn [e_rel].
  match goal with |- Z.max ?X ?Y = _ => set (x := X); set (y := Y) end.
  assert (Hy : y = p_req1 (i_pod i)).
  { subst y. cbn [map nth be_ptask pt_rel apply_rel rget fst snd]. rewrite Z.eqb_refl. reflexivity. }
  assert (Hx : x = 0 \/ x = Z.max 0 (p_req1 (i_pod i))).
  { subst x.
    apply (fold_alloc_credit (be_ptask c b pods :: rest) i).
    intros f Hf Hs.
    match type of Hf with In _ (reg_funcs _ _ (map ?mk _)) =>
      destruct (reg_alloc_only mk (fun pt => conj eq_refl eq_refl) rest 1%nat [1] Hrest f Hf Hs)
        as [pt [need [Hnth [Hk Hr]]]]
    end.
    exists pt, need. split; [|exact Hr].
    destruct (fst f) as [|n]; [inversion Hk|]. cbn [nth_error].
    cbn [Nat.sub] in Hnth. rewrite Nat.sub_0_r in Hnth. exact Hnth. }
  rewrite Hy. destruct Hx as [-> | ->]; lia.
Qed.

(* ---------- end to end ---------- *)
Lemma entry_at_to_tasks_eq pts j k :
  entry_at (to_tasks pts) j k =
  match nth_error pts j with
  | Some pt => match nth_error (pt_infos pt) k with
               | Some i => Some (mkEntry (p_id (i_pod i))
                                         (map (fun pt' => apply_rel (pt_rel pt') i) pts))
               | None => None
               end
  | None => None
  end.
Proof.
  unfold entry_at, to_tasks. rewrite nth_error_map.
  destruct (nth_error pts j) as [pt|]; cbn [option_map]; [|reflexivity].
  cbn [t_pods]. rewrite nth_error_map.
  destruct (nth_error (pt_infos pt) k); reflexivity.
Qed.

(* the batch-cpu held by the pod an event is about, read from the pod description alone *)
Definition held_batch (pts : list ptask) (ev : event) : Z :=
  match nth_error pts (ev_j ev) with
  | Some pt => match nth_error (pt_infos pt) (ev_k ev) with
               | Some i => Z.max 0 (p_req1 (i_pod i))
               | None => 0
               end
  | None => 0
  end.

Section BERun.
  Variables (c : ecfg) (b : becfg) (pods : list epod) (v : Z).
  Hypothesis Hcap : c_cap c <=? 0 = false.
  Hypothesis Hon : feat c 0 && be_cfg_ok b = true.
  Hypothesis Hneed : be_need c b = [(1, v)].

  Let pts := cpu_ptasks c b pods.
  Let ts := to_tasks pts.

  Lemma be_v_pos : 0 < v.
  Proof.
    destruct (be_need_shape c b) as [E|[v' [E Hv]]]; rewrite Hneed in E; [discriminate|].
    inversion E; subst. exact Hv.
  Qed.

  Lemma be_first : exists rest,
    pts = be_ptask c b pods :: rest
    /\ forall pt, In pt rest -> (pt_target pt = 1 -> exists need, pt_rel pt = RelAlloc need)
                               /\ pt_need pt <> [].
  Proof.
    assert (Hg : feat c 0 && be_cfg_ok b && negb (is_nil (be_need c b)) = true)
      by (rewrite Hon, Hneed; reflexivity).
    destruct (cpu_ptasks_be c b pods Hcap Hg) as [rest [E Hr]].
    exists rest. split; [exact E|]. intros pt Hin. destruct (Hr pt Hin) as [_ [H1 H2]]. tauto.
  Qed.

  (* every event's pod is credited, under target "request" / resource batch-cpu, with exactly the
     batch-cpu its regular and sidecar containers hold *)
  Lemma be_contrib ev : contrib ts ev 1 1 = if counted ev then held_batch pts ev else 0.
  Proof.
    unfold contrib, held_batch, ev_entry. destruct (counted ev); [|reflexivity].
    unfold ts. rewrite entry_at_to_tasks_eq.
    destruct (nth_error pts (ev_j ev)) as [pt|]; [|reflexivity].
    destruct (nth_error (pt_infos pt) (ev_k ev)) as [i|]; [|reflexivity].
    destruct be_first as [rest [E Hr]]. fold pts. rewrite E.
    apply (agg_be_credit c b pods rest i); [|exact Hr].
    exists v. split; [exact Hneed|exact be_v_pos].
  Qed.

  Lemma be_released tr :
    released_of ts tr 1 1
    = sumZ (map (fun ev => if counted ev then held_batch pts ev else 0) tr).
  Proof.
    unfold released_of. f_equal. apply map_ext. intros ev. apply be_contrib.
  Qed.

  (* BECPUEvict makes no call and counts no pod once the counted pods hold at least the target *)
  Lemma be_stops pend okf pre suf :
    fst (kill_and_evict pend okf ts) = pre ++ suf ->
    v <= sumZ (map (fun ev => if counted ev then held_batch pts ev else 0) pre) ->
    forall ev, In ev suf -> ev_rt ev <> 0%nat.
  Proof.
    intros Heq Hcov.
    destruct be_first as [rest [E _]].
    assert (Hnth : nth_error ts 0 = Some (mkTask 1 [(1, v)]
               (map (fun i => mkEntry (p_id (i_pod i))
                                      (map (fun pt' => apply_rel (pt_rel pt') i) pts))
                    (pt_infos (be_ptask c b pods))))).
    { unfold ts, to_tasks. fold pts. rewrite E. cbn [map nth_error be_ptask pt_target pt_need].
      rewrite Hneed. reflexivity. }
    apply (model_stop_when_met pend okf ts pre suf 0%nat _ Heq Hnth).
    unfold short. cbn [t_need t_target existsb fst rget snd]. rewrite Z.eqb_refl.
    rewrite be_released. destruct (Z.ltb_spec (sumZ (map (fun ev => if counted ev then held_batch pts ev else 0) pre)) v); [lia|reflexivity].
  Qed.

  (* and, conversely, every BECPUEvict event happens while they hold less than the target *)
  Lemma be_needed pend okf pre ev suf :
    fst (kill_and_evict pend okf ts) = pre ++ ev :: suf -> ev_rt ev = 0%nat ->
    sumZ (map (fun ev => if counted ev then held_batch pts ev else 0) pre) < v.
  Proof.
    intros Heq Hrt.
    destruct be_first as [rest [E _]].
    assert (Hnth : nth_error ts (ev_rt ev) = Some (mkTask 1 [(1, v)]
               (map (fun i => mkEntry (p_id (i_pod i))
                                      (map (fun pt' => apply_rel (pt_rel pt') i) pts))
                    (pt_infos (be_ptask c b pods))))).
    { rewrite Hrt. unfold ts, to_tasks. fold pts. rewrite E.
      cbn [map nth_error be_ptask pt_target pt_need]. rewrite Hneed. reflexivity. }
    pose proof (model_needed pend okf ts pre ev suf _ Heq Hnth) as Hs.
    unfold short in Hs. cbn [t_need t_target existsb fst rget snd] in Hs.
    rewrite Z.eqb_refl, orb_false_r, be_released in Hs. apply Z.ltb_lt. exact Hs.
  Qed.
End BERun.
