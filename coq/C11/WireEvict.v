(* C11 — wire format shared by the strategy-level streams "mem" and "cpu".
   input :  22 x cfg   enable cap usedok nodeused thrF thr lowerF lower evthrF evthr athrF athr
                       alowerF alower aprioF aprio alloc0 alloc1 alloc2 feat0 feat1 feat2
            n  n x pod id be active pol prionil prio enabled evprio haslab lab hasmetric used
                       req0 req1 req2
            oracle     a (pod){a}  f (0|1){f}  g (0|1){g}          (as in stream "kill")
            optional trailer (absent = no further containers, BECPUEvict unconfigured):
            m  m x ctr pod kind req0 req1 req2      further containers of the pods, in order
                       (kind 0 regular, 1 init, 2 sidecar = init container with restartPolicy Always)
            29 x becfg policy lowF low upF up uthrF uthr winF win interval shift
                       6 x (ok val cnt): avg usage, avg request, avg real limit, last usage, last
                       request, last real limit of the node BE cpu metric (value = val / 2^shift)
   observable : three victim lists  (n (id){n}) x 3   then   E  E x (kind feature pod ok)  *)
From Coq Require Import List ZArith Bool.
From Verif Require Import Lib.Wire C11.Model C11.Spec C11.ModelEvict C11.SpecEvict.
Import ListNotations.
Open Scope Z_scope.

Definition dec_cfg (l : list Z) : ecfg * list Z :=
  match l with
  | a1 :: a2 :: a3 :: a4 :: a5 :: a6 :: a7 :: a8 :: a9 :: a10 :: a11 :: a12 :: a13 :: a14 :: a15
    :: a16 :: a17 :: a18 :: a19 :: a20 :: a21 :: a22 :: t =>
      (mkEcfg (zb a1) a2 (zb a3) a4 (zb a5) a6 (zb a7) a8 (zb a9) a10 (zb a11) a12 (zb a13) a14
              (zb a15) a16 [a17; a18; a19] [zb a20; zb a21; zb a22], t)
  | _ => (mkEcfg false 0 false 0 false 0 false 0 false 0 false 0 false 0 false 0 [] [], [])
  end.

Definition dec_pod (l : list Z) : epod * list Z :=
  match l with
  | a1 :: a2 :: a3 :: a4 :: a5 :: a6 :: a7 :: a8 :: a9 :: a10 :: a11 :: a12 :: a13 :: a14 :: a15 :: t =>
      (mkEpod a1 (zb a2) (zb a3) a4 (zb a5) a6 (zb a7) a8 (zb a9) a10 (zb a11) a12 a13 a14 a15, t)
  | _ => (mkEpod 0 false false 0 false 0 false 0 false 0 false 0 0 0 0, [])
  end.

Definition dec_ctr (l : list Z) : ctr * list Z :=
  match l with
  | a1 :: a2 :: a3 :: a4 :: a5 :: t => (mkCtr a1 a2 a3 a4 a5, t)
  | _ => (mkCtr 0 0 0 0 0, [])
  end.

Definition dec_bm (l : list Z) : bmetric * list Z :=
  match l with
  | a1 :: a2 :: a3 :: t => (mkBm (zb a1) a2 a3, t)
  | _ => (mkBm false 0 0, [])
  end.

Definition dec_becfg (l : list Z) : becfg :=
  match l with
  | a1 :: a2 :: a3 :: a4 :: a5 :: a6 :: a7 :: a8 :: a9 :: a10 :: a11 :: t =>
      let '(m1, t1) := dec_bm t in
      let '(m2, t2) := dec_bm t1 in
      let '(m3, t3) := dec_bm t2 in
      let '(m4, t4) := dec_bm t3 in
      let '(m5, t5) := dec_bm t4 in
      let '(m6, _) := dec_bm t5 in
      mkBecfg (zb a1) (zb a2) a3 (zb a4) a5 (zb a6) a7 (zb a8) a9 a10 a11 m1 m2 m3 m4 m5 m6
  | _ => let m := mkBm false 0 0 in
         mkBecfg false false 0 false 0 false 0 false 0 0 0 m m m m m m
  end.

Record einput := mkEinput {
  ei_cfg : ecfg; ei_pods : list epod;
  ei_already : list Z; ei_flips : list Z; ei_fails : list Z; ei_be : becfg }.

Definition dec_einput (inp : list Z) : einput :=
  let '(c, r0) := dec_cfg inp in
  let '(ps, r1) := decode_seq dec_pod r0 in
  let '(al, r2) := take_list r1 in
  let '(fl, r3) := take_list r2 in
  let '(fa, r4) := take_list r3 in
  let '(ex, r5) := decode_seq dec_ctr r4 in
  mkEinput c (map (with_ctrs ex) ps) al fl fa (dec_becfg r5).

Definition pend_of (i : einput) : nat -> pod -> bool :=
  fun n p => xorb (memZ p (ei_already i)) (zb (nth n (ei_flips i) 0)).
Definition okf_of (i : einput) : nat -> pod -> bool :=
  fun n _ => negb (zb (nth n (ei_fails i) 0)).

Definition zn (n : nat) : Z := Z.of_nat n.
Definition enc_ids (l : list epod) : list Z := zn (length l) :: map p_id l.
Definition enc_wev (w : wevent) : list Z := [w_kind w; w_feat w; w_pod w; bz (w_ok w)].
Definition enc_wevs (ws : list wevent) : list Z := zn (length ws) :: flat_map enc_wev ws.

Fixpoint dec_wevs (n : nat) (l : list Z) : list wevent * list Z :=
  match n, l with
  | S n', k :: f :: p :: ok :: t =>
      let '(ws, r) := dec_wevs n' t in (mkWev k f p (zb ok) :: ws, r)
  | _, _ => ([], l)
  end.

Record eobs := mkEobs { eo_l0 : list Z; eo_l1 : list Z; eo_l2 : list Z; eo_wevs : list wevent }.

Definition dec_eobs (l : list Z) : eobs :=
  let '(l0, r0) := take_list l in
  let '(l1, r1) := take_list r0 in
  let '(l2, r2) := take_list r1 in
  match r2 with
  | n :: t => mkEobs l0 l1 l2 (fst (dec_wevs (Z.to_nat n) t))
  | [] => mkEobs l0 l1 l2 []
  end.

Definition enc_eobs (o : eobs) : list Z :=
  encode_list (eo_l0 o) ++ encode_list (eo_l1 o) ++ encode_list (eo_l2 o) ++ enc_wevs (eo_wevs o).

(* the executor's view of the model's end-to-end run *)
Definition model_wevs (i : einput) (pts : list ptask) : list wevent :=
  let ts := to_tasks pts in
  map (wev_of ts (map pt_feature pts)) (fst (kill_and_evict (pend_of i) (okf_of i) ts)).
