(* C11 — the property of the eviction loop as Props over (tasks, observable) and its decision
   procedure [prop_code] (0 = holds, otherwise the number of the first failing clause).

   The observable of one KillAndEvictPods call is what a recording EvictionExecutor and the
   caller see: the sequence of events (Evict calls with their result, IsPodEvicted queries
   answered true), the returned ReleaseList restricted to a finite universe of release targets
   0..nt-1 and resource names 0..nr-1, and the returned newlyEvicted flag.  The oracle does not
   appear: the events carry its answers, so the clauses below judge ANY executor behaviour.

   Clauses (each is stated for every split  trace = pre ++ ev :: suf):
     1 listed   the victim is an element of the list of the task the call is made for
     2 in_order positions (task index, list index) strictly increase: tasks in order, victims of
                a task in the order of its sorted list, no list element taken twice
     3 fresh    the pod was neither evicted successfully nor found already-evicted before
     4 needed   the task is still short w.r.t. everything released by [pre] — by successful
                evictions AND by already-evicted (pending) pods, of ALL tasks
     5 account  the returned ReleaseList is exactly the release of the counted events, the flag
                says whether some Evict succeeded, the keys are the registered targets
     6 useful   (full strength; refuted, finding D6) an Evict call's victim releases a positive
                amount of some resource its task is still short of                          *)
From Coq Require Import List ZArith Bool Lia.
From Verif Require Import Lib.ListX C11.Model.
Import ListNotations.
Open Scope Z_scope.

Definition ev_j (ev : event) : nat := match ev with EPending j _ => j | EEvict _ j _ _ => j end.
Definition ev_k (ev : event) : nat := match ev with EPending _ k => k | EEvict _ _ k _ => k end.
Definition ev_rt (ev : event) : nat := match ev with EPending j _ => j | EEvict rt _ _ _ => rt end.
Definition counted (ev : event) : bool :=
  match ev with EPending _ _ => true | EEvict _ _ _ ok => ok end.
Definition is_evict (ev : event) : bool :=
  match ev with EPending _ _ => false | EEvict _ _ _ _ => true end.
Definition is_success (ev : event) : bool :=
  match ev with EPending _ _ => false | EEvict _ _ _ ok => ok end.

Definition entry_at (ts : list task) (j k : nat) : option entry :=
  match nth_error ts j with
  | Some tk => nth_error (t_pods tk) k
  | None => None
  end.
Definition ev_entry (ts : list task) (ev : event) : option entry :=
  entry_at ts (ev_j ev) (ev_k ev).

(* what an event adds to the release, recomputed from the task tables alone *)
Definition contrib (ts : list task) (ev : event) (t : target) (r : rname) : Z :=
  if counted ev then
    match ev_entry ts ev with
    | Some e => agg (funcs_of ts) e t r
    | None => 0
    end
  else 0.
Definition released_of (ts : list task) (tr : list event) : rel_t :=
  fun t r => sumZ (map (fun ev => contrib ts ev t r) tr).
Definition taken_one (ts : list task) (ev : event) : list pod :=
  if counted ev then
    match ev_entry ts ev with
    | Some e => [e_pod e]
    | None => []
    end
  else [].
Definition taken_of (ts : list task) (tr : list event) : list pod :=
  flat_map (taken_one ts) tr.

Definition pos_ltb (a b : event) : bool :=
  (ev_j a <? ev_j b)%nat || ((ev_j a =? ev_j b)%nat && (ev_k a <? ev_k b)%nat).

(* ---------- per-event clauses, relative to the events [pre] before it ---------- *)
Definition listed (ts : list task) (ev : event) : Prop :=
  ev_rt ev = ev_j ev /\ exists e, ev_entry ts ev = Some e.
Definition in_order (pre : list event) (ev : event) : Prop :=
  forall ev', In ev' pre -> pos_ltb ev' ev = true.
Definition fresh (ts : list task) (pre : list event) (ev : event) : Prop :=
  forall e, ev_entry ts ev = Some e -> ~ In (e_pod e) (taken_of ts pre).
Definition needed (ts : list task) (pre : list event) (ev : event) : Prop :=
  forall tk, nth_error ts (ev_rt ev) = Some tk -> short tk (released_of ts pre) = true.
Definition useful (ts : list task) (pre : list event) (ev : event) : Prop :=
  is_evict ev = true ->
  forall tk e, nth_error ts (ev_rt ev) = Some tk -> ev_entry ts ev = Some e ->
  exists r, released_of ts pre (t_target tk) r < rget r (t_need tk)
            /\ 0 < agg (funcs_of ts) e (t_target tk) r.

Definition listedb (ts : list task) (ev : event) : bool :=
  (ev_rt ev =? ev_j ev)%nat && match ev_entry ts ev with Some _ => true | None => false end.
Definition in_orderb (pre : list event) (ev : event) : bool :=
  forallb (fun ev' => pos_ltb ev' ev) pre.
Definition freshb (ts : list task) (pre : list event) (ev : event) : bool :=
  match ev_entry ts ev with
  | Some e => negb (memZ (e_pod e) (taken_of ts pre))
  | None => true
  end.
Definition neededb (ts : list task) (pre : list event) (ev : event) : bool :=
  match nth_error ts (ev_rt ev) with
  | Some tk => short tk (released_of ts pre)
  | None => true
  end.
Definition usefulb (ts : list task) (pre : list event) (ev : event) : bool :=
  negb (is_evict ev) ||
  match nth_error ts (ev_rt ev), ev_entry ts ev with
  | Some tk, Some e =>
      existsb (fun kv => (released_of ts pre (t_target tk) (fst kv) <? rget (fst kv) (t_need tk))
                         && (0 <? agg (funcs_of ts) e (t_target tk) (fst kv))) (t_need tk)
  | _, _ => true
  end.

(* ---------- all splits of a trace ---------- *)
Fixpoint splits (tr : list event) : list (list event * event) :=
  match tr with
  | [] => []
  | ev :: t => ([], ev) :: map (fun p => (ev :: fst p, snd p)) (splits t)
  end.

Definition every_split (P : list event -> event -> Prop) (tr : list event) : Prop :=
  forall pre ev suf, tr = pre ++ ev :: suf -> P pre ev.
Definition every_splitb (p : list event -> event -> bool) (tr : list event) : bool :=
  forallb (fun s => p (fst s) (snd s)) (splits tr).

(* ---------- the observable ---------- *)
Record obs := mkObs {
  o_events : list event;
  o_newly : bool;
  o_keys : list bool;     (* per target 0..nt-1: is it a key of the returned ReleaseList *)
  o_table : list Z }.     (* row-major nt x nr: amounts of the returned ReleaseList, 0 = absent *)

Definition universe (nt nr : nat) : list (target * rname) :=
  flat_map (fun t => map (fun r => (Z.of_nat t, Z.of_nat r)) (seq 0 nr)) (seq 0 nt).

Definition obs_of (nt nr : nat) (ts : list task) (res : list event * st) : obs :=
  mkObs (fst res) (s_newly (snd res))
        (map (fun t => registered ts (Z.of_nat t)) (seq 0 nt))
        (map (fun tr => s_rel (snd res) (fst tr) (snd tr)) (universe nt nr)).

Definition account (ts : list task) (nt nr : nat) (o : obs) : Prop :=
  o_table o = map (fun tr => released_of ts (o_events o) (fst tr) (snd tr)) (universe nt nr)
  /\ o_keys o = map (fun t => registered ts (Z.of_nat t)) (seq 0 nt)
  /\ o_newly o = existsb is_success (o_events o).

Fixpoint eq_listZ (a b : list Z) : bool :=
  match a, b with
  | [], [] => true
  | x :: a', y :: b' => (x =? y) && eq_listZ a' b'
  | _, _ => false
  end.
Fixpoint eq_listb (a b : list bool) : bool :=
  match a, b with
  | [], [] => true
  | x :: a', y :: b' => Bool.eqb x y && eq_listb a' b'
  | _, _ => false
  end.

Definition accountb (ts : list task) (nt nr : nat) (o : obs) : bool :=
  eq_listZ (o_table o)
           (map (fun tr => released_of ts (o_events o) (fst tr) (snd tr)) (universe nt nr))
  && eq_listb (o_keys o) (map (fun t => registered ts (Z.of_nat t)) (seq 0 nt))
  && Bool.eqb (o_newly o) (existsb is_success (o_events o)).

(* everything the property demands except clause 6 *)
Definition C11_safe (ts : list task) (nt nr : nat) (o : obs) : Prop :=
  every_split (fun _ ev => listed ts ev) (o_events o)
  /\ every_split in_order (o_events o)
  /\ every_split (fresh ts) (o_events o)
  /\ every_split (needed ts) (o_events o)
  /\ account ts nt nr o.

Definition C11_useful (ts : list task) (o : obs) : Prop :=
  every_split (useful ts) (o_events o).

Definition C11_holds (ts : list task) (nt nr : nat) (o : obs) : Prop :=
  C11_safe ts nt nr o /\ C11_useful ts o.

(* clauses 1-4, which only need the event sequence *)
Definition events_code (ts : list task) (evs : list event) : Z :=
  if negb (every_splitb (fun _ ev => listedb ts ev) evs) then 1
  else if negb (every_splitb in_orderb evs) then 2
  else if negb (every_splitb (freshb ts) evs) then 3
  else if negb (every_splitb (neededb ts) evs) then 4
  else 0.

Definition safe_code (ts : list task) (nt nr : nat) (o : obs) : Z :=
  if negb (events_code ts (o_events o) =? 0) then events_code ts (o_events o)
  else if negb (accountb ts nt nr o) then 5
  else 0.

Definition C11_events (ts : list task) (evs : list event) : Prop :=
  every_split (fun _ ev => listed ts ev) evs
  /\ every_split in_order evs
  /\ every_split (fresh ts) evs
  /\ every_split (needed ts) evs.

Definition useful_events_code (ts : list task) (evs : list event) : Z :=
  if every_splitb (usefulb ts) evs then 0 else 6.
Definition useful_code (ts : list task) (o : obs) : Z := useful_events_code ts (o_events o).

Definition prop_code (ts : list task) (nt nr : nat) (o : obs) : Z :=
  if safe_code ts nt nr o =? 0 then useful_code ts o else safe_code ts nt nr o.
