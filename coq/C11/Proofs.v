(* C11 — proofs about the model (see Properties.v for the exported statements). *)
From Coq Require Import List ZArith Bool Lia.
From Verif Require Import Lib.ListX C11.Model C11.Spec.
Import ListNotations.
Open Scope Z_scope.

Lemma splits_spec tr pre ev :
  In (pre, ev) (splits tr) <-> exists suf, tr = pre ++ ev :: suf.
Proof.
  revert pre. induction tr as [|a t IH]; intros pre; cbn [splits].
  - split; [intros []|]. intros [suf H]. destruct pre; discriminate.
  - split.
    + intros [H|H].
      * inversion H; subst. exists t. reflexivity.
      * apply in_map_iff in H. destruct H as [[p e] [Heq Hin]]. cbn in Heq.
        inversion Heq; subst. apply IH in Hin. destruct Hin as [suf ->].
        exists suf. reflexivity.
    + intros [suf H]. destruct pre as [|b pre]; cbn in H; inversion H; subst.
      * left. reflexivity.
      * right. apply in_map_iff. exists (pre, ev). split; [reflexivity|].
        apply IH. exists suf. reflexivity.
Qed.

(* ---------- reflection of the decision procedures ---------- *)
Lemma every_splitb_spec (p : list event -> event -> bool) (P : list event -> event -> Prop) tr :
  (forall pre ev, p pre ev = true <-> P pre ev) ->
  every_splitb p tr = true <-> every_split P tr.
Proof.
  intros Hp. unfold every_splitb, every_split. rewrite forallb_forall. split.
  - intros H pre ev suf Heq. apply Hp. apply (H (pre, ev)). apply splits_spec. eauto.
  - intros H [pre ev] Hin. cbn [fst snd]. apply Hp. apply splits_spec in Hin.
    destruct Hin as [suf Heq]. eapply H; eauto.
Qed.

Lemma memZ_In x l : memZ x l = true <-> In x l.
Proof.
  unfold memZ. rewrite existsb_exists. split.
  - intros [y [Hin Heq]]. apply Z.eqb_eq in Heq. subst. exact Hin.
  - intros Hin. exists x. split; [exact Hin|apply Z.eqb_refl].
Qed.

Lemma memZ_notIn x l : memZ x l = false <-> ~ In x l.
Proof.
  rewrite <- memZ_In. split.
  - intros H H'. congruence.
  - intros H. destruct (memZ x l); [exfalso; apply H; reflexivity|reflexivity].
Qed.

Lemma listedb_spec ts ev : listedb ts ev = true <-> listed ts ev.
Proof.
  unfold listedb, listed. rewrite andb_true_iff, Nat.eqb_eq.
  destruct (ev_entry ts ev) as [e|]; split; intros [H1 H2]; split; auto.
  - exists e. reflexivity.
  - discriminate.
  - destruct H2 as [e He]. discriminate.
Qed.

Lemma in_orderb_spec pre ev : in_orderb pre ev = true <-> in_order pre ev.
Proof. unfold in_orderb, in_order. apply forallb_forall. Qed.

Lemma freshb_spec ts pre ev : freshb ts pre ev = true <-> fresh ts pre ev.
Proof.
  unfold freshb, fresh. destruct (ev_entry ts ev) as [e|].
  - rewrite negb_true_iff, memZ_notIn. split.
    + intros H e' He'. inversion He'; subst. exact H.
    + intros H. apply H. reflexivity.
  - split; [intros _ e He; discriminate|reflexivity].
Qed.

Lemma neededb_spec ts pre ev : neededb ts pre ev = true <-> needed ts pre ev.
Proof.
  unfold neededb, needed. destruct (nth_error ts (ev_rt ev)) as [tk|].
  - split.
    + intros H tk' Htk'. inversion Htk'; subst. exact H.
    + intros H. apply H. reflexivity.
  - split; [intros _ tk Htk; discriminate|reflexivity].
Qed.

Lemma eq_listZ_spec a b : eq_listZ a b = true <-> a = b.
Proof.
  revert b. induction a as [|x a IH]; intros [|y b]; cbn [eq_listZ]; split; intros H;
    try reflexivity; try discriminate.
  - apply andb_true_iff in H. destruct H as [H1 H2]. apply Z.eqb_eq in H1.
    apply IH in H2. subst. reflexivity.
  - inversion H; subst. rewrite Z.eqb_refl. cbn. apply IH. reflexivity.
Qed.

Lemma eq_listb_spec a b : eq_listb a b = true <-> a = b.
Proof.
  revert b. induction a as [|x a IH]; intros [|y b]; cbn [eq_listb]; split; intros H;
    try reflexivity; try discriminate.
  - apply andb_true_iff in H. destruct H as [H1 H2]. apply Bool.eqb_prop in H1.
    apply IH in H2. subst. reflexivity.
  - inversion H; subst. rewrite Bool.eqb_reflx. cbn. apply IH. reflexivity.
Qed.

Lemma accountb_spec ts nt nr o : accountb ts nt nr o = true <-> account ts nt nr o.
Proof.
  unfold accountb, account. rewrite !andb_true_iff, eq_listZ_spec, eq_listb_spec.
  split.
  - intros [[H1 H2] H3]. repeat split; auto. apply Bool.eqb_prop. exact H3.
  - intros [H1 [H2 H3]]. repeat split; auto. rewrite H3. apply Bool.eqb_reflx.
Qed.

Lemma events_code_spec ts evs : events_code ts evs = 0 <-> C11_events ts evs.
Proof.
  unfold events_code, C11_events.
  pose proof (every_splitb_spec (fun _ ev => listedb ts ev) (fun _ ev => listed ts ev)
                evs (fun _ ev => listedb_spec ts ev)) as H1.
  pose proof (every_splitb_spec in_orderb in_order evs in_orderb_spec) as H2.
  pose proof (every_splitb_spec (freshb ts) (fresh ts) evs (freshb_spec ts)) as H3.
  pose proof (every_splitb_spec (neededb ts) (needed ts) evs (neededb_spec ts)) as H4.
  destruct (every_splitb (fun _ ev => listedb ts ev) evs); cbn [negb].
  2:{ split; [discriminate|]. intros [H _]. apply H1 in H. discriminate. }
  destruct (every_splitb in_orderb evs); cbn [negb].
  2:{ split; [discriminate|]. intros [_ [H _]]. apply H2 in H. discriminate. }
  destruct (every_splitb (freshb ts) evs); cbn [negb].
  2:{ split; [discriminate|]. intros [_ [_ [H _]]]. apply H3 in H. discriminate. }
  destruct (every_splitb (neededb ts) evs); cbn [negb].
  2:{ split; [discriminate|]. intros [_ [_ [_ H]]]. apply H4 in H. discriminate. }
  split; [|reflexivity]. intros _.
  split; [apply H1; reflexivity|]. split; [apply H2; reflexivity|].
  split; [apply H3; reflexivity|apply H4; reflexivity].
Qed.

Lemma safe_code_spec ts nt nr o : safe_code ts nt nr o = 0 <-> C11_safe ts nt nr o.
Proof.
  unfold safe_code, C11_safe.
  pose proof (events_code_spec ts (o_events o)) as HE. unfold C11_events in HE.
  pose proof (accountb_spec ts nt nr o) as H5.
  destruct (events_code ts (o_events o) =? 0) eqn:E; cbn [negb].
  - apply Z.eqb_eq in E. destruct (accountb ts nt nr o); cbn [negb].
    + split; [|reflexivity]. intros _. destruct (proj1 HE E) as [A [B [C D]]].
      split; [exact A|]. split; [exact B|]. split; [exact C|]. split; [exact D|].
      apply H5. reflexivity.
    + split; [discriminate|]. intros [_ [_ [_ [_ H]]]]. apply H5 in H. discriminate.
  - apply Z.eqb_neq in E. split; [intros H; congruence|].
    intros [A [B [C [D _]]]]. exfalso. apply E. apply HE. auto.
Qed.

(* ---------- step-wise validity of a trace ---------- *)
Definition ev_ok (ts : list task) (pre : list event) (ev : event) : Prop :=
  listed ts ev /\ in_order pre ev /\ fresh ts pre ev /\ needed ts pre ev.

Fixpoint steps_ok (ts : list task) (pre tr : list event) : Prop :=
  match tr with
  | [] => True
  | ev :: t => ev_ok ts pre ev /\ steps_ok ts (pre ++ [ev]) t
  end.

Lemma steps_ok_app ts pre a b :
  steps_ok ts pre (a ++ b) <-> steps_ok ts pre a /\ steps_ok ts (pre ++ a) b.
Proof.
  revert pre. induction a as [|ev a IH]; intros pre; cbn [app steps_ok].
  - rewrite app_nil_r. tauto.
  - rewrite IH. rewrite <- app_assoc. cbn [app]. tauto.
Qed.

Lemma steps_ok_every_split ts pre tr :
  steps_ok ts pre tr -> every_split (fun p ev => ev_ok ts (pre ++ p) ev) tr.
Proof.
  revert pre. induction tr as [|a t IH]; intros pre H p ev suf Heq.
  - destruct p; discriminate.
  - cbn [steps_ok] in H. destruct H as [Ha Ht]. destruct p as [|b p]; cbn [app] in Heq.
    + inversion Heq; subst. cbv beta. rewrite app_nil_r. exact Ha.
    + inversion Heq; subst. pose proof (IH _ Ht p ev suf eq_refl) as IH'.
      cbv beta in IH' |- *. rewrite <- app_assoc in IH'. exact IH'.
Qed.

(* ---------- facts about agg / released_of / taken_of ---------- *)
Lemma agg_nonneg fs e t r : 0 <= agg fs e t r.
Proof.
  unfold agg. induction fs as [|f fs IH]; cbn [fold_right]; [lia|].
  destruct (snd f =? t); lia.
Qed.

Lemma contrib_nonneg ts ev t r : 0 <= contrib ts ev t r.
Proof.
  unfold contrib. destruct (counted ev); [|lia].
  destruct (ev_entry ts ev); [apply agg_nonneg|lia].
Qed.

Lemma released_of_app ts a b t r :
  released_of ts (a ++ b) t r = released_of ts a t r + released_of ts b t r.
Proof. unfold released_of. rewrite map_app, sumZ_app. reflexivity. Qed.

Lemma released_of_nonneg ts tr t r : 0 <= released_of ts tr t r.
Proof.
  unfold released_of. induction tr as [|ev tr IH]; cbn [map]; [rewrite sumZ_nil; lia|].
  rewrite sumZ_cons. pose proof (contrib_nonneg ts ev t r). lia.
Qed.

Lemma released_of_single ts ev t r : released_of ts [ev] t r = contrib ts ev t r.
Proof. unfold released_of. cbn [map]. rewrite sumZ_cons, sumZ_nil. lia. Qed.

Lemma taken_of_app ts a b : taken_of ts (a ++ b) = taken_of ts a ++ taken_of ts b.
Proof. unfold taken_of. apply flat_map_app. Qed.

Lemma existsb_ext' {A} (f g : A -> bool) l :
  (forall x, f x = g x) -> existsb f l = existsb g l.
Proof.
  intros H. induction l as [|x l IH]; cbn [existsb]; [reflexivity|]. rewrite H, IH. reflexivity.
Qed.

Lemma short_ext tk (a b : rel_t) :
  (forall t r, a t r = b t r) -> short tk a = short tk b.
Proof.
  intros H. unfold short. apply existsb_ext'. intros kv. rewrite H. reflexivity.
Qed.

(* released amounts only grow, so a task that is no longer short never becomes short again *)
Lemma short_antitone tk (a b : rel_t) :
  (forall t r, a t r <= b t r) -> short tk b = true -> short tk a = true.
Proof.
  intros H. unfold short. rewrite !existsb_exists. intros [kv [Hin Hlt]].
  exists kv. split; [exact Hin|]. apply Z.ltb_lt in Hlt. apply Z.ltb_lt.
  specialize (H (t_target tk) (fst kv)). lia.
Qed.

(* ---------- the central invariant: the model's state IS the recomputation from its trace ---------- *)
Section Inv.
  Variables pend okf : nat -> pod -> bool.
  Variable ts : list task.
  Notation fs := (funcs_of ts).

  Definition Inv (tr0 : list event) (s : st) : Prop :=
    (forall t r, s_rel s t r = released_of ts tr0 t r)
    /\ (forall p, In p (s_done s) <-> In p (taken_of ts tr0))
    /\ s_newly s = existsb is_success tr0.

  Definition below (tr0 : list event) (j k : nat) : Prop :=
    forall ev', In ev' tr0 -> (ev_j ev' < j)%nat \/ (ev_j ev' = j /\ (ev_k ev' < k)%nat).

  Lemma below_weaken tr0 j k k' : (k <= k')%nat -> below tr0 j k -> below tr0 j k'.
  Proof. intros Hk H ev' Hin. destruct (H ev' Hin) as [H1|[H1 H2]]; [left|right]; lia. Qed.

  Lemma below_next_task tr0 j k : below tr0 j k -> below tr0 (S j) 0.
  Proof. intros H ev' Hin. destruct (H ev' Hin) as [H1|[H1 H2]]; left; lia. Qed.

  Lemma below_snoc tr0 j k ev :
    below tr0 j k -> ev_j ev = j -> ev_k ev = k -> below (tr0 ++ [ev]) j (S k).
  Proof.
    intros H Hj Hk ev' Hin. apply in_app_or in Hin. destruct Hin as [Hin|[<-|[]]].
    - destruct (H ev' Hin) as [H1|[H1 H2]]; [left|right]; lia.
    - right. lia.
  Qed.

  Lemma Inv_nil : Inv [] st0.
  Proof.
    unfold Inv, st0. cbn. repeat split; try tauto.
  Qed.

  Lemma Inv_snoc tr0 s ev s' :
    Inv tr0 s ->
    (forall t r, s_rel s' t r = s_rel s t r + contrib ts ev t r) ->
    (forall p, In p (s_done s') <-> In p (taken_one ts ev) \/ In p (s_done s)) ->
    s_newly s' = s_newly s || is_success ev ->
    Inv (tr0 ++ [ev]) s'.
  Proof.
    intros [I1 [I2 I3]] H1 H2 H3. unfold Inv. repeat split.
    - intros t r. rewrite released_of_app, released_of_single, H1, I1. reflexivity.
    - rewrite taken_of_app. intros Hin. apply in_or_app. apply H2 in Hin.
      destruct Hin as [Hin|Hin]; [right|left; apply I2; exact Hin].
      unfold taken_of. cbn [flat_map]. rewrite app_nil_r. exact Hin.
    - rewrite taken_of_app. intros Hin. apply in_app_or in Hin. apply H2.
      destruct Hin as [Hin|Hin]; [right; apply I2; exact Hin|left].
      unfold taken_of in Hin. cbn [flat_map] in Hin. rewrite app_nil_r in Hin. exact Hin.
    - rewrite existsb_app, H3, I3. cbn [existsb]. rewrite orb_false_r. reflexivity.
  Qed.

  Lemma ev_ok_here j tk k e tr0 s ev :
    nth_error ts j = Some tk -> nth_error (t_pods tk) k = Some e ->
    Inv tr0 s -> below tr0 j k -> short tk (s_rel s) = true ->
    memZ (e_pod e) (s_done s) = false ->
    ev_rt ev = j -> ev_j ev = j -> ev_k ev = k ->
    ev_ok ts tr0 ev.
  Proof.
    intros Hj Hk [I1 [I2 I3]] Hb Hs Hm Ert Ej Ek.
    assert (He : ev_entry ts ev = Some e).
    { unfold ev_entry, entry_at. rewrite Ej, Ek, Hj. exact Hk. }
    unfold ev_ok. repeat split.
    - congruence.
    - exists e. exact He.
    - intros ev' Hin. unfold pos_ltb. destruct (Hb ev' Hin) as [H1|[H1 H2]].
      + apply orb_true_iff. left. apply Nat.ltb_lt. lia.
      + apply orb_true_iff. right. apply andb_true_iff. split;
          [apply Nat.eqb_eq; lia|apply Nat.ltb_lt; lia].
    - intros e' He'. rewrite He in He'. inversion He'; subst e'.
      apply memZ_notIn in Hm. intros Hin. apply Hm. apply I2. exact Hin.
    - intros tk' Htk'. rewrite Ert, Hj in Htk'. inversion Htk'; subst tk'.
      rewrite <- Hs. apply short_ext. intros t r. symmetry. apply I1.
  Qed.

  Lemma run_pods_ok j tk :
    nth_error ts j = Some tk ->
    forall es k s tr0 evs s',
      (forall i, nth_error es i = nth_error (t_pods tk) (k + i)) ->
      Inv tr0 s -> below tr0 j k -> short tk (s_rel s) = true ->
      run_pods pend okf fs j tk k es s = (evs, s') ->
      steps_ok ts tr0 evs /\ Inv (tr0 ++ evs) s' /\ below (tr0 ++ evs) (S j) 0.
  Proof.
    intros Hj. induction es as [|e es' IH]; intros k s tr0 evs s' Hes HI Hb Hs Hrun;
      cbn [run_pods] in Hrun.
    - inversion Hrun; subst. rewrite app_nil_r. cbn [steps_ok].
      split; [exact I|]. split; [exact HI|eapply below_next_task; exact Hb].
    - assert (Hk : nth_error (t_pods tk) k = Some e).
      { rewrite <- (Nat.add_0_r k). rewrite <- Hes. reflexivity. }
      assert (Hes' : forall i, nth_error es' i = nth_error (t_pods tk) (S k + i)).
      { intros i. replace (S k + i)%nat with (k + S i)%nat by lia.
        rewrite <- Hes. reflexivity. }
      assert (Hent : forall ev, ev_j ev = j -> ev_k ev = k -> ev_entry ts ev = Some e).
      { intros ev Ej Ek. unfold ev_entry, entry_at. rewrite Ej, Ek, Hj. exact Hk. }
      destruct (memZ (e_pod e) (s_done s)) eqn:Hm.
      { eapply IH; eauto. eapply below_weaken; [|exact Hb]. lia. }
      destruct (pend (s_nq s) (e_pod e)) eqn:Hp.
      { (* already evicted, counted as pending release *)
        set (ev := EPending j k) in *.
        set (s1 := mkSt (radd (s_rel s) (agg fs e)) (e_pod e :: s_done s)
                        (S (s_nq s)) (s_ne s) (s_newly s)) in *.
        assert (Hok : ev_ok ts tr0 ev) by (eapply ev_ok_here; eauto).
        assert (HI1 : Inv (tr0 ++ [ev]) s1).
        { eapply Inv_snoc; [exact HI| | |].
          - intros t r. unfold contrib. cbn [counted ev]. rewrite (Hent ev eq_refl eq_refl).
            reflexivity.
          - intros p. unfold taken_one. cbn [counted ev]. rewrite (Hent ev eq_refl eq_refl).
            cbn. tauto.
          - cbn. rewrite orb_false_r. reflexivity. }
        assert (Hb1 : below (tr0 ++ [ev]) j (S k)) by (apply below_snoc; auto).
        destruct (short tk (s_rel s1)) eqn:Hs1.
        - destruct (run_pods pend okf fs j tk (S k) es' s1) as [evs1 s2] eqn:Hr.
          inversion Hrun; subst evs s'.
          destruct (IH _ _ _ _ _ Hes' HI1 Hb1 Hs1 Hr) as [A [B C]].
          cbn [steps_ok]. rewrite <- app_assoc in B, C. cbn [app] in B, C. auto.
        - inversion Hrun; subst evs s'. cbn [steps_ok].
          split; [split; [exact Hok|exact I]|]. split; [exact HI1|].
          eapply below_next_task; exact Hb1. }
      destruct (okf (s_ne s) (e_pod e)) eqn:Ho.
      { (* successful eviction *)
        set (ev := EEvict j j k true) in *.
        set (s1 := mkSt (radd (s_rel s) (agg fs e)) (e_pod e :: s_done s)
                        (S (s_nq s)) (S (s_ne s)) true) in *.
        assert (Hok : ev_ok ts tr0 ev) by (eapply ev_ok_here; eauto).
        assert (HI1 : Inv (tr0 ++ [ev]) s1).
        { eapply Inv_snoc; [exact HI| | |].
          - intros t r. unfold contrib. cbn [counted ev]. rewrite (Hent ev eq_refl eq_refl).
            reflexivity.
          - intros p. unfold taken_one. cbn [counted ev]. rewrite (Hent ev eq_refl eq_refl).
            cbn. tauto.
          - cbn. rewrite orb_true_r. reflexivity. }
        assert (Hb1 : below (tr0 ++ [ev]) j (S k)) by (apply below_snoc; auto).
        destruct (short tk (s_rel s1)) eqn:Hs1.
        - destruct (run_pods pend okf fs j tk (S k) es' s1) as [evs1 s2] eqn:Hr.
          inversion Hrun; subst evs s'.
          destruct (IH _ _ _ _ _ Hes' HI1 Hb1 Hs1 Hr) as [A [B C]].
          cbn [steps_ok]. rewrite <- app_assoc in B, C. cbn [app] in B, C. auto.
        - inversion Hrun; subst evs s'. cbn [steps_ok].
          split; [split; [exact Hok|exact I]|]. split; [exact HI1|].
          eapply below_next_task; exact Hb1. }
      { (* failed eviction: nothing is counted, the loop goes on *)
        set (ev := EEvict j j k false) in *.
        set (s1 := mkSt (s_rel s) (s_done s) (S (s_nq s)) (S (s_ne s)) (s_newly s)) in *.
        assert (Hok : ev_ok ts tr0 ev) by (eapply ev_ok_here; eauto).
        assert (HI1 : Inv (tr0 ++ [ev]) s1).
        { eapply Inv_snoc; [exact HI| | |].
          - intros t r. unfold contrib. cbn [counted ev s1 s_rel]. lia.
          - intros p. unfold taken_one. cbn [counted ev s1 s_done]. cbn. tauto.
          - cbn. rewrite orb_false_r. reflexivity. }
        assert (Hb1 : below (tr0 ++ [ev]) j (S k)) by (apply below_snoc; auto).
        destruct (run_pods pend okf fs j tk (S k) es' s1) as [evs1 s2] eqn:Hr.
        inversion Hrun; subst evs s'.
        destruct (IH _ _ _ _ _ Hes' HI1 Hb1 Hs Hr) as [A [B C]].
        cbn [steps_ok]. rewrite <- app_assoc in B, C. cbn [app] in B, C. auto. }
  Qed.

  Lemma run_tasks_ok :
    forall tl j s tr0 evs s',
      (forall i, nth_error tl i = nth_error ts (j + i)) ->
      Inv tr0 s -> below tr0 j 0 ->
      run_tasks pend okf fs j tl s = (evs, s') ->
      steps_ok ts tr0 evs /\ Inv (tr0 ++ evs) s'.
  Proof.
    induction tl as [|tk tl IH]; intros j s tr0 evs s' Htl HI Hb Hrun; cbn [run_tasks] in Hrun.
    - inversion Hrun; subst. rewrite app_nil_r. cbn. auto.
    - assert (Hj : nth_error ts j = Some tk).
      { rewrite <- (Nat.add_0_r j). rewrite <- Htl. reflexivity. }
      assert (Htl' : forall i, nth_error tl i = nth_error ts (S j + i)).
      { intros i. replace (S j + i)%nat with (j + S i)%nat by lia.
        rewrite <- Htl. reflexivity. }
      destruct (short tk (s_rel s)) eqn:Hs.
      + destruct (run_pods pend okf fs j tk 0 (t_pods tk) s) as [ev1 s1] eqn:Hr1.
        destruct (run_tasks pend okf fs (S j) tl s1) as [ev2 s2] eqn:Hr2.
        inversion Hrun; subst evs s'.
        destruct (run_pods_ok j tk Hj (t_pods tk) 0%nat s tr0 ev1 s1
                    (fun i => eq_refl) HI Hb Hs Hr1) as [A [B C]].
        destruct (IH _ _ _ _ _ Htl' B C Hr2) as [D E].
        split; [apply steps_ok_app; auto|]. rewrite app_assoc. exact E.
      + eapply IH; eauto. eapply below_next_task; exact Hb.
  Qed.

  Lemma kill_and_evict_ok evs s' :
    kill_and_evict pend okf ts = (evs, s') ->
    steps_ok ts [] evs /\ Inv evs s'.
  Proof.
    intros H. unfold kill_and_evict in H.
    apply (run_tasks_ok ts 0%nat st0 [] evs s' (fun i => eq_refl) Inv_nil) in H.
    - exact H.
    - intros ev' [].
  Qed.
End Inv.

(* ---------- the model satisfies every safety clause, for every oracle ---------- *)
Lemma model_steps_ok pend okf ts :
  steps_ok ts [] (fst (kill_and_evict pend okf ts))
  /\ Inv ts (fst (kill_and_evict pend okf ts)) (snd (kill_and_evict pend okf ts)).
Proof.
  destruct (kill_and_evict pend okf ts) as [evs s'] eqn:H. cbn [fst snd].
  eapply kill_and_evict_ok; exact H.
Qed.

Lemma model_every_split pend okf ts :
  every_split (ev_ok ts) (fst (kill_and_evict pend okf ts)).
Proof.
  destruct (model_steps_ok pend okf ts) as [H _].
  apply steps_ok_every_split in H. intros pre ev suf Heq. exact (H pre ev suf Heq).
Qed.

Lemma model_account pend okf ts nt nr :
  account ts nt nr (obs_of nt nr ts (kill_and_evict pend okf ts)).
Proof.
  destruct (model_steps_ok pend okf ts) as [_ [I1 [I2 I3]]].
  unfold account, obs_of. cbn [o_table o_keys o_newly o_events]. repeat split.
  - apply map_ext. intros [t r]. cbn [fst snd]. apply I1.
  - exact I3.
Qed.

Lemma model_safe pend okf ts nt nr :
  C11_safe ts nt nr (obs_of nt nr ts (kill_and_evict pend okf ts)).
Proof.
  pose proof (model_every_split pend okf ts) as H.
  unfold C11_safe. cbn [obs_of o_events].
  split; [|split; [|split; [|split]]].
  - intros pre ev suf Heq. apply (H pre ev suf Heq).
  - intros pre ev suf Heq. apply (H pre ev suf Heq).
  - intros pre ev suf Heq. apply (H pre ev suf Heq).
  - intros pre ev suf Heq. apply (H pre ev suf Heq).
  - apply model_account.
Qed.

Lemma model_safe_code pend okf ts nt nr :
  safe_code ts nt nr (obs_of nt nr ts (kill_and_evict pend okf ts)) = 0.
Proof. apply safe_code_spec, model_safe. Qed.

Lemma model_prop_code pend okf ts nt nr :
  let o := obs_of nt nr ts (kill_and_evict pend okf ts) in
  prop_code ts nt nr o = 0 \/ prop_code ts nt nr o = 6.
Proof.
  cbv zeta. unfold prop_code. rewrite model_safe_code. cbn [Z.eqb].
  unfold useful_code, useful_events_code. destruct (every_splitb _ _); auto.
Qed.

(* ---------- consequences, stated for ANY observable that passes the safety clauses ---------- *)
Lemma released_of_mono ts a b t r : released_of ts a t r <= released_of ts (a ++ b) t r.
Proof. rewrite released_of_app. pose proof (released_of_nonneg ts b t r). lia. Qed.

(* once the releases of a prefix cover a task's target, no later call is made for that task *)
Lemma stop_when_met ts tr :
  every_split (needed ts) tr ->
  forall pre suf j tk, tr = pre ++ suf -> nth_error ts j = Some tk ->
    short tk (released_of ts pre) = false ->
    forall ev, In ev suf -> ev_rt ev <> j.
Proof.
  intros Hn pre suf j tk Heq Hj Hmet ev Hin Hrt.
  apply in_split in Hin. destruct Hin as [s1 [s2 Hs]]. subst suf.
  rewrite app_assoc in Heq. specialize (Hn _ _ _ Heq tk). cbv beta in Hn.
  rewrite Hrt in Hn. specialize (Hn Hj).
  assert (short tk (released_of ts pre) = true).
  { eapply short_antitone; [|exact Hn]. intros t r. apply released_of_mono. }
  congruence.
Qed.

Lemma taken_nodup ts tr : every_split (fresh ts) tr -> NoDup (taken_of ts tr).
Proof.
  induction tr as [|ev tr IH] using rev_ind; intros H.
  - constructor.
  - rewrite taken_of_app. unfold taken_of at 2. cbn [flat_map]. rewrite app_nil_r.
    assert (IH' : NoDup (taken_of ts tr)).
    { apply IH. intros pre e suf Heq. apply (H pre e (suf ++ [ev])).
      rewrite Heq. rewrite <- app_assoc. reflexivity. }
    specialize (H tr ev [] eq_refl). unfold fresh in H. unfold taken_one.
    destruct (counted ev); [|rewrite app_nil_r; exact IH'].
    destruct (ev_entry ts ev) as [e|]; [|rewrite app_nil_r; exact IH'].
    eapply Permutation.Permutation_NoDup; [apply Permutation.Permutation_cons_append|].
    constructor; [apply H; reflexivity|exact IH'].
Qed.

(* a pod found already evicted is counted in full and never handed to Evict afterwards *)
Lemma pending_counted ts tr :
  every_split (fresh ts) tr ->
  forall pre j k suf e, tr = pre ++ EPending j k :: suf -> entry_at ts j k = Some e ->
    (forall t r, released_of ts (pre ++ [EPending j k]) t r
                 = released_of ts pre t r + agg (funcs_of ts) e t r)
    /\ (forall ev e', In ev suf -> ev_entry ts ev = Some e' -> e_pod e' <> e_pod e).
Proof.
  intros Hf pre j k suf e Heq He. split.
  - intros t r. rewrite released_of_app, released_of_single. unfold contrib, ev_entry.
    cbn [counted ev_j ev_k]. rewrite He. reflexivity.
  - intros ev e' Hin He' Hpod. apply in_split in Hin. destruct Hin as [s1 [s2 Hs]]. subst suf.
    assert (Heq' : tr = (pre ++ EPending j k :: s1) ++ ev :: s2).
    { rewrite Heq, <- app_assoc. reflexivity. }
    specialize (Hf _ _ _ Heq' e' He'). apply Hf.
    rewrite taken_of_app. apply in_or_app. right.
    unfold taken_of. cbn [flat_map]. apply in_or_app. left.
    unfold taken_one, ev_entry. cbn [counted ev_j ev_k]. rewrite He. left. congruence.
Qed.

(* a successfully evicted pod is never handed to Evict (or counted) again *)
Lemma evicted_once ts tr :
  every_split (fresh ts) tr ->
  forall pre rt j k suf e, tr = pre ++ EEvict rt j k true :: suf -> entry_at ts j k = Some e ->
    forall ev e', In ev suf -> ev_entry ts ev = Some e' -> e_pod e' <> e_pod e.
Proof.
  intros Hf pre rt j k suf e Heq He ev e' Hin He' Hpod.
  apply in_split in Hin. destruct Hin as [s1 [s2 Hs]]. subst suf.
  assert (Heq' : tr = (pre ++ EEvict rt j k true :: s1) ++ ev :: s2).
  { rewrite Heq, <- app_assoc. reflexivity. }
  specialize (Hf _ _ _ Heq' e' He'). apply Hf.
  rewrite taken_of_app. apply in_or_app. right.
  unfold taken_of. cbn [flat_map]. apply in_or_app. left.
  unfold taken_one, ev_entry. cbn [counted ev_j ev_k]. rewrite He. left. congruence.
Qed.

(* within one task the victims form a subsequence of its sorted list: positions increase *)
Lemma order_sorted tr :
  every_split in_order tr ->
  forall pre ev mid ev' suf, tr = pre ++ ev :: mid ++ ev' :: suf -> pos_ltb ev ev' = true.
Proof.
  intros H pre ev mid ev' suf Heq.
  apply (H (pre ++ ev :: mid) ev' suf).
  - rewrite Heq, <- app_assoc. reflexivity.
  - apply in_or_app. right. left. reflexivity.
Qed.

(* ---------- cross-task: split of an ordered trace at a task index ---------- *)
Definition before_task (j : nat) (ev : event) : bool := (ev_j ev <? j)%nat.

Lemma every_split_tail P a t :
  every_split P (a :: t) -> every_split (fun pre ev => P (a :: pre) ev) t.
Proof. intros H pre ev suf Heq. apply (H (a :: pre) ev suf). rewrite Heq. reflexivity. Qed.

Lemma ordered_split_at j tr :
  every_split in_order tr ->
  tr = filter (before_task j) tr ++ filter (fun ev => negb (before_task j ev)) tr.
Proof.
  induction tr as [|a t IH]; intros H; [reflexivity|].
  assert (Ht : every_split in_order t).
  { intros pre ev suf Heq ev' Hin. apply (H (a :: pre) ev suf); [rewrite Heq; reflexivity|].
    right. exact Hin. }
  cbn [filter]. destruct (before_task j a) eqn:Ha; cbn [negb app].
  - f_equal. apply IH, Ht.
  - assert (Hall : forall ev, In ev t -> before_task j ev = false).
    { intros ev Hin. apply in_split in Hin. destruct Hin as [s1 [s2 Hs]].
      assert (Hlt : pos_ltb a ev = true).
      { apply (H (a :: s1) ev s2); [rewrite Hs; reflexivity|left; reflexivity]. }
      unfold before_task in *. apply Nat.ltb_ge in Ha. apply Nat.ltb_ge.
      unfold pos_ltb in Hlt. apply orb_true_iff in Hlt. destruct Hlt as [Hlt|Hlt].
      - apply Nat.ltb_lt in Hlt. lia.
      - apply andb_true_iff in Hlt. destruct Hlt as [Hlt _]. apply Nat.eqb_eq in Hlt. lia. }
    assert (H1 : filter (before_task j) t = []).
    { clear -Hall. induction t as [|b t IH]; [reflexivity|]. cbn [filter].
      rewrite (Hall b (or_introl eq_refl)). apply IH. intros ev Hin. apply Hall. right. exact Hin. }
    assert (H2 : filter (fun ev => negb (before_task j ev)) t = t).
    { clear -Hall. induction t as [|b t IH]; [reflexivity|]. cbn [filter].
      rewrite (Hall b (or_introl eq_refl)). cbn [negb]. f_equal. apply IH.
      intros ev Hin. apply Hall. right. exact Hin. }
    rewrite H1, H2. reflexivity.
Qed.

(* a task whose target is already covered by what the EARLIER tasks released makes no call *)
Lemma cross_task ts tr :
  every_split (fun _ ev => listed ts ev) tr -> every_split in_order tr ->
  every_split (needed ts) tr ->
  forall j tk, nth_error ts j = Some tk ->
    short tk (released_of ts (filter (before_task j) tr)) = false ->
    forall ev, In ev tr -> ev_j ev <> j.
Proof.
  intros Hl Ho Hn j tk Hj Hmet ev Hin Hev.
  pose proof (ordered_split_at j tr Ho) as Hsplit.
  assert (Hrt : ev_rt ev = j).
  { apply in_split in Hin. destruct Hin as [s1 [s2 Hs]].
    destruct (Hl _ _ _ Hs) as [Hrt _]. congruence. }
  assert (Hin2 : In ev (filter (fun ev => negb (before_task j ev)) tr)).
  { apply filter_In. split; [exact Hin|]. unfold before_task. rewrite Hev, Nat.ltb_irrefl.
    reflexivity. }
  exact (stop_when_met ts tr Hn _ _ j tk Hsplit Hj Hmet ev Hin2 Hrt).
Qed.

(* ---------- D6: the full-strength clause fails on the faithful model ---------- *)
Definition d6_tasks : list task :=
  [mkTask 1 [(3, 100)]
     [mkEntry 1 [[(3, 0)]];        (* X: releases nothing of mid-memory *)
      mkEntry 2 [[(3, 100)]]]].    (* Y: releases 100 *)

Lemma useful_refuted :
  exists ts pend okf,
    let o := obs_of 2 4 ts (kill_and_evict pend okf ts) in
    o_events o = [EEvict 0 0 0 true; EEvict 0 0 1 true]
    /\ safe_code ts 2 4 o = 0 /\ useful_code ts o = 6.
Proof.
  exists d6_tasks, (fun _ _ => false), (fun _ _ => true). vm_compute. auto.
Qed.

Lemma usefulb_sound ts pre ev : usefulb ts pre ev = true -> useful ts pre ev.
Proof.
  unfold usefulb, useful. intros H Hev tk e Htk He. rewrite Hev, Htk, He in H.
  cbn [negb orb] in H. apply existsb_exists in H. destruct H as [kv [_ H]].
  apply andb_true_iff in H. destruct H as [H1 H2]. apply Z.ltb_lt in H1, H2.
  exists (fst kv). split; assumption.
Qed.

Lemma rget_key r l : rget r l <> 0 -> exists kv, In kv l /\ fst kv = r.
Proof.
  induction l as [|kv l IH]; cbn [rget]; intros H; [congruence|].
  destruct (fst kv =? r) eqn:E.
  - exists kv. split; [left; reflexivity|apply Z.eqb_eq; exact E].
  - destruct (IH H) as [kv' [Hin Hk]]. exists kv'. split; [right; exact Hin|exact Hk].
Qed.

Lemma usefulb_complete ts pre ev : useful ts pre ev -> usefulb ts pre ev = true.
Proof.
  unfold usefulb, useful. intros H. destruct (is_evict ev); [|reflexivity]. cbn [negb orb].
  destruct (nth_error ts (ev_rt ev)) as [tk|]; [|reflexivity].
  destruct (ev_entry ts ev) as [e|]; [|reflexivity].
  destruct (H eq_refl tk e eq_refl eq_refl) as [r [H1 H2]].
  pose proof (released_of_nonneg ts pre (t_target tk) r) as Hnn.
  destruct (rget_key r (t_need tk)) as [kv [Hin Hk]]; [lia|].
  apply existsb_exists. exists kv. split; [exact Hin|]. rewrite Hk.
  apply andb_true_iff. split; apply Z.ltb_lt; assumption.
Qed.

Lemma useful_code_spec ts o : useful_code ts o = 0 <-> C11_useful ts o.
Proof.
  unfold useful_code, useful_events_code, C11_useful.
  pose proof (every_splitb_spec (usefulb ts) (useful ts) (o_events o)
                (fun pre ev => conj (usefulb_sound ts pre ev) (usefulb_complete ts pre ev))) as H.
  destruct (every_splitb (usefulb ts) (o_events o)).
  - split; [intros _; apply H; reflexivity|reflexivity].
  - split; [discriminate|]. intros H'. apply H in H'. discriminate.
Qed.

Lemma prop_code_spec ts nt nr o : prop_code ts nt nr o = 0 <-> C11_holds ts nt nr o.
Proof.
  unfold prop_code, C11_holds. rewrite <- safe_code_spec, <- useful_code_spec.
  destruct (safe_code ts nt nr o =? 0) eqn:E.
  - apply Z.eqb_eq in E. rewrite E. tauto.
  - apply Z.eqb_neq in E. tauto.
Qed.

(* ---------- the named consequences, instantiated on the model ---------- *)
Lemma model_split_clause pend okf ts :
  every_split (fun _ ev => listed ts ev) (fst (kill_and_evict pend okf ts))
  /\ every_split in_order (fst (kill_and_evict pend okf ts))
  /\ every_split (fresh ts) (fst (kill_and_evict pend okf ts))
  /\ every_split (needed ts) (fst (kill_and_evict pend okf ts)).
Proof.
  pose proof (model_every_split pend okf ts) as H.
  split; [|split; [|split]]; intros pre ev suf Heq; apply (H pre ev suf Heq).
Qed.

Lemma model_order pend okf ts pre ev mid ev' suf :
  fst (kill_and_evict pend okf ts) = pre ++ ev :: mid ++ ev' :: suf ->
  (ev_j ev < ev_j ev')%nat \/ (ev_j ev = ev_j ev' /\ (ev_k ev < ev_k ev')%nat).
Proof.
  intros Heq. destruct (model_split_clause pend okf ts) as [_ [Ho _]].
  pose proof (order_sorted _ Ho _ _ _ _ _ Heq) as H. unfold pos_ltb in H.
  apply orb_true_iff in H. destruct H as [H|H].
  - left. apply Nat.ltb_lt. exact H.
  - right. apply andb_true_iff in H. destruct H as [H1 H2].
    apply Nat.eqb_eq in H1. apply Nat.ltb_lt in H2. auto.
Qed.

Lemma model_no_double pend okf ts :
  NoDup (taken_of ts (fst (kill_and_evict pend okf ts)))
  /\ forall pre rt j k suf e,
       fst (kill_and_evict pend okf ts) = pre ++ EEvict rt j k true :: suf ->
       entry_at ts j k = Some e ->
       forall ev e', In ev suf -> ev_entry ts ev = Some e' -> e_pod e' <> e_pod e.
Proof.
  destruct (model_split_clause pend okf ts) as [_ [_ [Hf _]]]. split.
  - apply taken_nodup, Hf.
  - apply evicted_once, Hf.
Qed.

Lemma model_needed pend okf ts pre ev suf tk :
  fst (kill_and_evict pend okf ts) = pre ++ ev :: suf -> nth_error ts (ev_rt ev) = Some tk ->
  short tk (released_of ts pre) = true.
Proof.
  intros Heq Htk. destruct (model_split_clause pend okf ts) as [_ [_ [_ Hn]]].
  exact (Hn pre ev suf Heq tk Htk).
Qed.

Lemma model_stop_when_met pend okf ts pre suf j tk :
  fst (kill_and_evict pend okf ts) = pre ++ suf -> nth_error ts j = Some tk ->
  short tk (released_of ts pre) = false ->
  forall ev, In ev suf -> ev_rt ev <> j.
Proof.
  destruct (model_split_clause pend okf ts) as [_ [_ [_ Hn]]]. apply stop_when_met, Hn.
Qed.

Lemma model_pending_counted pend okf ts pre j k suf e :
  fst (kill_and_evict pend okf ts) = pre ++ EPending j k :: suf -> entry_at ts j k = Some e ->
  (forall t r, released_of ts (pre ++ [EPending j k]) t r
               = released_of ts pre t r + agg (funcs_of ts) e t r)
  /\ (forall ev e', In ev suf -> ev_entry ts ev = Some e' -> e_pod e' <> e_pod e).
Proof.
  destruct (model_split_clause pend okf ts) as [_ [_ [Hf _]]]. apply pending_counted, Hf.
Qed.

Lemma model_cross_task pend okf ts j tk :
  nth_error ts j = Some tk ->
  short tk (released_of ts (filter (before_task j) (fst (kill_and_evict pend okf ts)))) = false ->
  forall ev, In ev (fst (kill_and_evict pend okf ts)) -> ev_j ev <> j.
Proof.
  destruct (model_split_clause pend okf ts) as [Hl [Ho [_ Hn]]]. apply cross_task; assumption.
Qed.

Lemma model_account_full pend okf ts :
  (forall t r, s_rel (snd (kill_and_evict pend okf ts)) t r
               = released_of ts (fst (kill_and_evict pend okf ts)) t r)
  /\ s_newly (snd (kill_and_evict pend okf ts))
     = existsb is_success (fst (kill_and_evict pend okf ts)).
Proof.
  destruct (model_steps_ok pend okf ts) as [_ [I1 [_ I3]]]. split; assumption.
Qed.

(* ---------- progress: the loop does not give up early ---------- *)
Section Progress.
  Variables pend okf : nat -> pod -> bool.
  Variable fs : list (nat * target).

  Definition st_le (s s' : st) : Prop :=
    (forall t r, s_rel s t r <= s_rel s' t r) /\ (forall p, In p (s_done s) -> In p (s_done s')).

  Lemma st_le_refl s : st_le s s.
  Proof. split; intros; [lia|assumption]. Qed.

  Lemma st_le_trans a b c : st_le a b -> st_le b c -> st_le a c.
  Proof.
    intros [A1 A2] [B1 B2]. split.
    - intros t r. specialize (A1 t r). specialize (B1 t r). lia.
    - auto.
  Qed.

  Lemma st_le_add s e nq ne nw :
    st_le s (mkSt (radd (s_rel s) (agg fs e)) (e_pod e :: s_done s) nq ne nw).
  Proof.
    split; cbn [s_rel s_done].
    - intros t r. unfold radd. pose proof (agg_nonneg fs e t r). lia.
    - intros p Hp. right. exact Hp.
  Qed.

  Lemma run_pods_mono j tk : forall es k s evs s',
    run_pods pend okf fs j tk k es s = (evs, s') -> st_le s s'.
  Proof.
    induction es as [|e es' IH]; intros k s evs s' Hrun; cbn [run_pods] in Hrun.
    - inversion Hrun; subst. apply st_le_refl.
    - destruct (memZ (e_pod e) (s_done s)); [eapply IH; exact Hrun|].
      destruct (pend (s_nq s) (e_pod e)).
      { match type of Hrun with context [short tk (s_rel ?x)] => set (s1 := x) in * end.
        assert (L : st_le s s1) by apply st_le_add.
        destruct (short tk (s_rel s1)).
        - destruct (run_pods pend okf fs j tk (S k) es' s1) as [evs1 s2] eqn:Hr.
          inversion Hrun; subst. eapply st_le_trans; [exact L|eapply IH; exact Hr].
        - inversion Hrun; subst. exact L. }
      destruct (okf (s_ne s) (e_pod e)).
      { match type of Hrun with context [short tk (s_rel ?x)] => set (s1 := x) in * end.
        assert (L : st_le s s1) by apply st_le_add.
        destruct (short tk (s_rel s1)).
        - destruct (run_pods pend okf fs j tk (S k) es' s1) as [evs1 s2] eqn:Hr.
          inversion Hrun; subst. eapply st_le_trans; [exact L|eapply IH; exact Hr].
        - inversion Hrun; subst. exact L. }
      { match type of Hrun with context [run_pods _ _ _ _ _ _ _ ?x] => set (s1 := x) in * end.
        destruct (run_pods pend okf fs j tk (S k) es' s1) as [evs1 s2] eqn:Hr.
        inversion Hrun; subst. apply IH in Hr. destruct Hr as [R1 R2]. split; assumption. }
  Qed.

  Lemma run_tasks_mono : forall tl j s evs s',
    run_tasks pend okf fs j tl s = (evs, s') -> st_le s s'.
  Proof.
    induction tl as [|tk tl IH]; intros j s evs s' Hrun; cbn [run_tasks] in Hrun.
    - inversion Hrun; subst. apply st_le_refl.
    - destruct (short tk (s_rel s)); [|eapply IH; exact Hrun].
      destruct (run_pods pend okf fs j tk 0 (t_pods tk) s) as [ev1 s1] eqn:Hr1.
      destruct (run_tasks pend okf fs (S j) tl s1) as [ev2 s2] eqn:Hr2.
      inversion Hrun; subst. eapply st_le_trans; [eapply run_pods_mono; exact Hr1|].
      eapply IH; exact Hr2.
  Qed.

  Lemma short_st_le tk s s' : st_le s s' -> short tk (s_rel s') = true -> short tk (s_rel s) = true.
  Proof. intros [L _]. apply short_antitone. exact L. Qed.

  Lemma run_pods_exh j tk : forall es k s evs s',
    run_pods pend okf fs j tk k es s = (evs, s') -> short tk (s_rel s') = true ->
    forall i e, nth_error es i = Some e ->
      In (e_pod e) (s_done s') \/ In (EEvict j j (k + i) false) evs.
  Proof.
    induction es as [|e0 es' IH]; intros k s evs s' Hrun Hs i e Hi; cbn [run_pods] in Hrun.
    - destruct i; discriminate.
    - destruct (memZ (e_pod e0) (s_done s)) eqn:Hm.
      { destruct i as [|i]; cbn [nth_error] in Hi.
        - inversion Hi; subst e0. left. apply (run_pods_mono _ _ _ _ _ _ _ Hrun).
          apply memZ_In. exact Hm.
        - replace (k + S i)%nat with (S k + i)%nat by lia. eapply IH; eauto. }
      destruct (pend (s_nq s) (e_pod e0)).
      { match type of Hrun with context [short tk (s_rel ?x)] => set (s1 := x) in * end.
        destruct (short tk (s_rel s1)) eqn:Hs1.
        - destruct (run_pods pend okf fs j tk (S k) es' s1) as [evs1 s2] eqn:Hr.
          inversion Hrun; subst evs s'. destruct i as [|i]; cbn [nth_error] in Hi.
          + inversion Hi; subst e0. left. apply (run_pods_mono _ _ _ _ _ _ _ Hr).
            left. reflexivity.
          + replace (k + S i)%nat with (S k + i)%nat by lia.
            destruct (IH _ _ _ _ Hr Hs i e Hi) as [H|H]; [left; exact H|right; right; exact H].
        - inversion Hrun; subst evs s'. congruence. }
      destruct (okf (s_ne s) (e_pod e0)).
      { match type of Hrun with context [short tk (s_rel ?x)] => set (s1 := x) in * end.
        destruct (short tk (s_rel s1)) eqn:Hs1.
        - destruct (run_pods pend okf fs j tk (S k) es' s1) as [evs1 s2] eqn:Hr.
          inversion Hrun; subst evs s'. destruct i as [|i]; cbn [nth_error] in Hi.
          + inversion Hi; subst e0. left. apply (run_pods_mono _ _ _ _ _ _ _ Hr).
            left. reflexivity.
          + replace (k + S i)%nat with (S k + i)%nat by lia.
            destruct (IH _ _ _ _ Hr Hs i e Hi) as [H|H]; [left; exact H|right; right; exact H].
        - inversion Hrun; subst evs s'. congruence. }
      { match type of Hrun with context [run_pods _ _ _ _ _ _ _ ?x] => set (s1 := x) in * end.
        destruct (run_pods pend okf fs j tk (S k) es' s1) as [evs1 s2] eqn:Hr.
        inversion Hrun; subst evs s'. destruct i as [|i]; cbn [nth_error] in Hi.
        + right. left. rewrite Nat.add_0_r. reflexivity.
        + replace (k + S i)%nat with (S k + i)%nat by lia.
          destruct (IH _ _ _ _ Hr Hs i e Hi) as [H|H]; [left; exact H|right; right; exact H]. }
  Qed.

  Lemma run_tasks_exh : forall tl j0 s evs s',
    run_tasks pend okf fs j0 tl s = (evs, s') ->
    forall i tk, nth_error tl i = Some tk -> short tk (s_rel s') = true ->
    forall k e, nth_error (t_pods tk) k = Some e ->
      In (e_pod e) (s_done s') \/ In (EEvict (j0 + i) (j0 + i) k false) evs.
  Proof.
    induction tl as [|tk0 tl IH]; intros j0 s evs s' Hrun i tk Hi Hs k e Hk;
      cbn [run_tasks] in Hrun.
    - destruct i; discriminate.
    - destruct (short tk0 (s_rel s)) eqn:Hs0.
      + destruct (run_pods pend okf fs j0 tk0 0 (t_pods tk0) s) as [ev1 s1] eqn:Hr1.
        destruct (run_tasks pend okf fs (S j0) tl s1) as [ev2 s2] eqn:Hr2.
        inversion Hrun; subst evs s'. destruct i as [|i]; cbn [nth_error] in Hi.
        * inversion Hi; subst tk0. rewrite Nat.add_0_r.
          pose proof (run_tasks_mono _ _ _ _ _ Hr2) as L.
          assert (Hs1 : short tk (s_rel s1) = true) by (eapply short_st_le; eauto).
          destruct (run_pods_exh _ _ _ _ _ _ _ Hr1 Hs1 k e Hk) as [H|H].
          -- left. apply L. exact H.
          -- right. apply in_or_app. left. exact H.
        * replace (j0 + S i)%nat with (S j0 + i)%nat by lia.
          destruct (IH _ _ _ _ Hr2 i tk Hi Hs k e Hk) as [H|H]; [left; exact H|].
          right. apply in_or_app. right. exact H.
      + destruct i as [|i]; cbn [nth_error] in Hi.
        * inversion Hi; subst tk0. pose proof (run_tasks_mono _ _ _ _ _ Hrun) as L.
          assert (short tk (s_rel s) = true) by (eapply short_st_le; eauto). congruence.
        * replace (j0 + S i)%nat with (S j0 + i)%nat by lia. eapply IH; eauto.
  Qed.
End Progress.

Lemma model_exhaustive pend okf ts j tk k e :
  nth_error ts j = Some tk -> nth_error (t_pods tk) k = Some e ->
  short tk (s_rel (snd (kill_and_evict pend okf ts))) = true ->
  In (e_pod e) (s_done (snd (kill_and_evict pend okf ts)))
  \/ In (EEvict j j k false) (fst (kill_and_evict pend okf ts)).
Proof.
  intros Hj Hk Hs. unfold kill_and_evict in *.
  destruct (run_tasks pend okf (funcs_of ts) 0 ts st0) as [evs s'] eqn:Hrun. cbn [fst snd] in *.
  exact (run_tasks_exh pend okf (funcs_of ts) ts 0%nat st0 evs s' Hrun j tk Hj Hs k e Hk).
Qed.

(* ---------- an already-evicted hit is always backed by a true IsPodEvicted answer ---------- *)
Section PendingAnswer.
  Variables pend okf : nat -> pod -> bool.
  Variable fs : list (nat * target).

  Lemma run_pods_pending j tk : forall es k s evs s',
    (forall i, nth_error es i = nth_error (t_pods tk) (k + i)) ->
    run_pods pend okf fs j tk k es s = (evs, s') ->
    forall j' k', In (EPending j' k') evs ->
      j' = j /\ exists e n, nth_error (t_pods tk) k' = Some e /\ pend n (e_pod e) = true.
  Proof.
    induction es as [|e0 es' IH]; intros k s evs s' Hes Hrun j' k' Hin; cbn [run_pods] in Hrun.
    - inversion Hrun; subst. destruct Hin.
    - assert (Hk : nth_error (t_pods tk) k = Some e0).
      { rewrite <- (Nat.add_0_r k). rewrite <- Hes. reflexivity. }
      assert (Hes' : forall i, nth_error es' i = nth_error (t_pods tk) (S k + i)).
      { intros i. replace (S k + i)%nat with (k + S i)%nat by lia. rewrite <- Hes. reflexivity. }
      destruct (memZ (e_pod e0) (s_done s)); [eapply IH; eauto|].
      destruct (pend (s_nq s) (e_pod e0)) eqn:Hp.
      { match type of Hrun with context [short tk (s_rel ?x)] => set (s1 := x) in * end.
        assert (Hhere : j' = j /\ k' = k ->
                        j' = j /\ exists e n, nth_error (t_pods tk) k' = Some e /\ pend n (e_pod e) = true).
        { intros [-> ->]. split; [reflexivity|]. exists e0, (s_nq s). auto. }
        destruct (short tk (s_rel s1)).
        - destruct (run_pods pend okf fs j tk (S k) es' s1) as [evs1 s2] eqn:Hr.
          inversion Hrun; subst evs s'. destruct Hin as [Heq|Hin].
          + inversion Heq; subst. apply Hhere. auto.
          + eapply IH; eauto.
        - inversion Hrun; subst evs s'. destruct Hin as [Heq|[]]. inversion Heq; subst.
          apply Hhere. auto. }
      destruct (okf (s_ne s) (e_pod e0)).
      { match type of Hrun with context [short tk (s_rel ?x)] => set (s1 := x) in * end.
        destruct (short tk (s_rel s1)).
        - destruct (run_pods pend okf fs j tk (S k) es' s1) as [evs1 s2] eqn:Hr.
          inversion Hrun; subst evs s'. destruct Hin as [Heq|Hin]; [discriminate|].
          eapply IH; eauto.
        - inversion Hrun; subst evs s'. destruct Hin as [Heq|[]]. discriminate. }
      { match type of Hrun with context [run_pods _ _ _ _ _ _ _ ?x] => set (s1 := x) in * end.
        destruct (run_pods pend okf fs j tk (S k) es' s1) as [evs1 s2] eqn:Hr.
        inversion Hrun; subst evs s'. destruct Hin as [Heq|Hin]; [discriminate|].
        eapply IH; eauto. }
  Qed.

  Lemma run_tasks_pending (ts : list task) : forall tl j s evs s',
    (forall i, nth_error tl i = nth_error ts (j + i)) ->
    run_tasks pend okf fs j tl s = (evs, s') ->
    forall j' k', In (EPending j' k') evs ->
      exists e n, entry_at ts j' k' = Some e /\ pend n (e_pod e) = true.
  Proof.
    induction tl as [|tk tl IH]; intros j s evs s' Htl Hrun j' k' Hin; cbn [run_tasks] in Hrun.
    - inversion Hrun; subst. destruct Hin.
    - assert (Hj : nth_error ts j = Some tk).
      { rewrite <- (Nat.add_0_r j). rewrite <- Htl. reflexivity. }
      assert (Htl' : forall i, nth_error tl i = nth_error ts (S j + i)).
      { intros i. replace (S j + i)%nat with (j + S i)%nat by lia. rewrite <- Htl. reflexivity. }
      destruct (short tk (s_rel s)); [|eapply IH; eauto].
      destruct (run_pods pend okf fs j tk 0 (t_pods tk) s) as [ev1 s1] eqn:Hr1.
      destruct (run_tasks pend okf fs (S j) tl s1) as [ev2 s2] eqn:Hr2.
      inversion Hrun; subst evs s'. apply in_app_or in Hin. destruct Hin as [Hin|Hin].
      + destruct (run_pods_pending j tk (t_pods tk) 0%nat s ev1 s1 (fun i => eq_refl) Hr1 j' k' Hin)
          as [-> [e [n [He Hp]]]].
        exists e, n. unfold entry_at. rewrite Hj. auto.
      + eapply IH; eauto.
  Qed.
End PendingAnswer.

Lemma model_pending_answer pend okf ts j k :
  In (EPending j k) (fst (kill_and_evict pend okf ts)) ->
  exists e n, entry_at ts j k = Some e /\ pend n (e_pod e) = true.
Proof.
  unfold kill_and_evict.
  destruct (run_tasks pend okf (funcs_of ts) 0 ts st0) as [evs s'] eqn:Hrun. cbn [fst].
  exact (run_tasks_pending pend okf (funcs_of ts) ts ts 0%nat st0 evs s' (fun i => eq_refl) Hrun j k).
Qed.
