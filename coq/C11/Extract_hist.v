(* C11, stream "hist" — 1..3 consecutive KillAndEvictPods rounds against the real
   DefaultEvictionExecutor + Evictor on a fake API server.
   input :  nt nr R   R x ( T  T x task )   g (0|1){g}      task as in stream "kill"; the c-th
                                                            eviction API call (global) is rejected
   observable : R x ( loop observable as in stream "kill"   a (pod){a} )   accepted API calls *)
From Coq Require Import List ZArith Bool.
From Verif Require Import Lib.Wire C11.Model C11.Spec C11.WireKill C11.ModelHist.
Import ListNotations.
Open Scope Z_scope.

Definition dec_round (nr : nat) (l : list Z) : list task * list Z :=
  match l with
  | T :: t => decode_many (dec_task (Z.to_nat T) nr) (Z.to_nat T) t
  | [] => ([], [])
  end.

Record hinput := mkHinput { h_nt : nat; h_nr : nat; h_rounds : list (list task); h_fails : list Z }.

Definition decode (inp : list Z) : hinput :=
  match inp with
  | nt :: nr :: R :: t =>
      let '(rs, r1) := decode_many (dec_round (Z.to_nat nr)) (Z.to_nat R) t in
      let '(fa, _) := take_list r1 in
      mkHinput (Z.to_nat nt) (Z.to_nat nr) rs fa
  | _ => mkHinput O O [] []
  end.

Definition fails_of (i : hinput) : nat -> bool := fun n => zb (nth n (h_fails i) 0).

Definition enc_round (r : round_obs) : list Z := enc_obs (r_obs r) ++ encode_list (r_api r).

Definition run_case (inp : list Z) : list Z :=
  let i := decode inp in
  flat_map enc_round (model_hist (h_nt i) (h_nr i) (fails_of i) (h_rounds i)).

(* one round's observable: E events, flag, nt keys, nt*nr amounts, then the accepted list *)
Definition dec_round_obs (nt nr : nat) (ts : list task) (l : list Z) : round_obs * list Z :=
  match l with
  | n :: t =>
      let '(evs, r1) := dec_events (Z.to_nat n) t in
      match r1 with
      | nw :: r2 =>
          let '(keys, r3) := take_n nt r2 in
          let '(tbl, r4) := take_n (nt * nr) r3 in
          let '(api, r5) := take_list r4 in
          (mkRound ts (mkObs evs (zb nw) (map zb keys) tbl) api, r5)
      | [] => (mkRound ts (mkObs evs false [] []) [], [])
      end
  | [] => (mkRound ts (mkObs [] false [] []) [], [])
  end.

Fixpoint dec_hist (nt nr : nat) (rounds : list (list task)) (l : list Z) : list round_obs :=
  match rounds with
  | [] => []
  | ts :: rest => let '(r, l') := dec_round_obs nt nr ts l in r :: dec_hist nt nr rest l'
  end.

Definition prop_case (inp obs : list Z) : Z :=
  let i := decode inp in
  let h := dec_hist (h_nt i) (h_nr i) (h_rounds i) obs in
  if negb (eq_listZ (flat_map enc_round h) obs) then 9
  else hist_prop_code (h_nt i) (h_nr i) h.

Definition nontrivial_case (inp : list Z) : bool :=
  let i := decode inp in
  let h := model_hist (h_nt i) (h_nr i) (fails_of i) (h_rounds i) in
  existsb (fun r => existsb (fun ev => match ev with EPending _ _ => true | _ => false end)
                            (o_events (r_obs r))) h.

(* known finding D6 only when the implementation's WHOLE observable equals the faithful model's *)
Definition finding_sig (inp obs : list Z) : Z :=
  if eq_listZ (run_case inp) obs && (prop_case inp obs =? 6) then 1 else 0.

Require Extraction.
Require Import ExtrOcamlBasic.
Extraction "model.ml" run_case prop_case nontrivial_case finding_sig.
