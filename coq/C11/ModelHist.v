(* C11 — several consecutive KillAndEvictPods rounds against the REAL executor
   (DefaultEvictionExecutor{OnlyEvictByAPI} + Evictor, util/evict.go:86-100, util/evictor.go:64-84).
   The executor is no longer a free oracle: its state is the set E of pods whose eviction API
   call was ACCEPTED earlier (podsEvicted cache, within its TTL), IsPodEvicted(p) = p in E, and
   only the API server's verdict on each eviction call remains an oracle ([fails], indexed by
   the global number of the call).  Within one round a pod accepted in that round is already in
   evictedPodsMp (pod key and UID are in bijection), so IsPodEvicted is only ever asked about
   pods not accepted in this round: the answers of a round are those of E at its start.
   Model + decision procedure; no proofs in this file. *)
From Coq Require Import List ZArith Bool.
From Verif Require Import C11.Model C11.Spec.
Import ListNotations.
Open Scope Z_scope.

Definition ev_pod (ts : list task) (ev : event) : pod :=
  match ev_entry ts ev with Some e => e_pod e | None => -1 end.

(* pods whose eviction call was accepted in a round, in call order = what the API server saw *)
Definition accepted (ts : list task) (evs : list event) : list pod :=
  map (ev_pod ts) (filter is_success evs).

Definition round_run (fails : nat -> bool) (E : list pod) (off : nat) (ts : list task)
  : list event * st :=
  kill_and_evict (fun _ p => memZ p E) (fun n _ => negb (fails (off + n)%nat)) ts.

Fixpoint run_hist (fails : nat -> bool) (E : list pod) (off : nat) (rounds : list (list task))
  : list (list event * st) :=
  match rounds with
  | [] => []
  | ts :: rest =>
    let res := round_run fails E off ts in
    res :: run_hist fails (E ++ accepted ts (fst res)) (off + s_ne (snd res)) rest
  end.

(* one observed round: the task tables, the loop observable, the evictions the API accepted *)
Record round_obs := mkRound { r_tasks : list task; r_obs : obs; r_api : list pod }.

Definition pending_backed (ts : list task) (E : list pod) (evs : list event) : bool :=
  forallb (fun ev => match ev with
                     | EPending _ _ => memZ (ev_pod ts ev) E
                     | EEvict _ _ _ _ => true
                     end) evs.

(* clauses 1-5 per round, then
     7  a pod is counted as pending release only if an eviction call for it was accepted in an
        earlier round of the history
     8  the executor's results are truthful: the accepted API calls are exactly the successful
        Evict events, in order *)
Fixpoint hist_code (nt nr : nat) (E : list pod) (h : list round_obs) : Z :=
  match h with
  | [] => 0
  | r :: rest =>
    let ts := r_tasks r in let o := r_obs r in
    if negb (safe_code ts nt nr o =? 0) then safe_code ts nt nr o
    else if negb (pending_backed ts E (o_events o)) then 7
    else if negb (eq_listZ (r_api r) (accepted ts (o_events o))) then 8
    else hist_code nt nr (E ++ accepted ts (o_events o)) rest
  end.

Definition hist_useful_code (h : list round_obs) : Z :=
  if forallb (fun r => useful_code (r_tasks r) (r_obs r) =? 0) h then 0 else 6.

Definition hist_prop_code (nt nr : nat) (h : list round_obs) : Z :=
  if hist_code nt nr [] h =? 0 then hist_useful_code h else hist_code nt nr [] h.

Definition model_round (nt nr : nat) (ts : list task) (res : list event * st) : round_obs :=
  mkRound ts (obs_of nt nr ts res) (accepted ts (fst res)).

Definition model_hist (nt nr : nat) (fails : nat -> bool) (rounds : list (list task))
  : list round_obs :=
  map (fun p => model_round nt nr (fst p) (snd p)) (combine rounds (run_hist fails [] O rounds)).
