(* C11, stream "kill" — flat-integer interface of the KillAndEvictPods model.

   input :  nt nr T
            T x task  :  target  n (r v){n}  P  P x entry
               entry  :  pod  (v){T*nr}      task i's GetPodResourceFunc on this info, resource 0..nr-1
            oracle    :  a (pod){a}          pods for which IsPodEvicted answers true
                         f (0|1){f}          the q-th IsPodEvicted answer is flipped
                         g (0|1){g}          the c-th Evict call fails
   observable : E  E x (kind rt j k ok)      kind 1 = IsPodEvicted true (rt=j, ok=1), 2 = Evict
                newly  nt x key-present  nt*nr x amount (row-major)                          *)
From Coq Require Import List ZArith Bool.
From Verif Require Import Lib.Wire C11.Model C11.Spec C11.WireKill.
Import ListNotations.
Open Scope Z_scope.

Record input := mkInput {
  i_nt : nat; i_nr : nat; i_tasks : list task;
  i_already : list Z; i_flips : list Z; i_fails : list Z }.

Definition decode (inp : list Z) : input :=
  match inp with
  | nt :: nr :: T :: t =>
      let nT := Z.to_nat T in let nnr := Z.to_nat nr in
      let '(ts, r1) := decode_many (dec_task nT nnr) nT t in
      let '(al, r2) := take_list r1 in
      let '(fl, r3) := take_list r2 in
      let '(fa, _) := take_list r3 in
      mkInput (Z.to_nat nt) nnr ts al fl fa
  | _ => mkInput O O [] [] [] []
  end.

Definition pend_of (i : input) : nat -> pod -> bool :=
  fun n p => xorb (memZ p (i_already i)) (zb (nth n (i_flips i) 0)).
Definition okf_of (i : input) : nat -> pod -> bool :=
  fun n _ => negb (zb (nth n (i_fails i) 0)).

Definition model_obs (i : input) : obs :=
  obs_of (i_nt i) (i_nr i) (i_tasks i) (kill_and_evict (pend_of i) (okf_of i) (i_tasks i)).

Definition run_case (inp : list Z) : list Z := enc_obs (model_obs (decode inp)).

(* a malformed observable (crash marker, wrong arity) decodes to something whose re-encoding
   differs from it: reported as clause 9 *)
Definition prop_case (inp obs : list Z) : Z :=
  let i := decode inp in
  let o := dec_obs (i_nt i) obs in
  if negb (eq_listZ (enc_obs o) obs) then 9
  else prop_code (i_tasks i) (i_nt i) (i_nr i) o.

Definition nontrivial_case (inp : list Z) : bool :=
  (1 <? Z.of_nat (length (o_events (model_obs (decode inp))))).

(* known finding D6: the implementation's whole observable equals the faithful model's, every
   other clause holds and some Evict call takes a victim that releases nothing of what its task
   is still short of *)
Definition finding_sig (inp obs : list Z) : Z :=
  let i := decode inp in
  let o := dec_obs (i_nt i) obs in
  if eq_listZ (run_case inp) obs
     && eq_listZ (enc_obs o) obs
     && (safe_code (i_tasks i) (i_nt i) (i_nr i) o =? 0)
     && negb (useful_code (i_tasks i) o =? 0)
  then 1 else 0.

Require Extraction.
Require Import ExtrOcamlBasic.
Extraction "model.ml" run_case prop_case nontrivial_case finding_sig.
