//go:build verif

// C13 — wire codec shared by the two C13 harnesses (pods, quantities, labels <-> flat integers;
// format documented in coq/C13/Codec.v).  The same text is kept in two files because the two
// webhooks live in two Go packages and the harness must be in-package:
//   zz_verif_c13_codec_m_test.go (package mutating)  -- edit this one
//   zz_verif_c13_codec_v_test.go (package validating) -- sed 's/^package mutating/package validating/'
package validating

import (
	"encoding/json"
	"fmt"
	"math/big"
	"sort"
	"strconv"
	"strings"

	corev1 "k8s.io/api/core/v1"
	"k8s.io/apimachinery/pkg/api/resource"
	metav1 "k8s.io/apimachinery/pkg/apis/meta/v1"

	"github.com/koordinator-sh/koordinator/apis/extension"
)

type vtC13Dec struct {
	in  []int64
	pos int
}

func (d *vtC13Dec) next() int64 {
	if d.pos >= len(d.in) {
		d.pos++
		return 0
	}
	v := d.in[d.pos]
	d.pos++
	return v
}

func (d *vtC13Dec) count() int {
	n := d.next()
	if n < 0 || n > 64 {
		panic("verif C13: bad count")
	}
	return int(n)
}

func (d *vtC13Dec) str() string {
	n := d.next()
	if n < 0 || n > 256 {
		panic("verif C13: bad string length")
	}
	b := make([]byte, n)
	for i := range b {
		b[i] = byte(d.next())
	}
	return string(b)
}

func vtC13EncStr(s string) []int64 {
	out := []int64{int64(len(s))}
	for i := 0; i < len(s); i++ {
		out = append(out, int64(s[i]))
	}
	return out
}

var vtC13Suffix = []string{"n", "u", "m", "", "k", "M", "G", "Ki", "Mi", "Gi"}

// vtC13QtyString renders (mantissa, code) the way a user would write the quantity.
func vtC13QtyString(mant, code int64) string {
	if mant < 0 {
		panic("verif C13: negative quantity")
	}
	switch {
	case code >= 0 && code <= 9:
		return strconv.FormatInt(mant, 10) + vtC13Suffix[code]
	case code >= 10 && code <= 13:
		digits := map[int64]int{10: 1, 11: 3, 12: 4, 13: 9}[code]
		p := int64(1)
		for i := 0; i < digits; i++ {
			p *= 10
		}
		return fmt.Sprintf("%d.%0*d", mant/p, digits, mant%p)
	case code == 14: // exponent notation
		return strconv.FormatInt(mant, 10) + "e-3"
	case code == 15:
		return strconv.FormatInt(mant, 10) + "e3"
	case code == 16:
		return strconv.FormatInt(mant, 10) + "Ti"
	case code == 17:
		return strconv.FormatInt(mant, 10) + "Pi"
	case code == 18: // explicit sign
		return "+" + strconv.FormatInt(mant, 10)
	case code == 19:
		return strconv.FormatInt(mant, 10) + "E-6"
	}
	return strconv.FormatInt(mant, 10)
}

func vtC13Qty(mant, code int64) resource.Quantity {
	return resource.MustParse(vtC13QtyString(mant, code))
}

func vtC13ResName(id int64) corev1.ResourceName {
	switch id {
	case 0:
		return corev1.ResourceCPU
	case 1:
		return corev1.ResourceMemory
	case 2:
		return extension.BatchCPU
	case 3:
		return extension.BatchMemory
	case 4:
		return extension.MidCPU
	case 5:
		return extension.MidMemory
	case 6:
		return corev1.ResourceName("verif.io/other")
	}
	return corev1.ResourceName(fmt.Sprintf("verif.io/r%d", id))
}

// vtC13AnnKey: 0 = the summary annotation, >= 1 any other key.
func vtC13AnnKey(id int64) string {
	if id == 0 {
		return extension.AnnotationExtendedResourceSpec
	}
	return fmt.Sprintf("verif/a%d", id)
}

func vtC13LabelKey(id int64) string {
	switch id {
	case 0:
		return extension.LabelPodQoS
	case 1:
		return extension.LabelPodPriorityClass
	case 2:
		return extension.LabelPodPriority
	}
	return fmt.Sprintf("verif/l%d", id)
}

func (d *vtC13Dec) resList() corev1.ResourceList {
	n := d.count()
	if n == 0 {
		return nil
	}
	rl := corev1.ResourceList{}
	for i := 0; i < n; i++ {
		k, m, c := d.next(), d.next(), d.next()
		rl[vtC13ResName(k)] = vtC13Qty(m, c)
	}
	return rl
}

func (d *vtC13Dec) labels() map[string]string {
	n := d.count()
	if n == 0 {
		return nil
	}
	m := map[string]string{}
	for i := 0; i < n; i++ {
		k := d.next()
		m[vtC13LabelKey(k)] = d.str()
	}
	return m
}

func (d *vtC13Dec) containers(prefix string) []corev1.Container {
	n := d.count()
	var cs []corev1.Container
	for i := 0; i < n; i++ {
		sidecar := d.next() != 0
		c := corev1.Container{Name: fmt.Sprintf("%s%02d", prefix, i)}
		c.Resources.Requests = d.resList()
		c.Resources.Limits = d.resList()
		if sidecar {
			always := corev1.ContainerRestartPolicyAlways
			c.RestartPolicy = &always
		}
		cs = append(cs, c)
	}
	return cs
}

func (d *vtC13Dec) optQty() *resource.Quantity {
	p, m, c := d.next(), d.next(), d.next()
	if p == 0 {
		return nil
	}
	q := vtC13Qty(m, c)
	return &q
}

// pod decodes one pod and passes it through JSON, as the admission decoder does.
func (d *vtC13Dec) pod() *corev1.Pod {
	pod := &corev1.Pod{ObjectMeta: metav1.ObjectMeta{Namespace: "verif-ns", Name: "p"}}
	pod.Labels = d.labels()
	if present, v := d.next(), d.next(); present != 0 {
		p := int32(v)
		pod.Spec.Priority = &p
	}
	pod.Status.QOSClass = corev1.PodQOSClass(d.str())
	pod.Spec.InitContainers = d.containers("i")
	pod.Spec.Containers = d.containers("c")
	pod.Spec.Overhead = d.resList()
	if d.next() != 0 { // spec.resources (pod-level resources), possibly empty
		pod.Spec.Resources = &corev1.ResourceRequirements{}
		pod.Spec.Resources.Requests = d.resList()
		pod.Spec.Resources.Limits = d.resList()
	}
	anns := map[string]string{}
	if v, ok := d.annValue(); ok {
		anns[extension.AnnotationExtendedResourceSpec] = v
	}
	for i, n := 0, d.count(); i < n; i++ {
		k := d.next()
		v, ok := d.annValue()
		if ok && k != 0 { // the summary key is carried by the field before
			anns[vtC13AnnKey(k)] = v
		}
	}
	if len(anns) > 0 {
		pod.Annotations = anns
	}
	return vtC13RoundTrip(pod)
}

// annValue decodes one annotation value: [0] absent, [1] a string that is no JSON,
// [2 n entries] the JSON of an extended-resource-spec.
func (d *vtC13Dec) annValue() (string, bool) {
	switch d.next() {
	case 1:
		return "{not json", true
	case 2:
		n := d.count()
		spec := &extension.ExtendedResourceSpec{Containers: map[string]extension.ExtendedResourceContainerSpec{}}
		for i := 0; i < n; i++ {
			idx := d.next()
			e := extension.ExtendedResourceContainerSpec{}
			put := func(rl *corev1.ResourceList, name corev1.ResourceName, q *resource.Quantity) {
				if q == nil {
					return
				}
				if *rl == nil {
					*rl = corev1.ResourceList{}
				}
				(*rl)[name] = *q
			}
			put(&e.Requests, extension.BatchCPU, d.optQty())
			put(&e.Requests, extension.BatchMemory, d.optQty())
			put(&e.Limits, extension.BatchCPU, d.optQty())
			put(&e.Limits, extension.BatchMemory, d.optQty())
			spec.Containers[fmt.Sprintf("c%02d", idx)] = e
		}
		if n == 0 {
			spec.Containers = nil
		}
		data, err := json.Marshal(spec)
		if err != nil {
			panic(err)
		}
		return string(data), true
	}
	return "", false
}

func vtC13RoundTrip(pod *corev1.Pod) *corev1.Pod {
	data, err := json.Marshal(pod)
	if err != nil {
		panic(err)
	}
	out := &corev1.Pod{}
	if err := json.Unmarshal(data, out); err != nil {
		panic(err)
	}
	return out
}

var vtC13Limb = new(big.Int).Exp(big.NewInt(10), big.NewInt(18), nil)

// vtC13EncAmount: (present, hi, lo) with amount = hi*10^18 + lo nano-units, exact.
func vtC13EncAmount(rl corev1.ResourceList, name corev1.ResourceName) []int64 {
	q, ok := rl[name]
	if !ok {
		return []int64{0, 0, 0}
	}
	dec := q.AsDec()
	scale := int64(dec.Scale()) // value = unscaled * 10^-scale
	if scale > 9 {
		panic("verif C13: quantity finer than nano")
	}
	v := new(big.Int).Set(dec.UnscaledBig())
	v.Mul(v, new(big.Int).Exp(big.NewInt(10), big.NewInt(9-scale), nil))
	hi, lo := new(big.Int).DivMod(v, vtC13Limb, new(big.Int))
	if !hi.IsInt64() {
		panic("verif C13: quantity out of range")
	}
	return []int64{1, hi.Int64(), lo.Int64()}
}

func vtC13EncResList(rl corev1.ResourceList) []int64 {
	var out []int64
	for k := int64(0); k < 7; k++ {
		out = append(out, vtC13EncAmount(rl, vtC13ResName(k))...)
	}
	return out
}

func vtC13EncContainers(cs []corev1.Container) []int64 {
	out := []int64{int64(len(cs))}
	for i := range cs {
		out = append(out, vtC13EncResList(cs[i].Resources.Requests)...)
		out = append(out, vtC13EncResList(cs[i].Resources.Limits)...)
	}
	return out
}

// vtC13EncPod projects a pod on what the property talks about.
func vtC13EncPod(pod *corev1.Pod) []int64 {
	var out []int64
	for k := int64(0); k < 5; k++ {
		v, ok := pod.Labels[vtC13LabelKey(k)]
		out = append(out, vtB(ok))
		out = append(out, vtC13EncStr(v)...)
	}
	if pod.Spec.Priority != nil {
		out = append(out, 1, int64(*pod.Spec.Priority))
	} else {
		out = append(out, 0, 0)
	}
	out = append(out, vtC13EncContainers(pod.Spec.InitContainers)...)
	out = append(out, vtC13EncContainers(pod.Spec.Containers)...)
	out = append(out, vtC13EncResList(pod.Spec.Overhead)...)
	if pod.Spec.Resources != nil {
		out = append(out, 1)
		out = append(out, vtC13EncResList(pod.Spec.Resources.Requests)...)
		out = append(out, vtC13EncResList(pod.Spec.Resources.Limits)...)
	} else {
		out = append(out, 0)
		out = append(out, vtC13EncResList(nil)...)
		out = append(out, vtC13EncResList(nil)...)
	}
	if _, ok := pod.Annotations[extension.AnnotationExtendedResourceSpec]; !ok {
		return append(out, 0)
	}
	spec, err := extension.GetExtendedResourceSpec(pod.Annotations)
	if err != nil {
		return append(out, 2)
	}
	names := make([]string, 0, len(spec.Containers))
	for name := range spec.Containers {
		names = append(names, name)
	}
	sort.Strings(names)
	out = append(out, 1, int64(len(names)))
	for _, name := range names {
		idx := int64(-1)
		if strings.HasPrefix(name, "c") {
			if v, err := strconv.ParseInt(name[1:], 10, 64); err == nil {
				idx = v
			}
		}
		e := spec.Containers[name]
		out = append(out, idx)
		out = append(out, vtC13EncAmount(e.Requests, extension.BatchCPU)...)
		out = append(out, vtC13EncAmount(e.Requests, extension.BatchMemory)...)
		out = append(out, vtC13EncAmount(e.Limits, extension.BatchCPU)...)
		out = append(out, vtC13EncAmount(e.Limits, extension.BatchMemory)...)
	}
	return out
}

// ---------------------------------------------------------------- generator side

type vtC13Rand interface {
	Intn(n int) int
	Int63n(n int64) int64
}

func vtC13Pick(r vtC13Rand, xs []string) string { return xs[r.Intn(len(xs))] }

var vtC13QoSValues = []string{
	string(extension.QoSLSE), string(extension.QoSLSR), string(extension.QoSLS), string(extension.QoSBE),
	string(extension.QoSSystem), "", "lsr", "BEE", string(extension.PriorityBatch),
}
var vtC13ClassValues = []string{
	string(extension.PriorityProd), string(extension.PriorityMid), string(extension.PriorityBatch),
	string(extension.PriorityFree), "", "koord-bogus", "KOORD-PROD", string(extension.QoSBE),
}

// vtC13GenPriority: values across and between the class bands, boundary-biased.
func vtC13GenPriority(r vtC13Rand) int64 {
	bounds := []int64{
		int64(extension.PriorityProdValueMin), int64(extension.PriorityProdValueMax),
		int64(extension.PriorityMidValueMin), int64(extension.PriorityMidValueMax),
		int64(extension.PriorityBatchValueMin), int64(extension.PriorityBatchValueMax),
		int64(extension.PriorityFreeValueMin), int64(extension.PriorityFreeValueMax),
	}
	switch r.Intn(4) {
	case 0:
		return bounds[r.Intn(len(bounds))] + int64(r.Intn(3)) - 1
	case 1:
		return bounds[2*r.Intn(4)] + r.Int63n(1000)
	case 2:
		return r.Int63n(12000) - 500
	}
	return []int64{0, -1, 1, 2147483647, -2147483648, 2000000000, 10000, 6500, 4500}[r.Intn(9)]
}

// vtC13GenQty: (mant, code); cpuLike keeps the value small enough for MilliValue.
func vtC13GenQty(r vtC13Rand, cpuLike bool, whole bool) (int64, int64) {
	if whole {
		switch r.Intn(4) {
		case 0:
			return int64(1 + r.Intn(8)), 3
		case 1:
			return int64(1+r.Intn(8)) * 1000, 2
		case 2:
			return int64(1+r.Intn(4)) * 10, 10
		}
		return int64(r.Intn(4)), 3
	}
	if cpuLike {
		switch r.Intn(10) {
		case 0:
			return 0, 3
		case 1:
			return int64(1 + r.Intn(16)), 3
		case 2, 3:
			return int64(r.Intn(64000)), 2
		case 4:
			return int64(r.Intn(5000)), 1 // micro: fractions of a milli-core
		case 5:
			return int64(r.Intn(3000000)), 0
		case 6:
			return int64(r.Intn(100)), 10
		case 7:
			return int64(r.Intn(100000)), 12 // 0.0005 style
		case 8:
			return int64(r.Intn(2000000000)), 13
		}
		switch r.Intn(4) { // unusual but legal spellings
		case 0:
			return int64(r.Intn(64000)), 14
		case 1:
			return int64(r.Intn(5000000)), 19
		case 2:
			return int64(r.Intn(16)), 18
		}
		return int64(r.Intn(4)), 4
	}
	switch r.Intn(10) {
	case 0:
		return 0, 3
	case 1:
		return int64(1 + r.Intn(4096)), 8
	case 2:
		return int64(1 + r.Intn(512)), 9
	case 3:
		return int64(r.Intn(1000000)), 7
	case 4:
		return r.Int63n(1 << 41), 3
	case 5:
		return int64(r.Intn(1000)), 5
	case 6:
		return int64(r.Intn(100)), 6
	case 7:
		return int64(r.Intn(5000)), 2 // fractional bytes
	case 8:
		return int64(r.Intn(100000)), 11
	}
	switch r.Intn(5) { // unusual but legal spellings and large binary suffixes
	case 0:
		return int64(r.Intn(1000000)), 15
	case 1:
		return int64(1 + r.Intn(64)), 16
	case 2:
		return int64(1 + r.Intn(8)), 17
	case 3:
		return int64(r.Intn(1 << 30)), 18
	}
	return int64(r.Intn(1000)), 4
}

// vtC13GenResList emits a wire reslist. shape: 0 native, 1 batch, 2 mid, 3 mixed, 4 whole-cpu native
func vtC13GenResList(r vtC13Rand, shape int, isLimit bool) []int64 {
	type ent struct{ k, m, c int64 }
	var es []ent
	add := func(k int64, cpuLike, whole bool) {
		m, c := vtC13GenQty(r, cpuLike, whole)
		es = append(es, ent{k, m, c})
	}
	has := func(p int) bool { return r.Intn(100) < p }
	switch shape {
	case 0, 4:
		if has(80) {
			add(0, true, shape == 4)
		}
		if has(70) {
			add(1, false, false)
		}
	case 1:
		if has(80) {
			add(2, true, false)
		}
		if has(70) {
			add(3, false, false)
		}
	case 2:
		if has(80) {
			add(4, true, false)
		}
		if has(70) {
			add(5, false, false)
		}
	default:
		for k := int64(0); k < 7; k++ {
			if has(30) {
				add(k, k%2 == 0, false)
			}
		}
	}
	if has(10) {
		add(6, false, false)
	}
	if has(3) && len(es) > 0 { // duplicate key: the later entry wins
		add(es[0].k, es[0].k%2 == 0, false)
	}
	out := []int64{int64(len(es))}
	for _, e := range es {
		out = append(out, e.k, e.m, e.c)
	}
	return out
}

func vtC13GenContainers(r vtC13Rand, n int, shape int, allowSidecar bool) []int64 {
	out := []int64{int64(n)}
	for i := 0; i < n; i++ {
		sidecar := int64(0)
		if allowSidecar && r.Intn(3) == 0 {
			sidecar = 1
		}
		out = append(out, sidecar)
		sh := shape
		if r.Intn(8) == 0 {
			sh = r.Intn(5)
		}
		switch r.Intn(6) {
		case 0: // limits only
			out = append(out, 0)
			out = append(out, vtC13GenResList(r, sh, true)...)
		case 1: // requests only
			out = append(out, vtC13GenResList(r, sh, false)...)
			out = append(out, 0)
		case 2: // nothing
			if r.Intn(2) == 0 {
				out = append(out, 0, 0)
				break
			}
			fallthrough
		default:
			out = append(out, vtC13GenResList(r, sh, false)...)
			out = append(out, vtC13GenResList(r, sh, true)...)
		}
	}
	return out
}

// vtC13GenAnnValue emits an annotation value: absent unless a draw from [0,scale) is below 6
// (0: no JSON, 1..5: a spec).
func vtC13GenAnnValue(r vtC13Rand, scale int) []int64 {
	var out []int64
	switch r.Intn(scale) {
	case 0:
		out = append(out, 1)
	case 1, 2, 3, 4, 5:
		n := r.Intn(3)
		out = append(out, 2, int64(n))
		for i := 0; i < n; i++ {
			out = append(out, int64(r.Intn(4)))
			for j := 0; j < 4; j++ {
				if r.Intn(2) == 0 {
					m, c := vtC13GenQty(r, j%2 == 0, false)
					out = append(out, 1, m, c)
				} else {
					out = append(out, 0, 0, 0)
				}
			}
		}
	default:
		out = append(out, 0)
	}
	return out
}

// vtC13GenPod emits a wire pod. shape as in vtC13GenResList; qos/class are label values
// ("-" = no label).
func vtC13GenPod(r vtC13Rand, shape int, qos, class string, prioPresent bool, prio int64) []int64 {
	type lab struct {
		k int64
		v string
	}
	var ls []lab
	if qos != "-" {
		ls = append(ls, lab{0, qos})
	}
	if class != "-" {
		ls = append(ls, lab{1, class})
	}
	if r.Intn(4) == 0 {
		ls = append(ls, lab{2, strconv.Itoa(r.Intn(4) * 1111)})
	}
	if r.Intn(3) == 0 {
		ls = append(ls, lab{3, vtC13Pick(r, []string{"x", "y", ""})})
	}
	if r.Intn(5) == 0 {
		ls = append(ls, lab{4, vtC13Pick(r, []string{"x", "y"})})
	}
	out := []int64{int64(len(ls))}
	for _, l := range ls {
		out = append(out, l.k)
		out = append(out, vtC13EncStr(l.v)...)
	}
	if prioPresent {
		out = append(out, 1, prio)
	} else {
		out = append(out, 0, 0)
	}
	status := ""
	if r.Intn(8) == 0 {
		status = vtC13Pick(r, []string{"Guaranteed", "Burstable", "BestEffort", "Weird"})
	}
	out = append(out, vtC13EncStr(status)...)
	nInit := 0
	if r.Intn(3) == 0 {
		nInit = 1 + r.Intn(2)
	}
	nC := 1 + r.Intn(3)
	if r.Intn(20) == 0 {
		nC = 0
	}
	out = append(out, vtC13GenContainers(r, nInit, shape, true)...)
	out = append(out, vtC13GenContainers(r, nC, shape, false)...)
	if r.Intn(5) == 0 {
		out = append(out, vtC13GenResList(r, []int{0, 0, shape, 3}[r.Intn(4)], false)...)
	} else {
		out = append(out, 0)
	}
	// spec.resources (pod-level resources): rare; sometimes empty, sometimes with whole CPUs
	switch r.Intn(24) {
	case 0:
		out = append(out, 1, 0, 0)
	case 1:
		out = append(out, 1)
		out = append(out, vtC13GenResList(r, []int{0, 4, 3}[r.Intn(3)], false)...)
		out = append(out, 0)
	case 2:
		out = append(out, 1)
		out = append(out, vtC13GenResList(r, []int{0, 4}[r.Intn(2)], false)...)
		out = append(out, vtC13GenResList(r, 0, true)...)
	default:
		out = append(out, 0)
	}
	out = append(out, vtC13GenAnnValue(r, 30)...)
	// other annotations
	if r.Intn(12) == 0 {
		out = append(out, 1, int64(5+r.Intn(2)))
		out = append(out, vtC13GenAnnValue(r, 3)...)
	} else {
		out = append(out, 0)
	}
	return out
}
