//go:build verif

package mutating

import (
	"context"
	"encoding/json"
	"fmt"
	"math/rand"
	"reflect"
	"testing"

	jsonpatch "github.com/evanphx/json-patch"
	admissionv1 "k8s.io/api/admission/v1"
	corev1 "k8s.io/api/core/v1"
	schedulingv1 "k8s.io/api/scheduling/v1"
	metav1 "k8s.io/apimachinery/pkg/apis/meta/v1"
	"k8s.io/apimachinery/pkg/runtime"
	"k8s.io/apimachinery/pkg/util/intstr"
	"k8s.io/client-go/kubernetes/scheme"
	"sigs.k8s.io/controller-runtime/pkg/client"
	"sigs.k8s.io/controller-runtime/pkg/client/fake"
	"sigs.k8s.io/controller-runtime/pkg/webhook/admission"

	configv1alpha1 "github.com/koordinator-sh/koordinator/apis/config/v1alpha1"
	"github.com/koordinator-sh/koordinator/apis/extension"
	"github.com/koordinator-sh/koordinator/pkg/features"
	utilfeature "github.com/koordinator-sh/koordinator/pkg/util/feature"
)

func init() {
	_ = configv1alpha1.AddToScheme(scheme.Scheme)
}

func (d *vtC13Dec) selector() *metav1.LabelSelector {
	kind, key := d.next(), d.next()
	val := d.str()
	switch kind {
	case 0:
		return nil
	case 1:
		return &metav1.LabelSelector{}
	case 2:
		return &metav1.LabelSelector{MatchLabels: map[string]string{vtC13LabelKey(key): val}}
	}
	return &metav1.LabelSelector{MatchExpressions: []metav1.LabelSelectorRequirement{{Key: "a", Operator: "Bogus"}}}
}

// profile decodes one ClusterColocationProfile (+ the PriorityClass object it names, if any).
func (d *vtC13Dec) profile() (*configv1alpha1.ClusterColocationProfile, *schedulingv1.PriorityClass) {
	name := d.next()
	p := &configv1alpha1.ClusterColocationProfile{ObjectMeta: metav1.ObjectMeta{Name: fmt.Sprintf("p%02d", name)}}
	p.Spec.NamespaceSelector = d.selector()
	p.Spec.Selector = d.selector()
	switch kind, n := d.next(), d.next(); kind {
	case 0:
	case 1:
		v := intstr.FromInt(int(n))
		p.Spec.Probability = &v
	case 2:
		v := intstr.FromString(fmt.Sprintf("%d%%", n))
		p.Spec.Probability = &v
	default:
		v := intstr.FromString("abc")
		p.Spec.Probability = &v
	}
	if d.next() != 0 {
		p.Annotations = map[string]string{extension.AnnotationSkipUpdateResource: "true"}
	}
	p.Spec.Labels = d.labels()
	if n := d.count(); n > 0 {
		p.Spec.LabelKeysMapping = map[string]string{}
		for i := 0; i < n; i++ {
			o, nw := d.next(), d.next()
			p.Spec.LabelKeysMapping[vtC13LabelKey(o)] = vtC13LabelKey(nw)
		}
	}
	p.Spec.LabelSuffixes = d.labels()
	p.Spec.QoSClass = d.str()
	var pc *schedulingv1.PriorityClass
	switch kind, v := d.next(), d.next(); kind {
	case 0:
	case 1:
		p.Spec.PriorityClassName = fmt.Sprintf("pc-%02d", name)
	default:
		p.Spec.PriorityClassName = fmt.Sprintf("pc-%02d", name)
		pc = &schedulingv1.PriorityClass{ObjectMeta: metav1.ObjectMeta{Name: p.Spec.PriorityClassName}, Value: int32(v)}
	}
	if present, v := d.next(), d.next(); present != 0 {
		kp := int32(v)
		p.Spec.KoordinatorPriority = &kp
	}
	// spec.annotations: an "absent" value is the empty string
	if n := d.count(); n > 0 {
		p.Spec.Annotations = map[string]string{}
		for i := 0; i < n; i++ {
			k := d.next()
			v, _ := d.annValue()
			p.Spec.Annotations[vtC13AnnKey(k)] = v
		}
	}
	if n := d.count(); n > 0 {
		p.Spec.AnnotationKeysMapping = map[string]string{}
		for i := 0; i < n; i++ {
			o, nw := d.next(), d.next()
			p.Spec.AnnotationKeysMapping[vtC13AnnKey(o)] = vtC13AnnKey(nw)
		}
	}
	return p, pc
}

// vtC13mHandle drives the production entry point PodMutatingHandler.Handle with the pod as the
// API server sends it (raw JSON in an AdmissionReview) and applies the returned JSON patch to
// that raw object, as the API server does.  ok=false: the admission was refused.
func vtC13mHandle(h *PodMutatingHandler, op admissionv1.Operation, pod *corev1.Pod) (*corev1.Pod, bool) {
	p := pod.DeepCopy()
	p.TypeMeta = metav1.TypeMeta{APIVersion: "v1", Kind: "Pod"}
	raw, err := json.Marshal(p)
	if err != nil {
		panic(err)
	}
	req := admission.Request{AdmissionRequest: admissionv1.AdmissionRequest{
		Resource:  metav1.GroupVersionResource{Group: corev1.SchemeGroupVersion.Group, Version: corev1.SchemeGroupVersion.Version, Resource: "pods"},
		Operation: op, Namespace: pod.Namespace, Name: pod.Name,
		Object: runtime.RawExtension{Raw: raw},
	}}
	if op == admissionv1.Update {
		req.OldObject = runtime.RawExtension{Raw: raw}
	}
	resp := h.Handle(context.TODO(), req)
	if !resp.Allowed {
		return nil, false
	}
	out := raw
	if len(resp.Patches) > 0 {
		pb, err := json.Marshal(resp.Patches)
		if err != nil {
			panic(err)
		}
		patch, err := jsonpatch.DecodePatch(pb)
		if err != nil {
			panic(err)
		}
		if out, err = patch.Apply(raw); err != nil {
			panic(err)
		}
	}
	res := &corev1.Pod{}
	if err := json.Unmarshal(out, res); err != nil {
		panic(err)
	}
	return res, true
}

// input:  env profiles pod   (coq/C13/Codec.v dec_mutate)
// observable: length-prefixed blocks (Codec.v run_mutate):
//   1 Create (the two mutators of the property called in the order of handleCreate);
//   2 Create through PodMutatingHandler.Handle (decoder, all mutators, JSON patch applied);
//   and, when 1 succeeded: 3 Update on the result of 1 (extendedResourceSpecMutatingPod);
//   4 Create on the result of 1;  5 Update through Handle on the result of 2.
func vtC13mExec(in []int64) []int64 {
	if len(in) == 0 || in[0] != 102 { // not an input of this stream
		return []int64{-1}
	}
	d := &vtC13Dec{in: in[1:]}
	nsPresent := d.next() != 0
	nsLabels := d.labels()
	rnd := int(d.next())
	gateSkipRes := d.next() != 0
	gateNoExt := d.next() != 0
	var objs []client.Object
	if nsPresent {
		objs = append(objs, &corev1.Namespace{ObjectMeta: metav1.ObjectMeta{Name: "verif-ns", Labels: nsLabels}})
	}
	nProf := d.count()
	for i := 0; i < nProf; i++ {
		p, pc := d.profile()
		objs = append(objs, p)
		if pc != nil {
			objs = append(objs, pc)
		}
	}
	pod := d.pod()

	gates := map[string]bool{
		string(features.ColocationProfileSkipMutatingResources): gateSkipRes,
		string(features.DisableExtendedResourceSpec):            gateNoExt,
	}
	if err := utilfeature.DefaultMutableFeatureGate.SetFromMap(gates); err != nil {
		panic(err)
	}
	defer utilfeature.DefaultMutableFeatureGate.SetFromMap(map[string]bool{
		string(features.ColocationProfileSkipMutatingResources): false,
		string(features.DisableExtendedResourceSpec):            false,
	})
	origRand := randIntnFn
	randIntnFn = func(int) int { return rnd }
	defer func() { randIntnFn = origRand }()

	h := &PodMutatingHandler{Client: fake.NewClientBuilder().WithScheme(scheme.Scheme).WithObjects(objs...).Build(),
		Decoder: admission.NewDecoder(scheme.Scheme)}

	admit := func(op admissionv1.Operation, pod *corev1.Pod) (block []int64, ok bool) {
		req := admission.Request{AdmissionRequest: admissionv1.AdmissionRequest{Operation: op}}
		ctx := context.TODO()
		var mutated bool
		var err error
		before := pod.DeepCopy()
		lost1, lost2 := false, false
		if op == admissionv1.Create { // handleCreate; handleUpdate does not call this mutator
			mutated, err = h.clusterColocationProfileMutatingPod(ctx, req, pod)
			if err != nil {
				return []int64{1}, false
			}
			lost1 = !mutated && !reflect.DeepEqual(vtC13EncPod(before), vtC13EncPod(pod))
		}
		before = pod.DeepCopy()
		mutated, err = h.extendedResourceSpecMutatingPod(ctx, req, pod)
		if err != nil {
			return []int64{1}, false
		}
		lost2 = !mutated && !reflect.DeepEqual(before.Annotations, pod.Annotations)
		block = append([]int64{0, vtB(lost1), vtB(lost2)}, vtC13EncPod(pod)...)
		return block, true
	}
	emit := func(obs []int64, block []int64) []int64 {
		obs = append(obs, int64(len(block)))
		return append(obs, block...)
	}

	handleBlock := func(op admissionv1.Operation, pod *corev1.Pod) ([]int64, *corev1.Pod) {
		res, ok := vtC13mHandle(h, op, pod)
		if !ok {
			return []int64{1}, nil
		}
		return append([]int64{0, 0, 0}, vtC13EncPod(res)...), res
	}

	var obs []int64
	submitted := pod.DeepCopy()
	b1, ok := admit(admissionv1.Create, pod)
	obs = emit(obs, b1)
	bh, ph := handleBlock(admissionv1.Create, submitted)
	obs = emit(obs, bh)
	if !ok {
		return obs
	}
	b2, _ := admit(admissionv1.Update, vtC13RoundTrip(pod))
	obs = emit(obs, b2)
	b3, _ := admit(admissionv1.Create, vtC13RoundTrip(pod))
	obs = emit(obs, b3)
	bu := bh
	if ph != nil {
		bu, _ = handleBlock(admissionv1.Update, ph)
	}
	obs = emit(obs, bu)
	return obs
}

func vtC13WriteSelector(r *rand.Rand, out []int64, podSide bool) []int64 {
	switch r.Intn(12) {
	case 0:
		return append(out, 1, 0, 0)
	case 1:
		return append(out, 3, 0, 0)
	case 2, 3:
		key := int64(3 + r.Intn(2))
		if podSide && r.Intn(3) == 0 {
			key = 0
		}
		val := vtC13Pick(r, []string{"x", "y"})
		if key == 0 {
			val = vtC13Pick(r, vtC13QoSValues)
		}
		out = append(out, 2, key)
		return append(out, vtC13EncStr(val)...)
	}
	return append(out, 0, 0, 0)
}

// clean: a profile that certainly matches and applies (no selectors, no probability, no
// skip-update-resources), so that the translation is reached.
func vtC13GenProfile(r *rand.Rand, name int, tier string, clean bool) []int64 {
	out := []int64{int64(name)}
	if clean {
		out = append(out, 0, 0, 0, 0, 0, 0)
	} else {
		out = vtC13WriteSelector(r, out, false)
		out = vtC13WriteSelector(r, out, true)
	}
	probKind := r.Intn(10)
	if clean {
		probKind = 9
	}
	switch probKind {
	case 0:
		out = append(out, 1, []int64{0, 100, 50, 30, 99, 101}[r.Intn(6)])
	case 1:
		out = append(out, 2, []int64{0, 100, 50, 70}[r.Intn(4)])
	case 2:
		if r.Intn(8) == 0 {
			out = append(out, 3, 0)
		} else {
			out = append(out, 1, 100)
		}
	default:
		out = append(out, 0, 0)
	}
	out = append(out, vtB(!clean && r.Intn(12) == 0)) // skip-update-resources
	// labels
	type lab struct {
		k int64
		v string
	}
	var ls []lab
	if r.Intn(6) == 0 {
		ls = append(ls, lab{0, vtC13Pick(r, vtC13QoSValues)})
	}
	if r.Intn(5) == 0 {
		v := vtC13Pick(r, vtC13ClassValues)
		if tier != "" && r.Intn(2) == 0 {
			v = tier
		}
		ls = append(ls, lab{1, v})
	}
	if r.Intn(6) == 0 {
		ls = append(ls, lab{int64(3 + r.Intn(2)), vtC13Pick(r, []string{"x", "y"})})
	}
	out = append(out, int64(len(ls)))
	for _, l := range ls {
		out = append(out, l.k)
		out = append(out, vtC13EncStr(l.v)...)
	}
	// labelKeysMapping: at most one entry (Go iterates the map in random order)
	if r.Intn(8) == 0 {
		out = append(out, 1, int64(r.Intn(5)), int64(r.Intn(5)))
	} else {
		out = append(out, 0)
	}
	// labelSuffixes: at most one entry
	if r.Intn(8) == 0 {
		out = append(out, 1, int64(r.Intn(5)))
		out = append(out, vtC13EncStr(vtC13Pick(r, []string{"_s1", "", "-x"}))...)
	} else {
		out = append(out, 0)
	}
	// QoSClass
	q := ""
	if r.Intn(3) == 0 {
		q = vtC13Pick(r, vtC13QoSValues)
		if tier != "" && r.Intn(2) == 0 {
			q = string(extension.QoSBE)
		}
	}
	out = append(out, vtC13EncStr(q)...)
	// priorityClassName
	pcKind := r.Intn(30)
	if clean && pcKind == 0 {
		pcKind = 29
	}
	switch pcKind {
	case 0:
		out = append(out, 1, 0)
	case 1, 2, 3, 4, 5, 6, 7, 8, 9:
		v := vtC13GenPriority(r)
		if tier == string(extension.PriorityBatch) {
			v = int64(extension.PriorityBatchValueMin) + r.Int63n(1000)
		} else if tier == string(extension.PriorityMid) {
			v = int64(extension.PriorityMidValueMin) + r.Int63n(1000)
		}
		out = append(out, 2, v)
	default:
		out = append(out, 0, 0)
	}
	// koordinatorPriority
	if r.Intn(6) == 0 {
		out = append(out, 1, int64(r.Intn(10000)))
	} else {
		out = append(out, 0, 0)
	}
	// annotations: at most one entry; the summary key itself or another key
	if !clean && r.Intn(8) == 0 {
		out = append(out, 1, []int64{0, 0, 5, 6}[r.Intn(4)])
		out = append(out, vtC13GenAnnValue(r, 8)...)
	} else {
		out = append(out, 0)
	}
	// annotationKeysMapping: at most one entry (Go iterates the map in random order)
	if !clean && r.Intn(10) == 0 {
		out = append(out, 1, []int64{0, 5, 6}[r.Intn(3)], []int64{0, 0, 5, 6}[r.Intn(4)])
	} else {
		out = append(out, 0)
	}
	return out
}

func vtC13mGen(r *rand.Rand, i int) (string, []int64) {
	style := []string{"batch", "batch", "batch", "batch", "mid", "mid", "mid", "prod", "prod", "default-be", "default-be", "random", "random", "no-profile"}[r.Intn(14)]
	// env
	in := []int64{102}
	if r.Intn(6) == 0 {
		in = append(in, 0, 0)
	} else {
		in = append(in, 1)
		if r.Intn(2) == 0 {
			in = append(in, 1, int64(3+r.Intn(2)))
			in = append(in, vtC13EncStr(vtC13Pick(r, []string{"x", "y"}))...)
		} else {
			in = append(in, 0)
		}
	}
	rnd := int64(r.Intn(100))
	if r.Intn(2) == 0 { // around the probabilities the profiles use (30, 50, 70, 99)
		rnd = []int64{29, 30, 31, 49, 50, 51, 69, 70, 71, 98, 99, 0}[r.Intn(12)]
	}
	in = append(in, rnd, vtB(r.Intn(25) == 0), vtB(r.Intn(25) == 0))

	tier := ""
	qos, class := "-", "-"
	prioPresent, prio := r.Intn(3) == 0, vtC13GenPriority(r)
	shape := 0
	switch style {
	case "batch":
		tier = string(extension.PriorityBatch)
		if r.Intn(2) == 0 {
			qos = string(extension.QoSBE)
		}
		if r.Intn(3) == 0 {
			prioPresent, prio = true, int64(extension.PriorityBatchValueMin)+r.Int63n(1000)
		}
		shape = []int{0, 0, 0, 0, 0, 1, 3}[r.Intn(7)]
	case "mid":
		tier = string(extension.PriorityMid)
		if r.Intn(2) == 0 {
			qos = vtC13Pick(r, []string{string(extension.QoSLS), string(extension.QoSBE)})
		}
		if r.Intn(3) == 0 {
			prioPresent, prio = true, int64(extension.PriorityMidValueMin)+r.Int63n(1000)
		}
		shape = []int{0, 0, 0, 0, 0, 2, 3}[r.Intn(7)]
	case "prod":
		if r.Intn(2) == 0 {
			qos = vtC13Pick(r, []string{string(extension.QoSLS), string(extension.QoSLSR), string(extension.QoSLSE)})
		}
		prioPresent, prio = true, int64(extension.PriorityProdValueMin)+r.Int63n(1000)
		shape = []int{0, 4, 3}[r.Intn(3)]
	case "default-be": // no identity at all: the class comes from the QoS label or from kube QoS
		prioPresent = false
		if r.Intn(4) != 0 {
			qos = string(extension.QoSBE)
		}
		shape = []int{0, 1, 3, 0}[r.Intn(4)]
	default:
		if r.Intn(2) == 0 {
			qos = vtC13Pick(r, vtC13QoSValues)
		}
		if r.Intn(4) == 0 {
			class = vtC13Pick(r, vtC13ClassValues)
		}
		shape = r.Intn(5)
	}
	nProf := 1 + r.Intn(3)
	if style == "no-profile" {
		nProf = 0
	}
	names := r.Perm(6)
	in = append(in, int64(nProf))
	for j := 0; j < nProf; j++ {
		in = append(in, vtC13GenProfile(r, names[j], tier, tier != "" && r.Intn(3) != 0)...)
	}
	// make sure the tier styles usually end up in their tier: give the pod itself the identity
	if tier != "" && r.Intn(8) != 0 {
		if r.Intn(2) == 0 {
			class = tier
		} else if tier == string(extension.PriorityBatch) {
			prioPresent, prio = true, int64(extension.PriorityBatchValueMin)+r.Int63n(1000)
		} else {
			prioPresent, prio = true, int64(extension.PriorityMidValueMin)+r.Int63n(1000)
		}
	}
	in = append(in, vtC13GenPod(r, shape, qos, class, prioPresent, prio)...)
	return style, in
}

func TestVerifC13Mutate(t *testing.T) { vtMain(t, "C13", vtC13mGen, vtC13mExec) }
