//go:build verif

package validating

import (
	"context"
	"math/rand"
	"strings"
	"testing"

	admissionv1 "k8s.io/api/admission/v1"
	utilerrors "k8s.io/apimachinery/pkg/util/errors"
	"k8s.io/apimachinery/pkg/util/validation/field"
	"sigs.k8s.io/controller-runtime/pkg/webhook/admission"

	"github.com/koordinator-sh/koordinator/apis/extension"
	"github.com/koordinator-sh/koordinator/pkg/features"
	utilfeature "github.com/koordinator-sh/koordinator/pkg/util/feature"
)

// input:  gate op oldpod newpod        (coq/C13/Codec.v dec_validate)
// observable: [allowed mask]           mask = which rules rejected (coq/C13/Model.v E_*)
func vtC13vExec(in []int64) []int64 {
	if len(in) == 0 || in[0] != 101 { // not an input of this stream
		return []int64{-1}
	}
	d := &vtC13Dec{in: in[1:]}
	gate := d.next() != 0
	opCode := d.next()
	oldPod := d.pod()
	newPod := d.pod()

	if err := utilfeature.DefaultMutableFeatureGate.SetFromMap(map[string]bool{string(features.ColocationProfileSkipValidatingPriority): gate}); err != nil {
		panic(err)
	}
	defer utilfeature.DefaultMutableFeatureGate.SetFromMap(map[string]bool{string(features.ColocationProfileSkipValidatingPriority): false})

	op := admissionv1.Create
	switch opCode {
	case 1:
		op = admissionv1.Update
	case 2:
		op = admissionv1.Delete
	}
	h := &PodValidatingHandler{}
	req := admission.Request{AdmissionRequest: admissionv1.AdmissionRequest{Operation: op}}
	allowed, _, err := h.clusterColocationProfileValidatingPod(context.TODO(), req, newPod, oldPod)
	mask := int64(0)
	if err != nil {
		agg, ok := err.(utilerrors.Aggregate)
		if !ok {
			panic("verif C13: unexpected error type")
		}
		for _, e := range agg.Errors() {
			fe, ok := e.(*field.Error)
			if !ok {
				panic("verif C13: unexpected error element")
			}
			mask |= vtC13RuleOf(fe)
		}
	}
	return []int64{vtB(allowed), mask}
}

// vtC13RuleOf maps one rejection to the rule that produced it (field path + error type only).
func vtC13RuleOf(e *field.Error) int64 {
	switch {
	case e.Type == field.ErrorTypeInvalid && e.Field == "labels."+extension.LabelPodQoS:
		return 1
	case e.Type == field.ErrorTypeInvalid && e.Field == "spec.priority":
		return 2
	case e.Type == field.ErrorTypeInvalid && e.Field == "labels."+extension.LabelPodPriority:
		return 4
	case e.Type == field.ErrorTypeRequired && e.Field == "labels."+extension.LabelPodQoS:
		return 8
	case e.Type == field.ErrorTypeForbidden && e.Field == "Pod" && strings.Contains(e.Detail, "="+string(extension.QoSBE)+" "):
		return 16
	case e.Type == field.ErrorTypeForbidden && e.Field == "Pod" && strings.Contains(e.Detail, "="+string(extension.QoSLSR)+" "):
		return 32
	case e.Type == field.ErrorTypeRequired && strings.HasPrefix(e.Field, "pod.spec.containers"):
		return 64
	case e.Type == field.ErrorTypeInvalid && strings.HasPrefix(e.Field, "pod.spec.containers"):
		return 128
	}
	return 1 << 20
}

func vtC13vGen(r *rand.Rand, i int) (string, []int64) {
	style := []string{"be", "lsr", "lse", "ls", "plain", "random", "random"}[r.Intn(7)]
	qos, class := "-", "-"
	shape := 0
	prioPresent := r.Intn(3) != 0
	prio := vtC13GenPriority(r)
	switch style {
	case "be":
		qos = string(extension.QoSBE)
		shape = []int{1, 1, 1, 3, 0, 2}[r.Intn(6)]
	case "lsr":
		qos = string(extension.QoSLSR)
		shape = []int{4, 4, 4, 0, 3}[r.Intn(5)]
	case "lse":
		qos = string(extension.QoSLSE)
		shape = []int{4, 4, 4, 0, 3}[r.Intn(5)]
	case "ls":
		qos = string(extension.QoSLS)
		shape = []int{0, 0, 1, 2, 3}[r.Intn(5)]
	case "plain":
		shape = []int{0, 1, 2, 3}[r.Intn(4)]
	default:
		if r.Intn(5) != 0 {
			qos = vtC13Pick(r, vtC13QoSValues)
		}
		shape = r.Intn(5)
	}
	if r.Intn(4) == 0 {
		class = vtC13Pick(r, vtC13ClassValues)
	}
	if (style == "lsr" || style == "lse") && r.Intn(2) == 0 {
		prioPresent = true
		prio = int64(extension.PriorityProdValueMin) + r.Int63n(int64(extension.PriorityProdValueMax-extension.PriorityProdValueMin)+1)
	}
	if style == "be" && r.Intn(2) == 0 {
		prioPresent = true
		prio = int64(extension.PriorityBatchValueMin) + r.Int63n(int64(extension.PriorityBatchValueMax-extension.PriorityBatchValueMin)+1)
	}
	newPod := vtC13GenPod(r, shape, qos, class, prioPresent, prio)
	op := int64(0)
	oldPod := newPod
	switch r.Intn(10) {
	case 0, 1, 2: // update without touching identity (resources may differ)
		op = 1
		oldPod = vtC13GenPod(r, shape, qos, class, prioPresent, prio)
	case 3: // update changing the QoS label
		op = 1
		q2 := vtC13Pick(r, vtC13QoSValues)
		if r.Intn(4) == 0 {
			q2 = "-"
		}
		oldPod = vtC13GenPod(r, shape, q2, class, prioPresent, prio)
	case 4: // update changing priority / class label
		op = 1
		c2 := class
		if r.Intn(2) == 0 {
			c2 = vtC13Pick(r, vtC13ClassValues)
		}
		oldPod = vtC13GenPod(r, shape, qos, c2, r.Intn(4) != 0, vtC13GenPriority(r))
	case 5:
		op = 2
	}
	gate := int64(0)
	if r.Intn(5) == 0 {
		gate = 1
	}
	in := []int64{101, gate, op}
	in = append(in, oldPod...)
	in = append(in, newPod...)
	return style, in
}

func TestVerifC13Validate(t *testing.T) { vtMain(t, "C13", vtC13vGen, vtC13vExec) }
