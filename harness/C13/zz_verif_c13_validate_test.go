//go:build verif

package validating

import (
	"context"
	"encoding/json"
	"math/rand"
	"strings"
	"sync"
	"testing"

	admissionv1 "k8s.io/api/admission/v1"
	corev1 "k8s.io/api/core/v1"
	metav1 "k8s.io/apimachinery/pkg/apis/meta/v1"
	"k8s.io/apimachinery/pkg/runtime"
	utilerrors "k8s.io/apimachinery/pkg/util/errors"
	"k8s.io/apimachinery/pkg/util/validation/field"
	"sigs.k8s.io/controller-runtime/pkg/webhook/admission"

	"github.com/koordinator-sh/koordinator/apis/extension"
	"github.com/koordinator-sh/koordinator/pkg/features"
	utilfeature "github.com/koordinator-sh/koordinator/pkg/util/feature"
)

var (
	vtC13vHandlerOnce sync.Once
	vtC13vHandlerInst *PodValidatingHandler
)

// vtC13vRaw is the pod as the API server sends it in an AdmissionReview.
func vtC13vRaw(pod *corev1.Pod) runtime.RawExtension {
	p := pod.DeepCopy()
	p.TypeMeta = metav1.TypeMeta{APIVersion: "v1", Kind: "Pod"}
	data, err := json.Marshal(p)
	if err != nil {
		panic(err)
	}
	return runtime.RawExtension{Raw: data}
}

// vtC13vHandle drives the production entry point (admission.Handler.Handle: decode the raw
// objects, run the whole chain of pod validators) and returns the verdict the API server sees.
func vtC13vHandle(op admissionv1.Operation, newPod, oldPod *corev1.Pod) bool {
	vtC13vHandlerOnce.Do(func() { vtC13vHandlerInst = makeTestHandler() })
	req := admission.Request{AdmissionRequest: admissionv1.AdmissionRequest{
		Resource:  metav1.GroupVersionResource{Group: corev1.SchemeGroupVersion.Group, Version: corev1.SchemeGroupVersion.Version, Resource: "pods"},
		Operation: op, Namespace: newPod.Namespace, Name: newPod.Name,
		Object: vtC13vRaw(newPod),
	}}
	if op == admissionv1.Update {
		req.OldObject = vtC13vRaw(oldPod)
	}
	return vtC13vHandlerInst.Handle(context.TODO(), req).Allowed
}

// input:  gate op oldpod newpod        (coq/C13/Codec.v dec_validate)
// observable: [allowed mask handle]    mask = which rules rejected (coq/C13/Model.v E_*);
// handle = verdict of PodValidatingHandler.Handle on the same request (1 allowed, 0 denied;
// 2 = not driven: the webhook is registered for CREATE and UPDATE only)
func vtC13vExec(in []int64) []int64 {
	if len(in) == 0 || in[0] != 101 { // not an input of this stream
		return []int64{-1}
	}
	d := &vtC13Dec{in: in[1:]}
	gate := d.next() != 0
	opCode := d.next()
	oldPod := d.pod()
	newPod := d.pod()

	if err := utilfeature.DefaultMutableFeatureGate.SetFromMap(map[string]bool{string(features.ColocationProfileSkipValidatingPriority): gate}); err != nil {
		panic(err)
	}
	defer utilfeature.DefaultMutableFeatureGate.SetFromMap(map[string]bool{string(features.ColocationProfileSkipValidatingPriority): false})

	op := admissionv1.Create
	switch opCode {
	case 1:
		op = admissionv1.Update
	case 2:
		op = admissionv1.Delete
	}
	h := &PodValidatingHandler{}
	req := admission.Request{AdmissionRequest: admissionv1.AdmissionRequest{Operation: op}}
	allowed, _, err := h.clusterColocationProfileValidatingPod(context.TODO(), req, newPod, oldPod)
	mask := int64(0)
	if err != nil {
		agg, ok := err.(utilerrors.Aggregate)
		if !ok {
			panic("verif C13: unexpected error type")
		}
		for _, e := range agg.Errors() {
			fe, ok := e.(*field.Error)
			if !ok {
				panic("verif C13: unexpected error element")
			}
			mask |= vtC13RuleOf(fe)
		}
	}
	handle := int64(2)
	if op == admissionv1.Create || op == admissionv1.Update {
		handle = vtB(vtC13vHandle(op, newPod, oldPod))
	}
	return []int64{vtB(allowed), mask, handle}
}

// vtC13RuleOf maps one rejection to the rule that produced it (field path + error type only).
func vtC13RuleOf(e *field.Error) int64 {
	switch {
	case e.Type == field.ErrorTypeInvalid && e.Field == "labels."+extension.LabelPodQoS:
		return 1
	case e.Type == field.ErrorTypeInvalid && e.Field == "spec.priority":
		return 2
	case e.Type == field.ErrorTypeInvalid && e.Field == "labels."+extension.LabelPodPriority:
		return 4
	case e.Type == field.ErrorTypeRequired && e.Field == "labels."+extension.LabelPodQoS:
		return 8
	case e.Type == field.ErrorTypeForbidden && e.Field == "Pod" && strings.Contains(e.Detail, "="+string(extension.QoSBE)+" "):
		return 16
	case e.Type == field.ErrorTypeForbidden && e.Field == "Pod" && strings.Contains(e.Detail, "="+string(extension.QoSLSR)+" "):
		return 32
	case e.Type == field.ErrorTypeRequired && strings.HasPrefix(e.Field, "pod.spec.containers"):
		return 64
	case e.Type == field.ErrorTypeInvalid && strings.HasPrefix(e.Field, "pod.spec.containers"):
		return 128
	}
	return 1 << 20
}

func vtC13vGen(r *rand.Rand, i int) (string, []int64) {
	style := []string{"be", "lsr", "lse", "ls", "plain", "random", "random"}[r.Intn(7)]
	qos, class := "-", "-"
	shape := 0
	prioPresent := r.Intn(3) != 0
	prio := vtC13GenPriority(r)
	switch style {
	case "be":
		qos = string(extension.QoSBE)
		shape = []int{1, 1, 1, 3, 0, 2}[r.Intn(6)]
	case "lsr":
		qos = string(extension.QoSLSR)
		shape = []int{4, 4, 4, 0, 3}[r.Intn(5)]
	case "lse":
		qos = string(extension.QoSLSE)
		shape = []int{4, 4, 4, 0, 3}[r.Intn(5)]
	case "ls":
		qos = string(extension.QoSLS)
		shape = []int{0, 0, 1, 2, 3}[r.Intn(5)]
	case "plain":
		shape = []int{0, 1, 2, 3}[r.Intn(4)]
	default:
		if r.Intn(5) != 0 {
			qos = vtC13Pick(r, vtC13QoSValues)
		}
		shape = r.Intn(5)
	}
	if r.Intn(4) == 0 {
		class = vtC13Pick(r, vtC13ClassValues)
	}
	if (style == "lsr" || style == "lse") && r.Intn(2) == 0 {
		prioPresent = true
		prio = int64(extension.PriorityProdValueMin) + r.Int63n(int64(extension.PriorityProdValueMax-extension.PriorityProdValueMin)+1)
	}
	if style == "be" && r.Intn(2) == 0 {
		prioPresent = true
		prio = int64(extension.PriorityBatchValueMin) + r.Int63n(int64(extension.PriorityBatchValueMax-extension.PriorityBatchValueMin)+1)
	}
	if r.Intn(6) == 0 {
		// update-delta: the old object is the new one with exactly one protocol field
		// different (same draws for everything else), or with none
		if r.Intn(3) == 0 {
			class = vtC13Pick(r, vtC13ClassValues[:4])
		}
		seed := r.Int63()
		newPod := vtC13GenPod(rand.New(rand.NewSource(seed)), shape, qos, class, prioPresent, prio)
		q2, c2, pp2, pr2 := qos, class, prioPresent, prio
		bandMin := map[string]int64{
			string(extension.PriorityProd): int64(extension.PriorityProdValueMin), string(extension.PriorityMid): int64(extension.PriorityMidValueMin),
			string(extension.PriorityBatch): int64(extension.PriorityBatchValueMin), string(extension.PriorityFree): int64(extension.PriorityFreeValueMin),
		}
		switch r.Intn(9) {
		case 0: // QoS label changed, added or removed
			q2 = vtC13Pick(r, append([]string{"-", "-"}, vtC13QoSValues...))
		case 1: // class label changed, added or removed
			c2 = vtC13Pick(r, append([]string{"-", "-"}, vtC13ClassValues...))
		case 2: // spec.priority moved a little: inside the band, or across its edge
			pr2 = prio + int64(r.Intn(5)) - 2
		case 3: // spec.priority moved anywhere
			pr2 = vtC13GenPriority(r)
		case 4: // spec.priority added or removed
			pp2 = !prioPresent
		case 5: // class label dropped in favour of a priority of the same class: no change of class
			if m, ok := bandMin[class]; ok {
				c2, pp2, pr2 = "-", true, m+r.Int63n(1000)
			}
		case 6: // class label added on top of the priority that already says the same
			if m, ok := bandMin[class]; ok {
				pp2, pr2 = true, m+r.Int63n(1000)
			}
		case 7: // both labels changed
			q2 = vtC13Pick(r, vtC13QoSValues)
			c2 = vtC13Pick(r, vtC13ClassValues)
		}
		oldPod := vtC13GenPod(rand.New(rand.NewSource(seed)), shape, q2, c2, pp2, pr2)
		in := []int64{101, vtB(r.Intn(5) == 0), 1}
		in = append(in, oldPod...)
		in = append(in, newPod...)
		return "update-delta", in
	}
	newPod := vtC13GenPod(r, shape, qos, class, prioPresent, prio)
	op := int64(0)
	oldPod := newPod
	switch r.Intn(10) {
	case 0, 1, 2: // update without touching identity (resources may differ)
		op = 1
		oldPod = vtC13GenPod(r, shape, qos, class, prioPresent, prio)
	case 3: // update changing the QoS label
		op = 1
		q2 := vtC13Pick(r, vtC13QoSValues)
		if r.Intn(4) == 0 {
			q2 = "-"
		}
		oldPod = vtC13GenPod(r, shape, q2, class, prioPresent, prio)
	case 4: // update changing priority / class label
		op = 1
		c2 := class
		if r.Intn(2) == 0 {
			c2 = vtC13Pick(r, vtC13ClassValues)
		}
		oldPod = vtC13GenPod(r, shape, qos, c2, r.Intn(4) != 0, vtC13GenPriority(r))
	case 5:
		op = 2
	}
	gate := int64(0)
	if r.Intn(5) == 0 {
		gate = 1
	}
	in := []int64{101, gate, op}
	in = append(in, oldPod...)
	in = append(in, newPod...)
	return style, in
}

func TestVerifC13Validate(t *testing.T) { vtMain(t, "C13", vtC13vGen, vtC13vExec) }
