//go:build verif

package elasticquota

import (
	"encoding/json"
	"fmt"
	"math/rand"
	"os"
	"sort"
	"strconv"
	"strings"
	"testing"

	corev1 "k8s.io/api/core/v1"
	"k8s.io/apimachinery/pkg/api/resource"
	metav1 "k8s.io/apimachinery/pkg/apis/meta/v1"
	"sigs.k8s.io/controller-runtime/pkg/client"
	"sigs.k8s.io/controller-runtime/pkg/client/fake"

	"github.com/koordinator-sh/koordinator/apis/extension"
	"github.com/koordinator-sh/koordinator/apis/thirdparty/scheduler-plugins/pkg/apis/scheduling/v1alpha1"
	"github.com/koordinator-sh/koordinator/pkg/features"
	utilfeature "github.com/koordinator-sh/koordinator/pkg/util/feature"
)

// Wire format: see /verif/coq/C15/Extract.v.
//
// input  : gates nops op*   (gates: bit 0 = ElasticQuotaEnableUpdateResourceKey, bit 1 = ElasticQuotaGuaranteeUsage)
//   op      = kind name npods (label ns)* payload [payload_old when kind=1 or 4]
//             kind 0 add, 1 update, 2 delete: admission requests (ValidAddQuota / ValidUpdateQuota / ValidDeleteQuota)
//             kind 3 add, 4 update, 5 delete: informer deliveries (OnQuotaAdd / OnQuotaUpdate / OnQuotaDelete)
//   payload = plabel isParent tree treeRoot force sw nsBad nns ns* strictBad nstrict key* vec(used) vec(min) vec(max) vec(guaranteed)
//   vec     = k (key value)*
// observable : per op  outcome (0 rejected, 1 admitted / handled, 2 the informer handler panicked), then the recorded topology:
//   ninfos (name parent isParent force treeRoot tree min[3] max[3])*  nhier (key nchildren child*)*  nns (ns quota)*

const vtC15Dims = 3

// ---- names <-> integers (injective; order of integers is the order of the observable) ----

func vtC15QName(id int64) string {
	switch id {
	case -1:
		return ""
	case 0:
		return extension.RootQuotaName
	case 1:
		return extension.SystemQuotaName
	case 2:
		return extension.DefaultQuotaName
	}
	return fmt.Sprintf("q%02d", id)
}

func vtC15QID(s string) int64 {
	switch s {
	case "":
		return -1
	case extension.RootQuotaName:
		return 0
	case extension.SystemQuotaName:
		return 1
	case extension.DefaultQuotaName:
		return 2
	}
	if strings.HasPrefix(s, "q") {
		if v, err := strconv.ParseInt(s[1:], 10, 64); err == nil {
			return v
		}
	}
	panic("verif C15: unknown quota name " + s)
}

func vtC15NsName(id int64) string {
	if id >= 1000 {
		return fmt.Sprintf("n%02d", id-1000)
	}
	return vtC15QName(id)
}

func vtC15NsID(s string) int64 {
	if strings.HasPrefix(s, "n") {
		if v, err := strconv.ParseInt(s[1:], 10, 64); err == nil {
			return 1000 + v
		}
	}
	return vtC15QID(s)
}

func vtC15ResName(k int64) corev1.ResourceName {
	switch k {
	case 0:
		return corev1.ResourceCPU
	case 1:
		return corev1.ResourceMemory
	case 2:
		return "example.com/gpu"
	}
	return corev1.ResourceName(fmt.Sprintf("example.com/r%d", k))
}

// ---- decoding ----

type vtC15Payload struct {
	plabel, tree, sw                         int64
	isParent, treeRoot, force, nsBad, strBad bool
	ns, strict                               []int64
	used, min, max, guar                     [][2]int64
}

type vtC15Op struct {
	kind, name int64
	pods       [][2]int64
	newP, oldP vtC15Payload
}

type vtC15Reader struct {
	in  []int64
	pos int
}

func (r *vtC15Reader) next() int64 {
	if r.pos >= len(r.in) {
		panic("verif C15: short input")
	}
	v := r.in[r.pos]
	r.pos++
	return v
}

func (r *vtC15Reader) list() []int64 {
	n := int(r.next())
	out := make([]int64, 0, n)
	for i := 0; i < n; i++ {
		out = append(out, r.next())
	}
	return out
}

func (r *vtC15Reader) vec() [][2]int64 {
	n := int(r.next())
	out := make([][2]int64, 0, n)
	for i := 0; i < n; i++ {
		k := r.next()
		v := r.next()
		out = append(out, [2]int64{k, v})
	}
	return out
}

func (r *vtC15Reader) payload() vtC15Payload {
	p := vtC15Payload{}
	p.plabel = r.next()
	p.isParent = r.next() != 0
	p.tree = r.next()
	p.treeRoot = r.next() != 0
	p.force = r.next() != 0
	p.sw = r.next()
	p.nsBad = r.next() != 0
	p.ns = r.list()
	p.strBad = r.next() != 0
	p.strict = r.list()
	p.used = r.vec()
	p.min = r.vec()
	p.max = r.vec()
	p.guar = r.vec()
	return p
}

func vtC15Decode(in []int64) (int64, []vtC15Op) {
	r := &vtC15Reader{in: in}
	gate := r.next()
	n := int(r.next())
	ops := make([]vtC15Op, 0, n)
	for i := 0; i < n; i++ {
		op := vtC15Op{}
		op.kind = r.next()
		op.name = r.next()
		np := int(r.next())
		for j := 0; j < np; j++ {
			l := r.next()
			ns := r.next()
			op.pods = append(op.pods, [2]int64{l, ns})
		}
		op.newP = r.payload()
		if op.kind == 1 || op.kind == 4 {
			op.oldP = r.payload()
		}
		ops = append(ops, op)
	}
	return gate, ops
}

func vtC15SetGate(gates int64) {
	if err := utilfeature.DefaultMutableFeatureGate.Set(fmt.Sprintf("%s=%v,%s=%v",
		features.ElasticQuotaEnableUpdateResourceKey, gates%2 == 1,
		features.ElasticQuotaGuaranteeUsage, gates >= 2)); err != nil {
		panic(err)
	}
}

// ---- encoding (used by the generator) ----

func vtC15EncVec(v [][2]int64) []int64 {
	out := []int64{int64(len(v))}
	for _, kv := range v {
		out = append(out, kv[0], kv[1])
	}
	return out
}

func vtC15EncPayload(p vtC15Payload) []int64 {
	out := []int64{p.plabel, vtB(p.isParent), p.tree, vtB(p.treeRoot), vtB(p.force), p.sw, vtB(p.nsBad), int64(len(p.ns))}
	out = append(out, p.ns...)
	out = append(out, vtB(p.strBad), int64(len(p.strict)))
	out = append(out, p.strict...)
	out = append(out, vtC15EncVec(p.used)...)
	out = append(out, vtC15EncVec(p.min)...)
	out = append(out, vtC15EncVec(p.max)...)
	out = append(out, vtC15EncVec(p.guar)...)
	return out
}

func vtC15EncOp(op vtC15Op) []int64 {
	out := []int64{op.kind, op.name, int64(len(op.pods))}
	for _, p := range op.pods {
		out = append(out, p[0], p[1])
	}
	out = append(out, vtC15EncPayload(op.newP)...)
	if op.kind == 1 || op.kind == 4 {
		out = append(out, vtC15EncPayload(op.oldP)...)
	}
	return out
}

// ---- building the objects the webhook receives ----

func vtC15ResList(v [][2]int64) corev1.ResourceList {
	rl := corev1.ResourceList{}
	for _, kv := range v {
		// wire amounts are milli-units (cpu 1500 = 1500m, memory likewise), so that quantities
		// inside one whole-unit interval occur
		rl[vtC15ResName(kv[0])] = *resource.NewMilliQuantity(kv[1], resource.DecimalSI)
	}
	return rl
}

func vtC15Quota(name int64, p vtC15Payload) *v1alpha1.ElasticQuota {
	q := &v1alpha1.ElasticQuota{
		TypeMeta: metav1.TypeMeta{Kind: "ElasticQuota", APIVersion: "scheduling.sigs.k8s.io/v1alpha1"},
		ObjectMeta: metav1.ObjectMeta{
			Name:        vtC15QName(name),
			Namespace:   "default",
			Labels:      map[string]string{},
			Annotations: map[string]string{},
		},
	}
	if p.plabel != -1 {
		q.Labels[extension.LabelQuotaParent] = vtC15QName(p.plabel)
	}
	if p.isParent {
		q.Labels[extension.LabelQuotaIsParent] = "true"
	}
	if p.tree != 0 {
		q.Labels[extension.LabelQuotaTreeID] = fmt.Sprintf("t%d", p.tree)
	}
	if p.treeRoot {
		q.Labels[extension.LabelQuotaIsRoot] = "true"
	}
	if p.force {
		q.Labels[extension.LabelAllowForceUpdate] = "true"
	}
	switch p.sw {
	case 1:
		q.Annotations[extension.AnnotationSharedWeight] = `{"cpu":"1","memory":"0"}`
	case 2:
		q.Annotations[extension.AnnotationSharedWeight] = `{"cpu":"1","memory":"-1"}`
	case 3:
		q.Annotations[extension.AnnotationSharedWeight] = `{"cpu":`
	}
	if p.nsBad {
		q.Annotations[extension.AnnotationQuotaNamespaces] = `{"not":"a list"}`
	} else if len(p.ns) > 0 {
		names := make([]string, 0, len(p.ns))
		for _, n := range p.ns {
			names = append(names, vtC15NsName(n))
		}
		raw, _ := json.Marshal(names)
		q.Annotations[extension.AnnotationQuotaNamespaces] = string(raw)
	}
	if p.strBad {
		q.Annotations[extension.AnnotationMaxStrictCheckResourceKeys] = `["cpu"`
	} else if len(p.strict) > 0 {
		keys := make([]string, 0, len(p.strict))
		for _, k := range p.strict {
			keys = append(keys, string(vtC15ResName(k)))
		}
		raw, _ := json.Marshal(keys)
		q.Annotations[extension.AnnotationMaxStrictCheckResourceKeys] = string(raw)
	}
	if len(p.guar) > 0 {
		raw, _ := json.Marshal(vtC15ResList(p.guar))
		q.Annotations[extension.AnnotationGuaranteed] = string(raw)
	}
	q.Status.Used = vtC15ResList(p.used)
	q.Spec.Min = vtC15ResList(p.min)
	q.Spec.Max = vtC15ResList(p.max)
	return q
}

// the environment: a fake API client holding exactly the given pods, with the production
// "label.quotaName" field index (pkg/util/fieldindex/register.go). The webhook only lists
// pods, so clients are shared between requests with the same pods (building one is slow).
var vtC15Clients = map[string]client.Client{}

func vtC15Client(pods [][2]int64) client.Client {
	key := fmt.Sprint(pods)
	if c, ok := vtC15Clients[key]; ok {
		return c
	}
	objs := make([]client.Object, 0, len(pods))
	for i, p := range pods {
		pod := &corev1.Pod{ObjectMeta: metav1.ObjectMeta{Name: fmt.Sprintf("p%d", i), Namespace: vtC15NsName(p[1])}}
		if p[0] != -1 {
			pod.Labels = map[string]string{extension.LabelQuotaName: vtC15QName(p[0])}
		}
		objs = append(objs, pod)
	}
	c := fake.NewClientBuilder().WithIndex(&corev1.Pod{}, "label.quotaName", func(obj client.Object) []string {
		pod, ok := obj.(*corev1.Pod)
		if !ok {
			return []string{}
		}
		if len(pod.Labels) == 0 || pod.Labels[extension.LabelQuotaName] == "" {
			return []string{}
		}
		return []string{pod.Labels[extension.LabelQuotaName]}
	}).WithObjects(objs...).Build()
	if len(vtC15Clients) > 2000 {
		vtC15Clients = map[string]client.Client{}
	}
	vtC15Clients[key] = c
	return c
}

var vtC15EmptyClient client.Client

// vtC15Inform hands one informer event to the real handler, the way the shared informer does
// (typed objects from its cache); 1 = handled, 2 = the handler panicked.
func vtC15Inform(qt *quotaTopology, op vtC15Op) (out int64) {
	defer func() {
		if e := recover(); e != nil {
			out = 2
		}
	}()
	switch op.kind {
	case 3:
		qt.OnQuotaAdd(vtC15Quota(op.name, op.newP))
	case 4:
		qt.OnQuotaUpdate(vtC15Quota(op.name, op.oldP), vtC15Quota(op.name, op.newP))
	default:
		qt.OnQuotaDelete(vtC15Quota(op.name, op.newP))
	}
	return 1
}

// vtC15Do drives one op (request or informer delivery) and returns its outcome.
func vtC15Do(qt *quotaTopology, op vtC15Op) int64 {
	if op.kind >= 3 {
		return vtC15Inform(qt, op)
	}
	return vtB(vtC15Apply(qt, op))
}

// vtC15Apply drives one request through the real entry point; true = admitted.
func vtC15Apply(qt *quotaTopology, op vtC15Op) bool {
	if len(op.pods) == 0 {
		if vtC15EmptyClient == nil {
			vtC15EmptyClient = vtC15Client(nil)
		}
		qt.client = vtC15EmptyClient
	} else {
		qt.client = vtC15Client(op.pods)
	}
	var err error
	switch op.kind {
	case 0:
		err = qt.ValidAddQuota(vtC15Quota(op.name, op.newP))
	case 1:
		err = qt.ValidUpdateQuota(vtC15Quota(op.name, op.oldP), vtC15Quota(op.name, op.newP))
	default:
		err = qt.ValidDeleteQuota(vtC15Quota(op.name, op.newP))
	}
	return err == nil
}

func vtC15Res(rl corev1.ResourceList) []int64 {
	out := make([]int64, 0, vtC15Dims)
	for k := int64(0); k < vtC15Dims; k++ {
		if q, ok := rl[vtC15ResName(k)]; ok {
			out = append(out, q.MilliValue())
		} else {
			out = append(out, -1)
		}
	}
	return out
}

// vtC15Observe projects the recorded topology: getQuotaTopologyInfo() plus the fields of the
// anchored state it does not export (tree id, force/is-root flags, the namespace map).
func vtC15Observe(qt *quotaTopology) []int64 {
	sum := qt.getQuotaTopologyInfo()
	ids := make([]int64, 0, len(sum.QuotaInfoMap))
	for name := range sum.QuotaInfoMap {
		ids = append(ids, vtC15QID(name))
	}
	sort.Slice(ids, func(i, j int) bool { return ids[i] < ids[j] })
	out := []int64{int64(len(ids))}
	for _, id := range ids {
		s := sum.QuotaInfoMap[vtC15QName(id)]
		qi := qt.quotaInfoMap[vtC15QName(id)]
		out = append(out, vtC15QID(s.Name), vtC15QID(s.ParentName), vtB(s.IsParent), vtB(qi.AllowForceUpdate), vtB(qi.IsTreeRoot))
		tree := int64(0)
		if qi.TreeID != "" {
			tree, _ = strconv.ParseInt(qi.TreeID[1:], 10, 64)
		}
		out = append(out, tree)
		out = append(out, vtC15Res(s.Min)...)
		out = append(out, vtC15Res(s.Max)...)
	}
	keys := make([]int64, 0, len(sum.QuotaHierarchyInfo))
	for name := range sum.QuotaHierarchyInfo {
		keys = append(keys, vtC15QID(name))
	}
	sort.Slice(keys, func(i, j int) bool { return keys[i] < keys[j] })
	out = append(out, int64(len(keys)))
	for _, k := range keys {
		cs := make([]int64, 0)
		for _, c := range sum.QuotaHierarchyInfo[vtC15QName(k)] {
			cs = append(cs, vtC15QID(c))
		}
		sort.Slice(cs, func(i, j int) bool { return cs[i] < cs[j] })
		out = append(out, k, int64(len(cs)))
		out = append(out, cs...)
	}
	nss := make([]int64, 0, len(qt.namespaceToQuotaMap))
	for ns := range qt.namespaceToQuotaMap {
		nss = append(nss, vtC15NsID(ns))
	}
	sort.Slice(nss, func(i, j int) bool { return nss[i] < nss[j] })
	out = append(out, int64(len(nss)))
	for _, ns := range nss {
		out = append(out, ns, vtC15QID(qt.namespaceToQuotaMap[vtC15NsName(ns)]))
	}
	return out
}

func vtC15Exec(in []int64) []int64 {
	gate, ops := vtC15Decode(in)
	vtC15SetGate(gate)
	defer vtC15SetGate(0)
	qt := NewQuotaTopology(nil)
	obs := make([]int64, 0, 64*len(ops))
	for _, op := range ops {
		obs = append(obs, vtC15Do(qt, op))
		obs = append(obs, vtC15Observe(qt)...)
	}
	return obs
}

// ---- generator: adaptive (it runs the implementation to know what is currently admitted, so
// that old objects are the stored ones and requests target the current tree), but the
// produced case is a plain op list and Exec is a function of it alone ----

type vtC15GenState struct {
	r     *rand.Rand
	qt    *quotaTopology
	store map[int64]vtC15Payload
	style string
	gate  bool
	guar  bool
}

func (g *vtC15GenState) live() []int64 {
	ids := make([]int64, 0, len(g.store))
	for id := range g.store {
		ids = append(ids, id)
	}
	sort.Slice(ids, func(i, j int) bool { return ids[i] < ids[j] })
	return ids
}

func (g *vtC15GenState) pick(xs []int64) int64 { return xs[g.r.Intn(len(xs))] }

// milli-units: whole units x plus an offset inside the unit interval
func (g *vtC15GenState) frac() int64 {
	return []int64{0, 0, 0, 1, 200, 500, 999}[g.r.Intn(7)]
}

func (g *vtC15GenState) qty() int64 {
	switch g.style {
	case "large":
		if g.r.Intn(3) == 0 {
			return vtQty(g.r, int64(1)<<40)
		}
		return vtQty(g.r, int64(1)<<30)*1000 + g.frac()
	}
	return int64(g.r.Intn(13))*1000 + g.frac()
}

func (g *vtC15GenState) keyset() []int64 {
	switch g.r.Intn(10) {
	case 0:
		return []int64{0}
	case 1:
		return []int64{0, 1, 2}
	case 2:
		return []int64{1}
	}
	return []int64{0, 1}
}

// a fresh payload for a quota below `parent` (-1: no label), shaped so that it is usually admissible
func (g *vtC15GenState) fresh(parent int64) vtC15Payload {
	r := g.r
	p := vtC15Payload{plabel: parent}
	if (g.style == "deep" || g.style == "siblings") && r.Intn(8) != 0 {
		// uniform dimensions, roomy parents, small leaves: re-parenting is usually admissible
		p.isParent = r.Intn(4) != 0
		if g.style == "siblings" {
			p.isParent = parent <= 0 // one level: parents at the top, their children share the min
		}
		for k := int64(0); k < 2; k++ {
			p.max = append(p.max, [2]int64{k, 100000})
			mn := int64(r.Intn(3))*1000 + g.frac()
			if p.isParent {
				mn = int64(6+r.Intn(10))*1000 + g.frac()
			}
			if room, ok := g.room(parent, -5, k); ok && room < mn && r.Intn(6) != 0 {
				mn = room
			}
			p.min = append(p.min, [2]int64{k, mn})
		}
		if g.guar {
			g.guarantee(&p, nil)
		}
		return p
	}
	keys := g.keyset()
	var pp *vtC15Payload
	if parent > 0 {
		if s, ok := g.store[parent]; ok {
			pp = &s
		}
	}
	if pp != nil && r.Intn(8) != 0 {
		keys = keys[:0]
		for _, kv := range pp.max {
			if g.gate && len(pp.max) > 1 && r.Intn(3) == 0 {
				continue
			}
			keys = append(keys, kv[0])
		}
		p.tree = pp.tree
	} else if r.Intn(8) == 0 {
		p.tree = int64(1 + r.Intn(2))
	}
	for _, k := range keys {
		mx := g.qty()
		if r.Intn(3) != 0 {
			mx += 6000
		}
		p.max = append(p.max, [2]int64{k, mx})
		if r.Intn(5) != 0 {
			mn := mx
			if mx > 0 {
				mn = r.Int63n(mx + 1)
			}
			if pp != nil && r.Intn(5) != 0 {
				// stay within what the parent still has
				if room, ok := g.room(parent, -5, k); ok {
					if room < mn {
						mn = room
						if r.Intn(3) == 0 && mn > 0 {
							mn = r.Int63n(mn + 1)
						}
					}
				} else {
					continue // the parent declares no min here
				}
			}
			switch r.Intn(40) {
			case 0:
				mn = mx + 1 // above max, usually inside the same whole-unit interval
			case 1:
				mn = mx + 300
			case 2:
				mn = mx + 1000
			}
			p.min = append(p.min, [2]int64{k, mn})
		}
	}
	if r.Intn(30) == 0 {
		p.min = append(p.min, [2]int64{2, 1})
	}
	if r.Intn(40) == 0 && len(p.max) > 0 {
		p.max[0][1] = -1
	}
	if r.Intn(40) == 0 && len(p.min) > 0 {
		p.min[len(p.min)-1][1] = -2
	}
	p.isParent = r.Intn(5) < 3
	p.treeRoot = r.Intn(20) == 0
	if g.guar {
		g.guarantee(&p, pp)
	}
	p.force = r.Intn(15) == 0
	switch r.Intn(30) {
	case 0:
		p.sw = 2
	case 1:
		p.sw = 3
	case 2, 3, 4:
		p.sw = 1
	}
	if r.Intn(3) == 0 {
		n := 1 + r.Intn(2)
		for i := 0; i < n; i++ {
			if r.Intn(12) == 0 {
				p.ns = append(p.ns, int64(3+r.Intn(4)))
			} else {
				p.ns = append(p.ns, int64(1000+r.Intn(4)))
			}
		}
	}
	p.nsBad = r.Intn(40) == 0
	if r.Intn(12) == 0 {
		p.strict = []int64{int64(r.Intn(3))}
		if r.Intn(2) == 0 {
			p.strict = append(p.strict, int64(r.Intn(4)))
		}
		for k := int64(0); k < 3; k++ {
			if r.Intn(2) == 0 {
				p.used = append(p.used, [2]int64{k, g.qty()})
			}
		}
		p.strBad = r.Intn(10) == 0
	}
	return p
}

// with the gate ElasticQuotaGuaranteeUsage: most quotas live in tree 1, top-level ones are tree
// roots, and the scheduler-written guaranteed amount is the min, part of it, or absent
func (g *vtC15GenState) guarantee(p *vtC15Payload, pp *vtC15Payload) {
	r := g.r
	if r.Intn(6) != 0 {
		if pp != nil {
			p.tree = pp.tree
		} else if p.plabel <= 0 {
			p.tree = 1
			p.treeRoot = r.Intn(5) != 0
		}
	}
	p.guar = nil
	switch r.Intn(4) {
	case 0:
	case 1:
		for _, kv := range p.min {
			p.guar = append(p.guar, [2]int64{kv[0], kv[1] / 2})
		}
	default:
		for _, kv := range p.min {
			p.guar = append(p.guar, [2]int64{kv[0], kv[1] + int64(r.Intn(3))})
		}
	}
}

func vtC15CopyPayload(p vtC15Payload) vtC15Payload {
	c := p
	c.ns = append([]int64(nil), p.ns...)
	c.strict = append([]int64(nil), p.strict...)
	c.used = append([][2]int64(nil), p.used...)
	c.min = append([][2]int64(nil), p.min...)
	c.max = append([][2]int64(nil), p.max...)
	c.guar = append([][2]int64(nil), p.guar...)
	return c
}

// parents worth trying: root (as label or absent), live quotas (parents preferred), rarely a missing one
func (g *vtC15GenState) parentChoice(self int64) int64 {
	r := g.r
	live := g.live()
	var par []int64
	for _, id := range live {
		if g.store[id].isParent && id != self {
			par = append(par, id)
		}
	}
	if g.style == "siblings" && len(par) > 0 && r.Intn(6) != 0 {
		if r.Intn(4) != 0 {
			return par[0]
		}
		return g.pick(par)
	}
	switch x := r.Intn(25); {
	case x < 3:
		return -1
	case x < 6:
		return 0
	case x < 20:
		if len(par) > 0 {
			return g.pick(par)
		}
		return int64(-(r.Intn(2))) // 0 or -1
	case x < 22 && len(live) > 0:
		return g.pick(live)
	case x == 22:
		return self
	}
	return int64(3 + r.Intn(6))
}

// what the parent's min still has room for in dimension k (ignoring `self`)
func (g *vtC15GenState) room(parent, self, k int64) (int64, bool) {
	pp, ok := g.store[parent]
	if !ok {
		return 0, false
	}
	var have int64
	found := false
	for _, kv := range pp.min {
		if kv[0] == k {
			have, found = kv[1], true
		}
	}
	if !found {
		return 0, false
	}
	for id, c := range g.store {
		if id == self {
			continue
		}
		cp := c.plabel
		if cp == -1 {
			cp = 0
		}
		if cp != parent {
			continue
		}
		for _, kv := range c.min {
			if kv[0] == k {
				have -= kv[1]
			}
		}
	}
	if have < 0 {
		have = 0
	}
	return have, true
}

func (g *vtC15GenState) hasBrother(self, parent int64) bool {
	for id, c := range g.store {
		if id != self && c.plabel == parent {
			return true
		}
	}
	return false
}

func (g *vtC15GenState) mutate(name int64, old vtC15Payload) vtC15Payload {
	r := g.r
	p := vtC15CopyPayload(old)
	n := 1
	if r.Intn(4) == 0 {
		n = 2
	}
	for i := 0; i < n; i++ {
		x := r.Intn(14)
		if g.style == "deep" && r.Intn(3) == 0 {
			x = 0
		} else if g.style == "siblings" && p.plabel > 0 && r.Intn(2) == 0 {
			x = 4
		} else if p.plabel > 0 && g.hasBrother(name, p.plabel) && r.Intn(3) == 0 {
			x = 4 // a min against what the brothers leave
		}
		switch x {
		case 12, 13: // change the namespaces (often to one somebody else declares)
			switch r.Intn(4) {
			case 0:
				p.ns = nil
			case 1:
				if len(p.ns) > 0 {
					p.ns = p.ns[:len(p.ns)-1]
				}
			default:
				var taken []int64
				for id, c := range g.store {
					if id != name {
						taken = append(taken, c.ns...)
					}
				}
				sort.Slice(taken, func(i, j int) bool { return taken[i] < taken[j] })
				if len(taken) > 0 && r.Intn(2) == 0 {
					p.ns = append(p.ns, g.pick(taken))
				} else {
					p.ns = append(p.ns, int64(1000+r.Intn(4)))
				}
			}
		case 0, 1, 2: // re-parent
			if r.Intn(3) != 0 || g.style == "deep" {
				// a parent that fits: same dimensions and tree (descendants included: cycle attempts)
				var fit []int64
				for _, id := range g.live() {
					c := g.store[id]
					if !c.isParent || c.tree != p.tree || len(c.max) != len(p.max) || (id == name && r.Intn(4) != 0) {
						continue
					}
					same := true
					for j := range c.max {
						if c.max[j][0] != p.max[j][0] {
							same = false
						}
					}
					if same {
						fit = append(fit, id)
					}
				}
				if len(fit) > 0 {
					p.plabel = g.pick(fit)
					var keep [][2]int64
					for j := range p.min {
						room, ok := g.room(p.plabel, name, p.min[j][0])
						if !ok && r.Intn(6) != 0 {
							continue // the new parent declares no min in this dimension
						}
						if ok && room < p.min[j][1] && r.Intn(6) != 0 {
							p.min[j][1] = room
						}
						keep = append(keep, p.min[j])
					}
					p.min = keep
					continue
				}
			}
			p.plabel = g.parentChoice(name)
			if p.plabel > 0 && r.Intn(4) != 0 {
				if s, ok := g.store[p.plabel]; ok {
					p.tree = s.tree
				}
			}
		case 3:
			p.isParent = !p.isParent
			if p.isParent && len(p.ns) == 0 && r.Intn(3) == 0 {
				p.ns = []int64{int64(1000 + r.Intn(4))}
			}
		case 4, 5, 6: // change a min
			if len(p.min) > 0 && p.plabel > 0 && (r.Intn(2) == 0 || g.hasBrother(name, p.plabel)) {
				// exactly what the brothers leave of the parent's min, or just above it
				j := r.Intn(len(p.min))
				if room, ok := g.room(p.plabel, name, p.min[j][0]); ok {
					p.min[j][1] = room + []int64{0, 0, 1, 300, 1000}[r.Intn(5)]
					for _, kv := range p.max {
						if kv[0] == p.min[j][0] && kv[1] < p.min[j][1] && r.Intn(8) != 0 {
							p.min[j][1] = kv[1]
						}
					}
					continue
				}
			}
			if len(p.min) > 0 {
				j := r.Intn(len(p.min))
				switch r.Intn(4) {
				case 0:
					p.min[j][1] = g.qty()
				case 1:
					p.min[j][1] += []int64{1, 300, 1000}[r.Intn(3)]
				case 2:
					if d := []int64{1, 300, 1000}[r.Intn(3)]; p.min[j][1] >= d {
						p.min[j][1] -= d
					}
				default:
					p.min[j][1] = p.min[j][1] / 2
				}
			} else if len(p.max) > 0 {
				p.min = append(p.min, [2]int64{p.max[0][0], 0})
			}
		case 7: // change a max
			if len(p.max) > 0 {
				j := r.Intn(len(p.max))
				switch r.Intn(3) {
				case 0:
					p.max[j][1] += int64(r.Intn(4)) * 1000
				case 1:
					// just below / above the min of the same dimension
					for _, kv := range p.min {
						if kv[0] == p.max[j][0] {
							p.max[j][1] = kv[1] + []int64{-300, -1, 0, 1}[r.Intn(4)]
						}
					}
				default:
					p.max[j][1] = g.qty()
				}
			}
		case 8: // change the dimensions
			switch r.Intn(3) {
			case 0:
				if len(p.max) > 0 {
					p.max = p.max[:len(p.max)-1]
				}
			case 1:
				p.max = append(p.max, [2]int64{2, g.qty()})
			default:
				if len(p.min) > 0 {
					p.min = p.min[:len(p.min)-1]
				}
			}
		case 9:
			if r.Intn(2) == 0 {
				p.force = !p.force
			} else {
				p.treeRoot = !p.treeRoot
			}
		case 10:
			if r.Intn(3) == 0 {
				p.tree = int64(r.Intn(3))
			} else if r.Intn(2) == 0 {
				p.ns = nil
			} else {
				p.ns = append(p.ns, int64(1000+r.Intn(4)))
			}
		default:
			if g.guar && r.Intn(2) == 0 {
				g.guarantee(&p, nil)
				break
			}
			switch r.Intn(4) {
			case 0:
				p.sw = int64(r.Intn(4))
			case 1:
				p.nsBad = !p.nsBad
			case 2:
				p.strict = []int64{int64(r.Intn(3))}
				p.used = [][2]int64{{p.strict[0], g.qty()}}
			default:
			}
		}
	}
	return p
}

func (g *vtC15GenState) pods(target int64, ns []int64, likely bool) [][2]int64 {
	r := g.r
	if likely {
		if r.Intn(2) != 0 {
			return nil
		}
	} else if r.Intn(6) != 0 {
		return nil
	}
	var out [][2]int64
	n := 1 + r.Intn(2)
	if likely {
		n = 1
	}
	for i := 0; i < n; i++ {
		label, nsid := int64(-1), int64(1000+r.Intn(4))
		switch r.Intn(5) {
		case 0:
			label = target
		case 1:
			nsid = target
		case 2:
			if len(ns) > 0 {
				nsid = ns[r.Intn(len(ns))]
			}
		case 3:
			label = int64(3 + r.Intn(5))
		}
		out = append(out, [2]int64{label, nsid})
	}
	return out
}

func vtC15Gen(r *rand.Rand, i int) (string, []int64) {
	g := &vtC15GenState{r: r, qt: NewQuotaTopology(nil), store: map[int64]vtC15Payload{}}
	g.style = []string{"small", "small", "small", "deep", "deep", "siblings", "siblings", "large", "special"}[r.Intn(9)]
	maxOps := 10
	if os.Getenv("VERIF_TIER") == "thorough" && r.Intn(4) == 0 {
		maxOps = 24
	}
	nops := 2 + r.Intn(maxOps)
	gates := int64(0)
	if r.Intn(4) == 0 {
		gates++
	}
	if r.Intn(4) == 0 {
		gates += 2
	}
	g.gate = gates%2 == 1
	g.guar = gates >= 2
	vtC15SetGate(gates)
	defer vtC15SetGate(0)
	in := []int64{gates, int64(nops)}
	names := []int64{3, 4, 5, 6, 7}
	if g.style == "deep" || g.style == "siblings" {
		names = []int64{3, 4, 5, 6, 7, 8}
		nops += 3
		in[1] = int64(nops)
	}
	for j := 0; j < nops; j++ {
		op := g.request(names)
		in = append(in, vtC15EncOp(op)...)
		if vtC15Apply(g.qt, op) {
			g.persist(op)
		}
	}
	return g.style, in
}

// persist records an admitted write in the generator's copy of the API server's content
func (g *vtC15GenState) persist(op vtC15Op) {
	switch op.kind % 3 {
	case 0, 1:
		g.store[op.name] = vtC15CopyPayload(op.newP)
	default:
		delete(g.store, op.name)
	}
}

// request draws the next admission request against the current store
func (g *vtC15GenState) request(names []int64) vtC15Op {
	r := g.r
	live := g.live()
	op := vtC15Op{}
	x := r.Intn(100)
	switch {
	case len(live) == 0 || x < 40: // create
		op.kind = 0
		var free []int64
		for _, n := range names {
			if _, ok := g.store[n]; !ok {
				free = append(free, n)
			}
		}
		if len(free) > 0 && r.Intn(10) != 0 {
			op.name = g.pick(free)
		} else {
			op.name = g.pick(names)
		}
		if g.style == "special" && r.Intn(3) == 0 {
			op.name = int64(r.Intn(3))
		}
		op.newP = g.fresh(g.parentChoice(op.name))
		if op.name == 0 && r.Intn(3) != 0 {
			// the root object the scheduler creates
			op.newP = vtC15Payload{plabel: -1, isParent: true}
		}
	case x < 80: // update
		op.kind = 1
		op.name = g.pick(live)
		if r.Intn(12) == 0 {
			op.name = g.pick(names)
		}
		if g.style == "special" && r.Intn(6) == 0 {
			op.name = int64(r.Intn(3))
		}
		old, ok := g.store[op.name]
		if !ok {
			old = g.fresh(g.parentChoice(op.name))
		} else if r.Intn(15) == 0 {
			old = g.mutate(op.name, old) // a stale old object
		}
		op.oldP = old
		op.newP = g.mutate(op.name, old)
	default: // delete
		op.kind = 2
		op.name = g.pick(live)
		if r.Intn(10) == 0 {
			op.name = g.pick(names)
		}
		if g.style == "special" && r.Intn(6) == 0 {
			op.name = int64(r.Intn(3))
		}
		if s, ok := g.store[op.name]; ok && r.Intn(15) != 0 {
			op.newP = s
		} else {
			op.newP = g.fresh(-1)
		}
	}
	podNs := op.oldP.ns
	if op.kind == 2 {
		podNs = op.newP.ns
	}
	// an is-parent flip to true (refused while pods are bound) gets pods more often
	op.pods = g.pods(op.name, podNs, op.kind == 1 && !op.oldP.isParent && op.newP.isParent)
	return op
}

func TestVerifC15(t *testing.T) { vtMain(t, "C15", vtC15Gen, vtC15Exec) }

// ---- informer stream: the observed replica handles admission requests AND the informer
// deliveries a webhook replica receives in production: the echo of every write it admitted
// itself (sometimes twice, sometimes late or never), the writes a peer replica admitted (the
// generator runs a second, real quotaTopology that is kept in step through its own informer
// handlers and validates the peer's requests), periodic resyncs (update events with old == new),
// and, rarely, stale or fabricated events. ----

// vtC15FieldsEq: ValidUpdateQuota returns early (nothing is checked) when these fields agree
// (and, since the repair of findings/C15-unchecked-flag-drop.md, the two exempting labels)
func vtC15FieldsEq(a, b vtC15Payload) bool {
	if a.plabel != b.plabel || a.isParent != b.isParent || a.tree != b.tree || a.nsBad != b.nsBad ||
		a.force != b.force || a.treeRoot != b.treeRoot {
		return false
	}
	if !a.nsBad && fmt.Sprint(a.ns) != fmt.Sprint(b.ns) {
		return false
	}
	m := func(v [][2]int64) string {
		mm := map[int64]int64{}
		for _, kv := range v {
			mm[kv[0]] = kv[1]
		}
		return fmt.Sprint(mm)
	}
	return m(a.min) == m(b.min) && m(a.max) == m(b.max)
}

func vtC15InfOp(op vtC15Op) vtC15Op {
	e := op
	e.kind = op.kind%3 + 3
	return e
}

func vtC15InfGen(r *rand.Rand, i int) (string, []int64) {
	g := &vtC15GenState{r: r, qt: NewQuotaTopology(nil), store: map[int64]vtC15Payload{}}
	peer := NewQuotaTopology(nil) // a second replica, in step with the API server's content
	g.style = []string{"small", "small", "deep", "siblings", "siblings", "large"}[r.Intn(6)]
	// mode "flagdrop" steers towards the shape of findings/C15-unchecked-flag-drop.md: children
	// admitted only under allow-force-update, then updates that remove nothing but the label
	mode := []string{"echo", "echo", "peers", "peers", "mixed", "unruly", "flagdrop"}[r.Intn(7)]
	nops := 4 + r.Intn(14)
	gates := int64(0)
	if r.Intn(4) == 0 {
		gates++
	}
	if r.Intn(5) == 0 {
		gates += 2
	}
	g.gate = gates%2 == 1
	g.guar = gates >= 2
	vtC15SetGate(gates)
	defer vtC15SetGate(0)
	names := []int64{3, 4, 5, 6, 7}
	if g.style == "deep" || g.style == "siblings" {
		names = []int64{3, 4, 5, 6, 7, 8}
	}
	var ops []vtC15Op
	emit := func(op vtC15Op) int64 { // to the observed replica
		ops = append(ops, op)
		return vtC15Do(g.qt, op)
	}
	var late []vtC15Op // echoes not delivered yet
	var history []vtC15Op
	draw := func() vtC15Op {
		op := g.request(names)
		if mode == "flagdrop" {
			switch {
			case op.kind == 0 && op.newP.plabel > 0 && r.Intn(2) == 0:
				// a child admitted only under allow-force-update: its min is above what is left
				op.newP.force = true
				for j := range op.newP.min {
					if room, ok := g.room(op.newP.plabel, op.name, op.newP.min[j][0]); ok {
						op.newP.min[j][1] = room + 1000
					}
				}
			case op.kind == 1 && (op.oldP.force || op.oldP.treeRoot) && r.Intn(2) == 0:
				// nothing but the label changes: admitted unchecked
				op.newP = vtC15CopyPayload(op.oldP)
				op.newP.force, op.newP.treeRoot = false, false
			}
		}
		return op
	}
	for len(ops) < nops {
		x := r.Intn(100)
		peerShare := map[string]int{"echo": 0, "peers": 60, "mixed": 35, "unruly": 30, "flagdrop": 20}[mode]
		switch {
		case x < peerShare:
			// a write validated by the peer replica; the observed replica only sees the event
			op := draw()
			if vtC15Apply(peer, op) {
				g.persist(op)
				ev := vtC15InfOp(op)
				vtC15Inform(peer, ev) // the peer's own echo
				emit(ev)
				history = append(history, ev)
				if r.Intn(8) == 0 {
					emit(ev) // delivered twice
				}
			} else if mode == "unruly" && r.Intn(3) == 0 {
				emit(vtC15InfOp(op)) // an event for a write nobody admitted
			}
		case x < 88:
			// a request handled by the observed replica
			op := draw()
			if emit(op) == 1 {
				g.persist(op)
				ev := vtC15InfOp(op)
				vtC15Inform(peer, ev)
				history = append(history, ev)
				switch y := r.Intn(20); {
				case y < 15:
					emit(ev)
					if r.Intn(6) == 0 {
						emit(ev)
					}
				case y < 17 || mode != "unruly":
					// no echo before the next op (the informer lags)
					if mode == "unruly" {
						late = append(late, ev)
					}
				default:
					late = append(late, ev)
				}
			}
		case x < 94:
			// resync: update event with the stored object on both sides
			if live := g.live(); len(live) > 0 {
				n := g.pick(live)
				p := g.store[n]
				emit(vtC15Op{kind: 4, name: n, newP: p, oldP: p})
			}
		default:
			switch {
			case mode == "unruly" && len(late) > 0:
				emit(late[0]) // a late echo
				late = late[1:]
			case mode == "unruly" && len(history) > 0:
				emit(history[r.Intn(len(history))]) // a stale event, delivered again
			default:
				if live := g.live(); len(live) > 0 {
					n := g.pick(live)
					p := g.store[n]
					emit(vtC15Op{kind: 4, name: n, newP: p, oldP: p})
				}
			}
		}
	}
	in := []int64{gates, int64(len(ops))}
	for _, op := range ops {
		in = append(in, vtC15EncOp(op)...)
	}
	return mode + "/" + g.style, in
}

func TestVerifC15Inf(t *testing.T) { vtMain(t, "C15", vtC15InfGen, vtC15Exec) }

// ---- exhaustive stream: case i is the i-th request sequence (shortest first) over the names
// {3,4,5}: create with parent in {root, the two other names} x is-parent x min in {600m,1200m} (one
// dimension, in milli-units: min 600m or 1200m, max 1200m); update = the stored object with one field changed (parent / is-parent /
// min); delete. Sequences start with a create (on the empty record the others are no-ops). ----

func vtC15ExhPayload(parent int64, isParent bool, mn int64) vtC15Payload {
	return vtC15Payload{plabel: parent, isParent: isParent, min: [][2]int64{{0, 600 * mn}}, max: [][2]int64{{0, 1200}}}
}

func vtC15ExhOthers(name int64) [2]int64 {
	switch name {
	case 3:
		return [2]int64{4, 5}
	case 4:
		return [2]int64{3, 5}
	}
	return [2]int64{3, 4}
}

const (
	vtC15ExhAdds  = 36 // 3 names x 12 payloads
	vtC15ExhOps   = 57 // 3 names x (12 creates + 6 updates + 1 delete)
	vtC15ExhLen2  = vtC15ExhAdds * vtC15ExhOps
	vtC15ExhLen3  = vtC15ExhAdds * vtC15ExhOps * vtC15ExhOps
	vtC15ExhTotal = vtC15ExhAdds + vtC15ExhLen2 + vtC15ExhLen3
)

// op number c (0..56) against the store
func vtC15ExhOp(c int, store map[int64]vtC15Payload) vtC15Op {
	name := int64(3 + c/19)
	v := c % 19
	oth := vtC15ExhOthers(name)
	parents := []int64{-1, oth[0], oth[1]}
	switch {
	case v < 12:
		return vtC15Op{kind: 0, name: name, newP: vtC15ExhPayload(parents[v/4], (v/2)%2 == 1, int64(1+v%2))}
	case v < 18:
		old, ok := store[name]
		if !ok {
			old = vtC15ExhPayload(-1, false, 1)
		}
		nw := vtC15CopyPayload(old)
		switch u := v - 12; u {
		case 0, 1, 2:
			nw.plabel = parents[u]
		case 3:
			nw.isParent = !nw.isParent
		default:
			nw.min = [][2]int64{{0, 600 * int64(u-3)}}
		}
		return vtC15Op{kind: 1, name: name, oldP: old, newP: nw}
	}
	old, ok := store[name]
	if !ok {
		old = vtC15ExhPayload(-1, false, 1)
	}
	return vtC15Op{kind: 2, name: name, newP: old}
}

func vtC15ExhGen(r *rand.Rand, i int) (string, []int64) {
	i = i % vtC15ExhTotal
	var codes []int
	switch {
	case i < vtC15ExhAdds:
		codes = []int{(i/12)*19 + i%12}
	case i < vtC15ExhAdds+vtC15ExhLen2:
		j := i - vtC15ExhAdds
		a := j / vtC15ExhOps
		codes = []int{(a/12)*19 + a%12, j % vtC15ExhOps}
	default:
		j := i - vtC15ExhAdds - vtC15ExhLen2
		a := j / (vtC15ExhOps * vtC15ExhOps)
		codes = []int{(a/12)*19 + a%12, (j / vtC15ExhOps) % vtC15ExhOps, j % vtC15ExhOps}
	}
	qt := NewQuotaTopology(nil)
	store := map[int64]vtC15Payload{}
	in := []int64{0, int64(len(codes))}
	for _, c := range codes {
		op := vtC15ExhOp(c, store)
		in = append(in, vtC15EncOp(op)...)
		if vtC15Apply(qt, op) {
			if op.kind == 2 {
				delete(store, op.name)
			} else {
				store[op.name] = vtC15CopyPayload(op.newP)
			}
		}
	}
	return fmt.Sprintf("len%d", len(codes)), in
}

func TestVerifC15Exh(t *testing.T) { vtMain(t, "C15", vtC15ExhGen, vtC15Exec) }
