//go:build verif

package nodenumaresource

// C06 correspondence harness: three streams over the real code of this package.
//   take   : takePreferredCPUs / takeCPUs as a pure function            (coq/C06/take/Extract.v)
//   numa   : tryBestToDistributeEvenly as a pure function               (coq/C06/numa/Extract.v)
//   ledger : histories of resourceManager.Allocate+Update/Release/Update (coq/C06/ledger/Extract.v)
// Wire formats are documented at the top of the Extract.v files.

import (
	"context"
	"encoding/json"
	"fmt"
	"math/rand"
	"runtime"
	"sort"
	"strings"
	"sync"
	"sync/atomic"
	"testing"
	"time"

	nrtv1alpha1 "github.com/k8stopologyawareschedwg/noderesourcetopology-api/pkg/apis/topology/v1alpha1"

	corev1 "k8s.io/api/core/v1"
	"k8s.io/apimachinery/pkg/api/resource"
	metav1 "k8s.io/apimachinery/pkg/apis/meta/v1"
	"k8s.io/apimachinery/pkg/types"
	"k8s.io/client-go/tools/cache"
	"k8s.io/kubernetes/pkg/scheduler/framework"

	"github.com/koordinator-sh/koordinator/apis/extension"
	schedulingconfig "github.com/koordinator-sh/koordinator/pkg/scheduler/apis/config"
	"github.com/koordinator-sh/koordinator/pkg/scheduler/frameworkext/topologymanager"
	"github.com/koordinator-sh/koordinator/pkg/util/bitmask"
	"github.com/koordinator-sh/koordinator/pkg/util/cpuset"
)

const vtC06Ext = corev1.ResourceName("example.com/ext")

func vtC06Bind(b int64) schedulingconfig.CPUBindPolicy {
	switch b {
	case 1:
		return schedulingconfig.CPUBindPolicyFullPCPUs
	case 2:
		return schedulingconfig.CPUBindPolicySpreadByPCPUs
	}
	return schedulingconfig.CPUBindPolicyDefault
}

func vtC06Excl(e int64) schedulingconfig.CPUExclusivePolicy {
	switch e {
	case 1:
		return schedulingconfig.CPUExclusivePolicyPCPULevel
	case 2:
		return schedulingconfig.CPUExclusivePolicyNUMANodeLevel
	}
	return schedulingconfig.CPUExclusivePolicyNone
}

func vtC06ExclCode(p schedulingconfig.CPUExclusivePolicy) int64 {
	switch p {
	case schedulingconfig.CPUExclusivePolicyPCPULevel:
		return 1
	case schedulingconfig.CPUExclusivePolicyNUMANodeLevel:
		return 2
	}
	return 0
}

func vtC06Strategy(most int64) schedulingconfig.NUMAAllocateStrategy {
	if most != 0 {
		return schedulingconfig.NUMAMostAllocated
	}
	return schedulingconfig.NUMALeastAllocated
}

// reader over the flat input
type vtC06Rd struct {
	in []int64
	p  int
}

func (r *vtC06Rd) next() int64 {
	v := r.in[r.p]
	r.p++
	return v
}

func (r *vtC06Rd) list() []int {
	k := int(r.next())
	out := make([]int, 0, k)
	for i := 0; i < k; i++ {
		out = append(out, int(r.next()))
	}
	return out
}

func (r *vtC06Rd) topology() *CPUTopology {
	k := int(r.next())
	b := NewCPUTopologyBuilder()
	for i := 0; i < k; i++ {
		id, s, n, c := r.next(), r.next(), r.next(), r.next()
		b.AddCPUInfo(int(s), int(n), int(c), int(id))
	}
	t := b.Result()
	if t.CPUDetails == nil {
		t.CPUDetails = NewCPUDetails()
	}
	return t
}

func vtC06Ints(xs []int) []int64 {
	out := make([]int64, 0, len(xs)+1)
	out = append(out, int64(len(xs)))
	for _, x := range xs {
		out = append(out, int64(x))
	}
	return out
}

// ---------------------------------------------------------------- stream "take"

func vtC06TakeExec(in []int64) []int64 {
	r := &vtC06Rd{in: in}
	maxRef, n, bind, excl, most := r.next(), r.next(), r.next(), r.next(), r.next()
	topo := r.topology()
	avail := cpuset.NewCPUSet(r.list()...)
	pref := cpuset.NewCPUSet(r.list()...)
	allocated := NewCPUDetails()
	l := int(r.next())
	for i := 0; i < l; i++ {
		id, ref, e := int(r.next()), r.next(), r.next()
		info := topo.CPUDetails[id]
		info.CPUID = id
		info.RefCount = int(ref)
		info.ExclusivePolicy = vtC06Excl(e)
		allocated[id] = info
	}
	res, err := takePreferredCPUs(topo, int(maxRef), avail, pref, allocated, int(n),
		vtC06Bind(bind), vtC06Excl(excl), vtC06Strategy(most))
	if err != nil {
		return []int64{0}
	}
	out := []int64{1}
	out = append(out, vtC06Ints(res.ToSlice())...)
	out = append(out, vtB(satisfiedRequiredCPUBindPolicy(schedulingconfig.CPUBindPolicyFullPCPUs, res, topo) == nil))
	out = append(out, vtB(satisfiedRequiredCPUBindPolicy(schedulingconfig.CPUBindPolicySpreadByPCPUs, res, topo) == nil))
	return out
}

type vtC06CPU struct{ id, sock, node, core int }

// random topology; ids sequential, hyperthread-sibling style, or shuffled; sometimes one
// CPU is missing (offline), which makes the topology non-uniform
func vtC06GenTopo(r *rand.Rand, maxCPUs int) []vtC06CPU {
	for {
		sockets := 1 + r.Intn(3)
		if r.Intn(3) == 0 {
			sockets = 2 + r.Intn(2)
		}
		if r.Intn(10) == 0 {
			sockets = 4
		}
		nps := 1 + r.Intn(2)
		cpn := 1 + r.Intn(4)
		if r.Intn(8) == 0 {
			cpn = 5 + r.Intn(4)
		}
		tpc := 1 + r.Intn(2)
		if r.Intn(12) == 0 {
			tpc = 4
		}
		total := sockets * nps * cpn * tpc
		if total > maxCPUs {
			continue
		}
		numCores := sockets * nps * cpn
		style := r.Intn(3)
		perm := r.Perm(total)
		cpus := make([]vtC06CPU, 0, total)
		core := 0
		for s := 0; s < sockets; s++ {
			for n := 0; n < nps; n++ {
				for c := 0; c < cpn; c++ {
					for t := 0; t < tpc; t++ {
						var id int
						switch style {
						case 0:
							id = core*tpc + t
						case 1:
							id = core + t*numCores
						default:
							id = perm[core*tpc+t]
						}
						cpus = append(cpus, vtC06CPU{id: id, sock: s, node: s*nps + n, core: core})
					}
					core++
				}
			}
		}
		if r.Intn(10) == 0 && len(cpus) > 2 {
			k := r.Intn(len(cpus))
			cpus = append(cpus[:k], cpus[k+1:]...)
		}
		sort.Slice(cpus, func(i, j int) bool { return cpus[i].id < cpus[j].id })
		return cpus
	}
}

func vtC06EncTopo(cpus []vtC06CPU) []int64 {
	out := []int64{int64(len(cpus))}
	for _, c := range cpus {
		out = append(out, int64(c.id), int64(c.sock), int64(c.node), int64(c.core))
	}
	return out
}

func vtC06TakeGen(r *rand.Rand, i int) (string, []int64) {
	cpus := vtC06GenTopo(r, 64)
	maxRef := int64(1)
	switch r.Intn(10) {
	case 0, 1:
		maxRef = 2
	case 2:
		maxRef = 3
	}
	bind, excl, most := int64(r.Intn(3)), int64(r.Intn(3)), int64(r.Intn(2))
	if r.Intn(3) == 0 {
		excl = 0
	}
	// some pods already on the node
	ref := map[int]int64{}
	pol := map[int]int64{}
	npods := r.Intn(5)
	density := 1 + r.Intn(4)
	for p := 0; p < npods; p++ {
		e := int64(r.Intn(3))
		start := r.Intn(len(cpus))
		cnt := 1 + r.Intn(1+len(cpus)/density)
		for k := 0; k < cnt; k++ {
			c := cpus[(start+k)%len(cpus)]
			if r.Intn(4) == 0 {
				c = cpus[r.Intn(len(cpus))]
			}
			if ref[c.id] < maxRef {
				ref[c.id]++
				pol[c.id] = e
			}
		}
	}
	var avail []int
	arbitrary := r.Intn(10) == 0
	for _, c := range cpus {
		if arbitrary {
			if r.Intn(2) == 0 {
				avail = append(avail, c.id)
			}
		} else if ref[c.id] < maxRef && r.Intn(16) != 0 {
			avail = append(avail, c.id)
		}
	}
	var pref []int
	label := "plain"
	if r.Intn(4) == 0 {
		label = "preferred"
		for _, c := range cpus {
			if r.Intn(3) == 0 {
				pref = append(pref, c.id)
			}
		}
	}
	var n int64
	la := len(avail)
	switch r.Intn(20) {
	case 0:
		n = int64(r.Intn(2))
	case 1:
		n = int64(la + 1)
	case 2:
		n = int64(la)
	case 3, 4, 5, 6, 7:
		n = 2 * int64(1+r.Intn(1+la/2))
		if n > int64(la) && la > 0 {
			n = int64(la)
		}
	default:
		if la > 0 {
			n = int64(1 + r.Intn(la))
		} else {
			n = 1
		}
	}
	in := []int64{maxRef, n, bind, excl, most}
	in = append(in, vtC06EncTopo(cpus)...)
	in = append(in, vtC06Ints(avail)...)
	in = append(in, vtC06Ints(pref)...)
	ids := make([]int, 0, len(ref))
	for id := range ref {
		ids = append(ids, id)
	}
	sort.Ints(ids)
	in = append(in, int64(len(ids)))
	for _, id := range ids {
		in = append(in, int64(id), ref[id], pol[id])
	}
	return fmt.Sprintf("%s:bind%d:excl%d:ref%d", label, bind, excl, maxRef), in
}

func TestVerifC06Take(t *testing.T) { vtMain(t, "C06", vtC06TakeGen, vtC06TakeExec) }

// ---------------------------------------------------------------- stream "numa"

func vtC06NumaExec(in []int64) []int64 {
	r := &vtC06Rd{in: in}
	bindReq, required, bind, cpc := r.next(), r.next(), r.next(), r.next()
	bits := r.list()
	req := []int64{r.next(), r.next(), r.next()}
	n := int(r.next())
	names := []corev1.ResourceName{corev1.ResourceCPU, corev1.ResourceMemory, vtC06Ext}
	mk := func(k int, v int64) resource.Quantity {
		switch k {
		case 0:
			return *resource.NewMilliQuantity(v, resource.DecimalSI)
		case 1:
			return *resource.NewQuantity(v, resource.BinarySI)
		}
		return *resource.NewQuantity(v, resource.DecimalSI)
	}
	totalAvailable := map[int]corev1.ResourceList{}
	for j := 0; j < n; j++ {
		present := r.next()
		vals := []int64{r.next(), r.next(), r.next()}
		if present == 0 {
			continue
		}
		rl := corev1.ResourceList{}
		for k, v := range vals {
			if v >= 0 {
				rl[names[k]] = mk(k, v)
			}
		}
		totalAvailable[j] = rl
	}
	requests := corev1.ResourceList{}
	for k, v := range req {
		if v >= 0 {
			requests[names[k]] = mk(k, v)
		}
	}
	mask, err := bitmask.NewBitMask(bits...)
	if err != nil {
		panic(err)
	}
	options := &ResourceOptions{
		requestCPUBind:        bindReq != 0,
		requiredCPUBindPolicy: required != 0,
		cpuBindPolicy:         vtC06Bind(bind),
		hint:                  topologymanager.NUMATopologyHint{NUMANodeAffinity: mask},
		topologyOptions:       TopologyOptions{CPUTopology: buildCPUTopologyForTest(1, 1, 4, int(cpc))},
	}
	result, reasons := tryBestToDistributeEvenly(requests, totalAvailable, options)
	out := []int64{0, 0, 0}
	for _, s := range reasons {
		for k, nm := range names {
			if s == fmt.Sprintf("Insufficient NUMA %s", nm) {
				out[k] = 1
			}
		}
	}
	got := map[int]corev1.ResourceList{}
	for _, e := range result {
		if _, dup := got[e.Node]; dup {
			panic("duplicate NUMA node in result")
		}
		got[e.Node] = e.Resources
	}
	for nd := 0; nd < 8; nd++ {
		rl := got[nd]
		c, m, x := rl[names[0]], rl[names[1]], rl[names[2]]
		out = append(out, c.MilliValue(), m.Value(), x.Value())
	}
	for nd := range got {
		if nd < 0 || nd >= 8 {
			out = append(out, int64(nd)) // a node outside the slots: makes the observable malformed
		}
	}
	return out
}

func vtC06NumaGen(r *rand.Rand, i int) (string, []int64) {
	n := 1 + r.Intn(6)
	bindReq, required, bind := int64(r.Intn(2)), int64(r.Intn(2)), int64(r.Intn(3))
	cpc := []int64{1, 2, 2, 4}[r.Intn(4)]
	big := r.Intn(4) == 0
	val := func(k int) int64 {
		switch k {
		case 0:
			if r.Intn(4) == 0 {
				return int64(r.Intn(9000))
			}
			return 1000 * int64(r.Intn(9))
		case 1:
			if big {
				return vtQty(r, int64(1)<<38)
			}
			return int64(r.Intn(20))
		}
		return int64(r.Intn(6))
	}
	av := make([][]int64, n)
	trackedStyle := r.Intn(8) // 0: some resource untracked
	var slots []int64
	for j := 0; j < n; j++ {
		present := int64(1)
		if r.Intn(8) == 0 {
			present = 0
		}
		vals := []int64{val(0), val(1), val(2)}
		for k := range vals {
			if r.Intn(12) == 0 {
				vals[k] = 0
			}
			if trackedStyle == 0 && k == 2 {
				vals[k] = -1
			} else if r.Intn(20) == 0 {
				vals[k] = -1
			}
		}
		av[j] = vals
		slots = append(slots, present, vals[0], vals[1], vals[2])
	}
	// hint: any subset of node ids 0..7, biased to the known nodes
	var bits []int
	for nd := 0; nd < 8; nd++ {
		p := 2
		if nd >= n {
			p = 10
		}
		if r.Intn(p) == 0 {
			bits = append(bits, nd)
		}
	}
	if len(bits) == 0 && r.Intn(6) != 0 {
		bits = append(bits, r.Intn(n))
	}
	sumHint := []int64{0, 0, 0}
	for _, nd := range bits {
		if nd < n && slots[4*nd] != 0 {
			for k := 0; k < 3; k++ {
				if av[nd][k] > 0 {
					sumHint[k] += av[nd][k]
				}
			}
		}
	}
	req := make([]int64, 3)
	for k := 0; k < 3; k++ {
		switch r.Intn(8) {
		case 0:
			req[k] = -1
		case 1:
			req[k] = sumHint[k]
		case 2:
			req[k] = sumHint[k] + 1
		case 3:
			if sumHint[k] > 0 {
				req[k] = sumHint[k] - 1
			}
		case 4:
			req[k] = val(k)
		default:
			if sumHint[k] > 0 {
				req[k] = r.Int63n(sumHint[k] + 1)
			}
		}
		if k == 0 && bindReq != 0 && req[k] > 0 && r.Intn(5) != 0 {
			req[k] = req[k] / 1000 * 1000
		}
	}
	in := []int64{bindReq, required, bind, cpc}
	in = append(in, vtC06Ints(bits)...)
	in = append(in, req...)
	in = append(in, int64(n))
	in = append(in, slots...)
	kind := "div"
	if bindReq != 0 {
		kind = "whole"
		if required != 0 && bind == 1 {
			kind = "fullpcpus"
		}
	}
	return fmt.Sprintf("%s:hint%d", kind, len(bits)), in
}

func TestVerifC06Numa(t *testing.T) { vtMain(t, "C06", vtC06NumaGen, vtC06NumaExec) }

// ---------------------------------------------------------------- stream "ledger"

var (
	vtC06T        *testing.T
	vtC06SuitOnce sync.Once
	vtC06Suit     *pluginTestSuit
)

const vtC06Node = "n0"

func vtC06UID(u int64) types.UID { return types.UID(fmt.Sprintf("u%02d", u)) }

func vtC06Dump(rm ResourceManager) []int64 {
	na := rm.GetNodeAllocation(vtC06Node)
	na.lock.RLock()
	ids := make([]int, 0, len(na.allocatedCPUs))
	for id := range na.allocatedCPUs {
		ids = append(ids, id)
	}
	sort.Ints(ids)
	out := []int64{int64(len(ids))}
	for _, id := range ids {
		info := na.allocatedCPUs[id]
		out = append(out, int64(id), int64(info.RefCount), vtC06ExclCode(info.ExclusivePolicy))
	}
	var nled []int64
	for nd := 0; nd < 8; nd++ {
		var c, m resource.Quantity
		if res := na.allocatedResources[nd]; res != nil {
			c, m = res.Resources[corev1.ResourceCPU], res.Resources[corev1.ResourceMemory]
		}
		nled = append(nled, c.MilliValue(), m.Value())
	}
	na.lock.RUnlock()
	avail, _, err := rm.GetAvailableCPUs(vtC06Node)
	if err != nil {
		panic(err)
	}
	out = append(out, vtC06Ints(avail.ToSlice())...)
	return append(out, nled...)
}

func vtC06ResList(c, m int64) corev1.ResourceList {
	rl := corev1.ResourceList{}
	if c >= 0 {
		rl[corev1.ResourceCPU] = *resource.NewMilliQuantity(c, resource.DecimalSI)
	}
	if m >= 0 {
		rl[corev1.ResourceMemory] = *resource.NewQuantity(m, resource.BinarySI)
	}
	return rl
}

// vtC06Live is one live resourceManager with the bookkeeping of Spec.concretize / edges_alloc:
// edges (guest, host, CPUs the guest holds out of the host's).
type vtC06Edge struct {
	guest, host int64
	set         cpuset.CPUSet
}

// vtC06SigTOM tells the harness when a resourceManager entry point has started (every entry point
// reads the topology options first, then fetches the node's ledger pointer, then locks it)
type vtC06SigTOM struct {
	TopologyOptionsManager
	ch atomic.Value // chan struct{}
}

func (s *vtC06SigTOM) GetTopologyOptions(nodeName string) TopologyOptions {
	if c, ok := s.ch.Load().(chan struct{}); ok && c != nil {
		select {
		case c <- struct{}{}:
		default:
		}
	}
	return s.TopologyOptionsManager.GetTopologyOptions(nodeName)
}

type vtC06Live struct {
	sig     *vtC06SigTOM
	rm      ResourceManager
	tom     TopologyOptionsManager
	handler *podEventHandler
	plugin  *Plugin
	node    *corev1.Node
	edges   []vtC06Edge
	// what the history says every live pod holds: the allocation Allocate returned for it, or the
	// one the last informer event spelled (never read back from the ledger)
	bound map[int64]*PodAllocation
}

// cpu list string as a node agent / kubelet may write it: every range as "lo-hi" (also "8-8")
// when style is 0, a one-element range as "8" otherwise
func vtC06RangeString(ranges [][3]int64) string {
	var items []string
	for _, rg := range ranges {
		if rg[0] > rg[1] {
			continue
		}
		if rg[0] == rg[1] && rg[2] != 0 {
			items = append(items, fmt.Sprintf("%d", rg[0]))
		} else {
			items = append(items, fmt.Sprintf("%d-%d", rg[0], rg[1]))
		}
	}
	return strings.Join(items, ",")
}

// header: the topology and the reserved CPUs go through the NodeResourceTopology annotations and
// NewTopologyOptions, exactly as the NRT event handler builds the options
func vtC06NewLive(r *vtC06Rd) *vtC06Live {
	vtC06SuitOnce.Do(func() {
		vtC06Suit = newPluginTestSuit(vtC06T, nil, []*corev1.Node{{ObjectMeta: metav1.ObjectMeta{Name: vtC06Node}}})
	})
	maxRef, most := r.next(), r.next()
	k := int(r.next())
	reported := &extension.CPUTopology{}
	for i := 0; i < k; i++ {
		id, s, n, c := r.next(), r.next(), r.next(), r.next()
		reported.Detail = append(reported.Detail, extension.CPUInfo{ID: int32(id), Core: int32(c), Socket: int32(s), Node: int32(n)})
	}
	nr := int(r.next())
	var ranges [][3]int64
	for i := 0; i < nr; i++ {
		ranges = append(ranges, [3]int64{r.next(), r.next(), r.next()})
	}
	nc := int(r.next())
	var caps []NUMANodeResource
	for j := 0; j < nc; j++ {
		nd, c, m := r.next(), r.next(), r.next()
		caps = append(caps, NUMANodeResource{Node: int(nd), Resources: vtC06ResList(c, m)})
	}
	topoData, err := json.Marshal(reported)
	if err != nil {
		panic(err)
	}
	rsvData, err := json.Marshal(&extension.NodeReservation{ReservedCPUs: vtC06RangeString(ranges)})
	if err != nil {
		panic(err)
	}
	nrt := &nrtv1alpha1.NodeResourceTopology{ObjectMeta: metav1.ObjectMeta{Name: vtC06Node, Annotations: map[string]string{
		extension.AnnotationNodeCPUTopology: string(topoData),
		extension.AnnotationNodeReservation: string(rsvData),
	}}}
	opts := NewTopologyOptions(nrt)
	if opts.CPUTopology.CPUDetails == nil {
		opts.CPUTopology.CPUDetails = NewCPUDetails()
	}
	tom := NewTopologyOptionsManager()
	tom.UpdateTopologyOptions(vtC06Node, func(o *TopologyOptions) {
		o.CPUTopology = opts.CPUTopology
		o.MaxRefCount = int(maxRef)
		o.ReservedCPUs = opts.ReservedCPUs
		o.NUMANodeResources = caps
	})
	sig := &vtC06SigTOM{TopologyOptionsManager: tom}
	rm := NewResourceManager(vtC06Suit.Handle, vtC06Strategy(most), sig)
	plugin := &Plugin{
		handle:                 &frameworkHandleExtender{FrameworkExtender: vtC06Suit.Extender, Clientset: vtC06Suit.NRTClientset},
		resourceManager:        rm,
		topologyOptionsManager: tom,
	}
	return &vtC06Live{sig: sig, rm: rm, tom: tom, handler: &podEventHandler{resourceManager: rm}, plugin: plugin,
		node: &corev1.Node{ObjectMeta: metav1.ObjectMeta{Name: vtC06Node}}, bound: map[int64]*PodAllocation{}}
}

func (l *vtC06Live) edgesDel(uid int64) {
	kept := l.edges[:0]
	for _, e := range l.edges {
		if e.guest != uid && e.host != uid {
			kept = append(kept, e)
		}
	}
	l.edges = kept
}

func (l *vtC06Live) liveSet(uid int64) (cpuset.CPUSet, bool) {
	return l.rm.GetAllocatedCPUSet(vtC06Node, vtC06UID(uid))
}

// reads an allocation request in the op-1 format (after the opcode)
func (l *vtC06Live) readRequest(r *vtC06Rd) (int64, *corev1.Pod, *ResourceOptions) {
	uid, n, bindReq, bind, required, excl, hf := r.next(), r.next(), r.next(), r.next(), r.next(), r.next(), r.next()
	bits := r.list()
	c, m := r.next(), r.next()
	pod := &corev1.Pod{ObjectMeta: metav1.ObjectMeta{UID: vtC06UID(uid), Namespace: "default", Name: string(vtC06UID(uid))}}
	options := &ResourceOptions{
		numCPUsNeeded:         int(n),
		requestCPUBind:        bindReq != 0,
		requests:              vtC06ResList(c, m),
		originalRequests:      vtC06ResList(c, m),
		requiredCPUBindPolicy: required != 0,
		cpuBindPolicy:         vtC06Bind(bind),
		cpuExclusivePolicy:    vtC06Excl(excl),
		topologyOptions:       l.tom.GetTopologyOptions(vtC06Node),
	}
	if hf != 0 {
		mask, err := bitmask.NewBitMask(bits...)
		if err != nil {
			panic(err)
		}
		options.hint = topologymanager.NUMATopologyHint{NUMANodeAffinity: mask}
	}
	return uid, pod, options
}

func vtC06EncResult(alloc *PodAllocation, ok bool) []int64 {
	if !ok || alloc == nil {
		return []int64{0, 0, 0}
	}
	out := []int64{1}
	out = append(out, vtC06Ints(alloc.CPUSet.ToSlice())...)
	out = append(out, int64(len(alloc.NUMANodeResources)))
	for _, e := range alloc.NUMANodeResources {
		cq, mq := e.Resources[corev1.ResourceCPU], e.Resources[corev1.ResourceMemory]
		out = append(out, int64(e.Node), cq.MilliValue(), mq.Value())
	}
	return out
}

// one operation of the history; returns its observation (result and dumps)
func (l *vtC06Live) apply(r *vtC06Rd) []int64 {
	var out []int64
	opcode := r.next()
	switch opcode {
	case 1, 4:
		uid, pod, options := l.readRequest(r)
		host, victim := int64(-1), int64(-1)
		if opcode == 4 {
			hof, ho, vf, v := r.next(), r.next(), r.next(), r.next()
			_, uidLive := l.liveSet(uid)
			if hof != 0 {
				_, hl := l.liveSet(ho)
				isGuest := false
				for _, e := range l.edges {
					if e.guest == ho {
						isGuest = true
					}
				}
				if hl && ho != uid && !uidLive && !isGuest {
					host = ho
				}
			}
			if vf != 0 {
				_, vl := l.liveSet(v)
				if vl && v != uid && !uidLive && v != host {
					victim = v
				}
			}
			if host >= 0 {
				remaining, _ := l.liveSet(host)
				for _, e := range l.edges {
					if e.host == host {
						remaining = remaining.Difference(e.set)
					}
				}
				options.preferredCPUs = remaining
			}
			if victim >= 0 {
				options.preemptibleCPUs, _ = l.liveSet(victim)
			}
		}
		alloc, status := l.rm.Allocate(l.node, pod, options)
		ok := status.IsSuccess() && alloc != nil
		if ok {
			if victim >= 0 {
				l.rm.Release(vtC06Node, vtC06UID(victim))
				l.edgesDel(victim)
				delete(l.bound, victim)
			}
			l.bound[uid] = alloc
			l.edgesDel(uid)
			if host >= 0 {
				l.edges = append(l.edges, vtC06Edge{guest: uid, host: host, set: alloc.CPUSet.Intersection(options.preferredCPUs)})
			}
			l.rm.Update(vtC06Node, alloc)
		}
		out = append(out, vtC06EncResult(alloc, ok)...)
	case 2:
		uid := r.next()
		if uid%2 == 1 {
			// the scheduler gives the pod up: the real Unreserve extension point
			cs := framework.NewCycleState()
			cs.Write(stateKey, &preFilterState{allocation: &PodAllocation{UID: vtC06UID(uid)}})
			l.plugin.Unreserve(context.TODO(), cs, &corev1.Pod{ObjectMeta: metav1.ObjectMeta{UID: vtC06UID(uid), Namespace: "default", Name: string(vtC06UID(uid))}}, vtC06Node)
		} else {
			l.rm.Release(vtC06Node, vtC06UID(uid))
		}
		l.edgesDel(uid)
		delete(l.bound, uid)
		out = append(out, 1, 0, 0)
	case 3:
		// a pod event: the allocation is read back from the pod's annotations by the real handler
		uid, excl := r.next(), r.next()
		cpus := r.list()
		nn := int(r.next())
		status := &extension.ResourceStatus{}
		var items []string
		for k, c := range cpus {
			if k%2 == 0 {
				items = append(items, fmt.Sprintf("%d-%d", c, c))
			} else {
				items = append(items, fmt.Sprintf("%d", c))
			}
		}
		status.CPUSet = strings.Join(items, ",")
		for j := 0; j < nn; j++ {
			nd, c, m := r.next(), r.next(), r.next()
			status.NUMANodeResources = append(status.NUMANodeResources, extension.NUMANodeResource{Node: int32(nd), Resources: vtC06ResList(c, m)})
		}
		pod := &corev1.Pod{ObjectMeta: metav1.ObjectMeta{UID: vtC06UID(uid), Namespace: "default", Name: string(vtC06UID(uid))},
			Spec: corev1.PodSpec{NodeName: vtC06Node}, Status: corev1.PodStatus{Phase: corev1.PodRunning}}
		if err := extension.SetResourceStatus(pod, status); err != nil {
			panic(err)
		}
		if err := extension.SetResourceSpec(pod, &extension.ResourceSpec{PreferredCPUExclusivePolicy: extension.CPUExclusivePolicy(vtC06Excl(excl))}); err != nil {
			panic(err)
		}
		l.handler.OnAdd(pod, false)
		if len(cpus) > 0 || nn > 0 {
			l.edgesDel(uid)
			l.bound[uid] = vtC06Spelled(uid, excl, cpus, status)
		}
		out = append(out, 1, 0, 0)
	case 5:
		// an informer event delivered to the real podEventHandler the way client-go delivers it
		kind, uid, assigned, oldAssigned, phase, bad, excl := r.next(), r.next(), r.next(), r.next(), r.next(), r.next(), r.next()
		cpus := r.list()
		nn := int(r.next())
		status := &extension.ResourceStatus{}
		var items []string
		for k, c := range cpus {
			if k%2 == 0 {
				items = append(items, fmt.Sprintf("%d-%d", c, c))
			} else {
				items = append(items, fmt.Sprintf("%d", c))
			}
		}
		status.CPUSet = strings.Join(items, ",")
		if bad == 2 {
			status.CPUSet = "1-x," + status.CPUSet
		}
		for j := 0; j < nn; j++ {
			nd, c, m := r.next(), r.next(), r.next()
			status.NUMANodeResources = append(status.NUMANodeResources, extension.NUMANodeResource{Node: int32(nd), Resources: vtC06ResList(c, m)})
		}
		pod := &corev1.Pod{ObjectMeta: metav1.ObjectMeta{UID: vtC06UID(uid), Namespace: "default", Name: string(vtC06UID(uid))},
			Status: corev1.PodStatus{Phase: []corev1.PodPhase{corev1.PodPending, corev1.PodRunning, corev1.PodSucceeded, corev1.PodFailed}[phase]}}
		if assigned != 0 {
			pod.Spec.NodeName = vtC06Node
		}
		if err := extension.SetResourceStatus(pod, status); err != nil {
			panic(err)
		}
		if err := extension.SetResourceSpec(pod, &extension.ResourceSpec{PreferredCPUExclusivePolicy: extension.CPUExclusivePolicy(vtC06Excl(excl))}); err != nil {
			panic(err)
		}
		if bad == 1 {
			pod.Annotations[extension.AnnotationResourceStatus] = "{\"cpuset\": "
		}
		if bad == 3 {
			pod.Annotations[extension.AnnotationResourceSpec] = "[1"
		}
		// the previous version of the object as the informer's store had it: same identity, no
		// allocation recorded yet
		old := &corev1.Pod{ObjectMeta: metav1.ObjectMeta{UID: pod.UID, Namespace: pod.Namespace, Name: pod.Name},
			Status: corev1.PodStatus{Phase: corev1.PodPending}}
		if oldAssigned != 0 {
			old.Spec.NodeName = vtC06Node
		}
		key := pod.Namespace + "/" + pod.Name
		switch kind {
		case 0:
			l.handler.OnAdd(pod, false)
		case 1:
			l.handler.OnUpdate(old, pod)
		case 2:
			l.handler.OnDelete(pod)
		case 3:
			l.handler.OnDelete(cache.DeletedFinalStateUnknown{Key: key, Obj: pod})
		case 4:
			l.handler.OnDelete(cache.DeletedFinalStateUnknown{Key: key, Obj: &corev1.Node{ObjectMeta: metav1.ObjectMeta{Name: pod.Name}}})
		case 5:
			l.handler.OnAdd(&corev1.Node{ObjectMeta: metav1.ObjectMeta{Name: pod.Name}}, false)
		case 6:
			l.handler.deletePod(pod)
		case 7:
			l.handler.OnUpdate(&corev1.Node{ObjectMeta: metav1.ObjectMeta{Name: pod.Name}}, pod)
		default:
			panic("bad event kind")
		}
		// bookkeeping of the give-back edges (Spec.event_effect: 0 nothing, 1 alive, 2 dead)
		switch vtC06EventEffect(kind, assigned != 0, oldAssigned != 0, phase >= 2, bad != 0, len(cpus) == 0 && nn == 0) {
		case 1:
			l.edgesDel(uid)
			l.bound[uid] = vtC06Spelled(uid, excl, cpus, status)
		case 2:
			l.edgesDel(uid)
			delete(l.bound, uid)
		}
		out = append(out, 1, 0, 0)
	case 6:
		// the informer echoes the pod as bound: the annotations are written by the real PreBind
		// code from the allocation the history recorded, then delivered as an update
		uid := r.next()
		if alloc, ok := l.bound[uid]; ok {
			pod := &corev1.Pod{ObjectMeta: metav1.ObjectMeta{UID: vtC06UID(uid), Namespace: "default", Name: string(vtC06UID(uid))},
				Status: corev1.PodStatus{Phase: corev1.PodPending}}
			if err := extension.SetResourceSpec(pod, &extension.ResourceSpec{PreferredCPUExclusivePolicy: extension.CPUExclusivePolicy(alloc.CPUExclusivePolicy)}); err != nil {
				panic(err)
			}
			old := pod.DeepCopy()
			cs := framework.NewCycleState()
			cs.Write(stateKey, &preFilterState{allocation: alloc, requestCPUBind: !alloc.CPUSet.IsEmpty(),
				preferredCPUExclusivePolicy: alloc.CPUExclusivePolicy})
			if st := l.plugin.PreBind(context.TODO(), cs, pod, vtC06Node); !st.IsSuccess() {
				panic(st.Message())
			}
			pod.Spec.NodeName = vtC06Node
			pod.Status.Phase = corev1.PodRunning
			l.handler.OnUpdate(old, pod)
		}
		out = append(out, 1, 0, 0)
	default:
		panic("bad op")
	}
	return append(out, vtC06Dump(l.rm)...)
}

// the allocation an informer event spells in the pod's annotations
func vtC06Spelled(uid, excl int64, cpus []int, status *extension.ResourceStatus) *PodAllocation {
	alloc := &PodAllocation{UID: vtC06UID(uid), Namespace: "default", Name: string(vtC06UID(uid)),
		CPUSet: cpuset.NewCPUSet(cpus...), CPUExclusivePolicy: vtC06Excl(excl)}
	for _, e := range status.NUMANodeResources {
		alloc.NUMANodeResources = append(alloc.NUMANodeResources, NUMANodeResource{Node: int(e.Node), Resources: e.Resources})
	}
	return alloc
}

// the property's reading of an informer event (Spec.event_effect), from the event's content only
func vtC06EventEffect(kind int64, assigned, oldAssigned, terminated, bad, empty bool) int {
	switch kind {
	case 2, 3, 6:
		if assigned {
			return 2
		}
		return 0
	case 0, 1:
		if !assigned {
			if kind == 1 && oldAssigned {
				return 2
			}
			return 0
		}
		if terminated {
			return 2
		}
		if bad || empty {
			return 0
		}
		return 1
	}
	return 0
}

func vtC06LedgerExec(in []int64) []int64 {
	r := &vtC06Rd{in: in}
	l := vtC06NewLive(r)
	var out []int64
	nops := int(r.next())
	for k := 0; k < nops; k++ {
		out = append(out, l.apply(r)...)
	}
	return out
}

// ---------------------------------------------------------------- stream "conc"

// set-up history, then: pod x re-recorded once by Update; one goroutine repeats that Update ku
// times while every allocator goroutine calls Allocate repeatedly for its request. Update is one
// critical section, so every Allocate must give the same answer; the answer that differs from the
// first one (if any) is what is reported.
func vtC06ConcExec(in []int64) []int64 {
	r := &vtC06Rd{in: in}
	l := vtC06NewLive(r)
	var out []int64
	nops := int(r.next())
	for k := 0; k < nops; k++ {
		out = append(out, l.apply(r)...)
	}
	x, ku := r.next(), int(r.next())
	na := int(r.next())
	type request struct {
		pod     *corev1.Pod
		options *ResourceOptions
	}
	var reqs []request
	for j := 0; j < na; j++ {
		if r.next() != 1 {
			panic("bad allocator request")
		}
		_, pod, options := l.readRequest(r)
		reqs = append(reqs, request{pod, options})
	}
	var xAlloc *PodAllocation
	na0 := l.rm.GetNodeAllocation(vtC06Node)
	na0.lock.RLock()
	if pa, ok := na0.allocatedPods[vtC06UID(x)]; ok {
		cp := pa
		xAlloc = &cp
	}
	na0.lock.RUnlock()
	if xAlloc != nil {
		l.rm.Update(vtC06Node, xAlloc)
	}
	results := make([][]int64, na)
	var wg sync.WaitGroup
	start := make(chan struct{})
	done := make(chan struct{})
	if xAlloc != nil && ku > 0 {
		wg.Add(1)
		go func() {
			defer wg.Done()
			<-start
			for k := 0; k < ku; k++ {
				l.rm.Update(vtC06Node, xAlloc)
				runtime.Gosched()
			}
			close(done)
		}()
	} else {
		close(done)
	}
	for j := range reqs {
		j := j
		wg.Add(1)
		go func() {
			defer wg.Done()
			<-start
			var first []int64
			for it := 0; ; it++ {
				alloc, status := l.rm.Allocate(l.node, reqs[j].pod, reqs[j].options)
				res := vtC06EncResult(alloc, status.IsSuccess() && alloc != nil)
				if first == nil {
					first = res
					results[j] = res
				} else if vtJoin(res) != vtJoin(first) {
					results[j] = res
					return
				}
				select {
				case <-done:
					if it >= 2 {
						return
					}
				default:
				}
			}
		}()
	}
	close(start)
	wg.Wait()
	for j := range reqs {
		out = append(out, results[j]...)
	}
	out = append(out, vtC06Dump(l.rm)...)
	// race episodes: Release(rel) and Update(new pod) have both fetched the node's ledger pointer
	// before either gets its lock; the harness holds a read lock until both are queued
	ne := 0
	if r.p < len(r.in) {
		ne = int(r.next())
	}
	for e := 0; e < ne; e++ {
		rel := r.next()
		if r.next() != 3 {
			panic("bad episode")
		}
		uid, excl := r.next(), r.next()
		cpus := r.list()
		nn := int(r.next())
		status := &extension.ResourceStatus{}
		for j := 0; j < nn; j++ {
			nd, c, m := r.next(), r.next(), r.next()
			status.NUMANodeResources = append(status.NUMANodeResources, extension.NUMANodeResource{Node: int32(nd), Resources: vtC06ResList(c, m)})
		}
		seen := map[int]bool{}
		var ded []int
		for _, c := range cpus {
			if !seen[c] {
				seen[c] = true
				ded = append(ded, c)
			}
		}
		alloc := vtC06Spelled(uid, excl, ded, status)
		na := l.rm.GetNodeAllocation(vtC06Node)
		na.lock.RLock()
		relDone, updDone := make(chan struct{}), make(chan struct{})
		go func() { l.rm.Release(vtC06Node, vtC06UID(rel)); close(relDone) }()
		deadline := time.Now().Add(2 * time.Second)
		for na.lock.TryRLock() { // until the Release is queued behind the reader
			na.lock.RUnlock()
			runtime.Gosched()
			if time.Now().After(deadline) {
				break
			}
		}
		entered := make(chan struct{}, 1)
		l.sig.ch.Store(entered)
		go func() { l.rm.Update(vtC06Node, alloc); close(updDone) }()
		select {
		case <-entered:
		case <-time.After(2 * time.Second):
		}
		l.sig.ch.Store((chan struct{})(nil))
		for k := 0; k < 200; k++ {
			runtime.Gosched()
		}
		time.Sleep(3 * time.Millisecond)
		na.lock.RUnlock()
		<-relDone
		<-updDone
		out = append(out, vtC06Dump(l.rm)...)
	}
	return out
}

func vtC06LedgerGen(r *rand.Rand, i int) (string, []int64) {
	return vtC06HistoryGen(r, r.Intn(3))
}

// style 0: with restored allocations (pod events), 1: reservations with give-backs, 2: plain
func vtC06HistoryGen(r *rand.Rand, style int) (string, []int64) {
	maxCPUs := 32
	if style == 1 {
		maxCPUs = 16
	}
	cpus := vtC06GenTopo(r, maxCPUs)
	maxRef := int64(1)
	switch r.Intn(10) {
	case 0, 1, 2:
		maxRef = 2
	case 3:
		maxRef = 3
	}
	if style == 1 && r.Intn(2) == 0 {
		maxRef = 1
	}
	most := int64(r.Intn(2))
	// reserved CPUs as ranges of ids (lo, hi, spelling): runs of consecutive topology ids, often a
	// one-element range spelled "a-a"
	var reserved []int64
	nReserved := 0
	for k := 0; k < len(cpus); k++ {
		if r.Intn(12) != 0 {
			continue
		}
		lo, hi := cpus[k].id, cpus[k].id
		if r.Intn(3) == 0 && k+1 < len(cpus) && cpus[k+1].id == hi+1 {
			hi++
			k++
		}
		reserved = append(reserved, int64(lo), int64(hi), int64(r.Intn(3)/2))
		nReserved++
	}
	nodeCPUs := map[int]int{}
	tpc := map[int]int{}
	for _, c := range cpus {
		nodeCPUs[c.node]++
		tpc[c.core]++
	}
	cpc := 1
	if len(tpc) > 0 {
		cpc = len(cpus) / len(tpc)
	}
	var nodes []int
	for nd := range nodeCPUs {
		nodes = append(nodes, nd)
	}
	sort.Ints(nodes)
	in := []int64{maxRef, most}
	in = append(in, vtC06EncTopo(cpus)...)
	in = append(in, int64(nReserved))
	in = append(in, reserved...)
	memUnit := int64(1 + r.Intn(8))
	if r.Intn(8) == 0 {
		in = append(in, 0)
	} else {
		in = append(in, int64(len(nodes)))
		for _, nd := range nodes {
			capCPU := int64(nodeCPUs[nd]) * 1000
			if r.Intn(6) == 0 {
				capCPU = int64(r.Intn(nodeCPUs[nd]*1000 + 1))
			}
			in = append(in, int64(nd), capCPU, memUnit*int64(r.Intn(9)))
		}
	}
	withUpdates := style == 0
	giveBacks := style == 1 // reservations (uids 0,1) with owner pods and preemption
	nops := 1 + r.Intn(12)
	in = append(in, int64(nops))
	label := "clean"
	if withUpdates {
		label = "with-restore"
	}
	if giveBacks {
		label = "give-backs"
	}
	for k := 0; k < nops; k++ {
		uid := int64(r.Intn(5))
		x := r.Intn(20)
		if giveBacks {
			uid = int64(r.Intn(7))
			if k < 2 && r.Intn(3) != 0 {
				uid = int64(k) // the reservations come first
				x = 19
			}
		}
		switch {
		case x < 5 && !(giveBacks && x < 2):
			if r.Intn(2) == 0 {
				// the pod goes away the way the informer reports it
				in = append(in, vtC06GenEvent(r, uid, cpus, nodes, memUnit, false, true)...)
			} else {
				in = append(in, 2, uid)
			}
		case x == 9:
			// the informer echoes a (probably) live pod as bound
			in = append(in, 6, uid)
		case x == 8 && !withUpdates:
			in = append(in, vtC06GenEvent(r, uid, cpus, nodes, memUnit, false, false)...)
		case x < 8 && withUpdates && r.Intn(2) == 0:
			in = append(in, vtC06GenEvent(r, uid, cpus, nodes, memUnit, true, false)...)
		case x < 8 && withUpdates:
			var ids []int
			cnt := r.Intn(5)
			for j := 0; j < cnt; j++ {
				ids = append(ids, cpus[r.Intn(len(cpus))].id)
			}
			in = append(in, 3, uid, int64(r.Intn(3)))
			in = append(in, vtC06Ints(ids)...)
			nn := r.Intn(3)
			in = append(in, int64(nn))
			for j := 0; j < nn; j++ {
				in = append(in, int64(nodes[r.Intn(len(nodes))]), 1000*int64(r.Intn(4)), memUnit*int64(r.Intn(4)))
			}
		default:
			bind := int64(r.Intn(3))
			required := int64(0)
			if r.Intn(3) == 0 {
				required = 1
			}
			n := int64(1 + r.Intn(6))
			if r.Intn(3) == 0 || (required != 0 && bind == 1 && r.Intn(8) != 0) {
				n = int64(cpc) * int64(1+r.Intn(3))
			}
			bindReq := int64(1)
			if r.Intn(5) == 0 {
				bindReq = 0
			}
			opc := int64(1)
			if giveBacks && uid >= 2 && r.Intn(4) != 0 {
				opc = 4
				bindReq = 1
				if r.Intn(2) == 0 {
					n = int64(2 + r.Intn(1+len(cpus)/2))
				}
			}
			if giveBacks && uid < 2 {
				bindReq = 1
				n = int64(1 + r.Intn(1+len(cpus)/2))
			}
			in = append(in, opc, uid, n, bindReq, bind, required, int64(r.Intn(3)))
			if r.Intn(5) < 2 {
				var bits []int
				for _, nd := range nodes {
					if r.Intn(2) == 0 {
						bits = append(bits, nd)
					}
				}
				if r.Intn(10) == 0 {
					bits = append(bits, 7)
				}
				if len(bits) == 0 {
					bits = append(bits, nodes[r.Intn(len(nodes))])
				}
				sort.Ints(bits)
				if len(bits) > 1 && bits[len(bits)-1] == bits[len(bits)-2] {
					bits = bits[:len(bits)-1]
				}
				in = append(in, 1)
				in = append(in, vtC06Ints(bits)...)
			} else {
				in = append(in, 0, 0)
			}
			cpu := n * 1000
			if bindReq == 0 {
				cpu = int64(r.Intn(5000))
			}
			mem := memUnit * int64(r.Intn(6))
			if r.Intn(10) == 0 {
				mem = -1
			}
			in = append(in, cpu, mem)
			if opc == 4 {
				hostFlag, victimFlag := int64(0), int64(0)
				if r.Intn(3) != 0 {
					hostFlag = 1
				}
				if r.Intn(2) == 0 {
					victimFlag = 1
				}
				in = append(in, hostFlag, int64(r.Intn(2)), victimFlag, int64(r.Intn(7)))
			}
		}
	}
	return fmt.Sprintf("%s:ref%d:ops%d", label, maxRef, nops), in
}

// one informer event (op 5). allowLive: the event may (re-)record an allocation read from the
// annotations; ending: prefer events that end the pod's life on the node
func vtC06GenEvent(r *rand.Rand, uid int64, cpus []vtC06CPU, nodes []int, memUnit int64, allowLive, ending bool) []int64 {
	kind := []int64{0, 0, 0, 1, 1, 1, 1, 2, 2, 2, 3, 3, 3, 3, 4, 5, 6, 6, 7, 1}[r.Intn(20)]
	assigned, oldAssigned := int64(1), int64(r.Intn(2))
	if r.Intn(7) == 0 {
		assigned = 0
	}
	phase := []int64{1, 1, 1, 1, 0, 0, 2, 2, 3, 3}[r.Intn(10)]
	bad := int64(0)
	if r.Intn(7) == 0 {
		bad = int64(1 + r.Intn(3))
	}
	if ending && r.Intn(4) != 0 {
		switch r.Intn(5) {
		case 0:
			kind = 2
		case 1, 2:
			kind = 3
		case 3:
			kind, phase = int64(r.Intn(2)), int64(2+r.Intn(2))
		default:
			kind, assigned, oldAssigned = 1, 0, 1
		}
		if kind != 1 || assigned != 0 {
			assigned = 1
		}
	}
	var ids []int
	cnt := r.Intn(5)
	for j := 0; j < cnt; j++ {
		ids = append(ids, cpus[r.Intn(len(cpus))].id)
	}
	nn := r.Intn(3)
	if !allowLive && vtC06EventEffect(kind, assigned != 0, oldAssigned != 0, phase >= 2, bad != 0, cnt == 0 && nn == 0) == 1 {
		kind = int64(2 + r.Intn(2)) // a deletion instead
	}
	ev := []int64{5, kind, uid, assigned, oldAssigned, phase, bad, int64(r.Intn(3))}
	ev = append(ev, vtC06Ints(ids)...)
	ev = append(ev, int64(nn))
	for j := 0; j < nn; j++ {
		ev = append(ev, int64(nodes[r.Intn(len(nodes))]), 1000*int64(r.Intn(4)), memUnit*int64(r.Intn(4)))
	}
	return ev
}

func TestVerifC06Ledger(t *testing.T) {
	vtC06T = t
	vtMain(t, "C06", vtC06LedgerGen, vtC06LedgerExec)
}

// conc: a short plain history that leaves pod 0 (mostly) alive, then the concurrent section
func vtC06ConcGen(r *rand.Rand, i int) (string, []int64) {
	cpus := vtC06GenTopo(r, 24)
	maxRef := int64(1)
	if r.Intn(5) == 0 {
		maxRef = 2
	}
	in := []int64{maxRef, int64(r.Intn(2))}
	in = append(in, vtC06EncTopo(cpus)...)
	if r.Intn(3) == 0 && len(cpus) > 2 {
		c := cpus[r.Intn(len(cpus))].id
		in = append(in, 1, int64(c), int64(c), 0)
	} else {
		in = append(in, 0)
	}
	in = append(in, 0) // no NUMA capacities: plain cpuset allocations
	request := func(uid, n int64) []int64 {
		return []int64{1, uid, n, 1, int64(r.Intn(3)), 0, int64(r.Intn(3)), 0, 0, n * 1000, -1}
	}
	var ops [][]int64
	ops = append(ops, request(0, int64(1+r.Intn(1+len(cpus)/3))))
	for k := r.Intn(3); k > 0; k-- {
		switch r.Intn(4) {
		case 0:
			ops = append(ops, []int64{2, int64(r.Intn(3))})
		default:
			ops = append(ops, request(int64(1+r.Intn(2)), int64(1+r.Intn(1+len(cpus)/4))))
		}
	}
	in = append(in, int64(len(ops)))
	for _, o := range ops {
		in = append(in, o...)
	}
	na := 2 + r.Intn(2)
	in = append(in, 0, int64(150+r.Intn(150)), int64(na))
	for j := 0; j < na; j++ {
		n := int64(len(cpus)/2 + r.Intn(1+len(cpus)/2))
		if r.Intn(4) == 0 {
			n = int64(1 + r.Intn(len(cpus)))
		}
		in = append(in, request(int64(7+j), n)...)
	}
	// race episodes: each releases the pod the previous one recorded (often the node's last pod)
	ne := 1 + r.Intn(3)
	in = append(in, int64(ne))
	prev := int64(0)
	for j := 0; j < ne; j++ {
		rel := prev
		if r.Intn(5) == 0 {
			rel = int64(r.Intn(3))
		}
		uid := int64(10 + j)
		k := 1 + r.Intn(3)
		in = append(in, rel, 3, uid, int64(r.Intn(3)), int64(k))
		for c := 0; c < k; c++ {
			in = append(in, int64(cpus[r.Intn(len(cpus))].id))
		}
		in = append(in, 0)
		prev = uid
	}
	return fmt.Sprintf("ref%d:alloc%d:race%d", maxRef, na, ne), in
}

func TestVerifC06Conc(t *testing.T) {
	vtC06T = t
	vtMain(t, "C06", vtC06ConcGen, vtC06ConcExec)
}
