//go:build verif

package elasticquota

import (
	"context"
	"flag"
	"fmt"
	"io"
	"math/rand"
	"sort"
	"strings"
	"testing"

	corev1 "k8s.io/api/core/v1"
	"k8s.io/apimachinery/pkg/api/resource"
	metav1 "k8s.io/apimachinery/pkg/apis/meta/v1"
	"k8s.io/apimachinery/pkg/types"
	"k8s.io/klog/v2"
	fwktype "k8s.io/kube-scheduler/framework"
	"k8s.io/kubernetes/pkg/scheduler/framework"

	"github.com/koordinator-sh/koordinator/apis/extension"
	"github.com/koordinator-sh/koordinator/apis/thirdparty/scheduler-plugins/pkg/apis/scheduling/v1alpha1"
)

// C03 harness: drives the real ElasticQuota plugin (OnQuotaAdd/OnQuotaUpdate, OnPodAdd/OnPodDelete,
// OnNodeAdd/OnNodeUpdate, PreFilter, Reserve, Unreserve) with an encoded history and logs, after
// every operation, the PreFilter status, the limit in force along the pod's quota path and
// used / non-preemptible used of every quota as reported by GetQuotaSummaries.
//
// input : rt_on chk_parent n  then n records of 16 integers, see coq/C03/Codec.v.

const vtC03Ext = corev1.ResourceName("example.com/ext")

var vtC03Dims = []corev1.ResourceName{corev1.ResourceCPU, corev1.ResourceMemory, vtC03Ext}

var vtC03Plugin *Plugin

type vtC03Quota struct {
	id, parent int64
	decl       [3]bool
	lend       bool
	args       []int64 // the record the current object was built from
	obj        *v1alpha1.ElasticQuota
}

func vtC03Qty(d int, v int64) resource.Quantity {
	switch d {
	case 0:
		return *resource.NewMilliQuantity(v, resource.DecimalSI)
	case 1:
		return *resource.NewQuantity(v, resource.BinarySI)
	}
	return *resource.NewQuantity(v, resource.DecimalSI)
}

func vtC03Val(rl corev1.ResourceList, d int) int64 {
	q, ok := rl[vtC03Dims[d]]
	if !ok {
		return 0
	}
	if d == 0 {
		return q.MilliValue()
	}
	return q.Value()
}

func vtC03QuotaName(id int64) string {
	if id == 0 {
		return extension.RootQuotaName
	}
	return fmt.Sprintf("q%02d", id)
}

// quota object from a record: a[0]=id a[1]=parent a[2]=lend, decl, a[6..8]=max a[9..11]=min(-1 absent) a[12..14]=weight
func vtC03QuotaObj(id, parent int64, lend bool, decl [3]bool, a []int64) *v1alpha1.ElasticQuota {
	q := &v1alpha1.ElasticQuota{
		ObjectMeta: metav1.ObjectMeta{
			Name:        vtC03QuotaName(id),
			Labels:      map[string]string{},
			Annotations: map[string]string{},
		},
		Spec: v1alpha1.ElasticQuotaSpec{Max: corev1.ResourceList{}, Min: corev1.ResourceList{}},
	}
	q.Labels[extension.LabelQuotaParent] = vtC03QuotaName(parent)
	q.Labels[extension.LabelQuotaIsParent] = "false"
	if id%2 == 0 { // quotas with an even id are the parent quotas (coq/C03/Model.v is_parent_id)
		q.Labels[extension.LabelQuotaIsParent] = "true"
	}
	if !lend {
		q.Labels[extension.LabelAllowLentResource] = "false"
	}
	var w []string
	for d := 0; d < 3; d++ {
		if decl[d] {
			q.Spec.Max[vtC03Dims[d]] = vtC03Qty(d, a[6+d])
			wq := vtC03Qty(d, a[12+d])
			w = append(w, fmt.Sprintf("%q:%q", string(vtC03Dims[d]), wq.String()))
		}
		if a[9+d] >= 0 {
			q.Spec.Min[vtC03Dims[d]] = vtC03Qty(d, a[9+d])
		}
	}
	q.Annotations[extension.AnnotationSharedWeight] = "{" + strings.Join(w, ",") + "}"
	return q
}

// phase codes of the wire format (coq/C03/Codec.v): 0 none, 1 Pending, 2 Running, 3 Succeeded, 4 Failed
func vtC03Phase(ph int64) corev1.PodPhase {
	switch ph {
	case 1:
		return corev1.PodPending
	case 2:
		return corev1.PodRunning
	case 3:
		return corev1.PodSucceeded
	case 4:
		return corev1.PodFailed
	}
	return ""
}

func vtC03Pod(id, quota int64, np bool, req []int64, bound bool, phase int64) *corev1.Pod {
	rl := corev1.ResourceList{}
	for d := 0; d < 3; d++ {
		if req[d] >= 0 { // -1: the pod has no such key; 0 is an explicit zero request
			rl[vtC03Dims[d]] = vtC03Qty(d, req[d])
		}
	}
	name := fmt.Sprintf("p%02d", id)
	pod := &corev1.Pod{
		ObjectMeta: metav1.ObjectMeta{
			Name: name, Namespace: "default", UID: types.UID(name),
			Labels: map[string]string{extension.LabelQuotaName: vtC03QuotaName(quota)},
		},
		Spec: corev1.PodSpec{Containers: []corev1.Container{{Name: "c", Resources: corev1.ResourceRequirements{Requests: rl}}}},
	}
	if np {
		pod.Labels[extension.LabelPreemptible] = "false"
	}
	if bound {
		pod.Spec.NodeName = "n1"
	}
	pod.Status.Phase = vtC03Phase(phase)
	return pod
}

func vtC03Sub(a, b [3]bool) bool {
	for d := 0; d < 3; d++ {
		if a[d] && !b[d] {
			return false
		}
	}
	return true
}

func vtC03Exec(in []int64) []int64 {
	pl := vtC03Plugin
	pl.pluginArgs.EnableRuntimeQuota = in[0] != 0
	pl.pluginArgs.EnableCheckParentQuota = in[1] != 0
	pl.pluginArgs.EnableMinQuotaScale = false
	if err := pl.ReplaceQuotas(nil); err != nil {
		panic(err)
	}
	n := int(in[2])
	quotas := map[int64]*vtC03Quota{}
	var order []int64
	pods := map[int64]*corev1.Pod{}
	var node *corev1.Node
	nodeRV := 0
	podRV := 0
	ctx := context.TODO()
	obs := make([]int64, 0, 64*n)

	for i := 0; i < n; i++ {
		rec := in[3+16*i : 3+16*(i+1)]
		a := rec[1:]
		status := int64(0)
		var limits []int64
		nl := int64(0)
		switch rec[0] {
		case 1: // QuotaAdd
			id, parent := a[0], a[1]
			decl := [3]bool{a[3] != 0, a[4] != 0, a[5] != 0}
			_, exists := quotas[id]
			okParent := parent == 0
			if p, ok := quotas[parent]; ok && parent != 0 {
				// any key set when the limit is max; included in the parent's when runtime quota is on
				okParent = (in[0] == 0 || vtC03Sub(decl, p.decl)) && parent%2 == 0 && parent < id
			}
			if id <= 0 || exists || !okParent {
				status = -1
				break
			}
			q := &vtC03Quota{id: id, parent: parent, decl: decl, lend: a[2] != 0, args: append([]int64(nil), a...),
				obj: vtC03QuotaObj(id, parent, a[2] != 0, decl, a)}
			quotas[id] = q
			order = append(order, id)
			pl.OnQuotaAdd(q.obj)
		case 2: // QuotaUpdate
			q, ok := quotas[a[0]]
			if !ok {
				status = -1
				break
			}
			nq := vtC03QuotaObj(q.id, q.parent, q.lend, q.decl, a)
			pl.OnQuotaUpdate(q.obj, nq)
			q.obj = nq
			q.args = append([]int64(nil), a...)
		case 12: // PodRelabel: an update event that only flips the preemptible label
			old, ok := pods[a[0]]
			if !ok {
				status = -1
				break
			}
			np := old.DeepCopy()
			podRV++
			np.ResourceVersion = fmt.Sprint(podRV)
			if np.Labels[extension.LabelPreemptible] == "false" {
				delete(np.Labels, extension.LabelPreemptible)
			} else {
				np.Labels[extension.LabelPreemptible] = "false"
			}
			pl.OnPodUpdate(old, np)
			pods[a[0]] = np
		case 13: // PodStatus: an update event that only changes the status phase and (a[2] != 0) sets the node name
			old, ok := pods[a[0]]
			if !ok {
				status = -1
				break
			}
			np := old.DeepCopy()
			podRV++
			np.ResourceVersion = fmt.Sprint(podRV)
			np.Status.Phase = vtC03Phase(a[1])
			if a[2] != 0 {
				np.Spec.NodeName = "n1"
			}
			pl.OnPodUpdate(old, np)
			pods[a[0]] = np
		case 14: // Restart: what a new leader does at start-up (plugin.go New + ForceSyncFromInformerWithReplace):
			// a fresh quota manager, ReplaceQuotas with every quota object, then the node and every pod
			// object replayed through the informer's add handlers
			var objs []interface{}
			for _, id := range order {
				objs = append(objs, quotas[id].obj)
			}
			if err := pl.ReplaceQuotas(objs); err != nil {
				panic(err)
			}
			if node != nil {
				pl.OnNodeAdd(node)
			}
			var pids []int64
			for id := range pods {
				pids = append(pids, id)
			}
			sort.Slice(pids, func(i, j int) bool { return pids[i] < pids[j] })
			for _, id := range pids {
				pl.OnPodAdd(pods[id])
			}
		case 11: // FlipLend: the allow-lent-resource label changes, nothing else (a quota META change)
			q, ok := quotas[a[0]]
			if !ok {
				status = -1
				break
			}
			q.lend = !q.lend
			nq := vtC03QuotaObj(q.id, q.parent, q.lend, q.decl, q.args)
			pl.OnQuotaUpdate(q.obj, nq)
			q.obj = nq
		case 3, 8: // PodAdd / PodAddBound
			_, exists := pods[a[0]]
			_, qok := quotas[a[1]]
			if exists || !qok {
				status = -1
				break
			}
			pod := vtC03Pod(a[0], a[1], a[2] != 0, a[3:6], rec[0] == 8, a[6])
			pods[a[0]] = pod
			pl.OnPodAdd(pod)
		case 10: // Reserve alone (the PreFilter of this cycle was an earlier operation)
			pod, ok := pods[a[0]]
			if !ok {
				status = -1
				break
			}
			if rs := pl.Reserve(ctx, framework.NewCycleState(), pod, "n1"); !rs.IsSuccess() {
				status = 2
			}
		case 4, 9: // Attempt = PreFilter then Reserve on success; Check = PreFilter alone
			pod, ok := pods[a[0]]
			if !ok {
				status = -1
				break
			}
			cs := framework.NewCycleState()
			_, st := pl.PreFilter(ctx, cs, pod, nil)
			switch st.Code() {
			case fwktype.Success:
				status = 0
			case fwktype.Unschedulable:
				status = 1
			default:
				status = 2
			}
			sums := pl.GetQuotaSummaries("", false)
			var qid int64
			fmt.Sscanf(pod.Labels[extension.LabelQuotaName], "q%d", &qid)
			for cur := qid; cur != 0; {
				q := quotas[cur]
				s := sums[vtC03QuotaName(cur)]
				lim := s.Max
				if in[0] != 0 {
					lim = s.Runtime
				}
				limits = append(limits, cur)
				for d := 0; d < 3; d++ {
					if q.decl[d] {
						limits = append(limits, vtC03Val(lim, d))
					} else {
						limits = append(limits, -1)
					}
				}
				nl++
				cur = q.parent
			}
			if st.IsSuccess() && rec[0] == 4 {
				if rs := pl.Reserve(ctx, cs, pod, "n1"); !rs.IsSuccess() {
					status = 2
				}
			}
		case 5: // Unreserve
			pod, ok := pods[a[0]]
			if !ok {
				status = -1
				break
			}
			pl.Unreserve(ctx, framework.NewCycleState(), pod, "n1")
		case 6: // PodDelete
			pod, ok := pods[a[0]]
			if !ok {
				status = -1
				break
			}
			pl.OnPodDelete(pod)
			delete(pods, a[0])
		case 7: // Capacity
			alloc := corev1.ResourceList{}
			for d := 0; d < 3; d++ {
				alloc[vtC03Dims[d]] = vtC03Qty(d, a[d])
			}
			nodeRV++
			nn := &corev1.Node{
				ObjectMeta: metav1.ObjectMeta{Name: "n1", ResourceVersion: fmt.Sprint(nodeRV)},
				Status:     corev1.NodeStatus{Allocatable: alloc},
			}
			if node == nil {
				pl.OnNodeAdd(nn)
			} else {
				pl.OnNodeUpdate(node, nn)
			}
			node = nn
		default:
			status = -1
		}
		obs = append(obs, status, nl)
		obs = append(obs, limits...)
		sums := pl.GetQuotaSummaries("", false)
		obs = append(obs, int64(len(order)))
		for _, id := range order {
			s := sums[vtC03QuotaName(id)]
			obs = append(obs, id)
			for d := 0; d < 3; d++ {
				obs = append(obs, vtC03Val(s.Used, d))
			}
			for d := 0; d < 3; d++ {
				obs = append(obs, vtC03Val(s.NonPreemptibleUsed, d))
			}
		}
	}
	return obs
}

// ---------------------------------------------------------------- generator

type vtC03GQ struct {
	id, parent int64
	decl       [3]bool
	max        [3]int64
	hasChild   bool
}

func vtC03Gen(r *rand.Rand, i int) (string, []int64) {
	rt, chk := int64(r.Intn(2)), int64(r.Intn(2))
	// styles: value ranges (tight/elastic/mixed/large); "hetero": quota trees whose key sets differ
	// along a parent chain (sub-, super-set and "sandwich" chains, mostly with the parent check on);
	// "failover": the history starts with the informer replaying already-bound pods in every phase
	style := []string{"tight", "tight", "elastic", "elastic", "mixed", "large", "hetero", "hetero", "hetero", "failover"}[r.Intn(10)]
	if style == "hetero" {
		if r.Intn(4) != 0 {
			rt = 0
		}
		if r.Intn(4) != 0 {
			chk = 1
		}
	}
	label := fmt.Sprintf("%s-rt%d-chk%d", style, rt, chk)
	unit := func() int64 { // a request-sized amount
		switch style {
		case "large":
			return vtQty(r, int64(1)<<40)
		case "mixed":
			if r.Intn(3) == 0 {
				return vtQty(r, int64(1)<<40)
			}
		}
		return int64(r.Intn(7))
	}
	limit := func() int64 { // a limit-sized amount
		switch style {
		case "large":
			return vtQty(r, int64(1)<<42)
		case "mixed":
			if r.Intn(3) == 0 {
				return vtQty(r, int64(1)<<42)
			}
		}
		return int64(r.Intn(21))
	}
	var ops [][]int64
	emit := func(code int64, args ...int64) {
		rec := make([]int64, 16)
		rec[0] = code
		copy(rec[1:], args)
		ops = append(ops, rec)
	}
	var qs []*vtC03GQ
	type gpod struct{ id, quota int64 }
	var ps []gpod
	nextQ, nextP := int64(1), int64(1)

	capacity := func() {
		var t [3]int64
		for d := 0; d < 3; d++ {
			t[d] = limit()
			if style == "elastic" {
				t[d] = int64(r.Intn(14))
			} else if r.Intn(2) == 0 {
				t[d] += limit()
			}
		}
		emit(7, t[0], t[1], t[2])
	}
	quotaVals := func(decl [3]bool) (mx, mn, w [3]int64) {
		for d := 0; d < 3; d++ {
			mx[d] = limit()
			switch r.Intn(5) {
			case 0:
				mn[d] = -1
			case 1:
				mn[d] = mx[d]
			case 2:
				mn[d] = 0
			default:
				mn[d] = r.Int63n(mx[d] + 1)
			}
			if !decl[d] {
				mx[d], mn[d] = 0, -1
			}
			if r.Intn(3) == 0 && decl[d] {
				w[d] = unit()
			}
		}
		if r.Intn(25) == 0 { // rarely: an object the webhook would refuse (min > max)
			d := r.Intn(3)
			if decl[d] {
				mn[d] = mx[d] + 1 + int64(r.Intn(3))
			}
		}
		return
	}
	// mkQuota emits a QuotaAdd and mirrors the rule by which model and harness accept it
	mkQuota := func(parent int64, decl [3]bool, wantParent, loose bool) *vtC03GQ {
		mx, mn, w := quotaVals(decl)
		if loose { // a generous max, so that it is an ancestor that binds
			for d := 0; d < 3; d++ {
				if decl[d] {
					mx[d] += 10 + int64(r.Intn(10))
				}
			}
		}
		id := nextQ
		if (id%2 == 0) != wantParent { // parent quotas have even ids
			id++
		}
		nextQ = id + 1
		if r.Intn(50) == 0 && parent != 0 {
			id, parent = parent, id // rarely: a child whose id is not above its parent's (skipped by model and harness)
		}
		emit(1, id, parent, int64(r.Intn(2)), vtB(decl[0]), vtB(decl[1]), vtB(decl[2]),
			mx[0], mx[1], mx[2], mn[0], mn[1], mn[2], w[0], w[1], w[2])
		ok := parent == 0
		for _, x := range qs {
			if x.id == parent && (rt == 0 || vtC03Sub(decl, x.decl)) && parent%2 == 0 && parent < id {
				ok = true
				x.hasChild = true
			}
		}
		for _, x := range qs {
			if x.id == id {
				ok = false
			}
		}
		if ok && id > 0 {
			q := &vtC03GQ{id: id, parent: parent, decl: decl, max: mx}
			qs = append(qs, q)
			return q
		}
		return nil
	}
	addQuota := func() {
		if len(qs) >= 6 {
			return
		}
		parent := int64(0)
		decl := [3]bool{true, r.Intn(4) != 0, r.Intn(3) == 0}
		if style == "hetero" && r.Intn(2) == 0 {
			decl[2] = true
		}
		if r.Intn(8) == 0 {
			decl[0] = false
			decl[1] = true
		}
		if r.Intn(60) == 0 { // degenerate: a quota whose max declares nothing
			decl = [3]bool{}
		}
		if len(qs) > 0 && r.Intn(5) < 3 {
			p := qs[r.Intn(len(qs))]
			if p.id%2 != 0 && r.Intn(30) != 0 { // only parent quotas (even ids) can have children
				for _, x := range qs {
					if x.id%2 == 0 {
						p = x
						break
					}
				}
			}
			depth := 1
			for c := p; c.parent != 0; depth++ {
				for _, x := range qs {
					if x.id == c.parent {
						c = x
						break
					}
				}
			}
			if depth < 3 {
				parent, decl = p.id, p.decl
			}
		}
		if parent != 0 {
			if style == "hetero" { // the child's key set differs from the parent's
				switch r.Intn(5) {
				case 0: // drop a dimension (a subset: also legal when runtime quota is on)
					if d := r.Intn(3); decl[(d+1)%3] || decl[(d+2)%3] {
						decl[d] = false
					}
				case 1: // add one
					decl[1+r.Intn(2)] = true
				case 2:
					decl[2] = !decl[2]
				case 3:
					decl[1] = !decl[1]
				}
			} else if r.Intn(40) == 0 { // rarely elsewhere (skipped by model and harness when runtime quota is on and it is no subset)
				decl[2] = !decl[2]
			}
		}
		mkQuota(parent, decl, r.Intn(5) < 2, false)
	}
	// a three-level chain top -> mid -> leaf (+ a sibling leaf) with prescribed key sets
	chain := func() {
		all := [3]bool{true, true, true}
		cm := [3]bool{true, true, false}
		ce := [3]bool{true, false, true}
		c := [3]bool{true, false, false}
		pat := [][3][3]bool{
			{all, cm, all}, // the intermediate quota lacks a dimension its parent and its child declare
			{all, ce, all},
			{ce, c, ce},
			{all, cm, all},
			{all, c, all},
			{cm, c, cm},
			{all, cm, c},  // shrinking
			{c, cm, all},  // growing
			{cm, cm, all}, // only the leaf declares the dimension
			{all, cm, cm}, // only the top declares it
		}[r.Intn(10)]
		loose := r.Intn(3) != 0
		top := mkQuota(0, pat[0], true, false)
		if top == nil {
			return
		}
		mid := mkQuota(top.id, pat[1], true, loose && r.Intn(2) == 0)
		if mid == nil {
			return
		}
		mkQuota(mid.id, pat[2], false, loose)
		if r.Intn(2) == 0 {
			mkQuota(mid.id, pat[2], false, loose)
		}
		if r.Intn(3) == 0 {
			mkQuota(top.id, pat[r.Intn(3)], false, loose)
		}
	}
	pickQuota := func() *vtC03GQ {
		if len(qs) == 0 {
			return nil
		}
		for k := 0; k < 4; k++ { // prefer leaves
			q := qs[r.Intn(len(qs))]
			if !q.hasChild || r.Intn(4) == 0 {
				return q
			}
		}
		return qs[r.Intn(len(qs))]
	}
	pickPod := func() int64 {
		if len(ps) == 0 || r.Intn(30) == 0 {
			return int64(90 + r.Intn(3)) // unknown pod
		}
		return ps[r.Intn(len(ps))].id
	}

	if r.Intn(10) != 0 {
		capacity()
	}
	nq := 1 + r.Intn(4)
	if style == "hetero" && r.Intn(5) != 0 {
		chain()
		nq = r.Intn(2)
	}
	for k := nq; k > 0; k-- {
		addQuota()
	}
	phase := func(bound bool) int64 {
		if bound { // a bound pod is Pending while its containers are created, then Running, finally Succeeded/Failed
			return []int64{0, 1, 1, 1, 2, 2, 2, 3, 4}[r.Intn(9)]
		}
		return []int64{0, 0, 1, 1, 1, 1, 2, 3, 4}[r.Intn(9)]
	}
	addPod := func(code int64) {
		q := pickQuota()
		if q == nil {
			addQuota()
			return
		}
		qid := q.id
		if r.Intn(40) == 0 {
			qid = 77 // unknown quota
		}
		req := [3]int64{-1, -1, -1}
		for d := 0; d < 3; d++ {
			if r.Intn(4) != 0 && (q.decl[d] || r.Intn(3) == 0) {
				req[d] = unit()
				if req[d] == 0 && r.Intn(2) == 0 {
					req[d] = -1 // mostly leave the key out instead of an explicit zero
				}
			}
		}
		id := nextP
		nextP++
		emit(code, id, qid, vtB(r.Intn(4) == 0), req[0], req[1], req[2], phase(code == 8))
		if qid == q.id {
			ps = append(ps, gpod{id, qid})
		}
	}
	if style == "failover" { // the informer replays the pods the previous leader had bound
		for k := 2 + r.Intn(4); k > 0; k-- {
			if r.Intn(5) == 0 {
				addPod(3)
			} else {
				addPod(8)
			}
		}
	}
	n := 8 + r.Intn(28)
	if style == "hetero" {
		n += 6
	}
	for len(ops) < n {
		switch c := r.Intn(100); {
		case c < 21: // pod add
			code := int64(3)
			if r.Intn(10) == 0 {
				code = 8
			}
			addPod(code)
		case c < 52:
			id := pickPod()
			emit(4, id)
			if r.Intn(5) == 0 || (style == "failover" && r.Intn(2) == 0) { // the API server confirms the binding: an update that carries the node name
				emit(13, id, 1+int64(r.Intn(2)), 1)
			}
		case c < 60: // a cycle whose Reserve comes a few informer events after its PreFilter
			id := pickPod()
			emit(9, id)
			for k := r.Intn(3); k > 0 && len(ops) < n; k-- {
				switch r.Intn(5) {
				case 0:
					capacity()
				case 1:
					emit(5, pickPod())
				case 2:
					if len(qs) > 0 { // raise a max
						q := qs[r.Intn(len(qs))]
						mx, mn, w := quotaVals(q.decl)
						for d := 0; d < 3; d++ {
							if q.decl[d] && mx[d] < q.max[d] {
								mx[d] = q.max[d] + int64(r.Intn(3))
							}
							if mn[d] > mx[d] {
								mn[d] = mx[d]
							}
						}
						q.max = mx
						emit(2, q.id, 0, 0, 0, 0, 0, mx[0], mx[1], mx[2], mn[0], mn[1], mn[2], w[0], w[1], w[2])
					}
				case 3:
					if other := pickPod(); other != id {
						emit(6, other)
						for k := range ps {
							if ps[k].id == other {
								ps = append(ps[:k], ps[k+1:]...)
								break
							}
						}
					}
				default:
					if r.Intn(6) == 0 {
						emit(4, pickPod()) // another cycle in between: the bare Reserve below is then out of discipline
					}
				}
			}
			if r.Intn(8) != 0 {
				emit(10, id)
			} else {
				emit(10, pickPod())
			}
		case c < 69:
			emit(5, pickPod())
		case c < 77:
			id := pickPod()
			emit(6, id)
			for k := range ps {
				if ps[k].id == id {
					ps = append(ps[:k], ps[k+1:]...)
					break
				}
			}
		case c < 85: // quota update
			if len(qs) == 0 {
				continue
			}
			q := qs[r.Intn(len(qs))]
			mx, mn, w := quotaVals(q.decl)
			if r.Intn(4) != 0 { // mostly: never lower max
				for d := 0; d < 3; d++ {
					if q.decl[d] && mx[d] < q.max[d] {
						mx[d] = q.max[d] + int64(r.Intn(3))
					}
					if mn[d] > mx[d] {
						mn[d] = mx[d]
					}
				}
			}
			q.max = mx
			emit(2, q.id, 0, 0, 0, 0, 0, mx[0], mx[1], mx[2], mn[0], mn[1], mn[2], w[0], w[1], w[2])
		case c < 89:
			capacity()
		case c < 92: // quota meta change: the allow-lent-resource label of some quota flips (tree rebuild)
			if len(qs) == 0 {
				continue
			}
			emit(11, qs[r.Intn(len(qs))].id)
		case c < 95: // a pod's preemptible label flips
			emit(12, pickPod())
		case c < 98: // a pod's status changes (kubelet: Running / Succeeded / Failed), maybe with the node name appearing
			emit(13, pickPod(), phase(true), vtB(r.Intn(3) == 0))
		case c < 99 || style == "failover": // the scheduler restarts (leader fail-over)
			emit(14)
		default:
			addQuota()
		}
	}
	in := []int64{rt, chk, int64(len(ops))}
	for _, rec := range ops {
		in = append(in, rec...)
	}
	return label, in
}

func TestVerifC03(t *testing.T) {
	suit := newPluginTestSuit(t, nil)
	vtC03Plugin = suit.createPlugin(t).(*Plugin)
	setLoglevel("0")
	klog.LogToStderr(false)
	klog.SetOutput(io.Discard)
	_ = flag.CommandLine
	vtMain(t, "C03", vtC03Gen, vtC03Exec)
}
