//go:build verif

package resourceexecutor

// C12, stream "leveled", thorough tier: exhaustive small scopes, played before the random cases.
//   cpu sets over 3 cpus: every valid start x every valid target for the chains root-pod and
//   root-pod-container; over 2 cpus for the fork root-(pod,pod); both cgroup versions;
//   limits over {0,1,2,unlimited} on the chain of three: memory.min on v1 and v2, cfs quota on v1.
// Every case is one LeveledUpdateBatch call updating every directory, levels = depth.

var vtC12ExhCases [][]int64

func vtC12ExhAssignments(kind int, par []int, dom []int64) [][]int64 {
	var out [][]int64
	cur := make([]int64, len(par))
	var rec func(d int)
	rec = func(d int) {
		if d == len(par) {
			out = append(out, append([]int64(nil), cur...))
			return
		}
		for _, v := range dom {
			if d > 0 && !vtC12Le(kind, v, cur[par[d]]) {
				continue
			}
			cur[d] = v
			rec(d + 1)
		}
	}
	rec(0)
	return out
}

func vtC12ExhBuild() {
	type scope struct {
		ver  int64
		kind int
		par  []int
		dom  []int64
	}
	set3 := []int64{0, 1, 2, 3, 4, 5, 6, 7}
	set2 := []int64{0, 1, 2, 3}
	lim := []int64{0, 1, 2, -1}
	var scopes []scope
	for ver := int64(0); ver < 2; ver++ {
		scopes = append(scopes,
			scope{ver, 0, []int{0, 0}, set3},
			scope{ver, 0, []int{0, 0, 1}, set3},
			scope{ver, 0, []int{0, 0, 0}, set2},
			scope{ver, 2, []int{0, 0, 1}, lim})
	}
	scopes = append(scopes, scope{0, 1, []int{0, 0, 1}, lim})
	for _, sc := range scopes {
		nd := len(sc.par)
		depth := make([]int, nd)
		maxd := 0
		for d := 1; d < nd; d++ {
			depth[d] = depth[sc.par[d]] + 1
			if depth[d] > maxd {
				maxd = depth[d]
			}
		}
		as := vtC12ExhAssignments(sc.kind, sc.par, sc.dom)
		for _, start := range as {
			for _, target := range as {
				in := []int64{sc.ver, int64(nd)}
				for d := 1; d < nd; d++ {
					in = append(in, int64(sc.par[d]))
				}
				in = append(in, 1, int64(sc.kind))
				in = append(in, start...)
				in = append(in, 1, 0, int64(maxd+1))
				for l := 0; l <= maxd; l++ {
					var row []int64
					for d := 0; d < nd; d++ {
						if depth[d] == l {
							row = append(row, int64(d), 0, target[d])
						}
					}
					in = append(in, int64(len(row)/3))
					in = append(in, row...)
				}
				vtC12ExhCases = append(vtC12ExhCases, in)
			}
		}
	}
}

// vtC12Exhaustive returns the i-th case of the exhaustive scopes, or nil when i is past them.
func vtC12Exhaustive(i int) []int64 {
	if vtC12ExhCases == nil {
		vtC12ExhBuild()
	}
	if i < len(vtC12ExhCases) {
		return vtC12ExhCases[i]
	}
	return nil
}
