//go:build verif

package cpusuppress

// C12, stream "be": histories of CPUSuppress.applyCPUSetWithNonePolicy calls on a temp
// best-effort cgroup subtree (root = the BE QoS dir, pods below it, containers below pods).
// The executor handed to the plugin forwards every updater of an UpdateBatch call ONE BY ONE to
// the real executor and inspects all files after each: a file whose mtime left the sentinel was
// written (also when the content did not change).
//
// input  : ver nd par[1..nd-1] start[nd] nops ops...        directories are numbered in the
//          order filepath.Walk visits them (pre-order, names sorted), par[d] < d
//          op 0 = apply : 0 newset oldflag oldset   (oldflag 0: oldCPUSet = the BE root's current
//                                                    cpuset, as adjustByCPUSet passes it; 1: oldset)
//          op 1 = expire: 1 dir how
//          op 2 = recover: 2 newset variant nex ex[nex]   (same plugin instance and executor)
//                 variant 0: recoverCPUSetForBECPUManager; ex = pod dirs with a specified cpuset
//                 variant 1: recoverCPUSetIfNeed(container depth)   variant 2: recoverCPUSetIfNeed(pod depth)
//                 newset = the cpu ids of the node (NodeCPUInfo); nothing reserved, no LSE pods
//          op 3 = adjust : 3 procs milli   (adjustByCPUSet: the node's processors are the cpu ids of procs, each on
//                 its own core, one NUMA node, nothing reserved, no pods, kubelet policy none; milli = wanted BE cpus.
//                 The code itself reads "old" and computes "new".)
//          op 4 = restart: 4               (the plugin gets a fresh executor: empty ResourceCache)
//          cpu sets are bit masks of cpu ids
// output : per apply op:  nw { dir content }*nw  snapshot[nd]

import (
	"fmt"
	"math/rand"
	"os"
	"path/filepath"
	"strings"
	"testing"
	"time"

	topov1alpha1 "github.com/k8stopologyawareschedwg/noderesourcetopology-api/pkg/apis/topology/v1alpha1"
	"go.uber.org/mock/gomock"
	corev1 "k8s.io/api/core/v1"
	"k8s.io/apimachinery/pkg/api/resource"
	metav1 "k8s.io/apimachinery/pkg/apis/meta/v1"

	apiext "github.com/koordinator-sh/koordinator/apis/extension"
	"github.com/koordinator-sh/koordinator/pkg/koordlet/metriccache"
	mockmetriccache "github.com/koordinator-sh/koordinator/pkg/koordlet/metriccache/mockmetriccache"
	"github.com/koordinator-sh/koordinator/pkg/koordlet/statesinformer"
	mockstatesinformer "github.com/koordinator-sh/koordinator/pkg/koordlet/statesinformer/mockstatesinformer"

	"github.com/koordinator-sh/koordinator/pkg/koordlet/resourceexecutor"
	koordletutil "github.com/koordinator-sh/koordinator/pkg/koordlet/util"
	"github.com/koordinator-sh/koordinator/pkg/koordlet/util/system"
	"github.com/koordinator-sh/koordinator/pkg/util/cache"
	"github.com/koordinator-sh/koordinator/pkg/util/cpuset"
)

var vtC12T *testing.T

var vtC12Sentinel = time.Unix(1000000000, 0)

var vtC12Helper *system.FileTestUtil
var vtC12Case int

type vtC12BEEnv struct {
	paths  []string // absolute cpuset.cpus path per directory
	writes []int64
	nw     int64
}

func vtC12Mask2Ids(m int64) []int32 {
	var ids []int32
	for i := 0; i < 63; i++ {
		if m&(int64(1)<<uint(i)) != 0 {
			ids = append(ids, int32(i))
		}
	}
	return ids
}

func vtC12ParseMask(s string) int64 {
	cs, err := cpuset.Parse(strings.Trim(s, "\n"))
	if err != nil {
		return -9
	}
	var m int64
	for _, c := range cs.ToSliceNoSort() {
		if c < 0 || c > 62 {
			return -9
		}
		m |= int64(1) << uint(c)
	}
	return m
}

func (e *vtC12BEEnv) after() {
	for i, p := range e.paths {
		st, err := os.Stat(p)
		if err != nil {
			panic(err)
		}
		if st.ModTime().Equal(vtC12Sentinel) {
			continue
		}
		raw, err := os.ReadFile(p)
		if err != nil {
			panic(err)
		}
		e.writes = append(e.writes, int64(i), vtC12ParseMask(string(raw)))
		e.nw++
		if err := os.Chtimes(p, vtC12Sentinel, vtC12Sentinel); err != nil {
			panic(err)
		}
	}
}

func (e *vtC12BEEnv) snapshot() []int64 {
	out := make([]int64, 0, len(e.paths))
	for _, p := range e.paths {
		raw, err := os.ReadFile(p)
		if err != nil {
			panic(err)
		}
		out = append(out, vtC12ParseMask(string(raw)))
	}
	return out
}

// vtC12BEExec is the executor seen by the plugin: same calls, one updater at a time.
type vtC12BEExec struct {
	inner *resourceexecutor.ResourceUpdateExecutorImpl
	env   *vtC12BEEnv
}

func (x *vtC12BEExec) Update(cacheable bool, u resourceexecutor.ResourceUpdater) (bool, error) {
	b, err := x.inner.Update(cacheable, u)
	x.env.after()
	return b, err
}

func (x *vtC12BEExec) UpdateBatch(cacheable bool, us ...resourceexecutor.ResourceUpdater) {
	for _, u := range us {
		x.inner.UpdateBatch(cacheable, u)
		x.env.after()
	}
}

func (x *vtC12BEExec) LeveledUpdateBatch(us [][]resourceexecutor.ResourceUpdater) {
	x.inner.LeveledUpdateBatch(us)
	x.env.after()
}

func (x *vtC12BEExec) Run(stopCh <-chan struct{}) { x.inner.Run(stopCh) }

func vtC12BERun(in []int64) []int64 {
	t := vtC12T
	p := 0
	next := func() int64 {
		if p >= len(in) {
			return 0
		}
		v := in[p]
		p++
		return v
	}
	v2 := next() == 1
	nd := int(next())
	par := make([]int, nd)
	for i := 1; i < nd; i++ {
		par[i] = int(next())
	}
	// one FileTestUtil for the whole run (NewFileTestUtil forks `getconf`); every case gets its own
	// cgroup root below its temp dir
	if vtC12Helper == nil {
		vtC12Helper = system.NewFileTestUtil(t)
		t.Cleanup(vtC12Helper.Cleanup)
	}
	helper := vtC12Helper
	vtC12Case++
	root := filepath.Join(helper.TempDir, fmt.Sprintf("case%d", vtC12Case))
	system.Conf.CgroupRootDir = root
	defer os.RemoveAll(root)
	helper.SetCgroupsV2(v2)
	res, err := system.GetCgroupResource(system.CPUSetCPUSName)
	if err != nil {
		panic(err)
	}
	dirs := make([]string, nd)
	env := &vtC12BEEnv{}
	for d := 0; d < nd; d++ {
		if d == 0 {
			dirs[d] = koordletutil.GetPodQoSRelativePath(corev1.PodQOSBestEffort)
		} else {
			dirs[d] = filepath.Join(dirs[par[d]], fmt.Sprintf("n%02d", d))
		}
		helper.SetValidateResource(false)
		helper.WriteCgroupFileContents(dirs[d], res, cpuset.GenerateCPUSetStr(vtC12Mask2Ids(next())))
		fp := res.Path(dirs[d])
		if err := os.Chtimes(fp, vtC12Sentinel, vtC12Sentinel); err != nil {
			panic(err)
		}
		env.paths = append(env.paths, fp)
	}
	helper.SetCgroupsV2(v2)

	inner := &resourceexecutor.ResourceUpdateExecutorImpl{Config: resourceexecutor.NewDefaultConfig(), ResourceCache: cache.NewCacheDefault()}
	wrapped := &vtC12BEExec{inner: inner, env: env}
	r := &CPUSuppress{
		executor:               wrapped,
		cgroupReader:           resourceexecutor.NewCgroupReader(),
		suppressPolicyStatuses: map[string]suppressPolicyStatus{},
	}
	stop := make(chan struct{})
	defer close(stop)
	r.init(stop)

	var obs []int64
	nops := int(next())
	for o := 0; o < nops; o++ {
		switch next() {
		case 0:
			newset, oldflag, oldset := next(), next(), next()
			var old []int32
			if oldflag == 0 {
				if v2 {
					// kernel emulation: on cgroup v2 the reader uses cpuset.cpus.effective, which for the
					// BE root equals its cpuset.cpus (the parent is not narrower)
					raw, err := os.ReadFile(env.paths[0])
					if err != nil {
						panic(err)
					}
					helper.WriteCgroupFileContents(dirs[0], system.CPUSetEffectiveV2, string(raw))
				}
				cs, err := r.cgroupReader.ReadCPUSet(dirs[0]) // as adjustByCPUSet does
				if err != nil {
					panic(err)
				}
				old = cs.ToInt32Slice()
			} else {
				old = vtC12Mask2Ids(oldset)
			}
			env.writes, env.nw = nil, 0
			if err := r.applyCPUSetWithNonePolicy(vtC12Mask2Ids(newset), old); err != nil {
				panic(err)
			}
			env.after()
			obs = append(obs, env.nw)
			obs = append(obs, env.writes...)
			obs = append(obs, env.snapshot()...)
		case 4:
			inner = &resourceexecutor.ResourceUpdateExecutorImpl{Config: resourceexecutor.NewDefaultConfig(), ResourceCache: cache.NewCacheDefault()}
			inner.Run(stop)
			wrapped.inner = inner
		case 3:
			procs, milli := next(), next()
			var info metriccache.NodeCPUInfo
			for _, id := range vtC12Mask2Ids(procs) {
				info.ProcessorInfos = append(info.ProcessorInfos, koordletutil.ProcessorInfo{CPUID: id, CoreID: id})
			}
			ctl := gomock.NewController(t)
			si := mockstatesinformer.NewMockStatesInformer(ctl)
			si.EXPECT().GetAllPods().Return([]*statesinformer.PodMeta{}).AnyTimes()
			si.EXPECT().GetNodeTopo().Return(&topov1alpha1.NodeResourceTopology{}).AnyTimes()
			r.statesInformer = si
			if v2 {
				// kernel emulation: cpuset.cpus.effective of a cgroup in a valid hierarchy equals its cpuset.cpus
				for d := range dirs {
					raw, err := os.ReadFile(env.paths[d])
					if err != nil {
						panic(err)
					}
					helper.WriteCgroupFileContents(dirs[d], system.CPUSetEffectiveV2, string(raw))
				}
			}
			env.writes, env.nw = nil, 0
			r.adjustByCPUSet(resource.NewMilliQuantity(milli, resource.DecimalSI), &info)
			env.after()
			ctl.Finish()
			obs = append(obs, env.nw)
			obs = append(obs, env.writes...)
			obs = append(obs, env.snapshot()...)
		case 2:
			newset, variant, nex := next(), next(), int(next())
			var pods []*statesinformer.PodMeta
			for j := 0; j < nex; j++ {
				d := int(next())
				pods = append(pods, &statesinformer.PodMeta{
					CgroupDir: fmt.Sprintf("n%02d", d),
					Pod: &corev1.Pod{ObjectMeta: metav1.ObjectMeta{
						Name: fmt.Sprintf("p%02d", d), Namespace: "ns", UID: "uid",
						Annotations: map[string]string{apiext.AnnotationResourceStatus: `{"cpuset": "0"}`},
					}},
				})
			}
			var info metriccache.NodeCPUInfo
			for _, id := range vtC12Mask2Ids(newset) {
				info.ProcessorInfos = append(info.ProcessorInfos, koordletutil.ProcessorInfo{CPUID: id, CoreID: id / 2})
			}
			ctl := gomock.NewController(t)
			si := mockstatesinformer.NewMockStatesInformer(ctl)
			si.EXPECT().GetAllPods().Return(pods).AnyTimes()
			si.EXPECT().GetNodeTopo().Return(&topov1alpha1.NodeResourceTopology{}).AnyTimes()
			mc := mockmetriccache.NewMockMetricCache(ctl)
			mc.EXPECT().Get(metriccache.NodeCPUInfoKey).Return(&info, true).AnyTimes()
			r.statesInformer, r.metricCache = si, mc
			env.writes, env.nw = nil, 0
			switch variant {
			case 0:
				r.recoverCPUSetForBECPUManager()
			case 1:
				r.recoverCPUSetIfNeed(koordletutil.ContainerCgroupPathRelativeDepth)
			default:
				r.recoverCPUSetIfNeed(koordletutil.PodCgroupPathRelativeDepth)
			}
			env.after()
			ctl.Finish()
			obs = append(obs, env.nw)
			obs = append(obs, env.writes...)
			obs = append(obs, env.snapshot()...)
		case 1:
			d, how := int(next()), next()
			key := env.paths[d]
			if obj, ok := inner.ResourceCache.Get(key); ok {
				if how == 0 {
					_ = inner.ResourceCache.Set(key, obj, -time.Minute)
				} else {
					obj.(resourceexecutor.ResourceUpdater).UpdateLastUpdateTimestamp(time.Now().Add(-time.Hour))
				}
			}
		}
	}
	return obs
}

func vtC12Pop(m int64) int {
	n := 0
	for ; m != 0; m &= m - 1 {
		n++
	}
	return n
}

// the generator's own bookkeeping of what adjustByCPUSet will pick (only used to keep later ops plausible)
func vtC12AdjNew(procs, milli, old int64) int64 {
	n, no := int64(vtC12Pop(procs)), int64(vtC12Pop(old))
	c := (milli + 999) / 1000
	if c < 2 {
		c = 2
	}
	inc := (n + 9) / 10
	if c-no > inc {
		c = no + inc
	}
	if n == 0 || n < c {
		return 0
	}
	var out int64
	for i := 0; i < 63 && c > 0; i++ {
		if procs&(int64(1)<<uint(i)) != 0 {
			out |= int64(1) << uint(i)
			c--
		}
	}
	return out
}

func vtC12BEGen(r *rand.Rand, i int) (string, []int64) {
	ver := int64(r.Intn(2))
	nd := 1 + r.Intn(7)
	// a tree of depth <= 2 below the root, numbered in pre-order: build parent/children first
	type node struct{ kids []int }
	tr := []node{{}}
	depth := []int{0}
	for len(tr) < nd {
		p := r.Intn(len(tr))
		if depth[p] >= 2 {
			continue
		}
		tr[p].kids = append(tr[p].kids, len(tr))
		tr = append(tr, node{})
		depth = append(depth, depth[p]+1)
	}
	par := make([]int, 0, nd)
	var walk func(o, np int)
	num := 0
	walk = func(o, np int) {
		me := num
		num++
		par = append(par, np)
		for _, k := range tr[o].kids {
			walk(k, me)
		}
	}
	walk(0, 0)
	univ := uint(3 + r.Intn(4))
	if r.Intn(6) == 0 {
		univ = uint(8 + r.Intn(40))
	}
	full := int64(1)<<univ - 1
	rnd := func() int64 {
		m := r.Int63() & full
		if r.Intn(2) == 0 {
			m |= r.Int63() & full
		}
		return m
	}
	label := fmt.Sprintf("v%d/valid", ver+1)
	malformed := r.Intn(12) == 0
	if malformed {
		label = fmt.Sprintf("v%d/malformed", ver+1)
	}
	in := []int64{ver, int64(nd)}
	for d := 1; d < nd; d++ {
		in = append(in, int64(par[d]))
	}
	cur := make([]int64, nd)
	uniform := r.Intn(2) == 0 // the usual situation: every BE cgroup holds the cpuset of the last round
	for d := 0; d < nd; d++ {
		switch {
		case d == 0:
			cur[d] = rnd()
			if cur[d] == 0 {
				cur[d] = 1
			}
		case uniform && r.Intn(8) != 0:
			cur[d] = cur[par[d]]
		default:
			cur[d] = cur[par[d]] & rnd()
		}
		if malformed && r.Intn(4) == 0 {
			cur[d] = rnd()
		}
	}
	in = append(in, cur...)
	dep := make([]int, nd)
	for d := 1; d < nd; d++ {
		dep[d] = dep[par[d]] + 1
	}
	nops := 1 + r.Intn(3)
	in = append(in, int64(nops))
	for o := 0; o < nops; o++ {
		if o > 0 && r.Intn(4) == 0 {
			in = append(in, 1, int64(r.Intn(nd)), int64(r.Intn(2)))
			continue
		}
		if o > 0 && r.Intn(8) == 0 {
			in = append(in, 4)
			continue
		}
		if r.Intn(3) == 0 {
			// adjustByCPUSet on a node with at most 9 processors
			procs := rnd()
			if r.Intn(2) == 0 {
				procs |= cur[0]
			}
			for vtC12Pop(procs) > 9 {
				procs &= procs - 1
			}
			n := int64(vtC12Pop(procs))
			milli := int64(r.Intn(int(n)+2)) * 1000
			if r.Intn(4) == 0 {
				milli = int64(r.Intn(int(n+1)*1000 + 1))
			}
			in = append(in, 3, procs, milli)
			if nw := vtC12AdjNew(procs, milli, cur[0]); nw != 0 {
				for d := range cur {
					cur[d] = nw
				}
			}
			continue
		}
		if r.Intn(3) == 0 {
			// recover: usually a growth of what the subtree holds now
			nw := cur[0] | rnd()
			if malformed || r.Intn(8) == 0 {
				nw = rnd()
			}
			variant := r.Intn(3)
			if r.Intn(2) == 0 {
				variant = 0
			}
			var ex []int64
			if variant == 0 {
				for d := 1; d < nd; d++ {
					if dep[d] == 1 && r.Intn(3) == 0 {
						ex = append(ex, int64(d))
					}
				}
			}
			in = append(in, 2, nw, int64(variant), int64(len(ex)))
			in = append(in, ex...)
			isEx := func(d int) bool {
				for _, x := range ex {
					if int(x) == d {
						return true
					}
				}
				return false
			}
			for d := 0; d < nd; d++ {
				switch {
				case dep[d] <= 1:
					cur[d] = nw
				case variant == 1 || (variant == 0 && !isEx(par[d])):
					cur[d] = nw
				}
			}
			continue
		}
		var nw int64
		switch r.Intn(6) {
		case 0:
			nw = cur[0] & rnd() // shrink
		case 1:
			nw = cur[0] | rnd() // grow
		case 2:
			nw = ^cur[0] & full // shift to the complement
		case 3:
			nw = cur[0] // unchanged
		default:
			nw = rnd()
		}
		if nw == 0 && r.Intn(4) != 0 {
			nw = int64(1) << uint(r.Intn(int(univ)))
		}
		oldflag, oldset := int64(0), int64(0)
		if r.Intn(5) == 0 {
			oldflag = 1
			oldset = cur[0] | rnd()
			if malformed {
				oldset = rnd()
			}
		}
		in = append(in, 0, nw, oldflag, oldset)
		if nw != 0 {
			for d := range cur {
				cur[d] = nw
			}
		}
	}
	return label, in
}

func TestVerifC12BE(t *testing.T) {
	vtC12T = t
	vtMain(t, "C12", vtC12BEGen, vtC12BERun)
}
