//go:build verif

package resourceexecutor

// C12, stream "leveled": histories of LeveledUpdateBatch calls (and cache expiries) on a temp
// cgroup tree. Every ResourceUpdater handed to the executor is wrapped so that after EACH
// MergeUpdate()/update() call all files are inspected: a file whose mtime left the sentinel was
// written by that call (also when the content did not change); its content is logged.
//
// input  : ver nd par[1..nd-1] nk kinds[nk] start[nd*nk] nops ops...
//          op 0 = batch : 0 nl { nu { dir kindIndex value }*nu }*nl
//          op 1 = expire: 1 dir kindIndex how   (how 0: cache entry expires, 1: entry older than the force-update interval)
//          values: cpuset = bit mask of cpu ids; limits = -1 (unlimited) or the number
// output : per batch op:  nw { fileIndex content }*nw  snapshot[nd*nk]      (fileIndex = dir*nk + kindIndex)
//          content codes as values; -2 = literal "-1" in cpu.max (cgroup v2), -9 = unparsable

import (
	"fmt"
	"math/rand"
	"os"
	"path/filepath"
	"strconv"
	"strings"
	"testing"
	"time"

	sysutil "github.com/koordinator-sh/koordinator/pkg/koordlet/util/system"
	"github.com/koordinator-sh/koordinator/pkg/util/cache"
	"github.com/koordinator-sh/koordinator/pkg/util/cpuset"
)

var vtC12T *testing.T

var vtC12Sentinel = time.Unix(1000000000, 0)

var vtC12Helper *sysutil.FileTestUtil
var vtC12Case int

var vtC12Types = []sysutil.ResourceType{
	sysutil.CPUSetCPUSName, sysutil.CPUCFSQuotaName, sysutil.MemoryMinName, sysutil.MemoryLowName, sysutil.MemoryHighName,
}

type vtC12File struct {
	dir  string // parentDir handed to the updater factory
	kind int
	path string // absolute path
}

type vtC12Env struct {
	v2     bool
	files  []vtC12File
	writes []int64
	nw     int64
}

func vtC12Mask2Str(m int64) string {
	var ids []int
	for i := 0; i < 63; i++ {
		if m&(int64(1)<<uint(i)) != 0 {
			ids = append(ids, i)
		}
	}
	return cpuset.NewCPUSet(ids...).String()
}

// rendering of a value as the updater's Value()
func vtC12Render(kind int, v int64, v2 bool) string {
	switch kind {
	case 0:
		return vtC12Mask2Str(v)
	case 1:
		return strconv.FormatInt(v, 10) // "-1" = unlimited on both versions (callers format an int64)
	default:
		if v == -1 {
			return "max"
		}
		return strconv.FormatInt(v, 10)
	}
}

// rendering of a value as the initial file content (what the kernel shows)
func vtC12RenderFile(kind int, v int64, v2 bool) string {
	if kind == 1 && v2 {
		if v == -1 {
			return "max 100000"
		}
		return strconv.FormatInt(v, 10) + " 100000"
	}
	return vtC12Render(kind, v, v2)
}

func vtC12ParseContent(kind int, s string, v2 bool) int64 {
	s = strings.Trim(s, "\n")
	switch kind {
	case 0:
		cs, err := cpuset.Parse(s)
		if err != nil {
			return -9
		}
		var m int64
		for _, c := range cs.ToSliceNoSort() {
			if c < 0 || c > 62 {
				return -9
			}
			m |= int64(1) << uint(c)
		}
		return m
	case 1:
		if v2 {
			fs := strings.Fields(s)
			if len(fs) == 0 || len(fs) > 2 {
				return -9
			}
			if fs[0] == "max" {
				return -1
			}
			if fs[0] == "-1" {
				return -2 // not a legal content of cpu.max
			}
			n, err := strconv.ParseInt(fs[0], 10, 64)
			if err != nil || n < 0 {
				return -9
			}
			return n
		}
		if s == "-1" {
			return -1
		}
		n, err := strconv.ParseInt(s, 10, 64)
		if err != nil || n < 0 {
			return -9
		}
		return n
	default:
		if s == "max" {
			return -1
		}
		n, err := strconv.ParseInt(s, 10, 64)
		if err != nil || n < 0 {
			return -9
		}
		return n
	}
}

// after inspects every file once an updater call returned: logs the files written by the call,
// plays the kernel for cpu.max (reads back as "<quota> <period>") and re-arms the sentinel.
func (e *vtC12Env) after() {
	for i, f := range e.files {
		st, err := os.Stat(f.path)
		if err != nil {
			panic(err)
		}
		if st.ModTime().Equal(vtC12Sentinel) {
			continue
		}
		raw, err := os.ReadFile(f.path)
		if err != nil {
			panic(err)
		}
		code := vtC12ParseContent(f.kind, string(raw), e.v2)
		e.writes = append(e.writes, int64(i), code)
		e.nw++
		if f.kind == 1 && e.v2 {
			fs := strings.Fields(string(raw))
			if len(fs) == 1 {
				q := fs[0]
				if q == "-1" {
					q = "max"
				}
				if err := os.WriteFile(f.path, []byte(q+" 100000"), 0644); err != nil {
					panic(err)
				}
			}
		}
		if err := os.Chtimes(f.path, vtC12Sentinel, vtC12Sentinel); err != nil {
			panic(err)
		}
	}
}

func (e *vtC12Env) snapshot() []int64 {
	out := make([]int64, 0, len(e.files))
	for _, f := range e.files {
		raw, err := os.ReadFile(f.path)
		if err != nil {
			panic(err)
		}
		out = append(out, vtC12ParseContent(f.kind, string(raw), e.v2))
	}
	return out
}

// vtC12U wraps a real updater; only the two calls that may touch the file are intercepted.
type vtC12U struct {
	ResourceUpdater
	env *vtC12Env
}

func (w *vtC12U) update() error {
	err := w.ResourceUpdater.update()
	w.env.after()
	return err
}

func (w *vtC12U) MergeUpdate() (ResourceUpdater, error) {
	u, err := w.ResourceUpdater.MergeUpdate()
	w.env.after()
	return u, err
}

type vtC12Rd struct {
	in []int64
	p  int
}

func (r *vtC12Rd) next() int64 {
	if r.p >= len(r.in) {
		return 0
	}
	v := r.in[r.p]
	r.p++
	return v
}

func vtC12Exec(in []int64) []int64 {
	t := vtC12T
	rd := &vtC12Rd{in: in}
	v2 := rd.next() == 1
	nd := int(rd.next())
	par := make([]int, nd)
	for i := 1; i < nd; i++ {
		par[i] = int(rd.next())
	}
	nk := int(rd.next())
	kinds := make([]int, nk)
	for i := range kinds {
		kinds[i] = int(rd.next())
	}

	// one FileTestUtil for the whole run (NewFileTestUtil forks `getconf`); every case gets its own
	// cgroup root below its temp dir
	if vtC12Helper == nil {
		vtC12Helper = sysutil.NewFileTestUtil(t)
		t.Cleanup(vtC12Helper.Cleanup)
	}
	helper := vtC12Helper
	vtC12Case++
	root := filepath.Join(helper.TempDir, fmt.Sprintf("case%d", vtC12Case))
	sysutil.Conf.CgroupRootDir = root
	defer os.RemoveAll(root)
	helper.SetCgroupsV2(v2)
	helper.SetResourcesSupported(true, sysutil.MemoryMin, sysutil.MemoryLow, sysutil.MemoryHigh)

	dirs := make([]string, nd)
	for i := 0; i < nd; i++ {
		name := fmt.Sprintf("n%02d", i)
		if i == 0 {
			dirs[i] = filepath.Join("kubepods.slice", name)
		} else {
			dirs[i] = filepath.Join(dirs[par[i]], name)
		}
	}
	env := &vtC12Env{v2: v2}
	for d := 0; d < nd; d++ {
		for ki := 0; ki < nk; ki++ {
			v := rd.next()
			helper.SetCgroupsV2(v2)
			res, err := sysutil.GetCgroupResource(vtC12Types[kinds[ki]])
			if err != nil {
				panic(err)
			}
			helper.SetValidateResource(false)
			helper.WriteCgroupFileContents(dirs[d], res, vtC12RenderFile(kinds[ki], v, v2))
			p := res.Path(dirs[d])
			if err := os.Chtimes(p, vtC12Sentinel, vtC12Sentinel); err != nil {
				panic(err)
			}
			env.files = append(env.files, vtC12File{dir: dirs[d], kind: kinds[ki], path: p})
		}
	}
	helper.SetCgroupsV2(v2)

	ex := &ResourceUpdateExecutorImpl{ResourceCache: cache.NewCacheDefault(), Config: NewDefaultConfig()}
	stop := make(chan struct{})
	defer close(stop)
	ex.Run(stop)

	var obs []int64
	nops := int(rd.next())
	for o := 0; o < nops; o++ {
		switch rd.next() {
		case 0:
			nl := int(rd.next())
			levels := make([][]ResourceUpdater, nl)
			for l := 0; l < nl; l++ {
				nu := int(rd.next())
				for j := 0; j < nu; j++ {
					d, ki, v := int(rd.next()), int(rd.next()), rd.next()
					u, err := DefaultCgroupUpdaterFactory.New(vtC12Types[kinds[ki]], dirs[d], vtC12Render(kinds[ki], v, v2), nil)
					if err != nil {
						panic(err)
					}
					levels[l] = append(levels[l], &vtC12U{ResourceUpdater: u, env: env})
				}
			}
			env.writes, env.nw = nil, 0
			ex.LeveledUpdateBatch(levels)
			env.after() // anything written outside an updater call would show up here
			obs = append(obs, env.nw)
			obs = append(obs, env.writes...)
			obs = append(obs, env.snapshot()...)
		case 1:
			d, ki, how := int(rd.next()), int(rd.next()), rd.next()
			key := env.files[d*nk+ki].path
			if obj, ok := ex.ResourceCache.Get(key); ok {
				if how == 0 {
					_ = ex.ResourceCache.Set(key, obj, -time.Minute)
				} else {
					obj.(ResourceUpdater).UpdateLastUpdateTimestamp(time.Now().Add(-time.Hour))
				}
			}
		}
	}
	return obs
}

// ---------------------------------------------------------------- generator

func vtC12Le(kind int, a, b int64) bool {
	if kind == 0 {
		return a&b == a
	}
	return b == -1 || (a != -1 && a <= b)
}

func vtC12Limit(r *rand.Rand) int64 {
	switch r.Intn(8) {
	case 0:
		return -1
	case 1:
		return 0
	case 2, 3, 4:
		return int64(r.Intn(12))
	case 5:
		return int64(1)<<uint(10+r.Intn(45)) + int64(r.Intn(3)) - 1
	default:
		return int64(r.Intn(400000))
	}
}

// a random value below (⊑) ub; style: 0 anything, 1 close to ub
func vtC12Below(r *rand.Rand, kind int, ub int64, univ uint, tight bool) int64 {
	if kind == 0 {
		if tight && r.Intn(2) == 0 {
			return ub
		}
		m := r.Int63() & (int64(1)<<univ - 1)
		if r.Intn(3) == 0 {
			m |= r.Int63() & (int64(1)<<univ - 1)
		}
		return ub & m
	}
	if tight && r.Intn(2) == 0 {
		return ub
	}
	if ub == -1 {
		return vtC12Limit(r)
	}
	if ub == 0 {
		return 0
	}
	switch r.Intn(4) {
	case 0:
		return ub
	case 1:
		return ub - 1
	default:
		return r.Int63n(ub + 1)
	}
}

func vtC12Top(r *rand.Rand, kind int, univ uint) int64 {
	if kind == 0 {
		m := r.Int63() & (int64(1)<<univ - 1)
		if r.Intn(2) == 0 {
			m |= r.Int63() & (int64(1)<<univ - 1)
		}
		if m == 0 {
			m = 1
		}
		return m
	}
	return vtC12Limit(r)
}

func vtC12Gen(r *rand.Rand, i int) (string, []int64) {
	if os.Getenv("VERIF_TIER") == "thorough" {
		if in := vtC12Exhaustive(i); in != nil {
			return fmt.Sprintf("v%d/exhaustive", in[0]+1), in
		}
	}
	ver := int64(r.Intn(2))
	nd := 1 + r.Intn(7)
	if r.Intn(4) == 0 {
		nd = 2 + r.Intn(2)
	}
	par := make([]int, nd)
	depth := make([]int, nd)
	for d := 1; d < nd; d++ {
		for {
			p := r.Intn(d)
			if depth[p] < 2 || r.Intn(8) == 0 {
				par[d] = p
				depth[d] = depth[p] + 1
				break
			}
		}
	}
	nk := 1
	if r.Intn(3) == 0 {
		nk = 2 + r.Intn(2)
	}
	kinds := r.Perm(5)[:nk]
	univ := uint(3 + r.Intn(4))
	if r.Intn(6) == 0 {
		univ = uint(8 + r.Intn(40))
	}
	in := []int64{ver, int64(nd)}
	for d := 1; d < nd; d++ {
		in = append(in, int64(par[d]))
	}
	in = append(in, int64(nk))
	for _, k := range kinds {
		in = append(in, int64(k))
	}
	// start assignment, hierarchy-valid
	cur := make([]int64, nd*nk)
	for d := 0; d < nd; d++ {
		for ki, k := range kinds {
			if d == 0 {
				cur[d*nk+ki] = vtC12Top(r, k, univ)
			} else {
				cur[d*nk+ki] = vtC12Below(r, k, cur[par[d]*nk+ki], univ, r.Intn(2) == 0)
			}
		}
	}
	in = append(in, cur...)
	label := fmt.Sprintf("v%d/valid", ver+1)
	malformed := r.Intn(12) == 0
	if malformed {
		label = fmt.Sprintf("v%d/malformed", ver+1)
	}
	nops := 1 + r.Intn(3)
	var ops []int64
	cnt := 0
	var lastBatch []int64
	for o := 0; o < nops; o++ {
		if o > 0 && r.Intn(4) == 0 {
			ops = append(ops, 1, int64(r.Intn(nd)), int64(r.Intn(nk)), int64(r.Intn(2)))
			cnt++
			continue
		}
		if lastBatch != nil && r.Intn(6) == 0 {
			ops = append(ops, lastBatch...) // the same batch again: nothing may be written
			cnt++
			continue
		}
		// choose the update set and the new assignment
		var upd []bool
		var nw []int64
		for try := 0; ; try++ {
			upd = make([]bool, nd*nk)
			mode := r.Intn(4)
			if try > 20 {
				mode = 0
			}
			sub := r.Intn(nd)
			for d := 0; d < nd; d++ {
				for ki := range kinds {
					switch mode {
					case 0, 1: // everything
						upd[d*nk+ki] = true
					case 2: // one subtree
						a := d
						for a != sub && a != 0 {
							a = par[a]
						}
						upd[d*nk+ki] = a == sub
					default:
						upd[d*nk+ki] = r.Intn(3) != 0
					}
				}
			}
			style := r.Intn(6) // 0 shrink 1 grow 2 shift 3 unlimited/full 4 random 5 mostly same
			nw = make([]int64, nd*nk)
			for d := 0; d < nd; d++ {
				for ki, k := range kinds {
					f := d*nk + ki
					if !upd[f] {
						nw[f] = cur[f]
						continue
					}
					ub := int64(-1)
					if k == 0 {
						ub = int64(1)<<univ - 1
					}
					if d != 0 {
						ub = nw[par[d]*nk+ki]
					}
					old := cur[f]
					var v int64
					switch style {
					case 0:
						v = vtC12Below(r, k, old, univ, false)
						if !vtC12Le(k, v, ub) {
							v = vtC12Below(r, k, ub, univ, false)
						}
					case 1:
						if k == 0 {
							v = (old | r.Int63()&(int64(1)<<univ-1)) & ub
						} else if old == -1 || ub == -1 && r.Intn(3) == 0 {
							v = -1
							if !vtC12Le(k, v, ub) {
								v = ub
							}
						} else {
							v = old + int64(r.Intn(1000))
							if !vtC12Le(k, v, ub) {
								v = ub
							}
						}
					case 2:
						if k == 0 {
							v = ^old & ub
							if v == 0 || r.Intn(3) == 0 {
								v = vtC12Below(r, k, ub, univ, true)
							}
						} else {
							v = vtC12Below(r, k, ub, univ, false)
						}
					case 3:
						v = ub
					case 4:
						v = vtC12Below(r, k, ub, univ, r.Intn(2) == 0)
					default:
						v = old
						if r.Intn(4) == 0 || !vtC12Le(k, v, ub) {
							v = vtC12Below(r, k, ub, univ, true)
						}
					}
					if malformed && r.Intn(4) == 0 {
						v = vtC12Top(r, k, univ)
					}
					nw[f] = v
				}
			}
			ok := true
			for d := 1; d < nd && ok; d++ {
				for ki, k := range kinds {
					if !vtC12Le(k, nw[d*nk+ki], nw[par[d]*nk+ki]) {
						ok = false
					}
				}
			}
			if ok || malformed {
				break
			}
		}
		// levels: by depth (empty levels are kept), or one level per directory in a topological order
		var lv [][]int
		keepOrder := false
		if a := r.Intn(8); a < 2 {
			for d := 0; d < nd; d++ {
				lv = append(lv, []int{d})
			}
		} else if a < 4 {
			// the directories in a topological order (par[d] < d) cut into chunks: a level may hold a
			// directory together with its children, the parent first (as the qos level of cgreconcile does)
			keepOrder = true
			lv = append(lv, nil)
			for d := 0; d < nd; d++ {
				if d > 0 && r.Intn(3) == 0 {
					lv = append(lv, nil)
				}
				lv[len(lv)-1] = append(lv[len(lv)-1], d)
			}
		} else {
			maxd := 0
			for d := 0; d < nd; d++ {
				if depth[d] > maxd {
					maxd = depth[d]
				}
			}
			lv = make([][]int, maxd+1+r.Intn(2))
			for d := 0; d < nd; d++ {
				lv[depth[d]] = append(lv[depth[d]], d)
			}
		}
		if malformed && r.Intn(3) == 0 && len(lv) > 1 {
			a, b := r.Intn(len(lv)), r.Intn(len(lv))
			lv[a], lv[b] = lv[b], lv[a]
		}
		batch := []int64{0, int64(len(lv))}
		for _, ds := range lv {
			var row []int64
			n := 0
			ord := r.Perm(len(ds))
			if keepOrder {
				for j := range ord {
					ord[j] = j
				}
			}
			for _, j := range ord {
				d := ds[j]
				for _, ki := range r.Perm(nk) {
					if upd[d*nk+ki] {
						row = append(row, int64(d), int64(ki), nw[d*nk+ki])
						n++
					}
				}
			}
			batch = append(batch, int64(n))
			batch = append(batch, row...)
		}
		ops = append(ops, batch...)
		cnt++
		lastBatch = batch
		if !malformed {
			cur = nw
		} else {
			return label, append(append(in, int64(cnt)), ops...) // state after a malformed batch is not tracked
		}
	}
	in = append(in, int64(cnt))
	in = append(in, ops...)
	return label, in
}

func TestVerifC12(t *testing.T) {
	vtC12T = t
	vtMain(t, "C12", vtC12Gen, vtC12Exec)
}
