//go:build verif

package cgreconcile

// C12, stream "reconcile": histories of cgroupResourcesReconcile.reconcile() rounds (the production
// caller of LeveledUpdateBatch for memory.min / memory.low / memory.high) on a temp cgroup tree
//   kubepods (Guaranteed QoS dir) -> {burstable, besteffort, guaranteed pods} -> pods -> containers.
// The plugin's executor is the real ResourceUpdateExecutorImpl behind a forwarding wrapper that
// wraps every updater of the batch: after each MergeUpdate() and around every exported call that
// brackets update() the updater's own file is inspected (mtime against a sentinel: a write is seen
// also when the content did not change); everything else is inspected when the batch returns.
//
// input  : ver np {type nc}*np start[nd*3] nops ops...
//          type 0: kube Guaranteed / koord LSR   1: kube Guaranteed / koord LS
//               2: kube Burstable / koord LS     3: kube BestEffort / koord BE (batch-memory)
//          directories: 0 kubepods, 1 burstable, 2 besteffort, then per pod: the pod dir, its nc containers
//          files: dir*3 + {0 memory.min, 1 memory.low, 2 memory.high}; -1 = "max"
//          op 0 = reconcile round: 0 nodeMem cfg[9] {active {req lim}*nc}*np
//                 cfg = (MinLimitPercent LowLimitPercent ThrottlingPercent) of LSRClass, LSClass, BEClass; -1 = nil
//                 req / lim = memory request / limit of the container in bytes, -1 = not set
//          op 1 = expire : 1 fileIndex how   (how 0: cache entry expires, 1: older than the force-update interval)
//          op 2 = restart: 2                (fresh executor, empty ResourceCache)
// output : per round:  nw { fileIndex content }*nw  snapshot[nd*3]

import (
	"fmt"
	"math"
	"math/rand"
	"os"
	"path/filepath"
	"strconv"
	"strings"
	"testing"
	"time"

	"go.uber.org/mock/gomock"
	corev1 "k8s.io/api/core/v1"
	"k8s.io/apimachinery/pkg/api/resource"
	metav1 "k8s.io/apimachinery/pkg/apis/meta/v1"
	"k8s.io/apimachinery/pkg/types"
	"k8s.io/utils/ptr"

	apiext "github.com/koordinator-sh/koordinator/apis/extension"
	slov1alpha1 "github.com/koordinator-sh/koordinator/apis/slo/v1alpha1"
	"github.com/koordinator-sh/koordinator/pkg/koordlet/resourceexecutor"
	"github.com/koordinator-sh/koordinator/pkg/koordlet/statesinformer"
	mockstatesinformer "github.com/koordinator-sh/koordinator/pkg/koordlet/statesinformer/mockstatesinformer"
	koordletutil "github.com/koordinator-sh/koordinator/pkg/koordlet/util"
	"github.com/koordinator-sh/koordinator/pkg/koordlet/util/system"
	"github.com/koordinator-sh/koordinator/pkg/util/cache"
)

var vtC12T *testing.T

var vtC12Sentinel = time.Unix(1000000000, 0)

var vtC12RcHelper *system.FileTestUtil
var vtC12RcCase int

var vtC12RcTypes = []system.ResourceType{system.MemoryMinName, system.MemoryLowName, system.MemoryHighName}

type vtC12RcEnv struct {
	paths  []string // absolute path per file index
	byPath map[string]int
	writes []int64
	nw     int64
}

func vtC12RcParse(s string) int64 {
	s = strings.Trim(s, "\n")
	if s == "max" {
		return -1
	}
	n, err := strconv.ParseInt(s, 10, 64)
	if err != nil || n < 0 {
		return -9
	}
	if n == math.MaxInt64 {
		return -1 // the kernel shows "max" for it
	}
	return n
}

func vtC12RcRender(v int64) string {
	if v == -1 {
		return "max"
	}
	return strconv.FormatInt(v, 10)
}

// check inspects one file: logs it when it was written since the sentinel was armed, plays the
// kernel (MaxInt64 reads back as "max") and re-arms the sentinel.
func (e *vtC12RcEnv) check(i int) {
	p := e.paths[i]
	st, err := os.Stat(p)
	if err != nil {
		panic(err)
	}
	if st.ModTime().Equal(vtC12Sentinel) {
		return
	}
	raw, err := os.ReadFile(p)
	if err != nil {
		panic(err)
	}
	e.writes = append(e.writes, int64(i), vtC12RcParse(string(raw)))
	e.nw++
	if strings.Trim(string(raw), "\n") == strconv.FormatInt(math.MaxInt64, 10) {
		if err := os.WriteFile(p, []byte("max"), 0644); err != nil {
			panic(err)
		}
	}
	if err := os.Chtimes(p, vtC12Sentinel, vtC12Sentinel); err != nil {
		panic(err)
	}
}

func (e *vtC12RcEnv) checkAll() {
	for i := range e.paths {
		e.check(i)
	}
}

func (e *vtC12RcEnv) snapshot() []int64 {
	out := make([]int64, 0, len(e.paths))
	for _, p := range e.paths {
		raw, err := os.ReadFile(p)
		if err != nil {
			panic(err)
		}
		out = append(out, vtC12RcParse(string(raw)))
	}
	return out
}

// vtC12RcU wraps a real updater of the batch. update() is unexported and cannot be intercepted from
// this package; it is bracketed by exported calls on the same updater (Key/Value before,
// Key/UpdateLastUpdateTimestamp after), each of which inspects the updater's own file.
type vtC12RcU struct {
	resourceexecutor.ResourceUpdater
	env *vtC12RcEnv
	idx int // file index, -1 when the path is not one of the tree's files
}

func (w *vtC12RcU) own() {
	if w.idx >= 0 {
		w.env.check(w.idx)
	} else {
		w.env.checkAll()
	}
}

func (w *vtC12RcU) Key() string {
	w.own()
	return w.ResourceUpdater.Key()
}

func (w *vtC12RcU) Value() string {
	w.own()
	return w.ResourceUpdater.Value()
}

func (w *vtC12RcU) UpdateLastUpdateTimestamp(t time.Time) {
	w.own()
	w.ResourceUpdater.UpdateLastUpdateTimestamp(t)
}

func (w *vtC12RcU) MergeUpdate() (resourceexecutor.ResourceUpdater, error) {
	u, err := w.ResourceUpdater.MergeUpdate()
	w.own()
	return u, err
}

// vtC12RcExec is the executor seen by the plugin.
type vtC12RcExec struct {
	inner *resourceexecutor.ResourceUpdateExecutorImpl
	env   *vtC12RcEnv
}

func (x *vtC12RcExec) Update(cacheable bool, u resourceexecutor.ResourceUpdater) (bool, error) {
	b, err := x.inner.Update(cacheable, u)
	x.env.checkAll()
	return b, err
}

func (x *vtC12RcExec) UpdateBatch(cacheable bool, us ...resourceexecutor.ResourceUpdater) {
	for _, u := range us {
		x.inner.UpdateBatch(cacheable, u)
		x.env.checkAll()
	}
}

func (x *vtC12RcExec) LeveledUpdateBatch(us [][]resourceexecutor.ResourceUpdater) {
	wrapped := make([][]resourceexecutor.ResourceUpdater, len(us))
	for i := range us {
		for _, u := range us[i] {
			idx, ok := x.env.byPath[u.Path()]
			if !ok {
				idx = -1
			}
			wrapped[i] = append(wrapped[i], &vtC12RcU{ResourceUpdater: u, env: x.env, idx: idx})
		}
	}
	x.inner.LeveledUpdateBatch(wrapped)
	x.env.checkAll()
}

func (x *vtC12RcExec) Run(stopCh <-chan struct{}) { x.inner.Run(stopCh) }

type vtC12RcPod struct {
	typ int
	nc  int
	dir int // directory index of the pod; containers are dir+1 .. dir+nc
}

func vtC12RcPct(v int64) *int64 {
	if v < 0 {
		return nil
	}
	return ptr.To[int64](v)
}

func vtC12RcExecCase(in []int64) []int64 {
	t := vtC12T
	p := 0
	next := func() int64 {
		if p >= len(in) {
			return 0
		}
		v := in[p]
		p++
		return v
	}
	v2 := next() == 1
	np := int(next())
	pods := make([]vtC12RcPod, np)
	nd := 3
	for i := range pods {
		pods[i].typ = int(next())
		pods[i].nc = int(next())
		pods[i].dir = nd
		nd += 1 + pods[i].nc
	}

	// one FileTestUtil for the whole run (NewFileTestUtil forks `getconf`); every case gets its own
	// cgroup root below its temp dir
	if vtC12RcHelper == nil {
		vtC12RcHelper = system.NewFileTestUtil(t)
		t.Cleanup(vtC12RcHelper.Cleanup)
	}
	helper := vtC12RcHelper
	vtC12RcCase++
	root := filepath.Join(helper.TempDir, fmt.Sprintf("case%d", vtC12RcCase))
	system.Conf.CgroupRootDir = root
	defer os.RemoveAll(root)
	helper.SetCgroupsV2(v2)
	helper.SetResourcesSupported(true, system.MemoryMin, system.MemoryLow, system.MemoryHigh)

	dirs := make([]string, nd)
	dirs[0] = koordletutil.GetPodQoSRelativePath(corev1.PodQOSGuaranteed)
	dirs[1] = koordletutil.GetPodQoSRelativePath(corev1.PodQOSBurstable)
	dirs[2] = koordletutil.GetPodQoSRelativePath(corev1.PodQOSBestEffort)
	kubeQoS := []corev1.PodQOSClass{corev1.PodQOSGuaranteed, corev1.PodQOSGuaranteed, corev1.PodQOSBurstable, corev1.PodQOSBestEffort}
	koordQoS := []apiext.QoSClass{apiext.QoSLSR, apiext.QoSLS, apiext.QoSLS, apiext.QoSBE}
	parent := []int{0, 0, 1, 2}
	for i, pd := range pods {
		dirs[pd.dir] = filepath.Join(dirs[parent[pd.typ%4]], fmt.Sprintf("pod%02d", i))
		for c := 0; c < pd.nc; c++ {
			cd, err := koordletutil.GetContainerCgroupParentDirByID(dirs[pd.dir], fmt.Sprintf("containerd://c%02dx%02d", i, c))
			if err != nil {
				panic(err)
			}
			dirs[pd.dir+1+c] = cd
		}
	}
	env := &vtC12RcEnv{byPath: map[string]int{}}
	for d := 0; d < nd; d++ {
		for ki := 0; ki < 3; ki++ {
			v := next()
			res, err := system.GetCgroupResource(vtC12RcTypes[ki])
			if err != nil {
				panic(err)
			}
			helper.SetValidateResource(false)
			helper.WriteCgroupFileContents(dirs[d], res, vtC12RcRender(v))
			fp := res.Path(dirs[d])
			if err := os.Chtimes(fp, vtC12Sentinel, vtC12Sentinel); err != nil {
				panic(err)
			}
			env.paths = append(env.paths, fp)
			env.byPath[fp] = d*3 + ki
		}
	}
	helper.SetCgroupsV2(v2)

	inner := &resourceexecutor.ResourceUpdateExecutorImpl{Config: resourceexecutor.NewDefaultConfig(), ResourceCache: cache.NewCacheDefault()}
	wrapped := &vtC12RcExec{inner: inner, env: env}
	stop := make(chan struct{})
	defer close(stop)
	m := &cgroupResourcesReconcile{reconcileInterval: time.Second, executor: wrapped}
	m.init(stop)

	var obs []int64
	nops := int(next())
	for o := 0; o < nops; o++ {
		switch next() {
		case 0:
			nodeMem := next()
			var cfg [9]int64
			for i := range cfg {
				cfg[i] = next()
			}
			mkClass := func(i int) *slov1alpha1.ResourceQOS {
				return &slov1alpha1.ResourceQOS{MemoryQOS: &slov1alpha1.MemoryQOSCfg{
					Enable: ptr.To[bool](true),
					MemoryQOS: slov1alpha1.MemoryQOS{
						MinLimitPercent:   vtC12RcPct(cfg[3*i]),
						LowLimitPercent:   vtC12RcPct(cfg[3*i+1]),
						ThrottlingPercent: vtC12RcPct(cfg[3*i+2]),
					},
				}}
			}
			nodeSLO := &slov1alpha1.NodeSLO{Spec: slov1alpha1.NodeSLOSpec{ResourceQOSStrategy: &slov1alpha1.ResourceQOSStrategy{
				LSRClass: mkClass(0), LSClass: mkClass(1), BEClass: mkClass(2),
			}}}
			node := &corev1.Node{
				ObjectMeta: metav1.ObjectMeta{Name: "n"},
				Status: corev1.NodeStatus{Allocatable: corev1.ResourceList{
					corev1.ResourceCPU:    resource.MustParse("64"),
					corev1.ResourceMemory: *resource.NewQuantity(nodeMem, resource.BinarySI),
				}},
			}
			var metas []*statesinformer.PodMeta
			for i, pd := range pods {
				active := next() == 1
				typ := pd.typ % 4
				pod := &corev1.Pod{
					TypeMeta: metav1.TypeMeta{Kind: "Pod"},
					ObjectMeta: metav1.ObjectMeta{
						Name: fmt.Sprintf("p%02d", i), Namespace: "ns", UID: types.UID(fmt.Sprintf("uid%02d", i)),
						Labels: map[string]string{apiext.LabelPodQoS: string(koordQoS[typ])},
					},
					Status: corev1.PodStatus{QOSClass: kubeQoS[typ], Phase: corev1.PodRunning},
				}
				if !active {
					pod.Status.Phase = corev1.PodSucceeded
				}
				for c := 0; c < pd.nc; c++ {
					req, lim := next(), next()
					rr := corev1.ResourceRequirements{Requests: corev1.ResourceList{}, Limits: corev1.ResourceList{}}
					name := corev1.ResourceMemory
					if typ == 3 {
						name = apiext.BatchMemory
					}
					if req >= 0 {
						rr.Requests[name] = *resource.NewQuantity(req, resource.BinarySI)
					}
					if lim >= 0 {
						rr.Limits[name] = *resource.NewQuantity(lim, resource.BinarySI)
					}
					cn := fmt.Sprintf("c%02d", c)
					pod.Spec.Containers = append(pod.Spec.Containers, corev1.Container{Name: cn, Resources: rr})
					pod.Status.ContainerStatuses = append(pod.Status.ContainerStatuses, corev1.ContainerStatus{
						Name: cn, ContainerID: fmt.Sprintf("containerd://c%02dx%02d", i, c),
					})
				}
				metas = append(metas, &statesinformer.PodMeta{Pod: pod, CgroupDir: dirs[pd.dir]})
			}
			ctl := gomock.NewController(t)
			si := mockstatesinformer.NewMockStatesInformer(ctl)
			si.EXPECT().GetNodeSLO().Return(nodeSLO).AnyTimes()
			si.EXPECT().GetNode().Return(node).AnyTimes()
			si.EXPECT().GetAllPods().Return(metas).AnyTimes()
			m.statesInformer = si
			env.writes, env.nw = nil, 0
			m.reconcile()
			env.checkAll()
			ctl.Finish()
			obs = append(obs, env.nw)
			obs = append(obs, env.writes...)
			obs = append(obs, env.snapshot()...)
		case 1:
			f, how := int(next()), next()
			if f < 0 || f >= len(env.paths) {
				break
			}
			key := env.paths[f]
			if obj, ok := inner.ResourceCache.Get(key); ok {
				if how == 0 {
					_ = inner.ResourceCache.Set(key, obj, -time.Minute)
				} else {
					obj.(resourceexecutor.ResourceUpdater).UpdateLastUpdateTimestamp(time.Now().Add(-time.Hour))
				}
			}
		case 2:
			inner = &resourceexecutor.ResourceUpdateExecutorImpl{Config: resourceexecutor.NewDefaultConfig(), ResourceCache: cache.NewCacheDefault()}
			inner.Run(stop)
			wrapped.inner = inner
		}
	}
	return obs
}

// ---------------------------------------------------------------- generator

// the generator's own arithmetic: only used to pick start files that look like the result of an
// earlier round (so that shrinking rounds are frequent); the judgement never uses it.
type vtC12RcRound struct {
	nodeMem int64
	cfg     [9]int64
	active  []bool
	req     [][]int64
	lim     [][]int64
}

func vtC12RcTargets(pods []vtC12RcPod, nd int, rd *vtC12RcRound) []int64 {
	out := make([]int64, nd*3)
	for d := 0; d < nd; d++ {
		out[d*3], out[d*3+1], out[d*3+2] = -2, -2, -2 // -2 = no updater
	}
	class := []int{0, 1, 1, 2}
	kq := []int{0, 0, 1, 2}
	var qmin, qlow [3]int64
	var hasMin, hasLow [3]bool
	improve := func(lo, mn int64) int64 {
		if mn != -2 && lo != -2 && lo > 0 && lo < mn {
			return mn
		}
		return lo
	}
	for i, pd := range pods {
		if !rd.active[i] {
			continue
		}
		typ := pd.typ % 4
		mnP, lwP, thP := rd.cfg[3*class[typ]], rd.cfg[3*class[typ]+1], rd.cfg[3*class[typ]+2]
		var podReq int64
		for c := 0; c < pd.nc; c++ {
			if rd.req[i][c] > 0 {
				podReq += rd.req[i][c]
			}
		}
		pm, pl := int64(-2), int64(-2)
		if mnP >= 0 {
			pm = podReq * mnP / 100
			qmin[kq[typ]] += pm
			hasMin[kq[typ]] = true
		}
		if lwP >= 0 {
			pl = podReq * lwP / 100
			qlow[kq[typ]] += pl
			hasLow[kq[typ]] = true
		}
		pl = improve(pl, pm)
		out[pd.dir*3], out[pd.dir*3+1] = pm, pl
		for c := 0; c < pd.nc; c++ {
			r, l := rd.req[i][c], rd.lim[i][c]
			if r < 0 {
				r = 0
			}
			cm, cl, ch := int64(-2), int64(-2), int64(-2)
			if mnP >= 0 {
				cm = r * mnP / 100
			}
			if lwP >= 0 {
				cl = r * lwP / 100
			}
			if thP >= 0 {
				switch {
				case thP == 0:
					ch = -1
				case l > 0:
					ch = ((r + (l-r)*thP/100) / 4096) * 4096
				default:
					ch = ((r + (rd.nodeMem-r)*thP/100) / 4096) * 4096
				}
			}
			cl = improve(cl, cm)
			if ch != -2 && ch != -1 && cm != -2 && ch > 0 && ch < cm {
				ch = cm
			}
			f := (pd.dir + 1 + c) * 3
			out[f], out[f+1], out[f+2] = cm, cl, ch
		}
	}
	var tm, tl int64
	anyMin, anyLow := false, false
	for q := 0; q < 3; q++ {
		if hasMin[q] {
			tm += qmin[q]
			anyMin = true
		}
		if hasLow[q] {
			tl += qlow[q]
			anyLow = true
		}
	}
	for q := 1; q < 3; q++ {
		if hasMin[q] {
			out[q*3] = qmin[q]
		}
		if hasLow[q] {
			out[q*3+1] = qlow[q]
		}
	}
	if anyMin {
		out[0] = tm
	}
	if anyLow {
		out[1] = tl
	}
	return out
}

func vtC12RcMem(r *rand.Rand) int64 {
	switch r.Intn(8) {
	case 0:
		return 0
	case 1:
		return -1
	case 2:
		return int64(1+r.Intn(64)) * 4096
	case 3:
		return int64(1)<<uint(20+r.Intn(18)) + int64(r.Intn(3)) - 1
	case 4:
		return int64(r.Intn(100))
	default:
		return int64(r.Intn(1 << 20))
	}
}

func vtC12RcGenRound(r *rand.Rand, pods []vtC12RcPod, prev *vtC12RcRound, style int) *vtC12RcRound {
	rd := &vtC12RcRound{nodeMem: int64(1)<<uint(30+r.Intn(8)) + int64(r.Intn(2))*4095}
	pct := func() int64 {
		switch r.Intn(6) {
		case 0:
			return -1
		case 1:
			return 0
		case 2:
			return 100
		case 3:
			return 50
		default:
			return int64(r.Intn(101))
		}
	}
	for c := 0; c < 3; c++ {
		mn, lw, th := pct(), pct(), pct()
		if r.Intn(4) != 0 && mn >= 0 && lw > 0 && lw < mn {
			lw = mn // keep memory.low of the QoS dirs above the pods' (see the "improved" low of pods)
		}
		if r.Intn(3) == 0 {
			th = -1
		}
		rd.cfg[3*c], rd.cfg[3*c+1], rd.cfg[3*c+2] = mn, lw, th
	}
	if prev != nil && r.Intn(3) != 0 {
		rd.cfg = prev.cfg
		rd.nodeMem = prev.nodeMem
	}
	for i, pd := range pods {
		act := r.Intn(6) != 0
		rq := make([]int64, pd.nc)
		lm := make([]int64, pd.nc)
		for c := 0; c < pd.nc; c++ {
			rq[c] = vtC12RcMem(r)
			switch r.Intn(4) {
			case 0:
				lm[c] = -1
			case 1:
				lm[c] = rq[c]
			default:
				lm[c] = rq[c] + vtC12RcMem(r)
				if rq[c] < 0 {
					lm[c] = vtC12RcMem(r)
				}
			}
			if r.Intn(12) == 0 {
				lm[c] = vtC12RcMem(r) // possibly below the request
			}
		}
		if prev != nil {
			switch style {
			case 0: // a pod goes away / shrinks
				if r.Intn(2) == 0 {
					act = prev.active[i] && r.Intn(3) != 0
					rq, lm = prev.req[i], prev.lim[i]
				} else {
					act = prev.active[i]
					for c := range rq {
						if prev.req[i][c] > 0 {
							rq[c] = r.Int63n(prev.req[i][c] + 1)
						} else {
							rq[c] = prev.req[i][c]
						}
						lm[c] = prev.lim[i][c]
					}
				}
			case 1: // growth
				act = prev.active[i] || r.Intn(2) == 0
				for c := range rq {
					if prev.req[i][c] > 0 {
						rq[c] = prev.req[i][c] + int64(r.Intn(1<<16))
					}
					lm[c] = prev.lim[i][c]
					if lm[c] >= 0 && lm[c] < rq[c] {
						lm[c] = rq[c]
					}
				}
			case 2: // unchanged
				act, rq, lm = prev.active[i], prev.req[i], prev.lim[i]
			}
		}
		rd.active = append(rd.active, act)
		rd.req = append(rd.req, rq)
		rd.lim = append(rd.lim, lm)
	}
	return rd
}

func vtC12RcEnc(rd *vtC12RcRound, pods []vtC12RcPod) []int64 {
	out := []int64{0, rd.nodeMem}
	out = append(out, rd.cfg[:]...)
	for i, pd := range pods {
		out = append(out, vtB(rd.active[i]))
		for c := 0; c < pd.nc; c++ {
			out = append(out, rd.req[i][c], rd.lim[i][c])
		}
	}
	return out
}

func vtC12RcGen(r *rand.Rand, i int) (string, []int64) {
	ver := int64(r.Intn(2))
	np := r.Intn(5)
	if r.Intn(3) == 0 {
		np = 1 + r.Intn(2)
	}
	pods := make([]vtC12RcPod, np)
	nd := 3
	in := []int64{ver, int64(np)}
	for j := range pods {
		pods[j].typ = r.Intn(4)
		pods[j].nc = r.Intn(3)
		pods[j].dir = nd
		nd += 1 + pods[j].nc
		in = append(in, int64(pods[j].typ), int64(pods[j].nc))
	}
	label := fmt.Sprintf("v%d/valid", ver+1)
	// start files: kernel defaults, the result of an earlier round, or that with some noise
	start := make([]int64, nd*3)
	for d := 0; d < nd; d++ {
		start[d*3+2] = -1
	}
	var prev *vtC12RcRound
	mode := r.Intn(5)
	if mode != 0 {
		prev = vtC12RcGenRound(r, pods, nil, 3)
		tg := vtC12RcTargets(pods, nd, prev)
		for f, v := range tg {
			if v != -2 {
				start[f] = v
			}
		}
		if mode == 1 {
			// somebody else (kubelet, an admin) left larger values on some files of the upper levels
			for d := 0; d < 3; d++ {
				for ki := 0; ki < 2; ki++ {
					if r.Intn(3) == 0 {
						start[d*3+ki] += int64(r.Intn(1 << 12))
					}
				}
			}
			if start[0] < start[3] {
				start[0] = start[3]
			}
			if start[0] < start[6] {
				start[0] = start[6]
			}
			if start[1] < start[4] {
				start[1] = start[4]
			}
			if start[1] < start[7] {
				start[1] = start[7]
			}
			label = fmt.Sprintf("v%d/noisy", ver+1)
		}
	}
	in = append(in, start...)
	nops := 1 + r.Intn(3)
	var ops []int64
	for o := 0; o < nops; o++ {
		if o > 0 && r.Intn(5) == 0 {
			ops = append(ops, 1, int64(r.Intn(nd*3)), int64(r.Intn(2)))
			continue
		}
		if o > 0 && r.Intn(10) == 0 {
			ops = append(ops, 2)
			continue
		}
		rd := vtC12RcGenRound(r, pods, prev, r.Intn(4))
		ops = append(ops, vtC12RcEnc(rd, pods)...)
		prev = rd
	}
	in = append(in, int64(nops))
	in = append(in, ops...)
	return label, in
}

func TestVerifC12Rc(t *testing.T) {
	vtC12T = t
	vtMain(t, "C12", vtC12RcGen, vtC12RcExecCase)
}
