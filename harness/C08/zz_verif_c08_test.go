//go:build verif

package loadaware

// C08 correspondence harness: drives Plugin.Reserve/Unreserve/Filter(/PreFilter), the pod
// informer handlers podAssignCache.OnAdd/OnUpdate/OnDelete and the NodeMetric informer handler
// with an encoded history, and after every operation logs, for every node of the universe,
// the pod table, the cached sums, the sums of a FRESH podAssignCache fed the node's current
// metric and pods, and GetNodeMetricAndEstimatedOfExisting for eight variants.
// Wire format: see coq/C08/Extract.v.

import (
	"context"
	"encoding/json"
	"fmt"
	"math/rand"
	"runtime"
	"sort"
	"strconv"
	"sync/atomic"
	"testing"
	"time"

	corev1 "k8s.io/api/core/v1"
	"k8s.io/apimachinery/pkg/api/resource"
	metav1 "k8s.io/apimachinery/pkg/apis/meta/v1"
	"k8s.io/apimachinery/pkg/types"
	"k8s.io/client-go/tools/cache"
	fwktype "k8s.io/kube-scheduler/framework"
	"k8s.io/kubernetes/pkg/scheduler/framework"
	clocktesting "k8s.io/utils/clock/testing"

	"github.com/koordinator-sh/koordinator/apis/extension"
	slov1alpha1 "github.com/koordinator-sh/koordinator/apis/slo/v1alpha1"
	"github.com/koordinator-sh/koordinator/pkg/scheduler/apis/config"
	"github.com/koordinator-sh/koordinator/pkg/scheduler/plugins/loadaware/estimator"
	reservationutil "github.com/koordinator-sh/koordinator/pkg/util/reservation"
)

const vtC08ZeroTime = int64(-999999999)

type vtC08Reader struct {
	in []int64
	i  int
}

func (r *vtC08Reader) next() int64 {
	if r.i >= len(r.in) {
		r.i++
		return 0
	}
	v := r.in[r.i]
	r.i++
	return v
}

func (r *vtC08Reader) take(n int) []int64 {
	out := make([]int64, n)
	for k := range out {
		out[k] = r.next()
	}
	return out
}

func vtC08Map(c, m int64) map[corev1.ResourceName]int64 {
	var mp map[corev1.ResourceName]int64
	if c >= 0 || m >= 0 {
		mp = map[corev1.ResourceName]int64{}
	}
	if c >= 0 {
		mp[corev1.ResourceCPU] = c
	}
	if m >= 0 {
		mp[corev1.ResourceMemory] = m
	}
	return mp
}

func vtC08Bool3(v int64) *bool {
	if v == 0 {
		return nil
	}
	b := v == 2
	return &b
}

func vtC08OptInt(flag, v int64) *int64 {
	if flag == 0 {
		return nil
	}
	return &v
}

func vtC08AggType(t int64) extension.AggregationType {
	switch t {
	case 0:
		return ""
	case 1:
		return extension.P95
	case 2:
		return extension.AVG
	}
	return extension.AggregationType(fmt.Sprintf("t%d", t))
}

func vtC08NodeName(n int64) string {
	if n == 0 {
		return ""
	}
	return fmt.Sprintf("n%02d", n)
}

func vtC08Time(base time.Time, v int64) metav1.Time {
	if v == vtC08ZeroTime {
		return metav1.Time{}
	}
	return metav1.NewTime(base.Add(time.Duration(v) * time.Second))
}

func vtC08Seconds(v int64) metav1.Duration {
	return metav1.Duration{Duration: time.Duration(v) * time.Second}
}

// resource list with cpu in milli units and memory in bytes
func vtC08List(c, m int64) corev1.ResourceList {
	return corev1.ResourceList{
		corev1.ResourceCPU:    *resource.NewMilliQuantity(c, resource.DecimalSI),
		corev1.ResourceMemory: *resource.NewQuantity(m, resource.BinarySI),
	}
}

// namespace / name of a pod key: keys below 100 live in "default", key = 100*ns + name otherwise,
// so that pods of different namespaces can share a name
func vtC08NS(key int64) string {
	if key < 100 {
		return "default"
	}
	return fmt.Sprintf("ns%02d", key/100)
}

func vtC08PodName(key int64) string {
	if key < 0 {
		return fmt.Sprintf("m%02d", -key)
	}
	return fmt.Sprintf("p%02d", key%100)
}

// the extended part of a pod record:
// prioNil label qos kqos phase owner fam  nctr {reqC reqM limC limM}  ninit {always reqC reqM limC limM}  ohFlag ohC ohM
type vtC08Ext struct {
	prioNil, label, qos, kqos, phase, owner, fam int64
	ctrs                                        [][4]int64
	inits                                       [][5]int64
	ohF, ohC, ohM                               int64
}

func vtC08ReadExt(r *vtC08Reader) *vtC08Ext {
	e := &vtC08Ext{}
	e.prioNil, e.label, e.qos, e.kqos, e.phase, e.owner, e.fam = r.next(), r.next(), r.next(), r.next(), r.next(), r.next(), r.next()
	n := int(r.next())
	for k := 0; k < n; k++ {
		e.ctrs = append(e.ctrs, [4]int64{r.next(), r.next(), r.next(), r.next()})
	}
	n = int(r.next())
	for k := 0; k < n; k++ {
		e.inits = append(e.inits, [5]int64{r.next(), r.next(), r.next(), r.next(), r.next()})
	}
	e.ohF, e.ohC, e.ohM = r.next(), r.next(), r.next()
	return e
}

func (e *vtC08Ext) encode() []int64 {
	out := []int64{e.prioNil, e.label, e.qos, e.kqos, e.phase, e.owner, e.fam, int64(len(e.ctrs))}
	for _, c := range e.ctrs {
		out = append(out, c[:]...)
	}
	out = append(out, int64(len(e.inits)))
	for _, c := range e.inits {
		out = append(out, c[:]...)
	}
	return append(out, e.ohF, e.ohC, e.ohM)
}

// reads a pod record (extended form when ext is set) and builds the object
func vtC08ReadPod(r *vtC08Reader, ext bool, base time.Time) *corev1.Pod {
	f := r.take(19)
	var e *vtC08Ext
	if ext {
		e = vtC08ReadExt(r)
	}
	return vtC08Pod(f, e, base)
}

// pod(19): uid key node prio term resv ds reqC reqM limC limM cfC cfM csS csI schS schT iniS iniT
func vtC08Pod(f []int64, e *vtC08Ext, base time.Time) *corev1.Pod {
	prio := int32(f[3])
	pod := &corev1.Pod{
		ObjectMeta: metav1.ObjectMeta{
			Namespace:   vtC08NS(f[1]),
			Name:        vtC08PodName(f[1]),
			UID:         types.UID(fmt.Sprintf("u%02d", f[0])),
			Annotations: map[string]string{},
		},
		Spec: corev1.PodSpec{
			NodeName: vtC08NodeName(f[2]),
			Priority: &prio,
		},
		Status: corev1.PodStatus{Phase: corev1.PodRunning},
	}
	phase, owner, fam := vtB(f[4] != 0), vtB(f[6] != 0), int64(0)
	if e != nil {
		if e.prioNil != 0 {
			pod.Spec.Priority = nil
		}
		if e.phase != 0 {
			phase = e.phase
		}
		if e.owner != 0 {
			owner = e.owner
		}
		fam = e.fam
		if e.label != 0 {
			v, ok := map[int64]string{1: "koord-prod", 2: "koord-mid", 3: "koord-batch", 4: "koord-free"}[e.label]
			if !ok {
				v = "koord-other"
			}
			pod.Labels = map[string]string{extension.LabelPodPriorityClass: v}
		}
		if e.qos != 0 {
			v, ok := map[int64]string{1: "LSE", 2: "LSR", 3: "LS", 4: "BE", 5: "SYSTEM"}[e.qos]
			if !ok {
				v = "OTHER"
			}
			if pod.Labels == nil {
				pod.Labels = map[string]string{}
			}
			pod.Labels[extension.LabelPodQoS] = v
		}
		switch e.kqos {
		case 0:
		case 1:
			pod.Status.QOSClass = corev1.PodQOSGuaranteed
		case 2:
			pod.Status.QOSClass = corev1.PodQOSBurstable
		case 3:
			pod.Status.QOSClass = corev1.PodQOSBestEffort
		default:
			pod.Status.QOSClass = "Other"
		}
	}
	switch phase {
	case 1:
		pod.Status.Phase = corev1.PodSucceeded
	case 2:
		pod.Status.Phase = corev1.PodFailed
	case 3:
		pod.Status.Phase = corev1.PodPending
	case 4:
		pod.Status.Phase = corev1.PodUnknown
	}
	if f[5] != 0 {
		pod.Annotations[reservationutil.AnnotationReservePod] = "true"
	}
	switch owner {
	case 1:
		pod.OwnerReferences = []metav1.OwnerReference{{Kind: "DaemonSet", Name: "ds"}}
	case 2:
		pod.OwnerReferences = []metav1.OwnerReference{{Kind: "ReplicaSet", Name: "rs"}, {Kind: "DaemonSet", Name: "ds"}}
	case 3:
		pod.OwnerReferences = []metav1.OwnerReference{{Kind: "ReplicaSet", Name: "rs"}}
	case 4:
		pod.OwnerReferences = []metav1.OwnerReference{{Kind: "daemonset", Name: "ds"}}
	}
	// the resource names the containers declare their resources under: the family given, else
	// the one of the pod's priority band
	if fam < 1 || fam > 3 {
		fam = 1
		switch {
		case prio >= 7000 && prio <= 7999:
			fam = 2
		case prio >= 5000 && prio <= 5999:
			fam = 3
		}
	}
	cpuName, memName := corev1.ResourceCPU, corev1.ResourceMemory
	switch fam {
	case 2:
		cpuName, memName = extension.MidCPU, extension.MidMemory
	case 3:
		cpuName, memName = extension.BatchCPU, extension.BatchMemory
	}
	cpuQty := func(v int64) resource.Quantity {
		if cpuName == corev1.ResourceCPU {
			return *resource.NewMilliQuantity(v, resource.DecimalSI)
		}
		return *resource.NewQuantity(v, resource.DecimalSI)
	}
	mkRes := func(c []int64) corev1.ResourceRequirements {
		req, lim := corev1.ResourceList{}, corev1.ResourceList{}
		if c[0] > 0 {
			req[cpuName] = cpuQty(c[0])
		}
		if c[1] > 0 {
			req[memName] = *resource.NewQuantity(c[1], resource.BinarySI)
		}
		if c[2] > 0 {
			lim[cpuName] = cpuQty(c[2])
		}
		if c[3] > 0 {
			lim[memName] = *resource.NewQuantity(c[3], resource.BinarySI)
		}
		return corev1.ResourceRequirements{Requests: req, Limits: lim}
	}
	pod.Spec.Containers = []corev1.Container{{Name: "main", Resources: mkRes(f[7:11])}}
	if e != nil {
		for k, c := range e.ctrs {
			pod.Spec.Containers = append(pod.Spec.Containers, corev1.Container{Name: fmt.Sprintf("c%d", k), Resources: mkRes(c[:])})
		}
		for k, c := range e.inits {
			ic := corev1.Container{Name: fmt.Sprintf("i%d", k), Resources: mkRes(c[1:])}
			if c[0] != 0 {
				always := corev1.ContainerRestartPolicyAlways
				ic.RestartPolicy = &always
			}
			pod.Spec.InitContainers = append(pod.Spec.InitContainers, ic)
		}
		if e.ohF != 0 {
			pod.Spec.Overhead = corev1.ResourceList{}
			if e.ohC > 0 {
				pod.Spec.Overhead[corev1.ResourceCPU] = *resource.NewMilliQuantity(e.ohC, resource.DecimalSI)
			}
			if e.ohM > 0 {
				pod.Spec.Overhead[corev1.ResourceMemory] = *resource.NewQuantity(e.ohM, resource.BinarySI)
			}
		}
	}
	if cf := vtC08Map(f[11], f[12]); cf != nil {
		b, _ := json.Marshal(cf)
		pod.Annotations[extension.AnnotationCustomEstimatedScalingFactors] = string(b)
	}
	if f[13] != -1 {
		pod.Annotations[extension.AnnotationCustomEstimatedSecondsAfterPodScheduled] = strconv.FormatInt(f[13], 10)
	}
	if f[14] != -1 {
		pod.Annotations[extension.AnnotationCustomEstimatedSecondsAfterInitialized] = strconv.FormatInt(f[14], 10)
	}
	cond := func(tp corev1.PodConditionType, s, t int64) {
		if s == 0 {
			return
		}
		st := corev1.ConditionFalse
		if s == 2 {
			st = corev1.ConditionTrue
		}
		pod.Status.Conditions = append(pod.Status.Conditions, corev1.PodCondition{Type: tp, Status: st, LastTransitionTime: vtC08Time(base, t)})
	}
	cond(corev1.PodScheduled, f[15], f[16])
	cond(corev1.PodInitialized, f[17], f[18])
	return pod
}

func vtC08Metric(r *vtC08Reader, node int64, base time.Time) *slov1alpha1.NodeMetric {
	nm := &slov1alpha1.NodeMetric{ObjectMeta: metav1.ObjectMeta{Name: vtC08NodeName(node)}}
	utF, ut, ivF, iv, infoF := r.next(), r.next(), r.next(), r.next(), r.next()
	uC, uM, sC, sM := r.next(), r.next(), r.next(), r.next()
	if utF != 0 {
		t := vtC08Time(base, ut)
		nm.Status.UpdateTime = &t
	}
	if ivF != 0 {
		nm.Spec.CollectPolicy = &slov1alpha1.NodeMetricCollectPolicy{ReportIntervalSeconds: &iv}
	}
	var info *slov1alpha1.NodeMetricInfo
	if infoF != 0 {
		info = &slov1alpha1.NodeMetricInfo{
			NodeUsage:   slov1alpha1.ResourceMap{ResourceList: vtC08List(uC, uM)},
			SystemUsage: slov1alpha1.ResourceMap{ResourceList: vtC08List(sC, sM)},
		}
	}
	nagg := int(r.next())
	for a := 0; a < nagg; a++ {
		d := r.next()
		au := slov1alpha1.AggregatedUsage{Duration: vtC08Seconds(d), Usage: map[extension.AggregationType]slov1alpha1.ResourceMap{}}
		nt := int(r.next())
		for k := 0; k < nt; k++ {
			t, f, vC, vM := r.next(), r.next(), r.next(), r.next()
			rm := slov1alpha1.ResourceMap{}
			if f != 0 {
				rm.ResourceList = vtC08List(vC, vM)
			}
			au.Usage[vtC08AggType(t)] = rm
		}
		if info != nil {
			info.AggregatedNodeUsages = append(info.AggregatedNodeUsages, au)
		}
	}
	nm.Status.NodeMetric = info
	np := int(r.next())
	for k := 0; k < np; k++ {
		key, f, vC, vM, prod := r.next(), r.next(), r.next(), r.next(), r.next()
		pm := &slov1alpha1.PodMetricInfo{Namespace: vtC08NS(key), Name: vtC08PodName(key), Priority: extension.PriorityBatch}
		if prod != 0 {
			pm.Priority = extension.PriorityProd
		}
		switch f {
		case 1:
			pm.PodUsage = slov1alpha1.ResourceMap{ResourceList: vtC08List(vC, vM)}
		case 2: // a nil entry
			pm = nil
		case 3: // a usage list that names only a resource the plugin does not vectorize
			pm.PodUsage = slov1alpha1.ResourceMap{ResourceList: corev1.ResourceList{corev1.ResourceEphemeralStorage: *resource.NewQuantity(vC+1, resource.BinarySI)}}
		}
		nm.Status.PodsMetric = append(nm.Status.PodsMetric, pm)
	}
	return nm
}

// node(17): name allocC allocM rawFlag rawC rawM customFlag cuC cuM cpC cpM caggFlag caThrC caThrM caType caDurFlag caDur
func vtC08Node(f []int64) *corev1.Node {
	node := &corev1.Node{
		ObjectMeta: metav1.ObjectMeta{Name: vtC08NodeName(f[0]), Annotations: map[string]string{}},
		Status:     corev1.NodeStatus{Allocatable: vtC08List(f[1], f[2])},
	}
	if f[3] != 0 {
		raw := corev1.ResourceList{}
		if f[4] >= 0 {
			raw[corev1.ResourceCPU] = *resource.NewMilliQuantity(f[4], resource.DecimalSI)
		}
		if f[5] >= 0 {
			raw[corev1.ResourceMemory] = *resource.NewQuantity(f[5], resource.BinarySI)
		}
		b, _ := json.Marshal(raw)
		node.Annotations[extension.AnnotationNodeRawAllocatable] = string(b)
	}
	if f[6] != 0 {
		c := &extension.CustomUsageThresholds{
			UsageThresholds:     vtC08Map(f[7], f[8]),
			ProdUsageThresholds: vtC08Map(f[9], f[10]),
		}
		if f[11] != 0 {
			c.AggregatedUsage = &extension.CustomAggregatedUsage{
				UsageThresholds:      vtC08Map(f[12], f[13]),
				UsageAggregationType: vtC08AggType(f[14]),
			}
			if f[15] != 0 {
				d := vtC08Seconds(f[16])
				c.AggregatedUsage.UsageAggregatedDuration = &d
			}
		}
		b, _ := json.Marshal(c)
		node.Annotations[extension.AnnotationCustomUsageThresholds] = string(b)
	}
	return node
}

// the scheduler snapshot Score reads the node from: holds the node of the current operation
type vtC08Lister struct{ ni fwktype.NodeInfo }

func (l *vtC08Lister) NodeInfos() fwktype.NodeInfoLister       { return l }
func (l *vtC08Lister) StorageInfos() fwktype.StorageInfoLister { return l }
func (l *vtC08Lister) IsPVCUsedByPods(key string) bool         { return false }
func (l *vtC08Lister) List() ([]fwktype.NodeInfo, error)       { return []fwktype.NodeInfo{l.ni}, nil }
func (l *vtC08Lister) HavePodsWithAffinityList() ([]fwktype.NodeInfo, error) {
	return nil, nil
}
func (l *vtC08Lister) HavePodsWithRequiredAntiAffinityList() ([]fwktype.NodeInfo, error) {
	return nil, nil
}
func (l *vtC08Lister) Get(nodeName string) (fwktype.NodeInfo, error) {
	if l.ni == nil || l.ni.Node() == nil || l.ni.Node().Name != nodeName {
		return nil, fmt.Errorf("node %q not in snapshot", nodeName)
	}
	return l.ni, nil
}

type vtC08Handle struct {
	fwktype.Handle
	lister *vtC08Lister
}

func (h *vtC08Handle) SnapshotSharedLister() fwktype.SharedLister { return h.lister }

type vtC08Env struct {
	lister *vtC08Lister
	args   *config.LoadAwareSchedulingArgs
	pl     *Plugin
	clk    *clocktesting.FakeClock
	base   time.Time
	metric cache.ResourceEventHandler
}

func vtC08NewCache(args *config.LoadAwareSchedulingArgs, base time.Time) (*podAssignCache, *clocktesting.FakeClock, estimator.Estimator, ResourceVectorizer) {
	est, err := estimator.NewEstimator(args, nil)
	if err != nil {
		panic(err)
	}
	vectorizer := NewResourceVectorizerFromArgs(args)
	c := newPodAssignCache(est, vectorizer, args)
	clk := clocktesting.NewFakeClock(base)
	c.clock = clk
	return c, clk, est, vectorizer
}

func vtC08NewEnv(r *vtC08Reader) *vtC08Env {
	f := r.take(21)
	args := &config.LoadAwareSchedulingArgs{
		UsageThresholds:                      vtC08Map(f[0], f[1]),
		ProdUsageThresholds:                  vtC08Map(f[2], f[3]),
		FilterExpiredNodeMetrics:             vtC08Bool3(f[9]),
		NodeMetricExpirationSeconds:          vtC08OptInt(f[10], f[11]),
		EnableScheduleWhenNodeMetricsExpired: vtC08Bool3(f[12]),
		ProdUsageIncludeSys:                  f[13] != 0,
		AllowCustomizeEstimation:             f[14] != 0,
		EstimatedSecondsAfterPodScheduled:    vtC08OptInt(f[15], f[16]),
		EstimatedSecondsAfterInitialized:     vtC08OptInt(f[17], f[18]),
		EstimatedScalingFactors:              vtC08Map(f[19], f[20]),
	}
	if f[4] != 0 {
		args.Aggregated = &config.LoadAwareSchedulingAggregatedArgs{
			UsageThresholds:         vtC08Map(f[5], f[6]),
			UsageAggregationType:    vtC08AggType(f[7]),
			UsageAggregatedDuration: vtC08Seconds(f[8]),
		}
	}
	// optional header extension (announced by a negative integer where the op count would be):
	// -1 wC wM dom accProd sAggType sAggDur — what only Score reads
	if r.i < len(r.in) && r.in[r.i] < 0 {
		x := r.take(7)
		args.ResourceWeights = vtC08Map(x[1], x[2])
		args.DominantResourceWeight = x[3]
		args.ScoreAccordingProdUsage = x[4] != 0
		if args.Aggregated != nil {
			args.Aggregated.ScoreAggregationType = vtC08AggType(x[5])
			args.Aggregated.ScoreAggregatedDuration = vtC08Seconds(x[6])
		}
	}
	base := time.Now().Truncate(time.Second)
	c, clk, est, vectorizer := vtC08NewCache(args, base)
	// as New() computes it
	scoreWeights := vectorizer.ToFactorVec(args.ResourceWeights)
	if args.DominantResourceWeight == 0 && scoreWeights.Empty() {
		scoreWeights = nil
	}
	lister := &vtC08Lister{}
	pl := &Plugin{
		handle:         &vtC08Handle{lister: lister},
		args:           args,
		vectorizer:     vectorizer,
		filterProfile:  NewUsageThresholdsFilterProfile(args, vectorizer),
		scoreWeights:   scoreWeights,
		estimator:      est,
		podAssignCache: c,
	}
	return &vtC08Env{args: args, pl: pl, clk: clk, base: base, metric: c.NodeMetricHandler(), lister: lister}
}

var vtC08Variants = []struct {
	prod bool
	t    int64
	d    int64
}{{true, 0, 0}, {false, 0, 0}, {false, 1, 0}, {false, 1, 300}, {false, 1, 600}, {false, 2, 0}, {false, 2, 300}, {false, 2, 600}}

func vtC08Sums(n *nodeInfo) []int64 {
	out := []int64{}
	for _, v := range []ResourceVector{n.prodUsage, n.nodeDelta, n.prodDelta, n.nodeEstimated} {
		out = append(out, v[0], v[1])
	}
	return out
}

func (e *vtC08Env) observe() []int64 {
	obs := []int64{}
	c := e.pl.podAssignCache
	for node := int64(1); node <= 3; node++ {
		name := vtC08NodeName(node)
		n, ok := c.getNodeInfo(name)
		if !ok || n == nil {
			obs = append(obs, 0)
			continue
		}
		uids := make([]string, 0, len(n.podInfos))
		for uid := range n.podInfos {
			uids = append(uids, string(uid))
		}
		sort.Strings(uids)
		obs = append(obs, 1, vtB(n.nodeMetric != nil), int64(len(uids)))
		for _, u := range uids {
			v, _ := strconv.ParseInt(u[1:], 10, 64)
			obs = append(obs, v)
		}
		if n.nodeMetric == nil {
			continue
		}
		obs = append(obs, vtC08Sums(n)...)
		// a fresh cache fed the node's current pods (clock at their recorded timestamps) and
		// its current metric; alternately pods first or the metric first
		fresh, fclk, _, _ := vtC08NewCache(e.args, e.base)
		metricFirst := len(uids)%2 == 1
		if metricFirst {
			fresh.NodeMetricHandler().OnAdd(n.nodeMetric, false)
		}
		for _, u := range uids {
			info := n.podInfos[types.UID(u)]
			fclk.SetTime(info.timestamp)
			fresh.assign(name, info.pod)
		}
		if !metricFirst {
			fresh.NodeMetricHandler().OnAdd(n.nodeMetric, false)
		}
		fn, _ := fresh.getNodeInfo(name)
		obs = append(obs, vtC08Sums(fn)...)
		for _, v := range vtC08Variants {
			_, est, _, err := c.GetNodeMetricAndEstimatedOfExisting(name, v.prod, vtC08Seconds(v.d), vtC08AggType(v.t), false)
			if err != nil {
				obs = append(obs, 0, 0, 0)
			} else {
				obs = append(obs, 1, est[0], est[1])
			}
		}
	}
	return obs
}

func vtC08Status(s *fwktype.Status) int64 {
	if s == nil || s.IsSuccess() {
		return 0
	}
	if s.Code() != fwktype.Unschedulable {
		return 4
	}
	msg := s.Message()
	switch {
	case msg == ErrReasonNodeMetricExpired:
		return 3
	case msg == fmt.Sprintf(ErrReasonUsageExceedThreshold, corev1.ResourceCPU), msg == fmt.Sprintf(ErrReasonUsageExceedThreshold, corev1.ResourceMemory):
		return 1
	case msg == fmt.Sprintf(ErrReasonAggregatedUsageExceedThreshold, corev1.ResourceCPU), msg == fmt.Sprintf(ErrReasonAggregatedUsageExceedThreshold, corev1.ResourceMemory):
		return 2
	}
	return 4
}

func vtC08Exec(in []int64) []int64 {
	r := &vtC08Reader{in: in}
	e := vtC08NewEnv(r)
	c := e.pl.podAssignCache
	ctx := context.Background()
	nops := int(r.next())
	obs := []int64{}
	var cycle fwktype.CycleState // the CycleState of the scheduling cycle in progress
	for k := 0; k < nops; k++ {
		code, now := r.next(), r.next()
		e.clk.SetTime(e.base.Add(time.Duration(now) * time.Second))
		res := int64(0)
		ext := code > 10 // codes 11..15, 18: the pod is in the extended form
		if ext {
			code -= 10
		}
		switch code {
		case 1:
			node := r.next()
			e.pl.Reserve(ctx, framework.NewCycleState(), vtC08ReadPod(r, ext, e.base), vtC08NodeName(node))
		case 2:
			node := r.next()
			e.pl.Unreserve(ctx, framework.NewCycleState(), vtC08ReadPod(r, ext, e.base), vtC08NodeName(node))
		case 3:
			c.OnAdd(vtC08ReadPod(r, ext, e.base), false)
		case 4:
			oldNode := r.next()
			start := r.i
			newPod := vtC08ReadPod(r, ext, e.base)
			if oldNode < 0 { // the old object is missing
				c.OnUpdate(nil, newPod)
			} else {
				r2 := &vtC08Reader{in: in, i: start}
				oldPod := vtC08ReadPod(r2, ext, e.base)
				oldPod.Spec.NodeName = vtC08NodeName(oldNode)
				c.OnUpdate(oldPod, newPod)
			}
		case 5:
			pod := vtC08ReadPod(r, ext, e.base)
			switch r.next() {
			case 0:
				c.OnDelete(pod)
			case 1:
				c.OnDelete(cache.DeletedFinalStateUnknown{Key: pod.Namespace + "/" + pod.Name, Obj: pod})
			case 2: // a tombstone that does not hold a pod
				c.OnDelete(cache.DeletedFinalStateUnknown{Key: pod.Namespace + "/" + pod.Name, Obj: &corev1.Node{}})
			default:
				c.OnDelete(&corev1.Node{})
			}
		case 6:
			node, upd := r.next(), r.next()
			nm := vtC08Metric(r, node, e.base)
			switch upd {
			case 0:
				e.metric.OnAdd(nm, false)
			case 1:
				e.metric.OnUpdate(nm, nm)
			case 2: // not a NodeMetric
				e.metric.OnAdd(&corev1.Node{ObjectMeta: metav1.ObjectMeta{Name: nm.Name}}, false)
			default: // a nil NodeMetric
				e.metric.OnUpdate(nm, (*slov1alpha1.NodeMetric)(nil))
			}
		case 7:
			node, wrap := r.next(), r.next()
			nm := &slov1alpha1.NodeMetric{ObjectMeta: metav1.ObjectMeta{Name: vtC08NodeName(node)}}
			switch wrap {
			case 0:
				e.metric.OnDelete(nm)
			case 1:
				e.metric.OnDelete(cache.DeletedFinalStateUnknown{Key: nm.Name, Obj: nm})
			case 2:
				e.metric.OnDelete(cache.DeletedFinalStateUnknown{Key: nm.Name, Obj: &corev1.Node{ObjectMeta: metav1.ObjectMeta{Name: nm.Name}}})
			default:
				e.metric.OnDelete(&corev1.Node{ObjectMeta: metav1.ObjectMeta{Name: nm.Name}})
			}
		case 8:
			// pre: 0 a new cycle without PreFilter, 1 a new cycle with PreFilter, 2 the next node
			// of the cycle in progress (same CycleState, as the scheduler calls Filter)
			pre := r.next()
			node := vtC08Node(r.take(17))
			pod := vtC08ReadPod(r, ext, e.base)
			ni := framework.NewNodeInfo()
			ni.SetNode(node)
			if pre != 2 || cycle == nil {
				cycle = framework.NewCycleState()
			}
			if pre == 1 {
				e.pl.PreFilter(ctx, cycle, pod, nil)
			}
			res = vtC08Status(e.pl.Filter(ctx, cycle, pod, ni))
		case 10:
			// Score for one node: pre as for Filter (2 = in the cycle in progress, after its Filters)
			pre := r.next()
			node := vtC08Node(r.take(17))
			pod := vtC08ReadPod(r, ext, e.base)
			ni := framework.NewNodeInfo()
			ni.SetNode(node)
			e.lister.ni = ni
			if pre != 2 || cycle == nil {
				cycle = framework.NewCycleState()
			}
			if pre == 1 {
				e.pl.PreFilter(ctx, cycle, pod, nil)
			}
			score, st := e.pl.Score(ctx, cycle, pod, ni)
			res = score
			if st != nil && !st.IsSuccess() {
				res = -1
			}
		default:
			// a pod event handler called with something that is not a pod
			switch r.next() {
			case 0:
				c.OnAdd(&corev1.Node{}, false)
			case 1:
				c.OnUpdate(nil, &corev1.Node{})
			case 2:
				c.OnUpdate(&corev1.Pod{Spec: corev1.PodSpec{NodeName: "n01"}}, (*corev1.Pod)(nil))
			default:
				c.OnDelete("garbage")
			}
		}
		obs = append(obs, res)
		obs = append(obs, e.observe()...)
	}
	return obs
}

// ---------------------------------------------------------------------------- generator

type vtC08G struct {
	r     *rand.Rand
	large bool
	rich  bool // pods may take the extended form
	ut    int64 // the update time the generated timestamps cluster around
	iv    int64
}

func (g *vtC08G) pick(xs ...int64) int64 { return xs[g.r.Intn(len(xs))] }

func (g *vtC08G) cpu() int64 {
	if g.large {
		return g.pick(0, 100, 250, 500, 1000, 1500, 2000, 4000, int64(g.r.Intn(8000)))
	}
	return g.pick(0, 1, 10, 20, 25, 50, 100, int64(g.r.Intn(120)))
}

func (g *vtC08G) mem() int64 {
	if g.large {
		return g.pick(0, 1<<20, 1<<30, 3<<30, 1<<33, int64(1)<<30+int64(g.r.Intn(1<<20)), g.r.Int63n(1<<34))
	}
	return g.pick(0, 1, 10, 20, 25, 50, 100, int64(g.r.Intn(120)))
}

func (g *vtC08G) thr() int64 {
	return g.pick(-1, -1, 0, 50, 65, 80, 100, int64(1+g.r.Intn(120)))
}

func (g *vtC08G) factor() int64 {
	return g.pick(-1, 0, 50, 70, 85, 100, 100, 130, int64(g.r.Intn(200)))
}

// an instant near the boundaries updateTime-interval / updateTime, sometimes the zero time
func (g *vtC08G) instant() int64 {
	switch g.r.Intn(8) {
	case 0:
		return vtC08ZeroTime
	case 1, 2, 3:
		return g.ut - g.iv + int64(g.r.Intn(5)) - 2
	case 4, 5:
		return g.ut + int64(g.r.Intn(5)) - 2
	}
	return g.ut - 200 + int64(g.r.Intn(400))
}

type vtC08PodRec struct {
	f   [19]int64
	ext *vtC08Ext // nil: the basic form
}

// the wire form of an operation on this pod: the op code (+10 for the extended form), the
// leading fields, the record
func (p vtC08PodRec) emit(in []int64, code int64, lead ...int64) []int64 {
	if p.ext != nil {
		code += 10
	}
	in = append(append(in, code), lead...)
	in = append(in, p.f[:]...)
	if p.ext != nil {
		in = append(in, p.ext.encode()...)
	}
	return in
}

// the priority class the code will derive for the pod (used to keep reports mostly consistent)
func (p vtC08PodRec) prod() bool {
	prio, e := p.f[3], p.ext
	if e != nil && e.label != 0 {
		return e.label == 1
	}
	if e == nil || e.prioNil == 0 {
		switch {
		case prio >= 9000 && prio <= 9999:
			return true
		case prio >= 3000 && prio <= 3999, prio >= 5000 && prio <= 5999, prio >= 7000 && prio <= 7999:
			return false
		}
	}
	if e != nil && e.qos >= 1 && e.qos <= 5 {
		return e.qos != 4
	}
	if e != nil && e.kqos != 0 {
		return e.kqos == 1 || e.kqos == 2
	}
	return p.f[7]+p.f[8]+p.f[9]+p.f[10] > 0
}

func (g *vtC08G) ctr() [4]int64 {
	switch g.r.Intn(4) {
	case 0:
		return [4]int64{g.cpu(), g.mem(), 0, 0}
	case 1:
		return [4]int64{g.cpu(), 0, g.cpu(), 0}
	case 2:
		return [4]int64{0, 0, 0, 0}
	}
	return [4]int64{g.cpu(), g.mem(), g.cpu(), g.mem()}
}

// the extended part: priority / QoS defaulting inputs, phases, owners, more containers, init
// containers (some restartable), overhead, a resource family that need not match the class
func (g *vtC08G) newExt() *vtC08Ext {
	e := &vtC08Ext{}
	e.prioNil = vtB(g.r.Intn(4) == 0)
	e.label = g.pick(0, 0, 0, 0, 1, 2, 3, 4, 7)
	e.qos = g.pick(0, 0, 0, 1, 2, 3, 4, 4, 5, 9)
	e.kqos = g.pick(0, 0, 0, 1, 2, 3, 3, 8)
	e.phase = g.pick(0, 0, 0, 0, 0, 0, 2, 3, 3, 4)
	e.owner = g.pick(0, 0, 0, 0, 2, 3, 4)
	e.fam = g.pick(0, 0, 0, 1, 1, 2, 3)
	for g.r.Intn(2) == 0 && len(e.ctrs) < 3 {
		e.ctrs = append(e.ctrs, g.ctr())
	}
	for g.r.Intn(3) == 0 && len(e.inits) < 3 {
		c := g.ctr()
		e.inits = append(e.inits, [5]int64{vtB(g.r.Intn(3) == 0), c[0], c[1], c[2], c[3]})
	}
	if g.r.Intn(4) == 0 {
		e.ohF, e.ohC, e.ohM = 1, g.pick(0, 10, 100, g.cpu()), g.pick(0, 1<<20, g.mem())
	}
	return e
}



func (g *vtC08G) newPod(uid int64) vtC08PodRec {
	var pr vtC08PodRec
	p := &pr.f
	p[0] = uid
	p[1] = uid
	if g.r.Intn(5) == 0 {
		p[1] = 1 + int64(g.r.Intn(4)) // pods of different uid sharing a namespace/name
	}
	p[3] = g.pick(9000, 9500, 9999, 9000, 7000, 7999, 5000, 5999, 3000, 3999)
	p[11], p[12], p[13], p[14] = -1, -1, -1, -1
	if g.r.Intn(20) == 0 {
		p[5] = 1 // a reservation's reserve pod: never cached
	}
	g.mutateSpec(&pr)
	g.mutateSpec(&pr)
	if g.r.Intn(4) == 0 {
		p[11], p[12] = g.factor(), g.factor()
	}
	if g.r.Intn(4) == 0 {
		p[13] = g.pick(-1, 0, 1, 30, 60, 300, -7)
		p[14] = g.pick(-1, 0, 1, 30, 60, 300, -7)
	}
	p[16], p[18] = vtC08ZeroTime, vtC08ZeroTime
	g.mutateCond(&pr)
	if g.rich && g.r.Intn(2) == 0 {
		pr.ext = g.newExt()
		if g.r.Intn(3) == 0 {
			p[3] = g.pick(0, 0, 100, 2999, 4000, 6000, 8999, 10000, -1, 2000000000)
		}
		if g.r.Intn(3) == 0 {
			p[1] = 100*int64(1+g.r.Intn(2)) + p[1] // the same name in another namespace
		}
	}
	return pr
}

func (g *vtC08G) mutateSpec(pr *vtC08PodRec) {
	p := &pr.f
	if pr.ext != nil && g.r.Intn(2) == 0 {
		// change the other containers / init containers / overhead / priority presence
		e := *pr.ext
		switch g.r.Intn(5) {
		case 0:
			e.ctrs = append(append([][4]int64{}, e.ctrs...), g.ctr())
			if len(e.ctrs) > 3 {
				e.ctrs = e.ctrs[2:]
			}
		case 1:
			c := g.ctr()
			e.inits = append(append([][5]int64{}, e.inits...), [5]int64{vtB(g.r.Intn(3) == 0), c[0], c[1], c[2], c[3]})
			if len(e.inits) > 3 {
				e.inits = e.inits[2:]
			}
		case 2:
			e.ohF, e.ohC, e.ohM = 1-e.ohF, g.pick(0, 10, 100, g.cpu()), g.pick(0, 1<<20, g.mem())
		case 3:
			e.prioNil = 1 - e.prioNil
		default:
			e.fam = g.pick(0, 1, 2, 3)
		}
		pr.ext = &e
		return
	}
	switch g.r.Intn(4) {
	case 0:
		p[7], p[9] = g.cpu(), g.pick(0, 0, g.cpu())
	case 1:
		p[8], p[10] = g.mem(), g.pick(0, 0, g.mem())
	case 2:
		p[7], p[8] = g.cpu(), g.mem()
	default:
		p[7], p[8], p[9], p[10] = g.cpu(), g.mem(), g.cpu(), g.mem()
	}
}

func (g *vtC08G) mutateCond(pr *vtC08PodRec) {
	p := &pr.f
	if g.r.Intn(2) == 0 {
		p[15], p[16] = g.pick(0, 1, 2, 2, 2), g.instant()
	}
	if g.r.Intn(2) == 0 {
		p[17], p[18] = g.pick(0, 1, 2, 2), g.instant()
	}
}

func vtC08Gen(r *rand.Rand, i int) (string, []int64) {
	g := &vtC08G{r: r}
	style := []string{"cache", "cache", "mixed", "mixed", "filter", "degenerate"}[r.Intn(6)]
	g.large = r.Intn(3) == 0
	g.rich = r.Intn(5) < 3
	// expiry configuration and the region update times are drawn from (see metric_expired:
	// the wall clock is real, so update times keep clear of the expiry boundary)
	expMode := r.Intn(5)
	expF, expV := int64(1), int64(0)
	utLo, utHi := int64(-1000), int64(1000)
	switch expMode {
	case 0:
		expF = 0
	case 1:
		expV = 0
	case 2:
		expV = -5
	case 3:
		expV = 100
	default:
		expV = 1000000
	}
	newUT := func() int64 {
		if expMode == 3 {
			if r.Intn(2) == 0 {
				return -100 - int64(r.Intn(400))
			}
			return 4000 + int64(r.Intn(1000))
		}
		return utLo + r.Int63n(utHi-utLo+1)
	}
	g.ut = newUT()
	g.iv = g.pick(60, 60, 30, 0, 120, 1)
	in := []int64{g.thr(), g.thr(), g.thr(), g.thr()}
	if style == "filter" {
		in[0] = g.pick(50, 57, 65, 80)
	}
	aggOn := vtB(r.Intn(3) == 0)
	in = append(in, aggOn, g.thr(), g.thr(), g.pick(0, 1, 1, 2, 2), g.pick(0, 0, 300, 600))
	in = append(in, g.pick(0, 1, 2, 2, 2), expF, expV, g.pick(0, 1, 1, 2))
	in = append(in, vtB(r.Intn(2) == 0), vtB(r.Intn(2) == 0))
	in = append(in, vtB(r.Intn(2) == 0), g.pick(0, 1, 30, 60, 300, -3), vtB(r.Intn(2) == 0), g.pick(0, 1, 30, 60, 300, -3))
	if style == "degenerate" && r.Intn(3) == 0 {
		in = append(in, -1, -1)
	} else {
		in = append(in, g.pick(85, 100, g.factor()), g.pick(70, 100, g.factor()))
	}
	nops := 3 + r.Intn(14)
	scoring := r.Intn(2) == 0
	if scoring { // header extension: what Score reads
		in = append(in, -1, g.pick(-1, 0, 1, 1, 2, 5, 100), g.pick(-1, 0, 1, 1, 3, 100), g.pick(0, 0, 1, 5, 100),
			vtB(r.Intn(2) == 0), g.pick(0, 0, 1, 2), g.pick(0, 300, 600))
	}
	cfgIn := in
	in = []int64{}
	count := int64(0)

	nuid := int64(2 + r.Intn(4))
	nnode := int64(1 + r.Intn(3))
	pods := map[int64]*vtC08PodRec{}
	getPod := func(uid int64) *vtC08PodRec {
		if p, ok := pods[uid]; ok {
			return p
		}
		p := g.newPod(uid)
		pods[uid] = &p
		return &p
	}
	loc := map[int64]int64{} // where the generator believes a uid is assigned
	anyNode := func() int64 { return 1 + r.Int63n(nnode) }
	nowv := g.ut - g.iv - 5
	emitMetric := func(node int64) {
		if r.Intn(3) != 0 {
			g.ut = newUT()
		}
		utF := vtB(r.Intn(12) != 0)
		if r.Intn(3) == 0 {
			g.iv = g.pick(60, 30, 0, 120, 1, -1)
		}
		ivF := vtB(r.Intn(3) != 0)
		infoF := vtB(r.Intn(10) != 0)
		count++
		in = append(in, 6, nowv, node, g.pick(0, 0, 0, 0, 0, 1, 1, 1, 1, 1, 2, 3), utF, g.ut, ivF, g.iv, infoF, g.cpu(), g.mem(), g.cpu(), g.mem())
		if !(ivF != 0) {
			g.iv = 60
		}
		nagg := r.Intn(3)
		if style == "degenerate" {
			nagg = r.Intn(2)
		}
		in = append(in, int64(nagg))
		for a := 0; a < nagg; a++ {
			nt := 1 + r.Intn(2)
			in = append(in, g.pick(0, 300, 300, 600, 600, 900), int64(nt))
			for k := 0; k < nt; k++ {
				in = append(in, g.pick(1, 1, 2, 3), vtB(r.Intn(5) != 0), g.cpu(), g.mem())
			}
		}
		// pod metrics: mostly for the pods believed to be on this node, plus strays
		keys := []int64{}
		for uid := int64(1); uid <= nuid; uid++ {
			if n, ok := loc[uid]; ok && n == node && r.Intn(4) != 0 {
				keys = append(keys, getPod(uid).f[1])
			}
		}
		for r.Intn(3) == 0 {
			keys = append(keys, 1+r.Int63n(5)+100*g.pick(0, 0, 0, 1, 2))
		}
		in = append(in, int64(len(keys)))
		for _, k := range keys {
			prod := int64(0)
			// usually consistent with the pod's priority
			for uid := int64(1); uid <= nuid; uid++ {
				if p, ok := pods[uid]; ok && p.f[1] == k && p.prod() {
					prod = 1
				}
			}
			if r.Intn(6) == 0 {
				prod = 1 - prod
			}
			in = append(in, k, g.pick(1, 1, 1, 1, 1, 1, 1, 1, 1, 0, 0, 2, 3), g.cpu(), g.mem(), prod)
		}
	}
	for k := 0; k < nops; k++ {
		nowv += int64(r.Intn(4))
		if r.Intn(6) == 0 {
			nowv = g.instant()
			if nowv == vtC08ZeroTime {
				nowv = g.ut
			}
		}
		kind := r.Intn(100)
		if style == "filter" && k >= 3 && kind < 70 {
			kind = 95
		}
		if style == "cache" && kind >= 88 {
			kind = r.Intn(88)
		}
		uid := 1 + r.Int63n(nuid)
		p := getPod(uid)
		switch {
		case kind < 12: // reserve
			node := anyNode()
			q := *p
			q.f[2] = 0
			count++
			in = q.emit(in, 1, nowv, node)
			loc[uid] = node
		case kind < 20: // unreserve
			node := loc[uid]
			if node == 0 || r.Intn(6) == 0 {
				node = anyNode()
			}
			q := *p
			q.f[2] = 0
			count++
			in = q.emit(in, 2, nowv, node)
			if loc[uid] == node {
				delete(loc, uid)
			}
		case kind < 32: // informer add
			if p.f[2] == 0 || r.Intn(4) == 0 {
				p.f[2] = anyNode()
			}
			count++
			in = p.emit(in, 3, nowv)
			loc[uid] = p.f[2]
		case kind < 56: // informer update
			old := p.f[2]
			switch r.Intn(9) {
			case 0: // bound (possibly elsewhere than reserved)
				if n, ok := loc[uid]; ok && r.Intn(4) != 0 {
					p.f[2] = n
				} else {
					p.f[2] = anyNode()
				}
			case 1:
				g.mutateSpec(p)
			case 2:
				p.f[3] = g.pick(9000, 9999, 7000, 5000, 5999, 3000)
				if p.ext != nil {
					p.f[3] = g.pick(9000, 9999, 7000, 5000, 3000, 0, 8999, 10000, 4000)
				}
			case 3, 4:
				g.mutateCond(p)
			case 5:
				p.f[4] = 1 - p.f[4] // terminated / running
				if p.ext != nil {
					e := *p.ext
					e.phase = g.pick(0, 0, 2, 3, 4)
					p.ext = &e
				}
			case 6:
				p.f[2] = g.pick(0, anyNode(), anyNode())
			case 7: // labels / status only: not re-read by OnUpdate
				if p.ext != nil {
					e := *p.ext
					e.label, e.qos, e.kqos = g.pick(0, 1, 3, e.label), g.pick(0, 3, 4, e.qos), g.pick(0, 2, 3, e.kqos)
					p.ext = &e
				}
			default: // metadata only
				p.f[13] = g.pick(-1, 30, 300)
			}
			if p.f[2] == 0 && r.Intn(2) == 0 {
				p.f[2] = anyNode()
			}
			if r.Intn(8) == 0 {
				old = g.pick(0, -1, anyNode())
			}
			count++
			in = p.emit(in, 4, nowv, old)
			if phase := p.f[4] != 0 || (p.ext != nil && p.ext.phase == 2); !phase && p.f[2] != 0 {
				loc[uid] = p.f[2]
			} else {
				delete(loc, uid)
			}
		case kind < 66: // informer delete
			count++
			in = p.emit(in, 5, nowv)
			wrap := g.pick(0, 0, 0, 0, 0, 0, 1, 1, 2, 3)
			in = append(in, wrap)
			if wrap >= 2 {
				break // nothing was deleted
			}
			delete(loc, uid)
			if r.Intn(2) == 0 {
				delete(pods, uid) // a later pod with this uid number is a new object
			}
		case kind < 84: // metric report
			emitMetric(anyNode())
		case kind < 88: // metric deleted
			count++
			in = append(in, 7, nowv, anyNode(), g.pick(0, 0, 0, 0, 0, 1, 1, 2, 3))
		default: // filter
			var nd [17]int64
			nd[0] = anyNode()
			if g.large {
				nd[1], nd[2] = g.pick(0, 4000, 8000, 32000, 1000), g.pick(0, 1<<33, 1<<34, 1<<35, int64(1)<<34+int64(r.Intn(1000)))
			} else {
				nd[1], nd[2] = g.pick(0, 100, 200, 200, 400, 1000, int64(1+r.Intn(300))), g.pick(0, 100, 200, 200, 400, 1000, int64(1+r.Intn(300)))
			}
			nd[4], nd[5] = -1, -1
			if r.Intn(4) == 0 {
				nd[3] = 1
				nd[4], nd[5] = g.pick(-1, nd[1]/2, nd[1], 200), g.pick(-1, nd[2]/2, nd[2], 200)
			}
			for k := 7; k <= 13; k++ {
				nd[k] = -1
			}
			if r.Intn(4) == 0 {
				nd[6] = 1
				nd[7], nd[8], nd[9], nd[10] = g.thr(), g.thr(), g.thr(), g.thr()
				if r.Intn(2) == 0 {
					nd[11] = 1
					nd[12], nd[13], nd[14] = g.thr(), g.thr(), g.pick(0, 1, 2)
					nd[15], nd[16] = vtB(r.Intn(2) == 0), g.pick(0, 300, 600)
				}
			}
			if r.Intn(12) == 0 { // a pod event about something that is not a pod
				count++
				in = append(in, 9, nowv, int64(r.Intn(4)))
			}
			q := g.newPod(9)
			q.f[2] = 0
			q.f[6] = vtB(r.Intn(10) == 0)
			// a burst of decisions for consecutive incoming requests, so that the total crosses
			// the threshold (and its exact ties) somewhere inside the burst
			burst := 1
			if r.Intn(2) == 0 {
				burst = 2 + r.Intn(3)
			}
			step := g.pick(1, 1, 2, 5)
			if g.large {
				step = g.pick(10, 40, 100)
			}
			// one scheduling cycle over several nodes (PreFilter once, the same CycleState for
			// every node), or separate cycles for a growing request
			sameCycle := r.Intn(3) == 0
			for b := 0; b < burst; b++ {
				count++
				pre := vtB(r.Intn(2) == 0)
				if sameCycle && b > 0 {
					pre = 2
					nd[0] = anyNode()
				}
				in = q.emit(in, 8, append([]int64{nowv, pre}, nd[:]...)...)
				if !sameCycle {
					q.f[7] += step
				}
			}
			// Score, as the scheduler calls it after the Filters of the cycle (same CycleState),
			// or on its own
			if scoring && r.Intn(2) == 0 {
				for b := 1 + r.Intn(3); b > 0; b-- {
					count++
					pre := vtB(r.Intn(2) == 0)
					if sameCycle {
						pre = 2
					}
					nd[0] = anyNode()
					in = q.emit(in, 10, append([]int64{nowv, pre}, nd[:]...)...)
				}
			}
		}
	}
	in = append(append(cfgIn, count), in...)
	label := style
	if g.large {
		label += "-large"
	}
	if g.rich {
		label += "-rich"
	}
	if scoring {
		label += "-score"
	}
	return label, in
}

func TestVerifC08(t *testing.T) { vtMain(t, "C08", vtC08Gen, vtC08Exec) }

// ---------------------------------------------------------------------------- stream "float"
// A direct boundary grid for the two float64 computations the model emulates in integers:
//   0 e t thr                            -> status of Plugin.filterNodeUsage on one dimension
//   1 prio reqC limC facC reqM limM facM -> DefaultEstimator.EstimatePod

func vtC08FloatExec(in []int64) []int64 {
	switch in[0] {
	case 0:
		pl := &Plugin{vectorizer: NewResourceVectorizer(corev1.ResourceCPU, corev1.ResourceMemory)}
		pod := &corev1.Pod{ObjectMeta: metav1.ObjectMeta{Namespace: "default", Name: "p"}}
		s := pl.filterNodeUsage("n01", pod, ResourceVector{in[3], 0}, ResourceVector{in[1], 0}, ResourceVector{in[2], 0}, false)
		return []int64{vtC08Status(s)}
	default:
		args := &config.LoadAwareSchedulingArgs{EstimatedScalingFactors: vtC08Map(in[4], in[7])}
		est, _ := estimator.NewEstimator(args, nil)
		var f [19]int64
		f[0], f[1], f[3] = 1, 1, in[1]
		f[7], f[9], f[8], f[10] = in[2], in[3], in[5], in[6]
		f[11], f[12], f[13], f[14] = -1, -1, -1, -1
		f[16], f[18] = vtC08ZeroTime, vtC08ZeroTime
		list, err := est.EstimatePod(vtC08Pod(f[:], nil, time.Unix(0, 0)))
		if err != nil {
			return []int64{-1, -1}
		}
		vec := NewResourceVectorizer(corev1.ResourceCPU, corev1.ResourceMemory).ToFactorVec(list)
		return []int64{vec[0], vec[1]}
	}
}

func vtC08FloatGen(r *rand.Rand, i int) (string, []int64) {
	big := func() int64 {
		switch r.Intn(6) {
		case 0:
			return int64(r.Intn(300))
		case 1:
			return int64(1)<<uint(r.Intn(61)) + int64(r.Intn(5)) - 2
		case 2:
			return r.Int63n(1 << 40)
		case 3:
			return r.Int63n(1 << 61)
		case 4:
			return 1000 * int64(1+r.Intn(128))
		}
		return int64(1+r.Intn(64)) << 30
	}
	if r.Intn(3) != 0 {
		t := big()
		if t < 0 {
			t = 0
		}
		var e int64
		thr := int64(r.Intn(130))
		switch r.Intn(4) {
		case 0: // exact tie (2*thr+1)*t = 200*e when t is a multiple of 200
			t = 200 * (1 + t%(1<<50))
			e = (2*thr + 1) * (t / 200)
			e += int64(r.Intn(3)) - 1
		case 1: // around thr % of t
			e = t/100*thr + int64(r.Intn(7)) - 3
		case 2:
			e = t/200*(2*thr+1) + int64(r.Intn(5)) - 2
		default:
			e = big()
		}
		if e < 0 {
			e = 0
		}
		// keep the percentage itself inside int64 (the float64 -> int64 conversion of a larger
		// value is platform-defined; it needs a usage above 2^55 times the allocatable)
		for t > 0 && e/t >= 1<<55 {
			e >>= 8
		}
		return "pct", []int64{0, e, t, thr}
	}
	q := func() int64 {
		switch r.Intn(5) {
		case 0:
			return 0
		case 1:
			return int64(r.Intn(400))
		case 2:
			return 50 * int64(r.Intn(100)) // x.5 ties for odd multiples with factor 1 mod 2
		case 3:
			return r.Int63n(1 << 40)
		}
		return r.Int63n(1 << 48)
	}
	f := func() int64 { return []int64{-1, 0, 1, 50, 70, 85, 99, 100, 101, 130, int64(r.Intn(1000))}[r.Intn(11)] }
	prio := []int64{9000, 9999, 7000, 7999, 5000, 5999, 3000, 3999}[r.Intn(8)]
	return "est", []int64{1, prio, q(), q(), f(), q(), q(), f()}
}

func TestVerifC08Float(t *testing.T) { vtMain(t, "C08", vtC08FloatGen, vtC08FloatExec) }

// ---------------------------------------------------------------------------- stream "sched"
// Schedules of LOCK SECTIONS: every action is one call of a real function of the cache
// (getOrCreateNodeInfo / getNodeInfo / nodeInfo.AddOrUpdatePod / AddOrUpdateNodeMetric /
// DeletePod / DeleteNodeMetric, Plugin.Filter), issued on behalf of a logical thread that keeps
// the nodeInfo it loaded between its two sections — the way the goroutines of the scheduler
// interleave, replayed deterministically on one goroutine.  An action that would have to wait
// for a lock held by another thread's unfinished creation is not enabled and is skipped.
// Wire format: see coq/C08/Codec_Sched.v.

type vtC08Thread struct {
	n       *nodeInfo
	created bool
	name    string
	has     bool
	ok      bool
	again   bool // the nodeInfo in hand was loaded by the retry
}

// runs the schedule; dropped reports whether an add-or-update was given up after its retry
func vtC08SchedRun(in []int64) (obs []int64, dropped bool) {
	r := &vtC08Reader{in: in}
	e := vtC08NewEnv(r)
	c := e.pl.podAssignCache
	ctx := context.Background()
	nacts := int(r.next())
	threads := map[int64]*vtC08Thread{}
	th := func(t int64) *vtC08Thread {
		if x, ok := threads[t]; ok {
			return x
		}
		x := &vtC08Thread{}
		threads[t] = x
		return x
	}
	locked := map[*nodeInfo]int64{} // write locks held by creators that have not updated yet
	canWrite := func(t int64, x *vtC08Thread) bool {
		owner, held := locked[x.n]
		if x.created {
			return held && owner == t
		}
		return !held
	}
	// the podAssignInfo the real assign computes for the pod at the current clock
	infoOf := func(pod *corev1.Pod) *podAssignInfo {
		scratch := newPodAssignCache(e.pl.estimator, e.pl.vectorizer, e.args)
		scratch.clock = e.clk
		scratch.assign("scratch", pod)
		sn, ok := scratch.getNodeInfo("scratch")
		if !ok || sn == nil {
			return nil
		}
		return sn.podInfos[pod.UID]
	}
	for k := 0; k < nacts; k++ {
		code, t := r.next(), r.next()
		ext := code > 10
		if ext {
			code -= 10
		}
		x := th(t)
		res := int64(0)
		switch code {
		case 1:
			node, again := r.next(), r.next()
			if t == 0 || (again != 0 && x.ok) {
				break
			}
			name := vtC08NodeName(node)
			n, created := c.getOrCreateNodeInfo(name)
			*x = vtC08Thread{n: n, created: created, name: name, has: true, ok: false, again: again != 0}
			if created {
				locked[n] = t
			}
		case 2:
			name := vtC08NodeName(r.next())
			n, ok := c.getNodeInfo(name)
			*x = vtC08Thread{n: n, name: name, has: ok && n != nil, ok: x.ok}
		case 3:
			now := r.next()
			e.clk.SetTime(e.base.Add(time.Duration(now) * time.Second))
			pod := vtC08ReadPod(r, ext, e.base)
			info := infoOf(pod)
			if info == nil || !x.has || !canWrite(t, x) {
				break
			}
			ok := x.n.AddOrUpdatePod(info, x.created)
			if x.created {
				delete(locked, x.n)
			}
			dropped = dropped || (!ok && x.again)
			*x = vtC08Thread{ok: ok}
		case 4:
			nm := vtC08Metric(r, r.next(), e.base)
			if !x.has || !canWrite(t, x) {
				break
			}
			nm.Name = x.name
			ok := x.n.AddOrUpdateNodeMetric(nm, c, x.created)
			if x.created {
				delete(locked, x.n)
			}
			dropped = dropped || (!ok && x.again)
			*x = vtC08Thread{ok: ok}
		case 5:
			uid := r.next()
			if !x.has {
				break
			}
			if _, held := locked[x.n]; held {
				break
			}
			x.n.DeletePod(x.name, types.UID(fmt.Sprintf("u%02d", uid)), c)
			*x = vtC08Thread{ok: x.ok}
		case 6:
			if !x.has {
				break
			}
			if _, held := locked[x.n]; held {
				break
			}
			x.n.DeleteNodeMetric(x.name, c)
			*x = vtC08Thread{ok: x.ok}
		case 7:
			// t's DeletePod and t1's AddOrUpdatePod queue for the same nodeInfo lock, both
			// having passed the unlocked deleted pre-check: the delete gets the lock first
			uid, t1, now := r.next(), r.next(), r.next()
			e.clk.SetTime(e.base.Add(time.Duration(now) * time.Second))
			pod := vtC08ReadPod(r, ext, e.base)
			info := infoOf(pod)
			y := th(t1)
			podUID := types.UID(fmt.Sprintf("u%02d", uid))
			_, xHeld := locked[x.n]
			race := x.has && y.has && t != t1 && x.n == y.n && !y.created && !xHeld && info != nil && !x.n.deleted
			if race {
				n := x.n
				n.RLock() // a reader holds the lock while the two writers queue up
				doneA := make(chan struct{})
				go func() { n.DeletePod(x.name, podUID, c); close(doneA) }()
				for spin := 0; spin < 200000; spin++ { // until the deleter is the pending writer
					if !n.TryRLock() {
						break
					}
					n.RUnlock()
					runtime.Gosched()
				}
				var started atomic.Bool
				resB := make(chan bool, 1)
				go func() { started.Store(true); resB <- n.AddOrUpdatePod(info, false) }()
				for !started.Load() {
					runtime.Gosched()
				}
				time.Sleep(3 * time.Millisecond) // let it pass the pre-check and queue behind the deleter
				n.RUnlock()
				<-doneA
				ok := <-resB
				*x = vtC08Thread{ok: x.ok}
				dropped = dropped || (!ok && y.again)
				*y = vtC08Thread{ok: ok}
				break
			}
			// otherwise one after the other
			if x.has && !xHeld {
				x.n.DeletePod(x.name, podUID, c)
				*x = vtC08Thread{ok: x.ok}
			}
			if info == nil || !y.has || !canWrite(t1, y) {
				break
			}
			ok := y.n.AddOrUpdatePod(info, y.created)
			if y.created {
				delete(locked, y.n)
			}
			dropped = dropped || (!ok && y.again)
			*y = vtC08Thread{ok: ok}
		default:
			node := vtC08Node(r.take(17))
			pod := vtC08ReadPod(r, ext, e.base)
			if n, ok := c.getNodeInfo(node.Name); ok && n != nil {
				if _, held := locked[n]; held { // the reader would wait for the creator
					res = -1
					break
				}
			}
			ni := framework.NewNodeInfo()
			ni.SetNode(node)
			res = vtC08Status(e.pl.Filter(ctx, framework.NewCycleState(), pod, ni))
		}
		obs = append(obs, res)
		for node := int64(1); node <= 3; node++ {
			name := vtC08NodeName(node)
			n, ok := c.getNodeInfo(name)
			if !ok || n == nil {
				obs = append(obs, 0)
				continue
			}
			_, held := locked[n]
			uids := make([]string, 0, len(n.podInfos))
			for uid := range n.podInfos {
				uids = append(uids, string(uid))
			}
			sort.Strings(uids)
			obs = append(obs, 1, vtB(n.deleted), vtB(held), vtB(n.nodeMetric != nil), int64(len(uids)))
			for _, u := range uids {
				v, _ := strconv.ParseInt(u[1:], 10, 64)
				obs = append(obs, v)
			}
			if n.nodeMetric == nil {
				continue
			}
			obs = append(obs, vtC08Sums(n)...)
			fresh, fclk, _, _ := vtC08NewCache(e.args, e.base)
			metricFirst := len(uids)%2 == 1
			if metricFirst {
				fresh.NodeMetricHandler().OnAdd(n.nodeMetric, false)
			}
			for _, u := range uids {
				info := n.podInfos[types.UID(u)]
				fclk.SetTime(info.timestamp)
				fresh.assign(name, info.pod)
			}
			if !metricFirst {
				fresh.NodeMetricHandler().OnAdd(n.nodeMetric, false)
			}
			fn, _ := fresh.getNodeInfo(name)
			obs = append(obs, vtC08Sums(fn)...)
		}
		for t := int64(1); t <= 3; t++ {
			x := th(t)
			obs = append(obs, vtB(x.has), vtB(x.has && x.created), vtB(x.ok))
		}
	}
	return obs, dropped
}

func vtC08SchedExec(in []int64) []int64 {
	obs, _ := vtC08SchedRun(in)
	return obs
}

func vtC08SchedGen(r *rand.Rand, i int) (string, []int64) {
	for {
		label, in := vtC08SchedGen1(r)
		// schedules on which the code gives an event up (both tries of an add-or-update meet a
		// deleted nodeInfo) are the documented bounded-retry finding; they are not generated
		dropped := false
		func() {
			defer func() { recover() }()
			_, dropped = vtC08SchedRun(in)
		}()
		if !dropped {
			return label, in
		}
	}
}

func vtC08SchedGen1(r *rand.Rand) (string, []int64) {
	g := &vtC08G{r: r, rich: r.Intn(3) == 0}
	g.large = r.Intn(4) == 0
	g.ut = int64(r.Intn(600)) - 300
	g.iv = g.pick(60, 60, 30, 0, 120)
	// configuration: thresholds on, no expiry filtering (the wall clock plays no role here)
	in := []int64{g.pick(50, 65, 80, -1), g.thr(), g.thr(), g.thr()}
	in = append(in, 0, -1, -1, 0, 0)
	in = append(in, 0, 0, 0, 0)
	in = append(in, vtB(r.Intn(2) == 0), vtB(r.Intn(2) == 0))
	in = append(in, vtB(r.Intn(2) == 0), g.pick(0, 30, 60, 300), vtB(r.Intn(2) == 0), g.pick(0, 30, 60, 300))
	in = append(in, g.pick(85, 100, g.factor()), g.pick(70, 100, g.factor()))
	cfgIn := in

	nnode := int64(1 + r.Intn(2))
	nuid := int64(2 + r.Intn(3))
	pods := map[int64]*vtC08PodRec{}
	getPod := func(uid int64) *vtC08PodRec {
		if p, ok := pods[uid]; ok {
			return p
		}
		p := g.newPod(uid)
		p.f[5] = 0
		pods[uid] = &p
		return &p
	}
	nowv := g.ut - g.iv - 3
	metricRec := func(node int64) []int64 {
		out := []int64{node, 1, g.ut + int64(r.Intn(5)) - 2, vtB(r.Intn(3) != 0), g.iv, vtB(r.Intn(8) != 0), g.cpu(), g.mem(), g.cpu(), g.mem(), 0}
		keys := []int64{}
		for uid := int64(1); uid <= nuid; uid++ {
			if r.Intn(2) == 0 {
				keys = append(keys, getPod(uid).f[1])
			}
		}
		out = append(out, int64(len(keys)))
		for _, k := range keys {
			prod := int64(0)
			for uid := int64(1); uid <= nuid; uid++ {
				if p, ok := pods[uid]; ok && p.f[1] == k && p.prod() {
					prod = 1
				}
			}
			out = append(out, k, g.pick(1, 1, 1, 1, 0), g.cpu(), g.mem(), prod)
		}
		return out
	}
	// the programs of the threads: each an event as the code decomposes it into lock sections
	type action []int64
	nthreads := 2 + r.Intn(2)
	progs := make([][]action, nthreads)
	for ti := 0; ti < nthreads; ti++ {
		t := int64(ti + 1)
		nev := 1 + r.Intn(4)
		for ev := 0; ev < nev; ev++ {
			node := 1 + r.Int63n(nnode)
			uid := 1 + r.Int63n(nuid)
			nowv += int64(r.Intn(3))
			switch kind := r.Intn(10); {
			case kind < 3: // assign
				p := *getPod(uid)
				if r.Intn(6) == 0 {
					g.mutateSpec(&p)
					*getPod(uid) = p
				}
				add := action(p.emit(nil, 3, t, nowv))
				progs[ti] = append(progs[ti], action{1, t, node, 0}, add, action{1, t, node, 1}, add)
			case kind < 6: // unassign
				progs[ti] = append(progs[ti], action{2, t, node}, action{5, t, uid})
			case kind < 8: // metric report
				add := action(append([]int64{4, t}, metricRec(node)...))
				progs[ti] = append(progs[ti], action{1, t, node, 0}, add, action{1, t, node, 1}, add)
			case kind < 9: // metric deleted
				progs[ti] = append(progs[ti], action{2, t, node}, action{6, t})
			default: // filter
				var nd [17]int64
				nd[0] = node
				nd[1], nd[2] = g.pick(100, 200, 400, 1000), g.pick(100, 200, 400, 1000)
				if g.large {
					nd[1], nd[2] = g.pick(4000, 8000, 32000), g.pick(1<<33, 1<<34, 1<<35)
				}
				nd[4], nd[5] = -1, -1
				for k := 7; k <= 13; k++ {
					nd[k] = -1
				}
				q := g.newPod(9)
				q.f[2] = 0
				progs[ti] = append(progs[ti], action(q.emit(nil, 8, append([]int64{t}, nd[:]...)...)))
			}
		}
	}
	// interleave: mostly a few actions of one thread at a time, so that both "between the two
	// sections" and "uninterrupted" occur
	style := []string{"fine", "coarse", "serial"}[r.Intn(3)]
	acts := []action{}
	idx := make([]int, nthreads)
	for {
		live := []int{}
		for ti := range progs {
			if idx[ti] < len(progs[ti]) {
				live = append(live, ti)
			}
		}
		if len(live) == 0 {
			break
		}
		ti := live[r.Intn(len(live))]
		burst := 1
		switch style {
		case "coarse":
			burst = 1 + r.Intn(4)
		case "serial":
			burst = len(progs[ti])
		}
		for b := 0; b < burst && idx[ti] < len(progs[ti]); b++ {
			acts = append(acts, progs[ti][idx[ti]])
			idx[ti]++
		}
	}
	// sometimes actions that belong to no well-formed program
	if r.Intn(6) == 0 {
		for k := 0; k < 3; k++ {
			t := int64(1 + r.Intn(3))
			acts = append(acts, []action{{5, t, 1 + r.Int63n(nuid)}, {6, t}, {2, t, 1 + r.Int63n(nnode)}, {1, t, 1 + r.Int63n(nnode), int64(r.Intn(2))}}[r.Intn(4)])
		}
		style += "-soup"
	}
	// sometimes first: the last pod of a node is removed while an assignment to the same node has
	// already loaded the nodeInfo and passed the unlocked deleted pre-check (both queue for the lock)
	if r.Intn(3) == 0 {
		node := 1 + r.Int63n(nnode)
		ua, ub := int64(1), int64(2)
		pa, pb := *getPod(ua), *getPod(ub)
		pre := []action{{1, 1, node, 0}, action(pa.emit(nil, 3, 1, nowv)), {2, 2, node}, {1, 3, node, 0},
			action(pb.emit(nil, 7, 2, ua, 3, nowv)), {1, 3, node, 1}, action(pb.emit(nil, 3, 3, nowv))}
		acts = append(pre, acts...)
		style += "-race"
	}
	in = append(cfgIn, int64(len(acts)))
	for _, a := range acts {
		in = append(in, a...)
	}
	if g.rich {
		style += "-rich"
	}
	return style, in
}

func TestVerifC08Sched(t *testing.T) { vtMain(t, "C08", vtC08SchedGen, vtC08SchedExec) }
