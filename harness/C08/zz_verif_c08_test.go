//go:build verif

package loadaware

// C08 correspondence harness: drives Plugin.Reserve/Unreserve/Filter(/PreFilter), the pod
// informer handlers podAssignCache.OnAdd/OnUpdate/OnDelete and the NodeMetric informer handler
// with an encoded history, and after every operation logs, for every node of the universe,
// the pod table, the cached sums, the sums of a FRESH podAssignCache fed the node's current
// metric and pods, and GetNodeMetricAndEstimatedOfExisting for eight variants.
// Wire format: see coq/C08/Extract.v.

import (
	"context"
	"encoding/json"
	"fmt"
	"math/rand"
	"sort"
	"strconv"
	"testing"
	"time"

	corev1 "k8s.io/api/core/v1"
	"k8s.io/apimachinery/pkg/api/resource"
	metav1 "k8s.io/apimachinery/pkg/apis/meta/v1"
	"k8s.io/apimachinery/pkg/types"
	"k8s.io/client-go/tools/cache"
	fwktype "k8s.io/kube-scheduler/framework"
	"k8s.io/kubernetes/pkg/scheduler/framework"
	clocktesting "k8s.io/utils/clock/testing"

	"github.com/koordinator-sh/koordinator/apis/extension"
	slov1alpha1 "github.com/koordinator-sh/koordinator/apis/slo/v1alpha1"
	"github.com/koordinator-sh/koordinator/pkg/scheduler/apis/config"
	"github.com/koordinator-sh/koordinator/pkg/scheduler/plugins/loadaware/estimator"
	reservationutil "github.com/koordinator-sh/koordinator/pkg/util/reservation"
)

const vtC08ZeroTime = int64(-999999999)

type vtC08Reader struct {
	in []int64
	i  int
}

func (r *vtC08Reader) next() int64 {
	if r.i >= len(r.in) {
		r.i++
		return 0
	}
	v := r.in[r.i]
	r.i++
	return v
}

func (r *vtC08Reader) take(n int) []int64 {
	out := make([]int64, n)
	for k := range out {
		out[k] = r.next()
	}
	return out
}

func vtC08Map(c, m int64) map[corev1.ResourceName]int64 {
	var mp map[corev1.ResourceName]int64
	if c >= 0 || m >= 0 {
		mp = map[corev1.ResourceName]int64{}
	}
	if c >= 0 {
		mp[corev1.ResourceCPU] = c
	}
	if m >= 0 {
		mp[corev1.ResourceMemory] = m
	}
	return mp
}

func vtC08Bool3(v int64) *bool {
	if v == 0 {
		return nil
	}
	b := v == 2
	return &b
}

func vtC08OptInt(flag, v int64) *int64 {
	if flag == 0 {
		return nil
	}
	return &v
}

func vtC08AggType(t int64) extension.AggregationType {
	switch t {
	case 0:
		return ""
	case 1:
		return extension.P95
	case 2:
		return extension.AVG
	}
	return extension.AggregationType(fmt.Sprintf("t%d", t))
}

func vtC08NodeName(n int64) string {
	if n == 0 {
		return ""
	}
	return fmt.Sprintf("n%02d", n)
}

func vtC08Time(base time.Time, v int64) metav1.Time {
	if v == vtC08ZeroTime {
		return metav1.Time{}
	}
	return metav1.NewTime(base.Add(time.Duration(v) * time.Second))
}

func vtC08Seconds(v int64) metav1.Duration {
	return metav1.Duration{Duration: time.Duration(v) * time.Second}
}

// resource list with cpu in milli units and memory in bytes
func vtC08List(c, m int64) corev1.ResourceList {
	return corev1.ResourceList{
		corev1.ResourceCPU:    *resource.NewMilliQuantity(c, resource.DecimalSI),
		corev1.ResourceMemory: *resource.NewQuantity(m, resource.BinarySI),
	}
}

// pod(19): uid key node prio term resv ds reqC reqM limC limM cfC cfM csS csI schS schT iniS iniT
func vtC08Pod(f []int64, base time.Time) *corev1.Pod {
	prio := int32(f[3])
	pod := &corev1.Pod{
		ObjectMeta: metav1.ObjectMeta{
			Namespace:   "default",
			Name:        fmt.Sprintf("p%02d", f[1]),
			UID:         types.UID(fmt.Sprintf("u%02d", f[0])),
			Annotations: map[string]string{},
		},
		Spec: corev1.PodSpec{
			NodeName: vtC08NodeName(f[2]),
			Priority: &prio,
		},
		Status: corev1.PodStatus{Phase: corev1.PodRunning},
	}
	if f[4] != 0 {
		pod.Status.Phase = corev1.PodSucceeded
	}
	if f[5] != 0 {
		pod.Annotations[reservationutil.AnnotationReservePod] = "true"
	}
	if f[6] != 0 {
		pod.OwnerReferences = []metav1.OwnerReference{{Kind: "DaemonSet", Name: "ds"}}
	}
	// the resource names a pod of this priority band declares its resources under
	cpuName, memName := corev1.ResourceCPU, corev1.ResourceMemory
	switch {
	case prio >= 7000 && prio <= 7999:
		cpuName, memName = extension.MidCPU, extension.MidMemory
	case prio >= 5000 && prio <= 5999:
		cpuName, memName = extension.BatchCPU, extension.BatchMemory
	}
	cpuQty := func(v int64) resource.Quantity {
		if cpuName == corev1.ResourceCPU {
			return *resource.NewMilliQuantity(v, resource.DecimalSI)
		}
		return *resource.NewQuantity(v, resource.DecimalSI)
	}
	req, lim := corev1.ResourceList{}, corev1.ResourceList{}
	if f[7] > 0 {
		req[cpuName] = cpuQty(f[7])
	}
	if f[8] > 0 {
		req[memName] = *resource.NewQuantity(f[8], resource.BinarySI)
	}
	if f[9] > 0 {
		lim[cpuName] = cpuQty(f[9])
	}
	if f[10] > 0 {
		lim[memName] = *resource.NewQuantity(f[10], resource.BinarySI)
	}
	pod.Spec.Containers = []corev1.Container{{Name: "main", Resources: corev1.ResourceRequirements{Requests: req, Limits: lim}}}
	if cf := vtC08Map(f[11], f[12]); cf != nil {
		b, _ := json.Marshal(cf)
		pod.Annotations[extension.AnnotationCustomEstimatedScalingFactors] = string(b)
	}
	if f[13] != -1 {
		pod.Annotations[extension.AnnotationCustomEstimatedSecondsAfterPodScheduled] = strconv.FormatInt(f[13], 10)
	}
	if f[14] != -1 {
		pod.Annotations[extension.AnnotationCustomEstimatedSecondsAfterInitialized] = strconv.FormatInt(f[14], 10)
	}
	cond := func(tp corev1.PodConditionType, s, t int64) {
		if s == 0 {
			return
		}
		st := corev1.ConditionFalse
		if s == 2 {
			st = corev1.ConditionTrue
		}
		pod.Status.Conditions = append(pod.Status.Conditions, corev1.PodCondition{Type: tp, Status: st, LastTransitionTime: vtC08Time(base, t)})
	}
	cond(corev1.PodScheduled, f[15], f[16])
	cond(corev1.PodInitialized, f[17], f[18])
	return pod
}

func vtC08Metric(r *vtC08Reader, node int64, base time.Time) *slov1alpha1.NodeMetric {
	nm := &slov1alpha1.NodeMetric{ObjectMeta: metav1.ObjectMeta{Name: vtC08NodeName(node)}}
	utF, ut, ivF, iv, infoF := r.next(), r.next(), r.next(), r.next(), r.next()
	uC, uM, sC, sM := r.next(), r.next(), r.next(), r.next()
	if utF != 0 {
		t := vtC08Time(base, ut)
		nm.Status.UpdateTime = &t
	}
	if ivF != 0 {
		nm.Spec.CollectPolicy = &slov1alpha1.NodeMetricCollectPolicy{ReportIntervalSeconds: &iv}
	}
	var info *slov1alpha1.NodeMetricInfo
	if infoF != 0 {
		info = &slov1alpha1.NodeMetricInfo{
			NodeUsage:   slov1alpha1.ResourceMap{ResourceList: vtC08List(uC, uM)},
			SystemUsage: slov1alpha1.ResourceMap{ResourceList: vtC08List(sC, sM)},
		}
	}
	nagg := int(r.next())
	for a := 0; a < nagg; a++ {
		d := r.next()
		au := slov1alpha1.AggregatedUsage{Duration: vtC08Seconds(d), Usage: map[extension.AggregationType]slov1alpha1.ResourceMap{}}
		nt := int(r.next())
		for k := 0; k < nt; k++ {
			t, f, vC, vM := r.next(), r.next(), r.next(), r.next()
			rm := slov1alpha1.ResourceMap{}
			if f != 0 {
				rm.ResourceList = vtC08List(vC, vM)
			}
			au.Usage[vtC08AggType(t)] = rm
		}
		if info != nil {
			info.AggregatedNodeUsages = append(info.AggregatedNodeUsages, au)
		}
	}
	nm.Status.NodeMetric = info
	np := int(r.next())
	for k := 0; k < np; k++ {
		key, f, vC, vM, prod := r.next(), r.next(), r.next(), r.next(), r.next()
		pm := &slov1alpha1.PodMetricInfo{Namespace: "default", Name: fmt.Sprintf("p%02d", key), Priority: extension.PriorityBatch}
		if prod != 0 {
			pm.Priority = extension.PriorityProd
		}
		if f != 0 {
			pm.PodUsage = slov1alpha1.ResourceMap{ResourceList: vtC08List(vC, vM)}
		}
		nm.Status.PodsMetric = append(nm.Status.PodsMetric, pm)
	}
	return nm
}

// node(17): name allocC allocM rawFlag rawC rawM customFlag cuC cuM cpC cpM caggFlag caThrC caThrM caType caDurFlag caDur
func vtC08Node(f []int64) *corev1.Node {
	node := &corev1.Node{
		ObjectMeta: metav1.ObjectMeta{Name: vtC08NodeName(f[0]), Annotations: map[string]string{}},
		Status:     corev1.NodeStatus{Allocatable: vtC08List(f[1], f[2])},
	}
	if f[3] != 0 {
		raw := corev1.ResourceList{}
		if f[4] >= 0 {
			raw[corev1.ResourceCPU] = *resource.NewMilliQuantity(f[4], resource.DecimalSI)
		}
		if f[5] >= 0 {
			raw[corev1.ResourceMemory] = *resource.NewQuantity(f[5], resource.BinarySI)
		}
		b, _ := json.Marshal(raw)
		node.Annotations[extension.AnnotationNodeRawAllocatable] = string(b)
	}
	if f[6] != 0 {
		c := &extension.CustomUsageThresholds{
			UsageThresholds:     vtC08Map(f[7], f[8]),
			ProdUsageThresholds: vtC08Map(f[9], f[10]),
		}
		if f[11] != 0 {
			c.AggregatedUsage = &extension.CustomAggregatedUsage{
				UsageThresholds:      vtC08Map(f[12], f[13]),
				UsageAggregationType: vtC08AggType(f[14]),
			}
			if f[15] != 0 {
				d := vtC08Seconds(f[16])
				c.AggregatedUsage.UsageAggregatedDuration = &d
			}
		}
		b, _ := json.Marshal(c)
		node.Annotations[extension.AnnotationCustomUsageThresholds] = string(b)
	}
	return node
}

type vtC08Env struct {
	args   *config.LoadAwareSchedulingArgs
	pl     *Plugin
	clk    *clocktesting.FakeClock
	base   time.Time
	metric cache.ResourceEventHandler
}

func vtC08NewCache(args *config.LoadAwareSchedulingArgs, base time.Time) (*podAssignCache, *clocktesting.FakeClock, estimator.Estimator, ResourceVectorizer) {
	est, err := estimator.NewEstimator(args, nil)
	if err != nil {
		panic(err)
	}
	vectorizer := NewResourceVectorizerFromArgs(args)
	c := newPodAssignCache(est, vectorizer, args)
	clk := clocktesting.NewFakeClock(base)
	c.clock = clk
	return c, clk, est, vectorizer
}

func vtC08NewEnv(r *vtC08Reader) *vtC08Env {
	f := r.take(21)
	args := &config.LoadAwareSchedulingArgs{
		UsageThresholds:                      vtC08Map(f[0], f[1]),
		ProdUsageThresholds:                  vtC08Map(f[2], f[3]),
		FilterExpiredNodeMetrics:             vtC08Bool3(f[9]),
		NodeMetricExpirationSeconds:          vtC08OptInt(f[10], f[11]),
		EnableScheduleWhenNodeMetricsExpired: vtC08Bool3(f[12]),
		ProdUsageIncludeSys:                  f[13] != 0,
		AllowCustomizeEstimation:             f[14] != 0,
		EstimatedSecondsAfterPodScheduled:    vtC08OptInt(f[15], f[16]),
		EstimatedSecondsAfterInitialized:     vtC08OptInt(f[17], f[18]),
		EstimatedScalingFactors:              vtC08Map(f[19], f[20]),
	}
	if f[4] != 0 {
		args.Aggregated = &config.LoadAwareSchedulingAggregatedArgs{
			UsageThresholds:         vtC08Map(f[5], f[6]),
			UsageAggregationType:    vtC08AggType(f[7]),
			UsageAggregatedDuration: vtC08Seconds(f[8]),
		}
	}
	base := time.Now().Truncate(time.Second)
	c, clk, est, vectorizer := vtC08NewCache(args, base)
	pl := &Plugin{
		args:           args,
		vectorizer:     vectorizer,
		filterProfile:  NewUsageThresholdsFilterProfile(args, vectorizer),
		estimator:      est,
		podAssignCache: c,
	}
	return &vtC08Env{args: args, pl: pl, clk: clk, base: base, metric: c.NodeMetricHandler()}
}

var vtC08Variants = []struct {
	prod bool
	t    int64
	d    int64
}{{true, 0, 0}, {false, 0, 0}, {false, 1, 0}, {false, 1, 300}, {false, 1, 600}, {false, 2, 0}, {false, 2, 300}, {false, 2, 600}}

func vtC08Sums(n *nodeInfo) []int64 {
	out := []int64{}
	for _, v := range []ResourceVector{n.prodUsage, n.nodeDelta, n.prodDelta, n.nodeEstimated} {
		out = append(out, v[0], v[1])
	}
	return out
}

func (e *vtC08Env) observe() []int64 {
	obs := []int64{}
	c := e.pl.podAssignCache
	for node := int64(1); node <= 3; node++ {
		name := vtC08NodeName(node)
		n, ok := c.getNodeInfo(name)
		if !ok || n == nil {
			obs = append(obs, 0)
			continue
		}
		uids := make([]string, 0, len(n.podInfos))
		for uid := range n.podInfos {
			uids = append(uids, string(uid))
		}
		sort.Strings(uids)
		obs = append(obs, 1, vtB(n.nodeMetric != nil), int64(len(uids)))
		for _, u := range uids {
			v, _ := strconv.ParseInt(u[1:], 10, 64)
			obs = append(obs, v)
		}
		if n.nodeMetric == nil {
			continue
		}
		obs = append(obs, vtC08Sums(n)...)
		// a fresh cache fed the node's current pods (clock at their recorded timestamps) and
		// its current metric; alternately pods first or the metric first
		fresh, fclk, _, _ := vtC08NewCache(e.args, e.base)
		metricFirst := len(uids)%2 == 1
		if metricFirst {
			fresh.NodeMetricHandler().OnAdd(n.nodeMetric, false)
		}
		for _, u := range uids {
			info := n.podInfos[types.UID(u)]
			fclk.SetTime(info.timestamp)
			fresh.assign(name, info.pod)
		}
		if !metricFirst {
			fresh.NodeMetricHandler().OnAdd(n.nodeMetric, false)
		}
		fn, _ := fresh.getNodeInfo(name)
		obs = append(obs, vtC08Sums(fn)...)
		for _, v := range vtC08Variants {
			_, est, _, err := c.GetNodeMetricAndEstimatedOfExisting(name, v.prod, vtC08Seconds(v.d), vtC08AggType(v.t), false)
			if err != nil {
				obs = append(obs, 0, 0, 0)
			} else {
				obs = append(obs, 1, est[0], est[1])
			}
		}
	}
	return obs
}

func vtC08Status(s *fwktype.Status) int64 {
	if s == nil || s.IsSuccess() {
		return 0
	}
	if s.Code() != fwktype.Unschedulable {
		return 4
	}
	msg := s.Message()
	switch {
	case msg == ErrReasonNodeMetricExpired:
		return 3
	case msg == fmt.Sprintf(ErrReasonUsageExceedThreshold, corev1.ResourceCPU), msg == fmt.Sprintf(ErrReasonUsageExceedThreshold, corev1.ResourceMemory):
		return 1
	case msg == fmt.Sprintf(ErrReasonAggregatedUsageExceedThreshold, corev1.ResourceCPU), msg == fmt.Sprintf(ErrReasonAggregatedUsageExceedThreshold, corev1.ResourceMemory):
		return 2
	}
	return 4
}

func vtC08Exec(in []int64) []int64 {
	r := &vtC08Reader{in: in}
	e := vtC08NewEnv(r)
	c := e.pl.podAssignCache
	ctx := context.Background()
	nops := int(r.next())
	obs := []int64{}
	for k := 0; k < nops; k++ {
		code, now := r.next(), r.next()
		e.clk.SetTime(e.base.Add(time.Duration(now) * time.Second))
		res := int64(0)
		switch code {
		case 1:
			node := r.next()
			e.pl.Reserve(ctx, framework.NewCycleState(), vtC08Pod(r.take(19), e.base), vtC08NodeName(node))
		case 2:
			node := r.next()
			e.pl.Unreserve(ctx, framework.NewCycleState(), vtC08Pod(r.take(19), e.base), vtC08NodeName(node))
		case 3:
			c.OnAdd(vtC08Pod(r.take(19), e.base), false)
		case 4:
			oldNode := r.next()
			f := r.take(19)
			oldPod := vtC08Pod(f, e.base)
			oldPod.Spec.NodeName = vtC08NodeName(oldNode)
			c.OnUpdate(oldPod, vtC08Pod(f, e.base))
		case 5:
			pod := vtC08Pod(r.take(19), e.base)
			if r.next() != 0 {
				c.OnDelete(cache.DeletedFinalStateUnknown{Key: "default/" + pod.Name, Obj: pod})
			} else {
				c.OnDelete(pod)
			}
		case 6:
			node, upd := r.next(), r.next()
			nm := vtC08Metric(r, node, e.base)
			if upd != 0 {
				e.metric.OnUpdate(nm, nm)
			} else {
				e.metric.OnAdd(nm, false)
			}
		case 7:
			node, wrap := r.next(), r.next()
			nm := &slov1alpha1.NodeMetric{ObjectMeta: metav1.ObjectMeta{Name: vtC08NodeName(node)}}
			if wrap != 0 {
				e.metric.OnDelete(cache.DeletedFinalStateUnknown{Key: nm.Name, Obj: nm})
			} else {
				e.metric.OnDelete(nm)
			}
		default:
			pre := r.next()
			node := vtC08Node(r.take(17))
			pod := vtC08Pod(r.take(19), e.base)
			ni := framework.NewNodeInfo()
			ni.SetNode(node)
			state := framework.NewCycleState()
			if pre != 0 {
				e.pl.PreFilter(ctx, state, pod, nil)
			}
			res = vtC08Status(e.pl.Filter(ctx, state, pod, ni))
		}
		obs = append(obs, res)
		obs = append(obs, e.observe()...)
	}
	return obs
}

// ---------------------------------------------------------------------------- generator

type vtC08G struct {
	r     *rand.Rand
	large bool
	ut    int64 // the update time the generated timestamps cluster around
	iv    int64
}

func (g *vtC08G) pick(xs ...int64) int64 { return xs[g.r.Intn(len(xs))] }

func (g *vtC08G) cpu() int64 {
	if g.large {
		return g.pick(0, 100, 250, 500, 1000, 1500, 2000, 4000, int64(g.r.Intn(8000)))
	}
	return g.pick(0, 1, 10, 20, 25, 50, 100, int64(g.r.Intn(120)))
}

func (g *vtC08G) mem() int64 {
	if g.large {
		return g.pick(0, 1<<20, 1<<30, 3<<30, 1<<33, int64(1)<<30+int64(g.r.Intn(1<<20)), g.r.Int63n(1<<34))
	}
	return g.pick(0, 1, 10, 20, 25, 50, 100, int64(g.r.Intn(120)))
}

func (g *vtC08G) thr() int64 {
	return g.pick(-1, -1, 0, 50, 65, 80, 100, int64(1+g.r.Intn(120)))
}

func (g *vtC08G) factor() int64 {
	return g.pick(-1, 0, 50, 70, 85, 100, 100, 130, int64(g.r.Intn(200)))
}

// an instant near the boundaries updateTime-interval / updateTime, sometimes the zero time
func (g *vtC08G) instant() int64 {
	switch g.r.Intn(8) {
	case 0:
		return vtC08ZeroTime
	case 1, 2, 3:
		return g.ut - g.iv + int64(g.r.Intn(5)) - 2
	case 4, 5:
		return g.ut + int64(g.r.Intn(5)) - 2
	}
	return g.ut - 200 + int64(g.r.Intn(400))
}

type vtC08PodRec [19]int64

func (g *vtC08G) newPod(uid int64) vtC08PodRec {
	var p vtC08PodRec
	p[0] = uid
	p[1] = uid
	if g.r.Intn(5) == 0 {
		p[1] = 1 + int64(g.r.Intn(4)) // pods of different uid sharing a namespace/name
	}
	p[3] = g.pick(9000, 9500, 9999, 9000, 7000, 7999, 5000, 5999, 3000, 3999)
	p[11], p[12], p[13], p[14] = -1, -1, -1, -1
	if g.r.Intn(20) == 0 {
		p[5] = 1 // a reservation's reserve pod: never cached
	}
	g.mutateSpec(&p)
	g.mutateSpec(&p)
	if g.r.Intn(4) == 0 {
		p[11], p[12] = g.factor(), g.factor()
	}
	if g.r.Intn(4) == 0 {
		p[13] = g.pick(-1, 0, 1, 30, 60, 300, -7)
		p[14] = g.pick(-1, 0, 1, 30, 60, 300, -7)
	}
	p[16], p[18] = vtC08ZeroTime, vtC08ZeroTime
	g.mutateCond(&p)
	return p
}

func (g *vtC08G) mutateSpec(p *vtC08PodRec) {
	switch g.r.Intn(4) {
	case 0:
		p[7], p[9] = g.cpu(), g.pick(0, 0, g.cpu())
	case 1:
		p[8], p[10] = g.mem(), g.pick(0, 0, g.mem())
	case 2:
		p[7], p[8] = g.cpu(), g.mem()
	default:
		p[7], p[8], p[9], p[10] = g.cpu(), g.mem(), g.cpu(), g.mem()
	}
}

func (g *vtC08G) mutateCond(p *vtC08PodRec) {
	if g.r.Intn(2) == 0 {
		p[15], p[16] = g.pick(0, 1, 2, 2, 2), g.instant()
	}
	if g.r.Intn(2) == 0 {
		p[17], p[18] = g.pick(0, 1, 2, 2), g.instant()
	}
}

func vtC08Gen(r *rand.Rand, i int) (string, []int64) {
	g := &vtC08G{r: r}
	style := []string{"cache", "cache", "mixed", "mixed", "filter", "degenerate"}[r.Intn(6)]
	g.large = r.Intn(3) == 0
	// expiry configuration and the region update times are drawn from (see metric_expired:
	// the wall clock is real, so update times keep clear of the expiry boundary)
	expMode := r.Intn(5)
	expF, expV := int64(1), int64(0)
	utLo, utHi := int64(-1000), int64(1000)
	switch expMode {
	case 0:
		expF = 0
	case 1:
		expV = 0
	case 2:
		expV = -5
	case 3:
		expV = 100
	default:
		expV = 1000000
	}
	newUT := func() int64 {
		if expMode == 3 {
			if r.Intn(2) == 0 {
				return -100 - int64(r.Intn(400))
			}
			return 4000 + int64(r.Intn(1000))
		}
		return utLo + r.Int63n(utHi-utLo+1)
	}
	g.ut = newUT()
	g.iv = g.pick(60, 60, 30, 0, 120, 1)
	in := []int64{g.thr(), g.thr(), g.thr(), g.thr()}
	if style == "filter" {
		in[0] = g.pick(50, 57, 65, 80)
	}
	aggOn := vtB(r.Intn(3) == 0)
	in = append(in, aggOn, g.thr(), g.thr(), g.pick(0, 1, 1, 2, 2), g.pick(0, 0, 300, 600))
	in = append(in, g.pick(0, 1, 2, 2, 2), expF, expV, g.pick(0, 1, 1, 2))
	in = append(in, vtB(r.Intn(2) == 0), vtB(r.Intn(2) == 0))
	in = append(in, vtB(r.Intn(2) == 0), g.pick(0, 1, 30, 60, 300, -3), vtB(r.Intn(2) == 0), g.pick(0, 1, 30, 60, 300, -3))
	if style == "degenerate" && r.Intn(3) == 0 {
		in = append(in, -1, -1)
	} else {
		in = append(in, g.pick(85, 100, g.factor()), g.pick(70, 100, g.factor()))
	}
	nops := 3 + r.Intn(14)
	cfgIn := in
	in = []int64{}
	count := int64(0)

	nuid := int64(2 + r.Intn(4))
	nnode := int64(1 + r.Intn(3))
	pods := map[int64]*vtC08PodRec{}
	getPod := func(uid int64) *vtC08PodRec {
		if p, ok := pods[uid]; ok {
			return p
		}
		p := g.newPod(uid)
		pods[uid] = &p
		return &p
	}
	loc := map[int64]int64{} // where the generator believes a uid is assigned
	anyNode := func() int64 { return 1 + r.Int63n(nnode) }
	nowv := g.ut - g.iv - 5
	emitMetric := func(node int64) {
		if r.Intn(3) != 0 {
			g.ut = newUT()
		}
		utF := vtB(r.Intn(12) != 0)
		if r.Intn(3) == 0 {
			g.iv = g.pick(60, 30, 0, 120, 1, -1)
		}
		ivF := vtB(r.Intn(3) != 0)
		infoF := vtB(r.Intn(10) != 0)
		count++
		in = append(in, 6, nowv, node, vtB(r.Intn(2) == 0), utF, g.ut, ivF, g.iv, infoF, g.cpu(), g.mem(), g.cpu(), g.mem())
		if !(ivF != 0) {
			g.iv = 60
		}
		nagg := r.Intn(3)
		if style == "degenerate" {
			nagg = r.Intn(2)
		}
		in = append(in, int64(nagg))
		for a := 0; a < nagg; a++ {
			nt := 1 + r.Intn(2)
			in = append(in, g.pick(0, 300, 300, 600, 600, 900), int64(nt))
			for k := 0; k < nt; k++ {
				in = append(in, g.pick(1, 1, 2, 3), vtB(r.Intn(5) != 0), g.cpu(), g.mem())
			}
		}
		// pod metrics: mostly for the pods believed to be on this node, plus strays
		keys := []int64{}
		for uid := int64(1); uid <= nuid; uid++ {
			if n, ok := loc[uid]; ok && n == node && r.Intn(4) != 0 {
				keys = append(keys, getPod(uid)[1])
			}
		}
		for r.Intn(3) == 0 {
			keys = append(keys, 1+r.Int63n(5))
		}
		in = append(in, int64(len(keys)))
		for _, k := range keys {
			prod := int64(0)
			// usually consistent with the pod's priority
			for uid := int64(1); uid <= nuid; uid++ {
				if p, ok := pods[uid]; ok && p[1] == k && p[3] >= 9000 {
					prod = 1
				}
			}
			if r.Intn(6) == 0 {
				prod = 1 - prod
			}
			in = append(in, k, vtB(r.Intn(8) != 0), g.cpu(), g.mem(), prod)
		}
	}
	for k := 0; k < nops; k++ {
		nowv += int64(r.Intn(4))
		if r.Intn(6) == 0 {
			nowv = g.instant()
			if nowv == vtC08ZeroTime {
				nowv = g.ut
			}
		}
		kind := r.Intn(100)
		if style == "filter" && k >= 3 && kind < 70 {
			kind = 95
		}
		if style == "cache" && kind >= 88 {
			kind = r.Intn(88)
		}
		uid := 1 + r.Int63n(nuid)
		p := getPod(uid)
		switch {
		case kind < 12: // reserve
			node := anyNode()
			q := *p
			q[2] = 0
			count++
			in = append(in, 1, nowv, node)
			in = append(in, q[:]...)
			loc[uid] = node
		case kind < 20: // unreserve
			node := loc[uid]
			if node == 0 || r.Intn(6) == 0 {
				node = anyNode()
			}
			q := *p
			q[2] = 0
			count++
			in = append(in, 2, nowv, node)
			in = append(in, q[:]...)
			if loc[uid] == node {
				delete(loc, uid)
			}
		case kind < 32: // informer add
			if p[2] == 0 || r.Intn(4) == 0 {
				p[2] = anyNode()
			}
			count++
			in = append(in, 3, nowv)
			in = append(in, p[:]...)
			loc[uid] = p[2]
		case kind < 56: // informer update
			old := p[2]
			switch r.Intn(8) {
			case 0: // bound (possibly elsewhere than reserved)
				if n, ok := loc[uid]; ok && r.Intn(4) != 0 {
					p[2] = n
				} else {
					p[2] = anyNode()
				}
			case 1:
				g.mutateSpec(p)
			case 2:
				p[3] = g.pick(9000, 9999, 7000, 5000, 5999, 3000)
			case 3, 4:
				g.mutateCond(p)
			case 5:
				p[4] = 1 - p[4] // terminated / running
			case 6:
				p[2] = g.pick(0, anyNode(), anyNode())
			default: // metadata only
				p[13] = g.pick(-1, 30, 300)
			}
			if p[2] == 0 && r.Intn(2) == 0 {
				p[2] = anyNode()
			}
			if r.Intn(8) == 0 {
				old = g.pick(0, anyNode())
			}
			count++
			in = append(in, 4, nowv, old)
			in = append(in, p[:]...)
			if p[4] == 0 && p[2] != 0 {
				loc[uid] = p[2]
			} else {
				delete(loc, uid)
			}
		case kind < 66: // informer delete
			count++
			in = append(in, 5, nowv)
			in = append(in, p[:]...)
			in = append(in, vtB(r.Intn(4) == 0))
			delete(loc, uid)
			if r.Intn(2) == 0 {
				delete(pods, uid) // a later pod with this uid number is a new object
			}
		case kind < 84: // metric report
			emitMetric(anyNode())
		case kind < 88: // metric deleted
			count++
			in = append(in, 7, nowv, anyNode(), vtB(r.Intn(4) == 0))
		default: // filter
			var nd [17]int64
			nd[0] = anyNode()
			if g.large {
				nd[1], nd[2] = g.pick(0, 4000, 8000, 32000, 1000), g.pick(0, 1<<33, 1<<34, 1<<35, int64(1)<<34+int64(r.Intn(1000)))
			} else {
				nd[1], nd[2] = g.pick(0, 100, 200, 200, 400, 1000, int64(1+r.Intn(300))), g.pick(0, 100, 200, 200, 400, 1000, int64(1+r.Intn(300)))
			}
			nd[4], nd[5] = -1, -1
			if r.Intn(4) == 0 {
				nd[3] = 1
				nd[4], nd[5] = g.pick(-1, nd[1]/2, nd[1], 200), g.pick(-1, nd[2]/2, nd[2], 200)
			}
			for k := 7; k <= 13; k++ {
				nd[k] = -1
			}
			if r.Intn(4) == 0 {
				nd[6] = 1
				nd[7], nd[8], nd[9], nd[10] = g.thr(), g.thr(), g.thr(), g.thr()
				if r.Intn(2) == 0 {
					nd[11] = 1
					nd[12], nd[13], nd[14] = g.thr(), g.thr(), g.pick(0, 1, 2)
					nd[15], nd[16] = vtB(r.Intn(2) == 0), g.pick(0, 300, 600)
				}
			}
			q := g.newPod(9)
			q[2] = 0
			q[6] = vtB(r.Intn(10) == 0)
			// a burst of decisions for consecutive incoming requests, so that the total crosses
			// the threshold (and its exact ties) somewhere inside the burst
			burst := 1
			if r.Intn(2) == 0 {
				burst = 2 + r.Intn(3)
			}
			step := g.pick(1, 1, 2, 5)
			if g.large {
				step = g.pick(10, 40, 100)
			}
			for b := 0; b < burst; b++ {
				count++
				in = append(in, 8, nowv, vtB(r.Intn(2) == 0))
				in = append(in, nd[:]...)
				in = append(in, q[:]...)
				q[7] += step
			}
		}
	}
	in = append(append(cfgIn, count), in...)
	label := style
	if g.large {
		label += "-large"
	}
	return label, in
}

func TestVerifC08(t *testing.T) { vtMain(t, "C08", vtC08Gen, vtC08Exec) }

// ---------------------------------------------------------------------------- stream "float"
// A direct boundary grid for the two float64 computations the model emulates in integers:
//   0 e t thr                            -> status of Plugin.filterNodeUsage on one dimension
//   1 prio reqC limC facC reqM limM facM -> DefaultEstimator.EstimatePod

func vtC08FloatExec(in []int64) []int64 {
	switch in[0] {
	case 0:
		pl := &Plugin{vectorizer: NewResourceVectorizer(corev1.ResourceCPU, corev1.ResourceMemory)}
		pod := &corev1.Pod{ObjectMeta: metav1.ObjectMeta{Namespace: "default", Name: "p"}}
		s := pl.filterNodeUsage("n01", pod, ResourceVector{in[3], 0}, ResourceVector{in[1], 0}, ResourceVector{in[2], 0}, false)
		return []int64{vtC08Status(s)}
	default:
		args := &config.LoadAwareSchedulingArgs{EstimatedScalingFactors: vtC08Map(in[4], in[7])}
		est, _ := estimator.NewEstimator(args, nil)
		var f [19]int64
		f[0], f[1], f[3] = 1, 1, in[1]
		f[7], f[9], f[8], f[10] = in[2], in[3], in[5], in[6]
		f[11], f[12], f[13], f[14] = -1, -1, -1, -1
		f[16], f[18] = vtC08ZeroTime, vtC08ZeroTime
		list, err := est.EstimatePod(vtC08Pod(f[:], time.Unix(0, 0)))
		if err != nil {
			return []int64{-1, -1}
		}
		vec := NewResourceVectorizer(corev1.ResourceCPU, corev1.ResourceMemory).ToFactorVec(list)
		return []int64{vec[0], vec[1]}
	}
}

func vtC08FloatGen(r *rand.Rand, i int) (string, []int64) {
	big := func() int64 {
		switch r.Intn(6) {
		case 0:
			return int64(r.Intn(300))
		case 1:
			return int64(1)<<uint(r.Intn(61)) + int64(r.Intn(5)) - 2
		case 2:
			return r.Int63n(1 << 40)
		case 3:
			return r.Int63n(1 << 61)
		case 4:
			return 1000 * int64(1+r.Intn(128))
		}
		return int64(1+r.Intn(64)) << 30
	}
	if r.Intn(3) != 0 {
		t := big()
		if t < 0 {
			t = 0
		}
		var e int64
		thr := int64(r.Intn(130))
		switch r.Intn(4) {
		case 0: // exact tie (2*thr+1)*t = 200*e when t is a multiple of 200
			t = 200 * (1 + t%(1<<50))
			e = (2*thr + 1) * (t / 200)
			e += int64(r.Intn(3)) - 1
		case 1: // around thr % of t
			e = t/100*thr + int64(r.Intn(7)) - 3
		case 2:
			e = t/200*(2*thr+1) + int64(r.Intn(5)) - 2
		default:
			e = big()
		}
		if e < 0 {
			e = 0
		}
		// keep the percentage itself inside int64 (the float64 -> int64 conversion of a larger
		// value is platform-defined; it needs a usage above 2^55 times the allocatable)
		for t > 0 && e/t >= 1<<55 {
			e >>= 8
		}
		return "pct", []int64{0, e, t, thr}
	}
	q := func() int64 {
		switch r.Intn(5) {
		case 0:
			return 0
		case 1:
			return int64(r.Intn(400))
		case 2:
			return 50 * int64(r.Intn(100)) // x.5 ties for odd multiples with factor 1 mod 2
		case 3:
			return r.Int63n(1 << 40)
		}
		return r.Int63n(1 << 48)
	}
	f := func() int64 { return []int64{-1, 0, 1, 50, 70, 85, 99, 100, 101, 130, int64(r.Intn(1000))}[r.Intn(11)] }
	prio := []int64{9000, 9999, 7000, 7999, 5000, 5999, 3000, 3999}[r.Intn(8)]
	return "est", []int64{1, prio, q(), q(), f(), q(), q(), f()}
}

func TestVerifC08Float(t *testing.T) { vtMain(t, "C08", vtC08FloatGen, vtC08FloatExec) }
