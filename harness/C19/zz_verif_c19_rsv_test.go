//go:build verif

package reservation

// C19 / stream "rsv": the reservation plugin's ReservationInfo (AssignedPods / Allocated) across a
// scheduler restart.
//
// input:  rsvFirst NR
//         P  then P records  rsv cpuMilli memBytes          (pod uid = position; rsv in 1..NR)
//         K  then K live steps  kind id    1 nominate+Reserve 2 Unreserve 3 PreBind+bind+update 4 delete
//                                          5 update(same) 7 terminate 8 update event of reservation id
//         S  then S replay events  kind id  1 Add(pod) 2 Update(pod,pod) 3 Update(pending,pod) 6 Add(reservation id)
//                                          8 Add(pod annotated but without nodeName), Update(that, pod): the cut between PreBind patch and Bind
// observable after every live step: for reservation 1..NR of the LIVE plugin: known allocatedCPU
// allocatedMem and one 0/1 per pod uid (in AssignedPods); then the same of a FRESH plugin instance fed with the stored objects
// (pods carrying the reservation-allocated annotation written by the real PreBind).

import (
	"context"
	"fmt"
	"math/rand"
	"testing"
	"time"

	corev1 "k8s.io/api/core/v1"
	"k8s.io/apimachinery/pkg/api/resource"
	metav1 "k8s.io/apimachinery/pkg/apis/meta/v1"
	"k8s.io/apimachinery/pkg/types"
	fwktype "k8s.io/kube-scheduler/framework"
	"k8s.io/kubernetes/pkg/scheduler/framework"
	"k8s.io/utils/ptr"

	schedulingv1alpha1 "github.com/koordinator-sh/koordinator/apis/scheduling/v1alpha1"
)

var vtC19RT *testing.T

const vtC19RNode = "n01"

func vtC19RUID(prefix string, i int) types.UID { return types.UID(fmt.Sprintf("%s%02d", prefix, i)) }

func vtC19RReservation(i int) *schedulingv1alpha1.Reservation {
	return &schedulingv1alpha1.Reservation{
		ObjectMeta: metav1.ObjectMeta{Name: fmt.Sprintf("r%02d", i), UID: vtC19RUID("r", i)},
		Spec: schedulingv1alpha1.ReservationSpec{
			Template: &corev1.PodTemplateSpec{Spec: corev1.PodSpec{Containers: []corev1.Container{{Name: "c",
				Resources: corev1.ResourceRequirements{Requests: corev1.ResourceList{
					corev1.ResourceCPU:    *resource.NewQuantity(64, resource.DecimalSI),
					corev1.ResourceMemory: *resource.NewQuantity(1<<40, resource.BinarySI)}}}}}},
			Owners:       []schedulingv1alpha1.ReservationOwner{{Object: &corev1.ObjectReference{Name: "x"}}},
			TTL:          &metav1.Duration{Duration: time.Hour},
			AllocateOnce: ptr.To(false),
		},
		Status: schedulingv1alpha1.ReservationStatus{Phase: schedulingv1alpha1.ReservationAvailable, NodeName: vtC19RNode,
			Allocatable: corev1.ResourceList{
				corev1.ResourceCPU:    *resource.NewQuantity(64, resource.DecimalSI),
				corev1.ResourceMemory: *resource.NewQuantity(1<<40, resource.BinarySI)}},
	}
}

type vtC19RInst struct {
	pl   *Plugin
	pods *podEventHandler
	rsvs *reservationEventHandler
}

func vtC19RNewInst(suit *pluginTestSuit) *vtC19RInst {
	p, err := suit.pluginFactory()
	if err != nil {
		panic(err)
	}
	pl := p.(*Plugin)
	return &vtC19RInst{pl: pl,
		pods: &podEventHandler{cache: pl.reservationCache, nominator: pl.nominator},
		rsvs: &reservationEventHandler{cache: pl.reservationCache, rrNominator: pl.nominator}}
}

func vtC19RSnapshot(obs []int64, inst *vtC19RInst, nr, np int) []int64 {
	for r := 1; r <= nr; r++ {
		info := inst.pl.reservationCache.getReservationInfoByUID(vtC19RUID("r", r))
		if info == nil {
			obs = append(obs, 0, 0, 0)
			for u := 1; u <= np; u++ {
				obs = append(obs, 0)
			}
			continue
		}
		obs = append(obs, 1, info.Allocated.Cpu().MilliValue(), info.Allocated.Memory().Value())
		for u := 1; u <= np; u++ {
			_, ok := info.AssignedPods[vtC19RUID("u", u)]
			obs = append(obs, vtB(ok))
		}
	}
	return obs
}

func vtC19RsvExec(in []int64) []int64 {
	pos := 0
	next := func() int64 {
		if pos >= len(in) {
			return 0
		}
		v := in[pos]
		pos++
		return v
	}
	rsvFirst, nr := next(), int(next())
	np := int(next())
	type desc struct{ rsv, cpu, mem int64 }
	descs := make([]desc, np+1)
	for u := 1; u <= np; u++ {
		descs[u] = desc{next(), next(), next()}
	}
	type step struct{ kind, id int64 }
	var ops, script []step
	for k := next(); k > 0; k-- {
		ops = append(ops, step{next(), next()})
	}
	for k := next(); k > 0; k-- {
		script = append(script, step{next(), next()})
	}

	node := &corev1.Node{ObjectMeta: metav1.ObjectMeta{Name: vtC19RNode}}
	suit := newPluginTestSuitWith(vtC19RT, nil, []*corev1.Node{node})
	podIndexer := suit.fw.SharedInformerFactory().Core().V1().Pods().Informer().GetIndexer()
	rsvIndexer := suit.extenderFactory.KoordinatorSharedInformerFactory().Scheduling().V1alpha1().Reservations().Informer().GetIndexer()
	live := vtC19RNewInst(suit)
	rsvs := make([]*schedulingv1alpha1.Reservation, nr+1)
	for r := 1; r <= nr; r++ {
		rsvs[r] = vtC19RReservation(r)
		rsvIndexer.Add(rsvs[r])
		live.rsvs.OnAdd(rsvs[r], true)
	}
	pending := make([]*corev1.Pod, np+1)
	stored := make([]*corev1.Pod, np+1)
	life := make([]int, np+1)
	cycle := make([]fwktype.CycleState, np+1)
	for u := 1; u <= np; u++ {
		pending[u] = &corev1.Pod{
			ObjectMeta: metav1.ObjectMeta{Namespace: "default", Name: fmt.Sprintf("p%02d", u), UID: vtC19RUID("u", u)},
			Spec: corev1.PodSpec{Containers: []corev1.Container{{Name: "c", Resources: corev1.ResourceRequirements{Requests: corev1.ResourceList{
				corev1.ResourceCPU:    *resource.NewMilliQuantity(descs[u].cpu, resource.DecimalSI),
				corev1.ResourceMemory: *resource.NewQuantity(descs[u].mem, resource.BinarySI)}}}}},
		}
		stored[u] = pending[u]
		podIndexer.Add(pending[u])
	}
	ctx := context.TODO()
	var obs []int64
	for _, op := range ops {
		u := int(op.id)
		switch {
		case op.kind == 8:
			if u >= 1 && u <= nr {
				live.rsvs.OnUpdate(rsvs[u], rsvs[u].DeepCopy())
			}
		case u < 1 || u > np:
		case op.kind == 1 && life[u] == 0:
			cs := framework.NewCycleState()
			cs.Write(stateKey, &stateData{})
			rInfo := live.pl.reservationCache.getReservationInfoByUID(vtC19RUID("r", int(descs[u].rsv)))
			live.pl.handle.GetReservationNominator().AddNominatedReservation(pending[u], vtC19RNode, rInfo)
			if s := live.pl.Reserve(ctx, cs, pending[u], vtC19RNode); !s.IsSuccess() {
				panic(s.Message())
			}
			cycle[u] = cs
			life[u] = 1
		case op.kind == 2 && life[u] == 1:
			live.pl.Unreserve(ctx, cycle[u], pending[u], vtC19RNode)
			life[u] = 0
		case op.kind == 3 && life[u] == 1:
			b := pending[u].DeepCopy()
			if s := live.pl.PreBind(ctx, cycle[u], b, vtC19RNode); !s.IsSuccess() {
				panic(s.Message())
			}
			b.Spec.NodeName = vtC19RNode
			podIndexer.Update(b)
			live.pods.OnUpdate(pending[u], b)
			stored[u] = b
			life[u] = 2
		case op.kind == 4 && (life[u] == 2 || life[u] == 4):
			podIndexer.Delete(stored[u])
			live.pods.OnDelete(stored[u])
			life[u] = 3
		case op.kind == 5 && life[u] == 2:
			live.pods.OnUpdate(stored[u], stored[u].DeepCopy())
		case op.kind == 7 && life[u] == 2:
			t := stored[u].DeepCopy()
			t.Status.Phase = corev1.PodSucceeded
			podIndexer.Update(t)
			live.pods.OnUpdate(stored[u], t)
			stored[u] = t
			life[u] = 4
		}
		obs = vtC19RSnapshot(obs, live, nr, np)

		fresh := vtC19RNewInst(suit)
		seen := make([]bool, np+1)
		deliver := func(ev step) {
			id := int(ev.id)
			if ev.kind == 6 {
				if id >= 1 && id <= nr {
					fresh.rsvs.OnAdd(rsvs[id].DeepCopy(), true)
				}
				return
			}
			if id < 1 || id > np || life[id] == 3 {
				return
			}
			switch ev.kind {
			case 1:
				fresh.pods.OnAdd(stored[id].DeepCopy(), true)
				seen[id] = true
			case 2:
				fresh.pods.OnUpdate(stored[id].DeepCopy(), stored[id].DeepCopy())
			case 3:
				fresh.pods.OnUpdate(pending[id].DeepCopy(), stored[id].DeepCopy())
			case 8:
				if stored[id].Spec.NodeName != "" {
					ann := stored[id].DeepCopy() // as listed between the PreBind patch and the Bind
					ann.Spec.NodeName = ""
					ann.Status.Phase = ""
					fresh.pods.OnAdd(ann, true)
					fresh.pods.OnUpdate(ann.DeepCopy(), stored[id].DeepCopy())
				} else {
					fresh.pods.OnAdd(stored[id].DeepCopy(), true)
				}
				seen[id] = true
			}
		}
		if rsvFirst != 0 {
			for r := 1; r <= nr; r++ {
				deliver(step{6, int64(r)})
			}
		}
		for _, ev := range script {
			deliver(ev)
		}
		for r := 1; r <= nr; r++ {
			deliver(step{6, int64(r)})
		}
		for u := 1; u <= np; u++ {
			if !seen[u] {
				deliver(step{1, int64(u)})
			}
		}
		obs = vtC19RSnapshot(obs, fresh, nr, np)
	}
	return obs
}

func vtC19RsvGen(r *rand.Rand, i int) (string, []int64) {
	style := []string{"reservations-first", "reservations-first", "reservations-first", "any-order"}[r.Intn(4)]
	nr := 1 + r.Intn(3)
	np := 2 + r.Intn(4)
	first := int64(1)
	if style == "any-order" {
		first = 0
	}
	in := []int64{first, int64(nr), int64(np)}
	for u := 1; u <= np; u++ {
		cpu := int64(r.Intn(5)) * 500
		if r.Intn(5) == 0 {
			cpu = vtQty(r, 1<<20)
		}
		mem := []int64{0, 1 << 20, 1 << 30, 3 << 29, 12345}[r.Intn(5)]
		in = append(in, int64(1+r.Intn(nr)), cpu, mem)
	}
	nops := 3 + r.Intn(9)
	life := make([]int, np+1)
	in = append(in, int64(nops))
	for j := 0; j < nops; j++ {
		u := 1 + r.Intn(np)
		var kind int64
		switch life[u] {
		case 0:
			kind = 1
		case 1:
			kind = []int64{3, 3, 3, 2}[r.Intn(4)]
		case 2:
			kind = []int64{5, 5, 4, 7, 7}[r.Intn(5)]
		case 4:
			kind = 4
		default:
			kind = int64(1 + r.Intn(7))
		}
		if r.Intn(10) == 0 {
			kind, u = 8, 1+r.Intn(nr)
		} else if r.Intn(12) == 0 {
			kind = int64(1 + r.Intn(7))
		}
		if kind != 8 {
			switch {
			case kind == 1 && life[u] == 0:
				life[u] = 1
			case kind == 2 && life[u] == 1:
				life[u] = 0
			case kind == 3 && life[u] == 1:
				life[u] = 2
			case kind == 4 && (life[u] == 2 || life[u] == 4):
				life[u] = 3
			case kind == 7 && life[u] == 2:
				life[u] = 4
			}
		}
		in = append(in, kind, int64(u))
	}
	var script [][2]int64
	perm := r.Perm(np)
	for _, p := range perm[:r.Intn(np+1)] {
		script = append(script, [2]int64{1, int64(p + 1)})
	}
	for k := r.Intn(4); k > 0; k-- {
		script = append(script, [2]int64{int64(1 + r.Intn(3)), int64(1 + r.Intn(np))})
	}
	for k := r.Intn(3); k > 0; k-- {
		script = append(script, [2]int64{8, int64(1 + r.Intn(np))})
	}
	if style == "any-order" {
		for q := 1; q <= nr; q++ {
			if r.Intn(3) != 0 {
				script = append(script, [2]int64{6, int64(q)})
			}
		}
	}
	r.Shuffle(len(script), func(a, b int) { script[a], script[b] = script[b], script[a] })
	in = append(in, int64(len(script)))
	for _, e := range script {
		in = append(in, e[0], e[1])
	}
	return style, in
}

func TestVerifC19Rsv(t *testing.T) {
	vtC19RT = t
	vtMain(t, "C19", vtC19RsvGen, vtC19RsvExec)
}
