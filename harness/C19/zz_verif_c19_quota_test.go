//go:build verif

package core

// C19 / stream "quota": the elastic-quota manager's pod cache and Used accounting across a restart.
//
// input:  NQ quotasFirst  P then P records (quota cpuMilli memBytes)   (pod uid = position; quota in 1..NQ)
//         K live steps (kind uid): 6 created (OnPodAdd pending) 1 ReservePod 2 UnreservePod 3 bind (OnPodUpdate)
//                                  4 OnPodDelete 5 OnPodUpdate (no change) 7 OnPodUpdate: terminated
//         S replay events (kind uid): 1 OnPodAdd(stored) 2 OnPodUpdate(stored,stored) 3 OnPodUpdate(stored, pending)
//             6 q: (quotasFirst = 0) ElasticQuota q arrives; the pods parked for it in the default quota are moved by MigratePod
//         with quotasFirst = 0 a pod whose quota is not yet known is handled in the default quota, as the plugin does
// observable after every live step, for the LIVE manager then for a FRESH manager (same quotas) fed
// with the stored pods: Used cpu, mem of quota 1..NQ (GetQuotaSummaries), then per pod: in PodCache, isAssigned.

import (
	"fmt"
	"math/rand"
	"testing"

	v1 "k8s.io/api/core/v1"
	"k8s.io/apimachinery/pkg/api/resource"
	metav1 "k8s.io/apimachinery/pkg/apis/meta/v1"
	"k8s.io/apimachinery/pkg/types"

	"github.com/koordinator-sh/koordinator/apis/extension"
)

func vtC19QName(q int64) string { return fmt.Sprintf("q%02d", q) }

func vtC19QNew(nq int) *GroupQuotaManager {
	gqm := NewGroupQuotaManagerForTest()
	gqm.UpdateClusterTotalResource(createResourceList(1<<20, 1<<50))
	for q := 1; q <= nq; q++ {
		quota := CreateQuota(vtC19QName(int64(q)), "koordinator-root-quota", 1<<20, 1<<50, 0, 0, true, false)
		if err := gqm.UpdateQuota(quota); err != nil {
			panic(err)
		}
	}
	return gqm
}

func vtC19QSnapshot(obs []int64, gqm *GroupQuotaManager, nq, np int, quotaOf []int64) []int64 {
	sums := gqm.GetQuotaSummaries(true)
	for q := 1; q <= nq; q++ {
		s := sums[vtC19QName(int64(q))]
		if s == nil {
			obs = append(obs, -1, -1)
			continue
		}
		obs = append(obs, s.Used.Cpu().MilliValue(), s.Used.Memory().Value())
	}
	for u := 1; u <= np; u++ {
		s := sums[vtC19QName(quotaOf[u])]
		var ex, as int64
		if s != nil {
			if pi, ok := s.PodCache[fmt.Sprintf("default/p%02d", u)]; ok {
				ex = 1
				as = vtB(pi.IsAssigned)
			}
		}
		obs = append(obs, ex, as)
	}
	return obs
}

func vtC19QuotaExec(in []int64) []int64 {
	pos := 0
	next := func() int64 {
		if pos >= len(in) {
			return 0
		}
		v := in[pos]
		pos++
		return v
	}
	nq := int(next())
	quotasFirst := next()
	np := int(next())
	quotaOf := make([]int64, np+1)
	pending := make([]*v1.Pod, np+1)
	for u := 1; u <= np; u++ {
		quotaOf[u] = next()
		cpu, mem := next(), next()
		pending[u] = &v1.Pod{
			ObjectMeta: metav1.ObjectMeta{Namespace: "default", Name: fmt.Sprintf("p%02d", u), UID: types.UID(fmt.Sprintf("u%02d", u))},
			Spec: v1.PodSpec{Containers: []v1.Container{{Name: "c", Resources: v1.ResourceRequirements{Requests: v1.ResourceList{
				v1.ResourceCPU:    *resource.NewMilliQuantity(cpu, resource.DecimalSI),
				v1.ResourceMemory: *resource.NewQuantity(mem, resource.BinarySI)}}}}},
		}
	}
	type step struct{ kind, id int64 }
	var ops, script []step
	for k := next(); k > 0; k-- {
		ops = append(ops, step{next(), next()})
	}
	for k := next(); k > 0; k-- {
		script = append(script, step{next(), next()})
	}
	live := vtC19QNew(nq)
	life := make([]int, np+1)
	stored := make([]*v1.Pod, np+1)
	for u := 1; u <= np; u++ {
		life[u] = 9
	}
	var obs []int64
	for _, op := range ops {
		u := int(op.id)
		if u >= 1 && u <= np {
			q := vtC19QName(quotaOf[u])
			switch {
			case op.kind == 6 && life[u] == 9:
				stored[u] = pending[u]
				live.OnPodAdd(q, pending[u])
				life[u] = 0
			case op.kind == 1 && life[u] == 0:
				live.ReservePod(q, pending[u])
				life[u] = 1
			case op.kind == 2 && life[u] == 1:
				live.UnreservePod(q, pending[u])
				life[u] = 0
			case op.kind == 3 && life[u] == 1:
				b := pending[u].DeepCopy()
				b.Spec.NodeName = "n01"
				live.OnPodUpdate(q, q, b, pending[u])
				stored[u] = b
				life[u] = 2
			case op.kind == 4 && (life[u] == 0 || life[u] == 2 || life[u] == 4):
				live.OnPodDelete(q, stored[u])
				life[u] = 3
			case op.kind == 5 && life[u] == 2:
				live.OnPodUpdate(q, q, stored[u].DeepCopy(), stored[u])
			case op.kind == 7 && life[u] == 2:
				t := stored[u].DeepCopy()
				t.Status.Phase = v1.PodSucceeded
				live.OnPodUpdate(q, q, t, stored[u])
				stored[u] = t
				life[u] = 4
			}
		}
		obs = vtC19QSnapshot(obs, live, nq, np, quotaOf)

		fresh := vtC19QNew(nq)
		known := make([]bool, nq+1)
		if quotasFirst == 0 {
			fresh = vtC19QNew(0)
		} else {
			for q := range known {
				known[q] = true
			}
		}
		seen := make([]bool, np+1)
		deliver := func(ev step) {
			id := int(ev.id)
			if ev.kind == 6 {
				if quotasFirst != 0 || id < 1 || id > nq || known[id] {
					return
				}
				known[id] = true
				if err := fresh.UpdateQuota(CreateQuota(vtC19QName(int64(id)), "koordinator-root-quota", 1<<20, 1<<50, 0, 0, true, false)); err != nil {
					panic(err)
				}
				for u := 1; u <= np; u++ { // migrateDefaultQuotaGroupsPod
					if quotaOf[u] == int64(id) && life[u] != 3 && life[u] != 9 {
						if qi := fresh.GetQuotaInfoByName(extension.DefaultQuotaName); qi != nil && qi.IsPodExist(stored[u]) {
							fresh.MigratePod(stored[u].DeepCopy(), extension.DefaultQuotaName, vtC19QName(int64(id)))
						}
					}
				}
				return
			}
			if id < 1 || id > np || life[id] == 3 || life[id] == 9 {
				return
			}
			q := vtC19QName(quotaOf[id])
			if !known[quotaOf[id]] {
				q = extension.DefaultQuotaName
			}
			switch ev.kind {
			case 1:
				fresh.OnPodAdd(q, stored[id].DeepCopy())
				seen[id] = true
			case 2:
				fresh.OnPodUpdate(q, q, stored[id].DeepCopy(), stored[id].DeepCopy())
			case 3:
				fresh.OnPodUpdate(q, q, stored[id].DeepCopy(), pending[id].DeepCopy())
			}
		}
		for _, ev := range script {
			deliver(ev)
		}
		for q := 1; q <= nq; q++ {
			deliver(step{6, int64(q)})
		}
		for u := 1; u <= np; u++ {
			if !seen[u] {
				deliver(step{1, int64(u)})
			}
		}
		obs = vtC19QSnapshot(obs, fresh, nq, np, quotaOf)
	}
	return obs
}

func vtC19QuotaGen(r *rand.Rand, i int) (string, []int64) {
	style := []string{"no-terminated", "no-terminated", "with-terminated", "quotas-late"}[r.Intn(4)]
	nq := 1 + r.Intn(3)
	np := 2 + r.Intn(4)
	first := int64(1)
	if style == "quotas-late" {
		first = 0
	}
	in := []int64{int64(nq), first, int64(np)}
	for u := 1; u <= np; u++ {
		cpu := int64(r.Intn(5)) * 500
		if r.Intn(5) == 0 {
			cpu = vtQty(r, 1<<19)
		}
		mem := []int64{0, 1 << 20, 1 << 30, 3 << 29, 12345}[r.Intn(5)]
		in = append(in, int64(1+r.Intn(nq)), cpu, mem)
	}
	nops := 4 + r.Intn(10)
	life := make([]int, np+1)
	for u := range life {
		life[u] = 9
	}
	in = append(in, int64(nops))
	for j := 0; j < nops; j++ {
		u := 1 + r.Intn(np)
		var kind int64
		switch life[u] {
		case 9:
			kind = 6
		case 0:
			kind = []int64{1, 1, 1, 4}[r.Intn(4)]
		case 1:
			kind = []int64{3, 3, 3, 2}[r.Intn(4)]
		case 2:
			kind = []int64{5, 5, 4, 4}[r.Intn(4)]
			if style == "with-terminated" && r.Intn(2) == 0 {
				kind = 7
			}
		case 4:
			kind = 4
		default:
			kind = int64(1 + r.Intn(7))
		}
		if r.Intn(12) == 0 {
			kind = int64(1 + r.Intn(7))
			if style != "with-terminated" && kind == 7 {
				kind = 5
			}
		}
		switch {
		case kind == 6 && life[u] == 9:
			life[u] = 0
		case kind == 1 && life[u] == 0:
			life[u] = 1
		case kind == 2 && life[u] == 1:
			life[u] = 0
		case kind == 3 && life[u] == 1:
			life[u] = 2
		case kind == 4 && (life[u] == 0 || life[u] == 2 || life[u] == 4):
			life[u] = 3
		case kind == 7 && life[u] == 2:
			life[u] = 4
		}
		in = append(in, kind, int64(u))
	}
	var script [][2]int64
	perm := r.Perm(np)
	for _, p := range perm[:r.Intn(np+1)] {
		script = append(script, [2]int64{1, int64(p + 1)})
	}
	for k := r.Intn(4); k > 0; k-- {
		script = append(script, [2]int64{int64(1 + r.Intn(3)), int64(1 + r.Intn(np))})
	}
	if style == "quotas-late" {
		for q := 1; q <= nq; q++ {
			if r.Intn(3) != 0 {
				script = append(script, [2]int64{6, int64(q)})
			}
		}
	}
	r.Shuffle(len(script), func(a, b int) { script[a], script[b] = script[b], script[a] })
	in = append(in, int64(len(script)))
	for _, e := range script {
		in = append(in, e[0], e[1])
	}
	return style, in
}

func TestVerifC19Quota(t *testing.T) { vtMain(t, "C19", vtC19QuotaGen, vtC19QuotaExec) }
