//go:build verif

package cpuset

// C19 / stream "cpuset": the codec of the persisted cpuset string.
//
// input:  1 k c1..ck            build NewCPUSet(c...), String() it, Parse the string back
//         2 k (m f1..fm)*k      render an arbitrary comma/dash structured string and Parse it
//                               field >= 0: decimal number, -1: empty text, -2: "x"
// observable, mode 1: the string tokenised ( items, each: m fields ) then  ok n e1..en
//             mode 2: ok n e1..en       (sorted elements of the parsed set; ok = 0 on error)

import (
	"math/rand"
	"strconv"
	"strings"
	"testing"
)

func vtC19Tokens(s string) []int64 {
	items := strings.Split(s, ",")
	out := []int64{int64(len(items))}
	for _, it := range items {
		fs := strings.Split(it, "-")
		out = append(out, int64(len(fs)))
		for _, f := range fs {
			if f == "" {
				out = append(out, -1)
			} else if v, err := strconv.ParseInt(f, 10, 64); err == nil && v >= 0 {
				out = append(out, v)
			} else {
				out = append(out, -2)
			}
		}
	}
	return out
}

func vtC19ParseObs(out []int64, s string) []int64 {
	set, err := Parse(s)
	if err != nil {
		return append(out, 0, 0)
	}
	el := set.ToSlice()
	out = append(out, 1, int64(len(el)))
	for _, e := range el {
		out = append(out, int64(e))
	}
	return out
}

func vtC19CpusetExec(in []int64) []int64 {
	if len(in) < 2 {
		return []int64{-1}
	}
	k := int(in[1])
	switch in[0] {
	case 1:
		var cpus []int
		for _, c := range in[2 : 2+k] {
			cpus = append(cpus, int(c))
		}
		s := NewCPUSet(cpus...).String()
		return vtC19ParseObs(vtC19Tokens(s), s)
	default:
		pos := 2
		var items []string
		for i := 0; i < k; i++ {
			m := int(in[pos])
			pos++
			var fs []string
			for j := 0; j < m; j++ {
				switch v := in[pos]; {
				case v >= 0:
					fs = append(fs, strconv.FormatInt(v, 10))
				case v == -1:
					fs = append(fs, "")
				default:
					fs = append(fs, "x")
				}
				pos++
			}
			items = append(items, strings.Join(fs, "-"))
		}
		return vtC19ParseObs(nil, strings.Join(items, ","))
	}
}

func vtC19CpusetGen(r *rand.Rand, i int) (string, []int64) {
	num := func() int64 {
		switch r.Intn(12) {
		case 0:
			return []int64{4095, 4096, 4097, 5000}[r.Intn(4)]
		case 1:
			return []int64{2147483647, 2147483648, 1 << 40}[r.Intn(3)]
		case 2, 3:
			return int64(r.Intn(200))
		default:
			return int64(r.Intn(24))
		}
	}
	if r.Intn(2) == 0 {
		style := []string{"format-dense", "format-sparse", "format-boundary"}[r.Intn(3)]
		k := r.Intn(14)
		in := []int64{1, int64(k)}
		for j := 0; j < k; j++ {
			switch style {
			case "format-dense":
				in = append(in, int64(r.Intn(16)))
			case "format-sparse":
				in = append(in, int64(r.Intn(300)))
			default:
				in = append(in, []int64{0, 1, 2, 4094, 4095, 4096, 4097, 4098, 63, 64, 65}[r.Intn(11)])
			}
		}
		return style, in
	}
	style := []string{"parse-wellformed", "parse-wellformed", "parse-malformed"}[r.Intn(3)]
	k := 1 + r.Intn(5)
	in := []int64{2, int64(k)}
	for j := 0; j < k; j++ {
		m := 1 + r.Intn(2)
		if style == "parse-malformed" && r.Intn(4) == 0 {
			m = 3
		}
		in = append(in, int64(m))
		var prev int64
		for f := 0; f < m; f++ {
			v := num()
			if f == 1 && (r.Intn(3) != 0 || (v > prev+48 && v < 1<<31)) {
				v = prev + int64(r.Intn(6)) // mostly short ascending ranges, sometimes reversed (wide ones only cost time)
			}
			if style == "parse-malformed" && r.Intn(5) == 0 {
				v = int64(-1 - r.Intn(2))
			}
			prev = v
			in = append(in, v)
		}
	}
	if r.Intn(30) == 0 {
		in = []int64{2, 1, 1, -1} // the empty string
	}
	return style, in
}

func TestVerifC19Cpuset(t *testing.T) { vtMain(t, "C19", vtC19CpusetGen, vtC19CpusetExec) }
