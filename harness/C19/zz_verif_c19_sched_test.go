//go:build verif

package reservation

// C19 / stream "sched": the Reservation object's own way into the scheduler across a restart.
//
// The amount a bound reservation holds on its node is persisted on the Reservation at bind time
// (status.nodeName, status.allocatable, phase Available).  The scheduler holds it through the
// reserve pod in the kube-scheduler cache (NodeInfo.Requested) and through the plugin's
// ReservationInfo.  Both are driven ONLY by informer events on the Reservation:
//   - the plugin's reservationEventHandler (OnAdd / OnUpdate / OnDelete), registered first,
//   - the global handler registered by eventhandlers.AddScheduleEventHandler (addReservation /
//     updateReservation / deleteReservation), captured here from the real registration call.
// The scheduler cache is the real kube-scheduler cache (backend/cache); the queue is
// frameworkext.FakeQueue (a set).  Reserve / Unreserve of the reserve pod are the plugin's.
//
// input:  NN
//         NR  then NR records   reqCpuMilli reqMemBytes schedulerName shape
//              schedulerName: 0 "koord-scheduler" 1 "default-scheduler" 2 "" (= default) 3 "other-scheduler" (not served)
//              shape bit0: the request is split over two containers; bit1: phase Pending is spelled ""
//         K   then K live steps   kind r x y z   (see coq/C19/ModelSched.v wstep)
//         S   then S replay events kind r        1 Add(stored object) 2 Update(object, same object)
// observable after every live step, for the LIVE process and then for a FRESH process fed with the
// stored objects only: per reservation 1..NR  st(0 absent 1 added 2 assumed) node cpuMilli memBytes inQueue hasReservationInfo;
// per node 1..NN  NodeInfo.Requested.MilliCPU  .Memory  len(Pods).

import (
	"context"
	"fmt"
	"math/rand"
	"strconv"
	"testing"
	"time"

	corev1 "k8s.io/api/core/v1"
	"k8s.io/apimachinery/pkg/api/resource"
	metav1 "k8s.io/apimachinery/pkg/apis/meta/v1"
	"k8s.io/apimachinery/pkg/types"
	"k8s.io/client-go/informers"
	kubefake "k8s.io/client-go/kubernetes/fake"
	"k8s.io/client-go/tools/cache"
	resourceapi "k8s.io/component-helpers/resource"
	"k8s.io/klog/v2"
	fwktype "k8s.io/kube-scheduler/framework"
	"k8s.io/kubernetes/pkg/scheduler"
	internalcache "k8s.io/kubernetes/pkg/scheduler/backend/cache"
	"k8s.io/kubernetes/pkg/scheduler/framework"
	"k8s.io/kubernetes/pkg/scheduler/framework/plugins/defaultbinder"
	"k8s.io/kubernetes/pkg/scheduler/framework/plugins/queuesort"
	frameworkruntime "k8s.io/kubernetes/pkg/scheduler/framework/runtime"
	schedulermetrics "k8s.io/kubernetes/pkg/scheduler/metrics"
	"k8s.io/kubernetes/pkg/scheduler/profile"
	schedulertesting "k8s.io/kubernetes/pkg/scheduler/testing/framework"
	"k8s.io/utils/ptr"

	schedulingv1alpha1 "github.com/koordinator-sh/koordinator/apis/scheduling/v1alpha1"
	koordinatorinformers "github.com/koordinator-sh/koordinator/pkg/client/informers/externalversions"
	schedulinginformers "github.com/koordinator-sh/koordinator/pkg/client/informers/externalversions/scheduling"
	schedulingv1alpha1informers "github.com/koordinator-sh/koordinator/pkg/client/informers/externalversions/scheduling/v1alpha1"
	"github.com/koordinator-sh/koordinator/pkg/scheduler/frameworkext"
	"github.com/koordinator-sh/koordinator/pkg/scheduler/frameworkext/eventhandlers"
	reservationutil "github.com/koordinator-sh/koordinator/pkg/util/reservation"
)

var vtC19ST *testing.T

var vtC19SNames = []string{"koord-scheduler", corev1.DefaultSchedulerName, "", "other-scheduler"}

func vtC19SNode(n int64) string {
	if n == 0 {
		return ""
	}
	return fmt.Sprintf("n%02d", n)
}
func vtC19SUID(r int) types.UID { return types.UID(fmt.Sprintf("r%02d", r)) }

// --- a koordinator informer factory that only records the handler registered on the Reservation informer
type vtC19SInformer struct {
	cache.SharedIndexInformer
	h cache.ResourceEventHandler
}

func (i *vtC19SInformer) AddEventHandler(h cache.ResourceEventHandler) (cache.ResourceEventHandlerRegistration, error) {
	i.h = h
	return nil, nil
}

type vtC19SRsvInformer struct {
	schedulingv1alpha1informers.ReservationInformer
	inf *vtC19SInformer
}

func (r *vtC19SRsvInformer) Informer() cache.SharedIndexInformer { return r.inf }

type vtC19SV1 struct {
	schedulingv1alpha1informers.Interface
	inf *vtC19SInformer
}

func (v *vtC19SV1) Reservations() schedulingv1alpha1informers.ReservationInformer {
	return &vtC19SRsvInformer{inf: v.inf}
}

type vtC19SGroup struct {
	schedulinginformers.Interface
	inf *vtC19SInformer
}

func (g *vtC19SGroup) V1alpha1() schedulingv1alpha1informers.Interface { return &vtC19SV1{inf: g.inf} }

type vtC19SFactory struct {
	koordinatorinformers.SharedInformerFactory
	inf *vtC19SInformer
}

func (f *vtC19SFactory) Scheduling() schedulinginformers.Interface { return &vtC19SGroup{inf: f.inf} }

// --- frameworkext.Scheduler over the real kube-scheduler cache and a FakeQueue
type vtC19SCache struct{ internalcache.Cache }

func (c vtC19SCache) InvalidNodeInfo(logger klog.Logger, nodeName string) error { return nil }

type vtC19SAdapter struct {
	c internalcache.Cache
	q *frameworkext.FakeQueue
}

func (a *vtC19SAdapter) GetCache() frameworkext.SchedulerCache          { return vtC19SCache{a.c} }
func (a *vtC19SAdapter) GetSchedulingQueue() frameworkext.SchedulingQueue { return a.q }
func (a *vtC19SAdapter) StopEverything() <-chan struct{}                 { return nil }

// one scheduler process
type vtC19SProc struct {
	pl     *Plugin
	rsvs   *reservationEventHandler
	global cache.ResourceEventHandler
	ad     *vtC19SAdapter
}

func vtC19SNewProc(ctx context.Context, suit *pluginTestSuit, profiles profile.Map) *vtC19SProc {
	p, err := suit.pluginFactory()
	if err != nil {
		panic(err)
	}
	pl := p.(*Plugin)
	ad := &vtC19SAdapter{c: internalcache.New(ctx, 0, nil), q: &frameworkext.FakeQueue{
		Pods: map[string]*corev1.Pod{}, UnschedulablePods: map[string]*corev1.Pod{},
		AssignedPods: map[string]*corev1.Pod{}, AssignedUpdatedPods: map[string]*corev1.Pod{}}}
	inf := &vtC19SInformer{}
	kubeFactory := informers.NewSharedInformerFactory(kubefake.NewSimpleClientset(), 0)
	eventhandlers.AddScheduleEventHandler(&scheduler.Scheduler{Profiles: profiles}, ad, kubeFactory, &vtC19SFactory{inf: inf}, nil)
	if inf.h == nil {
		panic("no reservation handler registered")
	}
	return &vtC19SProc{pl: pl, rsvs: &reservationEventHandler{cache: pl.reservationCache, rrNominator: pl.nominator}, global: inf.h, ad: ad}
}

// the global handler looks the plugin caches up in a process-wide registry
func (p *vtC19SProc) enter() {
	frameworkext.ClearReservationCache()
	frameworkext.SetReservationCache(p.pl, "koord-scheduler")
}
func (p *vtC19SProc) onAdd(r *schedulingv1alpha1.Reservation) {
	p.enter()
	p.rsvs.OnAdd(r.DeepCopy(), false)
	p.global.OnAdd(r.DeepCopy(), false)
}
func (p *vtC19SProc) onUpdate(o, n *schedulingv1alpha1.Reservation) {
	p.enter()
	p.rsvs.OnUpdate(o.DeepCopy(), n.DeepCopy())
	p.global.OnUpdate(o.DeepCopy(), n.DeepCopy())
}
func (p *vtC19SProc) onDelete(r *schedulingv1alpha1.Reservation, tombstone bool) {
	p.enter()
	var a, b interface{} = r.DeepCopy(), r.DeepCopy()
	if tombstone {
		a = cache.DeletedFinalStateUnknown{Key: r.Name, Obj: a}
		b = cache.DeletedFinalStateUnknown{Key: r.Name, Obj: b}
	}
	p.rsvs.OnDelete(a)
	p.global.OnDelete(b)
}

func (p *vtC19SProc) snapshot(obs []int64, nn, nr int) []int64 {
	dump := p.ad.c.Dump()
	for r := 1; r <= nr; r++ {
		uid := vtC19SUID(r)
		var st, node, cpu, mem int64
		for n := 1; n <= nn; n++ {
			ni := dump.Nodes[vtC19SNode(int64(n))]
			if ni == nil {
				continue
			}
			for _, pi := range ni.Pods {
				pod := pi.GetPod()
				if pod.UID != uid {
					continue
				}
				if st != 0 {
					st = 3 // held twice
					continue
				}
				st, node = 1, int64(n)
				if dump.AssumedPods.Has(string(uid)) {
					st = 2
				}
				req := resourceapi.PodRequests(pod, resourceapi.PodResourcesOptions{})
				cpu, mem = req.Cpu().MilliValue(), req.Memory().Value()
			}
		}
		_, inq := p.ad.q.Pods[string(uid)]
		known := p.pl.reservationCache.getReservationInfoByUID(uid) != nil
		obs = append(obs, st, node, cpu, mem, vtB(inq), vtB(known))
	}
	for n := 1; n <= nn; n++ {
		ni := dump.Nodes[vtC19SNode(int64(n))]
		if ni == nil {
			obs = append(obs, 0, 0, 0)
			continue
		}
		obs = append(obs, ni.Requested.MilliCPU, ni.Requested.Memory, int64(len(ni.Pods)))
	}
	return obs
}

// the stored object of one reservation
type vtC19SObj struct {
	phase, node, sname int64
	allocCpu, allocMem int64
	hasAlloc           bool
}
type vtC19SDesc struct{ cpu, mem, sname, shape int64 }

func vtC19SBuild(r int, d vtC19SDesc, o vtC19SObj, rv int) *schedulingv1alpha1.Reservation {
	rl := func(cpu, mem int64) corev1.ResourceList {
		return corev1.ResourceList{
			corev1.ResourceCPU:    *resource.NewMilliQuantity(cpu, resource.DecimalSI),
			corev1.ResourceMemory: *resource.NewQuantity(mem, resource.BinarySI)}
	}
	containers := []corev1.Container{{Name: "c", Resources: corev1.ResourceRequirements{Requests: rl(d.cpu, d.mem)}}}
	if d.shape&1 != 0 {
		containers = []corev1.Container{
			{Name: "c", Resources: corev1.ResourceRequirements{Requests: rl(d.cpu/2, d.mem/2)}},
			{Name: "d", Resources: corev1.ResourceRequirements{Requests: rl(d.cpu-d.cpu/2, d.mem-d.mem/2)}}}
	}
	phase := []schedulingv1alpha1.ReservationPhase{schedulingv1alpha1.ReservationPending, schedulingv1alpha1.ReservationAvailable,
		schedulingv1alpha1.ReservationFailed, schedulingv1alpha1.ReservationSucceeded}[o.phase]
	if o.phase == 0 && d.shape&2 != 0 {
		phase = ""
	}
	res := &schedulingv1alpha1.Reservation{
		ObjectMeta: metav1.ObjectMeta{Name: fmt.Sprintf("r%02d", r), UID: vtC19SUID(r), ResourceVersion: strconv.Itoa(rv)},
		Spec: schedulingv1alpha1.ReservationSpec{
			Template:     &corev1.PodTemplateSpec{Spec: corev1.PodSpec{SchedulerName: vtC19SNames[o.sname], Containers: containers}},
			Owners:       []schedulingv1alpha1.ReservationOwner{{Object: &corev1.ObjectReference{Name: "x"}}},
			TTL:          &metav1.Duration{Duration: time.Hour},
			AllocateOnce: ptr.To(false),
		},
		Status: schedulingv1alpha1.ReservationStatus{Phase: phase, NodeName: vtC19SNode(o.node)},
	}
	if o.hasAlloc {
		res.Status.Allocatable = rl(o.allocCpu, o.allocMem)
	}
	return res
}

func vtC19SchedExec(in []int64) []int64 {
	pos := 0
	next := func() int64 {
		if pos >= len(in) {
			return 0
		}
		v := in[pos]
		pos++
		return v
	}
	nn := int(next())
	nr := int(next())
	descs := make([]vtC19SDesc, nr+1)
	for r := 1; r <= nr; r++ {
		descs[r] = vtC19SDesc{next(), next(), next(), next()}
	}
	type step struct{ k, r, x, y, z int64 }
	var ops []step
	for k := next(); k > 0; k-- {
		ops = append(ops, step{next(), next(), next(), next(), next()})
	}
	type event struct{ k, r int64 }
	var script []event
	for k := next(); k > 0; k-- {
		script = append(script, event{next(), next()})
	}

	ctx, cancel := context.WithCancel(context.Background())
	defer cancel()
	var nodes []*corev1.Node
	for n := 1; n <= nn; n++ {
		nodes = append(nodes, &corev1.Node{ObjectMeta: metav1.ObjectMeta{Name: vtC19SNode(int64(n))}})
	}
	suit := newPluginTestSuitWith(vtC19ST, nil, nodes)
	rsvIndexer := suit.extenderFactory.KoordinatorSharedInformerFactory().Scheduling().V1alpha1().Reservations().Informer().GetIndexer()
	profiles := profile.Map{}
	for _, name := range []string{"koord-scheduler", corev1.DefaultSchedulerName} {
		fh, err := schedulertesting.NewFramework(ctx, []schedulertesting.RegisterPluginFunc{
			schedulertesting.RegisterBindPlugin(defaultbinder.Name, defaultbinder.New),
			schedulertesting.RegisterQueueSortPlugin(queuesort.Name, queuesort.New),
		}, name, frameworkruntime.WithWaitingPods(frameworkruntime.NewWaitingPodsMap()))
		if err != nil {
			panic(err)
		}
		profiles[name] = fh
	}
	live := vtC19SNewProc(ctx, suit, profiles)

	// the world
	life := make([]int, nr+1)
	obj := make([]vtC19SObj, nr+1)
	asm := make([]int64, nr+1)
	rv := make([]int, nr+1)
	stored := make([]*schedulingv1alpha1.Reservation, nr+1)
	cycle := make([]fwktype.CycleState, nr+1)
	assumedPod := make([]*corev1.Pod, nr+1)

	term := func(o vtC19SObj) bool { return o.phase == 2 || o.phase == 3 }
	gactive := func(o vtC19SObj) bool { return o.node == 0 && !term(o) }
	avail := func(o vtC19SObj) bool { return o.node != 0 && o.phase == 1 }
	resp := func(o vtC19SObj) bool { return o.sname >= 0 && o.sname <= 2 }
	nodeOK := func(x int64) bool { return x >= 1 && x <= int64(nn) }
	logger := klog.Background()

	// a new version of reservation r is stored and the update event delivered to the live process
	put := func(r int, o vtC19SObj) {
		old := stored[r]
		rv[r]++
		obj[r] = o
		stored[r] = vtC19SBuild(r, descs[r], o, rv[r])
		rsvIndexer.Update(stored[r])
		live.onUpdate(old, stored[r])
	}

	var obs []int64
	for _, op := range ops {
		r := int(op.r)
		if r >= 1 && r <= nr {
			o := obj[r]
			yzOK := op.y >= 0 && op.z >= 0
			isStored := life[r] == 1
			switch {
			case op.k == 1 && life[r] == 0 && (op.x == 0 || (nodeOK(op.x) && yzOK)):
				o = vtC19SObj{phase: 0, sname: descs[r].sname}
				if op.x != 0 {
					o = vtC19SObj{phase: 1, node: op.x, sname: descs[r].sname, allocCpu: op.y, allocMem: op.z, hasAlloc: true}
				}
				rv[r]++
				obj[r], life[r] = o, 1
				stored[r] = vtC19SBuild(r, descs[r], o, rv[r])
				rsvIndexer.Add(stored[r])
				live.onAdd(stored[r])
			case op.k == 2 && isStored && gactive(o) && resp(o) && asm[r] == 0 && nodeOK(op.x):
				reservePod := reservationutil.NewReservePod(stored[r])
				cs := framework.NewCycleState()
				cs.Write(stateKey, &stateData{})
				if s := live.pl.Reserve(ctx, cs, reservePod, vtC19SNode(op.x)); !s.IsSuccess() {
					panic(s.Message())
				}
				ap := reservePod.DeepCopy()
				ap.Spec.NodeName = vtC19SNode(op.x)
				if err := live.ad.c.AssumePod(logger, ap); err != nil {
					panic(err)
				}
				delete(live.ad.q.Pods, string(reservePod.UID)) // popped by the scheduling cycle
				cycle[r], assumedPod[r], asm[r] = cs, ap, op.x
			case op.k == 3 && asm[r] != 0:
				live.pl.Unreserve(ctx, cycle[r], assumedPod[r], vtC19SNode(asm[r]))
				_ = live.ad.c.ForgetPod(logger, assumedPod[r])
				if isStored && gactive(o) && resp(o) {
					live.ad.q.Add(logger, reservationutil.NewReservePod(stored[r])) // the failure handler re-queues it
				}
				asm[r] = 0
			case op.k == 4 && isStored && o.phase == 0 && o.node == 0 && yzOK && (asm[r] != 0 || nodeOK(op.x)):
				node := op.x
				if asm[r] != 0 {
					node = asm[r]
				}
				asm[r] = 0
				put(r, vtC19SObj{phase: 1, node: node, sname: o.sname, allocCpu: op.y, allocMem: op.z, hasAlloc: true})
			case op.k == 5 && isStored:
				live.onUpdate(stored[r], stored[r])
			case op.k == 6 && isStored && !term(o) && (op.x == 2 || op.x == 3):
				o.phase = op.x
				put(r, o)
			case op.k == 7 && isStored:
				rsvIndexer.Delete(stored[r])
				live.onDelete(stored[r], op.x == 1)
				life[r] = 2
			case op.k == 8 && isStored && op.x >= 0 && op.x <= 3:
				o.sname = op.x
				put(r, o)
			case op.k == 9 && isStored && avail(o) && yzOK:
				o.allocCpu, o.allocMem = op.y, op.z
				put(r, o)
			case op.k == 10 && isStored && avail(o) && nodeOK(op.x) && op.x != o.node:
				o.node = op.x
				put(r, o)
			case op.k == 11 && isStored && avail(o):
				o.phase, o.node = 0, 0
				put(r, o)
			}
		}
		obs = live.snapshot(obs, nn, nr)

		fctx, fcancel := context.WithCancel(ctx)
		fresh := vtC19SNewProc(fctx, suit, profiles)
		seen := make([]bool, nr+1)
		deliver := func(ev event) {
			id := int(ev.r)
			if id < 1 || id > nr || life[id] != 1 {
				return
			}
			switch ev.k {
			case 1:
				fresh.onAdd(stored[id])
				seen[id] = true
			case 2:
				fresh.onUpdate(stored[id], stored[id])
			}
		}
		for _, ev := range script {
			deliver(ev)
		}
		for r := 1; r <= nr; r++ {
			if !seen[r] {
				deliver(event{1, int64(r)})
			}
		}
		obs = fresh.snapshot(obs, nn, nr)
		fcancel()
	}
	return obs
}

func vtC19SchedGen(rg *rand.Rand, i int) (string, []int64) {
	style := []string{"single-scheduler", "multi-scheduler", "multi-scheduler", "renames", "boundary"}[rg.Intn(5)]
	nn := 1 + rg.Intn(3)
	nr := 2 + rg.Intn(3)
	in := []int64{int64(nn), int64(nr)}
	qty := func(unit int64) int64 {
		if style == "boundary" {
			return []int64{0, 1, unit - 1, unit, 1 << 31, (1 << 31) + 1, 1 << 40, 999}[rg.Intn(8)]
		}
		return int64(rg.Intn(6)) * unit / 2
	}
	sname := func() int64 {
		switch style {
		case "single-scheduler":
			return []int64{0, 0, 1, 2}[rg.Intn(4)]
		default:
			return int64(rg.Intn(4))
		}
	}
	for r := 1; r <= nr; r++ {
		in = append(in, qty(1000), qty(1<<30), sname(), int64(rg.Intn(4)))
	}
	nops := 3 + rg.Intn(10)
	in = append(in, int64(nops))
	// a light-weight copy of the world so that most steps are enabled
	type w struct {
		life, phase, node, sname, asm int64
	}
	ws := make([]w, nr+1)
	for r := 1; r <= nr; r++ {
		ws[r].sname = in[2+4*(r-1)+2]
	}
	for j := 0; j < nops; j++ {
		r := 1 + rg.Intn(nr)
		s := &ws[r]
		node := int64(1 + rg.Intn(nn))
		var k, x, y, z int64
		y, z = qty(1000), qty(1<<30)
		if rg.Intn(2) == 0 {
			y, z = in[2+4*(r-1)], in[2+4*(r-1)+1] // allocatable = requests, the common case
		}
		served := s.sname <= 2
		switch {
		case s.life == 0:
			k = 1
			if rg.Intn(4) == 0 {
				x = node
			}
		case s.life == 2:
			k = []int64{3, 1, 5}[rg.Intn(3)]
		case s.phase == 0 && s.asm == 0 && served:
			k = []int64{2, 2, 2, 4, 6, 7, 8, 5}[rg.Intn(8)]
		case s.phase == 0 && s.asm == 0:
			k = []int64{4, 4, 4, 8, 6, 7, 5, 2}[rg.Intn(8)]
		case s.phase == 0:
			k = []int64{4, 4, 4, 3, 8, 6, 7, 5}[rg.Intn(8)]
		case s.phase == 1:
			k = []int64{5, 5, 9, 8, 8, 6, 7, 11}[rg.Intn(8)]
		default:
			k = []int64{7, 5, 8, 6, 3}[rg.Intn(5)]
		}
		if style == "renames" && s.life == 1 && rg.Intn(3) == 0 {
			k = 8
		}
		if rg.Intn(15) == 0 {
			k = int64(1 + rg.Intn(11))
			if k == 10 {
				k = 9
			}
		}
		switch k {
		case 2, 4:
			x = node
		case 6:
			x = int64(2 + rg.Intn(2))
		case 7:
			x = int64(rg.Intn(2))
		case 8:
			x = int64(rg.Intn(4))
			if style == "single-scheduler" {
				x = int64(rg.Intn(3))
			}
		}
		in = append(in, k, int64(r), x, y, z)
		// mirror of wstep
		stored := s.life == 1
		term := s.phase == 2 || s.phase == 3
		switch {
		case k == 1 && s.life == 0:
			s.life = 1
			if x != 0 {
				s.phase, s.node = 1, x
			}
		case k == 2 && stored && s.node == 0 && !term && served && s.asm == 0:
			s.asm = x
		case k == 3 && s.asm != 0:
			s.asm = 0
		case k == 4 && stored && s.phase == 0 && s.node == 0:
			s.phase, s.node = 1, x
			if s.asm != 0 {
				s.node = s.asm
			}
			s.asm = 0
		case k == 6 && stored && !term:
			s.phase = x
		case k == 7 && stored:
			s.life = 2
		case k == 8 && stored:
			s.sname = x
		case k == 11 && stored && s.phase == 1 && s.node != 0:
			s.phase, s.node = 0, 0
		}
	}
	var script [][2]int64
	perm := rg.Perm(nr)
	for _, p := range perm[:rg.Intn(nr+1)] {
		script = append(script, [2]int64{1, int64(p + 1)})
	}
	for k := rg.Intn(4); k > 0; k-- {
		script = append(script, [2]int64{int64(1 + rg.Intn(2)), int64(1 + rg.Intn(nr))})
	}
	rg.Shuffle(len(script), func(a, b int) { script[a], script[b] = script[b], script[a] })
	in = append(in, int64(len(script)))
	for _, e := range script {
		in = append(in, e[0], e[1])
	}
	return style, in
}

func TestVerifC19Sched(t *testing.T) {
	vtC19ST = t
	schedulermetrics.Register()
	vtMain(t, "C19", vtC19SchedGen, vtC19SchedExec)
}
