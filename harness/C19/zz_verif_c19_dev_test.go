//go:build verif

package deviceshare

// C19 / stream "dev": the deviceshare plugin's per-node device ledger across a scheduler restart.
//
// input:  nodes minors t1a t1b t2a t2b devFirst nvf
//         P then per object (uid = position):  kind node G  then per group: type k (minor a b)*k
//             then VG then per VF group: type k (minor*100+index)*k   (virtual functions of that type's allocation)
//             type 1 = gpu (a = gpu-core, b = gpu-memory-ratio), type 2 = rdma (a = rdma, b unused)
//         K live steps (kind uid): 1 Reserve(+ResizePod) 2 Unreserve 3 PreBind+bind+update 4 delete 5 update(same) 7 terminate
//                                  10 update: deletionTimestamp set (graceful termination; the object still holds its devices)
//         S replay events (kind id): 1 Add 2 Update(obj,obj) 3 Update(pending,obj) 4 Device object of node id arrives
// observable after every live step, for the LIVE plugin then for a FRESH plugin fed with the stored
// objects: per node, per type, per minor: used a b, free a b (getNodeDeviceSummary); then per uid per
// type the allocateSet entry ( 0 | 1 k (minor a b)*k ); then per type, per minor, per VF index 0..nvf-1:
// 1 if the virtual function is in nodeDevice.vfAllocations.  Finally per uid 8 integers about Reservations (feature gate
// ResizePod on): persisted? gpu-core gpu-memory-ratio rdma of the resize-allocatable annotation written by PreBindReservation,
// held? and the same three amounts of the live reserve pod after ResizePod.

import (
	"context"
	"fmt"
	"math/rand"
	"sort"
	"testing"
	"time"

	corev1 "k8s.io/api/core/v1"
	"k8s.io/apimachinery/pkg/api/resource"
	metav1 "k8s.io/apimachinery/pkg/apis/meta/v1"
	"k8s.io/apimachinery/pkg/types"
	k8sfeature "k8s.io/apiserver/pkg/util/feature"
	"k8s.io/client-go/tools/cache"
	apiresource "k8s.io/component-helpers/resource"
	fwktype "k8s.io/kube-scheduler/framework"
	"k8s.io/kubernetes/pkg/scheduler/framework"
	"k8s.io/utils/ptr"

	apiext "github.com/koordinator-sh/koordinator/apis/extension"
	schedulingv1alpha1 "github.com/koordinator-sh/koordinator/apis/scheduling/v1alpha1"
	"github.com/koordinator-sh/koordinator/pkg/features"
	reservationutil "github.com/koordinator-sh/koordinator/pkg/util/reservation"
)

var vtC19DT *testing.T

type vtC19DGroup struct {
	typ     int64
	entries [][3]int64
}
type vtC19DDesc struct {
	kind, node int64
	groups     []vtC19DGroup
	vfs        map[int64][]int64 // type -> codes minor*100+index
}

func vtC19DBusID(minor, idx int64) string { return fmt.Sprintf("m%02d-vf%02d", minor, idx) }

func vtC19DNode(n int64) string { return fmt.Sprintf("n%02d", n) }

var vtC19DTypes = []schedulingv1alpha1.DeviceType{"", schedulingv1alpha1.GPU, schedulingv1alpha1.RDMA}

func vtC19DRes(t, a, b int64) corev1.ResourceList {
	if t == 1 {
		return corev1.ResourceList{
			apiext.ResourceGPUCore:        *resource.NewQuantity(a, resource.DecimalSI),
			apiext.ResourceGPUMemoryRatio: *resource.NewQuantity(b, resource.DecimalSI)}
	}
	return corev1.ResourceList{apiext.ResourceRDMA: *resource.NewQuantity(a, resource.DecimalSI)}
}

func vtC19DPair(t int64, rl corev1.ResourceList) (int64, int64) {
	if t == 1 {
		a, b := rl[apiext.ResourceGPUCore], rl[apiext.ResourceGPUMemoryRatio]
		return a.Value(), b.Value()
	}
	a := rl[apiext.ResourceRDMA]
	return a.Value(), 0
}

func vtC19DDevice(node string, minors, nvf int64, tot [3][2]int64) *schedulingv1alpha1.Device {
	d := &schedulingv1alpha1.Device{ObjectMeta: metav1.ObjectMeta{Name: node}}
	for t := int64(1); t <= 2; t++ {
		for m := int64(0); m < minors; m++ {
			res := vtC19DRes(t, tot[t][0], tot[t][1])
			if t == 1 {
				res[apiext.ResourceGPUMemory] = *resource.NewQuantity(16<<30, resource.BinarySI)
			}
			info := schedulingv1alpha1.DeviceInfo{
				Type: vtC19DTypes[t], Minor: ptr.To(int32(m)), UUID: fmt.Sprintf("dev-%d-%d", t, m), Health: true, Resources: res}
			if t == 2 && nvf > 0 {
				var vfs []schedulingv1alpha1.VirtualFunction
				for i := int64(0); i < nvf; i++ {
					vfs = append(vfs, schedulingv1alpha1.VirtualFunction{Minor: int32(i), BusID: vtC19DBusID(m, i)})
				}
				info.VFGroups = []schedulingv1alpha1.VirtualFunctionGroup{{Labels: map[string]string{"type": "general"}, VFs: vfs}}
			}
			d.Spec.Devices = append(d.Spec.Devices, info)
		}
	}
	return d
}

type vtC19DObj struct {
	pod *corev1.Pod
	rsv *schedulingv1alpha1.Reservation
}

func (o vtC19DObj) copy() vtC19DObj {
	if o.pod != nil {
		return vtC19DObj{pod: o.pod.DeepCopy()}
	}
	return vtC19DObj{rsv: o.rsv.DeepCopy()}
}
func (o vtC19DObj) schedPod() *corev1.Pod {
	if o.pod != nil {
		return o.pod
	}
	return reservationutil.NewReservePod(o.rsv)
}

func vtC19DPending(u int, d *vtC19DDesc) vtC19DObj {
	req := corev1.ResourceList{corev1.ResourceCPU: *resource.NewQuantity(1, resource.DecimalSI)}
	for _, g := range d.groups {
		if g.typ == 1 {
			req[apiext.ResourceGPUCore] = *resource.NewQuantity(50, resource.DecimalSI)
			req[apiext.ResourceGPUMemoryRatio] = *resource.NewQuantity(50, resource.DecimalSI)
		} else {
			req[apiext.ResourceRDMA] = *resource.NewQuantity(1, resource.DecimalSI)
		}
	}
	meta := metav1.ObjectMeta{Namespace: "default", Name: fmt.Sprintf("p%02d", u)}
	spec := corev1.PodSpec{Containers: []corev1.Container{{Name: "c", Resources: corev1.ResourceRequirements{Requests: req, Limits: req}}}}
	if d.kind == 0 {
		meta.UID = types.UID(fmt.Sprintf("u%02d", u))
		return vtC19DObj{pod: &corev1.Pod{ObjectMeta: meta, Spec: spec}}
	}
	return vtC19DObj{rsv: &schedulingv1alpha1.Reservation{
		ObjectMeta: metav1.ObjectMeta{Name: fmt.Sprintf("r%02d", u), UID: types.UID(fmt.Sprintf("u%02d", u))},
		Spec: schedulingv1alpha1.ReservationSpec{
			Template: &corev1.PodTemplateSpec{ObjectMeta: meta, Spec: spec},
			Owners:   []schedulingv1alpha1.ReservationOwner{{Object: &corev1.ObjectReference{Name: "x"}}},
			TTL:      &metav1.Duration{Duration: time.Hour},
		},
	}}
}

type vtC19DInst struct {
	plg  *Plugin
	pods cache.ResourceEventHandler
	rsvs cache.ResourceEventHandler
}

func vtC19DNewInst(suit *pluginTestSuit) *vtC19DInst {
	p, err := suit.proxyNew(context.TODO(), getDefaultArgs(), suit.Framework)
	if err != nil {
		panic(err)
	}
	plg := p.(*Plugin)
	eh := cache.ResourceEventHandlerFuncs{AddFunc: plg.nodeDeviceCache.onPodAdd, UpdateFunc: plg.nodeDeviceCache.onPodUpdate, DeleteFunc: plg.nodeDeviceCache.onPodDelete}
	return &vtC19DInst{plg: plg, pods: eh,
		rsvs: reservationutil.NewReservationToPodEventHandler(eh, reservationutil.IsObjValidActiveReservation)}
}
func (i *vtC19DInst) onAdd(o vtC19DObj) {
	if o.pod != nil {
		i.pods.OnAdd(o.pod, true)
	} else {
		i.rsvs.OnAdd(o.rsv, true)
	}
}
func (i *vtC19DInst) onUpdate(old, o vtC19DObj) {
	if o.pod != nil {
		i.pods.OnUpdate(old.pod, o.pod)
	} else {
		i.rsvs.OnUpdate(old.rsv, o.rsv)
	}
}
func (i *vtC19DInst) onDelete(o vtC19DObj) {
	if o.pod != nil {
		i.pods.OnDelete(o.pod)
	} else {
		i.rsvs.OnDelete(o.rsv)
	}
}

func vtC19DSnapshot(obs []int64, inst *vtC19DInst, nodes, minors, nvf int64, keys []string) []int64 {
	for n := int64(1); n <= nodes; n++ {
		sum, ok := inst.plg.getNodeDeviceSummary(vtC19DNode(n))
		if !ok {
			sum = NewNodeDeviceSummary()
		}
		for t := int64(1); t <= 2; t++ {
			for m := int64(0); m < minors; m++ {
				ua, ub := vtC19DPair(t, sum.DeviceUsedDetail[vtC19DTypes[t]][int(m)])
				fa, fb := vtC19DPair(t, sum.DeviceFreeDetail[vtC19DTypes[t]][int(m)])
				obs = append(obs, ua, ub, fa, fb)
			}
		}
		for u := 1; u < len(keys); u++ {
			for t := int64(1); t <= 2; t++ {
				e, ok := sum.AllocateSet[vtC19DTypes[t]][keys[u]]
				if !ok {
					obs = append(obs, 0)
					continue
				}
				var ms []int
				for m := range e {
					ms = append(ms, m)
				}
				sort.Ints(ms)
				obs = append(obs, 1, int64(len(ms)))
				for _, m := range ms {
					a, b := vtC19DPair(t, e[m])
					obs = append(obs, int64(m), a, b)
				}
			}
		}
		info := inst.plg.nodeDeviceCache.getNodeDevice(vtC19DNode(n), false)
		for t := int64(1); t <= 2; t++ {
			for m := int64(0); m < minors; m++ {
				for i := int64(0); i < nvf; i++ {
					taken := false
					if info != nil {
						info.lock.RLock()
						if va := info.vfAllocations[vtC19DTypes[t]]; va != nil {
							taken = va.allocatedVFs[int(m)].Has(vtC19DBusID(m, i))
						}
						info.lock.RUnlock()
					}
					obs = append(obs, vtB(taken))
				}
			}
		}
	}
	return obs
}

// device amounts (gpu-core, gpu-memory-ratio, rdma) of a resource list
func vtC19DAmounts(rl corev1.ResourceList) [3]int64 {
	a, b, c := rl[apiext.ResourceGPUCore], rl[apiext.ResourceGPUMemoryRatio], rl[apiext.ResourceRDMA]
	return [3]int64{a.Value(), b.Value(), c.Value()}
}

func vtC19DevExec(in []int64) []int64 {
	pos := 0
	next := func() int64 {
		if pos >= len(in) {
			return 0
		}
		v := in[pos]
		pos++
		return v
	}
	nodes, minors := next(), next()
	var tot [3][2]int64
	tot[1][0], tot[1][1], tot[2][0], tot[2][1] = next(), next(), next(), next()
	devFirst := next()
	nvf := next()
	np := int(next())
	descs := make([]*vtC19DDesc, np+1)
	for u := 1; u <= np; u++ {
		d := &vtC19DDesc{kind: next(), node: next()}
		for g := next(); g > 0; g-- {
			grp := vtC19DGroup{typ: next()}
			for k := next(); k > 0; k-- {
				grp.entries = append(grp.entries, [3]int64{next(), next(), next()})
			}
			d.groups = append(d.groups, grp)
		}
		d.vfs = map[int64][]int64{}
		for g := next(); g > 0; g-- {
			t := next()
			for k := next(); k > 0; k-- {
				d.vfs[t] = append(d.vfs[t], next())
			}
		}
		descs[u] = d
	}
	type step struct{ kind, id int64 }
	var ops, script []step
	for k := next(); k > 0; k-- {
		ops = append(ops, step{next(), next()})
	}
	for k := next(); k > 0; k-- {
		script = append(script, step{next(), next()})
	}

	var nodeObjs []*corev1.Node
	for n := int64(1); n <= nodes; n++ {
		nodeObjs = append(nodeObjs, &corev1.Node{ObjectMeta: metav1.ObjectMeta{Name: vtC19DNode(n)}})
	}
	suit := newPluginTestSuit(vtC19DT, nodeObjs)
	devIndexer := suit.koordinatorSharedInformerFactory.Scheduling().V1alpha1().Devices().Informer().GetIndexer()
	devices := make([]*schedulingv1alpha1.Device, nodes+1)
	for n := int64(1); n <= nodes; n++ {
		devices[n] = vtC19DDevice(vtC19DNode(n), minors, nvf, tot)
		devIndexer.Add(devices[n])
	}
	live := vtC19DNewInst(suit)
	for n := int64(1); n <= nodes; n++ {
		live.plg.nodeDeviceCache.onDeviceAdd(devices[n])
	}

	life := make([]int, np+1)
	pending := make([]vtC19DObj, np+1)
	stored := make([]vtC19DObj, np+1)
	keys := make([]string, np+1)
	cycle := make([]fwktype.CycleState, np+1)
	held := make([][4]int64, np+1) // what the live reserve pod holds after ResizePod
	for u := 1; u <= np; u++ {
		pending[u] = vtC19DPending(u, descs[u])
		stored[u] = pending[u]
		sp := pending[u].schedPod()
		keys[u] = types.NamespacedName{Namespace: sp.Namespace, Name: sp.Name}.String()
	}
	ctx := context.TODO()
	var obs []int64
	for _, op := range ops {
		u := int(op.id)
		if u >= 1 && u <= np {
			d := descs[u]
			node := vtC19DNode(d.node)
			switch {
			case op.kind == 1 && life[u] == 0:
				pod := pending[u].schedPod()
				cs := framework.NewCycleState()
				live.plg.PreFilter(ctx, cs, pod, nil)
				st, status := getPreFilterState(cs)
				if status.IsSuccess() && !st.skip {
					res := apiext.DeviceAllocations{}
					for _, g := range d.groups {
						for _, e := range g.entries {
							da := &apiext.DeviceAllocation{Minor: int32(e[0]), Resources: vtC19DRes(g.typ, e[1], e[2])}
							for _, code := range d.vfs[g.typ] {
								if code/100 == e[0] {
									if da.Extension == nil {
										da.Extension = &apiext.DeviceAllocationExtension{}
									}
									da.Extension.VirtualFunctions = append(da.Extension.VirtualFunctions, apiext.VirtualFunction{Minor: int(code % 100), BusID: vtC19DBusID(e[0], code%100)})
								}
							}
							res[vtC19DTypes[g.typ]] = append(res[vtC19DTypes[g.typ]], da)
						}
					}
					st.allocationResult = res
				}
				if s := live.plg.Reserve(ctx, cs, pod, node); !s.IsSuccess() {
					panic(s.Message())
				}
				if d.kind == 1 && len(d.groups) > 0 {
					if s := live.plg.ResizePod(ctx, cs, pod, node); !s.IsSuccess() {
						panic(s.Message())
					}
					am := vtC19DAmounts(apiresource.PodRequests(pod, apiresource.PodResourcesOptions{}))
					held[u] = [4]int64{1, am[0], am[1], am[2]}
				}
				cycle[u] = cs
				life[u] = 1
			case op.kind == 2 && life[u] == 1:
				live.plg.Unreserve(ctx, cycle[u], pending[u].schedPod(), node)
				held[u] = [4]int64{}
				life[u] = 0
			case op.kind == 3 && life[u] == 1:
				b := pending[u].copy()
				if b.pod != nil {
					if s := live.plg.PreBind(ctx, cycle[u], b.pod, node); !s.IsSuccess() {
						panic(s.Message())
					}
					b.pod.Spec.NodeName = node
				} else {
					if s := live.plg.PreBindReservation(ctx, cycle[u], b.rsv, node); !s.IsSuccess() {
						panic(s.Message())
					}
					b.rsv.Status.NodeName = node
					b.rsv.Status.Phase = schedulingv1alpha1.ReservationAvailable
				}
				live.onUpdate(pending[u], b)
				stored[u] = b
				life[u] = 2
			case op.kind == 4 && (life[u] == 2 || life[u] == 6 || life[u] == 4):
				live.onDelete(stored[u])
				held[u] = [4]int64{}
				life[u] = 3
			case op.kind == 5 && (life[u] == 2 || life[u] == 6):
				live.onUpdate(stored[u], stored[u].copy())
			case op.kind == 10 && life[u] == 2:
				t := stored[u].copy()
				ts := metav1.NewTime(time.Unix(1700000000, 0))
				if t.pod != nil {
					t.pod.DeletionTimestamp = &ts
				} else {
					t.rsv.DeletionTimestamp = &ts
				}
				live.onUpdate(stored[u], t)
				stored[u] = t
				life[u] = 6
			case op.kind == 7 && (life[u] == 2 || life[u] == 6):
				t := stored[u].copy()
				if t.pod != nil {
					t.pod.Status.Phase = corev1.PodSucceeded
				} else {
					t.rsv.Status.Phase = schedulingv1alpha1.ReservationSucceeded
				}
				live.onUpdate(stored[u], t)
				stored[u] = t
				life[u] = 4
			}
		}
		obs = vtC19DSnapshot(obs, live, nodes, minors, nvf, keys)

		fresh := vtC19DNewInst(suit)
		seen := make([]bool, np+1)
		deliver := func(ev step) {
			if ev.kind == 4 {
				if ev.id >= 1 && ev.id <= nodes {
					fresh.plg.nodeDeviceCache.onDeviceAdd(devices[ev.id])
				}
				return
			}
			id := int(ev.id)
			if id < 1 || id > np || life[id] == 3 {
				return
			}
			switch ev.kind {
			case 1:
				fresh.onAdd(stored[id].copy())
				seen[id] = true
			case 2:
				fresh.onUpdate(stored[id].copy(), stored[id].copy())
			case 3:
				fresh.onUpdate(pending[id].copy(), stored[id].copy())
			}
		}
		if devFirst != 0 {
			for n := int64(1); n <= nodes; n++ {
				deliver(step{4, n})
			}
		}
		for _, ev := range script {
			deliver(ev)
		}
		for u := 1; u <= np; u++ {
			if !seen[u] {
				deliver(step{1, int64(u)})
			}
		}
		for n := int64(1); n <= nodes; n++ {
			deliver(step{4, n})
		}
		obs = vtC19DSnapshot(obs, fresh, nodes, minors, nvf, keys)
		for u := 1; u <= np; u++ {
			var persisted [4]int64
			if stored[u].rsv != nil && life[u] != 3 {
				if ra, err := reservationutil.GetReservationResizeAllocatable(stored[u].rsv.Annotations); err == nil && ra != nil && ra.Resources != nil {
					am := vtC19DAmounts(ra.Resources)
					persisted = [4]int64{1, am[0], am[1], am[2]}
				}
			}
			obs = append(obs, persisted[:]...)
			obs = append(obs, held[u][:]...)
		}
	}
	return obs
}

func vtC19DevGen(r *rand.Rand, i int) (string, []int64) {
	style := []string{"device-first", "device-first", "device-late"}[r.Intn(3)]
	nodes := int64(1 + r.Intn(2))
	minors := int64(1 + r.Intn(3))
	np := 2 + r.Intn(4)
	first := int64(1)
	if style == "device-late" {
		first = 0
	}
	nvf := int64(3)
	in := []int64{nodes, minors, 100, 100, 100, 0, first, nvf, int64(np)}
	vfTaken := map[[3]int64]bool{} // (node, minor, index) of the RDMA virtual functions already handed out
	for u := 1; u <= np; u++ {
		kind := int64(0)
		if r.Intn(4) == 0 {
			kind = 1
		}
		node := int64(1 + r.Intn(int(nodes)))
		in = append(in, kind, node)
		var vfCodes []int64
		var groups [][]int64
		for t := int64(1); t <= 2; t++ {
			if r.Intn(3) == 0 {
				continue
			}
			g := []int64{t, 0}
			for m := int64(0); m < minors; m++ {
				if r.Intn(2) == 0 || (t == 2 && m == 0 && r.Intn(3) != 0) {
					a := int64(1 + r.Intn(100))
					b := int64(r.Intn(101))
					if t == 2 {
						b = 0
					}
					g = append(g, m, a, b)
					g[1]++
					if t == 2 { // virtual functions of this PF: mostly one, each VF handed out once per node
						for want := []int{0, 1, 1, 1, 2}[r.Intn(5)]; want > 0; want-- {
							for i := int64(0); i < nvf; i++ {
								if !vfTaken[[3]int64{node, m, i}] {
									vfTaken[[3]int64{node, m, i}] = true
									vfCodes = append(vfCodes, m*100+i)
									break
								}
							}
						}
					}
				}
			}
			if g[1] > 0 {
				groups = append(groups, g)
			}
		}
		if r.Intn(2) == 0 && len(groups) == 2 {
			groups[0], groups[1] = groups[1], groups[0]
		}
		in = append(in, int64(len(groups)))
		for _, g := range groups {
			in = append(in, g...)
		}
		hasRDMA := false
		for _, g := range groups {
			hasRDMA = hasRDMA || g[0] == 2
		}
		if hasRDMA && len(vfCodes) > 0 {
			in = append(in, 1, 2, int64(len(vfCodes)))
			in = append(in, vfCodes...)
		} else {
			in = append(in, 0)
		}
	}
	nops := 3 + r.Intn(9)
	life := make([]int, np+1)
	in = append(in, int64(nops))
	for j := 0; j < nops; j++ {
		u := 1 + r.Intn(np)
		var kind int64
		switch life[u] {
		case 0:
			kind = 1
		case 1:
			kind = []int64{3, 3, 3, 2}[r.Intn(4)]
		case 2:
			kind = []int64{5, 5, 4, 7, 10, 10}[r.Intn(6)]
		case 6:
			kind = []int64{5, 5, 4, 7}[r.Intn(4)]
		case 4:
			kind = 4
		default:
			kind = int64(1 + r.Intn(7))
		}
		if r.Intn(12) == 0 {
			kind = int64(1 + r.Intn(10))
		}
		switch {
		case kind == 1 && life[u] == 0:
			life[u] = 1
		case kind == 2 && life[u] == 1:
			life[u] = 0
		case kind == 3 && life[u] == 1:
			life[u] = 2
		case kind == 4 && (life[u] == 2 || life[u] == 6 || life[u] == 4):
			life[u] = 3
		case kind == 7 && (life[u] == 2 || life[u] == 6):
			life[u] = 4
		case kind == 10 && life[u] == 2:
			life[u] = 6
		}
		in = append(in, kind, int64(u))
	}
	var script [][2]int64
	perm := r.Perm(np)
	for _, p := range perm[:r.Intn(np+1)] {
		script = append(script, [2]int64{1, int64(p + 1)})
	}
	for k := r.Intn(4); k > 0; k-- {
		script = append(script, [2]int64{int64(1 + r.Intn(3)), int64(1 + r.Intn(np))})
	}
	if style == "device-late" {
		for n := int64(1); n <= nodes; n++ {
			if r.Intn(2) == 0 {
				script = append(script, [2]int64{4, n})
			}
		}
	}
	r.Shuffle(len(script), func(a, b int) { script[a], script[b] = script[b], script[a] })
	in = append(in, int64(len(script)))
	for _, e := range script {
		in = append(in, e[0], e[1])
	}
	return style, in
}

func TestVerifC19Dev(t *testing.T) {
	vtC19DT = t
	// Reservations persist their reserved device amount only with the ResizePod gate
	if err := k8sfeature.DefaultMutableFeatureGate.SetFromMap(map[string]bool{string(features.ResizePod): true}); err != nil {
		t.Fatal(err)
	}
	vtMain(t, "C19", vtC19DevGen, vtC19DevExec)
}
