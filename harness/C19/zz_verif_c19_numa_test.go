//go:build verif

package nodenumaresource

// C19 / stream "numa": the CPU-set and per-NUMA ledger of the nodenumaresource plugin across a
// scheduler restart.
//
// input (flat integers, coq/C19/Extract_numa.v decodes the same):
//   nnodes ncpu cpn topoFirst
//   P  then P records  kind node excl  kc c1..ckc  kn (numa milliCPU memBytes)*kn      (uid = position, 1-based)
//   K  then K live steps  kind uid      1 Reserve 2 Unreserve 3 PreBind+bind 4 delete 5 update(same) 7 terminate
//   S  then S replay events  kind id    1 Add 2 Update(obj,obj) 3 Update(pending,obj) 4 topology of node id arrives
// observable: after every live step, the projection of the live plugin's NodeAllocation of every
// node, followed by the projection of a FRESH plugin instance that was fed only the objects that
// exist at that point (annotations written by the real PreBind), in the order of the replay script
// (completed by the still missing topologies and Add events).

import (
	"context"
	"encoding/json"
	"fmt"
	"math/rand"
	"os"
	"sort"
	"testing"

	nrtv1alpha1 "github.com/k8stopologyawareschedwg/noderesourcetopology-api/pkg/apis/topology/v1alpha1"
	corev1 "k8s.io/api/core/v1"
	"k8s.io/apimachinery/pkg/api/resource"
	metav1 "k8s.io/apimachinery/pkg/apis/meta/v1"
	"k8s.io/apimachinery/pkg/types"
	"k8s.io/apimachinery/pkg/util/sets"
	"k8s.io/client-go/tools/cache"
	fwktype "k8s.io/kube-scheduler/framework"
	"k8s.io/kubernetes/pkg/scheduler/framework"
	"k8s.io/utils/ptr"

	"github.com/koordinator-sh/koordinator/apis/extension"
	schedulingv1alpha1 "github.com/koordinator-sh/koordinator/apis/scheduling/v1alpha1"
	"github.com/koordinator-sh/koordinator/pkg/util/cpuset"
	reservationutil "github.com/koordinator-sh/koordinator/pkg/util/reservation"
)

var vtC19T *testing.T

type vtC19Desc struct {
	kind, node, excl int64
	cpus             []int
	numa             [][3]int64
}

type vtC19Reader struct {
	in  []int64
	pos int
}

func (r *vtC19Reader) next() int64 {
	if r.pos >= len(r.in) {
		return 0
	}
	v := r.in[r.pos]
	r.pos++
	return v
}

func vtC19NodeName(n int64) string { return fmt.Sprintf("n%02d", n) }
func vtC19UID(u int) types.UID     { return types.UID(fmt.Sprintf("u%02d", u)) }

var vtC19ExclNames = []extension.CPUExclusivePolicy{"", extension.CPUExclusivePolicyNone, extension.CPUExclusivePolicyPCPULevel, extension.CPUExclusivePolicyNUMANodeLevel}

func vtC19ExclEnum(p extension.CPUExclusivePolicy) int64 {
	for i, n := range vtC19ExclNames {
		if n == p {
			return int64(i)
		}
	}
	return 9
}

func vtC19NRT(node string, ncpu, cpn int64) *nrtv1alpha1.NodeResourceTopology {
	topo := extension.CPUTopology{}
	for c := int64(0); c < ncpu; c++ {
		nd := int64(0)
		if cpn > 0 {
			nd = c / cpn
		}
		topo.Detail = append(topo.Detail, extension.CPUInfo{ID: int32(c), Core: int32(c / 2), Socket: 0, Node: int32(nd)})
	}
	data, _ := json.Marshal(topo)
	return &nrtv1alpha1.NodeResourceTopology{
		ObjectMeta: metav1.ObjectMeta{Name: node, Annotations: map[string]string{extension.AnnotationNodeCPUTopology: string(data)}},
	}
}

// the pod template of object u (what the user created): LSR/prod pod asking for whole CPUs with a
// bind policy when it is to receive a cpuset, a plain pod otherwise
func vtC19Template(u int, d *vtC19Desc) (metav1.ObjectMeta, corev1.PodSpec) {
	meta := metav1.ObjectMeta{Namespace: "default", Name: fmt.Sprintf("p%02d", u), Labels: map[string]string{}, Annotations: map[string]string{}}
	req := corev1.ResourceList{corev1.ResourceMemory: *resource.NewQuantity(1<<20, resource.BinarySI)}
	ncpus := len(cpuset.NewCPUSet(d.cpus...).ToSliceNoSort())
	spec := extension.ResourceSpec{PreferredCPUExclusivePolicy: vtC19ExclNames[d.excl]}
	if ncpus > 0 {
		meta.Labels[extension.LabelPodQoS] = string(extension.QoSLSR)
		req[corev1.ResourceCPU] = *resource.NewQuantity(int64(ncpus), resource.DecimalSI)
		spec.PreferredCPUBindPolicy = extension.CPUBindPolicyFullPCPUs
	} else {
		req[corev1.ResourceCPU] = *resource.NewMilliQuantity(500, resource.DecimalSI)
	}
	data, _ := json.Marshal(spec)
	meta.Annotations[extension.AnnotationResourceSpec] = string(data)
	ps := corev1.PodSpec{
		Priority:   ptr.To[int32](extension.PriorityProdValueMax),
		Containers: []corev1.Container{{Name: "c", Resources: corev1.ResourceRequirements{Requests: req}}},
	}
	return meta, ps
}

// one stored object: a Pod or a Reservation (exactly one is non-nil)
type vtC19Obj struct {
	pod *corev1.Pod
	rsv *schedulingv1alpha1.Reservation
}

func (o vtC19Obj) any() interface{} {
	if o.pod != nil {
		return o.pod
	}
	return o.rsv
}

func (o vtC19Obj) copy() vtC19Obj {
	if o.pod != nil {
		return vtC19Obj{pod: o.pod.DeepCopy()}
	}
	return vtC19Obj{rsv: o.rsv.DeepCopy()}
}

// the pod the scheduling cycle works on
func (o vtC19Obj) schedPod() *corev1.Pod {
	if o.pod != nil {
		return o.pod
	}
	return reservationutil.NewReservePod(o.rsv)
}

func vtC19Pending(u int, d *vtC19Desc) vtC19Obj {
	meta, spec := vtC19Template(u, d)
	if d.kind == 0 {
		meta.UID = vtC19UID(u)
		return vtC19Obj{pod: &corev1.Pod{ObjectMeta: meta, Spec: spec}}
	}
	return vtC19Obj{rsv: &schedulingv1alpha1.Reservation{
		ObjectMeta: metav1.ObjectMeta{Name: fmt.Sprintf("r%02d", u), UID: vtC19UID(u)},
		Spec: schedulingv1alpha1.ReservationSpec{
			Template: &corev1.PodTemplateSpec{ObjectMeta: meta, Spec: spec},
			Owners:   []schedulingv1alpha1.ReservationOwner{{Object: &corev1.ObjectReference{Name: "x"}}},
			TTL:      &metav1.Duration{},
		},
	}}
}

// handlers of one plugin instance, built the way registerPodEventHandler /
// registerNodeResourceTopologyEventHandler build them
type vtC19Inst struct {
	plg  *Plugin
	pods cache.ResourceEventHandler
	rsvs cache.ResourceEventHandler
	nrts cache.ResourceEventHandler
}

func vtC19NewInst(suit *pluginTestSuit) *vtC19Inst {
	p, err := suit.proxyNew(context.TODO(), suit.nodeNUMAResourceArgs, suit.Handle)
	if err != nil {
		panic(err)
	}
	plg := p.(*Plugin)
	eh := &podEventHandler{resourceManager: plg.resourceManager}
	return &vtC19Inst{
		plg:  plg,
		pods: eh,
		rsvs: reservationutil.NewReservationToPodEventHandler(eh, reservationutil.IsObjValidActiveReservation),
		nrts: &nodeResourceTopologyEventHandler{topologyManager: plg.topologyOptionsManager},
	}
}

func (i *vtC19Inst) onAdd(o vtC19Obj) {
	if o.pod != nil {
		i.pods.OnAdd(o.pod, true)
	} else {
		i.rsvs.OnAdd(o.rsv, true)
	}
}

func (i *vtC19Inst) onUpdate(old, o vtC19Obj) {
	if o.pod != nil {
		i.pods.OnUpdate(old.pod, o.pod)
	} else {
		i.rsvs.OnUpdate(old.rsv, o.rsv)
	}
}

func (i *vtC19Inst) onDelete(o vtC19Obj) {
	if o.pod != nil {
		i.pods.OnDelete(o.pod)
	} else {
		i.rsvs.OnDelete(o.rsv)
	}
}

func vtC19Snapshot(obs []int64, inst *vtC19Inst, nnodes, ncpuObs, nnuma int64, npods int) []int64 {
	for n := int64(1); n <= nnodes; n++ {
		na := inst.plg.resourceManager.GetNodeAllocation(vtC19NodeName(n))
		na.lock.RLock()
		for u := 1; u <= npods; u++ {
			pa, ok := na.allocatedPods[vtC19UID(u)]
			if !ok {
				obs = append(obs, 0)
				continue
			}
			cpus := pa.CPUSet.ToSlice()
			obs = append(obs, 1, int64(len(cpus)))
			for _, c := range cpus {
				obs = append(obs, int64(c))
			}
			obs = append(obs, int64(len(pa.NUMANodeResources)))
			for _, r := range pa.NUMANodeResources {
				obs = append(obs, int64(r.Node), r.Resources.Cpu().MilliValue(), r.Resources.Memory().Value())
			}
		}
		for c := int64(0); c < ncpuObs; c++ {
			info, ok := na.allocatedCPUs[int(c)]
			if !ok {
				obs = append(obs, 0, 0)
			} else {
				obs = append(obs, int64(info.RefCount), vtC19ExclEnum(info.ExclusivePolicy))
			}
		}
		mask := func(s sets.String) int64 {
			var m int64
			for u := 1; u <= npods; u++ {
				if _, ok := s[string(vtC19UID(u))]; ok {
					m += int64(1) << uint(u)
				}
			}
			return m
		}
		for k := int64(0); k < nnuma; k++ {
			var cpu, mem int64
			if r := na.allocatedResources[int(k)]; r != nil {
				cpu, mem = r.Resources.Cpu().MilliValue(), r.Resources.Memory().Value()
			}
			obs = append(obs, cpu, mem, mask(na.singleNUMANode[int(k)]), mask(na.sharedNode[int(k)]))
		}
		na.lock.RUnlock()
	}
	return obs
}

func vtC19NumaExec(in []int64) []int64 {
	r := &vtC19Reader{in: in}
	nnodes, ncpu, cpn, topoFirst := r.next(), r.next(), r.next(), r.next()
	np := int(r.next())
	descs := make([]*vtC19Desc, np+1)
	for u := 1; u <= np; u++ {
		d := &vtC19Desc{kind: r.next(), node: r.next(), excl: r.next()}
		for k := r.next(); k > 0; k-- {
			d.cpus = append(d.cpus, int(r.next()))
		}
		for k := r.next(); k > 0; k-- {
			d.numa = append(d.numa, [3]int64{r.next(), r.next(), r.next()})
		}
		descs[u] = d
	}
	type step struct{ kind, id int64 }
	var ops, script []step
	for k := r.next(); k > 0; k-- {
		ops = append(ops, step{r.next(), r.next()})
	}
	for k := r.next(); k > 0; k-- {
		script = append(script, step{r.next(), r.next()})
	}
	nnuma := int64(1)
	if cpn > 0 {
		nnuma = (ncpu + cpn - 1) / cpn
	}

	var nodes []*corev1.Node
	for n := int64(1); n <= nnodes; n++ {
		nodes = append(nodes, &corev1.Node{ObjectMeta: metav1.ObjectMeta{Name: vtC19NodeName(n)}})
	}
	suit := newPluginTestSuit(vtC19T, nil, nodes)
	live := vtC19NewInst(suit)
	for n := int64(1); n <= nnodes; n++ {
		live.nrts.OnAdd(vtC19NRT(vtC19NodeName(n), ncpu, cpn), true)
	}

	life := make([]int, np+1)
	pending := make([]vtC19Obj, np+1)
	stored := make([]vtC19Obj, np+1) // the object as stored now (pending / bound / terminated)
	cycle := make([]fwktype.CycleState, np+1)
	for u := 1; u <= np; u++ {
		pending[u] = vtC19Pending(u, descs[u])
		stored[u] = pending[u]
	}
	ctx := context.TODO()
	var obs []int64
	for _, op := range ops {
		u := int(op.id)
		if u >= 1 && u <= np {
			d := descs[u]
			node := vtC19NodeName(d.node)
			switch {
			case op.kind == 1 && life[u] == 0:
				pod := pending[u].schedPod()
				cs := framework.NewCycleState()
				live.plg.PreFilter(ctx, cs, pod, nil)
				st, status := getPreFilterState(cs)
				if status.IsSuccess() && !st.skip {
					alloc := &PodAllocation{UID: pod.UID, Namespace: pod.Namespace, Name: pod.Name,
						CPUSet: cpuset.NewCPUSet(d.cpus...), CPUExclusivePolicy: st.preferredCPUExclusivePolicy}
					for _, e := range d.numa {
						alloc.NUMANodeResources = append(alloc.NUMANodeResources, NUMANodeResource{Node: int(e[0]), Resources: corev1.ResourceList{
							corev1.ResourceCPU:    *resource.NewMilliQuantity(e[1], resource.DecimalSI),
							corev1.ResourceMemory: *resource.NewQuantity(e[2], resource.BinarySI)}})
					}
					st.allocation = alloc
				}
				live.plg.Reserve(ctx, cs, pod, node)
				cycle[u] = cs
				life[u] = 1
			case op.kind == 2 && life[u] == 1:
				live.plg.Unreserve(ctx, cycle[u], pending[u].schedPod(), node)
				life[u] = 0
			case op.kind == 3 && life[u] == 1:
				b := pending[u].copy()
				if b.pod != nil {
					if s := live.plg.PreBind(ctx, cycle[u], b.pod, node); !s.IsSuccess() {
						panic(s.Message())
					}
					b.pod.Spec.NodeName = node
				} else {
					if s := live.plg.PreBindReservation(ctx, cycle[u], b.rsv, node); !s.IsSuccess() {
						panic(s.Message())
					}
					b.rsv.Status.NodeName = node
					b.rsv.Status.Phase = schedulingv1alpha1.ReservationAvailable
				}
				if os.Getenv("VERIF_DEBUG") != "" {
					if b.pod != nil {
						fmt.Fprintf(os.Stderr, "bind pod %d annotations %v\n", u, b.pod.Annotations)
					} else {
						fmt.Fprintf(os.Stderr, "bind rsv %d annotations %v template %v reservePod %v\n", u, b.rsv.Annotations, b.rsv.Spec.Template.Annotations, reservationutil.NewReservePod(b.rsv).Annotations)
					}
				}
				live.onUpdate(pending[u], b)
				stored[u] = b
				life[u] = 2
			case op.kind == 4 && (life[u] == 2 || life[u] == 4):
				live.onDelete(stored[u])
				life[u] = 3
			case op.kind == 5 && life[u] == 2:
				live.onUpdate(stored[u], stored[u].copy())
			case op.kind == 7 && life[u] == 2:
				t := stored[u].copy()
				if t.pod != nil {
					t.pod.Status.Phase = corev1.PodSucceeded
				} else {
					t.rsv.Status.Phase = schedulingv1alpha1.ReservationSucceeded
				}
				live.onUpdate(stored[u], t)
				stored[u] = t
				life[u] = 4
			}
		}
		obs = vtC19Snapshot(obs, live, nnodes, ncpu+2, nnuma, np)

		// restart: a fresh plugin instance sees only the stored objects
		fresh := vtC19NewInst(suit)
		seen := make([]bool, np+1)
		deliver := func(ev step) {
			if ev.kind == 4 {
				fresh.nrts.OnAdd(vtC19NRT(vtC19NodeName(ev.id), ncpu, cpn), true)
				return
			}
			u := int(ev.id)
			if u < 1 || u > np || life[u] == 3 {
				return
			}
			switch ev.kind {
			case 1:
				fresh.onAdd(stored[u].copy())
				seen[u] = true
			case 2:
				fresh.onUpdate(stored[u].copy(), stored[u].copy())
			case 3:
				fresh.onUpdate(pending[u].copy(), stored[u].copy())
			}
		}
		if topoFirst != 0 {
			for n := int64(1); n <= nnodes; n++ {
				deliver(step{4, n})
			}
		}
		for _, ev := range script {
			deliver(ev)
		}
		for n := int64(1); n <= nnodes; n++ {
			deliver(step{4, n})
		}
		for u := 1; u <= np; u++ {
			if !seen[u] {
				deliver(step{1, int64(u)})
			}
		}
		obs = vtC19Snapshot(obs, fresh, nnodes, ncpu+2, nnuma, np)
	}
	return obs
}

func vtC19NumaGen(r *rand.Rand, i int) (string, []int64) {
	style := []string{"disjoint", "disjoint", "shared-same-policy", "shared-same-policy", "shared-mixed-policy", "late-topology"}[r.Intn(6)]
	nnodes := int64(1 + r.Intn(2))
	cpn := int64([]int{2, 4, 4, 8}[r.Intn(4)])
	ncpu := cpn * int64(1+r.Intn(2))
	if ncpu > 8 {
		ncpu = 8
	}
	nnuma := (ncpu + cpn - 1) / cpn
	np := 2 + r.Intn(4)
	topoFirst := int64(1)
	if style == "late-topology" {
		topoFirst = 0
	}
	in := []int64{nnodes, ncpu, cpn, topoFirst, int64(np)}
	basePolicy := int64(r.Intn(4))
	next := make([]int64, nnodes+1) // next free cpu per node for the disjoint style
	for u := 1; u <= np; u++ {
		kind := int64(0)
		if r.Intn(4) == 0 {
			kind = 1
		}
		node := int64(1 + r.Intn(int(nnodes)))
		excl := basePolicy
		if style == "shared-mixed-policy" || style == "disjoint" || style == "late-topology" {
			excl = int64(r.Intn(4))
		}
		var cpus []int64
		k := r.Intn(4)
		switch {
		case style == "disjoint" || style == "late-topology":
			for ; k > 0 && next[node] < ncpu+2; k-- {
				if next[node] >= ncpu && r.Intn(3) != 0 {
					break // ids beyond the topology only now and then
				}
				cpus = append(cpus, next[node])
				next[node]++
				if r.Intn(4) == 0 {
					next[node]++ // leave a hole
				}
			}
		default:
			for ; k > 0; k-- {
				cpus = append(cpus, int64(r.Intn(int(ncpu))))
			}
		}
		r.Shuffle(len(cpus), func(a, b int) { cpus[a], cpus[b] = cpus[b], cpus[a] })
		if len(cpus) > 0 && r.Intn(5) == 0 {
			cpus = append(cpus, cpus[0]) // NewCPUSet de-duplicates
		}
		var numa [][3]int64
		if r.Intn(3) != 0 {
			for n := int64(0); n < nnuma; n++ {
				if r.Intn(2) == 0 || (len(cpus) == 0 && len(numa) == 0 && n == nnuma-1 && r.Intn(8) != 0) {
					cpu := int64(r.Intn(5)) * 500
					if r.Intn(6) == 0 {
						cpu = vtQty(r, 1<<20)
					}
					mem := []int64{0, 1 << 20, 1 << 30, 3 << 29, 12345}[r.Intn(5)]
					numa = append(numa, [3]int64{n, cpu, mem})
				}
			}
		}
		in = append(in, kind, node, excl, int64(len(cpus)))
		in = append(in, cpus...)
		in = append(in, int64(len(numa)))
		for _, e := range numa {
			in = append(in, e[0], e[1], e[2])
		}
	}
	// live steps: a random walk biased towards making progress
	nops := 3 + r.Intn(9)
	life := make([]int, np+1)
	in = append(in, int64(nops))
	for j := 0; j < nops; j++ {
		u := 1 + r.Intn(np)
		var kind int64
		switch life[u] {
		case 0:
			kind = 1
		case 1:
			kind = []int64{3, 3, 3, 2}[r.Intn(4)]
		case 2:
			kind = []int64{5, 5, 4, 7, 7}[r.Intn(5)]
		case 4:
			kind = 4
		default:
			kind = int64(1 + r.Intn(7))
		}
		if r.Intn(12) == 0 {
			kind = int64(1 + r.Intn(7)) // an event the life cycle does not allow: must be ignored
		}
		switch {
		case kind == 1 && life[u] == 0:
			life[u] = 1
		case kind == 2 && life[u] == 1:
			life[u] = 0
		case kind == 3 && life[u] == 1:
			life[u] = 2
		case kind == 4 && (life[u] == 2 || life[u] == 4):
			life[u] = 3
		case kind == 7 && life[u] == 2:
			life[u] = 4
		}
		in = append(in, kind, int64(u))
	}
	// replay script: a shuffled prefix of the Adds, sprinkled with duplicates and updates
	var script [][2]int64
	perm := r.Perm(np)
	for _, p := range perm[:r.Intn(np+1)] {
		script = append(script, [2]int64{1, int64(p + 1)})
	}
	for k := r.Intn(4); k > 0; k-- {
		script = append(script, [2]int64{int64(1 + r.Intn(3)), int64(1 + r.Intn(np))})
	}
	if style == "late-topology" {
		for n := int64(1); n <= nnodes; n++ {
			if r.Intn(3) != 0 {
				script = append(script, [2]int64{4, n})
			}
		}
	}
	r.Shuffle(len(script), func(a, b int) { script[a], script[b] = script[b], script[a] })
	in = append(in, int64(len(script)))
	for _, e := range script {
		in = append(in, e[0], e[1])
	}
	return style, in
}

func TestVerifC19Numa(t *testing.T) {
	vtC19T = t
	vtMain(t, "C19", vtC19NumaGen, vtC19NumaExec)
}

var _ = sort.Ints
