//go:build verif

package deviceshare

// C07 correspondence harness: drives the real deviceshare plugin (PreFilter -> Filter -> Reserve,
// Unreserve), the real informer handlers of the node device cache (onPodAdd / onPodUpdate /
// onPodDelete, onDeviceAdd / onDeviceUpdate / onDeviceDelete) on one node, and projects
// nodeDevice.getNodeDeviceSummary() after every operation.
//
// input  = nops, then per op
//   1 n (type minor health v0 v1 v2 numa pcie){n}   device inventory refresh (Device CR add/update)
//   2 pod koordgpu core ratio shared nvidia rdma fpga  schedule: PreFilter, Filter, Reserve
//   3 pod                                           Unreserve of a scheduled pod
//   4 pod                                           informer add event of a live pod (duplicate of Reserve)
//   5 pod                                           informer delete event (recorded annotation; repeated = duplicate)
//   6 pod n (type minor v0 v1 v2){n}                informer add of a pod bound by somebody else (annotation given)
//   7                                               Device CR deleted (cache invalidated)
//   8 pod n (type minor v0 v1 v2){n}                informer update: recorded annotation -> new annotation
//   9 pod                                           informer update: pod turned Succeeded
//  10 pod koordgpu core ratio shared nvidia rdma fpga n (victim pod){n}
//                                                   preemption dry-run: PreFilter, RemovePod for every victim,
//                                                   Filter; only the verdict is observed, nothing is committed
//  11 kind                                          node labels: 0 none, 1 gpu-model H800 + gpu-partition-policy
//                                                   Honor, 2 gpu-model H800 (built-in Hopper partition table);
//                                                   + 4: the plugin's scoring strategy is MostAllocated (the scorer
//                                                   is built from the args the way New does) instead of LeastAllocated
//  12 pod                                           like 5, but the delete is delivered as an informer tombstone
//                                                   (cache.DeletedFinalStateUnknown by value, as after a re-list)
//  13                                               like 7, Device CR deletion delivered as a tombstone
//  14 pod koordgpu core ratio shared nvidia rdma fpga hint n (type minor v0 v1 v2){n}
//                                                   a scheduling cycle is opened: PreFilter + Filter; the pod carries the
//                                                   device-allocated annotation given (n > 0), and with hint = 1 the cycle
//                                                   state holds a scheduling hint naming this plugin, which makes the
//                                                   annotation a DESIGNATED allocation (hinted re-schedule / fail-over path);
//                                                   only the verdict is observed; the cycle stays open iff it is 0
//  15 pod                                           Filter once more with the open cycle's state (another candidate
//                                                   evaluation of this node in the same cycle)
//  16 pod                                           Reserve of the open cycle (Unreserve by the framework if it fails):
//                                                   whatever happened to the node since Filter, code [allocations]
// types: 0 gpu (slots gpu-core, gpu-memory-ratio, gpu-memory), 1 rdma (slot rdma), 2 fpga (slot fpga);
// a slot value -1 means "key absent".
// observable = per op: code [allocations] summary   (see vtC07Summary)

import (
	"context"
	"fmt"
	"math/rand"
	"sort"
	"testing"

	corev1 "k8s.io/api/core/v1"
	"k8s.io/apimachinery/pkg/api/resource"
	metav1 "k8s.io/apimachinery/pkg/apis/meta/v1"
	"k8s.io/apimachinery/pkg/types"
	k8scache "k8s.io/client-go/tools/cache"
	fwktype "k8s.io/kube-scheduler/framework"
	"k8s.io/kubernetes/pkg/scheduler/framework"
	"k8s.io/utils/ptr"

	apiext "github.com/koordinator-sh/koordinator/apis/extension"
	schedulingv1alpha1 "github.com/koordinator-sh/koordinator/apis/scheduling/v1alpha1"
	schedulerconfig "github.com/koordinator-sh/koordinator/pkg/scheduler/apis/config"
	"github.com/koordinator-sh/koordinator/pkg/scheduler/frameworkext/hinter"
)

const vtC07Node = "n00"

var vtC07Types = []schedulingv1alpha1.DeviceType{schedulingv1alpha1.GPU, schedulingv1alpha1.RDMA, schedulingv1alpha1.FPGA}

var vtC07Slots = [][]corev1.ResourceName{
	{apiext.ResourceGPUCore, apiext.ResourceGPUMemoryRatio, apiext.ResourceGPUMemory},
	{apiext.ResourceRDMA},
	{apiext.ResourceFPGA},
}

var (
	vtC07Plugin   *Plugin
	vtC07NodeInfo fwktype.NodeInfo
	vtC07Unknown  int64
	vtC07Scorers  [2]*resourceAllocationScorer // LeastAllocated (default args), MostAllocated
)

func vtC07TypeIdx(t schedulingv1alpha1.DeviceType) int {
	for i, x := range vtC07Types {
		if x == t {
			return i
		}
	}
	return -1
}

func vtC07ResList(t int, vs []int64) corev1.ResourceList {
	rl := corev1.ResourceList{}
	for i, name := range vtC07Slots[t] {
		if vs[i] >= 0 {
			rl[name] = *resource.NewQuantity(vs[i], resource.DecimalSI)
		}
	}
	return rl
}

// three slot values of a ResourceList of device type t (-1 = absent); keys outside the type's
// slot list are counted in vtC07Unknown (the model always reports 0 there)
func vtC07Slots3(t int, rl corev1.ResourceList) []int64 {
	out := []int64{-1, -1, -1}
	for name, q := range rl {
		found := false
		for i, s := range vtC07Slots[t] {
			if s == name {
				out[i] = q.Value()
				found = true
			}
		}
		if !found {
			vtC07Unknown++
		}
	}
	return out
}

func vtC07DumpDevRes(t int, dr deviceResources) []int64 {
	minors := make([]int, 0, len(dr))
	for m := range dr {
		minors = append(minors, m)
	}
	sort.Ints(minors)
	out := []int64{int64(len(minors))}
	for _, m := range minors {
		out = append(out, int64(m))
		out = append(out, vtC07Slots3(t, dr[m])...)
	}
	return out
}

// summary = for each type 0..2: total, free, used (each: count, (minor v0 v1 v2)*, ascending minor),
// allocate set (count, (pod count (minor v0 v1 v2)*)*, ascending pod name); finally the number of
// resource keys / device types seen that the projection has no slot for (0 expected).
func vtC07Summary(nd *nodeDevice) []int64 {
	vtC07Unknown = 0
	s := nd.getNodeDeviceSummary()
	var out []int64
	for t, dt := range vtC07Types {
		out = append(out, vtC07DumpDevRes(t, s.DeviceTotalDetail[dt])...)
		out = append(out, vtC07DumpDevRes(t, s.DeviceFreeDetail[dt])...)
		out = append(out, vtC07DumpDevRes(t, s.DeviceUsedDetail[dt])...)
		as := s.AllocateSet[dt]
		names := make([]string, 0, len(as))
		for n := range as {
			names = append(names, n)
		}
		sort.Strings(names)
		out = append(out, int64(len(names)))
		for _, n := range names {
			var id int64
			fmt.Sscanf(n, "default/p%02d", &id)
			out = append(out, id)
			dr := deviceResources{}
			for m, rl := range as[n] {
				dr[m] = rl
			}
			out = append(out, vtC07DumpDevRes(t, dr)...)
		}
	}
	for dt := range s.DeviceTotalDetail {
		if vtC07TypeIdx(dt) < 0 {
			vtC07Unknown++
		}
	}
	for dt := range s.DeviceUsedDetail {
		if vtC07TypeIdx(dt) < 0 {
			vtC07Unknown++
		}
	}
	out = append(out, vtC07Unknown)
	return out
}

func vtC07PodName(id int64) string { return fmt.Sprintf("p%02d", id) }

func vtC07Pod(id int64, allocs apiext.DeviceAllocations) *corev1.Pod {
	pod := &corev1.Pod{
		ObjectMeta: metav1.ObjectMeta{Namespace: "default", Name: vtC07PodName(id), UID: types.UID(vtC07PodName(id))},
		Spec:       corev1.PodSpec{NodeName: vtC07Node},
	}
	if allocs != nil {
		if err := apiext.SetDeviceAllocations(pod, allocs); err != nil {
			panic(err)
		}
	}
	return pod
}

func vtC07DecodeAllocs(in []int64, pos *int) apiext.DeviceAllocations {
	n := int(in[*pos])
	*pos++
	allocs := apiext.DeviceAllocations{}
	for i := 0; i < n; i++ {
		t := int(in[*pos])
		minor := in[*pos+1]
		vs := in[*pos+2 : *pos+5]
		*pos += 5
		allocs[vtC07Types[t]] = append(allocs[vtC07Types[t]], &apiext.DeviceAllocation{
			Minor: int32(minor), Resources: vtC07ResList(t, vs)})
	}
	return allocs
}

var vtC07ReqNames = []corev1.ResourceName{apiext.ResourceGPU, apiext.ResourceGPUCore, apiext.ResourceGPUMemoryRatio,
	apiext.ResourceGPUShared, apiext.ResourceNvidiaGPU, apiext.ResourceRDMA, apiext.ResourceFPGA}

func vtC07ReqPod(id int64, req []int64) *corev1.Pod {
	pod := vtC07Pod(id, nil)
	pod.Spec.NodeName = ""
	rl := corev1.ResourceList{}
	for i, name := range vtC07ReqNames {
		if req[i] != 0 {
			rl[name] = *resource.NewQuantity(req[i], resource.DecimalSI)
		}
	}
	pod.Spec.Containers = []corev1.Container{{Name: "c", Resources: corev1.ResourceRequirements{Requests: rl, Limits: rl}}}
	return pod
}

func vtC07StatusCode(s *fwktype.Status) int64 {
	switch s.Code() {
	case fwktype.Success:
		return 0
	case fwktype.Unschedulable:
		return 1
	case fwktype.UnschedulableAndUnresolvable:
		return 2
	case fwktype.Skip:
		return 4
	default:
		return 3
	}
}

type vtC07Rec struct {
	allocs    apiext.DeviceAllocations
	scheduled bool
	cycle     fwktype.CycleState
	pod       *corev1.Pod
}

func vtC07SetKind(kind int64) {
	// + 4: the plugin is configured with the MostAllocated scoring strategy
	vtC07Plugin.scorer = vtC07Scorers[0]
	if kind >= 4 {
		vtC07Plugin.scorer = vtC07Scorers[1]
		kind -= 4
	}
	node := vtC07NodeInfo.Node()
	node.Labels = map[string]string{}
	if kind == 1 || kind == 2 {
		node.Labels[apiext.LabelGPUModel] = "H800"
	}
	if kind == 1 {
		node.Labels[apiext.LabelGPUPartitionPolicy] = string(apiext.GPUPartitionPolicyHonor)
	}
}

func vtC07Exec(in []int64) []int64 {
	vtC07SetKind(0)
	pl := vtC07Plugin
	pl.nodeDeviceCache = newNodeDeviceCache()
	cache := pl.nodeDeviceCache
	// the node's device cache entry exists from the start (an empty Device CR was seen)
	var lastDevice *schedulingv1alpha1.Device = &schedulingv1alpha1.Device{ObjectMeta: metav1.ObjectMeta{Name: vtC07Node}}
	cache.onDeviceAdd(lastDevice)
	live := map[int64]*vtC07Rec{}                // pods the environment considers bound, with their annotation
	last := map[int64]apiext.DeviceAllocations{} // last annotation of pods that are gone (duplicate deletes)
	open := map[int64]*vtC07Rec{}                // scheduling cycles that passed Filter and were not reserved yet
	var obs []int64
	nops := int(in[0])
	pos := 1
	for k := 0; k < nops; k++ {
		op := in[pos]
		pos++
		switch op {
		case 1:
			n := int(in[pos])
			pos++
			dev := &schedulingv1alpha1.Device{ObjectMeta: metav1.ObjectMeta{Name: vtC07Node}}
			for i := 0; i < n; i++ {
				r := in[pos : pos+8]
				pos += 8
				t := int(r[0])
				info := schedulingv1alpha1.DeviceInfo{
					Type: vtC07Types[t], Minor: ptr.To(int32(r[1])), Health: r[2] != 0,
					UUID:      fmt.Sprintf("u-%d-%d", t, r[1]),
					Resources: vtC07ResList(t, r[3:6]),
				}
				if r[6] >= 0 {
					info.Topology = &schedulingv1alpha1.DeviceTopology{NodeID: int32(r[6]), PCIEID: fmt.Sprintf("pcie%02d", r[7])}
				}
				dev.Spec.Devices = append(dev.Spec.Devices, info)
			}
			cache.onDeviceUpdate(lastDevice, dev)
			lastDevice = dev
			obs = append(obs, 0)
		case 2:
			id := in[pos]
			req := in[pos+1 : pos+8]
			pos += 8
			if _, ok := live[id]; ok {
				obs = append(obs, -1)
				break
			}
			pod := vtC07ReqPod(id, req)
			cs := framework.NewCycleState()
			ctx := context.TODO()
			_, st := pl.PreFilter(ctx, cs, pod, nil)
			if st.IsSuccess() {
				st = pl.Filter(ctx, cs, pod, vtC07NodeInfo)
			}
			if st.IsSuccess() {
				st = pl.Reserve(ctx, cs, pod, vtC07Node)
			}
			obs = append(obs, vtC07StatusCode(st))
			var res apiext.DeviceAllocations
			if st.IsSuccess() {
				state, _ := getPreFilterState(cs)
				res = state.allocationResult
			}
			cnt := 0
			for _, as := range res {
				cnt += len(as)
			}
			obs = append(obs, int64(cnt))
			for t, dt := range vtC07Types {
				for _, a := range res[dt] {
					obs = append(obs, int64(t), int64(a.Minor))
					obs = append(obs, vtC07Slots3(t, a.Resources)...)
				}
			}
			if st.IsSuccess() && cnt > 0 {
				live[id] = &vtC07Rec{allocs: res, scheduled: true, cycle: cs, pod: pod}
			}
		case 3:
			id := in[pos]
			pos++
			r, ok := live[id]
			if !ok || !r.scheduled {
				obs = append(obs, -1)
				break
			}
			pl.Unreserve(context.TODO(), r.cycle, r.pod, vtC07Node)
			last[id] = r.allocs
			delete(live, id)
			obs = append(obs, 0)
		case 4:
			id := in[pos]
			pos++
			if r, ok := live[id]; ok {
				cache.onPodAdd(vtC07Pod(id, r.allocs))
				obs = append(obs, 0)
			} else {
				cache.onPodAdd(vtC07Pod(id, nil))
				obs = append(obs, -1)
			}
		case 5, 12:
			id := in[pos]
			pos++
			del := func(p *corev1.Pod) {
				if op == 12 {
					cache.onPodDelete(k8scache.DeletedFinalStateUnknown{Key: "default/" + p.Name, Obj: p})
				} else {
					cache.onPodDelete(p)
				}
			}
			if r, ok := live[id]; ok {
				del(vtC07Pod(id, r.allocs))
				last[id] = r.allocs
				delete(live, id)
				obs = append(obs, 0)
			} else {
				del(vtC07Pod(id, last[id])) // duplicate delete, or delete of a pod never seen
				obs = append(obs, -1)
			}
		case 6, 8:
			id := in[pos]
			pos++
			allocs := vtC07DecodeAllocs(in, &pos)
			r, ok := live[id]
			if op == 6 {
				if ok {
					obs = append(obs, -1)
					break
				}
				cache.onPodAdd(vtC07Pod(id, allocs))
				live[id] = &vtC07Rec{allocs: allocs}
			} else {
				if !ok {
					obs = append(obs, -1)
					break
				}
				cache.onPodUpdate(vtC07Pod(id, r.allocs), vtC07Pod(id, allocs))
				live[id] = &vtC07Rec{allocs: allocs}
			}
			obs = append(obs, 0)
		case 7, 13:
			if op == 13 {
				cache.onDeviceDelete(k8scache.DeletedFinalStateUnknown{Key: vtC07Node, Obj: lastDevice})
			} else {
				cache.onDeviceDelete(lastDevice)
			}
			obs = append(obs, 0)
		case 9:
			id := in[pos]
			pos++
			r, ok := live[id]
			if !ok {
				obs = append(obs, -1)
				break
			}
			np := vtC07Pod(id, r.allocs)
			np.Status.Phase = corev1.PodSucceeded
			cache.onPodUpdate(vtC07Pod(id, r.allocs), np)
			last[id] = r.allocs
			delete(live, id)
			obs = append(obs, 0)
		case 10:
			id := in[pos]
			req := in[pos+1 : pos+8]
			nv := int(in[pos+8])
			victims := in[pos+9 : pos+9+nv]
			pos += 9 + nv
			pod := vtC07ReqPod(id, req)
			cs := framework.NewCycleState()
			ctx := context.TODO()
			_, st := pl.PreFilter(ctx, cs, pod, nil)
			if st.IsSuccess() {
				for _, v := range victims {
					pi, _ := framework.NewPodInfo(vtC07Pod(v, nil))
					if rs := pl.PreFilterExtensions().RemovePod(ctx, cs, pod, pi, vtC07NodeInfo); !rs.IsSuccess() {
						panic("RemovePod failed")
					}
				}
				st = pl.Filter(ctx, cs, pod, vtC07NodeInfo)
			}
			obs = append(obs, vtC07StatusCode(st))
		case 11:
			vtC07SetKind(in[pos])
			pos++
			obs = append(obs, 0)
		case 14:
			id := in[pos]
			req := in[pos+1 : pos+8]
			hint := in[pos+8] != 0
			pos += 9
			npos := pos
			nal := int(in[npos])
			allocs := vtC07DecodeAllocs(in, &pos)
			if _, ok := live[id]; ok {
				obs = append(obs, -1)
				break
			}
			pod := vtC07ReqPod(id, req)
			if nal > 0 {
				if err := apiext.SetDeviceAllocations(pod, allocs); err != nil {
					panic(err)
				}
			}
			cs := framework.NewCycleState()
			if hint {
				hinter.SetSchedulingHintState(cs, &hinter.SchedulingHintStateData{
					PreFilterNodes: []string{vtC07Node}, Extensions: map[string]interface{}{Name: nil}})
			}
			ctx := context.TODO()
			_, st := pl.PreFilter(ctx, cs, pod, nil)
			if st.IsSuccess() {
				st = pl.Filter(ctx, cs, pod, vtC07NodeInfo)
			}
			if st.IsSuccess() {
				open[id] = &vtC07Rec{cycle: cs, pod: pod}
			} else {
				delete(open, id)
			}
			obs = append(obs, vtC07StatusCode(st))
		case 15:
			id := in[pos]
			pos++
			r, ok := open[id]
			if _, bound := live[id]; bound || !ok {
				obs = append(obs, -1)
				break
			}
			st := pl.Filter(context.TODO(), r.cycle, r.pod, vtC07NodeInfo)
			if !st.IsSuccess() {
				delete(open, id)
			}
			obs = append(obs, vtC07StatusCode(st))
		case 16:
			id := in[pos]
			pos++
			r, ok := open[id]
			if _, bound := live[id]; bound || !ok {
				obs = append(obs, -1)
				break
			}
			delete(open, id)
			ctx := context.TODO()
			st := pl.Reserve(ctx, r.cycle, r.pod, vtC07Node)
			obs = append(obs, vtC07StatusCode(st))
			var res apiext.DeviceAllocations
			if st.IsSuccess() {
				state, _ := getPreFilterState(r.cycle)
				res = state.allocationResult
			} else {
				pl.Unreserve(ctx, r.cycle, r.pod, vtC07Node) // what the framework does when a Reserve plugin fails
			}
			cnt := 0
			for _, as := range res {
				cnt += len(as)
			}
			obs = append(obs, int64(cnt))
			for t, dt := range vtC07Types {
				for _, a := range res[dt] {
					obs = append(obs, int64(t), int64(a.Minor))
					obs = append(obs, vtC07Slots3(t, a.Resources)...)
				}
			}
			if st.IsSuccess() && cnt > 0 {
				live[id] = &vtC07Rec{allocs: res, scheduled: true, cycle: r.cycle, pod: r.pod}
			}
		default:
			panic("bad op")
		}
		obs = append(obs, vtC07Summary(cache.getNodeDevice(vtC07Node, false))...)
	}
	return obs
}

// ---------------------------------------------------------------- generator

type vtC07G struct {
	r     *rand.Rand
	style string
	inv   [][]int64 // current inventory records (type minor health v0 v1 v2 numa pcie)
	topo  bool      // GPUs carry NUMA / PCIe topology
	tried []int64   // pods for which a schedule / foreign add was generated and no release yet
	next  int64
}

func (g *vtC07G) pick(xs ...int64) int64 { return xs[g.r.Intn(len(xs))] }

func (g *vtC07G) genInventory() [][]int64 {
	r := g.r
	var inv [][]int64
	degenerate := g.style == "degenerate"
	// gpu
	ng := 1 + r.Intn(4)
	if r.Intn(5) == 0 {
		ng = 0
	}
	mem := g.pick(16000, 81920, 1<<34, 24576, 1000, 7)
	minor := int64(0)
	topo := g.topo
	if topo && r.Intn(3) != 0 {
		ng = 2 + r.Intn(5)
	}
	numas := int64(1 + r.Intn(2))
	for i := 0; i < ng; i++ {
		if r.Intn(5) == 0 {
			minor++ // gap in the minor numbering
		}
		rec := []int64{0, minor, 1, 100, 100, mem, -1, 0}
		if topo && r.Intn(25) != 0 {
			rec[6] = int64(r.Intn(int(numas)))
			rec[7] = rec[6]*2 + int64(r.Intn(2)) // PCIe ids are unique across NUMA nodes
		}
		if r.Intn(8) == 0 {
			rec[2] = 0 // unhealthy
		}
		if degenerate {
			switch r.Intn(8) {
			case 0:
				rec[3], rec[4], rec[5] = 0, 0, 0
			case 1:
				rec[3] = -1 // no gpu-core key
			case 2:
				rec[5] = -1 // no gpu-memory key
			case 3:
				rec[4] = g.pick(50, 200, 100) // odd ratio total
				rec[3] = g.pick(50, 200, 100)
			case 4:
				rec[3], rec[4], rec[5] = -1, -1, -1
			}
		}
		inv = append(inv, rec)
		minor++
	}
	for t := int64(1); t <= 2; t++ {
		n := 1 + r.Intn(3)
		if t == 2 {
			n = 1 + r.Intn(2)
		}
		if r.Intn(3) == 0 {
			n = 0
		}
		minor = 0
		for i := 0; i < n; i++ {
			if r.Intn(6) == 0 {
				minor++
			}
			rec := []int64{t, minor, 1, 100, -1, -1, -1, 0}
			if r.Intn(8) == 0 {
				rec[2] = 0
			}
			if degenerate {
				switch r.Intn(6) {
				case 0:
					rec[3] = 0
				case 1:
					rec[3] = -1
				case 2:
					rec[3] = g.pick(50, 200, 1)
				}
			}
			inv = append(inv, rec)
			minor++
		}
	}
	r.Shuffle(len(inv), func(i, j int) { inv[i], inv[j] = inv[j], inv[i] })
	return inv
}

func (g *vtC07G) mutateInventory() [][]int64 {
	r := g.r
	if len(g.inv) == 0 || r.Intn(4) == 0 {
		return g.genInventory()
	}
	inv := make([][]int64, 0, len(g.inv))
	for _, rec := range g.inv {
		c := append([]int64(nil), rec...)
		switch r.Intn(8) {
		case 0:
			c[2] = 1 - c[2] // health flips
		case 1:
			continue // device disappears
		case 2:
			if g.style == "degenerate" {
				c[3] = g.pick(50, 100, 200, 30)
			}
		}
		inv = append(inv, c)
	}
	return inv
}

func (g *vtC07G) refreshOp() []int64 {
	g.inv = g.mutateInventory()
	out := []int64{1, int64(len(g.inv))}
	for _, rec := range g.inv {
		out = append(out, rec...)
	}
	return out
}

func (g *vtC07G) freshPod() int64 {
	if len(g.tried) > 0 && g.r.Intn(12) == 0 {
		return g.tried[g.r.Intn(len(g.tried))] // scheduling a pod that may still be bound
	}
	p := g.next
	g.next++
	return p
}

func (g *vtC07G) somePod() int64 {
	if len(g.tried) > 0 && g.r.Intn(8) != 0 {
		return g.tried[g.r.Intn(len(g.tried))]
	}
	if g.next > 0 && g.r.Intn(2) == 0 {
		return g.r.Int63n(g.next) // possibly a pod that is already gone: duplicate event
	}
	return g.next + int64(g.r.Intn(2)) // a pod never seen
}

func (g *vtC07G) drop(p int64) {
	for i, q := range g.tried {
		if q == p {
			g.tried = append(g.tried[:i], g.tried[i+1:]...)
			return
		}
	}
}

func (g *vtC07G) hasType(t int64) bool {
	for _, rec := range g.inv {
		if rec[0] == t && rec[2] != 0 {
			return true
		}
	}
	return false
}

func (g *vtC07G) scheduleOp() []int64 {
	r := g.r
	p := g.freshPod()
	req := make([]int64, 7)
	gpu := func() {
		switch r.Intn(12) {
		case 0, 1, 2:
			req[0] = g.pick(10, 25, 50, 50, 100, 100, 200, 300, 400, 150, 1)
		case 3, 4:
			req[1] = g.pick(10, 25, 50, 100, 200, 30)
			req[2] = g.pick(10, 25, 50, 100, 200, 300)
		case 5:
			req[2] = g.pick(20, 50, 100, 200, 300, 120)
		case 6, 7:
			req[4] = g.pick(1, 1, 2, 3, 4)
		case 8:
			req[3] = g.pick(1, 2, 3)
			req[2] = req[3] * g.pick(10, 50, 100, 101)
			if r.Intn(2) == 0 {
				req[1] = req[3] * g.pick(10, 50, 100)
			}
		case 9:
			req[3] = g.pick(1, 2)
			req[2] = g.pick(50, 100, 75, 33)
			req[1] = g.pick(0, 50, 33)
		case 10:
			req[1] = g.pick(10, 150, 50)
			req[2] = g.pick(250, 50, 100)
		default:
			// odd combinations (mostly invalid)
			for i := 0; i < 5; i++ {
				if r.Intn(3) == 0 {
					req[i] = g.pick(1, 50, 100, 200)
				}
			}
		}
	}
	simple := func(i int) { req[i] = g.pick(1, 25, 50, 50, 100, 100, 100, 200, 300, 150) }
	// mostly ask for device types the node has
	var have []int
	for t := int64(0); t < 3; t++ {
		if g.hasType(t) {
			have = append(have, int(t))
		}
	}
	ask := func(t int) {
		if t == 0 {
			gpu()
		} else {
			simple(4 + t)
		}
	}
	switch {
	case len(have) == 0 || r.Intn(10) == 0:
		if r.Intn(3) != 0 {
			ask(r.Intn(3))
		}
	case r.Intn(4) == 0 && len(have) > 1:
		for _, t := range have {
			if r.Intn(3) != 0 {
				ask(t)
			}
		}
	default:
		ask(have[r.Intn(len(have))])
	}
	g.tried = append(g.tried, p)
	return append([]int64{2, p}, req...)
}

func (g *vtC07G) allocList() []int64 {
	r := g.r
	n := 1 + r.Intn(3)
	if r.Intn(10) == 0 {
		n = 0
	}
	var recs [][]int64
	seen := map[[2]int64]bool{}
	allowDup := r.Intn(12) == 0 // an annotation naming a device twice is malformed: rare
	for i := 0; i < n; i++ {
		var t, minor int64
		if len(g.inv) > 0 && r.Intn(6) != 0 {
			rec := g.inv[r.Intn(len(g.inv))]
			t, minor = rec[0], rec[1]
		} else {
			t, minor = int64(r.Intn(3)), int64(r.Intn(5))
		}
		if seen[[2]int64{t, minor}] && !allowDup {
			continue
		}
		seen[[2]int64{t, minor}] = true
		amt := g.pick(10, 25, 50, 50, 100, 100, 0, 130)
		vs := []int64{amt, -1, -1}
		if t == 0 {
			vs = []int64{amt, amt, amt * 160}
			if g.style == "degenerate" {
				switch r.Intn(5) {
				case 0:
					vs[2] = -1
				case 1:
					vs[0] = -1
				case 2:
					vs[2] = g.pick(0, 1, 1<<20)
				}
			}
		}
		recs = append(recs, []int64{t, minor, vs[0], vs[1], vs[2]})
	}
	out := []int64{int64(len(recs))}
	for _, rec := range recs {
		out = append(out, rec...)
	}
	return out
}

// "sharing" histories: few GPUs (and RDMA devices) shared by many fractional pods, preemption
// dry runs that remove three or four of them at once (several victims per minor, spread over
// at least two minors), and more scheduling afterwards, so that a record corrupted by a dry run
// shows up as a changed ledger at once and as over-commit later.
func (g *vtC07G) sharingCase() (string, []int64) {
	r := g.r
	var ops [][]int64
	ng := 2 + r.Intn(2)
	mem := g.pick(16000, 81920, 1<<34)
	for m := 0; m < ng; m++ {
		rec := []int64{0, int64(m), 1, 100, 100, mem, -1, 0}
		if g.topo {
			rec[6], rec[7] = int64(m%2), int64(m%2)*2+int64(r.Intn(2))
		}
		g.inv = append(g.inv, rec)
	}
	nr := r.Intn(3)
	for m := 0; m < nr; m++ {
		g.inv = append(g.inv, []int64{1, int64(m), 1, 100, -1, -1, -1, 0})
	}
	o := []int64{1, int64(len(g.inv))}
	for _, rec := range g.inv {
		o = append(o, rec...)
	}
	ops = append(ops, o)
	frac := func() []int64 {
		p := g.next
		g.next++
		g.tried = append(g.tried, p)
		req := make([]int64, 7)
		switch r.Intn(6) {
		case 0:
			if nr > 0 {
				req[5] = g.pick(10, 20, 30, 40)
				break
			}
			fallthrough
		case 1:
			req[1], req[2] = g.pick(10, 20, 30), g.pick(10, 20, 30, 40)
		default:
			req[0] = g.pick(10, 20, 30, 30, 40, 50)
		}
		return append([]int64{2, p}, req...)
	}
	foreign := func() []int64 {
		p := g.next
		g.next++
		g.tried = append(g.tried, p)
		rec := g.inv[r.Intn(len(g.inv))]
		amt := g.pick(10, 20, 30, 40)
		vs := []int64{amt, -1, -1}
		if rec[0] == 0 {
			vs = []int64{amt, amt, amt * mem / 100}
		}
		return []int64{6, p, 1, rec[0], rec[1], vs[0], vs[1], vs[2]}
	}
	dry := func() []int64 {
		req := make([]int64, 7)
		if nr > 0 && r.Intn(4) == 0 {
			req[5] = g.pick(60, 80, 100)
		} else {
			req[0] = g.pick(60, 70, 80, 90, 100, 200)
		}
		nv := 2 + r.Intn(3)
		perm := r.Perm(len(g.tried))
		var vs []int64
		for _, j := range perm {
			if len(vs) < nv {
				vs = append(vs, g.tried[j])
			}
		}
		o := append([]int64{10, g.next + 50}, req...)
		o = append(o, int64(len(vs)))
		return append(o, vs...)
	}
	nfill := 4 + r.Intn(4)
	for j := 0; j < nfill; j++ {
		if r.Intn(4) == 0 {
			ops = append(ops, foreign())
		} else {
			ops = append(ops, frac())
		}
	}
	nrest := 4 + r.Intn(8)
	for j := 0; j < nrest; j++ {
		k := r.Intn(100)
		switch {
		case k < 35:
			ops = append(ops, dry())
		case k < 65:
			ops = append(ops, frac())
		case k < 75:
			// a pod that only fits if a record was inflated by an earlier dry run
			o := dry()
			q := g.next
			g.next++
			g.tried = append(g.tried, q)
			ops = append(ops, append([]int64{2, q}, o[2:9]...))
		case k < 90:
			p := g.somePod()
			g.drop(p)
			ops = append(ops, []int64{g.pick(3, 5, 5, 9), p})
		default:
			ops = append(ops, []int64{4, g.somePod()})
		}
	}
	in := []int64{int64(len(ops))}
	for _, o := range ops {
		in = append(in, o...)
	}
	label := "sharing"
	if g.topo {
		label += "+topo"
	}
	return label, in
}

// "partition" histories: a node labelled with a Hopper GPU model (partition table of 1/2/4/8 GPUs),
// mostly with the Honor policy, up to eight GPUs some of which are unhealthy, whole-GPU requests
// for 1, 2, 4 or 8 GPUs (rarely 3), a few fractional pods, releases and inventory flips.
func (g *vtC07G) partitionCase() (string, []int64) {
	r := g.r
	kind := g.pick(1, 1, 1, 2)
	if r.Intn(4) == 0 {
		kind += 4
	}
	ops := [][]int64{{11, kind}}
	ng := int(g.pick(8, 8, 8, 4, 6))
	mem := g.pick(16000, 81920)
	mkInv := func() []int64 {
		g.inv = nil
		for m := 0; m < ng; m++ {
			rec := []int64{0, int64(m), 1, 100, 100, mem, -1, 0}
			if r.Intn(5) == 0 {
				rec[2] = 0
			}
			if g.topo {
				rec[6], rec[7] = int64(m/4), int64(m/2)
			}
			g.inv = append(g.inv, rec)
		}
		if r.Intn(3) == 0 {
			g.inv = append(g.inv, []int64{1, 0, 1, 100, -1, -1, -1, 0})
		}
		o := []int64{1, int64(len(g.inv))}
		for _, rec := range g.inv {
			o = append(o, rec...)
		}
		return o
	}
	ops = append(ops, mkInv())
	sched := func() []int64 {
		p := g.next
		g.next++
		g.tried = append(g.tried, p)
		req := make([]int64, 7)
		switch r.Intn(10) {
		case 0:
			req[0] = g.pick(30, 50) // fractional: not partitioned
		case 1:
			req[0] = g.pick(100, 200, 400)
		case 2:
			req[1], req[2] = g.pick(50, 100, 200), g.pick(200, 400)
		default:
			req[4] = g.pick(1, 1, 2, 2, 2, 4, 4, 8, 3)
		}
		return append([]int64{2, p}, req...)
	}
	nops := 5 + r.Intn(12)
	for len(ops) < nops {
		k := r.Intn(100)
		switch {
		case k < 55:
			ops = append(ops, sched())
		case k < 75:
			p := g.somePod()
			g.drop(p)
			ops = append(ops, []int64{g.pick(3, 5, 5, 9), p})
		case k < 82:
			ops = append(ops, mkInv())
		case k < 88:
			o := sched()
			g.tried = g.tried[:len(g.tried)-1]
			o[0] = 10
			nv := r.Intn(3)
			var vs []int64
			seen := map[int64]bool{}
			for j := 0; j < nv && len(g.tried) > 0; j++ {
				v := g.tried[r.Intn(len(g.tried))]
				if !seen[v] {
					seen[v] = true
					vs = append(vs, v)
				}
			}
			o = append(o, int64(len(vs)))
			ops = append(ops, append(o, vs...))
		case k < 92:
			p := g.next
			g.next++
			g.tried = append(g.tried, p)
			m := int64(r.Intn(ng))
			amt := g.pick(100, 100, 50, 0)
			ops = append(ops, []int64{6, p, 1, 0, m, amt, amt, amt * mem / 100})
		case k < 95:
			ops = append(ops, []int64{11, g.pick(0, 1, 2, 5, 6)})
		default:
			ops = append(ops, []int64{4, g.somePod()})
		}
	}
	in := []int64{int64(len(ops))}
	for _, o := range ops {
		in = append(in, o...)
	}
	label := fmt.Sprintf("partition%d", kind)
	if g.topo {
		label += "+topo"
	}
	return label, in
}

// "cycles" histories: scheduling cycles whose Filter and Reserve phases are separate operations, with
// informer events, other pods' cycles and inventory refreshes in between (the scheduler's cache is
// updated concurrently with a cycle), repeated Filter calls on one cycle state, and pods that carry a
// designated allocation (annotation + scheduling hint naming the plugin): consistent with the request,
// too small, on absent / unhealthy devices, with keys missing.
func (g *vtC07G) cyclesCase() (string, []int64) {
	r := g.r
	var ops [][]int64
	if r.Intn(6) == 0 {
		ops = append(ops, []int64{11, g.pick(2, 2, 1)})
	}
	ng := 1 + r.Intn(4)
	mem := g.pick(16000, 81920, 1<<34, 1000)
	mkInv := func(flip bool) []int64 {
		if !flip || len(g.inv) == 0 {
			g.inv = nil
			for m := 0; m < ng; m++ {
				rec := []int64{0, int64(m), 1, 100, 100, mem, -1, 0}
				if g.topo {
					rec[6], rec[7] = int64(m%2), int64(m%2)*2+int64(r.Intn(2))
				}
				if r.Intn(10) == 0 {
					rec[2] = 0
				}
				g.inv = append(g.inv, rec)
			}
			nr := r.Intn(3)
			for m := 0; m < nr; m++ {
				g.inv = append(g.inv, []int64{1, int64(m), 1, 100, -1, -1, -1, 0})
			}
			if r.Intn(5) == 0 {
				g.inv = append(g.inv, []int64{2, 0, 1, 100, -1, -1, -1, 0})
			}
		} else {
			switch r.Intn(4) {
			case 0:
				rec := g.inv[r.Intn(len(g.inv))]
				rec[2] = 1 - rec[2]
			case 1:
				i := r.Intn(len(g.inv))
				g.inv = append(g.inv[:i:i], g.inv[i+1:]...)
			case 2:
				for _, rec := range g.inv {
					if rec[0] == 0 {
						rec[5] = g.pick(16000, 81920, 8000)
					}
				}
			default:
				g.inv = nil // all devices gone (the GPU entry of deviceTotal stays, empty)
			}
		}
		o := []int64{1, int64(len(g.inv))}
		for _, rec := range g.inv {
			o = append(o, rec...)
		}
		return o
	}
	if r.Intn(8) != 0 {
		ops = append(ops, mkInv(false))
	}
	minorsOf := func(t int64) []int64 {
		var ms []int64
		for _, rec := range g.inv {
			if rec[0] == t {
				ms = append(ms, rec[1])
			}
		}
		return ms
	}
	var open []int64
	// a request and, per requested instance, the amounts (v0 v1 v2) a consistent annotation records
	type shape struct {
		req   []int64
		t     int64
		count int
		vs    []int64
	}
	mkShape := func() shape {
		req := make([]int64, 7)
		switch r.Intn(10) {
		case 0, 1, 2:
			a := g.pick(10, 20, 30, 50, 50, 70)
			req[0] = a
			return shape{req, 0, 1, []int64{a, a, a * mem / 100}}
		case 3, 4:
			n := g.pick(1, 1, 2, 3)
			req[4] = n
			return shape{req, 0, int(n), []int64{100, 100, mem}}
		case 5:
			n := g.pick(1, 2)
			req[0] = 100 * n
			return shape{req, 0, int(n), []int64{100, 100, mem}}
		case 6:
			c, m := g.pick(10, 30, 50), g.pick(20, 40, 60)
			req[1], req[2] = c, m
			return shape{req, 0, 1, []int64{c, m, m * mem / 100}}
		case 7:
			m := g.pick(25, 50, 100)
			req[2] = m
			return shape{req, 0, 1, []int64{-1, m, m * mem / 100}}
		case 8:
			a := g.pick(20, 50, 100, 200)
			req[5] = a
			if a > 100 {
				return shape{req, 1, int(a / 100), []int64{100, -1, -1}}
			}
			return shape{req, 1, 1, []int64{a, -1, -1}}
		default:
			req[6] = g.pick(50, 100)
			return shape{req, 2, 1, []int64{req[6], -1, -1}}
		}
	}
	openOp := func() []int64 {
		p := g.next
		g.next++
		sh := mkShape()
		var al [][]int64
		style := r.Intn(10)
		if style < 8 { // an annotation is present
			ms := minorsOf(sh.t)
			r.Shuffle(len(ms), func(i, j int) { ms[i], ms[j] = ms[j], ms[i] })
			for i := 0; i < sh.count; i++ {
				var m int64
				if i < len(ms) && r.Intn(12) != 0 {
					m = ms[i]
				} else {
					m = int64(r.Intn(5)) // maybe absent, maybe named twice
				}
				vs := append([]int64(nil), sh.vs...)
				switch r.Intn(12) {
				case 0:
					vs[0] = g.pick(5, 10, 0) // designation smaller than the request
					if sh.t == 0 {
						vs[1] = vs[0]
					}
				case 1:
					if sh.t == 0 {
						vs[2] = -1 // gpu-memory to be filled in
					}
				case 2:
					if sh.t == 0 {
						vs[0] = -1 // no gpu-core recorded
					}
				case 3:
					if sh.t == 0 {
						vs[2] = g.pick(0, 1, mem/2)
					}
				}
				if sh.t == 0 && vs[1] < 0 {
					vs[1] = g.pick(50, 100) // bytes-only annotations are outside the model (float64 ratio)
				}
				al = append(al, []int64{sh.t, m, vs[0], vs[1], vs[2]})
			}
			if r.Intn(10) == 0 { // an entry for a type the pod does not request
				al = append(al, []int64{g.pick(0, 1, 2), int64(r.Intn(3)), 50, 50, -1})
				if al[len(al)-1][0] != 0 {
					al[len(al)-1][3] = -1
				}
			}
			if r.Intn(15) == 0 && len(al) > 0 {
				al = al[:len(al)-1] // fewer devices designated than requested
			}
		}
		hint := int64(1)
		if r.Intn(7) == 0 {
			hint = 0
		}
		o := append([]int64{14, p}, sh.req...)
		o = append(o, hint, int64(len(al)))
		for _, a := range al {
			o = append(o, a...)
		}
		open = append(open, p)
		return o
	}
	sched := func() []int64 {
		p := g.next
		g.next++
		g.tried = append(g.tried, p)
		return append([]int64{2, p}, mkShape().req...)
	}
	foreign := func() []int64 {
		p := g.next
		g.next++
		g.tried = append(g.tried, p)
		if len(g.inv) == 0 {
			return []int64{6, p, 1, 0, 0, 50, 50, -1}
		}
		rec := g.inv[r.Intn(len(g.inv))]
		amt := g.pick(100, 100, 50, 30, 60)
		vs := []int64{amt, -1, -1}
		if rec[0] == 0 {
			vs = []int64{amt, amt, amt * mem / 100}
		}
		return []int64{6, p, 1, rec[0], rec[1], vs[0], vs[1], vs[2]}
	}
	someOpen := func() int64 {
		if len(open) > 0 && r.Intn(10) != 0 {
			return open[r.Intn(len(open))]
		}
		return g.somePod()
	}
	nfill := r.Intn(4)
	for j := 0; j < nfill; j++ {
		if r.Intn(3) == 0 {
			ops = append(ops, foreign())
		} else {
			ops = append(ops, sched())
		}
	}
	nrest := 5 + r.Intn(12)
	for j := 0; j < nrest; j++ {
		k := r.Intn(100)
		switch {
		case k < 25:
			ops = append(ops, openOp())
		case k < 45:
			p := someOpen()
			ops = append(ops, []int64{16, p})
			g.tried = append(g.tried, p)
		case k < 55:
			ops = append(ops, []int64{15, someOpen()})
		case k < 67:
			ops = append(ops, foreign())
		case k < 77:
			ops = append(ops, sched())
		case k < 87:
			p := g.somePod()
			g.drop(p)
			ops = append(ops, []int64{g.pick(3, 5, 5, 9), p})
		case k < 94:
			ops = append(ops, mkInv(true))
		case k < 96:
			ops = append(ops, []int64{7})
		default:
			ops = append(ops, []int64{4, g.somePod()})
		}
	}
	in := []int64{int64(len(ops))}
	for _, o := range ops {
		in = append(in, o...)
	}
	label := "cycles"
	if g.topo {
		label += "+topo"
	}
	return label, in
}

// vtC07Gen: one of the styles below; afterwards a third of the pod / Device CR deletions are
// turned into deletions learnt from a re-list (tombstones).
func vtC07Gen(r *rand.Rand, i int) (string, []int64) {
	label, in := vtC07GenStyle(r, i)
	nops := int(in[0])
	pos := 1
	for k := 0; k < nops; k++ {
		switch in[pos] {
		case 1:
			pos += 2 + 8*int(in[pos+1])
		case 2:
			pos += 9
		case 3, 4, 9, 11:
			pos += 2
		case 5:
			if r.Intn(3) == 0 {
				in[pos] = 12
			}
			pos += 2
		case 6, 8:
			pos += 3 + 5*int(in[pos+2])
		case 7:
			if r.Intn(3) == 0 {
				in[pos] = 13
			}
			pos++
		case 10:
			pos += 10 + int(in[pos+9])
		case 14:
			pos += 11 + 5*int(in[pos+10])
		case 15, 16:
			pos += 2
		default:
			panic("vtC07Gen: unknown op")
		}
	}
	return label, in
}

func vtC07GenStyle(r *rand.Rand, i int) (string, []int64) {
	g := &vtC07G{r: r}
	g.style = []string{"plain", "plain", "plain", "churn", "churn", "degenerate", "sharing", "partition", "cycles", "cycles"}[r.Intn(10)]
	g.topo = r.Intn(5) < 2
	if g.style == "sharing" || g.style == "cycles" {
		var label string
		var in []int64
		if g.style == "sharing" {
			label, in = g.sharingCase()
		} else {
			label, in = g.cyclesCase()
		}
		if r.Intn(3) == 0 && in[1] != 11 { // bin-packing strategy: fractional pods pile up on one device
			in = append([]int64{in[0] + 1, 11, 4}, in[1:]...)
			label += "+most"
		}
		return label, in
	}
	if g.style == "partition" {
		return g.partitionCase()
	}
	if k := r.Intn(12); k < 3 {
		// the ordinary styles occasionally run on a node that carries a partition table (without the
		// Honor policy: no map-order dependent status when several types fail) and / or with the
		// MostAllocated scoring strategy
		label, in := g.ordinaryCase()
		kind := []int64{2, 4, 6}[k]
		in = append([]int64{in[0] + 1, 11, kind}, in[1:]...)
		return fmt.Sprintf("%s+kind%d", label, kind), in
	}
	return g.ordinaryCase()
}

func (g *vtC07G) ordinaryCase() (string, []int64) {
	r := g.r
	nops := 3 + r.Intn(16)
	var ops [][]int64
	ops = append(ops, g.refreshOp())
	for len(ops) < nops {
		k := r.Intn(100)
		switch {
		case k < 40:
			ops = append(ops, g.scheduleOp())
		case k < 48:
			p := g.somePod()
			g.drop(p)
			ops = append(ops, []int64{3, p})
		case k < 56:
			ops = append(ops, []int64{4, g.somePod()})
		case k < 70:
			p := g.somePod()
			g.drop(p)
			ops = append(ops, []int64{5, p})
		case k < 78:
			if g.style == "plain" && r.Intn(2) == 0 {
				ops = append(ops, g.scheduleOp())
				break
			}
			p := g.freshPod()
			g.tried = append(g.tried, p)
			ops = append(ops, append([]int64{6, p}, g.allocList()...))
		case k < 86:
			ops = append(ops, g.refreshOp())
		case k < 89:
			ops = append(ops, []int64{7})
		case k < 92:
			if g.style == "plain" {
				ops = append(ops, g.scheduleOp())
				break
			}
			ops = append(ops, append([]int64{8, g.somePod()}, g.allocList()...))
		case k < 94:
			p := g.somePod()
			g.drop(p)
			ops = append(ops, []int64{9, p})
		default:
			o := g.scheduleOp()
			g.tried = g.tried[:len(g.tried)-1] // nothing is bound by a dry-run
			o[0] = 10
			if r.Intn(2) == 0 { // a whole-device request: the victims' holdings matter
				for j := 2; j < 9; j++ {
					o[j] = 0
				}
				switch {
				case g.hasType(0) && r.Intn(3) != 0:
					o[2] = g.pick(100, 100, 200)
				case g.hasType(1):
					o[7] = g.pick(100, 100, 200)
				default:
					o[8] = 100
				}
			}
			nv := 1 + r.Intn(3)
			if len(g.tried) == 0 {
				nv = 0
			}
			seen := map[int64]bool{}
			var vs []int64
			for j := 0; j < nv; j++ {
				v := g.somePod()
				if !seen[v] {
					seen[v] = true
					vs = append(vs, v)
				}
			}
			o = append(o, int64(len(vs)))
			o = append(o, vs...)
			ops = append(ops, o)
		}
	}
	in := []int64{int64(len(ops))}
	for _, o := range ops {
		in = append(in, o...)
	}
	label := g.style
	if g.topo {
		label += "+topo"
	}
	return label, in
}

func TestVerifC07(t *testing.T) {
	node := &corev1.Node{ObjectMeta: metav1.ObjectMeta{Name: vtC07Node}}
	suit := newPluginTestSuit(t, []*corev1.Node{node})
	p, err := suit.proxyNew(context.TODO(), getDefaultArgs(), suit.Framework)
	if err != nil {
		t.Fatal(err)
	}
	vtC07Plugin = p.(*Plugin)
	vtC07Scorers[0] = vtC07Plugin.scorer
	margs := getDefaultArgs()
	margs.ScoringStrategy.Type = schedulerconfig.MostAllocated
	vtC07Scorers[1] = deviceResourceStrategyTypeMap[schedulerconfig.MostAllocated](margs)
	ni, err := suit.Framework.SnapshotSharedLister().NodeInfos().Get(vtC07Node)
	if err != nil {
		t.Fatal(err)
	}
	vtC07NodeInfo = ni
	vtMain(t, "C07", vtC07Gen, vtC07Exec)
}
