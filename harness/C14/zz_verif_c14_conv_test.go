//go:build verif

package system

// C14, stream "conv": the two unit conversions themselves on a boundary grid, against the
// definitions the translator generated from this very file (coq/Gen/Gen_funcs.v). This
// cross-checks the translator (tie (a)) for the functions the C14 theorems are stated over.
//
// input : m (milli-CPU, |m| < 2^46 so that m*100000 stays inside int64)
// observable : MilliCPUToShares(m) MilliCPUToQuota(m)

import (
	"math/rand"
	"testing"
)

func vtC14ConvExec(in []int64) []int64 {
	return []int64{MilliCPUToShares(in[0]), MilliCPUToQuota(in[0])}
}

func vtC14ConvGen(r *rand.Rand, i int) (string, []int64) {
	const lim = int64(1) << 46
	var m int64
	label := "grid"
	switch r.Intn(8) {
	case 0:
		m = int64(r.Intn(41)) - 20 // around zero and both minimum clamps (2 shares <-> 1.95 milli, 1000us <-> 10 milli)
	case 1:
		// around the shares maximum clamp (262144 shares = 256000 milli) and the whole band up to
		// 262144 MILLI (a clamp that compares the unconverted amount with the shares maximum)
		if r.Intn(2) == 0 {
			m = 256000 + int64(r.Intn(21)) - 10
		} else {
			m = 255990 + int64(r.Intn(6200))
		}
		label = "sharesmax"
	case 2:
		m = int64(1)<<uint(r.Intn(46)) + int64(r.Intn(3)) - 1
	case 3:
		m = -(int64(1)<<uint(r.Intn(46)) + int64(r.Intn(3)) - 1)
		label = "negative"
	case 4:
		m = lim - 1 - int64(r.Intn(3))
		label = "huge"
	case 5:
		m = 1000 * int64(r.Intn(300))
	default:
		m = r.Int63n(400000)
		label = "uniform"
	}
	return label, []int64{m}
}

func TestVerifC14Conv(t *testing.T) { vtMain(t, "C14", vtC14ConvGen, vtC14ConvExec) }
