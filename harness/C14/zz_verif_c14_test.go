//go:build verif

package batchresource

// C14 correspondence harness. One case = one pod.
//
// input  : mode qos cfs prev ratio n  then n records (rcf rc lcf lc rmf rm lmf lm)
//          then optionally amode and, for amode 2 / 3, n records (present rcf rc lcf lc rmf rm lmf lm)
//   mode  0 runtime-proxy request, 1 NRI request, 2 reconciler request (from the pod object); observable =
//         Response.Resources after SetPodResources / SetContainerResources
//         3, 4, 5 the same three paths driven through the stage that INJECTS the values, the way the hook
//         servers and the reconciler do: 3 proxy server (ProxyDone -> the CRI response handed back to the
//         runtime), 4 NRI server (pod: NriDone -> cgroup updaters handed to the executor; container: NriDone ->
//         ContainerAdjustment), 5 reconciler (HooksProtocolBuilder contexts, the six registered reconcile
//         functions one by one on fresh contexts, ReconcilerDone -> cgroup updaters handed to the executor);
//         observable = the injected cpu.shares / cpu.cfs_quota_us / memory.limit_in_bytes values
//   qos   0 unmarked, 1 label BE, 2 label LS, 3 label LSR, 4 annotation-only BE, 5 label BE +
//         annotation LS, 6 label "be" (unknown name), 7 label LS + annotation BE
//   cfs   0 NodeSLO rule never parsed, 1 NodeSLO without threshold strategy (defaults),
//         2 suppress enabled + cfsQuota policy (=> CFS quota disabled for batch),
//         3 suppress enabled + cpuset policy, 4 suppress disabled + cfsQuota policy
//   ratio -1 node-meta rule not parsed, 0 node without the annotation, -2 annotation "0.00"
//         (rejected), -3 annotation "abc" (rejected), k>0 annotation = k/100 printed with two decimals
//   prev  same codes: an earlier node-meta update seen by the same rule (ratio is the current one)
//   per container: batch-cpu request (flag,value), batch-cpu limit, batch-memory request,
//         batch-memory limit; flag 0 = the resource name is not declared
//   amode how the pod object reached the store (absent = 0):
//         0 created and admitted by the real webhook (which writes the extended-resource-spec annotation)
//         1 webhook bypassed (failurePolicy Ignore / feature gate), no annotation
//         2 webhook bypassed, the pod carries the FOREIGN / STALE extended-resource-spec annotation given by
//           the second record list (entry for container i iff present != 0; an entry may name no resource)
//         3 created with that foreign annotation and admitted by the real webhook (which rewrites it)
//         4 created and admitted by the real webhook, then the annotation is replaced by the foreign one in an
//           UPDATE sent through the real webhook (handleUpdate does not mutate: the foreign annotation stays)
//         5 created and admitted by the real webhook with the DisableExtendedResourceSpec feature gate on
//   then optionally ni and ni records (rcf rc lcf lc rmf rm lmf lm): spec.initContainers i00.. (with
//         status.initContainerStatuses); their hooks run after those of the containers
// observable: 6 integers for the pod then 6 per container in spec order, then 6 per init container:
//   sharesSet shares quotaSet quota memSet mem   (xSet = 0: the hook left the field untouched)
//
// Path driven: pod JSON -> PodMutatingHandler.Handle (admission Create; the real webhook writes
// the extended-resource-spec annotation) -> JSON patch applied -> request built by
// protocol.{Pod,Container}Context.From{Proxy,Nri,Reconciler} -> plugin.SetPodResources /
// plugin.SetContainerResources with the rule filled by parseRuleForNodeSLO/parseRuleForNodeMeta.

import (
	"context"
	"encoding/json"
	"fmt"
	"math/rand"
	"strconv"
	"strings"
	"testing"

	nriapi "github.com/containerd/nri/pkg/api"
	jsonpatch "github.com/evanphx/json-patch"
	admissionv1 "k8s.io/api/admission/v1"
	corev1 "k8s.io/api/core/v1"
	"k8s.io/apimachinery/pkg/api/resource"
	metav1 "k8s.io/apimachinery/pkg/apis/meta/v1"
	"k8s.io/apimachinery/pkg/runtime"
	"k8s.io/utils/ptr"
	"sigs.k8s.io/controller-runtime/pkg/client/fake"
	"sigs.k8s.io/controller-runtime/pkg/webhook/admission"

	configv1alpha1 "github.com/koordinator-sh/koordinator/apis/config/v1alpha1"
	apiext "github.com/koordinator-sh/koordinator/apis/extension"
	runtimeapi "github.com/koordinator-sh/koordinator/apis/runtime/v1alpha1"
	slov1alpha1 "github.com/koordinator-sh/koordinator/apis/slo/v1alpha1"
	"github.com/koordinator-sh/koordinator/pkg/features"
	"github.com/koordinator-sh/koordinator/pkg/koordlet/resourceexecutor"
	"github.com/koordinator-sh/koordinator/pkg/koordlet/runtimehooks/protocol"
	"github.com/koordinator-sh/koordinator/pkg/koordlet/statesinformer"
	sysutil "github.com/koordinator-sh/koordinator/pkg/koordlet/util/system"
	utilfeature "github.com/koordinator-sh/koordinator/pkg/util/feature"
	"github.com/koordinator-sh/koordinator/pkg/webhook/pod/mutating"
)

const (
	vtC14Hdr  = 6
	vtC14Rec  = 8
	vtC14FRec = 9
)

func vtC14Name(i int) string     { return fmt.Sprintf("c%02d", i) }
func vtC14InitName(i int) string { return fmt.Sprintf("i%02d", i) }

func vtC14Set(l *corev1.ResourceList, name corev1.ResourceName, flag, v int64) {
	if flag == 0 {
		return
	}
	if *l == nil {
		*l = corev1.ResourceList{}
	}
	(*l)[name] = *resource.NewQuantity(v, resource.DecimalSI)
}

// vtC14Inits adds the init containers (declared amounts as for the containers) and their statuses.
func vtC14Inits(pod *corev1.Pod, ni int, recs []int64) {
	for i := 0; i < ni; i++ {
		r := recs[i*vtC14Rec : (i+1)*vtC14Rec]
		c := corev1.Container{Name: vtC14InitName(i), Image: "img"}
		vtC14Set(&c.Resources.Requests, apiext.BatchCPU, r[0], r[1])
		vtC14Set(&c.Resources.Limits, apiext.BatchCPU, r[2], r[3])
		vtC14Set(&c.Resources.Requests, apiext.BatchMemory, r[4], r[5])
		vtC14Set(&c.Resources.Limits, apiext.BatchMemory, r[6], r[7])
		pod.Spec.InitContainers = append(pod.Spec.InitContainers, c)
		pod.Status.InitContainerStatuses = append(pod.Status.InitContainerStatuses,
			corev1.ContainerStatus{Name: c.Name, ContainerID: "containerd://id-" + c.Name})
	}
}

func vtC14Pod(qos int64, n int, recs []int64) *corev1.Pod {
	pod := &corev1.Pod{
		TypeMeta:   metav1.TypeMeta{APIVersion: "v1", Kind: "Pod"},
		ObjectMeta: metav1.ObjectMeta{Namespace: "ns", Name: "p", UID: "uid-p"},
	}
	lab := func(v string) { pod.Labels = map[string]string{apiext.LabelPodQoS: v} }
	ann := func(v string) { pod.Annotations = map[string]string{apiext.LabelPodQoS: v} }
	switch qos {
	case 1:
		lab("BE")
	case 2:
		lab("LS")
	case 3:
		lab("LSR")
	case 4:
		ann("BE")
	case 5:
		lab("BE")
		ann("LS")
	case 6:
		lab("be")
	case 7:
		lab("LS")
		ann("BE")
	}
	for i := 0; i < n; i++ {
		r := recs[i*vtC14Rec : (i+1)*vtC14Rec]
		c := corev1.Container{Name: vtC14Name(i), Image: "img"}
		set := func(l *corev1.ResourceList, name corev1.ResourceName, flag, v int64) {
			if flag == 0 {
				return
			}
			if *l == nil {
				*l = corev1.ResourceList{}
			}
			(*l)[name] = *resource.NewQuantity(v, resource.DecimalSI)
		}
		set(&c.Resources.Requests, apiext.BatchCPU, r[0], r[1])
		set(&c.Resources.Limits, apiext.BatchCPU, r[2], r[3])
		set(&c.Resources.Requests, apiext.BatchMemory, r[4], r[5])
		set(&c.Resources.Limits, apiext.BatchMemory, r[6], r[7])
		pod.Spec.Containers = append(pod.Spec.Containers, c)
		pod.Status.ContainerStatuses = append(pod.Status.ContainerStatuses,
			corev1.ContainerStatus{Name: c.Name, ContainerID: "containerd://id-" + c.Name})
	}
	return pod
}

// vtC14Webhook sends the pod through the real mutating admission handler (Create) and returns
// the pod as the API server would store it (patch applied).
// vtC14Foreign puts an extended-resource-spec annotation on the pod that was NOT derived from its spec by the
// webhook: entry for container i iff recs[i*9] != 0, with the amounts of the following 8 integers.
func vtC14Foreign(pod *corev1.Pod, n int, recs []int64) bool {
	spec := &apiext.ExtendedResourceSpec{}
	for i := 0; i < n; i++ {
		r := recs[i*vtC14FRec : (i+1)*vtC14FRec]
		if r[0] == 0 {
			continue
		}
		e := apiext.ExtendedResourceContainerSpec{}
		set := func(l *corev1.ResourceList, name corev1.ResourceName, flag, v int64) {
			if flag == 0 {
				return
			}
			if *l == nil {
				*l = corev1.ResourceList{}
			}
			(*l)[name] = *resource.NewQuantity(v, resource.DecimalSI)
		}
		set(&e.Requests, apiext.BatchCPU, r[1], r[2])
		set(&e.Limits, apiext.BatchCPU, r[3], r[4])
		set(&e.Requests, apiext.BatchMemory, r[5], r[6])
		set(&e.Limits, apiext.BatchMemory, r[7], r[8])
		if spec.Containers == nil {
			spec.Containers = map[string]apiext.ExtendedResourceContainerSpec{}
		}
		spec.Containers[vtC14Name(i)] = e
	}
	return apiext.SetExtendedResourceSpec(pod, spec) == nil
}

// vtC14Bypass returns the pod as the API server stores it when the webhook is not called.
func vtC14Bypass(pod *corev1.Pod) (*corev1.Pod, bool) {
	raw, err := json.Marshal(pod)
	if err != nil {
		return nil, false
	}
	stored := &corev1.Pod{}
	if err := json.Unmarshal(raw, stored); err != nil {
		return nil, false
	}
	return stored, true
}

func vtC14Webhook(pod *corev1.Pod) (*corev1.Pod, bool) {
	return vtC14Admit(pod, nil)
}

// vtC14Admit: old == nil -> Create, otherwise Update of old into pod.
func vtC14Admit(pod, old *corev1.Pod) (*corev1.Pod, bool) {
	sch := runtime.NewScheme()
	_ = corev1.AddToScheme(sch)
	_ = configv1alpha1.AddToScheme(sch)
	h := &mutating.PodMutatingHandler{}
	_ = h.InjectClient(fake.NewClientBuilder().WithScheme(sch).Build())
	_ = h.InjectDecoder(admission.NewDecoder(sch))
	raw, err := json.Marshal(pod)
	if err != nil {
		return nil, false
	}
	req := admission.Request{AdmissionRequest: admissionv1.AdmissionRequest{
		Resource:  metav1.GroupVersionResource{Version: "v1", Resource: "pods"},
		Operation: admissionv1.Create,
		Namespace: pod.Namespace,
		Object:    runtime.RawExtension{Raw: raw},
	}}
	if old != nil {
		oldRaw, err := json.Marshal(old)
		if err != nil {
			return nil, false
		}
		req.Operation = admissionv1.Update
		req.OldObject = runtime.RawExtension{Raw: oldRaw}
	}
	resp := h.Handle(context.Background(), req)
	if !resp.Allowed {
		return nil, false
	}
	out := raw
	if len(resp.Patches) > 0 {
		pj, err := json.Marshal(resp.Patches)
		if err != nil {
			return nil, false
		}
		patch, err := jsonpatch.DecodePatch(pj)
		if err != nil {
			return nil, false
		}
		if out, err = patch.Apply(raw); err != nil {
			return nil, false
		}
	}
	stored := &corev1.Pod{}
	if err := json.Unmarshal(out, stored); err != nil {
		return nil, false
	}
	return stored, true
}

func vtC14Rule(p *plugin, cfs int64, ratios ...int64) {
	thr := func(enable bool, policy slov1alpha1.CPUSuppressPolicy) *slov1alpha1.NodeSLOSpec {
		return &slov1alpha1.NodeSLOSpec{ResourceUsedThresholdWithBE: &slov1alpha1.ResourceThresholdStrategy{
			Enable: ptr.To(enable), CPUSuppressPolicy: policy}}
	}
	switch cfs {
	case 1:
		_, _ = p.parseRuleForNodeSLO(&slov1alpha1.NodeSLOSpec{})
	case 2:
		_, _ = p.parseRuleForNodeSLO(thr(true, slov1alpha1.CPUCfsQuotaPolicy))
	case 3:
		_, _ = p.parseRuleForNodeSLO(thr(true, slov1alpha1.CPUSetPolicy))
	case 4:
		_, _ = p.parseRuleForNodeSLO(thr(false, slov1alpha1.CPUCfsQuotaPolicy))
	}
	for _, code := range ratios {
		node := &corev1.Node{ObjectMeta: metav1.ObjectMeta{Name: "node"}}
		switch {
		case code == -1:
			continue
		case code == 0:
		case code == -2:
			node.Annotations = map[string]string{apiext.AnnotationCPUNormalizationRatio: "0.00"}
		case code == -3:
			node.Annotations = map[string]string{apiext.AnnotationCPUNormalizationRatio: "abc"}
		default:
			node.Annotations = map[string]string{apiext.AnnotationCPUNormalizationRatio: fmt.Sprintf("%d.%02d", code/100, code%100)}
		}
		_, _ = p.parseRuleForNodeMeta(node)
	}
}

func vtC14Res(r *protocol.Resources) []int64 {
	o := make([]int64, 0, 6)
	f := func(p *int64) {
		if p == nil {
			o = append(o, 0, 0)
		} else {
			o = append(o, 1, *p)
		}
	}
	f(r.CPUShares)
	f(r.CFSQuota)
	f(r.MemoryLimit)
	return o
}

// vtC14Executor records the cgroup updaters handed to the resource executor instead of writing files.
type vtC14Executor struct {
	got []resourceexecutor.ResourceUpdater
}

func (e *vtC14Executor) Update(cacheable bool, u resourceexecutor.ResourceUpdater) (bool, error) {
	e.got = append(e.got, u)
	return true, nil
}
func (e *vtC14Executor) UpdateBatch(cacheable bool, us ...resourceexecutor.ResourceUpdater) {
	e.got = append(e.got, us...)
}
func (e *vtC14Executor) LeveledUpdateBatch(us [][]resourceexecutor.ResourceUpdater) {
	for _, l := range us {
		e.got = append(e.got, l...)
	}
}
func (e *vtC14Executor) Run(stopCh <-chan struct{}) {}

// vtC14Written projects the updaters recorded for one cgroup directory: the value for cpu.shares,
// cpu.cfs_quota_us and memory.limit_in_bytes (the last one written wins); an updater for another directory, another
// file of interest twice with different values, or an unparsable value yields the error marker.
func vtC14Written(e *vtC14Executor, dir string) []int64 {
	o := []int64{0, 0, 0, 0, 0, 0}
	for _, u := range e.got {
		var k int
		switch u.ResourceType() {
		case sysutil.CPUSharesName:
			k = 0
		case sysutil.CPUCFSQuotaName:
			k = 2
		case sysutil.MemoryLimitName:
			k = 4
		default:
			return []int64{-8}
		}
		v, err := strconv.ParseInt(u.Value(), 10, 64)
		if err != nil || !strings.Contains(u.Path(), dir) {
			return []int64{-8}
		}
		o[k], o[k+1] = 1, v
	}
	return o
}

func vtC14Lin(r *runtimeapi.LinuxContainerResources) []int64 {
	o := []int64{0, 0, 0, 0, 0, 0}
	if r == nil {
		return o
	}
	if r.CpuShares != 0 {
		o[0], o[1] = 1, r.CpuShares
	}
	if r.CpuQuota != 0 {
		o[2], o[3] = 1, r.CpuQuota
	}
	if r.MemoryLimitInBytes != 0 {
		o[4], o[5] = 1, r.MemoryLimitInBytes
	}
	return o
}

func vtC14Adjust(a *nriapi.ContainerAdjustment) []int64 {
	o := []int64{0, 0, 0, 0, 0, 0}
	if a == nil || a.Linux == nil || a.Linux.Resources == nil {
		return o
	}
	if c := a.Linux.Resources.Cpu; c != nil {
		if c.Shares != nil {
			o[0], o[1] = 1, int64(c.Shares.Value)
		}
		if c.Quota != nil {
			o[2], o[3] = 1, c.Quota.Value
		}
	}
	if m := a.Linux.Resources.Memory; m != nil && m.Limit != nil {
		o[4], o[5] = 1, m.Limit.Value
	}
	return o
}

const vtC14PodDir = "kubepods/besteffort/poduid-p"

// vtC14Injected drives the pod through the stage that injects the values (modes 3, 4, 5).
func vtC14Injected(p *plugin, mode int64, pod *corev1.Pod, names []string) []int64 {
	obs := make([]int64, 0, 6*(len(names)+1))
	podMeta := &statesinformer.PodMeta{Pod: pod, CgroupDir: vtC14PodDir}
	sandbox := &nriapi.PodSandbox{Id: "sb", Name: pod.Name, Namespace: pod.Namespace, Uid: string(pod.UID),
		Labels: pod.Labels, Annotations: pod.Annotations,
		Linux: &nriapi.LinuxPodSandbox{CgroupParent: vtC14PodDir}}
	pm := &runtimeapi.PodSandboxMetadata{Name: pod.Name, Namespace: pod.Namespace, Uid: string(pod.UID)}
	switch mode {
	case 3: // proxyserver.PreRunPodSandboxHook / PreCreateContainerHook
		req := &runtimeapi.PodSandboxHookRequest{PodMeta: pm, Labels: pod.Labels,
			Annotations: pod.Annotations, CgroupParent: vtC14PodDir}
		resp := &runtimeapi.PodSandboxHookResponse{Labels: req.GetLabels(), Annotations: req.GetAnnotations(),
			CgroupParent: req.GetCgroupParent(), Resources: req.GetResources()}
		podCtx := &protocol.PodContext{}
		podCtx.FromProxy(req)
		if err := p.SetPodResources(podCtx); err != nil {
			return []int64{-6}
		}
		ex := &vtC14Executor{}
		podCtx.ProxyDone(resp, ex)
		w := vtC14Written(ex, vtC14PodDir)
		o := vtC14Lin(resp.Resources)
		if len(w) != 6 {
			return w
		}
		for k := range o { // what is written to the pod cgroup and what is returned to the runtime must agree
			if w[k] != o[k] {
				return []int64{-9}
			}
		}
		obs = append(obs, o...)
		for _, name := range names {
			creq := &runtimeapi.ContainerResourceHookRequest{PodMeta: pm,
				ContainerMeta: &runtimeapi.ContainerMetadata{Name: name, Id: "id-" + name},
				PodLabels:     pod.Labels, PodAnnotations: pod.Annotations, PodCgroupParent: vtC14PodDir}
			cresp := &runtimeapi.ContainerResourceHookResponse{ContainerAnnotations: creq.GetContainerAnnotations(),
				ContainerResources: creq.GetContainerResources(), PodCgroupParent: creq.GetPodCgroupParent(),
				ContainerEnvs: creq.GetContainerEnvs()}
			cc := &protocol.ContainerContext{}
			cc.FromProxy(creq)
			if err := p.SetContainerResources(cc); err != nil {
				return []int64{-7}
			}
			cc.ProxyDone(cresp, &vtC14Executor{})
			obs = append(obs, vtC14Lin(cresp.ContainerResources)...)
		}
	case 4: // nri.RunPodSandbox / CreateContainer
		podCtx := &protocol.PodContext{}
		podCtx.FromNri(sandbox)
		if err := p.SetPodResources(podCtx); err != nil {
			return []int64{-6}
		}
		ex := &vtC14Executor{}
		podCtx.NriDone(ex)
		obs = append(obs, vtC14Written(ex, vtC14PodDir)...)
		for _, name := range names {
			cc := &protocol.ContainerContext{}
			cc.FromNri(sandbox, &nriapi.Container{Id: "id-" + name, PodSandboxId: "sb", Name: name})
			if err := p.SetContainerResources(cc); err != nil {
				return []int64{-7}
			}
			adjust, _, err := cc.NriDone(&vtC14Executor{})
			if err != nil {
				return []int64{-7}
			}
			obs = append(obs, vtC14Adjust(adjust)...)
		}
	default: // reconciler.reconcilePodCgroup with the functions batchresource registers
		ex := &vtC14Executor{}
		for _, fn := range []func(protocol.HooksProtocol) error{p.SetPodCPUShares, p.SetPodCFSQuota, p.SetPodMemoryLimit} {
			ctx := protocol.HooksProtocolBuilder.Pod(podMeta)
			if err := fn(ctx); err != nil {
				return []int64{-6}
			}
			ctx.ReconcilerDone(ex)
		}
		obs = append(obs, vtC14Written(ex, vtC14PodDir)...)
		// reconcilePodCgroup: status.containerStatuses then status.initContainerStatuses
		all := append(append([]corev1.ContainerStatus{}, pod.Status.ContainerStatuses...), pod.Status.InitContainerStatuses...)
		if len(all) != len(names) {
			return []int64{-3}
		}
		for _, st := range all {
			cex := &vtC14Executor{}
			for _, fn := range []func(protocol.HooksProtocol) error{p.SetContainerCPUShares, p.SetContainerCFSQuota, p.SetContainerMemoryLimit} {
				ctx := protocol.HooksProtocolBuilder.Container(podMeta, st.Name)
				if err := fn(ctx); err != nil {
					return []int64{-7}
				}
				ctx.ReconcilerDone(cex)
			}
			obs = append(obs, vtC14Written(cex, vtC14PodDir)...)
		}
	}
	return obs
}

func vtC14Exec(in []int64) []int64 {
	mode, qos, cfs, prev, ratio, n := in[0], in[1], in[2], in[3], in[4], int(in[5])
	rest := in[vtC14Hdr+n*vtC14Rec:]
	amode := int64(0)
	if len(rest) > 0 {
		amode = rest[0]
	}
	raw := vtC14Pod(qos, n, in[vtC14Hdr:])
	names := make([]string, 0, n+2)
	for i := 0; i < n; i++ {
		names = append(names, vtC14Name(i))
	}
	if len(rest) > 0 {
		rest = rest[1:]
	}
	var foreign []int64
	if amode >= 2 && amode <= 4 {
		foreign = rest[:n*vtC14FRec]
		rest = rest[n*vtC14FRec:]
	}
	if amode == 2 || amode == 3 {
		if !vtC14Foreign(raw, n, foreign) {
			return []int64{-4}
		}
	}
	if len(rest) > 0 {
		ni := int(rest[0])
		vtC14Inits(raw, ni, rest[1:])
		for i := 0; i < ni; i++ {
			names = append(names, vtC14InitName(i))
		}
	}
	var pod *corev1.Pod
	var ok bool
	switch amode {
	case 1, 2:
		pod, ok = vtC14Bypass(raw)
	case 4:
		var created *corev1.Pod
		if created, ok = vtC14Webhook(raw); ok {
			edited := created.DeepCopy()
			if !vtC14Foreign(edited, n, foreign) {
				return []int64{-4}
			}
			pod, ok = vtC14Admit(edited, created)
		}
	case 5:
		if err := utilfeature.DefaultMutableFeatureGate.Set(string(features.DisableExtendedResourceSpec) + "=true"); err != nil {
			return []int64{-4}
		}
		pod, ok = vtC14Webhook(raw)
		if err := utilfeature.DefaultMutableFeatureGate.Set(string(features.DisableExtendedResourceSpec) + "=false"); err != nil {
			return []int64{-4}
		}
	default:
		pod, ok = vtC14Webhook(raw)
	}
	if !ok {
		return []int64{-5}
	}
	p := newPlugin()
	vtC14Rule(p, cfs, prev, ratio)
	if mode >= 3 && mode <= 5 {
		return vtC14Injected(p, mode, pod, names)
	}

	obs := make([]int64, 0, 6*(len(names)+1))
	podMeta := &statesinformer.PodMeta{Pod: pod, CgroupDir: "kubepods/besteffort/poduid-p"}
	sandbox := &nriapi.PodSandbox{Id: "sb", Name: pod.Name, Namespace: pod.Namespace, Uid: string(pod.UID),
		Labels: pod.Labels, Annotations: pod.Annotations,
		Linux: &nriapi.LinuxPodSandbox{CgroupParent: "kubepods/besteffort/poduid-p"}}
	pm := &runtimeapi.PodSandboxMetadata{Name: pod.Name, Namespace: pod.Namespace, Uid: string(pod.UID)}

	podCtx := &protocol.PodContext{}
	switch mode {
	case 0:
		podCtx.FromProxy(&runtimeapi.PodSandboxHookRequest{PodMeta: pm, Labels: pod.Labels,
			Annotations: pod.Annotations, CgroupParent: "kubepods/besteffort/poduid-p"})
	case 1:
		podCtx.FromNri(sandbox)
	default:
		podCtx.FromReconciler(podMeta)
	}
	if err := p.SetPodResources(podCtx); err != nil {
		return []int64{-6}
	}
	obs = append(obs, vtC14Res(&podCtx.Response.Resources)...)

	for _, name := range names {
		cc := &protocol.ContainerContext{}
		switch mode {
		case 0:
			cc.FromProxy(&runtimeapi.ContainerResourceHookRequest{PodMeta: pm,
				ContainerMeta: &runtimeapi.ContainerMetadata{Name: name, Id: "id-" + name},
				PodLabels:     pod.Labels, PodAnnotations: pod.Annotations,
				PodCgroupParent: "kubepods/besteffort/poduid-p"})
		case 1:
			cc.FromNri(sandbox, &nriapi.Container{Id: "id-" + name, PodSandboxId: "sb", Name: name})
		default:
			cc.FromReconciler(podMeta, name, false)
		}
		if err := p.SetContainerResources(cc); err != nil {
			return []int64{-7}
		}
		obs = append(obs, vtC14Res(&cc.Response.Resources)...)
	}
	return obs
}

// ---------------------------------------------------------------- generator

// vtC14Amount draws one declared amount; cap keeps every int64 product of the hook in range
// (the model is over unbounded integers; see props/C14.json assumptions).
func vtC14Amount(r *rand.Rand, style string, cap int64) int64 {
	switch style {
	case "tiny":
		return int64(r.Intn(12))
	case "huge":
		switch r.Intn(3) {
		case 0:
			return cap - int64(r.Intn(3))
		case 1:
			return int64(1)<<uint(20+r.Intn(22)) + int64(r.Intn(3)) - 1
		}
		return r.Int63n(cap) + 1
	case "negative":
		if r.Intn(2) == 0 {
			return -int64(r.Intn(5))
		}
		return int64(r.Intn(3000))
	case "sharesmax":
		// around the cpu.shares maximum clamp: 262144 shares = 256000 milli-CPU; single amounts and
		// halves/thirds whose sums land in 255900 .. 262300
		band := 255900 + int64(r.Intn(6400))
		switch r.Intn(4) {
		case 0:
			return band
		case 1:
			return band / 2
		case 2:
			return band / 3
		}
		return int64(r.Intn(3))
	default:
		switch r.Intn(6) {
		case 0:
			return int64(r.Intn(12)) // around the quota minimum clamp (10 milli-CPU) and the shares minimum
		case 1:
			return 1000 * int64(1+r.Intn(64))
		case 2:
			return vtQty(r, cap)
		}
		return int64(r.Intn(20000))
	}
}

func vtC14Gen(r *rand.Rand, i int) (string, []int64) {
	style := []string{"plain", "plain", "plain", "tiny", "huge", "negative", "sparse", "sparse", "sharesmax", "stale", "stale"}[r.Intn(11)]
	mode := int64(r.Intn(3))
	if style == "stale" && r.Intn(5) < 2 {
		mode = 2 // the reconciler is the builder that sees both the pod spec and the annotation
	}
	if r.Intn(5) < 2 {
		mode += 3 // through the injecting stage (ProxyDone / NriDone / ReconcilerDone)
	}
	qos := int64(1)
	if r.Intn(4) == 0 {
		qos = int64(r.Intn(8))
	}
	cfs := int64(r.Intn(5))
	if r.Intn(3) == 0 {
		cfs = 0
	}
	var ratio int64
	switch r.Intn(10) {
	case 0:
		ratio = -1
	case 1:
		ratio = 0
	case 2:
		ratio = []int64{-2, -3, 25, 50, 75, 99, 100, 101}[r.Intn(8)]
	case 3, 4:
		ratio = 100 + 25*int64(1+r.Intn(16)) // binary-exact ratios 1.25 .. 5.00
	case 5:
		ratio = 101 + r.Int63n(100000) // any two-decimal ratio up to 1000
	default:
		ratio = 101 + r.Int63n(400) // the realistic range 1.01 .. 5.00
	}
	// an earlier update of the same rule: usually none; otherwise any value at least 0.02 away
	// from the current one, the same value, or no/invalid annotation. Neighbouring two-decimal
	// values are NOT generated: the rule's 0.01 hysteresis (ratioDiffEpsilon, a float64
	// comparison) is outside the property's quantifier, so the hooks always run with the ratio
	// the node advertises (Codec.input_guard, theorem c14_rule_follows_node).
	prev := int64(-1)
	if ratio > 0 {
		switch r.Intn(10) {
		case 0:
			prev = ratio - 2 - int64(r.Intn(3))
			if prev < 1 {
				prev = ratio + 2
			}
		case 1:
			prev = ratio + 2 + int64(r.Intn(3))
		case 2:
			prev = 1 + r.Int63n(600)
			if d := prev - ratio; d == 1 || d == -1 {
				prev = ratio
			}
		case 3:
			prev = []int64{0, -2, -3, ratio}[r.Intn(4)]
		}
	} else if r.Intn(4) == 0 {
		prev = 100 + r.Int63n(300)
	}
	n := 1 + r.Intn(6)
	if r.Intn(20) == 0 {
		n = 0
	}
	if r.Intn(20) == 0 {
		n = 7 + r.Intn(6)
	}
	const cpuCap, memCap = int64(1) << 42, int64(1) << 58 // pod quota below 2^53, sums below 2^63
	in := []int64{mode, qos, cfs, prev, ratio, int64(n)}
	for c := 0; c < n; c++ {
		// which of the four amounts are declared
		var pres [4]bool
		switch {
		case style == "sparse":
			for k := range pres {
				pres[k] = r.Intn(2) == 0
			}
			if r.Intn(3) == 0 {
				pres = [4]bool{} // declares no batch resource at all
			}
		case r.Intn(10) == 0:
			pres = [4]bool{true, false, true, false} // requests only
		case r.Intn(12) == 0:
			pres = [4]bool{}
		default:
			pres = [4]bool{true, true, true, true}
		}
		reqC, limC := vtC14Amount(r, style, cpuCap), vtC14Amount(r, style, cpuCap)
		reqM, limM := vtC14Amount(r, style, memCap), vtC14Amount(r, style, memCap)
		if style != "negative" && r.Intn(3) != 0 { // usually request == limit, as the colocation profile produces
			limC, limM = reqC, reqM
		}
		in = append(in, vtB(pres[0]), reqC, vtB(pres[1]), limC, vtB(pres[2]), reqM, vtB(pres[3]), limM)
	}
	// how the pod reached the store: usually through the webhook; "stale" pods bypassed it and carry a
	// foreign extended-resource-spec annotation (or were created with one that the webhook rewrites)
	amode := int64(0)
	if style == "stale" {
		amode = []int64{2, 2, 2, 4, 4, 3}[r.Intn(6)]
	} else if r.Intn(4) == 0 {
		amode = int64(1 + r.Intn(5))
	} else if r.Intn(4) == 0 {
		return style, in // the format without the trailing amode stays exercised
	}
	in = append(in, amode)
	if amode >= 2 && amode <= 4 {
		how := r.Intn(6) // how the foreign amounts relate to the declared ones
		if amode == 3 && r.Intn(2) == 0 {
			// the annotation is a SUPERSET of what the spec declares now: one request / limit entry was dropped from
			// the spec, every remaining amount is equal (the webhook must still rewrite the annotation)
			how = 6
		}
		allPresent := r.Intn(5) < 3
		clampTo := func(v, cap int64) int64 {
			if v > cap {
				return cap
			}
			return v
		}
		for c := 0; c < n; c++ {
			d := in[vtC14Hdr+c*vtC14Rec : vtC14Hdr+(c+1)*vtC14Rec]
			src := d
			if how == 4 && n > 1 { // the annotation of another template revision: entries shifted by one container
				o := (c + 1) % n
				src = in[vtC14Hdr+o*vtC14Rec : vtC14Hdr+(o+1)*vtC14Rec]
			}
			e := make([]int64, vtC14Rec)
			copy(e, src)
			switch how {
			case 0: // smaller amounts (an older revision)
				div := int64(2 + r.Intn(3))
				e[1], e[3], e[5], e[7] = e[1]/div, e[3]/div, e[5]/div, e[7]/div
			case 1: // larger amounts
				e[1], e[3] = clampTo(e[1]*2, cpuCap), clampTo(e[3]*2, cpuCap)
				e[5], e[7] = clampTo(e[5]*2, memCap), clampTo(e[7]*2, memCap)
			case 2: // unrelated amounts and presence
				st := []string{"plain", "tiny", "negative", "huge"}[r.Intn(4)]
				for k := 0; k < 4; k++ {
					e[2*k] = vtB(r.Intn(4) != 0)
				}
				e[1], e[3] = vtC14Amount(r, st, cpuCap), vtC14Amount(r, st, cpuCap)
				e[5], e[7] = vtC14Amount(r, st, memCap), vtC14Amount(r, st, memCap)
			case 6: // superset: the annotation keeps the full record, the spec loses one declared entry
				var set []int
				for k := 0; k < 4; k++ {
					if d[2*k] != 0 {
						set = append(set, k)
					}
				}
				if len(set) >= 2 {
					k := set[r.Intn(len(set))]
					if r.Intn(3) != 0 { // prefer dropping a limit
						for _, c := range set {
							if c == 1 || c == 3 {
								k = c
							}
						}
					}
					d[2*k] = 0
				}
			case 3: // identical to the spec (hand-written but in sync)
			case 5: // limits dropped or zeroed in the annotation
				if r.Intn(2) == 0 {
					e[2], e[6] = 0, 0
				} else {
					e[3], e[7] = 0, 0
				}
			}
			present := allPresent || r.Intn(10) < 7 || how == 6
			if how != 6 && r.Intn(25) == 0 { // an entry that names no resource at all ("c00": {})
				present = true
				e[0], e[2], e[4], e[6] = 0, 0, 0, 0
			}
			in = append(in, vtB(present))
			in = append(in, e...)
		}
	}
	// init containers (D11, known finding sig 2): some declare batch resources, some do not
	if r.Intn(8) == 0 {
		if amode == 0 && len(in) == vtC14Hdr+n*vtC14Rec {
			in = append(in, 0) // the init block follows the amode block
		}
		ni := 1 + r.Intn(2)
		in = append(in, int64(ni))
		for c := 0; c < ni; c++ {
			all := vtB(r.Intn(3) != 0)
			cpu, mem := vtC14Amount(r, style, cpuCap), vtC14Amount(r, style, memCap)
			lc, lm := cpu, mem
			if r.Intn(4) == 0 {
				lc, lm = vtC14Amount(r, style, cpuCap), vtC14Amount(r, style, memCap)
			}
			in = append(in, all, cpu, all, lc, all, mem, all*vtB(r.Intn(5) != 0), lm)
		}
	}
	return style, in
}

func TestVerifC14(t *testing.T) { vtMain(t, "C14", vtC14Gen, vtC14Exec) }
