//go:build verif

package elasticquota

// C01 — stream "plugin": the plugin's informer handlers (pod_handler.go, quota_handler.go) and the
// periodic migrateDefaultQuotaGroupsPod (plugin_helper.go) are driven on a bare Plugin value (single
// quota tree, every pod labelled with its quota); after every operation GetQuotaSummaries is
// projected to the flat-integer observable of coq/C01/Codec.v.

import (
	"fmt"
	"math/rand"
	"os"
	"sort"
	"strconv"
	"strings"
	"testing"
	"time"

	v1 "k8s.io/api/core/v1"
	"k8s.io/apimachinery/pkg/api/resource"
	metav1 "k8s.io/apimachinery/pkg/apis/meta/v1"
	k8sfeature "k8s.io/apiserver/pkg/util/feature"

	"github.com/koordinator-sh/koordinator/apis/extension"
	"github.com/koordinator-sh/koordinator/apis/thirdparty/scheduler-plugins/pkg/apis/scheduling/v1alpha1"
	"github.com/koordinator-sh/koordinator/pkg/scheduler/apis/config"
	"github.com/koordinator-sh/koordinator/pkg/scheduler/plugins/elasticquota/core"
)

const vtC01POpLen = 15

func vtC01PQName(id int64) string {
	switch id {
	case 0:
		return extension.RootQuotaName
	case 1:
		return extension.SystemQuotaName
	case 2:
		return extension.DefaultQuotaName
	}
	return fmt.Sprintf("q%02d", id)
}

func vtC01PQID(name string) int64 {
	switch name {
	case extension.RootQuotaName, "":
		return 0
	case extension.SystemQuotaName:
		return 1
	case extension.DefaultQuotaName:
		return 2
	}
	v, err := strconv.ParseInt(strings.TrimPrefix(name, "q"), 10, 64)
	if err != nil {
		return -1
	}
	return v
}

func vtC01PRL(cpu, mem int64) v1.ResourceList {
	return v1.ResourceList{
		v1.ResourceCPU:    *resource.NewMilliQuantity(cpu, resource.DecimalSI),
		v1.ResourceMemory: *resource.NewQuantity(mem, resource.BinarySI),
	}
}

var vtC01PRV int64

// pod record: id cpu mem nonPreemptible bound ignored ; label = quota the pod names
func vtC01PPod(label int64, f []int64) *v1.Pod {
	vtC01PRV++
	pod := &v1.Pod{
		ObjectMeta: metav1.ObjectMeta{
			Namespace:       "ns",
			Name:            fmt.Sprintf("p%02d", f[0]),
			Labels:          map[string]string{extension.LabelQuotaName: vtC01PQName(label)},
			ResourceVersion: strconv.FormatInt(vtC01PRV, 10),
		},
		Spec: v1.PodSpec{
			Containers: []v1.Container{{Name: "c", Resources: v1.ResourceRequirements{Requests: vtC01PRL(f[1], f[2])}}},
		},
		Status: v1.PodStatus{Phase: v1.PodPending},
	}
	if f[3] != 0 {
		pod.Labels[extension.LabelPreemptible] = "false"
	}
	switch f[4] {
	case 1:
		pod.Spec.NodeName = "n1"
		pod.Status.Phase = v1.PodRunning
	case 2:
		pod.Spec.NodeName = "n1"
		pod.Status.Phase = v1.PodSucceeded
	}
	if f[5] != 0 {
		ts := metav1.NewTime(time.Unix(1000, 0))
		pod.DeletionTimestamp = &ts
	}
	return pod
}

func vtC01PQuota(f []int64) *v1alpha1.ElasticQuota {
	q := &v1alpha1.ElasticQuota{
		ObjectMeta: metav1.ObjectMeta{
			Name:        vtC01PQName(f[0]),
			Namespace:   "ns",
			Labels:      map[string]string{extension.LabelQuotaParent: vtC01PQName(f[1])},
			Annotations: map[string]string{},
		},
		Spec: v1alpha1.ElasticQuotaSpec{Max: vtC01PRL(f[4], f[5]), Min: vtC01PRL(f[6], f[7])},
	}
	if f[2] != 0 {
		q.Labels[extension.LabelQuotaIsParent] = "true"
	}
	if f[3] == 0 {
		q.Labels[extension.LabelAllowLentResource] = "false"
	}
	return q
}

func vtC01PNew(in []int64) *Plugin {
	if err := k8sfeature.DefaultMutableFeatureGate.Set("ElasticQuotaImmediateIgnoreTerminatingPod=true"); err != nil {
		panic(err)
	}
	g := &Plugin{
		pluginArgs:                     &config.ElasticQuotaArgs{SystemQuotaGroupMax: vtC01PRL(in[0], in[1]), DefaultQuotaGroupMax: vtC01PRL(in[2], in[3])},
		groupQuotaManager:              core.NewGroupQuotaManager("", false, vtC01PRL(in[0], in[1]), vtC01PRL(in[2], in[3])),
		groupQuotaManagersForQuotaTree: map[string]*core.GroupQuotaManager{},
		quotaToTreeMap:                 map[string]string{extension.DefaultQuotaName: "", extension.SystemQuotaName: ""},
	}
	return g
}

func vtC01PApply(g *Plugin, r []int64) {
	switch r[0] {
	case 1:
		g.OnPodAdd(vtC01PPod(r[1], r[2:8]))
	case 2:
		g.OnPodUpdate(vtC01PPod(r[2], r[9:15]), vtC01PPod(r[1], r[3:9]))
	case 3:
		g.OnPodDelete(vtC01PPod(r[1], r[2:8]))
	case 6:
		g.OnQuotaAdd(vtC01PQuota(r[1:11]))
	case 7:
		g.OnQuotaUpdate(nil, vtC01PQuota(r[1:11]))
	case 8:
		g.OnQuotaDelete(vtC01PQuota([]int64{r[1], 0, 0, 0, 0, 0, 0, 0, 0, 0}))
	case 9:
		g.migrateDefaultQuotaGroupsPod()
	}
}

func vtC01PDump(g *Plugin, obs []int64) []int64 {
	sums := g.GetQuotaSummaries("", true)
	ids := make([]int64, 0, len(sums))
	byID := map[int64]*core.QuotaInfoSummary{}
	for name, s := range sums {
		id := vtC01PQID(name)
		ids = append(ids, id)
		byID[id] = s
	}
	sort.Slice(ids, func(i, j int) bool { return ids[i] < ids[j] })
	obs = append(obs, int64(len(ids)))
	for _, id := range ids {
		s := byID[id]
		obs = append(obs, id, vtC01PQID(s.ParentName), vtB(s.IsParent), vtB(s.AllowLentResource))
		var leak int64
		for i, rl := range []v1.ResourceList{s.Max, s.Min, s.Request, s.ChildRequest, s.SelfRequest,
			s.NonPreemptibleRequest, s.SelfNonPreemptibleRequest, s.Used, s.SelfUsed,
			s.NonPreemptibleUsed, s.SelfNonPreemptibleUsed} {
			c, m := rl[v1.ResourceCPU], rl[v1.ResourceMemory]
			obs = append(obs, c.MilliValue(), m.Value())
			if i >= 2 {
				for k, q := range rl {
					if k != v1.ResourceCPU && k != v1.ResourceMemory && !q.IsZero() {
						leak++
					}
				}
			}
		}
		obs = append(obs, leak)
		pids := make([]int64, 0, len(s.PodCache))
		asg := map[int64]bool{}
		for key, pi := range s.PodCache {
			v, err := strconv.ParseInt(strings.TrimPrefix(key, "ns/p"), 10, 64)
			if err != nil {
				v = -1
			}
			pids = append(pids, v)
			asg[v] = pi.IsAssigned
		}
		sort.Slice(pids, func(i, j int) bool { return pids[i] < pids[j] })
		obs = append(obs, int64(len(pids)))
		for _, p := range pids {
			obs = append(obs, p, vtB(asg[p]))
		}
	}
	return obs
}

func vtC01PExec(in []int64) []int64 {
	g := vtC01PNew(in)
	k := int(in[4])
	obs := []int64{}
	for i := 0; i < k; i++ {
		vtC01PApply(g, in[5+vtC01POpLen*i:5+vtC01POpLen*(i+1)])
		obs = vtC01PDump(g, obs)
	}
	return obs
}

// ---------------------------------------------------------------- generator

type vtC01PGenPod struct {
	obj   []int64 // last delivered object
	label int64
}

type vtC01PGen struct {
	r        *rand.Rand
	in       []int64
	nops     int
	pods     map[int64]*vtC01PGenPod
	quotas   map[int64][]int64 // id -> spec record (name parent isParent lend max(2) min(2))
	findings bool              // also generate the two known-defect shapes
	pending  bool              // a quota was created since the last migration run
}

func (g *vtC01PGen) emit(rec ...int64) {
	for len(rec) < vtC01POpLen {
		rec = append(rec, 0)
	}
	g.in = append(g.in, rec...)
	g.nops++
}

func (g *vtC01PGen) migrate() {
	g.emit(9)
	g.pending = false
}

func (g *vtC01PGen) quotaOp() {
	ids := []int64{}
	for id := range g.quotas {
		ids = append(ids, id)
	}
	sort.Slice(ids, func(i, j int) bool { return ids[i] < ids[j] })
	free := []int64{}
	for id := int64(3); id <= 6; id++ {
		if g.quotas[id] == nil {
			free = append(free, id)
		}
	}
	switch x := g.r.Intn(10); {
	case x < 5 && len(free) > 0: // create (under the root, or under an existing parent quota)
		id := free[g.r.Intn(len(free))]
		parent := int64(0)
		for _, p := range ids {
			if g.quotas[p][2] != 0 && g.r.Intn(2) == 0 {
				parent = p
				break
			}
		}
		spec := []int64{id, parent, vtB(g.r.Intn(3) == 0), vtB(g.r.Intn(3) != 0), int64(g.r.Intn(30)), int64(g.r.Intn(30)), int64(g.r.Intn(10)), int64(g.r.Intn(10))}
		g.quotas[id] = spec
		g.emit(append([]int64{6}, spec...)...)
		g.pending = true
		if !g.findings || g.r.Intn(2) == 0 {
			g.migrate() // the periodic run follows before any other event
		}
	case x < 8 && len(ids) > 0: // change max / min / lend
		id := ids[g.r.Intn(len(ids))]
		spec := append([]int64{}, g.quotas[id]...)
		switch g.r.Intn(3) {
		case 0:
			spec[4], spec[5] = int64(g.r.Intn(30)), int64(g.r.Intn(30))
		case 1:
			spec[6], spec[7] = int64(g.r.Intn(10)), int64(g.r.Intn(10))
		default:
			spec[3] = 1 - spec[3]
		}
		g.quotas[id] = spec
		g.emit(append([]int64{7}, spec...)...)
	case len(ids) > 0: // delete a quota without children
		for _, id := range ids {
			hasChild := false
			for _, s := range g.quotas {
				if s[1] == id {
					hasChild = true
				}
			}
			if !hasChild {
				delete(g.quotas, id)
				g.emit(8, id)
				return
			}
		}
	}
}

func (g *vtC01PGen) podOp() {
	pid := int64(1 + g.r.Intn(5))
	p := g.pods[pid]
	if p == nil {
		p = &vtC01PGenPod{}
		g.pods[pid] = p
	}
	if p.obj == nil {
		label := int64(3 + g.r.Intn(4))
		o := []int64{pid, int64(g.r.Intn(13)), int64(g.r.Intn(13)), vtB(g.r.Intn(4) == 0), vtB(g.r.Intn(2) == 0), 0}
		p.obj, p.label = o, label
		g.emit(append([]int64{1, label}, o...)...)
		return
	}
	if g.r.Intn(5) == 0 {
		g.emit(append([]int64{3, p.label}, p.obj...)...)
		p.obj = nil
		return
	}
	// an update; while the pod waits in the default quota for its own quota, only changes that the
	// stale stored object cannot distort are generated (unless the known-defect shapes are wanted)
	waiting := g.quotas[p.label] == nil
	n := append([]int64{}, p.obj...)
	label := p.label
	switch x := g.r.Intn(6); {
	case x == 0 && (!waiting || g.findings):
		n[1], n[2] = int64(g.r.Intn(13)), int64(g.r.Intn(13))
	case x == 1 && (!waiting || g.findings):
		n[3] = 1 - n[3]
	case x == 2 && (!waiting || g.findings):
		label = int64(3 + g.r.Intn(4))
	case x == 3:
		n[4] = 1
	default:
		n[4] = int64(g.r.Intn(3))
	}
	rec := append([]int64{2, label, p.label}, n...)
	rec = append(rec, p.obj...)
	p.obj, p.label = n, label
	g.emit(rec...)
}

func vtC01PGenCase(r *rand.Rand, i int) (string, []int64) {
	g := &vtC01PGen{r: r, pods: map[int64]*vtC01PGenPod{}, quotas: map[int64][]int64{}, findings: os.Getenv("VERIF_C01_FINDINGS") != ""}
	g.in = []int64{1 << 50, 1 << 50, 1 << 50, 1 << 50, 0}
	target := 8 + r.Intn(10)
	for g.nops < target {
		switch x := r.Intn(10); {
		case x < 6:
			g.podOp()
		case x < 9:
			g.quotaOp()
		default:
			g.migrate()
		}
	}
	g.migrate()
	g.in[4] = int64(g.nops)
	style := "plugin"
	if g.findings {
		style = "plugin+defect-shapes"
	}
	return style, g.in
}

func TestVerifC01Plugin(t *testing.T) { vtMain(t, "C01", vtC01PGenCase, vtC01PExec) }
