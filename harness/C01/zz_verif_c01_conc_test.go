//go:build verif

package core

// C01 — stream "conc": after a sequential set-up history, OnPodAdd / OnPodUpdate / OnPodDelete calls
// for pairwise distinct pods are issued from concurrent goroutines (these handlers only hold the
// read side of hierarchyUpdateLock, so their sections really interleave). The summaries after all
// goroutines have returned are compared with the model, which runs the calls one after the other.
// A stress test of the interleaving theorem's hypotheses, not a proof of them.

import (
	"math/rand"
	"sync"
	"testing"
)

func vtC01ConcExec(in []int64) []int64 {
	gqm := vtC01NewManager(in)
	k, kc := int(in[4]), int(in[5])
	rec := func(i int) []int64 { return in[6+vtC01OpLen*i : 6+vtC01OpLen*(i+1)] }
	for i := 0; i < k; i++ {
		vtC01Apply(gqm, rec(i))
	}
	var wg sync.WaitGroup
	start := make(chan struct{})
	for i := 0; i < kc; i++ {
		r := rec(k + i)
		wg.Add(1)
		go func() {
			defer wg.Done()
			<-start
			vtC01Apply(gqm, r)
		}()
	}
	close(start)
	wg.Wait()
	return vtC01Dump(gqm, []int64{})
}

// one read-locked handler call for pod pid, well-formed in the generator's current state
func (g *vtC01Gen) podOpRL(pid int64) {
	p := g.pods[pid]
	if p == nil {
		p = &vtC01GenPod{}
		g.pods[pid] = p
	}
	if p.obj == nil {
		q := g.someQuota()
		o := g.newObj(pid)
		p.obj, p.label = o, q
		g.emit(append([]int64{1, q}, o...)...)
		return
	}
	if g.r.Intn(4) == 0 {
		g.emit(append([]int64{3, p.label}, p.obj...)...)
		p.obj = nil
		return
	}
	n := append([]int64{}, p.obj...)
	qn := p.label
	switch g.r.Intn(6) {
	case 0, 1:
		n[1], n[2] = g.amount(12), g.amount(12)
	case 2:
		n[3] = 1 - n[3]
	case 3:
		n[4] = 1
	case 4:
		n[5] = int64(g.r.Intn(2))
	default:
		qn = g.someQuota()
		if g.r.Intn(2) == 0 {
			n[1], n[2] = g.amount(12), g.amount(12)
		}
	}
	rec := append([]int64{2, qn, p.label}, n...)
	rec = append(rec, p.obj...)
	p.obj, p.label = n, qn
	g.emit(rec...)
}

func vtC01ConcGen(r *rand.Rand, i int) (string, []int64) {
	g := &vtC01Gen{r: r, pods: map[int64]*vtC01GenPod{}, quotas: map[int64]*vtC01GenQuota{}, deep: true}
	hdr := []int64{1 << 50, 1 << 50, 1 << 50, 1 << 50, 0, 0}
	g.in = append(g.in, hdr...)
	g.gqm = vtC01NewManager(hdr)
	for j := 0; j < 3+r.Intn(3); j++ {
		g.newQuota()
	}
	target := 6 + r.Intn(8)
	for tries := 0; g.nops < target && tries < 100; tries++ {
		if r.Intn(4) == 0 {
			g.changeQuota()
		} else {
			g.podOp()
		}
	}
	k := g.nops
	pids := r.Perm(6)
	kc := 2 + r.Intn(4)
	for _, p := range pids[:kc] {
		g.podOpRL(int64(p + 1))
	}
	g.in[4], g.in[5] = int64(k), int64(g.nops-k)
	return "conc", g.in
}

func TestVerifC01Conc(t *testing.T) { vtMain(t, "C01", vtC01ConcGen, vtC01ConcExec) }
