//go:build verif

package core

// C01 — correspondence harness, stream "history": random well-formed event histories are played
// against a real GroupQuotaManager through its exported entry points (OnPodAdd/Update/Delete,
// ReservePod/UnreservePod, MigratePod, UpdateQuota/DeleteQuota, ResetQuota, OnNode*), and after
// every operation GetQuotaSummaries(true) is projected to the flat-integer observable of
// coq/C01/Extract.v.

import (
	"fmt"
	"math/rand"
	"os"
	"sort"
	"strconv"
	"strings"
	"testing"
	"time"

	v1 "k8s.io/api/core/v1"
	"k8s.io/apimachinery/pkg/api/resource"
	metav1 "k8s.io/apimachinery/pkg/apis/meta/v1"
	quotav1 "k8s.io/apiserver/pkg/quota/v1"
	k8sfeature "k8s.io/apiserver/pkg/util/feature"

	"github.com/koordinator-sh/koordinator/apis/extension"
	"github.com/koordinator-sh/koordinator/apis/thirdparty/scheduler-plugins/pkg/apis/scheduling/v1alpha1"
)

const vtC01OpLen = 15

func vtC01QName(id int64) string {
	switch id {
	case 0:
		return extension.RootQuotaName
	case 1:
		return extension.SystemQuotaName
	case 2:
		return extension.DefaultQuotaName
	}
	return fmt.Sprintf("q%02d", id)
}

func vtC01QID(name string) int64 {
	switch name {
	case extension.RootQuotaName, "":
		return 0
	case extension.SystemQuotaName:
		return 1
	case extension.DefaultQuotaName:
		return 2
	}
	v, err := strconv.ParseInt(strings.TrimPrefix(name, "q"), 10, 64)
	if err != nil {
		return -1
	}
	return v
}

func vtC01RL(cpu, mem int64) v1.ResourceList {
	return v1.ResourceList{
		v1.ResourceCPU:    *resource.NewMilliQuantity(cpu, resource.DecimalSI),
		v1.ResourceMemory: *resource.NewQuantity(mem, resource.BinarySI),
	}
}

// pod record: id cpu mem nonPreemptible bound ignored
func vtC01Pod(f []int64) *v1.Pod {
	id, cpu, mem := f[0], f[1], f[2]
	req := v1.ResourceList{}
	// a zero amount is sometimes an absent key, sometimes an explicit 0
	if cpu != 0 || id%2 == 0 {
		req[v1.ResourceCPU] = *resource.NewMilliQuantity(cpu, resource.DecimalSI)
	}
	if mem != 0 || id%3 == 0 {
		req[v1.ResourceMemory] = *resource.NewQuantity(mem, resource.BinarySI)
	}
	// a resource outside the quota dimensions: must be masked away
	if (cpu+mem)%3 == 0 {
		req["example.com/widget"] = *resource.NewQuantity(1+cpu%4, resource.DecimalSI)
	}
	pod := &v1.Pod{
		ObjectMeta: metav1.ObjectMeta{
			Namespace: "ns",
			Name:      fmt.Sprintf("p%02d", id),
			Labels:    map[string]string{},
		},
		Spec: v1.PodSpec{
			Containers: []v1.Container{{Name: "c", Resources: v1.ResourceRequirements{Requests: req}}},
		},
		Status: v1.PodStatus{Phase: v1.PodPending},
	}
	if f[3] != 0 {
		pod.Labels[extension.LabelPreemptible] = "false"
	}
	switch f[4] {
	case 1:
		pod.Spec.NodeName = "n1"
		pod.Status.Phase = v1.PodRunning
	case 2:
		pod.Spec.NodeName = "n1"
		pod.Status.Phase = v1.PodSucceeded
	}
	if f[5] != 0 {
		ts := metav1.NewTime(time.Unix(1000, 0))
		pod.DeletionTimestamp = &ts
	}
	return pod
}

// quota record: name parent isParent lend maxCpu maxMem minCpu minMem weightCpu weightMem
func vtC01Quota(f []int64) *v1alpha1.ElasticQuota {
	q := &v1alpha1.ElasticQuota{
		ObjectMeta: metav1.ObjectMeta{
			Name:        vtC01QName(f[0]),
			Namespace:   "ns",
			Labels:      map[string]string{},
			Annotations: map[string]string{},
		},
		Spec: v1alpha1.ElasticQuotaSpec{Max: vtC01RL(f[4], f[5]), Min: vtC01RL(f[6], f[7])},
	}
	if f[1] != 0 || f[0]%2 == 0 { // an absent parent label means the root as well
		q.Labels[extension.LabelQuotaParent] = vtC01QName(f[1])
	}
	if f[2] != 0 {
		q.Labels[extension.LabelQuotaIsParent] = "true"
	}
	if f[3] != 0 {
		if f[0]%3 == 0 { // absent label = lending allowed
			q.Labels[extension.LabelAllowLentResource] = "true"
		}
	} else {
		q.Labels[extension.LabelAllowLentResource] = "false"
	}
	if f[8] != 0 || f[9] != 0 {
		q.Annotations[extension.AnnotationSharedWeight] = fmt.Sprintf("{\"cpu\":\"%dm\",\"memory\":\"%d\"}", f[8], f[9])
	}
	return q
}

func vtC01NewManager(in []int64) *GroupQuotaManager {
	// pods carrying a deletion timestamp are ignored at once (shouldBeIgnored without a clock)
	if err := k8sfeature.DefaultMutableFeatureGate.Set("ElasticQuotaImmediateIgnoreTerminatingPod=true"); err != nil {
		panic(err)
	}
	return NewGroupQuotaManager("", false, vtC01RL(in[0], in[1]), vtC01RL(in[2], in[3]))
}

func vtC01Apply(gqm *GroupQuotaManager, r []int64) {
	switch r[0] {
	case 1:
		gqm.OnPodAdd(vtC01QName(r[1]), vtC01Pod(r[2:8]))
	case 2:
		gqm.OnPodUpdate(vtC01QName(r[1]), vtC01QName(r[2]), vtC01Pod(r[3:9]), vtC01Pod(r[9:15]))
	case 3:
		gqm.OnPodDelete(vtC01QName(r[1]), vtC01Pod(r[2:8]))
	case 4:
		gqm.ReservePod(vtC01QName(r[1]), vtC01Pod(r[2:8]))
	case 5:
		gqm.UnreservePod(vtC01QName(r[1]), vtC01Pod(r[2:8]))
	case 6:
		gqm.MigratePod(vtC01Pod(r[3:9]), vtC01QName(r[1]), vtC01QName(r[2]))
	case 7:
		_ = gqm.UpdateQuota(vtC01Quota(r[1:11]))
	case 8:
		_ = gqm.DeleteQuota(vtC01Quota([]int64{r[1], 0, 0, 0, 0, 0, 0, 0, 0, 0}))
	case 9:
		gqm.ResetQuota()
	case 10:
		node := &v1.Node{ObjectMeta: metav1.ObjectMeta{Name: fmt.Sprintf("n%d", r[2])},
			Status: v1.NodeStatus{Allocatable: vtC01RL(r[3], r[4])}}
		switch r[1] {
		case 0:
			gqm.OnNodeAdd(node)
		case 1:
			old := node.DeepCopy()
			old.Status.Allocatable = vtC01RL(r[3]/2, r[4]/2)
			gqm.OnNodeUpdate(old, node)
		default:
			gqm.OnNodeDelete(node)
		}
	case 11: // the plugin's EnableMinQuotaScale switch
		gqm.setScaleMinQuotaEnabled(r[1] != 0)
	case 12: // set the cluster total (possibly below the sum of the mins: min-quota scaling kicks in)
		gqm.UpdateClusterTotalResource(quotav1.Subtract(vtC01RL(r[1], r[2]), gqm.GetClusterTotalResource()))
	case 13: // RefreshRuntime: rewrites AutoScaleMin / runtime, must not touch the accounting figures
		gqm.RefreshRuntime(vtC01QName(r[1]))
	}
}

func vtC01V(rl v1.ResourceList) (int64, int64) {
	c, m := rl[v1.ResourceCPU], rl[v1.ResourceMemory]
	return c.MilliValue(), m.Value()
}

// number of non-zero amounts under keys outside the quota dimensions
func vtC01Leak(rls ...v1.ResourceList) int64 {
	var n int64
	for _, rl := range rls {
		for k, q := range rl {
			if k != v1.ResourceCPU && k != v1.ResourceMemory && !q.IsZero() {
				n++
			}
		}
	}
	return n
}

func vtC01Dump(gqm *GroupQuotaManager, obs []int64) []int64 {
	sums := gqm.GetQuotaSummaries(true)
	ids := make([]int64, 0, len(sums))
	byID := map[int64]*QuotaInfoSummary{}
	for name, s := range sums {
		id := vtC01QID(name)
		ids = append(ids, id)
		byID[id] = s
	}
	sort.Slice(ids, func(i, j int) bool { return ids[i] < ids[j] })
	obs = append(obs, int64(len(ids)))
	for _, id := range ids {
		s := byID[id]
		obs = append(obs, id, vtC01QID(s.ParentName), vtB(s.IsParent), vtB(s.AllowLentResource))
		for _, rl := range []v1.ResourceList{s.Max, s.Min, s.Request, s.ChildRequest, s.SelfRequest,
			s.NonPreemptibleRequest, s.SelfNonPreemptibleRequest, s.Used, s.SelfUsed,
			s.NonPreemptibleUsed, s.SelfNonPreemptibleUsed} {
			c, m := vtC01V(rl)
			obs = append(obs, c, m)
		}
		obs = append(obs, vtC01Leak(s.Request, s.ChildRequest, s.SelfRequest, s.NonPreemptibleRequest,
			s.SelfNonPreemptibleRequest, s.Used, s.SelfUsed, s.NonPreemptibleUsed, s.SelfNonPreemptibleUsed))
		pids := make([]int64, 0, len(s.PodCache))
		asg := map[int64]bool{}
		for key, pi := range s.PodCache {
			v, err := strconv.ParseInt(strings.TrimPrefix(key, "ns/p"), 10, 64)
			if err != nil {
				v = -1
			}
			pids = append(pids, v)
			asg[v] = pi.IsAssigned
		}
		sort.Slice(pids, func(i, j int) bool { return pids[i] < pids[j] })
		obs = append(obs, int64(len(pids)))
		for _, p := range pids {
			obs = append(obs, p, vtB(asg[p]))
		}
	}
	// the root entry: not part of GetQuotaSummaries, read the way the elastic-quota controller reads it
	if root, ok := gqm.GetQuotaSummary(extension.RootQuotaName, false); ok {
		for _, rl := range []v1.ResourceList{root.Request, root.NonPreemptibleRequest, root.Used, root.NonPreemptibleUsed} {
			c, m := vtC01V(rl)
			obs = append(obs, c, m)
		}
	} else {
		obs = append(obs, -1, -1, -1, -1, -1, -1, -1, -1)
	}
	return obs
}

func vtC01Exec(in []int64) []int64 {
	gqm := vtC01NewManager(in)
	k := int(in[4])
	obs := []int64{}
	for i := 0; i < k; i++ {
		vtC01Apply(gqm, in[5+vtC01OpLen*i:5+vtC01OpLen*(i+1)])
		obs = vtC01Dump(gqm, obs)
	}
	return obs
}

// ---------------------------------------------------------------- generator

type vtC01GenPod struct {
	obj   []int64 // last delivered object (nil: never delivered or deleted)
	label int64   // quota the pod's events are routed to
}

type vtC01GenQuota struct {
	parent             int64
	isParent, lend     bool
	maxc, maxm, mc, mm int64
}

type vtC01Gen struct {
	r      *rand.Rand
	gqm    *GroupQuotaManager
	in     []int64
	nops   int
	deep   bool
	scale  bool // min-quota scaling enabled: cluster total squeezes and runtime refreshes are generated
	rootFinding bool // also generate tree rebuilds while system/default are max-limited
	pods   map[int64]*vtC01GenPod
	quotas map[int64]*vtC01GenQuota
	big    bool
}

// rebuilding the tree while the system or the default quota asks for more than its max leaves a
// phantom request in the root entry (findings/C01-root-reset.md); such histories are only generated
// when VERIF_C01_ROOTFINDING is set.
func (g *vtC01Gen) rebuildOK() bool {
	if g.rootFinding {
		return true
	}
	for _, name := range []string{extension.SystemQuotaName, extension.DefaultQuotaName} {
		qi := g.gqm.GetQuotaInfoByName(name)
		if qi == nil {
			continue
		}
		if ok, _ := quotav1.LessThanOrEqual(qi.GetRequest(), qi.GetMax()); !ok {
			return false
		}
	}
	return true
}

func (g *vtC01Gen) emit(rec ...int64) {
	for len(rec) < vtC01OpLen {
		rec = append(rec, 0)
	}
	g.in = append(g.in, rec...)
	g.nops++
	vtC01Apply(g.gqm, rec)
}

func (g *vtC01Gen) amount(hi int64) int64 {
	if g.big && g.r.Intn(3) == 0 {
		return vtQty(g.r, int64(1)<<44)
	}
	switch g.r.Intn(8) {
	case 0:
		return 0
	case 1:
		return hi
	}
	return g.r.Int63n(hi + 1)
}

func (g *vtC01Gen) cachedIn(pid int64) int64 {
	key := fmt.Sprintf("ns/p%02d", pid)
	for name, s := range g.gqm.GetQuotaSummaries(true) {
		if _, ok := s.PodCache[key]; ok {
			return vtC01QID(name)
		}
	}
	return -1
}

func (g *vtC01Gen) userQuotas() []int64 {
	ids := []int64{}
	for id := range g.quotas {
		ids = append(ids, id)
	}
	sort.Slice(ids, func(i, j int) bool { return ids[i] < ids[j] })
	return ids
}

func (g *vtC01Gen) hasChildren(id int64) bool {
	for _, q := range g.quotas {
		if q.parent == id {
			return true
		}
	}
	return false
}

func (g *vtC01Gen) inSubtree(x, root int64) bool { // x in subtree(root)?
	for x != 0 {
		if x == root {
			return true
		}
		q := g.quotas[x]
		if q == nil {
			return false
		}
		x = q.parent
	}
	return false
}

// a quota name pods can be routed to: mostly existing user quotas, sometimes default/system, rarely unknown
func (g *vtC01Gen) someQuota() int64 {
	ids := g.userQuotas()
	switch x := g.r.Intn(12); {
	case x == 0:
		return 2
	case x == 1 && g.r.Intn(3) == 0:
		return 1
	case x == 2 && g.r.Intn(2) == 0:
		return 9 // usually not created
	}
	if len(ids) == 0 {
		return 2
	}
	return ids[g.r.Intn(len(ids))]
}

func (g *vtC01Gen) parentCandidates(exclSubtreeOf int64) []int64 {
	c := []int64{0}
	for _, id := range g.userQuotas() {
		if g.quotas[id].isParent && (exclSubtreeOf == 0 || !g.inSubtree(id, exclSubtreeOf)) {
			c = append(c, id)
		}
	}
	return c
}

func (g *vtC01Gen) emitQuota(id int64, q *vtC01GenQuota) {
	var wc, wm int64
	if g.r.Intn(3) == 0 {
		wc, wm = g.r.Int63n(20), g.r.Int63n(20)
	}
	g.quotas[id] = q
	g.emit(7, id, q.parent, vtB(q.isParent), vtB(q.lend), q.maxc, q.maxm, q.mc, q.mm, wc, wm)
}

func (g *vtC01Gen) newQuota() bool {
	free := []int64{}
	for id := int64(3); id <= 8; id++ {
		if g.quotas[id] == nil {
			free = append(free, id)
		}
	}
	if len(free) == 0 {
		return false
	}
	id := free[g.r.Intn(len(free))]
	ps := g.parentCandidates(0)
	par := ps[g.r.Intn(len(ps))]
	if len(ps) > 1 && g.r.Intn(3) != 0 { // prefer a real parent over the root: deeper trees
		par = ps[1+g.r.Intn(len(ps)-1)]
	}
	q := &vtC01GenQuota{parent: par, isParent: g.r.Intn(2) == 0 || (g.deep && len(g.quotas) < 2), lend: g.r.Intn(3) != 0 && !(g.scale && g.r.Intn(2) == 0),
		maxc: g.amount(30), maxm: g.amount(30), mc: g.amount(12), mm: g.amount(12)}
	g.emitQuota(id, q)
	return true
}

func (g *vtC01Gen) changeQuota() bool {
	ids := g.userQuotas()
	if len(ids) == 0 {
		return false
	}
	id := ids[g.r.Intn(len(ids))]
	kind := g.r.Intn(9)
	if kind >= 6 && kind <= 7 && g.r.Intn(2) == 0 { // re-parent: prefer a quota that has children
		for _, c := range ids {
			if g.hasChildren(c) {
				id = c
				break
			}
		}
	}
	q := *g.quotas[id]
	switch kind {
	case 0, 1:
		q.maxc, q.maxm = g.amount(30), g.amount(30)
	case 2, 3:
		q.mc, q.mm = g.amount(12), g.amount(12)
	case 4:
		q.lend = !q.lend
	case 5:
		if q.isParent && g.hasChildren(id) {
			q.lend = !q.lend
		} else {
			q.isParent = !q.isParent
		}
	case 6, 7:
		ps := g.parentCandidates(id)
		q.parent = ps[g.r.Intn(len(ps))]
		if g.r.Intn(3) == 0 {
			q.maxc = g.amount(30)
		}
		if g.r.Intn(4) == 0 {
			q.lend = !q.lend
		}
	default: // only the weight, or nothing at all
	}
	if old := g.quotas[id]; old.parent == q.parent && (old.lend != q.lend || old.isParent != q.isParent) && !g.rebuildOK() {
		return false // would rebuild the tree (resetQuotaNoLock)
	}
	g.emitQuota(id, &q)
	return true
}

func (g *vtC01Gen) deleteQuota() bool {
	c := []int64{}
	for _, id := range g.userQuotas() {
		if !g.hasChildren(id) {
			c = append(c, id)
		}
	}
	if len(c) == 0 {
		return false
	}
	id := c[g.r.Intn(len(c))]
	delete(g.quotas, id)
	g.emit(8, id)
	return true
}

func (g *vtC01Gen) newObj(pid int64) []int64 {
	return []int64{pid, g.amount(12), g.amount(12), vtB(g.r.Intn(4) == 0), vtB(g.r.Intn(2) == 0), 0}
}

func (g *vtC01Gen) podOp() bool {
	pid := int64(1 + g.r.Intn(6))
	p := g.pods[pid]
	if p == nil {
		p = &vtC01GenPod{}
		g.pods[pid] = p
	}
	if p.obj == nil {
		q := g.someQuota()
		o := g.newObj(pid)
		if g.r.Intn(25) == 0 {
			o[5] = 1
		}
		p.obj, p.label = o, q
		g.emit(append([]int64{1, q}, o...)...)
		return true
	}
	switch x := g.r.Intn(20); {
	case x < 8: // update
		n := append([]int64{}, p.obj...)
		qn := p.label
		switch g.r.Intn(8) {
		case 0, 1:
			n[1], n[2] = g.amount(12), g.amount(12)
		case 2:
			n[3] = 1 - n[3]
		case 3, 4:
			n[4] = 1
		case 5:
			n[4] = int64(g.r.Intn(3))
		case 6:
			if g.r.Intn(3) == 0 {
				n[5] = 1
			} else {
				n[1] = g.amount(12)
			}
		default:
			qn = g.someQuota()
			// one event may carry a quota change together with other changes (re-list / combined patch)
			if g.r.Intn(2) == 0 {
				n[1], n[2] = g.amount(12), g.amount(12)
			}
			if g.r.Intn(4) == 0 {
				n[3] = 1 - n[3]
			}
		}
		rec := append([]int64{2, qn, p.label}, n...)
		rec = append(rec, p.obj...)
		p.obj, p.label = n, qn
		g.emit(rec...)
	case x < 10: // delete
		g.emit(append([]int64{3, p.label}, p.obj...)...)
		p.obj = nil
	case x < 14:
		g.emit(append([]int64{4, p.label}, p.obj...)...)
	case x < 17:
		g.emit(append([]int64{5, p.label}, p.obj...)...)
	case x < 19: // migrate: only a pod that is cached where its events go, to an existing quota
		if g.cachedIn(pid) != p.label {
			return false
		}
		in := g.someQuota()
		if in == 9 && g.quotas[9] == nil {
			return false
		}
		rec := append([]int64{6, p.label, in}, p.obj...)
		p.label = in
		g.emit(rec...)
	default: // duplicate add of the same object
		g.emit(append([]int64{1, p.label}, p.obj...)...)
	}
	return true
}

// squeeze sets the cluster total to a small amount (usually below the sum of the sibling mins, so that
// the scale-min manager shrinks AutoScaleMin) and refreshes the runtime of every quota, bottom-up order
// not required; later pod events then walk paths whose AutoScaleMin differs from Min.
func (g *vtC01Gen) squeeze() {
	g.emit(12, g.r.Int63n(25), g.r.Int63n(25))
	for _, id := range g.userQuotas() {
		if g.r.Intn(4) != 0 {
			g.emit(13, id)
		}
	}
}

func vtC01Gen_(r *rand.Rand, i int) (string, []int64) {
	style := []string{"small", "small", "big", "deep", "deep", "scale", "scale"}[r.Intn(7)]
	g := &vtC01Gen{r: r, pods: map[int64]*vtC01GenPod{}, quotas: map[int64]*vtC01GenQuota{}, big: style == "big", deep: style == "deep" || style == "scale", scale: style == "scale", rootFinding: os.Getenv("VERIF_C01_ROOTFINDING") != ""}
	hdr := []int64{1 << 50, 1 << 50, 1 << 50, 1 << 50, 0}
	if r.Intn(3) == 0 { // a default quota that limits
		hdr[2], hdr[3] = r.Int63n(20), r.Int63n(20)
	}
	g.in = append(g.in, hdr...)
	g.gqm = vtC01NewManager(hdr)
	if g.scale {
		g.emit(11, 1)
	}
	target := 6 + r.Intn(12)
	nq := 2 + r.Intn(4)
	if style == "deep" {
		nq = 4 + r.Intn(3)
	}
	for j := 0; j < nq; j++ {
		g.newQuota()
	}
	for tries := 0; g.nops < target && tries < 200; tries++ {
		switch x := r.Intn(40); {
		case g.scale && x < 4:
			g.squeeze()
		case x < 24:
			g.podOp()
		case x < 27:
			g.newQuota()
		case x < 34:
			g.changeQuota()
		case x < 36:
			g.deleteQuota()
		case x < 38:
			if g.rebuildOK() {
				g.emit(9)
			}
		case g.scale:
			g.squeeze()
		default:
			g.emit(10, int64(r.Intn(3)), int64(1+r.Intn(2)), r.Int63n(100), r.Int63n(100))
		}
	}
	g.in[4] = int64(g.nops)
	return style, g.in
}

func TestVerifC01(t *testing.T) { vtMain(t, "C01", vtC01Gen_, vtC01Exec) }
