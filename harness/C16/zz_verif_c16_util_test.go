//go:build verif

package util

import (
	"fmt"
	"math/rand"
	"testing"

	corev1 "k8s.io/api/core/v1"
	metav1 "k8s.io/apimachinery/pkg/apis/meta/v1"
	"k8s.io/apimachinery/pkg/util/intstr"
	"k8s.io/klog/v2"

	"github.com/koordinator-sh/koordinator/apis/extension"
)

// C16 stream budget: the budget functions of pkg/descheduler/controllers/migration/util/util.go on
// boundary grids — GetMaxUnavailable / GetMaxMigrating (the "allowed unavailability" and "maximum
// migrating per workload" of the property; nil, int and percent settings in every legal and several
// illegal spellings), GetLimiterBurst, FilterPodWithMaxEvictionCost.
//
// input :  17  K (fn a b c)*K
//   fn 1 GetMaxUnavailable(replicas a, setting kind b value c)     fn 2 GetMaxMigrating(same)
//      setting kinds: 0 nil | 1 int c | 2 "c%" | 3 "+c%" | 4 "0c%" (leading zero) | 5 "c" (no percent sign)
//                     6 "c.5%" | 7 an IntOrString of type String with an empty value
//   fn 3 GetLimiterBurst(a)
//   fn 4 FilterPodWithMaxEvictionCost: annotation kind b (0 absent | 1 "c" | 2 "+c" | 3 "0c"), value c
// observable per query:  err value

func vtC16UIntOrString(kind, v int64) *intstr.IntOrString {
	var x intstr.IntOrString
	switch kind {
	case 0:
		return nil
	case 1:
		x = intstr.FromInt32(int32(v))
	case 2:
		x = intstr.FromString(fmt.Sprintf("%d%%", v))
	case 3:
		x = intstr.FromString(fmt.Sprintf("+%d%%", v))
	case 4:
		x = intstr.FromString(fmt.Sprintf("0%d%%", v))
	case 5:
		x = intstr.FromString(fmt.Sprintf("%d", v))
	case 6:
		x = intstr.FromString(fmt.Sprintf("%d.5%%", v))
	default:
		x = intstr.FromString("")
	}
	return &x
}

func vtC16UtilExec(in []int64) []int64 {
	if len(in) < 2 || in[0] != 17 {
		return []int64{} // not an input of this stream
	}
	k := int(in[1])
	obs := make([]int64, 0, 2*k)
	for q := 0; q < k; q++ {
		fn, a, b, c := in[2+4*q], in[3+4*q], in[4+4*q], in[5+4*q]
		switch fn {
		case 1, 2:
			var v int
			var err error
			if fn == 1 {
				v, err = GetMaxUnavailable(int(a), vtC16UIntOrString(b, c))
			} else {
				v, err = GetMaxMigrating(int(a), vtC16UIntOrString(b, c))
			}
			if err != nil {
				obs = append(obs, 1, 0)
			} else {
				obs = append(obs, 0, int64(v))
			}
		case 3:
			obs = append(obs, 0, int64(GetLimiterBurst(int(a))))
		case 4:
			pod := &corev1.Pod{ObjectMeta: metav1.ObjectMeta{Namespace: "s", Name: "p", Annotations: map[string]string{}}}
			switch b {
			case 1:
				pod.Annotations[extension.AnnotationEvictionCost] = fmt.Sprintf("%d", c)
			case 2:
				pod.Annotations[extension.AnnotationEvictionCost] = fmt.Sprintf("+%d", c)
			case 3:
				pod.Annotations[extension.AnnotationEvictionCost] = fmt.Sprintf("0%d", c)
			}
			obs = append(obs, 0, vtB(FilterPodWithMaxEvictionCost(pod)))
		default:
			obs = append(obs, -1, 0)
		}
	}
	return obs
}

func vtC16UtilGen(r *rand.Rand, idx int) (string, []int64) {
	style := []string{"budget", "budget", "budget", "spelling", "burst", "cost"}[r.Intn(6)]
	replicas := func() int64 {
		switch r.Intn(8) {
		case 0:
			return []int64{0, 1, 2, 3, 4, 5, 9, 10, 11, 12}[r.Intn(10)]
		case 1:
			return []int64{19, 20, 21, 99, 100, 101, 199, 200, 1000}[r.Intn(9)]
		case 2:
			return []int64{1<<31 - 1, 1<<31 - 2, 1 << 30, 1000000000, -1, -5}[r.Intn(6)]
		default:
			return int64(r.Intn(40))
		}
	}
	val := func() int64 {
		switch r.Intn(8) {
		case 0:
			return []int64{0, 1, 2, 10, 25, 33, 34, 50, 99, 100, 101, 200, 1000}[r.Intn(13)]
		case 1:
			return -int64(1 + r.Intn(30))
		default:
			return int64(r.Intn(12))
		}
	}
	k := 4 + r.Intn(12)
	in := []int64{17, int64(k)}
	for q := 0; q < k; q++ {
		switch style {
		case "budget":
			in = append(in, int64(1+r.Intn(2)), replicas(), int64(r.Intn(3)), val())
		case "spelling":
			in = append(in, int64(1+r.Intn(2)), replicas(), int64(r.Intn(8)), val())
		case "burst":
			in = append(in, 3, []int64{0, 1, 2, -1, 10, 1<<31 - 1}[r.Intn(6)], 0, 0)
		default:
			c := []int64{0, 1, -1, 5, 1<<31 - 1, 1<<31 - 2, 1 << 31, -(1 << 31), -(1 << 31) - 1, 1 << 40}[r.Intn(10)]
			in = append(in, 4, 0, int64(r.Intn(4)), c)
		}
	}
	return style, in
}

type vtC16UDiscard struct{}

func (vtC16UDiscard) Write(p []byte) (int, error) { return len(p), nil }

func TestVerifC16Util(t *testing.T) {
	klog.SetOutput(vtC16UDiscard{})
	klog.LogToStderr(false)
	vtMain(t, "C16", vtC16UtilGen, vtC16UtilExec)
}
