//go:build verif

package defaultevictor

import (
	"context"
	"fmt"
	"math/rand"
	"testing"
	"time"

	corev1 "k8s.io/api/core/v1"
	policy "k8s.io/api/policy/v1"
	metav1 "k8s.io/apimachinery/pkg/apis/meta/v1"
	"k8s.io/apimachinery/pkg/runtime"
	"k8s.io/apimachinery/pkg/types"
	"k8s.io/client-go/informers"
	clientset "k8s.io/client-go/kubernetes"
	kubefake "k8s.io/client-go/kubernetes/fake"
	policyv1client "k8s.io/client-go/kubernetes/typed/policy/v1"
	coretesting "k8s.io/client-go/testing"
	"k8s.io/client-go/tools/events"
	"k8s.io/klog/v2"

	deschedulerconfig "github.com/koordinator-sh/koordinator/pkg/descheduler/apis/config"
	"github.com/koordinator-sh/koordinator/pkg/descheduler/evictions"
	"github.com/koordinator-sh/koordinator/pkg/descheduler/framework"
	frameworkruntime "github.com/koordinator-sh/koordinator/pkg/descheduler/framework/runtime"
	koordutil "github.com/koordinator-sh/koordinator/pkg/util"
)

// C16 stream defaultevictor: the production eviction stack, wired the way descheduler.go wires it:
//   frameworkruntime.NewFramework(registry{DefaultEvictor: New}, profile{Evict, Filter: DefaultEvictor},
//        WithDryRun, WithEvictionLimiter(real evictions.EvictionLimiter), WithClientSet, ...)
//   handle.Evictor()                  real evictorProxy  (AllowEvict ... Done, Filter, PreEvictionFilter)
//     -> real DefaultEvictor.Evict    (this package; built by the real New())
//       -> real evictions.PodEvictor  (the instance New() creates: which dry-run flag / caps it gets)
//         -> eviction API call        thin clientset wrapper that records the call and parks the goroutine
// One goroutine per eviction request. A schedule step on thread i: not started -> run until parked
// inside the API call or returned; parked -> release and run until returned; returned -> nothing.
//
// input :  18 dry flags capNode capNs capTotal N M   T (node ns ok attr)*T   S (op arg)*S   (cap -1 = unset)
//   flags: 1 EvictLocalStoragePods  2 EvictSystemCriticalPods  4 IgnorePvcPods  8 EvictFailedBarePods
//   attr : 1 mirror 2 static 4 terminating 8 bare (no owner) 16 DaemonSet owner 32 phase Failed
//          64 system-critical priority 128 emptyDir volume 256 PVC volume 512 evict annotation
//   ops  : 0 step thread arg | 1 Filter(pod arg) | 2 PreEvictionFilter(pod arg)
//          3 NodeLimitExceeded(node arg) | 4 Reset (start of the next descheduling cycle)
// observable per op:  api ret verdict
//                     limiter: TotalEvicted NodeEvicted("", n01..nN) NamespaceEvicted(s01..sM)
//                     DefaultEvictor's PodEvictor: TotalEvicted NodeEvicted("", n01..nN) NamespaceEvicted(s01..sM)

type vtC16DCtl struct {
	arrive  []chan struct{}
	release []chan struct{}
	ok      []bool
}

type vtC16DClient struct {
	clientset.Interface
	ctl *vtC16DCtl
}

func (c *vtC16DClient) PolicyV1() policyv1client.PolicyV1Interface {
	return &vtC16DPolicy{PolicyV1Interface: c.Interface.PolicyV1(), ctl: c.ctl}
}

type vtC16DPolicy struct {
	policyv1client.PolicyV1Interface
	ctl *vtC16DCtl
}

func (p *vtC16DPolicy) Evictions(namespace string) policyv1client.EvictionInterface {
	return &vtC16DEvictions{ctl: p.ctl}
}

type vtC16DEvictions struct{ ctl *vtC16DCtl }

func (e *vtC16DEvictions) Evict(ctx context.Context, eviction *policy.Eviction) error {
	var tid int
	if _, err := fmt.Sscanf(eviction.Name, "t%02d", &tid); err != nil {
		panic("verif harness: unexpected eviction name " + eviction.Name)
	}
	e.ctl.arrive[tid] <- struct{}{}
	<-e.ctl.release[tid]
	if e.ctl.ok[tid] {
		return nil
	}
	return fmt.Errorf("injected eviction failure")
}

func vtC16DDiscovery(fk *coretesting.Fake) {
	fk.AddReactor("get", "group", func(action coretesting.Action) (bool, runtime.Object, error) {
		fk.Resources = []*metav1.APIResourceList{{
			GroupVersion: policy.SchemeGroupVersion.String(),
			APIResources: []metav1.APIResource{{Name: koordutil.EvictionSubResourceName, Kind: koordutil.EvictionKind}},
		}}
		return true, nil, nil
	})
	fk.AddReactor("get", "resource", func(action coretesting.Action) (bool, runtime.Object, error) {
		fk.Resources = []*metav1.APIResourceList{{
			GroupVersion: "v1",
			APIResources: []metav1.APIResource{{Name: koordutil.EvictionSubResourceName, Kind: koordutil.EvictionKind}},
		}}
		return true, nil, nil
	})
}

func vtC16DCap(v int64) *uint {
	if v < 0 {
		return nil
	}
	u := uint(v)
	return &u
}

func vtC16DNode(k int64) string {
	if k == 0 {
		return ""
	}
	return fmt.Sprintf("n%02d", k)
}

var vtC16DBase = time.Date(2024, 1, 1, 0, 0, 0, 0, time.UTC)

func vtC16DPod(i int, node, ns, attr int64) *corev1.Pod {
	prio := int32(0)
	if attr&64 != 0 {
		prio = 2000000000 // SystemCriticalPriority
	}
	pod := &corev1.Pod{
		ObjectMeta: metav1.ObjectMeta{
			Namespace: fmt.Sprintf("s%02d", ns), Name: fmt.Sprintf("t%02d", i), UID: types.UID(fmt.Sprintf("ut%02d", i)),
			Annotations: map[string]string{},
		},
		Spec:   corev1.PodSpec{NodeName: vtC16DNode(node), Priority: &prio},
		Status: corev1.PodStatus{Phase: corev1.PodRunning},
	}
	if attr&1 != 0 {
		pod.Annotations[corev1.MirrorPodAnnotationKey] = "mirror"
	}
	if attr&2 != 0 {
		pod.Annotations["kubernetes.io/config.source"] = "file"
	}
	if attr&4 != 0 {
		ts := metav1.Time{Time: vtC16DBase}
		pod.DeletionTimestamp = &ts
	}
	if attr&8 == 0 {
		kind := "ReplicaSet"
		if attr&16 != 0 {
			kind = "DaemonSet"
		}
		ctrl := true
		pod.OwnerReferences = []metav1.OwnerReference{{APIVersion: "apps/v1", Kind: kind, Name: "w", UID: "uw", Controller: &ctrl}}
	}
	if attr&32 != 0 {
		pod.Status.Phase = corev1.PodFailed
	}
	if attr&128 != 0 {
		pod.Spec.Volumes = append(pod.Spec.Volumes, corev1.Volume{Name: "scratch", VolumeSource: corev1.VolumeSource{EmptyDir: &corev1.EmptyDirVolumeSource{}}})
	}
	if attr&256 != 0 {
		pod.Spec.Volumes = append(pod.Spec.Volumes, corev1.Volume{Name: "data", VolumeSource: corev1.VolumeSource{
			PersistentVolumeClaim: &corev1.PersistentVolumeClaimVolumeSource{ClaimName: "claim"}}})
	}
	if attr&512 != 0 {
		pod.Annotations[evictions.EvictPodAnnotationKey] = "true"
	}
	return pod
}

func vtC16DefaultEvictorExec(in []int64) []int64 {
	if len(in) < 10 || in[0] != 18 {
		return []int64{} // not an input of this stream
	}
	dry, flags, capNode, capNs, capTotal := in[1] != 0, in[2], in[3], in[4], in[5]
	n, m, t := int(in[6]), int(in[7]), int(in[8])
	reqs := in[9 : 9+4*t]
	s := int(in[9+4*t])
	sched := in[10+4*t : 10+4*t+2*s]

	ctl := &vtC16DCtl{arrive: make([]chan struct{}, t), release: make([]chan struct{}, t), ok: make([]bool, t)}
	pods := make([]*corev1.Pod, t)
	done := make([]chan bool, t)
	for i := 0; i < t; i++ {
		ctl.arrive[i] = make(chan struct{}, 1)
		ctl.release[i] = make(chan struct{})
		ctl.ok[i] = reqs[4*i+2] != 0
		done[i] = make(chan bool, 1)
		pods[i] = vtC16DPod(i, reqs[4*i], reqs[4*i+1], reqs[4*i+3])
	}
	kc := kubefake.NewSimpleClientset()
	vtC16DDiscovery(&kc.Fake)
	client := &vtC16DClient{Interface: kc, ctl: ctl}
	limiter := evictions.NewEvictionLimiter(vtC16DCap(capNode), vtC16DCap(capNs), vtC16DCap(capTotal))

	var plugin *DefaultEvictor
	registry := frameworkruntime.Registry{
		PluginName: func(ctx context.Context, args runtime.Object, handle framework.Handle) (framework.Plugin, error) {
			p, err := New(ctx, args, handle)
			if err == nil {
				plugin = p.(*DefaultEvictor)
			}
			return p, err
		},
	}
	profile := &deschedulerconfig.DeschedulerProfile{
		Name: "verif",
		Plugins: &deschedulerconfig.Plugins{
			Evict:  deschedulerconfig.PluginSet{Enabled: []deschedulerconfig.Plugin{{Name: PluginName}}},
			Filter: deschedulerconfig.PluginSet{Enabled: []deschedulerconfig.Plugin{{Name: PluginName}}},
		},
		PluginConfig: []deschedulerconfig.PluginConfig{{Name: PluginName, Args: &DefaultEvictorArgs{
			EvictLocalStoragePods:   flags&1 != 0,
			EvictSystemCriticalPods: flags&2 != 0,
			IgnorePvcPods:           flags&4 != 0,
			EvictFailedBarePods:     flags&8 != 0,
		}}},
	}
	ctx := context.WithValue(context.TODO(), framework.EvictionPluginNameContextKey, "verif")
	fw, err := frameworkruntime.NewFramework(ctx, registry, profile,
		frameworkruntime.WithDryRun(dry),
		frameworkruntime.WithClientSet(client),
		frameworkruntime.WithEvictionLimiter(limiter),
		frameworkruntime.WithEventRecorder(&events.FakeRecorder{}),
		frameworkruntime.WithSharedInformerFactory(informers.NewSharedInformerFactory(kc, 0)),
		frameworkruntime.WithGetPodsAssignedToNodeFunc(func(string, framework.FilterFunc) ([]*corev1.Pod, error) { return nil, nil }),
	)
	if err != nil || plugin == nil {
		panic(fmt.Sprintf("verif harness: NewFramework: %v", err))
	}
	evictor := fw.Evictor()
	proxyLimiter := evictor.(frameworkruntime.EvictionLimiter)

	const (
		stNew = iota
		stParked
		stDone
	)
	state := make([]int, t)
	obs := make([]int64, 0, s*(5+2*(n+m)))
	wait := func(i int) (api bool, ret int64) {
		select {
		case <-ctl.arrive[i]:
			state[i] = stParked
			return true, 0
		case r := <-done[i]:
			state[i] = stDone
			return false, 1 + vtB(r)
		case <-time.After(20 * time.Second):
			panic("verif harness: goroutine neither reached the API nor returned")
		}
	}
	for k := 0; k < s; k++ {
		op, arg := sched[2*k], sched[2*k+1]
		i := int(arg)
		var api bool
		var ret int64
		verdict := int64(-1)
		switch op {
		case 0:
			if i >= 0 && i < t {
				switch state[i] {
				case stNew:
					go func() { done[i] <- evictor.Evict(ctx, pods[i], framework.EvictOptions{Reason: "verif"}) }()
					api, ret = wait(i)
				case stParked:
					close(ctl.release[i])
					_, ret = wait(i)
				}
			}
		case 1:
			if i >= 0 && i < t {
				verdict = vtB(evictor.Filter(pods[i]))
			}
		case 2:
			if i >= 0 && i < t {
				verdict = vtB(evictor.PreEvictionFilter(pods[i]))
			}
		case 3:
			if arg >= 0 && int(arg) <= n {
				verdict = vtB(proxyLimiter.NodeLimitExceeded(&corev1.Node{ObjectMeta: metav1.ObjectMeta{Name: vtC16DNode(arg)}}))
			}
		case 4:
			proxyLimiter.Reset()
		}
		obs = append(obs, vtB(api), ret, verdict, int64(limiter.TotalEvicted()))
		for k := 0; k <= n; k++ {
			obs = append(obs, int64(limiter.NodeEvicted(vtC16DNode(int64(k)))))
		}
		for k := 1; k <= m; k++ {
			obs = append(obs, int64(limiter.NamespaceEvicted(fmt.Sprintf("s%02d", k))))
		}
		obs = append(obs, int64(plugin.evictor.TotalEvicted()))
		for k := 0; k <= n; k++ {
			obs = append(obs, int64(plugin.evictor.NodeEvicted(vtC16DNode(int64(k)))))
		}
		for k := 1; k <= m; k++ {
			obs = append(obs, int64(plugin.evictor.NamespaceEvicted(fmt.Sprintf("s%02d", k))))
		}
	}
	for i := 0; i < t; i++ {
		if state[i] == stParked {
			close(ctl.release[i])
			<-done[i]
		}
	}
	return obs
}

func vtC16DefaultEvictorGen(r *rand.Rand, idx int) (string, []int64) {
	style := []string{"sequential", "sequential", "cycles", "cycles", "filters", "concurrent", "concurrent", "stutter"}[r.Intn(8)]
	var t int
	switch r.Intn(4) {
	case 0:
		t = 1 + r.Intn(3)
	case 1:
		t = 2 + r.Intn(15) // 2..16
	default:
		t = 2 + r.Intn(6)
	}
	n, m := 1+r.Intn(3), 1+r.Intn(3)
	capv := func() int64 {
		switch r.Intn(6) {
		case 0, 1:
			return -1
		case 2:
			return 0
		default:
			return int64(1 + r.Intn(3))
		}
	}
	capNode, capNs, capTotal := capv(), capv(), capv()
	if style == "concurrent" {
		// AllowEvict and Done are two critical sections (known finding, stream limiter sig 1): with a
		// limiter cap set, goroutines are only overlapped where the overlap cannot exceed it, i.e. not at all;
		// without limiter caps every interleaving is legal and exercises the counters of both layers
		capNode, capNs, capTotal = -1, -1, -1
	}
	dry := vtB(r.Intn(8) == 0)
	flags := int64(0)
	if r.Intn(3) == 0 {
		flags = int64(r.Intn(16))
	}
	in := []int64{18, dry, flags, capNode, capNs, capTotal, int64(n), int64(m), int64(t)}
	pfail := r.Intn(4)
	attrBits := []int64{1, 2, 4, 8, 16, 32, 64, 128, 256, 512}
	for i := 0; i < t; i++ {
		node := int64(r.Intn(n + 1))
		if r.Intn(3) != 0 && node == 0 {
			node = int64(1 + r.Intn(n))
		}
		ok := int64(1)
		if pfail > 0 && r.Intn(5) < pfail {
			ok = 0
		}
		attr := int64(0)
		switch r.Intn(4) {
		case 0:
			attr = attrBits[r.Intn(len(attrBits))]
		case 1:
			for k := 0; k < 1+r.Intn(3); k++ {
				attr |= attrBits[r.Intn(len(attrBits))]
			}
		}
		in = append(in, node, int64(1+r.Intn(m)), ok, attr)
	}
	var sched [][2]int64
	query := func() [2]int64 {
		switch r.Intn(4) {
		case 0:
			return [2]int64{3, int64(r.Intn(n + 1))}
		case 1:
			return [2]int64{2, int64(r.Intn(t))}
		default:
			return [2]int64{1, int64(r.Intn(t))}
		}
	}
	order := r.Perm(t)
	switch style {
	case "concurrent":
		for _, i := range order {
			sched = append(sched, [2]int64{0, int64(i)}, [2]int64{0, int64(i)})
		}
		r.Shuffle(len(sched), func(a, b int) { sched[a], sched[b] = sched[b], sched[a] })
		for k := 0; k < r.Intn(3); k++ {
			p := r.Intn(len(sched) + 1)
			sched = append(sched[:p], append([][2]int64{query()}, sched[p:]...)...)
		}
	default:
		for k, i := range order {
			sched = append(sched, [2]int64{0, int64(i)}, [2]int64{0, int64(i)})
			if style == "filters" || r.Intn(6) == 0 {
				sched = append(sched, query())
			}
			if style == "cycles" && k+1 < len(order) && r.Intn(3) == 0 {
				sched = append(sched, [2]int64{4, 0})
				if r.Intn(2) == 0 {
					sched = append(sched, [2]int64{3, int64(r.Intn(n + 1))})
				}
			}
			if style == "stutter" && r.Intn(3) == 0 {
				// a step of a thread that has already returned, or of a thread that does not exist
				j := int64(t)
				if r.Intn(2) == 0 {
					j = int64(order[r.Intn(k+1)])
				}
				sched = append(sched, [2]int64{0, j})
			}
		}
		if style == "cycles" && r.Intn(2) == 0 {
			sched = append(sched, [2]int64{4, 0})
		}
	}
	in = append(in, int64(len(sched)))
	for _, o := range sched {
		in = append(in, o[0], o[1])
	}
	return style, in
}

type vtC16DDiscard struct{}

func (vtC16DDiscard) Write(p []byte) (int, error) { return len(p), nil }

func TestVerifC16DefaultEvictor(t *testing.T) {
	klog.SetOutput(vtC16DDiscard{})
	klog.LogToStderr(false)
	vtMain(t, "C16", vtC16DefaultEvictorGen, vtC16DefaultEvictorExec)
}
