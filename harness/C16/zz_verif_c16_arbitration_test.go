//go:build verif

package arbitrator

import (
	"context"
	"fmt"
	"math/rand"
	"os"
	"runtime/debug"
	"sort"
	"testing"
	"time"

	appsv1 "k8s.io/api/apps/v1"
	corev1 "k8s.io/api/core/v1"
	policy "k8s.io/api/policy/v1"
	metav1 "k8s.io/apimachinery/pkg/apis/meta/v1"
	"k8s.io/apimachinery/pkg/runtime"
	"k8s.io/apimachinery/pkg/types"
	"k8s.io/apimachinery/pkg/util/intstr"
	"k8s.io/client-go/informers"
	clientset "k8s.io/client-go/kubernetes"
	kubefake "k8s.io/client-go/kubernetes/fake"
	clientgoscheme "k8s.io/client-go/kubernetes/scheme"
	coretesting "k8s.io/client-go/testing"
	"k8s.io/client-go/tools/events"
	"k8s.io/client-go/util/workqueue"
	"k8s.io/klog/v2"
	"k8s.io/utils/clock"
	"sigs.k8s.io/controller-runtime/pkg/client"
	"sigs.k8s.io/controller-runtime/pkg/client/fake"
	"sigs.k8s.io/controller-runtime/pkg/event"
	"sigs.k8s.io/controller-runtime/pkg/reconcile"

	"github.com/koordinator-sh/koordinator/apis/scheduling/v1alpha1"
	deschedulerconfig "github.com/koordinator-sh/koordinator/pkg/descheduler/apis/config"
	"github.com/koordinator-sh/koordinator/pkg/descheduler/controllers/migration/controllerfinder"
	"github.com/koordinator-sh/koordinator/pkg/descheduler/fieldindex"
	"github.com/koordinator-sh/koordinator/pkg/descheduler/framework"
	"github.com/koordinator-sh/koordinator/pkg/descheduler/utils/sorter"
	koordutil "github.com/koordinator-sh/koordinator/pkg/util"
)

// C16 stream arbitration: the real arbitratorImpl (doOnceArbitrate, Filter, the event handler)
// with the real filter built by filter.initFilters, the four real sort functions of New(), on the
// controller-runtime fake client with the five production field indexes registered, and the REAL
// controllerfinder.ControllerFinder on that client (ReplicaSet objects carry the replica counts; for
// owner kind Job, which the real finder can only resolve through the scale client, the wrapper below
// uses the real ListPodsByWorkloads with the caller's `active` flag). Only the framework handle is a fake.
//
// input :  16 (stream tag)  maxGlobal maxNode maxNs mmKind mmVal muKind muVal skipExpected
//          P (ns node wl prio ptime ready forbid state)*P   W (replicas isJobKind)*W   J (pod time)*J
//          K (op a b)*K
//   kinds: 0 nil, 1 int, 2 percent.  pod ids 1..P, workload ids 1..W (0 none), job ids 1..J
//   ops:   1 Add j        create PodMigrationJob j in the API + Create event
//          2 Round f      doOnceArbitrate; client.Update of job f fails during this round (0 none)
//          3 SetPhase j p status update in the API (1 Running 2 Succeeded 3 Failed 4 Aborted) + Update event
//          4 Delete j     delete in the API + Delete event
//          5 SetReady p b
//          6 DeletePod p
//          7 Filter p     arbitrator.Filter(pod)
//          8 Evict j      arbitrator.Filter(pod of j); if true, Add j  (what Reconciler.Evict does)
//          9 SetPodState p v   1: delete the pod (it stays, terminating, held by a finalizer);
//                              2 / 3: phase Failed / Succeeded; 0: phase Running
//         10 Restart          a fresh arbitratorImpl + filter (empty waiting collection and arbitrated
//                              map); the informer's initial list is replayed as Create events
//   pod state (initial): 0 running, 1 terminating, 2 Failed, 3 Succeeded
// observable per op:  for every job 1..J (phase|-1 if not in the API, passed annotation, in
//          waitingCollection, in arbitrated map), then the Filter result (-1 when not a Filter/Evict op)

type vtC16Handle struct {
	framework.Handle
	cs  clientset.Interface
	inf informers.SharedInformerFactory
}

func (h *vtC16Handle) ClientSet() clientset.Interface                          { return h.cs }
func (h *vtC16Handle) EventRecorder() events.EventRecorder                     { return &events.FakeRecorder{} }
func (h *vtC16Handle) SharedInformerFactory() informers.SharedInformerFactory { return h.inf }
func (h *vtC16Handle) Evictor() framework.Evictor                              { return nil }
func (h *vtC16Handle) GetPodsAssignedToNodeFunc() framework.GetPodsAssignedToNodeFunc {
	return func(string, framework.FilterFunc) ([]*corev1.Pod, error) { return nil, nil }
}

// IsWatchListSemanticsUnSupported: see the note in loadaware/low_node_load_test.go.
func (h *vtC16Handle) IsWatchListSemanticsUnSupported() bool { return true }

func vtC16Discovery(fk *coretesting.Fake) {
	fk.AddReactor("get", "group", func(action coretesting.Action) (bool, runtime.Object, error) {
		fk.Resources = []*metav1.APIResourceList{{
			GroupVersion: policy.SchemeGroupVersion.String(),
			APIResources: []metav1.APIResource{{Name: koordutil.EvictionSubResourceName, Kind: koordutil.EvictionKind}},
		}}
		return true, nil, nil
	})
	fk.AddReactor("get", "resource", func(action coretesting.Action) (bool, runtime.Object, error) {
		fk.Resources = []*metav1.APIResourceList{{
			GroupVersion: "v1",
			APIResources: []metav1.APIResource{{Name: koordutil.EvictionSubResourceName, Kind: koordutil.EvictionKind}},
		}}
		return true, nil, nil
	})
}

// the real ControllerFinder; owner kind Job goes through the real ListPodsByWorkloads (same `active`
// semantics) with the replica count of the input, because resolving it needs the scale client
type vtC16Finder struct {
	real     *controllerfinder.ControllerFinder
	replicas map[types.UID]int32
}

func (f *vtC16Finder) ListPodsByWorkloads(workloadUIDs []types.UID, ns string, labelSelector *metav1.LabelSelector, active bool) ([]*corev1.Pod, error) {
	return f.real.ListPodsByWorkloads(workloadUIDs, ns, labelSelector, active)
}

func (f *vtC16Finder) GetPodsForRef(ref *metav1.OwnerReference, ns string, labelSelector *metav1.LabelSelector, active bool) ([]*corev1.Pod, int32, error) {
	if ref.Kind == JobKind {
		pods, err := f.real.ListPodsByWorkloads([]types.UID{ref.UID}, ns, labelSelector, active)
		return pods, f.replicas[ref.UID], err
	}
	return f.real.GetPodsForRef(ref, ns, labelSelector, active)
}

func (f *vtC16Finder) GetExpectedScaleForPod(pod *corev1.Pod) (int32, error) {
	return f.real.GetExpectedScaleForPod(pod)
}

// fails client.Update for the chosen job names (the arbitrator's updatePassedJob)
type vtC16FailClient struct {
	client.Client
	fail map[string]bool
}

func (c *vtC16FailClient) Update(ctx context.Context, obj client.Object, opts ...client.UpdateOption) error {
	if c.fail[obj.GetName()] {
		return fmt.Errorf("injected update failure")
	}
	return c.Client.Update(ctx, obj, opts...)
}

func vtC16IntOrPct(kind, val int64) *intstr.IntOrString {
	switch kind {
	case 1:
		v := intstr.FromInt(int(val))
		return &v
	case 2:
		v := intstr.FromString(fmt.Sprintf("%d%%", val))
		return &v
	}
	return nil
}

func vtC16Int32(v int64) *int32 {
	if v < 0 {
		return nil
	}
	x := int32(v)
	return &x
}

var vtC16Base = time.Date(2024, 1, 1, 0, 0, 0, 0, time.UTC)

func vtC16ArbExec(in []int64) []int64 {
	if os.Getenv("VERIF_DEBUG") != "" {
		defer func() {
			if e := recover(); e != nil {
				fmt.Fprintf(os.Stderr, "verif harness panic: %v\n%s\n", e, debug.Stack())
				panic(e)
			}
		}()
	}
	if len(in) == 0 || in[0] != 16 {
		return []int64{} // not an input of this stream (e.g. a replay file of another C16 stream)
	}
	pos := 1
	next := func() int64 { v := in[pos]; pos++; return v }
	maxG, maxNode, maxNs := next(), next(), next()
	mmKind, mmVal, muKind, muVal, skipExp := next(), next(), next(), next(), next()
	np := int(next())
	type podT struct{ ns, node, wl, prio, ptime, ready, forbid, state int64 }
	podsIn := make([]podT, np+1)
	for i := 1; i <= np; i++ {
		podsIn[i] = podT{next(), next(), next(), next(), next(), next(), next(), next()}
	}
	nw := int(next())
	type wlT struct{ replicas, isjob int64 }
	wls := make([]wlT, nw+1)
	for i := 1; i <= nw; i++ {
		wls[i] = wlT{next(), next()}
	}
	nj := int(next())
	type jobT struct{ pod, time int64 }
	jobsIn := make([]jobT, nj+1)
	for i := 1; i <= nj; i++ {
		jobsIn[i] = jobT{next(), next()}
	}
	nk := int(next())

	scheme := runtime.NewScheme()
	_ = v1alpha1.AddToScheme(scheme)
	_ = clientgoscheme.AddToScheme(scheme)
	podRefOf := func(obj client.Object) *corev1.ObjectReference {
		if job, ok := obj.(*v1alpha1.PodMigrationJob); ok {
			return job.Spec.PodRef
		}
		return nil
	}
	// the five field indexes of pkg/descheduler/fieldindex (registered on the manager's cache in production)
	base := fake.NewClientBuilder().WithScheme(scheme).WithStatusSubresource(&v1alpha1.PodMigrationJob{}).
		WithIndex(&corev1.Pod{}, fieldindex.IndexPodByNodeName, func(obj client.Object) []string {
			if pod, ok := obj.(*corev1.Pod); ok && pod.Spec.NodeName != "" {
				return []string{pod.Spec.NodeName}
			}
			return []string{}
		}).
		WithIndex(&corev1.Pod{}, fieldindex.IndexPodByOwnerRefUID, func(obj client.Object) []string {
			owners := []string{}
			for _, ref := range obj.GetOwnerReferences() {
				owners = append(owners, string(ref.UID))
			}
			return owners
		}).
		WithIndex(&v1alpha1.PodMigrationJob{}, fieldindex.IndexJobByPodUID, func(obj client.Object) []string {
			if ref := podRefOf(obj); ref != nil {
				return []string{string(ref.UID)}
			}
			return []string{}
		}).
		WithIndex(&v1alpha1.PodMigrationJob{}, fieldindex.IndexJobPodNamespacedName, func(obj client.Object) []string {
			if ref := podRefOf(obj); ref != nil {
				return []string{fmt.Sprintf("%s/%s", ref.Namespace, ref.Name)}
			}
			return []string{}
		}).
		WithIndex(&v1alpha1.PodMigrationJob{}, fieldindex.IndexJobByPodNamespace, func(obj client.Object) []string {
			if ref := podRefOf(obj); ref != nil {
				return []string{ref.Namespace}
			}
			return []string{}
		}).
		Build()
	fc := &vtC16FailClient{Client: base, fail: map[string]bool{}}
	ctx := context.TODO()

	podName := func(i int) string { return fmt.Sprintf("p%02d", i) }
	nsName := func(k int64) string { return fmt.Sprintf("s%02d", k) }
	jobName := func(i int) string { return fmt.Sprintf("j%02d", i) }
	jobUID := func(i int) types.UID { return types.UID(fmt.Sprintf("uj%02d", i)) }
	mkPod := func(i int) *corev1.Pod {
		p := podsIn[i]
		prio := int32(p.prio)
		pod := &corev1.Pod{
			TypeMeta: metav1.TypeMeta{Kind: "Pod", APIVersion: "v1"},
			ObjectMeta: metav1.ObjectMeta{
				Name: podName(i), Namespace: nsName(p.ns), UID: types.UID(fmt.Sprintf("up%02d", i)),
				Annotations:       map[string]string{},
				Finalizers:        []string{"verif.koordinator.sh/hold"}, // keeps a deleted pod around as terminating
				CreationTimestamp: metav1.Time{Time: vtC16Base.Add(time.Duration(p.ptime) * time.Second)},
			},
			Spec:   corev1.PodSpec{Priority: &prio},
			Status: corev1.PodStatus{Phase: corev1.PodRunning},
		}
		switch p.state {
		case 2:
			pod.Status.Phase = corev1.PodFailed
		case 3:
			pod.Status.Phase = corev1.PodSucceeded
		}
		if p.node != 0 {
			pod.Spec.NodeName = fmt.Sprintf("n%02d", p.node)
		}
		if p.wl != 0 {
			kind := "ReplicaSet"
			if wls[p.wl].isjob != 0 {
				kind = "Job"
			}
			ctrl := true
			pod.OwnerReferences = []metav1.OwnerReference{{
				APIVersion: "apps/v1", Kind: kind, Name: fmt.Sprintf("w%02d", p.wl),
				UID: types.UID(fmt.Sprintf("uw%02d", p.wl)), Controller: &ctrl,
			}}
		}
		if p.forbid != 0 {
			pod.Annotations[corev1.MirrorPodAnnotationKey] = "mirror"
		}
		st := corev1.ConditionFalse
		if p.ready != 0 {
			st = corev1.ConditionTrue
		}
		pod.Status.Conditions = []corev1.PodCondition{{Type: corev1.PodReady, Status: st}}
		return pod
	}
	nsSeen := map[int64]bool{}
	for i := 1; i <= np; i++ {
		pod := mkPod(i)
		if err := fc.Create(ctx, pod); err != nil {
			panic(err)
		}
		if podsIn[i].state == 1 {
			if err := fc.Delete(ctx, pod); err != nil {
				panic(err)
			}
		}
		nsSeen[podsIn[i].ns] = true
	}
	replicas := map[types.UID]int32{}
	for i := 1; i <= nw; i++ {
		uid := types.UID(fmt.Sprintf("uw%02d", i))
		replicas[uid] = int32(wls[i].replicas)
		if wls[i].isjob != 0 {
			continue
		}
		// the workload object the real finder reads the replica count from, in every namespace in use
		for ns := range nsSeen {
			rep := int32(wls[i].replicas)
			rs := &appsv1.ReplicaSet{
				TypeMeta:   metav1.TypeMeta{Kind: "ReplicaSet", APIVersion: "apps/v1"},
				ObjectMeta: metav1.ObjectMeta{Namespace: nsName(ns), Name: fmt.Sprintf("w%02d", i), UID: uid},
				Spec:       appsv1.ReplicaSetSpec{Replicas: &rep},
			}
			if err := fc.Create(ctx, rs); err != nil {
				panic(err)
			}
		}
	}

	skip := skipExp != 0
	args := &deschedulerconfig.MigrationControllerArgs{
		EvictAllBarePods:          true,
		MaxMigratingGlobally:      vtC16Int32(maxG),
		MaxMigratingPerNode:       vtC16Int32(maxNode),
		MaxMigratingPerNamespace:  vtC16Int32(maxNs),
		MaxMigratingPerWorkload:   vtC16IntOrPct(mmKind, mmVal),
		MaxUnavailablePerWorkload: vtC16IntOrPct(muKind, muVal),
		SkipCheckExpectedReplicas: &skip,
	}
	kc := kubefake.NewSimpleClientset()
	vtC16Discovery(&kc.Fake)
	handle := &vtC16Handle{cs: kc, inf: informers.NewSharedInformerFactory(kc, 0)}
	// one arbitrator instance, built the way New() builds it
	newInstance := func() (*filter, *arbitratorImpl) {
		nf := &filter{
			client:                     fc,
			clock:                      clock.RealClock{},
			args:                       args,
			controllerFinder:           &vtC16Finder{real: &controllerfinder.ControllerFinder{Client: fc}, replicas: replicas},
			arbitratedPodMigrationJobs: map[types.UID]bool{},
		}
		if err := nf.initFilters(args, handle); err != nil {
			panic(err)
		}
		na := &arbitratorImpl{
			waitingCollection: map[types.UID]*v1alpha1.PodMigrationJob{},
			sorts: []SortFn{
				SortJobsByCreationTime(),
				SortJobsByPod(sorter.PodSorter().Sort),
				SortJobsByController(),
				SortJobsByMigratingNum(fc),
			},
			filter:        nf,
			client:        fc,
			eventRecorder: &events.FakeRecorder{},
		}
		return nf, na
	}
	f, a := newInstance()
	h := NewHandler(a, fc)
	q := workqueue.NewTypedRateLimitingQueue(workqueue.DefaultTypedControllerRateLimiter[reconcile.Request]())
	defer q.ShutDown()

	created := make([]bool, nj+1)
	addJob := func(j int) {
		if created[j] {
			return
		}
		created[j] = true
		job := &v1alpha1.PodMigrationJob{
			ObjectMeta: metav1.ObjectMeta{
				Name: jobName(j), Namespace: "default", UID: jobUID(j),
				CreationTimestamp: metav1.Time{Time: vtC16Base.Add(time.Duration(jobsIn[j].time) * time.Second)},
			},
			Status: v1alpha1.PodMigrationJobStatus{Phase: v1alpha1.PodMigrationJobPending},
		}
		if pi := int(jobsIn[j].pod); pi >= 1 && pi <= np {
			p := mkPod(pi)
			job.Spec.PodRef = &corev1.ObjectReference{Kind: "Pod", APIVersion: "v1", Namespace: p.Namespace, Name: p.Name, UID: p.UID}
		}
		if err := fc.Create(ctx, job); err != nil {
			panic(err)
		}
		h.Create(ctx, event.TypedCreateEvent[client.Object]{Object: job}, q)
	}
	getJob := func(j int) *v1alpha1.PodMigrationJob {
		job := &v1alpha1.PodMigrationJob{}
		if err := fc.Get(ctx, types.NamespacedName{Namespace: "default", Name: jobName(j)}, job); err != nil {
			return nil
		}
		return job
	}
	getPod := func(i int) *corev1.Pod {
		if i < 1 || i > np {
			return nil
		}
		pod := &corev1.Pod{}
		if err := fc.Get(ctx, types.NamespacedName{Namespace: nsName(podsIn[i].ns), Name: podName(i)}, pod); err != nil {
			return nil
		}
		return pod
	}
	phases := map[int64]v1alpha1.PodMigrationJobPhase{
		1: v1alpha1.PodMigrationJobRunning, 2: v1alpha1.PodMigrationJobSucceeded,
		3: v1alpha1.PodMigrationJobFailed, 4: v1alpha1.PodMigrationJobAborted,
	}
	phaseCode := func(p v1alpha1.PodMigrationJobPhase) int64 {
		switch p {
		case "", v1alpha1.PodMigrationJobPending:
			return 0
		case v1alpha1.PodMigrationJobRunning:
			return 1
		case v1alpha1.PodMigrationJobSucceeded:
			return 2
		case v1alpha1.PodMigrationJobFailed:
			return 3
		case v1alpha1.PodMigrationJobAborted:
			return 4
		}
		return 9
	}

	obs := make([]int64, 0, nk*(4*nj+1))
	for k := 0; k < nk; k++ {
		op, x, y := next(), next(), next()
		res := int64(-1)
		switch op {
		case 1:
			if x >= 1 && int(x) <= nj {
				addJob(int(x))
			}
		case 2:
			if x >= 1 && int(x) <= nj {
				fc.fail[jobName(int(x))] = true
			}
			a.doOnceArbitrate()
			fc.fail = map[string]bool{}
		case 3:
			if x >= 1 && int(x) <= nj {
				if job := getJob(int(x)); job != nil {
					old := job.DeepCopy()
					job.Status.Phase = phases[y]
					if err := fc.Status().Update(ctx, job); err != nil {
						panic(err)
					}
					h.Update(ctx, event.TypedUpdateEvent[client.Object]{ObjectOld: old, ObjectNew: job}, q)
				}
			}
		case 4:
			if x >= 1 && int(x) <= nj {
				if job := getJob(int(x)); job != nil {
					if err := fc.Delete(ctx, job); err != nil {
						panic(err)
					}
					h.Delete(ctx, event.TypedDeleteEvent[client.Object]{Object: job}, q)
				}
			}
		case 5:
			if pod := getPod(int(x)); pod != nil {
				st := corev1.ConditionFalse
				if y != 0 {
					st = corev1.ConditionTrue
				}
				pod.Status.Conditions = []corev1.PodCondition{{Type: corev1.PodReady, Status: st}}
				if err := fc.Status().Update(ctx, pod); err != nil {
					panic(err)
				}
			}
		case 6:
			if pod := getPod(int(x)); pod != nil {
				terminating := pod.DeletionTimestamp != nil
				pod.Finalizers = nil
				if err := fc.Update(ctx, pod); err != nil { // a terminating pod disappears with its last finalizer
					panic(err)
				}
				if !terminating {
					if err := fc.Delete(ctx, pod); err != nil {
						panic(err)
					}
				}
			}
		case 9:
			if pod := getPod(int(x)); pod != nil {
				switch y {
				case 1:
					if pod.DeletionTimestamp == nil {
						if err := fc.Delete(ctx, pod); err != nil {
							panic(err)
						}
					}
				case 0, 2, 3:
					pod.Status.Phase = map[int64]corev1.PodPhase{0: corev1.PodRunning, 2: corev1.PodFailed, 3: corev1.PodSucceeded}[y]
					if err := fc.Status().Update(ctx, pod); err != nil {
						panic(err)
					}
				}
			}
		case 10:
			f, a = newInstance()
			h = NewHandler(a, fc)
			list := &v1alpha1.PodMigrationJobList{}
			if err := fc.List(ctx, list); err != nil {
				panic(err)
			}
			sort.Slice(list.Items, func(i, j int) bool { return list.Items[i].Name < list.Items[j].Name })
			for i := range list.Items {
				h.Create(ctx, event.TypedCreateEvent[client.Object]{Object: &list.Items[i]}, q)
			}
		case 7:
			if pod := getPod(int(x)); pod != nil {
				res = vtB(a.Filter(pod))
			}
		case 8:
			if x >= 1 && int(x) <= nj && !created[x] {
				if pod := getPod(int(jobsIn[x].pod)); pod != nil {
					ok := a.Filter(pod)
					res = vtB(ok)
					if ok {
						addJob(int(x))
					}
				}
			}
		}
		for j := 1; j <= nj; j++ {
			job := getJob(j)
			if job == nil {
				obs = append(obs, -1, 0)
			} else {
				obs = append(obs, phaseCode(job.Status.Phase), vtB(job.Annotations[AnnotationPassedArbitration] == "true"))
			}
			a.mu.Lock()
			_, waiting := a.waitingCollection[jobUID(j)]
			a.mu.Unlock()
			obs = append(obs, vtB(waiting), vtB(f.checkJobPassedArbitration(jobUID(j))))
		}
		obs = append(obs, res)
	}
	return obs
}

func vtC16ArbGen(r *rand.Rand, idx int) (string, []int64) {
	style := []string{"tight", "tight", "workload", "mixed", "mixed", "loose", "degenerate"}[r.Intn(7)]
	lim := func() int64 {
		switch style {
		case "loose":
			return []int64{-1, 0, 5}[r.Intn(3)]
		case "degenerate":
			return int64(r.Intn(3)) - 1
		case "workload":
			if r.Intn(3) != 0 {
				return -1
			}
		}
		return int64(1 + r.Intn(3))
	}
	iop := func() (int64, int64) {
		switch r.Intn(5) {
		case 0:
			return 0, 0
		case 1:
			return 2, []int64{0, 10, 25, 34, 50, 100}[r.Intn(6)]
		default:
			return 1, int64(r.Intn(4))
		}
	}
	mmK, mmV := iop()
	muK, muV := iop()
	in := []int64{16, lim(), lim(), lim(), mmK, mmV, muK, muV, vtB(r.Intn(3) != 0)}
	np := 2 + r.Intn(7)
	nw := r.Intn(4)
	nns := 1 + r.Intn(2)
	nnodes := 1 + r.Intn(3)
	wlNs := make([]int64, nw+1)
	for w := 1; w <= nw; w++ {
		wlNs[w] = int64(1 + r.Intn(nns))
	}
	in = append(in, int64(np))
	ptimes := r.Perm(np)
	if r.Intn(3) != 0 {
		// pods created in the same second (and of equal priority) tie in the pod sorter, so the
		// order of the earlier creation-time sort of the jobs shows through
		for i := range ptimes {
			ptimes[i] = r.Intn(2)
		}
	}
	for i := 1; i <= np; i++ {
		wl := int64(0)
		ns := int64(1 + r.Intn(nns))
		if nw > 0 && r.Intn(4) != 0 {
			wl = int64(1 + r.Intn(nw))
			if r.Intn(8) != 0 {
				ns = wlNs[wl] // pods of one workload normally share the namespace
			}
		}
		node := int64(1 + r.Intn(nnodes))
		if r.Intn(10) == 0 {
			node = 0
		}
		state := int64(0)
		if r.Intn(8) == 0 {
			state = int64(1 + r.Intn(3))
		}
		in = append(in, ns, node, wl, int64(r.Intn(3)), int64(ptimes[i-1]), vtB(r.Intn(5) != 0), vtB(r.Intn(12) == 0), state)
	}
	in = append(in, int64(nw))
	for w := 1; w <= nw; w++ {
		rep := int64(r.Intn(7))
		if r.Intn(4) == 0 {
			rep = int64(10 + r.Intn(30))
		}
		in = append(in, rep, vtB(r.Intn(3) == 0))
	}
	nj := 1 + r.Intn(8)
	in = append(in, int64(nj))
	jtimes := r.Perm(nj)
	for j := 1; j <= nj; j++ {
		pod := int64(1 + r.Intn(np))
		if r.Intn(15) == 0 {
			pod = 0 // job without podRef
		}
		in = append(in, pod, int64(jtimes[j-1]))
	}
	// history: add most jobs, then rounds interleaved with completions and disturbances
	var ops [][3]int64
	for j := 1; j <= nj; j++ {
		switch r.Intn(6) {
		case 0:
		case 1:
			ops = append(ops, [3]int64{8, int64(j), 0})
		default:
			ops = append(ops, [3]int64{1, int64(j), 0})
		}
	}
	r.Shuffle(len(ops), func(a, b int) { ops[a], ops[b] = ops[b], ops[a] })
	// jobs that are already Running although this arbitrator never admitted them and they carry no
	// annotation (started by an older version / by hand): they must still count against every budget
	if r.Intn(3) == 0 {
		for k := 0; k < 1+r.Intn(2); k++ {
			j := int64(1 + r.Intn(nj))
			ops = append([][3]int64{{1, j, 0}, {3, j, 1}}, ops...)
		}
	}
	extra := 3 + r.Intn(8)
	for k := 0; k < extra; k++ {
		j := int64(1 + r.Intn(nj))
		p := int64(1 + r.Intn(np))
		switch r.Intn(15) {
		case 14:
			// restart / leader change, usually with a new job arriving right after it
			ops = append(ops, [3]int64{10, 0, 0})
			if r.Intn(2) == 0 {
				ops = append(ops, [3]int64{1, j, 0})
			}
			if r.Intn(2) == 0 {
				ops = append(ops, [3]int64{2, 0, 0}, [3]int64{1, int64(1 + r.Intn(nj)), 0})
			}
		case 12, 13:
			// a replica is torn down / fails between two rounds (e.g. the pod of a job that just completed)
			ops = append(ops, [3]int64{9, p, []int64{1, 1, 2, 3, 0}[r.Intn(5)]})
		case 0, 1, 2, 3:
			f := int64(0)
			if r.Intn(6) == 0 {
				f = j
			}
			ops = append(ops, [3]int64{2, f, 0})
		case 4, 5:
			ops = append(ops, [3]int64{3, j, int64(1 + r.Intn(4))})
		case 6:
			ops = append(ops, [3]int64{4, j, 0})
		case 7:
			ops = append(ops, [3]int64{5, p, int64(r.Intn(2))})
		case 8:
			if r.Intn(3) == 0 {
				ops = append(ops, [3]int64{6, p, 0})
			} else {
				ops = append(ops, [3]int64{7, p, 0})
			}
		case 9:
			ops = append(ops, [3]int64{7, p, 0})
		case 10:
			ops = append(ops, [3]int64{8, j, 0})
		default:
			ops = append(ops, [3]int64{1, j, 0})
		}
	}
	ops = append(ops, [3]int64{2, 0, 0})
	in = append(in, int64(len(ops)))
	for _, o := range ops {
		in = append(in, o[0], o[1], o[2])
	}
	return style, in
}

type vtC16Discard struct{}

func (vtC16Discard) Write(p []byte) (int, error) { return len(p), nil }

func TestVerifC16Arbitration(t *testing.T) {
	klog.SetOutput(vtC16Discard{})
	klog.LogToStderr(false)
	vtMain(t, "C16", vtC16ArbGen, vtC16ArbExec)
}
