//go:build verif

package evictions

import (
	"context"
	"fmt"
	"math/rand"
	"testing"
	"time"

	corev1 "k8s.io/api/core/v1"
	policy "k8s.io/api/policy/v1"
	metav1 "k8s.io/apimachinery/pkg/apis/meta/v1"
	clientset "k8s.io/client-go/kubernetes"
	"k8s.io/client-go/kubernetes/fake"
	policyv1client "k8s.io/client-go/kubernetes/typed/policy/v1"
	"k8s.io/client-go/tools/events"
	"k8s.io/klog/v2"

	"github.com/koordinator-sh/koordinator/pkg/descheduler/framework"
)

// C16 stream podevictor: the real PodEvictor.Evict driven by one goroutine per request.
// The eviction API call is intercepted by a thin clientset wrapper (not by a reactor of the
// fake clientset, which would serialise under the Fake's mutex): a goroutine that reaches the
// API is recorded ("call received") and parked until the schedule releases it. A schedule step
// on thread i therefore means: not started -> run until parked in the API call or returned;
// parked -> release and run until returned; returned -> nothing.
//
// input :  lim dry capNode capNs capTotal N M  T (node ns ok)*T  S tid*S      (cap -1 = unset)
// observable per step:  api ret total NodeEvicted("" , n01..nN)  NamespaceEvicted(s01..sM)

type vtC16Ctl struct {
	arrive  []chan struct{}
	release []chan struct{}
	ok      []bool
}

type vtC16Client struct {
	clientset.Interface
	ctl *vtC16Ctl
}

func (c *vtC16Client) PolicyV1() policyv1client.PolicyV1Interface {
	return &vtC16Policy{PolicyV1Interface: c.Interface.PolicyV1(), ctl: c.ctl}
}

type vtC16Policy struct {
	policyv1client.PolicyV1Interface
	ctl *vtC16Ctl
}

func (p *vtC16Policy) Evictions(namespace string) policyv1client.EvictionInterface {
	return &vtC16Evictions{ctl: p.ctl}
}

type vtC16Evictions struct{ ctl *vtC16Ctl }

func (e *vtC16Evictions) Evict(ctx context.Context, eviction *policy.Eviction) error {
	var tid int
	if _, err := fmt.Sscanf(eviction.Name, "t%02d", &tid); err != nil {
		panic("verif harness: unexpected eviction name " + eviction.Name)
	}
	e.ctl.arrive[tid] <- struct{}{}
	<-e.ctl.release[tid]
	if e.ctl.ok[tid] {
		return nil
	}
	return fmt.Errorf("injected eviction failure")
}

func vtC16Cap(v int64) *uint {
	if v < 0 {
		return nil
	}
	u := uint(v)
	return &u
}

func vtC16Node(k int64) string {
	if k == 0 {
		return ""
	}
	return fmt.Sprintf("n%02d", k)
}

func vtC16PodEvictorExec(in []int64) []int64 {
	if len(in) < 9 || in[0] != 0 {
		return []int64{} // not an input of this stream (e.g. a replay file of another C16 stream)
	}
	dry, capNode, capNs := in[1] != 0, in[2], in[3]
	n, m, t := int(in[5]), int(in[6]), int(in[7])
	reqs := in[8 : 8+3*t]
	s := int(in[8+3*t])
	sched := in[9+3*t : 9+3*t+s]

	ctl := &vtC16Ctl{arrive: make([]chan struct{}, t), release: make([]chan struct{}, t), ok: make([]bool, t)}
	pods := make([]*corev1.Pod, t)
	done := make([]chan bool, t)
	for i := 0; i < t; i++ {
		ctl.arrive[i] = make(chan struct{}, 1)
		ctl.release[i] = make(chan struct{})
		ctl.ok[i] = reqs[3*i+2] != 0
		done[i] = make(chan bool, 1)
		pods[i] = &corev1.Pod{
			ObjectMeta: metav1.ObjectMeta{Namespace: fmt.Sprintf("s%02d", reqs[3*i+1]), Name: fmt.Sprintf("t%02d", i)},
			Spec:       corev1.PodSpec{NodeName: vtC16Node(reqs[3*i])},
		}
	}
	client := &vtC16Client{Interface: fake.NewSimpleClientset(), ctl: ctl}
	pe := NewPodEvictor(client, &events.FakeRecorder{}, "v1", dry, vtC16Cap(capNode), vtC16Cap(capNs))
	ctx := context.WithValue(context.TODO(), framework.EvictionPluginNameContextKey, "verif")

	const (
		stNew = iota
		stParked
		stDone
	)
	state := make([]int, t)
	obs := make([]int64, 0, s*(4+n+m))
	wait := func(i int) (api bool, ret int64) {
		select {
		case <-ctl.arrive[i]:
			state[i] = stParked
			return true, 0
		case r := <-done[i]:
			state[i] = stDone
			return false, 1 + vtB(r)
		case <-time.After(20 * time.Second):
			panic("verif harness: goroutine neither reached the API nor returned")
		}
	}
	for _, ti := range sched {
		i := int(ti)
		var api bool
		var ret int64
		if i >= 0 && i < t {
			switch state[i] {
			case stNew:
				go func() { done[i] <- pe.Evict(ctx, pods[i], framework.EvictOptions{Reason: "verif"}) }()
				api, ret = wait(i)
			case stParked:
				close(ctl.release[i])
				_, ret = wait(i)
			}
		}
		obs = append(obs, vtB(api), ret, int64(pe.TotalEvicted()))
		for k := 0; k <= n; k++ {
			obs = append(obs, int64(pe.NodeEvicted(vtC16Node(int64(k)))))
		}
		for k := 1; k <= m; k++ {
			obs = append(obs, int64(pe.NamespaceEvicted(fmt.Sprintf("s%02d", k))))
		}
	}
	// let the goroutines that are still parked finish (their effects are after the last observation)
	for i := 0; i < t; i++ {
		if state[i] == stParked {
			close(ctl.release[i])
			<-done[i]
		}
	}
	return obs
}

// vtC16EvictGen is shared in spirit with the limiter stream (same wire format, lim flag differs).
func vtC16EvictGen(r *rand.Rand, lim int64) (string, []int64) {
	style := []string{"sequential", "sequential", "interleaved", "interleaved", "burst", "partial", "stutter"}[r.Intn(7)]
	var t int
	switch r.Intn(4) {
	case 0:
		t = 1 + r.Intn(3)
	case 1:
		t = 2 + r.Intn(15) // 2..16
	default:
		t = 2 + r.Intn(6)
	}
	n, m := 1+r.Intn(3), 1+r.Intn(3)
	capv := func() int64 {
		switch r.Intn(6) {
		case 0, 1:
			return -1
		case 2:
			return 0
		default:
			return int64(1 + r.Intn(3))
		}
	}
	dry := vtB(r.Intn(8) == 0)
	in := []int64{lim, dry, capv(), capv(), capv(), int64(n), int64(m), int64(t)}
	pfail := r.Intn(4) // 0: never fails
	for i := 0; i < t; i++ {
		node := int64(r.Intn(n + 1))
		if r.Intn(3) != 0 && node == 0 {
			node = int64(1 + r.Intn(n))
		}
		ok := int64(1)
		if pfail > 0 && r.Intn(5) < pfail {
			ok = 0
		}
		in = append(in, node, int64(1+r.Intn(m)), ok)
	}
	var sched []int64
	order := r.Perm(t)
	switch style {
	case "sequential":
		for _, i := range order {
			sched = append(sched, int64(i), int64(i))
		}
	case "burst":
		for _, i := range order {
			sched = append(sched, int64(i))
		}
		for _, i := range r.Perm(t) {
			sched = append(sched, int64(i))
		}
	default:
		for _, i := range order {
			sched = append(sched, int64(i), int64(i))
		}
		r.Shuffle(len(sched), func(a, b int) { sched[a], sched[b] = sched[b], sched[a] })
		if style == "partial" {
			sched = sched[:len(sched)-r.Intn(len(sched)/2+1)]
		}
		if style == "stutter" {
			for k := 0; k < 3; k++ {
				sched = append(sched, int64(r.Intn(t+1))) // may name an unknown thread
			}
		}
	}
	in = append(in, int64(len(sched)))
	in = append(in, sched...)
	return style, in
}

func vtC16PodEvictorGen(r *rand.Rand, i int) (string, []int64) { return vtC16EvictGen(r, 0) }

func TestVerifC16PodEvictor(t *testing.T) {
	klog.SetOutput(vtC16Discard{})
	klog.LogToStderr(false)
	vtMain(t, "C16", vtC16PodEvictorGen, vtC16PodEvictorExec)
}

type vtC16Discard struct{}

func (vtC16Discard) Write(p []byte) (int, error) { return len(p), nil }
