//go:build verif

package runtime

import (
	"context"
	"fmt"
	"math/rand"
	"sync"
	"testing"
	"time"

	corev1 "k8s.io/api/core/v1"
	metav1 "k8s.io/apimachinery/pkg/apis/meta/v1"
	k8sruntime "k8s.io/apimachinery/pkg/runtime"
	"k8s.io/client-go/kubernetes/fake"
	coretesting "k8s.io/client-go/testing"
	"k8s.io/client-go/tools/events"
	"k8s.io/klog/v2"

	"github.com/koordinator-sh/koordinator/pkg/descheduler/evictions"
	"github.com/koordinator-sh/koordinator/pkg/descheduler/framework"
)

// C16 stream limiter: the real evictorProxy.Evict (obtained from frameworkImpl.Evictor()) over the
// real evictions.EvictionLimiter; the single evict plugin is a wrapper that parks the calling
// goroutine (it has passed AllowEvict and has not yet called Done) and, once released, delegates
// to a real cap-less evictions.PodEvictor on a fake clientset whose (non-blocking) reactor records
// the eviction request and injects the failure chosen by the input.
//
// input :  lim dry capNode capNs capTotal N M  T (node ns ok)*T  S tid*S      (cap -1 = unset)
// observable per step:  api ret total NodeEvicted("" , n01..nN)  NamespaceEvicted(s01..sM)

type vtC16LimPlugin struct {
	arrive  []chan struct{}
	release []chan struct{}
	inner   *evictions.PodEvictor
}

func (p *vtC16LimPlugin) Name() string { return "VerifParkingEvictor" }

func (p *vtC16LimPlugin) Evict(ctx context.Context, pod *corev1.Pod, opts framework.EvictOptions) bool {
	var tid int
	if _, err := fmt.Sscanf(pod.Name, "t%02d", &tid); err != nil {
		panic("verif harness: unexpected pod name " + pod.Name)
	}
	p.arrive[tid] <- struct{}{}
	<-p.release[tid]
	return p.inner.Evict(ctx, pod, opts)
}

func vtC16LCap(v int64) *uint {
	if v < 0 {
		return nil
	}
	u := uint(v)
	return &u
}

func vtC16LNode(k int64) string {
	if k == 0 {
		return ""
	}
	return fmt.Sprintf("n%02d", k)
}

func vtC16LimiterExec(in []int64) []int64 {
	if len(in) < 9 || in[0] != 1 {
		return []int64{} // not an input of this stream (e.g. a replay file of another C16 stream)
	}
	dry, capNode, capNs, capTotal := in[1] != 0, in[2], in[3], in[4]
	n, m, t := int(in[5]), int(in[6]), int(in[7])
	reqs := in[8 : 8+3*t]
	s := int(in[8+3*t])
	sched := in[9+3*t : 9+3*t+s]

	pl := &vtC16LimPlugin{arrive: make([]chan struct{}, t), release: make([]chan struct{}, t)}
	pods := make([]*corev1.Pod, t)
	done := make([]chan bool, t)
	okByName := map[string]bool{}
	for i := 0; i < t; i++ {
		pl.arrive[i] = make(chan struct{}, 1)
		pl.release[i] = make(chan struct{})
		done[i] = make(chan bool, 1)
		pods[i] = &corev1.Pod{
			ObjectMeta: metav1.ObjectMeta{Namespace: fmt.Sprintf("s%02d", reqs[3*i+1]), Name: fmt.Sprintf("t%02d", i)},
			Spec:       corev1.PodSpec{NodeName: vtC16LNode(reqs[3*i])},
		}
		okByName[pods[i].Name] = reqs[3*i+2] != 0
	}
	var mu sync.Mutex
	apiCalls := 0
	cs := fake.NewSimpleClientset()
	cs.PrependReactor("create", "pods", func(action coretesting.Action) (bool, k8sruntime.Object, error) {
		if action.GetSubresource() != "eviction" {
			return false, nil, nil
		}
		ca := action.(coretesting.CreateAction)
		name := ca.GetObject().(metav1.Object).GetName()
		mu.Lock()
		apiCalls++
		mu.Unlock()
		if okByName[name] {
			return true, nil, nil
		}
		return true, nil, fmt.Errorf("injected eviction failure")
	})
	pl.inner = evictions.NewPodEvictor(cs, &events.FakeRecorder{}, "v1", false, nil, nil)
	limiter := evictions.NewEvictionLimiter(vtC16LCap(capNode), vtC16LCap(capNs), vtC16LCap(capTotal))
	fw := &frameworkImpl{dryRun: dry, evictionLimiter: limiter, evictPlugins: []framework.EvictPlugin{pl}}
	evictor := fw.Evictor()
	ctx := context.WithValue(context.TODO(), framework.EvictionPluginNameContextKey, "verif")

	const (
		stNew = iota
		stParked
		stDone
	)
	state := make([]int, t)
	obs := make([]int64, 0, s*(4+n+m))
	wait := func(i int) (ret int64) {
		select {
		case <-pl.arrive[i]:
			state[i] = stParked
			return 0
		case r := <-done[i]:
			state[i] = stDone
			return 1 + vtB(r)
		case <-time.After(20 * time.Second):
			panic("verif harness: goroutine neither reached the evict plugin nor returned")
		}
	}
	for _, ti := range sched {
		i := int(ti)
		var ret int64
		mu.Lock()
		before := apiCalls
		mu.Unlock()
		if i >= 0 && i < t {
			switch state[i] {
			case stNew:
				go func() { done[i] <- evictor.Evict(ctx, pods[i], framework.EvictOptions{Reason: "verif"}) }()
				ret = wait(i)
			case stParked:
				close(pl.release[i])
				ret = wait(i)
			}
		}
		mu.Lock()
		api := apiCalls != before
		mu.Unlock()
		obs = append(obs, vtB(api), ret, int64(limiter.TotalEvicted()))
		for k := 0; k <= n; k++ {
			obs = append(obs, int64(limiter.NodeEvicted(vtC16LNode(int64(k)))))
		}
		for k := 1; k <= m; k++ {
			obs = append(obs, int64(limiter.NamespaceEvicted(fmt.Sprintf("s%02d", k))))
		}
	}
	for i := 0; i < t; i++ {
		if state[i] == stParked {
			close(pl.release[i])
			<-done[i]
		}
	}
	return obs
}

func vtC16LimiterGen(r *rand.Rand, idx int) (string, []int64) {
	style := []string{"sequential", "sequential", "interleaved", "interleaved", "burst", "partial", "stutter"}[r.Intn(7)]
	var t int
	switch r.Intn(4) {
	case 0:
		t = 1 + r.Intn(3)
	case 1:
		t = 2 + r.Intn(15) // 2..16
	default:
		t = 2 + r.Intn(6)
	}
	n, m := 1+r.Intn(3), 1+r.Intn(3)
	capv := func() int64 {
		switch r.Intn(6) {
		case 0, 1:
			return -1
		case 2:
			return 0
		default:
			return int64(1 + r.Intn(3))
		}
	}
	dry := vtB(r.Intn(8) == 0)
	in := []int64{1, dry, capv(), capv(), capv(), int64(n), int64(m), int64(t)}
	pfail := r.Intn(4)
	for i := 0; i < t; i++ {
		node := int64(r.Intn(n + 1))
		if r.Intn(3) != 0 && node == 0 {
			node = int64(1 + r.Intn(n))
		}
		ok := int64(1)
		if pfail > 0 && r.Intn(5) < pfail {
			ok = 0
		}
		in = append(in, node, int64(1+r.Intn(m)), ok)
	}
	var sched []int64
	order := r.Perm(t)
	switch style {
	case "sequential":
		for _, i := range order {
			sched = append(sched, int64(i), int64(i))
		}
	case "burst":
		for _, i := range order {
			sched = append(sched, int64(i))
		}
		for _, i := range r.Perm(t) {
			sched = append(sched, int64(i))
		}
	default:
		for _, i := range order {
			sched = append(sched, int64(i), int64(i))
		}
		r.Shuffle(len(sched), func(a, b int) { sched[a], sched[b] = sched[b], sched[a] })
		if style == "partial" {
			sched = sched[:len(sched)-r.Intn(len(sched)/2+1)]
		}
		if style == "stutter" {
			for k := 0; k < 3; k++ {
				sched = append(sched, int64(r.Intn(t+1)))
			}
		}
	}
	in = append(in, int64(len(sched)))
	in = append(in, sched...)
	return style, in
}

type vtC16Discard struct{}

func (vtC16Discard) Write(p []byte) (int, error) { return len(p), nil }

func TestVerifC16Limiter(t *testing.T) {
	klog.SetOutput(vtC16Discard{})
	klog.LogToStderr(false)
	vtMain(t, "C16", vtC16LimiterGen, vtC16LimiterExec)
}
