//go:build verif

package cpusuppress

// C10 correspondence harness: drives the real calculateBESuppressCPU,
// calculateBESuppressCPUSetPolicy, adjustByCPUSet (incl. calcBECPUSet through the static
// kubelet policy path) and adjustByCfsQuota on flat-integer inputs and projects the
// observables coq/C10/Extract.v talks about. One stream, the first integer is the kind.
//
//  kind 1 budget : 1 cap alloc annoKind annoVal thr hasMin minPct nodeU pertKind pertIdx pertDelta
//                  P (lab kubeBE inMeta hasMetric useU)*P  H (qos base hasMetric useU)*H
//                  usages are in 1/64 core units (exact in float64); obs = [budget, budget of the
//                  perturbed input]
//  kind 2 pick   : 2 n P (cpu core socket node)*P                     obs = [len ids...]
//  kind 3 cpuset : 3 budgetMilli policy K old*K P (cpu core socket node)*P Q (lab k cpus*k)*Q
//                  resKind R res*R sysKind S sys*S
//                  obs = cpuset.cpus of besteffort dir, one pod dir, one container dir, each as
//                  [len ids...] in file order (ranges expanded, nothing de-duplicated)
//  kind 4 quota  : 4 budgetMilli capMilli curQuota                    obs = [cpu.cfs_quota_us]
//  kind 5 history: 5 capMilli initQuota N (op arg)*N on ONE CPUSuppress instance (one executor, one cache):
//                  op 1 quota round (adjustByCfsQuota(arg) + status "using", as suppressBECPU does), 2 recoverCFSQuotaIfNeed,
//                  3 somebody else writes arg into cpu.cfs_quota_us, 4 cpuset round adjustByCPUSet(arg)
//                  obs = cpu.cfs_quota_us after every step
//  kind 6 budget over a structured node object:
//                  6 cap hasAlloc alloc anState anPolicy hasRes resMicro cpusStyle K cpus*K
//                  thr hasMin minPct nodeU pertKind pertIdx pertDelta P pods H hosts   (pods/hosts as in kind 1)
//                  anState ones digit: 0 node.Annotations nil, 1 no reservation entry (tens 0: key absent, 1: ""),
//                  2 an entry that does not unmarshal (tens: 0 "{", 1 "null", 2 a JSON string, 3 bad quantity, 4 "[]"),
//                  3 a JSON object (tens 1: a memory amount beside the cpu amount);
//                  anPolicy 0 unset, 1 Default, 2 ReservedCPUsOnly, 3 another string; resMicro = resources.cpu in
//                  micro-CPU; cpusStyle 0..4 legal spellings of reservedCPUs, 5 not a cpu list.
//                  pertKind 5: applyPolicy becomes pertIdx; 6: allocatable shrinks by pertDelta.
//  kind 7 rounds : whole suppressBECPU rounds on ONE CPUSuppress instance, driven the way the plugin's Run loop drives
//                  them: node / pods / NodeSLO / topology from a states informer, usage from a REAL metric cache (TSDB
//                  in a temp dir, samples appended per round), cgroup files under a temp root.
//                  7 <node as in kind 6> thr hasMin minPct static sysKind S sys*S  K0 old*K0 initQuota  NP procs
//                  P (lab kubeBE hasMetric k cpus*k)*P  H (qos base hasMetric)*H
//                  N ops: 1 mode fail nodeU use*P use*H (mode 0 cpuset, 1 cfsQuota, 2 NodeSLO disables the feature;
//                  fail: the metric cache refuses queries; a negative use = that pod does not exist in this round) | 2 value (somebody else rewrites cpu.cfs_quota_us)
//                  obs after every step: cpuset.cpus of besteffort / pod / container dir as [len ids..], cpu.cfs_quota_us
//  (kind 1: the hundreds digit of annoKind is the applyPolicy; kind 3: the hundreds digit of resKind is the applyPolicy.)

import (
	"errors"
	"flag"
	"fmt"
	"io"
	"math/rand"
	"os"
	"path/filepath"
	"sort"
	"strconv"
	"strings"
	"testing"
	"time"

	topov1alpha1 "github.com/k8stopologyawareschedwg/noderesourcetopology-api/pkg/apis/topology/v1alpha1"
	corev1 "k8s.io/api/core/v1"
	"k8s.io/apimachinery/pkg/api/resource"
	metav1 "k8s.io/apimachinery/pkg/apis/meta/v1"
	"k8s.io/apimachinery/pkg/types"
	"k8s.io/klog/v2"

	apiext "github.com/koordinator-sh/koordinator/apis/extension"
	slov1alpha1 "github.com/koordinator-sh/koordinator/apis/slo/v1alpha1"
	"github.com/koordinator-sh/koordinator/pkg/koordlet/metriccache"
	maframework "github.com/koordinator-sh/koordinator/pkg/koordlet/metricsadvisor/framework"
	"github.com/koordinator-sh/koordinator/pkg/koordlet/qosmanager/framework"
	"github.com/koordinator-sh/koordinator/pkg/koordlet/statesinformer"
	koordletutil "github.com/koordinator-sh/koordinator/pkg/koordlet/util"
	"github.com/koordinator-sh/koordinator/pkg/koordlet/util/system"
	"github.com/koordinator-sh/koordinator/pkg/util/cpuset"
)

var vtC10T *testing.T

type vtC10SI struct {
	statesinformer.StatesInformer
	pods []*statesinformer.PodMeta
	topo *topov1alpha1.NodeResourceTopology
	node *corev1.Node
	slo  *slov1alpha1.NodeSLO
}

// vtC10RealMC is the real metric cache with a switch that makes it refuse queries.
type vtC10RealMC struct {
	metriccache.MetricCache
	fail bool
}

func (m *vtC10RealMC) Querier(start, end time.Time) (metriccache.Querier, error) {
	if m.fail {
		return nil, errors.New("metric cache unavailable")
	}
	return m.MetricCache.Querier(start, end)
}

func (s *vtC10SI) GetAllPods() []*statesinformer.PodMeta           { return s.pods }
func (s *vtC10SI) GetNodeTopo() *topov1alpha1.NodeResourceTopology { return s.topo }
func (s *vtC10SI) GetNode() *corev1.Node                           { return s.node }
func (s *vtC10SI) GetNodeSLO() *slov1alpha1.NodeSLO                { return s.slo }

type vtC10MC struct {
	metriccache.MetricCache
	info *metriccache.NodeCPUInfo
}

func (m *vtC10MC) Get(key interface{}) (interface{}, bool) {
	if key == metriccache.NodeCPUInfoKey {
		return m.info, true
	}
	return nil, false
}

var vtC10QoS = []string{"", "LSE", "LSR", "LS", "BE", "SYSTEM"}

func vtC10Lab(l int64) map[string]string {
	if l <= 0 || int(l) >= len(vtC10QoS) {
		return map[string]string{}
	}
	return map[string]string{apiext.LabelPodQoS: vtC10QoS[l]}
}

type vtC10Rd struct {
	in []int64
	p  int
}

func (d *vtC10Rd) next() int64 {
	if d.p >= len(d.in) {
		return 0
	}
	v := d.in[d.p]
	d.p++
	return v
}

func (d *vtC10Rd) list() []int64 {
	k := int(d.next())
	out := make([]int64, 0, k)
	for i := 0; i < k; i++ {
		out = append(out, d.next())
	}
	return out
}

func vtC10Procs(d *vtC10Rd) []koordletutil.ProcessorInfo {
	p := int(d.next())
	out := make([]koordletutil.ProcessorInfo, 0, p)
	for i := 0; i < p; i++ {
		out = append(out, koordletutil.ProcessorInfo{CPUID: int32(d.next()), CoreID: int32(d.next()),
			SocketID: int32(d.next()), NodeID: int32(d.next())})
	}
	return out
}

func vtC10SetStr(ids []int64) string {
	xs := make([]int, 0, len(ids))
	for _, x := range ids {
		xs = append(xs, int(x))
	}
	return cpuset.NewCPUSet(xs...).String()
}

// vtC10SetStrStyle renders a cpu set as one of several legal Linux cpu-list spellings of the same set:
// 0 canonical ("0-2,5"), 1 every cpu as a one-element range ("0-0,1-1,2-2,5-5"), 2 single cpus in the given
// (unsorted) order ("5,2,0,1"), 3 canonical ranges with singletons as "a-a" ("0-2,5-5"), 4 canonical plus a
// repeated / overlapping tail ("0-2,5,0,0-1").
func vtC10SetStrStyle(ids []int64, style int64) string {
	if len(ids) == 0 || style == 0 {
		return vtC10SetStr(ids)
	}
	sorted := append([]int64{}, ids...)
	sort.Slice(sorted, func(i, j int) bool { return sorted[i] < sorted[j] })
	parts := []string{}
	switch style {
	case 1:
		for _, x := range sorted {
			parts = append(parts, fmt.Sprintf("%d-%d", x, x))
		}
	case 2:
		for _, x := range ids {
			parts = append(parts, strconv.FormatInt(x, 10))
		}
	case 3:
		for _, part := range strings.Split(vtC10SetStr(ids), ",") {
			if !strings.Contains(part, "-") {
				part = part + "-" + part
			}
			parts = append(parts, part)
		}
	default:
		parts = append(parts, vtC10SetStr(ids), strconv.FormatInt(sorted[0], 10))
		if len(sorted) >= 2 && sorted[1] == sorted[0]+1 {
			parts = append(parts, fmt.Sprintf("%d-%d", sorted[0], sorted[1]))
		}
	}
	return strings.Join(parts, ",")
}

// vtC10ParseFile expands a cpuset.cpus string in file order without any normalisation.
func vtC10ParseFile(s string) []int64 {
	s = strings.TrimSpace(s)
	out := []int64{}
	if s == "" {
		return append([]int64{0}, out...)
	}
	for _, part := range strings.Split(s, ",") {
		b := strings.Split(part, "-")
		lo, err1 := strconv.ParseInt(b[0], 10, 64)
		hi := lo
		var err2 error
		if len(b) == 2 {
			hi, err2 = strconv.ParseInt(b[1], 10, 64)
		}
		if err1 != nil || err2 != nil || len(b) > 2 {
			return []int64{-1}
		}
		for x := lo; x <= hi; x++ {
			out = append(out, x)
		}
	}
	return append([]int64{int64(len(out))}, out...)
}

func vtC10NewSuppress(si statesinformer.StatesInformer, mc metriccache.MetricCache) (*CPUSuppress, chan struct{}) {
	r := newTestCPUSuppress(&framework.Options{
		StatesInformer:      si,
		MetricCache:         mc,
		Config:              framework.NewDefaultConfig(),
		MetricAdvisorConfig: maframework.NewDefaultConfig(),
	})
	stop := make(chan struct{})
	r.init(stop)
	return r, stop
}

// ---------------------------------------------------------------- kind 1: budget

var vtC10Policies = []string{"", "Default", "ReservedCPUsOnly", "BestGuess"}

func vtC10PolicyJSON(p int64) string {
	if p <= 0 || int(p) >= len(vtC10Policies) {
		return ""
	}
	return fmt.Sprintf(`,"applyPolicy":"%s"`, vtC10Policies[p])
}

// vtC10MicroStr renders a micro-CPU amount as a resource.Quantity string in the shortest of several spellings.
func vtC10MicroStr(u int64) string {
	switch {
	case u%1000000 == 0:
		return strconv.FormatInt(u/1000000, 10)
	case u > 0 && u%100000 == 0:
		return fmt.Sprintf("%d.%d", u/1000000, (u%1000000)/100000)
	case u%1000 == 0:
		return fmt.Sprintf("%dm", u/1000)
	}
	return fmt.Sprintf("%du", u)
}

type vtC10NodeSpec struct {
	capM                         int64
	hasAlloc                     bool
	allocM                       int64
	annotations                  map[string]string
	thr, hasMin, minPct          int64
	nodeU                        int64
	pertKind, pertIdx, pertDelta int64
	// for perturbation 5: the annotations with the other policy
	annotationsPert map[string]string
}

func vtC10Budget(d *vtC10Rd) []int64 {
	capM, allocM, annoKind, annoVal := d.next(), d.next(), d.next(), d.next()
	sp := &vtC10NodeSpec{capM: capM, hasAlloc: true, allocM: allocM}
	sp.thr, sp.hasMin, sp.minPct, sp.nodeU = d.next(), d.next(), d.next(), d.next()
	sp.pertKind, sp.pertIdx, sp.pertDelta = d.next(), d.next(), d.next()
	mk := func(pol int64) map[string]string {
		switch annoKind % 10 { // tens digit = spelling of the cpu list, hundreds digit = applyPolicy
		case 1:
			return map[string]string{apiext.AnnotationNodeReservation: fmt.Sprintf(`{"resources":{"cpu":"%dm"}%s}`, annoVal, vtC10PolicyJSON(pol))}
		case 2:
			ids := []int64{}
			for i := int64(0); i < annoVal; i++ {
				ids = append(ids, i)
			}
			return map[string]string{apiext.AnnotationNodeReservation: fmt.Sprintf(`{"reservedCPUs":"%s"%s}`, vtC10SetStrStyle(ids, (annoKind/10)%10), vtC10PolicyJSON(pol))}
		case 3:
			return map[string]string{"x": "y"}
		}
		return nil
	}
	sp.annotations = mk(annoKind / 100)
	sp.annotationsPert = mk(sp.pertIdx)
	return vtC10BudgetRun(d, sp)
}

// vtC10ReadAnno reads "anState anPolicy hasRes resMicro cpusStyle K cpus*K" and returns a function that renders the
// node's annotations for a given applyPolicy, the policy of the input, and the cpu list.
func vtC10ReadAnno(d *vtC10Rd) (func(pol int64) map[string]string, int64) {
	anState, anPolicy, hasRes, resMicro, cpusStyle := d.next(), d.next(), d.next(), d.next(), d.next()
	cpus := d.list()
	mk := func(pol int64) map[string]string {
		flavour := anState / 10
		switch anState % 10 {
		case 1:
			if flavour == 1 {
				return map[string]string{apiext.AnnotationNodeReservation: ""}
			}
			return map[string]string{"x": "y"}
		case 2:
			bad := []string{`{`, `null`, `"0-3"`, `{"resources":{"cpu":"four"}}`, `[]`}
			return map[string]string{apiext.AnnotationNodeReservation: bad[int(flavour)%len(bad)]}
		case 3:
			fields := []string{}
			if hasRes != 0 {
				mem := ""
				if flavour == 1 {
					mem = `,"memory":"1Gi"`
				}
				fields = append(fields, fmt.Sprintf(`"resources":{"cpu":"%s"%s}`, vtC10MicroStr(resMicro), mem))
			} else if flavour == 1 {
				fields = append(fields, `"resources":{"memory":"1Gi"}`)
			}
			if len(cpus) > 0 {
				str := vtC10SetStrStyle(cpus, cpusStyle%10)
				if cpusStyle%10 == 5 {
					str = vtC10SetStr(cpus) + ",x"
				}
				fields = append(fields, fmt.Sprintf(`"reservedCPUs":"%s"`, str))
			}
			if pj := vtC10PolicyJSON(pol); pj != "" {
				fields = append(fields, pj[1:])
			}
			return map[string]string{apiext.AnnotationNodeReservation: "{" + strings.Join(fields, ",") + "}"}
		}
		return nil
	}
	return mk, anPolicy
}

func vtC10Budget6(d *vtC10Rd) []int64 {
	sp := &vtC10NodeSpec{}
	sp.capM = d.next()
	sp.hasAlloc = d.next() != 0
	sp.allocM = d.next()
	mk, anPolicy := vtC10ReadAnno(d)
	sp.thr, sp.hasMin, sp.minPct, sp.nodeU = d.next(), d.next(), d.next(), d.next()
	sp.pertKind, sp.pertIdx, sp.pertDelta = d.next(), d.next(), d.next()
	sp.annotations = mk(anPolicy)
	sp.annotationsPert = mk(sp.pertIdx)
	return vtC10BudgetRun(d, sp)
}

// vtC10BudgetRun reads the pods / host applications and runs calculateBESuppressCPU on the input and on the
// perturbed input.
func vtC10BudgetRun(d *vtC10Rd, sp *vtC10NodeSpec) []int64 {
	capM, thr, hasMin, minPct, nodeU := sp.capM, sp.thr, sp.hasMin, sp.minPct, sp.nodeU
	pertKind, pertIdx, pertDelta := sp.pertKind, sp.pertIdx, sp.pertDelta
	type podRec struct{ lab, kubeBE, inMeta, hasMetric, use int64 }
	type hostRec struct{ qos, base, hasMetric, use int64 }
	np := int(d.next())
	pods := make([]podRec, 0, np)
	for i := 0; i < np; i++ {
		pods = append(pods, podRec{d.next(), d.next(), d.next(), d.next(), d.next()})
	}
	nh := int(d.next())
	hosts := make([]hostRec, 0, nh)
	for i := 0; i < nh; i++ {
		hosts = append(hosts, hostRec{d.next(), d.next(), d.next(), d.next()})
	}

	mkNode := func(pert bool) *corev1.Node {
		node := &corev1.Node{
			ObjectMeta: metav1.ObjectMeta{Name: "n0"},
			Status: corev1.NodeStatus{
				Capacity:    corev1.ResourceList{corev1.ResourceCPU: *resource.NewMilliQuantity(capM, resource.DecimalSI)},
				Allocatable: corev1.ResourceList{corev1.ResourceMemory: resource.MustParse("8Gi")},
			},
		}
		if sp.hasAlloc {
			a := sp.allocM
			if pert && pertKind == 6 {
				a -= pertDelta
			}
			node.Status.Allocatable[corev1.ResourceCPU] = *resource.NewMilliQuantity(a, resource.DecimalSI)
		}
		node.Annotations = sp.annotations
		if pert && pertKind == 5 {
			node.Annotations = sp.annotationsPert
		}
		return node
	}
	var minP *int64
	if hasMin != 0 {
		m := minPct
		minP = &m
	}
	r := newTestCPUSuppress(&framework.Options{Config: framework.NewDefaultConfig(), MetricAdvisorConfig: maframework.NewDefaultConfig()})

	run := func(pert bool) int64 {
		node := mkNode(pert)
		nodeUse := nodeU
		var metas []*statesinformer.PodMeta
		podMetrics := map[string]float64{}
		for i, p := range pods {
			use := p.use
			if pert && (pertKind == 1 || pertKind == 4) && int64(i) == pertIdx {
				use += pertDelta
				if pertKind == 1 && p.hasMetric != 0 {
					nodeUse += pertDelta
				}
			}
			uid := fmt.Sprintf("p%02d", i)
			pod := &corev1.Pod{
				ObjectMeta: metav1.ObjectMeta{Namespace: "ns", Name: uid, UID: types.UID(uid), Labels: vtC10Lab(p.lab)},
				Spec:       corev1.PodSpec{Containers: []corev1.Container{{Name: "c"}}},
			}
			if p.kubeBE == 0 {
				pod.Spec.Containers[0].Resources.Requests = corev1.ResourceList{corev1.ResourceCPU: resource.MustParse("100m")}
			}
			if p.inMeta != 0 {
				metas = append(metas, &statesinformer.PodMeta{Pod: pod})
			}
			if p.hasMetric != 0 {
				podMetrics[uid] = float64(use) / 64
			}
		}
		var apps []slov1alpha1.HostApplicationSpec
		appMetrics := map[string]float64{}
		for i, h := range hosts {
			use := h.use
			if pert && pertKind == 2 && int64(i) == pertIdx {
				use += pertDelta
				if h.hasMetric != 0 {
					nodeUse += pertDelta
				}
			}
			name := fmt.Sprintf("h%02d", i)
			app := slov1alpha1.HostApplicationSpec{Name: name}
			if h.qos > 0 && int(h.qos) < len(vtC10QoS) {
				app.QoS = apiext.QoSClass(vtC10QoS[h.qos])
			}
			switch h.base {
			case 1:
				app.CgroupPath = &slov1alpha1.CgroupPath{Base: slov1alpha1.CgroupBaseTypeKubeBesteffort}
			case 2:
				app.CgroupPath = &slov1alpha1.CgroupPath{Base: slov1alpha1.CgroupBaseTypeKubepods}
			}
			apps = append(apps, app)
			if h.hasMetric != 0 {
				appMetrics[name] = float64(use) / 64
			}
		}
		if pert && pertKind == 3 {
			nodeUse += pertDelta
		}
		q := r.calculateBESuppressCPU(node, float64(nodeUse)/64, podMetrics, metas, apps, appMetrics, thr, minP)
		return q.MilliValue()
	}
	return []int64{run(false), run(true)}
}

// ---------------------------------------------------------------- kind 2: pick

func vtC10Pick(d *vtC10Rd) []int64 {
	n := d.next()
	procs := vtC10Procs(d)
	got := calculateBESuppressCPUSetPolicy(int32(n), procs)
	out := []int64{int64(len(got))}
	for _, c := range got {
		out = append(out, int64(c))
	}
	return out
}

// ---------------------------------------------------------------- kind 3: cpuset end to end

func vtC10CPUSet(d *vtC10Rd) []int64 {
	budget, policy := d.next(), d.next()
	old := d.list()
	procs := vtC10Procs(d)
	nq := int(d.next())
	var metas []*statesinformer.PodMeta
	for i := 0; i < nq; i++ {
		lab := d.next()
		cpus := d.list()
		uid := fmt.Sprintf("p%02d", i)
		pod := &corev1.Pod{ObjectMeta: metav1.ObjectMeta{Namespace: "ns", Name: uid, UID: types.UID(uid), Labels: vtC10Lab(lab % 10)}}
		if len(cpus) > 0 {
			pod.Annotations = map[string]string{apiext.AnnotationResourceStatus: fmt.Sprintf(`{"cpuset":"%s"}`, vtC10SetStrStyle(cpus, lab/10))}
		}
		metas = append(metas, &statesinformer.PodMeta{Pod: pod})
	}
	resKind := d.next()
	res := d.list()
	sysKind := d.next()
	sys := d.list()

	anno := map[string]string{}
	// the tens digit of resKind / sysKind / a pod's label code selects the spelling of the cpu list
	if resKind%10 == 1 { // hundreds digit: applyPolicy (plays no part in which cpus are reserved)
		anno[apiext.AnnotationNodeReservation] = fmt.Sprintf(`{"reservedCPUs":"%s"%s}`, vtC10SetStrStyle(res, (resKind/10)%10), vtC10PolicyJSON(resKind/100))
	}
	sysStr := vtC10SetStrStyle(sys, sysKind/10)
	switch sysKind % 10 {
	case 1:
		anno[apiext.AnnotationNodeSystemQOSResource] = fmt.Sprintf(`{"cpuset":"%s"}`, sysStr)
	case 2:
		anno[apiext.AnnotationNodeSystemQOSResource] = fmt.Sprintf(`{"cpuset":"%s","cpusetExclusive":true}`, sysStr)
	case 3:
		anno[apiext.AnnotationNodeSystemQOSResource] = fmt.Sprintf(`{"cpuset":"%s","cpusetExclusive":false}`, sysStr)
	}
	if policy == 1 {
		anno[apiext.AnnotationKubeletCPUManagerPolicy] = `{"policy":"static"}`
	}
	topo := &topov1alpha1.NodeResourceTopology{ObjectMeta: metav1.ObjectMeta{Name: "n0", Annotations: anno}}
	info := &metriccache.NodeCPUInfo{ProcessorInfos: procs}

	helper := system.NewFileTestUtil(vtC10T)
	defer helper.Cleanup()
	oldStr := vtC10SetStr(old)
	beDir := koordletutil.GetPodQoSRelativePath(corev1.PodQOSBestEffort)
	podDir := filepath.Join(beDir, "pod1")
	ctrDir := filepath.Join(beDir, "pod1", "ctr1")
	for _, dir := range []string{beDir, podDir, ctrDir} {
		helper.WriteCgroupFileContents(dir, system.CPUSet, oldStr)
	}

	r, stop := vtC10NewSuppress(&vtC10SI{pods: metas, topo: topo}, &vtC10MC{info: info})
	defer close(stop)
	r.adjustByCPUSet(resource.NewMilliQuantity(budget, resource.DecimalSI), info)

	out := []int64{}
	for _, dir := range []string{beDir, podDir, ctrDir} {
		out = append(out, vtC10ParseFile(helper.ReadCgroupFileContents(dir, system.CPUSet))...)
	}
	return out
}

// ---------------------------------------------------------------- kind 4: cfs quota

func vtC10Quota(d *vtC10Rd) []int64 {
	budget, capM, cur := d.next(), d.next(), d.next()
	node := &corev1.Node{
		ObjectMeta: metav1.ObjectMeta{Name: "n0"},
		Status:     corev1.NodeStatus{Capacity: corev1.ResourceList{corev1.ResourceCPU: *resource.NewMilliQuantity(capM, resource.DecimalSI)}},
	}
	helper := system.NewFileTestUtil(vtC10T)
	defer helper.Cleanup()
	beDir := koordletutil.GetPodQoSRelativePath(corev1.PodQOSBestEffort)
	helper.WriteCgroupFileContents(beDir, system.CPUCFSQuota, strconv.FormatInt(cur, 10))
	r, stop := vtC10NewSuppress(nil, nil)
	defer close(stop)
	r.adjustByCfsQuota(resource.NewMilliQuantity(budget, resource.DecimalSI), node)
	v, err := strconv.ParseInt(strings.TrimSpace(helper.ReadCgroupFileContents(beDir, system.CPUCFSQuota)), 10, 64)
	if err != nil {
		return []int64{-999999}
	}
	return []int64{v}
}

// ---------------------------------------------------------------- kind 5: quota mode over a history

func vtC10History(d *vtC10Rd) []int64 {
	capM, init := d.next(), d.next()
	n := int(d.next())
	node := &corev1.Node{
		ObjectMeta: metav1.ObjectMeta{Name: "n0"},
		Status:     corev1.NodeStatus{Capacity: corev1.ResourceList{corev1.ResourceCPU: *resource.NewMilliQuantity(capM, resource.DecimalSI)}},
	}
	helper := system.NewFileTestUtil(vtC10T)
	defer helper.Cleanup()
	beDir := koordletutil.GetPodQoSRelativePath(corev1.PodQOSBestEffort)
	helper.WriteCgroupFileContents(beDir, system.CPUCFSQuota, strconv.FormatInt(init, 10))
	helper.WriteCgroupFileContents(beDir, system.CPUSet, "0-3")
	info := &metriccache.NodeCPUInfo{ProcessorInfos: []koordletutil.ProcessorInfo{
		{CPUID: 0, CoreID: 0}, {CPUID: 1, CoreID: 0}, {CPUID: 2, CoreID: 1}, {CPUID: 3, CoreID: 1}}}
	topo := &topov1alpha1.NodeResourceTopology{ObjectMeta: metav1.ObjectMeta{Name: "n0"}}
	r, stop := vtC10NewSuppress(&vtC10SI{topo: topo}, &vtC10MC{info: info})
	defer close(stop)
	out := []int64{}
	for i := 0; i < n; i++ {
		op, arg := d.next(), d.next()
		switch op {
		case 1:
			r.adjustByCfsQuota(resource.NewMilliQuantity(arg, resource.DecimalSI), node)
			r.suppressPolicyStatuses[string(slov1alpha1.CPUCfsQuotaPolicy)] = policyUsing
		case 2:
			r.recoverCFSQuotaIfNeed()
		case 3:
			helper.WriteCgroupFileContents(beDir, system.CPUCFSQuota, strconv.FormatInt(arg, 10))
		default:
			r.adjustByCPUSet(resource.NewMilliQuantity(arg, resource.DecimalSI), info)
		}
		v, err := strconv.ParseInt(strings.TrimSpace(helper.ReadCgroupFileContents(beDir, system.CPUCFSQuota)), 10, 64)
		if err != nil {
			v = -999999
		}
		out = append(out, v)
	}
	return out
}

// ---------------------------------------------------------------- kind 7: whole rounds

func vtC10Rounds(d *vtC10Rd) []int64 {
	capM := d.next()
	hasAlloc := d.next() != 0
	allocM := d.next()
	mkAnno, anPolicy := vtC10ReadAnno(d)
	thr, hasMin, minPct, static := d.next(), d.next(), d.next(), d.next()
	sysKind := d.next()
	sys := d.list()
	old := d.list()
	initQuota := d.next()
	procs := vtC10Procs(d)
	type podRec struct {
		hasMetric bool
		uid       string
	}
	np := int(d.next())
	var metas []*statesinformer.PodMeta
	pods := []podRec{}
	for i := 0; i < np; i++ {
		lab, kubeBE, hasMetric := d.next(), d.next(), d.next()
		cpus := d.list()
		uid := fmt.Sprintf("p%02d", i)
		pod := &corev1.Pod{
			ObjectMeta: metav1.ObjectMeta{Namespace: "ns", Name: uid, UID: types.UID(uid), Labels: vtC10Lab(lab % 10)},
			Spec:       corev1.PodSpec{Containers: []corev1.Container{{Name: "c"}}},
		}
		if kubeBE == 0 {
			pod.Spec.Containers[0].Resources.Requests = corev1.ResourceList{corev1.ResourceCPU: resource.MustParse("100m")}
		}
		if len(cpus) > 0 {
			pod.Annotations = map[string]string{apiext.AnnotationResourceStatus: fmt.Sprintf(`{"cpuset":"%s"}`, vtC10SetStrStyle(cpus, lab/10))}
		}
		metas = append(metas, &statesinformer.PodMeta{Pod: pod})
		pods = append(pods, podRec{hasMetric != 0, uid})
	}
	type hostRec struct {
		hasMetric bool
		name      string
	}
	nh := int(d.next())
	var apps []slov1alpha1.HostApplicationSpec
	hosts := []hostRec{}
	for i := 0; i < nh; i++ {
		qos, base, hasMetric := d.next(), d.next(), d.next()
		name := fmt.Sprintf("h%02d", i)
		app := slov1alpha1.HostApplicationSpec{Name: name}
		if qos > 0 && int(qos) < len(vtC10QoS) {
			app.QoS = apiext.QoSClass(vtC10QoS[qos])
		}
		switch base {
		case 1:
			app.CgroupPath = &slov1alpha1.CgroupPath{Base: slov1alpha1.CgroupBaseTypeKubeBesteffort}
		case 2:
			app.CgroupPath = &slov1alpha1.CgroupPath{Base: slov1alpha1.CgroupBaseTypeKubepods}
		}
		apps = append(apps, app)
		hosts = append(hosts, hostRec{hasMetric != 0, name})
	}

	// the node object and the topology object carry the same reservation annotation
	node := &corev1.Node{
		ObjectMeta: metav1.ObjectMeta{Name: "n0", Annotations: mkAnno(anPolicy)},
		Status: corev1.NodeStatus{
			Capacity:    corev1.ResourceList{corev1.ResourceCPU: *resource.NewMilliQuantity(capM, resource.DecimalSI)},
			Allocatable: corev1.ResourceList{corev1.ResourceMemory: resource.MustParse("8Gi")},
		},
	}
	if hasAlloc {
		node.Status.Allocatable[corev1.ResourceCPU] = *resource.NewMilliQuantity(allocM, resource.DecimalSI)
	}
	topoAnno := map[string]string{}
	for k, v := range mkAnno(anPolicy) {
		topoAnno[k] = v
	}
	sysStr := vtC10SetStrStyle(sys, sysKind/10)
	switch sysKind % 10 {
	case 1:
		topoAnno[apiext.AnnotationNodeSystemQOSResource] = fmt.Sprintf(`{"cpuset":"%s"}`, sysStr)
	case 2:
		topoAnno[apiext.AnnotationNodeSystemQOSResource] = fmt.Sprintf(`{"cpuset":"%s","cpusetExclusive":true}`, sysStr)
	case 3:
		topoAnno[apiext.AnnotationNodeSystemQOSResource] = fmt.Sprintf(`{"cpuset":"%s","cpusetExclusive":false}`, sysStr)
	}
	if static != 0 {
		topoAnno[apiext.AnnotationKubeletCPUManagerPolicy] = `{"policy":"static"}`
	}
	topo := &topov1alpha1.NodeResourceTopology{ObjectMeta: metav1.ObjectMeta{Name: "n0", Annotations: topoAnno}}
	info := &metriccache.NodeCPUInfo{ProcessorInfos: procs}

	helper := system.NewFileTestUtil(vtC10T)
	defer helper.Cleanup()
	oldStr := vtC10SetStr(old)
	beDir := koordletutil.GetPodQoSRelativePath(corev1.PodQOSBestEffort)
	podDir := filepath.Join(beDir, "pod1")
	ctrDir := filepath.Join(beDir, "pod1", "ctr1")
	dirs := []string{beDir, podDir, ctrDir}
	for _, dir := range dirs {
		helper.WriteCgroupFileContents(dir, system.CPUSet, oldStr)
	}
	helper.WriteCgroupFileContents(beDir, system.CPUCFSQuota, strconv.FormatInt(initQuota, 10))

	// a real metric cache (TSDB) in its own directory
	tsdbDir, err := os.MkdirTemp("", "vtc10-tsdb-")
	if err != nil {
		return []int64{-888001}
	}
	defer os.RemoveAll(tsdbDir)
	mcCfg := metriccache.NewDefaultConfig()
	mcCfg.TSDBPath = tsdbDir
	mcCfg.TSDBEnablePromMetrics = false
	realMC, err := metriccache.NewMetricCache(mcCfg)
	if err != nil {
		return []int64{-888002}
	}
	defer realMC.Close()
	realMC.Set(metriccache.NodeCPUInfoKey, info)
	mc := &vtC10RealMC{MetricCache: realMC}

	si := &vtC10SI{pods: metas, topo: topo, node: node}
	maCfg := maframework.NewDefaultConfig()
	maCfg.CollectResUsedInterval = time.Hour // the "last" window is twice this: the samples below never fall out of it
	r := newTestCPUSuppress(&framework.Options{StatesInformer: si, MetricCache: mc, Config: framework.NewDefaultConfig(), MetricAdvisorConfig: maCfg})
	stop := make(chan struct{})
	r.init(stop)
	defer close(stop)

	var minP *int64
	if hasMin != 0 {
		m := minPct
		minP = &m
	}
	base := time.Now().Add(-time.Minute)
	out := []int64{}
	n := int(d.next())
	for step := 0; step < n; step++ {
		op := d.next()
		if op == 1 {
			mode, fail, nodeU := d.next(), d.next(), d.next()
			ts := base.Add(time.Duration(step+1) * time.Millisecond)
			samples := []metriccache.MetricSample{}
			if smp, err := metriccache.NodeCPUUsageMetric.GenerateSample(nil, ts, float64(nodeU)/64); err == nil {
				samples = append(samples, smp)
			}
			present := []*statesinformer.PodMeta{}
			for i, p := range pods {
				u := d.next()
				if u < 0 { // the pod does not exist in this round
					continue
				}
				present = append(present, metas[i])
				if p.hasMetric {
					if smp, err := metriccache.PodCPUUsageMetric.GenerateSample(metriccache.MetricPropertiesFunc.Pod(p.uid), ts, float64(u)/64); err == nil {
						samples = append(samples, smp)
					}
				}
			}
			for _, h := range hosts {
				u := d.next()
				if h.hasMetric {
					if smp, err := metriccache.HostAppCPUUsageMetric.GenerateSample(metriccache.MetricPropertiesFunc.HostApplication(h.name), ts, float64(u)/64); err == nil {
						samples = append(samples, smp)
					}
				}
			}
			app := realMC.Appender()
			if err := app.Append(samples); err != nil {
				return []int64{-888003}
			}
			if err := app.Commit(); err != nil {
				return []int64{-888004}
			}
			enable := mode != 2
			policy := slov1alpha1.CPUSetPolicy
			if mode == 1 {
				policy = slov1alpha1.CPUCfsQuotaPolicy
			}
			t := thr
			si.slo = &slov1alpha1.NodeSLO{Spec: slov1alpha1.NodeSLOSpec{
				ResourceUsedThresholdWithBE: &slov1alpha1.ResourceThresholdStrategy{
					Enable:                      &enable,
					CPUSuppressThresholdPercent: &t,
					CPUSuppressMinPercent:       minP,
					CPUSuppressPolicy:           policy,
				},
				HostApplications: apps,
			}}
			mc.fail = fail != 0
			si.pods = present
			r.suppressBECPU()
		} else {
			v := d.next()
			helper.WriteCgroupFileContents(beDir, system.CPUCFSQuota, strconv.FormatInt(v, 10))
		}
		for _, dir := range dirs {
			out = append(out, vtC10ParseFile(helper.ReadCgroupFileContents(dir, system.CPUSet))...)
		}
		q, err := strconv.ParseInt(strings.TrimSpace(helper.ReadCgroupFileContents(beDir, system.CPUCFSQuota)), 10, 64)
		if err != nil {
			q = -999999
		}
		out = append(out, q)
	}
	return out
}

func vtC10Exec(in []int64) []int64 {
	d := &vtC10Rd{in: in}
	switch d.next() {
	case 1:
		return vtC10Budget(d)
	case 2:
		return vtC10Pick(d)
	case 3:
		return vtC10CPUSet(d)
	case 4:
		return vtC10Quota(d)
	case 5:
		return vtC10History(d)
	case 6:
		return vtC10Budget6(d)
	case 7:
		return vtC10Rounds(d)
	}
	return []int64{-1}
}

// ---------------------------------------------------------------- generator

type vtC10Proc struct{ cpu, core, socket, node int64 }

// vtC10Topo draws a node topology of at most ~32 logical CPUs.
func vtC10Topo(r *rand.Rand) []vtC10Proc {
	if r.Intn(8) == 0 { // irregular: arbitrary core/socket/node per CPU
		n := r.Intn(13)
		ids := r.Perm(16)[:n]
		ps := []vtC10Proc{}
		for _, id := range ids {
			ps = append(ps, vtC10Proc{int64(id), int64(r.Intn(4)), int64(r.Intn(2)), int64(r.Intn(3))})
		}
		return ps
	}
	sockets := 1 + r.Intn(2)
	nodesPer := 1 + r.Intn(2)
	coresPer := 1 + r.Intn(4)
	threads := []int{1, 2, 2, 2, 3, 4}[r.Intn(6)]
	style := r.Intn(3) // 0: siblings adjacent, 1: linux style (sibling = id + ncores), 2: core ids restart per socket
	ncores := sockets * nodesPer * coresPer
	ps := []vtC10Proc{}
	core := 0
	for s := 0; s < sockets; s++ {
		for nd := 0; nd < nodesPer; nd++ {
			for c := 0; c < coresPer; c++ {
				for t := 0; t < threads; t++ {
					cpu := core*threads + t
					if style == 1 {
						cpu = t*ncores + core
					}
					cid := core
					if style == 2 {
						cid = nd*coresPer + c
					}
					ps = append(ps, vtC10Proc{int64(cpu), int64(cid), int64(s), int64(s*nodesPer + nd)})
				}
				core++
			}
		}
	}
	sort.Slice(ps, func(i, j int) bool { return ps[i].cpu < ps[j].cpu })
	if len(ps) > 32 {
		ps = ps[:32]
	}
	return ps
}

func vtC10EncProcs(ps []vtC10Proc) []int64 {
	out := []int64{int64(len(ps))}
	for _, p := range ps {
		out = append(out, p.cpu, p.core, p.socket, p.node)
	}
	return out
}

func vtC10Subset(r *rand.Rand, ids []int64, k int) []int64 {
	if k > len(ids) {
		k = len(ids)
	}
	perm := r.Perm(len(ids))
	out := []int64{}
	for _, i := range perm[:k] {
		out = append(out, ids[i])
	}
	return out
}

func vtC10EncList(xs []int64) []int64 { return append([]int64{int64(len(xs))}, xs...) }

func vtC10GenBudget(r *rand.Rand) (string, []int64) {
	label := "budget"
	caps := []int64{2000, 4000, 8000, 16000, 32000, 64000, 96000, 7900, 3500}
	capM := caps[r.Intn(len(caps))]
	var kubeRes int64
	switch r.Intn(5) {
	case 0:
		kubeRes = 0
	case 1:
		kubeRes = int64(r.Intn(40)) * 125
	case 2:
		kubeRes = int64(r.Intn(30)) * 100
	case 3:
		kubeRes = int64(r.Intn(4000))
		if kubeRes > capM {
			kubeRes = capM
		}
	default:
		kubeRes = -int64(r.Intn(500)) // allocatable above capacity: clamps to zero
	}
	allocM := capM - kubeRes
	annoKind := int64(r.Intn(4))
	var annoVal int64
	switch annoKind {
	case 1:
		annoVal = []int64{0, 500, 1000, 1500, 2000, int64(r.Intn(5000))}[r.Intn(6)]
	case 2:
		annoVal = int64(1 + r.Intn(4))
	}
	annoStyle := int64(0)
	if annoKind == 2 && r.Intn(2) == 0 {
		annoStyle = int64(1 + r.Intn(4))
	}
	thr := []int64{0, 50, 65, 70, 100, int64(r.Intn(121))}[r.Intn(6)]
	hasMin := int64(r.Intn(2))
	minPct := []int64{0, 5, 10, 25, 100, int64(r.Intn(60))}[r.Intn(6)]
	capU := capM * 64 / 1000
	use := func() int64 {
		switch r.Intn(5) {
		case 0:
			return 0
		case 1:
			return int64(r.Intn(8))
		default:
			return r.Int63n(capU/3 + 1)
		}
	}
	np := r.Intn(7)
	nh := r.Intn(4)
	var sum int64
	pods := []int64{int64(np)}
	for i := 0; i < np; i++ {
		lab := int64(r.Intn(6))
		kubeBE := vtB(r.Intn(3) == 0)
		inMeta := vtB(r.Intn(8) != 0)
		hasMetric := vtB(r.Intn(8) != 0)
		u := use()
		if hasMetric != 0 {
			sum += u
		}
		pods = append(pods, lab, kubeBE, inMeta, hasMetric, u)
	}
	hosts := []int64{int64(nh)}
	for i := 0; i < nh; i++ {
		qos := int64(r.Intn(6))
		if r.Intn(2) == 0 {
			qos = 4
		}
		base := int64(r.Intn(3))
		hasMetric := vtB(r.Intn(6) != 0)
		u := use()
		if hasMetric != 0 {
			sum += u
		}
		hosts = append(hosts, qos, base, hasMetric, u)
	}
	var nodeU int64
	switch r.Intn(5) {
	case 0:
		nodeU = sum // no system usage at all
	case 1:
		nodeU = sum - r.Int63n(sum+1) // metrics out of sync: node below the sum, clamps to zero
		label = "budget-degenerate"
	default:
		nodeU = sum + r.Int63n(capU/4+1)
	}
	pertKind := int64(r.Intn(5))
	var pertIdx int64
	if pertKind == 1 || pertKind == 4 {
		if np == 0 {
			pertKind = 3
		} else {
			pertIdx = int64(r.Intn(np))
		}
	}
	if pertKind == 2 {
		if nh == 0 {
			pertKind = 3
		} else {
			pertIdx = int64(r.Intn(nh))
		}
	}
	pertDelta := []int64{1, 1, 2, 7, 64, r.Int63n(capU/4 + 1)}[r.Intn(6)]
	// the reservation annotation's applyPolicy (hundreds digit) and the two perturbations about the reservation
	annoPolicy := int64(0)
	if (annoKind == 1 || annoKind == 2) && r.Intn(2) == 0 {
		annoPolicy = int64(1 + r.Intn(3))
	}
	switch r.Intn(8) {
	case 0, 1:
		pertKind, pertIdx = 5, int64(r.Intn(4))
	case 2:
		pertKind, pertIdx = 6, 0
		pertDelta = []int64{1, 125, 1000, int64(r.Intn(3000))}[r.Intn(4)]
	}
	in := []int64{1, capM, allocM, annoKind + 10*annoStyle + 100*annoPolicy, annoVal, thr, hasMin, minPct, nodeU, pertKind, pertIdx, pertDelta}
	in = append(in, pods...)
	in = append(in, hosts...)
	return label, in
}

// vtC10GenBudget6 draws a budget case over a structured node object: the consumption part comes from
// vtC10GenBudget, the node (allocatable present or not, reservation annotation with resources / reservedCPUs /
// applyPolicy in every combination, unreadable annotations) is drawn here.
func vtC10GenBudget6(r *rand.Rand) (string, []int64) {
	label, in := vtC10GenBudget(r)
	capM, allocM := in[1], in[2]
	tail := in[5:] // thr hasMin minPct nodeU pertKind pertIdx pertDelta P pods H hosts
	hasAlloc := vtB(r.Intn(12) != 0)
	var anState int64
	switch r.Intn(8) {
	case 0:
		anState = 0
	case 1:
		anState = 1 + 10*int64(r.Intn(2))
	case 2:
		anState = 2 + 10*int64(r.Intn(5))
		label += "-unreadable"
	default:
		anState = 3 + 10*int64(r.Intn(2))
	}
	anPolicy := int64(r.Intn(4))
	if r.Intn(3) == 0 {
		anPolicy = 2
	}
	hasRes := vtB(r.Intn(2) == 0)
	resMicro := []int64{0, 500000, 1000000, 1500000, 2000000, 4000000, 1500500, 999, -1000000, -2500,
		int64(r.Intn(6000)) * 1000, int64(r.Intn(6000000))}[r.Intn(12)]
	cpus := []int64{}
	switch r.Intn(3) {
	case 0:
		for i := int64(0); i < int64(1+r.Intn(6)); i++ {
			cpus = append(cpus, i)
		}
	case 1:
		all := []int64{}
		for i := int64(0); i < 16; i++ {
			all = append(all, i)
		}
		cpus = vtC10Subset(r, all, 1+r.Intn(6))
	}
	cpusStyle := int64(0)
	if r.Intn(2) == 0 {
		cpusStyle = int64(1 + r.Intn(4))
	}
	if len(cpus) > 0 && r.Intn(10) == 0 {
		cpusStyle = 5
		label += "-badcpus"
	}
	out := []int64{6, capM, hasAlloc, allocM, anState, anPolicy, hasRes, resMicro, cpusStyle}
	out = append(out, vtC10EncList(cpus)...)
	out = append(out, tail...)
	return label, out
}

func vtC10GenPick(r *rand.Rand) (string, []int64) {
	ps := vtC10Topo(r)
	label := "pick"
	if r.Intn(3) == 0 && len(ps) > 0 { // a pool after exclusions: random subset
		keep := 1 + r.Intn(len(ps))
		perm := r.Perm(len(ps))[:keep]
		sort.Ints(perm)
		q := []vtC10Proc{}
		for _, i := range perm {
			q = append(q, ps[i])
		}
		ps = q
		label = "pick-subset"
	}
	if r.Intn(4) == 0 {
		r.Shuffle(len(ps), func(i, j int) { ps[i], ps[j] = ps[j], ps[i] })
	}
	var n int64
	switch r.Intn(8) {
	case 0:
		n = int64(r.Intn(3)) - 1
		label = "pick-degenerate"
	case 1:
		n = int64(len(ps)) + int64(r.Intn(3))
		label = "pick-degenerate"
	case 2:
		n = int64(len(ps))
	default:
		n = int64(r.Intn(len(ps) + 1))
	}
	return label, append([]int64{2, n}, vtC10EncProcs(ps)...)
}

func vtC10GenCPUSet(r *rand.Rand) (string, []int64) {
	label := "cpuset"
	ps := vtC10Topo(r)
	ids := []int64{}
	for _, p := range ps {
		ids = append(ids, p.cpu)
	}
	n := len(ids)
	style := r.Intn(10) // 0: every CPU protected, 1: budget below two, 2: budget above the free CPUs
	free := append([]int64{}, ids...)
	take := func(k int) []int64 {
		if k > len(free) {
			k = len(free)
		}
		perm := r.Perm(len(free))
		got := []int64{}
		rest := []int64{}
		for j, i := range perm {
			if j < k {
				got = append(got, free[i])
			} else {
				rest = append(rest, free[i])
			}
		}
		free = rest
		return got
	}
	nq := r.Intn(5)
	pods := []int64{int64(nq)}
	for i := 0; i < nq; i++ {
		lab := int64(r.Intn(6))
		if r.Intn(2) == 0 {
			lab = int64(1 + r.Intn(2))
		}
		cp := take(r.Intn(4))
		pods = append(pods, lab)
		pods = append(pods, vtC10EncList(cp)...)
	}
	if nq >= 1 && r.Intn(14) == 0 && n > 0 {
		// inconsistent annotations: one more pod lists cpus that an earlier pod may already own
		// (a terminated pod whose annotation is still there); when the earlier one is LSE and the
		// later one is not, this is the known-finding shape sig=2
		label = "cpuset-overlap"
		pods[0]++
		pods = append(pods, int64(r.Intn(6)))
		pods = append(pods, vtC10EncList(vtC10Subset(r, ids, 1+r.Intn(3)))...)
	}
	resKind := int64(r.Intn(2))
	res := []int64{}
	if resKind == 1 {
		res = take(r.Intn(3))
		if r.Intn(6) == 0 {
			res = append(res, int64(40+r.Intn(3))) // a reserved id that is not a CPU of this node
		}
	}
	sysKind := int64(r.Intn(4))
	sys := []int64{}
	if sysKind != 0 {
		sys = take(r.Intn(3))
	}
	if style == 0 && n > 0 {
		label = "cpuset-allprotected"
		switch r.Intn(3) {
		case 0:
			resKind = 1
			res = append(res, free...)
		case 1:
			sysKind = int64(1 + r.Intn(2))
			sys = append(sys, free...)
		default:
			pods[0]++
			pods = append(pods, 1)
			pods = append(pods, vtC10EncList(free)...)
		}
		free = nil
	}
	var budget int64
	switch {
	case style == 1:
		label = "cpuset-budget-below-two"
		budget = int64(r.Intn(2600)) - 600
	case style == 2:
		label = "cpuset-budget-above-free"
		budget = int64(len(free))*1000 + 1 + int64(r.Intn(3000))
	default:
		budget = int64(r.Intn((n+2)*1000 + 1))
	}
	var old []int64
	switch r.Intn(6) {
	case 0:
		old = vtC10Subset(r, ids, 1)
	case 1:
		old = append([]int64{}, ids...)
	case 2:
		old = vtC10Subset(r, ids, n) // everything, shuffled
		if r.Intn(2) == 0 {
			old = append(old, int64(50+r.Intn(4)))
		}
	default:
		old = vtC10Subset(r, ids, 1+r.Intn(n+1))
	}
	if len(old) == 0 && r.Intn(3) != 0 {
		old = []int64{int64(r.Intn(4))}
	}
	policy := vtB(r.Intn(4) == 0)
	// spell some of the cpu lists in another legal form (same set): tens digit of the kind / label code
	sty := func() int64 {
		if r.Intn(5) < 3 {
			return 0
		}
		return int64(1 + r.Intn(4))
	}
	if resKind == 1 {
		resKind += 10 * sty()
		if r.Intn(2) == 0 {
			resKind += 100 * int64(1+r.Intn(3)) // applyPolicy of the reservation annotation
		}
	}
	if sysKind != 0 {
		sysKind += 10 * sty()
	}
	for j, q := 1, int64(0); q < pods[0]; q++ { // pods = Q (lab k cpus*k)*Q
		pods[j] += 10 * sty()
		j += 2 + int(pods[j+1])
	}
	in := []int64{3, budget, policy}
	in = append(in, vtC10EncList(old)...)
	in = append(in, vtC10EncProcs(ps)...)
	in = append(in, pods...)
	in = append(in, resKind)
	in = append(in, vtC10EncList(res)...)
	in = append(in, sysKind)
	in = append(in, vtC10EncList(sys)...)
	return label, in
}

func vtC10GenQuota(r *rand.Rand) (string, []int64) {
	capM := []int64{1000, 2000, 4000, 8000, 16000, 64000, 80000, 128000, 3500, 7900}[r.Intn(10)]
	var budget int64
	switch r.Intn(6) {
	case 0:
		budget = int64(r.Intn(60)) - 20 // below or at the minimum quota
	case 1:
		budget = -int64(r.Intn(5000))
	default:
		budget = r.Int63n(capM + 2000)
	}
	target := budget * 100
	if target < 2000 {
		target = 2000
	}
	capCores := (capM + 999) / 1000
	var cur int64
	switch r.Intn(7) {
	case 0:
		cur = -1
	case 1:
		cur = target
	case 2:
		cur = target + int64(r.Intn(7)-3)*capCores*500 // around the bypass threshold
	case 3:
		cur = target - capCores*10000 + int64(r.Intn(3)-1) // around the step limit
	case 4:
		cur = target + r.Int63n(capM*100+1)
	default:
		cur = r.Int63n(capM*100 + 1)
	}
	if cur < -1 {
		cur = 2000
	}
	return "quota", []int64{4, budget, capM, cur}
}

// vtC10GenHistory draws up to six rounds on one plugin instance; budgets come from a pool of two
// values so that the same quota is computed again after a recovery or an external reset.
func vtC10GenHistory(r *rand.Rand) (string, []int64) {
	capM := []int64{2000, 4000, 8000, 16000, 64000, 80000, 3500}[r.Intn(7)]
	pool := []int64{r.Int63n(capM + 1), r.Int63n(capM + 1)}
	if r.Intn(4) == 0 {
		pool[1] = int64(r.Intn(30)) // at or below the minimum quota
	}
	init := int64(-1)
	if r.Intn(3) == 0 {
		init = r.Int63n(capM*100 + 1)
	}
	n := 2 + r.Intn(5)
	in := []int64{5, capM, init, int64(n)}
	for i := 0; i < n; i++ {
		switch r.Intn(8) {
		case 0, 1, 2, 3:
			in = append(in, 1, pool[r.Intn(2)])
		case 4, 5:
			in = append(in, 2, 0)
		case 6:
			v := int64(-1)
			if r.Intn(3) == 0 {
				v = r.Int63n(capM*100 + 1)
			}
			in = append(in, 3, v)
		default:
			in = append(in, 4, int64(r.Intn(5000)))
		}
	}
	return "quota-history", in
}

// vtC10GenRounds draws a node (topology, reservation annotation, system-QoS cpuset, kubelet policy), a pod set with
// QoS classes and cpuset annotations, host applications, and a history of up to six whole rounds on one plugin
// instance: cpuset-policy, cfsQuota-policy and disabled rounds in any order, rounds during which the metric cache
// refuses queries, external rewrites of the quota file.  Degenerate styles: every cpu protected, no pods.
func vtC10GenRounds(r *rand.Rand) (string, []int64) {
	label := "rounds"
	ps := vtC10Topo(r)
	ids := []int64{}
	for _, p := range ps {
		ids = append(ids, p.cpu)
	}
	n := len(ids)
	capM := int64(n) * 1000
	if n == 0 || r.Intn(6) == 0 {
		capM = []int64{2000, 4000, 8000, 16000, 3500}[r.Intn(5)]
	}
	kubeRes := []int64{0, 0, 500, 1000, int64(r.Intn(2000))}[r.Intn(5)]
	if kubeRes > capM {
		kubeRes = capM
	}
	hasAlloc := vtB(r.Intn(12) != 0)
	free := append([]int64{}, ids...)
	take := func(k int) []int64 {
		if k > len(free) {
			k = len(free)
		}
		perm := r.Perm(len(free))
		got := []int64{}
		rest := []int64{}
		for j, i := range perm {
			if j < k {
				got = append(got, free[i])
			} else {
				rest = append(rest, free[i])
			}
		}
		free = rest
		return got
	}
	sty := func() int64 {
		if r.Intn(5) < 3 {
			return 0
		}
		return int64(1 + r.Intn(4))
	}
	// reservation annotation
	var anState int64
	switch r.Intn(8) {
	case 0:
		anState = 0
	case 1:
		anState = 1 + 10*int64(r.Intn(2))
	case 2:
		anState = 2 + 10*int64(r.Intn(5))
	default:
		anState = 3 + 10*int64(r.Intn(2))
	}
	anPolicy := int64(r.Intn(4))
	if r.Intn(3) == 0 {
		anPolicy = 2
	}
	hasRes := vtB(r.Intn(3) == 0)
	resMicro := []int64{0, 500000, 1000000, 2000000, 1500500, int64(r.Intn(4000)) * 1000}[r.Intn(6)]
	resCPUs := []int64{}
	if r.Intn(2) == 0 {
		resCPUs = take(1 + r.Intn(3))
		if r.Intn(6) == 0 {
			resCPUs = append(resCPUs, int64(40+r.Intn(3))) // a reserved id that is not a cpu of this node
		}
	}
	cpusStyle := sty()
	if len(resCPUs) > 0 && r.Intn(12) == 0 {
		cpusStyle = 5
	}
	// pods
	np := r.Intn(5)
	if r.Intn(10) == 0 {
		np = 0
		label = "rounds-nopods"
	}
	pods := []int64{int64(np)}
	podHasMetric := []bool{}
	for i := 0; i < np; i++ {
		lab := int64(r.Intn(6))
		if r.Intn(2) == 0 {
			lab = int64(1 + r.Intn(2))
		}
		hm := r.Intn(8) != 0
		podHasMetric = append(podHasMetric, hm)
		pods = append(pods, lab+10*sty(), vtB(r.Intn(3) == 0), vtB(hm))
		pods = append(pods, vtC10EncList(take(r.Intn(4)))...)
	}
	nh := r.Intn(3)
	hosts := []int64{int64(nh)}
	hostHasMetric := []bool{}
	for i := 0; i < nh; i++ {
		qos := int64(r.Intn(6))
		if r.Intn(2) == 0 {
			qos = 4
		}
		hm := r.Intn(6) != 0
		hostHasMetric = append(hostHasMetric, hm)
		hosts = append(hosts, qos, int64(r.Intn(3)), vtB(hm))
	}
	sysKind := int64(r.Intn(4))
	sys := []int64{}
	if sysKind != 0 {
		sys = take(r.Intn(3))
	}
	if r.Intn(10) == 0 && n > 0 {
		label = "rounds-allprotected"
		if r.Intn(2) == 0 || np == 0 {
			sysKind = int64(1 + r.Intn(2))
			sys = append(sys, free...)
		} else {
			// the first pod becomes an LSE pod owning every remaining cpu
			j := 1
			pods[j] = 1 + 10*(pods[j]/10)
			k := int(pods[j+3])
			rest := append([]int64{}, pods[j+4+k:]...)
			own := append(append([]int64{}, pods[j+4:j+4+k]...), free...)
			pods = append(pods[:j+3], vtC10EncList(own)...)
			pods = append(pods, rest...)
		}
		free = nil
	}
	if sysKind != 0 {
		sysKind += 10 * sty()
	}
	thr := []int64{50, 65, 70, 100, int64(r.Intn(121))}[r.Intn(5)]
	hasMin := int64(r.Intn(2))
	minPct := []int64{0, 5, 10, 25, int64(r.Intn(60))}[r.Intn(5)]
	static := vtB(r.Intn(4) == 0)
	var old []int64
	switch r.Intn(5) {
	case 0:
		old = vtC10Subset(r, ids, 1)
	case 1:
		old = append([]int64{}, ids...)
	default:
		old = vtC10Subset(r, ids, 1+r.Intn(n+1))
	}
	if len(old) == 0 && r.Intn(3) != 0 {
		old = []int64{int64(r.Intn(4))}
	}
	initQuota := int64(-1)
	if r.Intn(3) == 0 {
		initQuota = r.Int63n(capM*100 + 1)
	}
	in := []int64{7, capM, hasAlloc, capM - kubeRes, anState, anPolicy, hasRes, resMicro, cpusStyle}
	in = append(in, vtC10EncList(resCPUs)...)
	in = append(in, thr, hasMin, minPct, static, sysKind)
	in = append(in, vtC10EncList(sys)...)
	in = append(in, vtC10EncList(old)...)
	in = append(in, initQuota)
	in = append(in, vtC10EncProcs(ps)...)
	in = append(in, pods...)
	in = append(in, hosts...)
	capU := capM * 64 / 1000
	nops := 2 + r.Intn(5)
	in = append(in, int64(nops))
	// the pod set changes between rounds: every pod has a life span [from, to) in rounds (mostly the whole history;
	// otherwise it is deleted or created in between), and any pod may be missing from a single round
	from := make([]int, np)
	to := make([]int, np)
	for i := 0; i < np; i++ {
		from[i], to[i] = 0, nops
		switch r.Intn(4) {
		case 0:
			to[i] = 1 + r.Intn(nops) // deleted after some rounds
		case 1:
			from[i] = r.Intn(nops) // created later
		}
	}
	if np > 0 {
		label += "-podchurn"
	}
	for k := 0; k < nops; k++ {
		if r.Intn(8) == 0 {
			v := int64(-1)
			if r.Intn(2) == 0 {
				v = r.Int63n(capM*100 + 1)
			}
			in = append(in, 2, v)
			continue
		}
		mode := []int64{0, 0, 0, 1, 1, 2}[r.Intn(6)]
		fail := vtB(r.Intn(10) == 0)
		var sum int64
		uses := []int64{}
		for i := 0; i < np+nh; i++ {
			var u int64
			switch r.Intn(4) {
			case 0:
				u = int64(r.Intn(8))
			default:
				u = r.Int63n(capU/3 + 1)
			}
			counted := false
			if i < np {
				counted = podHasMetric[i]
			} else {
				counted = hostHasMetric[i-np]
			}
			if i < np && (k < from[i] || k >= to[i] || r.Intn(12) == 0) {
				u, counted = -1, false // the pod does not exist in this round
			}
			if counted {
				sum += u
			}
			uses = append(uses, u)
		}
		nodeU := sum + r.Int63n(capU/4+1)
		if r.Intn(8) == 0 {
			nodeU = sum - r.Int63n(sum+1)
		}
		in = append(in, 1, mode, fail, nodeU)
		in = append(in, uses...)
	}
	return label, in
}

func vtC10Gen(r *rand.Rand, i int) (string, []int64) {
	switch i % 10 {
	case 0:
		if r.Intn(3) == 0 {
			return vtC10GenBudget(r)
		}
		return vtC10GenBudget6(r)
	case 1:
		return vtC10GenBudget6(r)
	case 2, 3:
		return vtC10GenPick(r)
	case 4, 9:
		return vtC10GenRounds(r)
	case 5, 6:
		return vtC10GenCPUSet(r)
	case 7:
		return vtC10GenQuota(r)
	default:
		return vtC10GenHistory(r)
	}
}

func TestVerifC10(t *testing.T) {
	vtC10T = t
	fs := flag.NewFlagSet("klog", flag.ContinueOnError)
	klog.InitFlags(fs)
	_ = fs.Set("logtostderr", "false")
	_ = fs.Set("alsologtostderr", "false")
	_ = fs.Set("stderrthreshold", "FATAL")
	klog.SetOutput(io.Discard)
	vtMain(t, "C10", vtC10Gen, vtC10Exec)
}
